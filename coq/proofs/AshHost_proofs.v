(* C05 -- proofs about the host's ASH endpoint (model/AshHost.v).  Statements are restated in
   props/C05.v.  Time is PrimFloat; no float axioms are used: the bounds argument only inspects
   the two comparisons inside [clamp], and three closed facts about the constants are computed.

   Structure: (1) vocabulary, (2) floats and runs, (3) start_next with enough fuel ([sn]) and the
   three ways a send ends or repeats ([closed]), (4) received frames, (5) the per-step theorems
   (arbitrary states), (6) invariants of reachable states, (7) the retry budget. *)
From Coq Require Import PrimFloat NArith List Bool Lia ZifyBool ZifyN Arith.
Import ListNotations.
Require Import BV.gen.GenAsh BV.model.AshCodec BV.model.AshRx BV.model.AshHost.
Open Scope N_scope.

Definition outs (es : list hevent) : list hout := concat (snd (host_run h_init es)).
Definition final (es : list hevent) : hstate := fst (host_run h_init es).
Definition submits (es : list hevent) : list N :=
  flat_map (fun e => match e with Submit id _ => [id] | _ => [] end) es.
Definition submits_unique (es : list hevent) : Prop := NoDup (submits es).
Definition reachable (st : hstate) : Prop := exists es, submits_unique es /\ st = final es.
Definition datas (id : N) (l : list hout) : list (N * N * list N) :=
  flat_map (fun o => match o with
                     | HData i frm re _ p _ => if i =? id then [(frm, re, p)] else []
                     | _ => [] end) l.
Definition in_bounds (t : float) : Prop :=
  t = T_RX_ACK_MIN_F \/ t = T_RX_ACK_MAX_F
  \/ (PrimFloat.ltb T_RX_ACK_MIN_F t = true /\ PrimFloat.ltb T_RX_ACK_MAX_F t = false).
Definition has_frame (P : frame -> Prop) (e : hevent) : Prop :=
  match e with Frames fs => exists f, In f fs /\ P f | _ => False end.
Definition is_nak (f : frame) : Prop := match f with Nak _ _ _ => True | _ => False end.
Definition is_rstack_or_rst (f : frame) : Prop :=
  match f with Rstack _ _ | Rst => True | _ => False end.
Definition acks (n : N) (f : frame) : Prop :=
  match f with
  | Data _ _ a _ | Ack _ _ a | Nak _ _ a => a mod 8 = n mod 8
  | _ => False
  end.
Definition quiescent (st : hstate) : Prop := forall c, cur st = Some c -> cfut c = FPending.

(* ---- floats: only case analysis on the two comparisons inside clamp ---------------------------- *)
Lemma min_lt_max : PrimFloat.ltb T_RX_ACK_MIN_F T_RX_ACK_MAX_F = true.
Proof. vm_compute. reflexivity. Qed.

Lemma clamp_in_bounds : forall v, in_bounds (clamp v).
Proof.
  intro v. unfold clamp, fmin, fmax, in_bounds.
  destruct (PrimFloat.ltb T_RX_ACK_MAX_F v) eqn:E1.
  - rewrite min_lt_max. right; left; reflexivity.
  - destruct (PrimFloat.ltb T_RX_ACK_MIN_F v) eqn:E2.
    + right; right; split; assumption.
    + left; reflexivity.
Qed.

Lemma init_in_bounds : in_bounds T_RX_ACK_INIT_F.
Proof. right; right. split; vm_compute; reflexivity. Qed.

Lemma on_ack_time_in_bounds : forall t d, in_bounds (on_ack_time t d).
Proof. intros t d. apply clamp_in_bounds. Qed.
Lemma on_timeout_in_bounds : forall t, in_bounds (on_timeout t).
Proof. intro t. apply clamp_in_bounds. Qed.

(* ---- runs ------------------------------------------------------------------------------------- *)
Lemma host_run_app : forall es1 es2 st,
  host_run st (es1 ++ es2) =
  (fst (host_run (fst (host_run st es1)) es2),
   snd (host_run st es1) ++ snd (host_run (fst (host_run st es1)) es2)).
Proof.
  induction es1 as [|e es1 IH]; intros es2 st; cbn [host_run app].
  - cbn [fst snd app]. destruct (host_run st es2); reflexivity.
  - destruct (host_step st e) as [sa oa]. rewrite IH.
    destruct (host_run sa es1) as [sb ob]. cbn [fst snd].
    destruct (host_run sb es2) as [sc oc]. reflexivity.
Qed.

Lemma final_snoc : forall es e, final (es ++ [e]) = fst (host_step (final es) e).
Proof.
  intros es e. unfold final. rewrite host_run_app. cbn [fst host_run].
  destruct (host_step (fst (host_run h_init es)) e); reflexivity.
Qed.

Lemma outs_snoc : forall es e, outs (es ++ [e]) = outs es ++ snd (host_step (final es) e).
Proof.
  intros es e. unfold outs, final. rewrite host_run_app. cbn [snd host_run].
  destruct (host_step (fst (host_run h_init es)) e) as [s o]. cbn [snd].
  rewrite concat_app. cbn [concat]. rewrite app_nil_r. reflexivity.
Qed.

Lemma submits_snoc : forall es e,
  submits (es ++ [e]) = submits es ++ match e with Submit id _ => [id] | _ => [] end.
Proof.
  intros es e. unfold submits. rewrite flat_map_app. cbn [flat_map]. rewrite app_nil_r. reflexivity.
Qed.

Lemma final_nil : final [] = h_init. Proof. reflexivity. Qed.
Lemma outs_nil : outs [] = []. Proof. reflexivity. Qed.

(* ---- small facts ------------------------------------------------------------------------------- *)
Definition alldone (l : list hout) : Prop :=
  forall o, In o l -> exists i, o = HDone i (OFailure ERROR_EXCEEDED_MAXIMUM_ACK_TIMEOUT_COUNT).
Definition rxonly (l : list hout) : Prop :=
  forall o, In o l -> match o with HData _ _ _ _ _ _ | HDone _ _ => False | _ => True end.

Lemma alldone_nil : alldone [].
Proof. intros o Ho. destruct Ho. Qed.

Lemma alldone_app : forall a b, alldone a -> alldone b -> alldone (a ++ b).
Proof.
  intros a b Ha Hb o Ho. apply in_app_or in Ho. destruct Ho as [Ho|Ho]; [apply Ha|apply Hb]; exact Ho.
Qed.

Lemma done_out_cases : forall st id o,
  (done_out st id o = [] /\ memN id (cancelled st) = true)
  \/ (done_out st id o = [HDone id o] /\ memN id (cancelled st) = false).
Proof.
  intros st id o. unfold done_out. destruct (memN id (cancelled st)); [left|right]; split; reflexivity.
Qed.

Lemma done_out_in : forall st id o x, In x (done_out st id o) -> x = HDone id o.
Proof.
  intros st id o x Hx. destruct (done_out_cases st id o) as [[E _]|[E _]]; rewrite E in Hx.
  - destruct Hx.
  - destruct Hx as [Hx|[]]. symmetry; exact Hx.
Qed.

Lemma alldone_done_out : forall st id,
  alldone (done_out st id (OFailure ERROR_EXCEEDED_MAXIMUM_ACK_TIMEOUT_COUNT)).
Proof. intros st id o Ho. exists id. eapply done_out_in; exact Ho. Qed.

Lemma succ_neq0 : forall a, (a + 1 =? 0) = false.
Proof. intro a. apply N.eqb_neq. lia. Qed.

(* ---- start_next with enough fuel ---------------------------------------------------------------- *)
Definition sn (st : hstate) : hstate * list hout := start_next (S (length (waiters st))) st.

Definition flushed (st : hstate) : hstate :=
  {| tx_seq := tx_seq st; rx_seq := rx_seq st; failed := failed st; t_ack := t_ack st; now := now st;
     waiters := []; cur := None; cancelled := cancelled st |}.

Definition started (st : hstate) (id : N) (p : list N) (ws : list (N * list N)) : hstate :=
  {| tx_seq := (tx_seq st + 1) mod 8; rx_seq := rx_seq st; failed := false; t_ack := t_ack st;
     now := now st; waiters := ws;
     cur := Some {| cid := id; cpayload := p; cfrm := tx_seq st; cattempt := 0; cfut := FPending;
                    csent := now st; cdeadline := PrimFloat.add (now st) (t_ack st) |};
     cancelled := cancelled st |}.

Lemma start_next_failed : forall fuel st,
  failed st = true -> cur st = None -> (length (waiters st) < fuel)%nat ->
  exists oF, alldone oF /\ start_next fuel st = (flushed st, oF).
Proof.
  induction fuel as [|fuel IH]; intros st Hf Hc Hl; [lia|].
  destruct st as [tx rx fl ta nw ws cu ca].
  cbn [failed cur waiters] in Hf, Hc, Hl. subst fl cu.
  destruct ws as [|[id p] ws].
  - exists []. split; [exact alldone_nil|reflexivity].
  - cbn [start_next waiters failed tx_seq rx_seq t_ack now cancelled].
    cbn [length] in Hl.
    destruct (IH {| tx_seq := tx; rx_seq := rx; failed := true; t_ack := ta; now := nw;
                    waiters := ws; cur := None; cancelled := ca |} eq_refl eq_refl
                 ltac:(cbn [waiters]; lia)) as (oF & HoF & Heq).
    rewrite Heq. eexists. split; [|reflexivity].
    apply alldone_app; [apply alldone_done_out|exact HoF].
Qed.

Lemma sn_cases : forall st, cur st = None ->
  (exists oF, alldone oF /\ sn st = (flushed st, oF) /\ (failed st = true \/ waiters st = []))
  \/ (exists id p ws, failed st = false /\ waiters st = (id, p) :: ws /\
        sn st = (started st id p ws, [HData id (tx_seq st) 0 (rx_seq st) p (now st)])).
Proof.
  intros st Hc. destruct (failed st) eqn:Hf.
  - left. destruct (start_next_failed (S (length (waiters st))) st Hf Hc (Nat.lt_succ_diag_r _))
      as (oF & HoF & Heq).
    exists oF. split; [exact HoF|]. split; [exact Heq|left; reflexivity].
  - destruct st as [tx rx fl ta nw ws cu ca]. cbn [failed cur] in Hf, Hc. subst fl cu.
    destruct ws as [|[id p] ws].
    + left. exists []. split; [exact alldone_nil|]. split; [reflexivity|right; reflexivity].
    + right. exists id, p, ws. split; [reflexivity|]. split; [reflexivity|]. reflexivity.
Qed.

(* the send [c] of state [s] has ended: release the semaphore and start whatever is queued *)
Definition close (s : hstate) (pre : list hout) : hstate * list hout :=
  (fst (sn (with_cur s None)), pre ++ snd (sn (with_cur s None))).

Lemma close_cases : forall s pre,
  (exists oF, alldone oF /\ close s pre = (flushed s, pre ++ oF) /\ (failed s = true \/ waiters s = []))
  \/ (exists id p ws, failed s = false /\ waiters s = (id, p) :: ws /\
        close s pre = (started s id p ws, pre ++ [HData id (tx_seq s) 0 (rx_seq s) p (now s)])).
Proof.
  intros s pre. unfold close.
  destruct (sn_cases (with_cur s None) eq_refl) as [(oF & HoF & Heq & Hw)|(id & p & ws & Hf & Hw & Heq)].
  - left. exists oF. rewrite Heq. split; [exact HoF|]. split; [reflexivity|exact Hw].
  - right. exists id, p, ws. rewrite Heq. split; [exact Hf|]. split; [exact Hw|reflexivity].
Qed.

Lemma retry_or_fail_eq : forall st c o,
  retry_or_fail st c o =
  if ACK_TIMEOUTS - 1 <=? cattempt c then
    close (set_failed st true)
          (HReset ERROR_EXCEEDED_MAXIMUM_ACK_TIMEOUT_COUNT :: done_out st (cid c) o)
  else if failed st then
    close st (done_out st (cid c) (OFailure ERROR_EXCEEDED_MAXIMUM_ACK_TIMEOUT_COUNT))
  else transmit st (cid c) (cpayload c) (cfrm c) (cattempt c + 1).
Proof.
  intros st c o. unfold retry_or_fail, close, sn.
  destruct (ACK_TIMEOUTS - 1 <=? cattempt c).
  - destruct (start_next _ (with_cur (set_failed st true) None)) as [s2 o2]. reflexivity.
  - destruct (failed st); [|reflexivity].
    destruct (start_next _ (with_cur st None)) as [s2 o2]. reflexivity.
Qed.

Lemma settle_eq : forall st,
  settle st =
  match cur st with
  | None => (st, [])
  | Some c =>
      match cfut c with
      | FPending => (st, [])
      | FAcked =>
          close (set_t st (on_ack_time (t_ack st) (PrimFloat.sub (now st) (csent c))))
                (done_out st (cid c) OOk)
      | FNaked =>
          retry_or_fail (set_t st (on_ack_time (t_ack st) (PrimFloat.sub (now st) (csent c)))) c ONotAcked
      | FFailed code => close st (done_out st (cid c) (OFailure code))
      end
  end.
Proof.
  intro st. unfold settle, close, sn. destruct (cur st) as [c|]; [|reflexivity].
  destruct (cfut c); try reflexivity.
  - destruct (start_next _ (with_cur (set_t st _) None)) as [s2 o2]. reflexivity.
  - destruct (start_next _ (with_cur st None)) as [s2 o2]. reflexivity.
Qed.

(* ---- how a send ends or repeats ---------------------------------------------------------------- *)
Inductive cause := CAck | CNak | CFail (code : N) | CTimeout.

Definition fut_of (k : cause) : fut :=
  match k with CAck => FAcked | CNak => FNaked | CFail code => FFailed code | CTimeout => FPending end.

Inductive closed (s : hstate) (c : cur_send) (k : cause) : hstate * list hout -> Prop :=
| Cl_flush : forall pre o oF fl,
    (pre = [] \/ (pre = [HReset ERROR_EXCEEDED_MAXIMUM_ACK_TIMEOUT_COUNT] /\ (k = CNak \/ k = CTimeout))) ->
    (o = OOk -> k = CAck) -> alldone oF ->
    (fl = failed s \/ fl = true) -> (fl = true \/ waiters s = []) ->
    closed s c k (flushed (set_failed s fl), pre ++ done_out s (cid c) o ++ oF)
| Cl_next : forall o id p ws,
    (o = OOk -> k = CAck) -> (k = CAck \/ exists code, k = CFail code) ->
    failed s = false -> waiters s = (id, p) :: ws ->
    closed s c k (started s id p ws,
                  done_out s (cid c) o ++ [HData id (tx_seq s) 0 (rx_seq s) p (now s)])
| Cl_retx :
    (k = CNak \/ k = CTimeout) -> failed s = false -> cattempt c < ACK_TIMEOUTS - 1 ->
    closed s c k (transmit s (cid c) (cpayload c) (cfrm c) (cattempt c + 1)).

Lemma closed_close_flush_only : forall s0 s c k pre o,
  failed s = true -> (failed s = failed s0 \/ failed s = true) ->
  tx_seq s = tx_seq s0 -> rx_seq s = rx_seq s0 -> t_ack s = t_ack s0 -> now s = now s0 ->
  waiters s = waiters s0 -> cancelled s = cancelled s0 ->
  (pre = [] \/ (pre = [HReset ERROR_EXCEEDED_MAXIMUM_ACK_TIMEOUT_COUNT] /\ (k = CNak \/ k = CTimeout))) ->
  (o = OOk -> k = CAck) ->
  closed s0 c k (close s (pre ++ done_out s0 (cid c) o)).
Proof.
  intros s0 s c k pre o Hf Hf0 Htx Hrx Hta Hnw Hws Hca Hpre Ho.
  destruct (close_cases s (pre ++ done_out s0 (cid c) o))
    as [(oF & HoF & Heq & Hw)|(id & p & ws & Hf' & _)]; [|congruence].
  rewrite Heq. rewrite <- app_assoc.
  replace (flushed s) with (flushed (set_failed s0 (failed s))).
  - apply Cl_flush; try assumption. left. exact Hf.
  - unfold flushed, set_failed. cbn [tx_seq rx_seq failed t_ack now cancelled].
    rewrite Htx, Hrx, Hta, Hnw, Hca. reflexivity.
Qed.

Lemma retry_closed : forall st c o k,
  (k = CNak \/ k = CTimeout) -> o <> OOk -> closed st c k (retry_or_fail st c o).
Proof.
  intros st c o k Hk Ho. rewrite retry_or_fail_eq.
  destruct (ACK_TIMEOUTS - 1 <=? cattempt c) eqn:Hex.
  - change (HReset ERROR_EXCEEDED_MAXIMUM_ACK_TIMEOUT_COUNT :: done_out st (cid c) o)
      with ([HReset ERROR_EXCEEDED_MAXIMUM_ACK_TIMEOUT_COUNT] ++ done_out st (cid c) o).
    apply closed_close_flush_only; try reflexivity.
    + right; reflexivity.
    + right. split; [reflexivity|exact Hk].
    + intro H; contradiction.
  - destruct (failed st) eqn:Hf.
    + change (done_out st (cid c) (OFailure ERROR_EXCEEDED_MAXIMUM_ACK_TIMEOUT_COUNT))
        with ([] ++ done_out st (cid c) (OFailure ERROR_EXCEEDED_MAXIMUM_ACK_TIMEOUT_COUNT)).
      apply closed_close_flush_only; try reflexivity; try assumption.
      * left; reflexivity.
      * left; reflexivity.
      * intro H; discriminate.
    + apply Cl_retx; [exact Hk|exact Hf|]. apply N.leb_gt in Hex. exact Hex.
Qed.

Lemma close_closed : forall s c k o,
  (o = OOk -> k = CAck) -> (k = CAck \/ exists code, k = CFail code) ->
  closed s c k (close s (done_out s (cid c) o)).
Proof.
  intros s c k o Ho Hk.
  destruct (close_cases s (done_out s (cid c) o))
    as [(oF & HoF & Heq & Hw)|(id & p & ws & Hf & Hw & Heq)]; rewrite Heq.
  - replace (flushed s) with (flushed (set_failed s (failed s))) by reflexivity.
    change (done_out s (cid c) o ++ oF) with ([] ++ done_out s (cid c) o ++ oF).
    apply Cl_flush; try assumption.
    + left; reflexivity.
    + left; reflexivity.
  - apply Cl_next; assumption.
Qed.

(* settle: either nothing to resume, or the current send is closed from a state that differs from
   [st] in the adaptive timeout only *)
Lemma settle_spec : forall st,
  (settle st = (st, []) /\ (cur st = None \/ exists c, cur st = Some c /\ cfut c = FPending))
  \/ (exists c k ta, cur st = Some c /\ cfut c = fut_of k /\ k <> CTimeout /\
        (ta = t_ack st \/ in_bounds ta) /\ closed (set_t st ta) c k (settle st)).
Proof.
  intro st. rewrite settle_eq. destruct (cur st) as [c|] eqn:Hc.
  2:{ left. split; [reflexivity|left; reflexivity]. }
  destruct (cfut c) as [| | |code] eqn:Hfu.
  - left. split; [reflexivity|]. right. exists c. split; [reflexivity|exact Hfu].
  - right. exists c, CAck, (on_ack_time (t_ack st) (PrimFloat.sub (now st) (csent c))).
    split; [reflexivity|]. split; [exact Hfu|]. split; [discriminate|].
    split; [right; apply on_ack_time_in_bounds|].
    apply (close_closed (set_t st _) c CAck OOk); [reflexivity|left; reflexivity].
  - right. exists c, CNak, (on_ack_time (t_ack st) (PrimFloat.sub (now st) (csent c))).
    split; [reflexivity|]. split; [exact Hfu|]. split; [discriminate|].
    split; [right; apply on_ack_time_in_bounds|].
    apply retry_closed; [left; reflexivity|discriminate].
  - right. exists c, (CFail code), (t_ack st).
    split; [reflexivity|]. split; [exact Hfu|]. split; [discriminate|].
    split; [left; reflexivity|].
    pose proof (close_closed (set_t st (t_ack st)) c (CFail code) (OFailure code)) as H.
    assert (E : close (set_t st (t_ack st)) (done_out (set_t st (t_ack st)) (cid c) (OFailure code))
                = close st (done_out st (cid c) (OFailure code))).
    { destruct st; reflexivity. }
    rewrite <- E. apply H; [discriminate|right; exists code; reflexivity].
Qed.

Lemma tick_spec : forall st,
  (host_step st Tick = (st, []) /\
   (cur st = None \/ exists c, cur st = Some c /\ cfut c <> FPending))
  \/ (exists c ta, cur st = Some c /\ cfut c = FPending /\ in_bounds ta /\
        closed (set_t (set_now st (cdeadline c)) ta) c CTimeout (host_step st Tick)).
Proof.
  intro st. cbn [host_step]. destruct (cur st) as [c|] eqn:Hc.
  2:{ left. split; [reflexivity|left; reflexivity]. }
  destruct (cfut c) eqn:Hfu.
  2,3,4: left; split; [reflexivity|]; right; exists c; split; [reflexivity|rewrite Hfu; discriminate].
  right. exists c, (on_timeout (t_ack st)). split; [reflexivity|]. split; [exact Hfu|].
  split; [apply on_timeout_in_bounds|]. apply retry_closed; [right; reflexivity|discriminate].
Qed.

(* ---- received frames ---------------------------------------------------------------------------- *)
Definition set_fut (c : cur_send) (y : fut) : cur_send :=
  {| cid := cid c; cpayload := cpayload c; cfrm := cfrm c; cattempt := cattempt c; cfut := y;
     csent := csent c; cdeadline := cdeadline c |}.

Lemma set_fut_same : forall c, set_fut c (cfut c) = c.
Proof. intro c. destruct c; reflexivity. Qed.

Definition core (st : hstate) (f : frame) : hstate :=
  match f with
  | Data _ _ ack _ => handle_ack st ack
  | Ack _ _ ack => handle_ack st ack
  | Nak _ _ ack => resolve (handle_ack st ack) FNaked
  | Rstack _ _ =>
      {| tx_seq := 0; rx_seq := rx_seq st; failed := false; t_ack := clamp T_RX_ACK_INIT_F; now := now st;
         waiters := waiters st; cur := cur st; cancelled := cancelled st |}
  | Rst => set_failed st false
  | Error _ code => resolve (set_failed st true) (FFailed code)
  end.

Lemma apply_frame_eq : forall st f,
  apply_frame st f = (set_rx (core st f) (fst (rx_frame (rx_seq st) f)),
                      flat_map out_of_rx (snd (rx_frame (rx_seq st) f))).
Proof.
  intros st f. unfold apply_frame, core. destruct (rx_frame (rx_seq st) f) as [rx' o]. reflexivity.
Qed.

Lemma rxonly_out : forall l, rxonly (flat_map out_of_rx l).
Proof.
  intros l o Ho. apply in_flat_map in Ho. destruct Ho as (x & _ & Hx).
  destruct x; cbn [out_of_rx] in Hx; try (destruct Hx as [Hx|[]]; subst o; exact I); destruct Hx.
Qed.

Lemma rxonly_nil : rxonly [].
Proof. intros o Ho. destruct Ho. Qed.

Lemma rxonly_app : forall a b, rxonly a -> rxonly b -> rxonly (a ++ b).
Proof.
  intros a b Ha Hb o Ho. apply in_app_or in Ho. destruct Ho as [Ho|Ho]; [apply Ha|apply Hb]; exact Ho.
Qed.

Lemma af_out : forall st f, rxonly (snd (apply_frame st f)).
Proof. intros st f. rewrite apply_frame_eq. apply rxonly_out. Qed.

Lemma ack_arith : forall a n, (a + 7) mod 8 = n -> a mod 8 = ((n + 1) mod 8) mod 8.
Proof.
  intros a n H. rewrite N.mod_mod by discriminate. subst n.
  rewrite N.add_mod_idemp_l by discriminate.
  replace (a + 7 + 1) with (a + 1 * 8) by lia. rewrite N.mod_add by discriminate. reflexivity.
Qed.

(* what one frame can do to the acknowledgement future of the current send *)
Definition fut_tr (P : (frame -> Prop) -> Prop) (c : cur_send) (y : fut) : Prop :=
  y = cfut c
  \/ (cfut c = FPending /\
      ((y = FAcked /\ P (acks ((cfrm c + 1) mod 8)))
       \/ (y = FNaked /\ P is_nak)
       \/ (exists code, y = FFailed code /\ P (fun f => exists v, f = Error v code)))).

Lemma resolve_cur : forall st c y, cur st = Some c ->
  cur (resolve st y) = Some (set_fut c (match cfut c with FPending => y | z => z end)).
Proof.
  intros st c y Hc. unfold resolve. rewrite Hc.
  destruct (cfut c) eqn:Hfu; cbn [with_cur cur]; try (rewrite Hc, <- Hfu, set_fut_same; reflexivity).
  reflexivity.
Qed.

Lemma handle_ack_cur : forall st c a, cur st = Some c ->
  cur (handle_ack st a) =
  Some (set_fut c (if (a + 7) mod 8 =? cfrm c then match cfut c with FPending => FAcked | z => z end
                   else cfut c)).
Proof.
  intros st c a Hc. unfold handle_ack. rewrite Hc.
  destruct ((a + 7) mod 8 =? cfrm c).
  - apply resolve_cur. exact Hc.
  - rewrite set_fut_same. exact Hc.
Qed.

Lemma af_cur : forall st f c, cur st = Some c ->
  exists y, fut_tr (fun P => P f) c y /\ cur (fst (apply_frame st f)) = Some (set_fut c y).
Proof.
  intros st f c Hc. rewrite apply_frame_eq. cbn [fst set_rx cur]. unfold fut_tr.
  destruct f as [frm re a p|res nr a|res nr a| |v code|v code]; cbn [core].
  - rewrite (handle_ack_cur st c a Hc). eexists. split; [|reflexivity].
    destruct ((a + 7) mod 8 =? cfrm c) eqn:E; [|left; reflexivity].
    apply N.eqb_eq in E. destruct (cfut c) eqn:Hfu; try (left; reflexivity).
    right. split; [reflexivity|]. left. split; [reflexivity|]. cbn [acks]. apply ack_arith. exact E.
  - rewrite (handle_ack_cur st c a Hc). eexists. split; [|reflexivity].
    destruct ((a + 7) mod 8 =? cfrm c) eqn:E; [|left; reflexivity].
    apply N.eqb_eq in E. destruct (cfut c) eqn:Hfu; try (left; reflexivity).
    right. split; [reflexivity|]. left. split; [reflexivity|]. cbn [acks]. apply ack_arith. exact E.
  - rewrite (resolve_cur _ _ FNaked (handle_ack_cur st c a Hc)). cbn [set_fut cfut cid cpayload cfrm cattempt csent cdeadline].
    eexists. split; [|reflexivity].
    destruct ((a + 7) mod 8 =? cfrm c) eqn:E.
    + apply N.eqb_eq in E. destruct (cfut c) eqn:Hfu; try (left; reflexivity).
      right. split; [reflexivity|]. left. split; [reflexivity|]. cbn [acks]. apply ack_arith. exact E.
    + destruct (cfut c) eqn:Hfu; try (left; reflexivity).
      right. split; [reflexivity|]. right; left. split; [reflexivity|exact I].
  - exists (cfut c). split; [left; reflexivity|]. cbn [set_failed cur]. rewrite set_fut_same. exact Hc.
  - exists (cfut c). split; [left; reflexivity|]. cbn [cur]. rewrite set_fut_same. exact Hc.
  - assert (Hc' : cur (set_failed st true) = Some c) by exact Hc.
    rewrite (resolve_cur _ _ (FFailed code) Hc'). eexists. split; [|reflexivity].
    destruct (cfut c) eqn:Hfu; try (left; reflexivity).
    right. split; [reflexivity|]. right; right. exists code. split; [reflexivity|]. exists v. reflexivity.
Qed.

Lemma resolve_misc : forall st y,
  tx_seq (resolve st y) = tx_seq st /\ failed (resolve st y) = failed st /\
  t_ack (resolve st y) = t_ack st /\ now (resolve st y) = now st /\
  waiters (resolve st y) = waiters st /\ cancelled (resolve st y) = cancelled st /\
  (cur st = None -> cur (resolve st y) = None).
Proof.
  intros st y. unfold resolve. destruct (cur st) as [c|] eqn:Hc.
  - destruct (cfut c); cbn [with_cur tx_seq failed t_ack now waiters cancelled];
      repeat split; try reflexivity; intro H; discriminate.
  - repeat split; try reflexivity. intros _. exact Hc.
Qed.

Lemma handle_ack_misc : forall st a,
  tx_seq (handle_ack st a) = tx_seq st /\ failed (handle_ack st a) = failed st /\
  t_ack (handle_ack st a) = t_ack st /\ now (handle_ack st a) = now st /\
  waiters (handle_ack st a) = waiters st /\ cancelled (handle_ack st a) = cancelled st /\
  (cur st = None -> cur (handle_ack st a) = None).
Proof.
  intros st a. unfold handle_ack. destruct (cur st) as [c|] eqn:Hc.
  - destruct ((a + 7) mod 8 =? cfrm c).
    + pose proof (resolve_misc st FAcked) as H. rewrite Hc in H. exact H.
    + repeat split; try reflexivity. intro H; discriminate.
  - repeat split; try reflexivity. intros _. exact Hc.
Qed.

(* fields a frame never touches *)
Lemma af_misc : forall st f,
  now (fst (apply_frame st f)) = now st /\ waiters (fst (apply_frame st f)) = waiters st /\
  cancelled (fst (apply_frame st f)) = cancelled st /\
  (cur st = None -> cur (fst (apply_frame st f)) = None).
Proof.
  intros st f. rewrite apply_frame_eq. cbn [fst set_rx now waiters cancelled cur].
  destruct f as [frm re a p|res nr a|res nr a| |v code|v code]; cbn [core].
  - destruct (handle_ack_misc st a) as (_ & _ & _ & H1 & H2 & H3 & H4). auto.
  - destruct (handle_ack_misc st a) as (_ & _ & _ & H1 & H2 & H3 & H4). auto.
  - destruct (handle_ack_misc st a) as (_ & _ & _ & H1 & H2 & H3 & H4).
    destruct (resolve_misc (handle_ack st a) FNaked) as (_ & _ & _ & K1 & K2 & K3 & K4).
    rewrite K1, K2, K3. repeat split; auto.
  - cbn [set_failed now waiters cancelled cur]. auto.
  - cbn [now waiters cancelled cur]. auto.
  - destruct (resolve_misc (set_failed st true) (FFailed code)) as (_ & _ & _ & K1 & K2 & K3 & K4).
    rewrite K1, K2, K3. cbn [set_failed now waiters cancelled]. repeat split; auto.
Qed.

Lemma af_tx : forall st f, ~ is_rstack_or_rst f -> tx_seq (fst (apply_frame st f)) = tx_seq st.
Proof.
  intros st f Hn. rewrite apply_frame_eq. cbn [fst set_rx tx_seq].
  destruct f as [frm re a p|res nr a|res nr a| |v code|v code]; cbn [core].
  - apply handle_ack_misc.
  - apply handle_ack_misc.
  - destruct (resolve_misc (handle_ack st a) FNaked) as (K & _). rewrite K. apply handle_ack_misc.
  - reflexivity.
  - exfalso. apply Hn. exact I.
  - destruct (resolve_misc (set_failed st true) (FFailed code)) as (K & _). rewrite K. reflexivity.
Qed.

Lemma af_tack : forall st f,
  t_ack (fst (apply_frame st f)) = t_ack st \/ t_ack (fst (apply_frame st f)) = clamp T_RX_ACK_INIT_F.
Proof.
  intros st f. rewrite apply_frame_eq. cbn [fst set_rx t_ack].
  destruct f as [frm re a p|res nr a|res nr a| |v code|v code]; cbn [core].
  - left. apply handle_ack_misc.
  - left. apply handle_ack_misc.
  - left. destruct (resolve_misc (handle_ack st a) FNaked) as (_ & _ & K & _). rewrite K. apply handle_ack_misc.
  - left. reflexivity.
  - right. reflexivity.
  - left. destruct (resolve_misc (set_failed st true) (FFailed code)) as (_ & _ & K & _). rewrite K. reflexivity.
Qed.

(* the failed flag: unchanged, or cleared by RSTACK / RST, or set by ERROR (which also resolves the
   pending future) *)
Lemma af_failed : forall st f,
  (failed (fst (apply_frame st f)) = failed st /\ ~ is_rstack_or_rst f)
  \/ (is_rstack_or_rst f /\ failed (fst (apply_frame st f)) = false)
  \/ (failed (fst (apply_frame st f)) = true /\
      forall c', cur (fst (apply_frame st f)) = Some c' -> cfut c' <> FPending).
Proof.
  intros st f. rewrite apply_frame_eq. cbn [fst set_rx failed cur].
  destruct f as [frm re a p|res nr a|res nr a| |v code|v code]; cbn [core].
  - left. split; [apply handle_ack_misc|intro H; exact H].
  - left. split; [apply handle_ack_misc|intro H; exact H].
  - left. split; [|intro H; exact H].
    destruct (resolve_misc (handle_ack st a) FNaked) as (_ & K & _). rewrite K. apply handle_ack_misc.
  - right; left. split; [exact I|reflexivity].
  - right; left. split; [exact I|reflexivity].
  - right; right. destruct (resolve_misc (set_failed st true) (FFailed code)) as (_ & K & _).
    split; [rewrite K; reflexivity|].
    intros c' Hc'. destruct (cur st) as [c|] eqn:Hc.
    + assert (Hc2 : cur (set_failed st true) = Some c) by exact Hc.
      rewrite (resolve_cur _ _ (FFailed code) Hc2) in Hc'. injection Hc' as Hc'. subst c'.
      cbn [set_fut cfut]. destruct (cfut c); discriminate.
    + destruct (resolve_misc (set_failed st true) (FFailed code)) as (_ & _ & _ & _ & _ & _ & K7).
      rewrite (K7 Hc) in Hc'. discriminate.
Qed.

Lemma af_error : forall st v code, In (HReset code) (snd (apply_frame st (Error v code))).
Proof. intros st v code. rewrite apply_frame_eq. cbn. left. reflexivity. Qed.

(* ---- a batch of frames -------------------------------------------------------------------------- *)
Lemma apply_frames_cons : forall st f fs,
  apply_frames st (f :: fs) =
  (fst (apply_frames (fst (apply_frame st f)) fs),
   snd (apply_frame st f) ++ snd (apply_frames (fst (apply_frame st f)) fs)).
Proof.
  intros st f fs. cbn [apply_frames]. destruct (apply_frame st f) as [s1 o1].
  cbn [fst snd]. destruct (apply_frames s1 fs) as [s2 o2]. reflexivity.
Qed.

Lemma afs_out : forall fs st, rxonly (snd (apply_frames st fs)).
Proof.
  induction fs as [|f fs IH]; intro st.
  - exact rxonly_nil.
  - rewrite apply_frames_cons. cbn [snd]. apply rxonly_app; [apply af_out|apply IH].
Qed.

Lemma afs_misc : forall fs st,
  now (fst (apply_frames st fs)) = now st /\ waiters (fst (apply_frames st fs)) = waiters st /\
  cancelled (fst (apply_frames st fs)) = cancelled st /\
  (cur st = None -> cur (fst (apply_frames st fs)) = None).
Proof.
  induction fs as [|f fs IH]; intro st.
  - cbn [apply_frames fst]. repeat split; try reflexivity. intro Hn; exact Hn.
  - rewrite apply_frames_cons. cbn [fst].
    destruct (IH (fst (apply_frame st f))) as (H1 & H2 & H3 & H4).
    destruct (af_misc st f) as (K1 & K2 & K3 & K4).
    rewrite H1, H2, H3, K1, K2, K3. repeat split; try reflexivity.
    intro Hn. apply H4. apply K4. exact Hn.
Qed.

Lemma afs_tx : forall fs st, ~ has_frame is_rstack_or_rst (Frames fs) ->
  tx_seq (fst (apply_frames st fs)) = tx_seq st.
Proof.
  induction fs as [|f fs IH]; intros st Hn.
  - reflexivity.
  - rewrite apply_frames_cons. cbn [fst]. rewrite IH.
    + apply af_tx. intro Hf. apply Hn. exists f. split; [left; reflexivity|exact Hf].
    + intros (g & Hg & Hr). apply Hn. exists g. split; [right; exact Hg|exact Hr].
Qed.

Lemma afs_failed_true : forall fs st, ~ has_frame is_rstack_or_rst (Frames fs) ->
  failed st = true -> failed (fst (apply_frames st fs)) = true.
Proof.
  induction fs as [|f fs IH]; intros st Hn Hf.
  - exact Hf.
  - rewrite apply_frames_cons. cbn [fst]. apply IH.
    + intros (g & Hg & Hr). apply Hn. exists g. split; [right; exact Hg|exact Hr].
    + destruct (af_failed st f) as [[H _]|[[H _]|[H _]]].
      * rewrite H. exact Hf.
      * exfalso. apply Hn. exists f. split; [left; reflexivity|exact H].
      * exact H.
Qed.

Lemma afs_error : forall fs st v code, In (Error v code) fs ->
  In (HReset code) (snd (apply_frames st fs)).
Proof.
  induction fs as [|f fs IH]; intros st v code Hin.
  - destruct Hin.
  - rewrite apply_frames_cons. cbn [snd]. apply in_or_app. destruct Hin as [Hin|Hin].
    + left. subst f. apply af_error.
    + right. eapply IH. exact Hin.
Qed.

Lemma afs_cur : forall fs st c, cur st = Some c ->
  exists y, fut_tr (fun P => exists f, In f fs /\ P f) c y /\
            cur (fst (apply_frames st fs)) = Some (set_fut c y).
Proof.
  induction fs as [|f fs IH]; intros st c Hc.
  - exists (cfut c). split; [left; reflexivity|]. rewrite set_fut_same. exact Hc.
  - rewrite apply_frames_cons. cbn [fst].
    destruct (af_cur st f c Hc) as (y1 & Htr1 & Hc1).
    destruct (IH _ _ Hc1) as (y & Htr & Hc2).
    exists y. split; [|rewrite Hc2; reflexivity].
    unfold fut_tr in *. cbn [set_fut cfut cfrm] in Htr.
    destruct Htr as [Hy|(Hp & Htr)].
    + subst y. destruct Htr1 as [Hy1|(Hp1 & Htr1)]; [left; exact Hy1|].
      right. split; [exact Hp1|].
      destruct Htr1 as [(E & HP)|[(E & HP)|(code & E & HP)]].
      * left. split; [exact E|]. exists f. split; [left; reflexivity|exact HP].
      * right; left. split; [exact E|]. exists f. split; [left; reflexivity|exact HP].
      * right; right. exists code. split; [exact E|]. exists f. split; [left; reflexivity|exact HP].
    + assert (Hp0 : cfut c = FPending).
      { destruct Htr1 as [Hy1|(Hp1 & _)]; [rewrite <- Hy1; exact Hp|exact Hp1]. }
      right. split; [exact Hp0|].
      destruct Htr as [(E & g & Hg & HP)|[(E & g & Hg & HP)|(code & E & g & Hg & HP)]].
      * left. split; [exact E|]. exists g. split; [right; exact Hg|exact HP].
      * right; left. split; [exact E|]. exists g. split; [right; exact Hg|exact HP].
      * right; right. exists code. split; [exact E|]. exists g. split; [right; exact Hg|exact HP].
Qed.

(* ---- outputs without DATA frames ---------------------------------------------------------------- *)
Definition isD (o : hout) : bool := match o with HData _ _ _ _ _ _ => true | _ => false end.
Definition nodata (l : list hout) : Prop := forall o, In o l -> isD o = false.

Lemma nodata_nil : nodata [].
Proof. intros o Ho. destruct Ho. Qed.
Lemma nodata_app : forall a b, nodata a -> nodata b -> nodata (a ++ b).
Proof.
  intros a b Ha Hb o Ho. apply in_app_or in Ho. destruct Ho as [Ho|Ho]; [apply Ha|apply Hb]; exact Ho.
Qed.
Lemma rxonly_nodata : forall l, rxonly l -> nodata l.
Proof. intros l Hl o Ho. specialize (Hl o Ho). destruct o; try reflexivity. destruct Hl. Qed.
Lemma alldone_nodata : forall l, alldone l -> nodata l.
Proof. intros l Hl o Ho. destruct (Hl o Ho) as (i & E). subst o. reflexivity. Qed.
Lemma done_out_nodata : forall st id o, nodata (done_out st id o).
Proof. intros st id o x Hx. apply done_out_in in Hx. subst x. reflexivity. Qed.
Lemma nodata_notin : forall l id frm re ack p t, nodata l -> ~ In (HData id frm re ack p t) l.
Proof. intros l id frm re ack p t Hl Hin. specialize (Hl _ Hin). discriminate. Qed.
Lemma filter_nodata : forall l, nodata l -> filter isD l = [].
Proof.
  induction l as [|x l IH]; intro Hl; [reflexivity|]. cbn [filter].
  rewrite (Hl x (or_introl eq_refl)). apply IH. intros o Ho. apply Hl. right; exact Ho.
Qed.
Lemma datas_nodata : forall id l, nodata l -> datas id l = [].
Proof.
  induction l as [|x l IH]; intro Hl; [reflexivity|]. cbn [datas flat_map].
  pose proof (Hl x (or_introl eq_refl)) as Hx. destruct x; try discriminate; cbn [app];
    apply IH; intros o' Ho'; apply Hl; right; exact Ho'.
Qed.
Lemma datas_app : forall id a b, datas id (a ++ b) = datas id a ++ datas id b.
Proof. intros id a b. unfold datas. apply flat_map_app. Qed.
Lemma nodata_cons_reset : forall c l, nodata l -> nodata (HReset c :: l).
Proof. intros c l Hl o [Ho|Ho]; [subst o; reflexivity|apply Hl; exact Ho]. Qed.

Lemma closed_flush_nodata : forall pre (k : cause) s id o oF,
  (pre = [] \/ (pre = [HReset ERROR_EXCEEDED_MAXIMUM_ACK_TIMEOUT_COUNT] /\ (k = CNak \/ k = CTimeout))) ->
  alldone oF -> nodata (pre ++ done_out s id o ++ oF).
Proof.
  intros pre k s id o oF Hpre HoF. apply nodata_app.
  - destruct Hpre as [E|[E _]]; subst pre; [exact nodata_nil|apply nodata_cons_reset; exact nodata_nil].
  - apply nodata_app; [apply done_out_nodata|apply alldone_nodata; exact HoF].
Qed.

(* ---- one step, event by event ------------------------------------------------------------------ *)
Lemma step_frames_eq : forall st fs,
  host_step st (Frames fs) =
  (fst (settle (fst (apply_frames st fs))),
   snd (apply_frames st fs) ++ snd (settle (fst (apply_frames st fs)))).
Proof.
  intros st fs. cbn [host_step]. destruct (apply_frames st fs) as [s1 o1]. cbn [fst snd].
  destruct (settle s1) as [s2 o2]. reflexivity.
Qed.

Definition submitted (st : hstate) (id : N) (p : list N) : hstate :=
  {| tx_seq := tx_seq st; rx_seq := rx_seq st; failed := failed st; t_ack := t_ack st; now := now st;
     waiters := [(id, p)]; cur := None; cancelled := cancelled st |}.
Definition queued (st : hstate) (id : N) (p : list N) : hstate :=
  {| tx_seq := tx_seq st; rx_seq := rx_seq st; failed := failed st; t_ack := t_ack st; now := now st;
     waiters := waiters st ++ [(id, p)]; cur := cur st; cancelled := cancelled st |}.

Lemma step_submit_eq : forall st id p,
  host_step st (Submit id p) =
  match cur st with Some _ => (queued st id p, []) | None => sn (submitted st id p) end.
Proof. intros st id p. cbn [host_step]. unfold queued. destruct (cur st); reflexivity. Qed.

Lemma step_wait_cases : forall st t,
  snd (host_step st (WaitTo t)) = [] /\
  (fst (host_step st (WaitTo t)) = st \/ fst (host_step st (WaitTo t)) = set_now st t).
Proof.
  intros st t. cbn [host_step]. destruct (cur st) as [c|].
  - destruct (PrimFloat.ltb t (cdeadline c) && PrimFloat.leb (now st) t); cbn [fst snd]; auto.
  - destruct (PrimFloat.leb (now st) t); cbn [fst snd]; auto.
Qed.

Definition cancelled_by (st : hstate) (id : N) : hstate :=
  {| tx_seq := tx_seq st; rx_seq := rx_seq st; failed := failed st; t_ack := t_ack st; now := now st;
     waiters := waiters st; cur := cur st; cancelled := id :: cancelled st |}.

Lemma step_cancel_cases : forall st id,
  host_step st (CancelCaller id) = (st, []) \/
  host_step st (CancelCaller id) = (cancelled_by st id, [HDone id OCancelled]).
Proof. intros st id. cbn [host_step]. destruct (memN id (cancelled st)); auto. Qed.

(* ---- C05: ERROR frames and the exhausted budget are reported ------------------------------------ *)
Lemma error_reported : forall st fs v code,
  In (Error v code) fs -> In (HReset code) (snd (host_step st (Frames fs))).
Proof.
  intros st fs v code Hin. rewrite step_frames_eq. cbn [snd]. apply in_or_app. left.
  eapply afs_error. exact Hin.
Qed.

Definition isR (o : hout) : bool := match o with HReset _ => true | _ => false end.

Lemma filter_none : forall (f : hout -> bool) l, (forall o, In o l -> f o = false) -> filter f l = [].
Proof.
  intros f. induction l as [|x l IH]; intro Hl; [reflexivity|]. cbn [filter].
  rewrite (Hl x (or_introl eq_refl)). apply IH. intros o Ho. apply Hl. right; exact Ho.
Qed.

Lemma alldone_noreset : forall l, alldone l -> filter isR l = [].
Proof. intros l Hl. apply filter_none. intros o Ho. destruct (Hl o Ho) as (i & E). subst o. reflexivity. Qed.

Lemma done_out_noreset : forall st id o, filter isR (done_out st id o) = [].
Proof. intros st id o. apply filter_none. intros x Hx. apply done_out_in in Hx. subst x. reflexivity. Qed.

Lemma tick_reports_at_most_once : forall st,
  (length (filter (fun o => match o with HReset _ => true | _ => false end)
                  (snd (host_step st Tick))) <= 1)%nat.
Proof.
  intro st. change (fun o => match o with HReset _ => true | _ => false end) with isR.
  destruct (tick_spec st) as [[E _]|(c & ta & Hc & Hfu & Hta & Hcl)].
  - rewrite E. cbn. lia.
  - destruct Hcl as [pre o oF fl Hpre Ho HoF Hfl Hw|o id p ws Ho Hk Hf Hw|Hk Hf Hlt]; cbn [snd].
    + rewrite !filter_app, done_out_noreset, (alldone_noreset _ HoF).
      destruct Hpre as [E|[E _]]; subst pre; cbn; lia.
    + rewrite filter_app, done_out_noreset. cbn. lia.
    + cbn. lia.
Qed.

(* ---- C05: a failed link stays silent ------------------------------------------------------------ *)
Lemma closed_failed : forall s c k r, closed s c k r -> failed s = true ->
  failed (fst r) = true /\ nodata (snd r).
Proof.
  intros s c k r Hcl Hfs.
  destruct Hcl as [pre o oF fl Hpre Ho HoF Hfl Hw|o id p ws Ho Hk Hf Hw|Hk Hf Hlt]; try congruence.
  cbn [fst snd flushed set_failed failed]. split.
  - destruct Hfl as [E|E]; congruence.
  - eapply closed_flush_nodata; eassumption.
Qed.

Lemma failed_silent_gen : forall st e, failed st = true -> ~ has_frame is_rstack_or_rst e ->
  failed (fst (host_step st e)) = true /\ nodata (snd (host_step st e)).
Proof.
  intros st e Hf Hn. destruct e as [id p|fs| |t|id].
  - rewrite step_submit_eq. destruct (cur st) as [c|].
    + cbn [fst snd queued failed]. split; [exact Hf|exact nodata_nil].
    + destruct (sn_cases (submitted st id p) eq_refl)
        as [(oF & HoF & Heq & _)|(id' & p' & ws & Hf' & _)].
      * rewrite Heq. cbn [fst snd flushed submitted failed]. split; [exact Hf|apply alldone_nodata; exact HoF].
      * cbn [submitted failed] in Hf'. congruence.
  - rewrite step_frames_eq. cbn [fst snd].
    pose proof (afs_failed_true fs st Hn Hf) as Hf1.
    pose proof (rxonly_nodata _ (afs_out fs st)) as Ho1.
    destruct (settle_spec (fst (apply_frames st fs)))
      as [[E _]|(c & k & ta & Hc & Hfu & Hk & Hta & Hcl)].
    + rewrite E. cbn [fst snd]. split; [exact Hf1|]. rewrite app_nil_r. exact Ho1.
    + destruct (closed_failed _ _ _ _ Hcl Hf1) as [H1 H2]. split; [exact H1|].
      apply nodata_app; assumption.
  - destruct (tick_spec st) as [[E _]|(c & ta & Hc & Hfu & Hta & Hcl)].
    + rewrite E. split; [exact Hf|exact nodata_nil].
    + exact (closed_failed _ _ _ _ Hcl Hf).
  - destruct (step_wait_cases st t) as [Eo [Es|Es]]; rewrite Eo, Es; split;
      try exact nodata_nil; exact Hf.
  - destruct (step_cancel_cases st id) as [E|E]; rewrite E; cbn [fst snd].
    + split; [exact Hf|exact nodata_nil].
    + split; [exact Hf|]. intros o [Ho|[]]. subst o. reflexivity.
Qed.

Lemma failed_silent : forall st e, failed st = true -> ~ has_frame is_rstack_or_rst e ->
  failed (fst (host_step st e)) = true /\
  (forall id frm re ack p t, ~ In (HData id frm re ack p t) (snd (host_step st e))).
Proof.
  intros st e Hf Hn. destruct (failed_silent_gen st e Hf Hn) as [H1 H2]. split; [exact H1|].
  intros id frm re ack p t. apply nodata_notin. exact H2.
Qed.

Lemma failed_submit : forall st id p,
  failed st = true -> cur st = None -> memN id (cancelled st) = false ->
  snd (host_step st (Submit id p)) = [HDone id (OFailure ERROR_EXCEEDED_MAXIMUM_ACK_TIMEOUT_COUNT)].
Proof.
  intros st id p Hf Hc Hm. cbn [host_step]. rewrite Hc.
  cbn [start_next waiters failed]. rewrite Hf. cbn [snd]. unfold done_out. cbn [cancelled].
  rewrite Hm. reflexivity.
Qed.

(* ---- C05: the window of one ------------------------------------------------------------------- *)
Lemma in_done_data : forall s i o id frm re ack p t x,
  In (HData id frm re ack p t) (done_out s i o ++ [x]) -> x = HData id frm re ack p t.
Proof.
  intros s i o id frm re ack p t x Hin. apply in_app_or in Hin. destruct Hin as [Hin|[Hin|[]]].
  - apply done_out_in in Hin. discriminate.
  - exact Hin.
Qed.

Lemma closed_window : forall s c k r id frm re ack p t, closed s c k r ->
  In (HData id frm re ack p t) (snd r) ->
  (exists c', cur (fst r) = Some c' /\ cid c' = id /\ cfrm c' = frm /\ cpayload c' = p /\ cfut c' = FPending)
  /\ length (filter isD (snd r)) = 1%nat
  /\ (cid c <> id -> (exists o, In (HDone (cid c) o) (snd r)) \/ memN (cid c) (cancelled s) = true).
Proof.
  intros s c k r id frm re ack p t Hcl Hin.
  destruct Hcl as [pre o oF fl Hpre Ho HoF Hfl Hw|o id' p' ws Ho Hk Hf Hw|Hk Hf Hlt]; cbn [fst snd] in *.
  - exfalso. revert Hin. apply nodata_notin. eapply closed_flush_nodata; eassumption.
  - apply in_done_data in Hin. injection Hin as E1 E2 E3 E4 E5 E6. subst. split; [|split].
    + eexists. cbn [started cur]. split; [reflexivity|]. cbn. auto.
    + rewrite filter_app, (filter_nodata _ (done_out_nodata _ _ _)). reflexivity.
    + intros _. destruct (done_out_cases s (cid c) o) as [[E M]|[E M]].
      * right. exact M.
      * left. exists o. rewrite E. left. reflexivity.
  - unfold transmit in *. cbn [fst snd] in *. destruct Hin as [Hin|[]].
    injection Hin as E1 E2 E3 E4 E5 E6. subst. split; [|split].
    + eexists. cbn [cur]. split; [reflexivity|]. cbn. auto.
    + reflexivity.
    + intro H. exfalso. apply H. reflexivity.
Qed.

Lemma window : forall st e id frm re ack p t,
  In (HData id frm re ack p t) (snd (host_step st e)) ->
  (exists c, cur (fst (host_step st e)) = Some c /\ cid c = id /\ cfrm c = frm /\ cpayload c = p /\ cfut c = FPending)
  /\ length (filter (fun o => match o with HData _ _ _ _ _ _ => true | _ => false end) (snd (host_step st e))) = 1%nat
  /\ (forall c0, cur st = Some c0 -> cid c0 <> id ->
        (exists o, In (HDone (cid c0) o) (snd (host_step st e))) \/ memN (cid c0) (cancelled st) = true).
Proof.
  intros st e id frm re ack p t.
  change (fun o => match o with HData _ _ _ _ _ _ => true | _ => false end) with isD.
  destruct e as [id0 p0|fs| |t0|id0].
  - rewrite step_submit_eq. destruct (cur st) as [c|] eqn:Hc.
    + cbn [snd]. intros [].
    + destruct (sn_cases (submitted st id0 p0) eq_refl)
        as [(oF & HoF & Heq & _)|(id' & p' & ws & Hf' & Hw & Heq)]; rewrite Heq; cbn [fst snd]; intro Hin.
      * exfalso. revert Hin. apply nodata_notin. apply alldone_nodata. exact HoF.
      * destruct Hin as [Hin|[]]. injection Hin as E1 E2 E3 E4 E5 E6. subst. split; [|split].
        -- eexists. cbn [started cur]. split; [reflexivity|]. cbn. auto.
        -- reflexivity.
        -- intros c0 H. discriminate.
  - rewrite step_frames_eq. cbn [fst snd]. intro Hin.
    pose proof (rxonly_nodata _ (afs_out fs st)) as Ho1.
    apply in_app_or in Hin. destruct Hin as [Hin|Hin]; [exfalso; revert Hin; apply nodata_notin; exact Ho1|].
    destruct (settle_spec (fst (apply_frames st fs)))
      as [[E _]|(c & k & ta & Hc & Hfu & Hk & Hta & Hcl)].
    + rewrite E in Hin. destruct Hin.
    + destruct (closed_window _ _ _ _ _ _ _ _ _ _ Hcl Hin) as (H1 & H2 & H3).
      split; [exact H1|]. split.
      * rewrite filter_app, (filter_nodata _ Ho1). exact H2.
      * intros c0 Hc0 Hne. destruct (afs_cur fs st c0 Hc0) as (y & _ & Hc1).
        rewrite Hc1 in Hc. injection Hc as Hc. subst c. cbn [set_fut cid] in H3.
        destruct (H3 Hne) as [(o & Ho)|Hm].
        -- left. exists o. apply in_or_app. right. exact Ho.
        -- right. cbn [set_t cancelled] in Hm. destruct (afs_misc fs st) as (_ & _ & K & _).
           rewrite K in Hm. exact Hm.
  - intro Hin. destruct (tick_spec st) as [[E _]|(c & ta & Hc & Hfu & Hta & Hcl)].
    + rewrite E in Hin. destruct Hin.
    + destruct (closed_window _ _ _ _ _ _ _ _ _ _ Hcl Hin) as (H1 & H2 & H3).
      split; [exact H1|]. split; [exact H2|].
      intros c0 Hc0 Hne. rewrite Hc0 in Hc. injection Hc as Hc. subst c0. exact (H3 Hne).
  - destruct (step_wait_cases st t0) as [Eo _]. rewrite Eo. intros [].
  - destruct (step_cancel_cases st id0) as [E|E]; rewrite E; cbn [snd].
    + intros [].
    + intros [H|[]]. discriminate.
Qed.

(* ---- C05: first transmissions take consecutive frame numbers ----------------------------------- *)
Lemma closed_consecutive : forall s c k r id frm ack p t, closed s c k r ->
  In (HData id frm 0 ack p t) (snd r) ->
  frm = tx_seq s /\ tx_seq (fst r) = (frm + 1) mod 8.
Proof.
  intros s c k r id frm ack p t Hcl Hin.
  destruct Hcl as [pre o oF fl Hpre Ho HoF Hfl Hw|o id' p' ws Ho Hk Hf Hw|Hk Hf Hlt]; cbn [fst snd] in *.
  - exfalso. revert Hin. apply nodata_notin. eapply closed_flush_nodata; eassumption.
  - apply in_done_data in Hin. injection Hin as E1 E2 E3 E4 E5. subst. split; reflexivity.
  - unfold transmit in Hin. cbn [snd] in Hin. destruct Hin as [Hin|[]].
    rewrite succ_neq0 in Hin. discriminate.
Qed.

Lemma consecutive : forall st e id frm ack p t, ~ has_frame is_rstack_or_rst e ->
  In (HData id frm 0 ack p t) (snd (host_step st e)) ->
  frm = tx_seq st /\ tx_seq (fst (host_step st e)) = (frm + 1) mod 8.
Proof.
  intros st e id frm ack p t Hn.
  destruct e as [id0 p0|fs| |t0|id0].
  - rewrite step_submit_eq. destruct (cur st) as [c|] eqn:Hc.
    + cbn [snd]. intros [].
    + destruct (sn_cases (submitted st id0 p0) eq_refl)
        as [(oF & HoF & Heq & _)|(id' & p' & ws & Hf' & Hw & Heq)]; rewrite Heq; cbn [fst snd]; intro Hin.
      * exfalso. revert Hin. apply nodata_notin. apply alldone_nodata. exact HoF.
      * destruct Hin as [Hin|[]]. injection Hin as E1 E2 E3 E4 E5. subst. split; reflexivity.
  - rewrite step_frames_eq. cbn [fst snd]. intro Hin.
    pose proof (rxonly_nodata _ (afs_out fs st)) as Ho1.
    apply in_app_or in Hin. destruct Hin as [Hin|Hin]; [exfalso; revert Hin; apply nodata_notin; exact Ho1|].
    destruct (settle_spec (fst (apply_frames st fs)))
      as [[E _]|(c & k & ta & Hc & Hfu & Hk & Hta & Hcl)].
    + rewrite E in Hin. destruct Hin.
    + destruct (closed_consecutive _ _ _ _ _ _ _ _ _ Hcl Hin) as (H1 & H2).
      cbn [set_t tx_seq] in H1. rewrite (afs_tx fs st Hn) in H1. split; assumption.
  - intro Hin. destruct (tick_spec st) as [[E _]|(c & ta & Hc & Hfu & Hta & Hcl)].
    + rewrite E in Hin. destruct Hin.
    + exact (closed_consecutive _ _ _ _ _ _ _ _ _ Hcl Hin).
  - destruct (step_wait_cases st t0) as [Eo _]. rewrite Eo. intros [].
  - destruct (step_cancel_cases st id0) as [E|E]; rewrite E; cbn [snd].
    + intros [].
    + intros [H|[]]. discriminate.
Qed.

(* ---- C05: why a frame is repeated, and what a normal return needs ------------------------------- *)
Lemma closed_repeat : forall s c k r id frm ack p t, closed s c k r ->
  In (HData id frm 1 ack p t) (snd r) -> k = CNak \/ k = CTimeout.
Proof.
  intros s c k r id frm ack p t Hcl Hin.
  destruct Hcl as [pre o oF fl Hpre Ho HoF Hfl Hw|o id' p' ws Ho Hk Hf Hw|Hk Hf Hlt]; cbn [fst snd] in *.
  - exfalso. revert Hin. apply nodata_notin. eapply closed_flush_nodata; eassumption.
  - apply in_done_data in Hin. discriminate.
  - exact Hk.
Qed.

Lemma closed_ok : forall s c k r id, closed s c k r -> In (HDone id OOk) (snd r) -> k = CAck /\ id = cid c.
Proof.
  intros s c k r id Hcl Hin.
  destruct Hcl as [pre o oF fl Hpre Ho HoF Hfl Hw|o id' p' ws Ho Hk Hf Hw|Hk Hf Hlt]; cbn [fst snd] in *.
  - apply in_app_or in Hin. destruct Hin as [Hin|Hin].
    { destruct Hpre as [E|[E _]]; subst pre; [destruct Hin|destruct Hin as [Hin|[]]; discriminate]. }
    apply in_app_or in Hin. destruct Hin as [Hin|Hin].
    + apply done_out_in in Hin. injection Hin as E1 E2. subst. split; [apply Ho|]; reflexivity.
    + destruct (HoF _ Hin) as (i & E). discriminate.
  - apply in_app_or in Hin. destruct Hin as [Hin|[Hin|[]]]; [|discriminate].
    apply done_out_in in Hin. injection Hin as E1 E2. subst. split; [apply Ho|]; reflexivity.
  - unfold transmit in Hin. cbn [snd] in Hin. destruct Hin as [Hin|[]]. discriminate.
Qed.

Lemma repeat_cause : forall st e id frm ack p t, quiescent st ->
  In (HData id frm 1 ack p t) (snd (host_step st e)) ->
  e = Tick \/ has_frame is_nak e.
Proof.
  intros st e id frm ack p t Hq.
  destruct e as [id0 p0|fs| |t0|id0].
  - rewrite step_submit_eq. destruct (cur st) as [c|] eqn:Hc.
    + cbn [snd]. intros [].
    + destruct (sn_cases (submitted st id0 p0) eq_refl)
        as [(oF & HoF & Heq & _)|(id' & p' & ws & Hf' & Hw & Heq)]; rewrite Heq; cbn [fst snd]; intro Hin.
      * exfalso. revert Hin. apply nodata_notin. apply alldone_nodata. exact HoF.
      * destruct Hin as [Hin|[]]. discriminate.
  - rewrite step_frames_eq. cbn [fst snd]. intro Hin. right.
    pose proof (rxonly_nodata _ (afs_out fs st)) as Ho1.
    apply in_app_or in Hin. destruct Hin as [Hin|Hin]; [exfalso; revert Hin; apply nodata_notin; exact Ho1|].
    destruct (settle_spec (fst (apply_frames st fs)))
      as [[E _]|(c & k & ta & Hc & Hfu & Hk & Hta & Hcl)].
    + rewrite E in Hin. destruct Hin.
    + destruct (closed_repeat _ _ _ _ _ _ _ _ _ Hcl Hin) as [Ek|Ek]; [subst k|contradiction].
      destruct (cur st) as [c0|] eqn:Hc0.
      2:{ destruct (afs_misc fs st) as (_ & _ & _ & K). rewrite (K Hc0) in Hc. discriminate. }
      destruct (afs_cur fs st c0 Hc0) as (y & Htr & Hc1).
      rewrite Hc1 in Hc. injection Hc as Hc. subst c. cbn [set_fut cfut fut_of] in Hfu. subst y.
      pose proof (Hq c0 Hc0) as Hp. unfold fut_tr in Htr.
      destruct Htr as [E|(_ & [(E & _)|[(_ & HP)|(code & E & _)]])]; try congruence.
      exact HP.
  - intros _. left. reflexivity.
  - destruct (step_wait_cases st t0) as [Eo _]. rewrite Eo. intros [].
  - destruct (step_cancel_cases st id0) as [E|E]; rewrite E; cbn [snd].
    + intros [].
    + intros [H|[]]. discriminate.
Qed.

Lemma ok_needs_ack_gen : forall st e id, quiescent st ->
  In (HDone id OOk) (snd (host_step st e)) ->
  exists c, cur st = Some c /\ cid c = id /\ has_frame (acks ((cfrm c + 1) mod 8)) e.
Proof.
  intros st e id Hq.
  destruct e as [id0 p0|fs| |t0|id0].
  - rewrite step_submit_eq. destruct (cur st) as [c|] eqn:Hc.
    + cbn [snd]. intros [].
    + destruct (sn_cases (submitted st id0 p0) eq_refl)
        as [(oF & HoF & Heq & _)|(id' & p' & ws & Hf' & Hw & Heq)]; rewrite Heq; cbn [fst snd]; intro Hin.
      * destruct (HoF _ Hin) as (i & E). discriminate.
      * destruct Hin as [Hin|[]]. discriminate.
  - rewrite step_frames_eq. cbn [fst snd]. intro Hin.
    apply in_app_or in Hin. destruct Hin as [Hin|Hin].
    { pose proof (afs_out fs st _ Hin) as H. destruct H. }
    destruct (settle_spec (fst (apply_frames st fs)))
      as [[E _]|(c & k & ta & Hc & Hfu & Hk & Hta & Hcl)].
    + rewrite E in Hin. destruct Hin.
    + destruct (closed_ok _ _ _ _ _ Hcl Hin) as [Ek Eid]. subst k.
      destruct (cur st) as [c0|] eqn:Hc0.
      2:{ destruct (afs_misc fs st) as (_ & _ & _ & K). rewrite (K Hc0) in Hc. discriminate. }
      destruct (afs_cur fs st c0 Hc0) as (y & Htr & Hc1).
      rewrite Hc1 in Hc. injection Hc as Hc. subst c. cbn [set_fut cfut cid fut_of] in Hfu, Eid. subst y.
      exists c0. split; [reflexivity|]. split; [symmetry; exact Eid|].
      pose proof (Hq c0 Hc0) as Hp. unfold fut_tr in Htr.
      destruct Htr as [E|(_ & [(_ & HP)|[(E & _)|(code & E & _)]])]; try congruence.
      exact HP.
  - intro Hin. destruct (tick_spec st) as [[E _]|(c & ta & Hc & Hfu & Hta & Hcl)].
    + rewrite E in Hin. destruct Hin.
    + destruct (closed_ok _ _ _ _ _ Hcl Hin) as [Ek _]. discriminate.
  - destruct (step_wait_cases st t0) as [Eo _]. rewrite Eo. intros [].
  - destruct (step_cancel_cases st id0) as [E|E]; rewrite E; cbn [snd].
    + intros [].
    + intros [H|[]]. discriminate.
Qed.

(* ---- C05: the adaptive timeout stays within bounds ---------------------------------------------- *)
Definition deadline_ok (c : cur_send) : Prop :=
  exists t, in_bounds t /\ cdeadline c = PrimFloat.add (csent c) t.
Definition TInv (st : hstate) : Prop :=
  in_bounds (t_ack st) /\ forall c, cur st = Some c -> deadline_ok c.

Lemma closed_tinv : forall s c k r, closed s c k r -> in_bounds (t_ack s) -> TInv (fst r).
Proof.
  intros s c k r Hcl Hb.
  destruct Hcl as [pre o oF fl Hpre Ho HoF Hfl Hw|o id' p' ws Ho Hk Hf Hw|Hk Hf Hlt];
    unfold transmit; cbn [fst]; split; cbn [flushed started set_failed t_ack cur]; try exact Hb.
  - intros c' H. discriminate.
  - intros c' H. injection H as H. subst c'. exists (t_ack s). split; [exact Hb|reflexivity].
  - intros c' H. injection H as H. subst c'. exists (t_ack s). split; [exact Hb|reflexivity].
Qed.

Lemma af_tinv : forall st f, TInv st -> TInv (fst (apply_frame st f)).
Proof.
  intros st f [Hb Hd]. split.
  - destruct (af_tack st f) as [E|E]; rewrite E; [exact Hb|apply clamp_in_bounds].
  - intros c' Hc'. destruct (cur st) as [c|] eqn:Hc.
    + destruct (af_cur st f c Hc) as (y & _ & Hc1). rewrite Hc1 in Hc'. injection Hc' as Hc'. subst c'.
      exact (Hd c eq_refl).
    + destruct (af_misc st f) as (_ & _ & _ & K). rewrite (K Hc) in Hc'. discriminate.
Qed.

Lemma afs_tinv : forall fs st, TInv st -> TInv (fst (apply_frames st fs)).
Proof.
  induction fs as [|f fs IH]; intros st H; [exact H|].
  rewrite apply_frames_cons. cbn [fst]. apply IH. apply af_tinv. exact H.
Qed.

Lemma step_tinv : forall st e, TInv st -> TInv (fst (host_step st e)).
Proof.
  intros st e HT. pose proof HT as [Hb Hd].
  destruct e as [id p|fs| |t|id].
  - rewrite step_submit_eq. destruct (cur st) as [c|] eqn:Hc.
    + cbn [fst]. split; cbn [queued t_ack cur]; [exact Hb|]. rewrite Hc. exact Hd.
    + destruct (sn_cases (submitted st id p) eq_refl)
        as [(oF & HoF & Heq & _)|(id' & p' & ws & Hf' & Hw & Heq)]; rewrite Heq; cbn [fst];
        split; cbn [flushed started submitted t_ack now cur]; try exact Hb.
      * intros c' H. discriminate.
      * intros c' H. injection H as H. subst c'. exists (t_ack st). split; [exact Hb|reflexivity].
  - rewrite step_frames_eq. cbn [fst].
    pose proof (afs_tinv fs st HT) as HT1.
    destruct (settle_spec (fst (apply_frames st fs)))
      as [[E _]|(c & k & ta & Hc & Hfu & Hk & Hta & Hcl)].
    + rewrite E. exact HT1.
    + apply (closed_tinv _ _ _ _ Hcl). cbn [set_t t_ack].
      destruct Hta as [E|H]; [rewrite E; apply HT1|exact H].
  - destruct (tick_spec st) as [[E _]|(c & ta & Hc & Hfu & Hta & Hcl)].
    + rewrite E. exact HT.
    + apply (closed_tinv _ _ _ _ Hcl). exact Hta.
  - destruct (step_wait_cases st t) as [_ [Es|Es]]; rewrite Es; [exact HT|]. exact HT.
  - destruct (step_cancel_cases st id) as [E|E]; rewrite E; exact HT.
Qed.

Lemma tinv_reachable : forall es, TInv (final es).
Proof.
  induction es as [|e es IH] using rev_ind.
  - split; [exact init_in_bounds|]. intros c H. discriminate.
  - rewrite final_snoc. apply step_tinv. exact IH.
Qed.

Lemma timeout_bounds : forall es, in_bounds (t_ack (final es)).
Proof. intro es. apply tinv_reachable. Qed.

Lemma deadline_within_bounds : forall es c, cur (final es) = Some c ->
  exists t, in_bounds t /\ cdeadline c = PrimFloat.add (csent c) t.
Proof. intros es c Hc. destruct (tinv_reachable es) as [_ H]. exact (H c Hc). Qed.

(* ---- structural invariant: between events the current send is pending, nothing waits behind a
        free semaphore, and a failed link has nothing in progress -------------------------------- *)
Definition GInv (st : hstate) : Prop :=
  quiescent st /\ (cur st = None -> waiters st = []) /\ (failed st = true -> cur st = None).

Lemma closed_ginv : forall s c k r, closed s c k r -> GInv (fst r).
Proof.
  intros s c k r Hcl.
  destruct Hcl as [pre o oF fl Hpre Ho HoF Hfl Hw|o id' p' ws Ho Hk Hf Hw|Hk Hf Hlt];
    unfold transmit; cbn [fst]; unfold GInv, quiescent;
    cbn [flushed started set_failed failed waiters cur].
  - split; [intros c' H; discriminate|]. split; intros _; reflexivity.
  - split; [intros c' H; injection H as H; subst c'; reflexivity|].
    split; intro H; discriminate.
  - split; [intros c' H; injection H as H; subst c'; reflexivity|].
    split; intro H; [discriminate|congruence].
Qed.

(* while a batch is applied: a failed link has no pending future *)
Definition MInv (st : hstate) : Prop :=
  failed st = true -> forall c, cur st = Some c -> cfut c <> FPending.

Lemma af_minv : forall st f, MInv st -> MInv (fst (apply_frame st f)).
Proof.
  intros st f HM Hf' c' Hc'.
  destruct (af_failed st f) as [[E _]|[[_ E]|[_ H]]].
  - rewrite E in Hf'. destruct (cur st) as [c|] eqn:Hc.
    + destruct (af_cur st f c Hc) as (y & Htr & Hc1). rewrite Hc1 in Hc'. injection Hc' as Hc'. subst c'.
      cbn [set_fut cfut]. pose proof (HM Hf' c Hc) as Hnp. unfold fut_tr in Htr.
      destruct Htr as [Ey|(Hp & _)]; congruence.
    + destruct (af_misc st f) as (_ & _ & _ & K). rewrite (K Hc) in Hc'. discriminate.
  - congruence.
  - exact (H c' Hc').
Qed.

Lemma afs_minv : forall fs st, MInv st -> MInv (fst (apply_frames st fs)).
Proof.
  induction fs as [|f fs IH]; intros st H; [exact H|].
  rewrite apply_frames_cons. cbn [fst]. apply IH. apply af_minv. exact H.
Qed.

Lemma step_ginv : forall st e, GInv st -> GInv (fst (host_step st e)).
Proof.
  intros st e HG. pose proof HG as (Hq & Hw & Hf).
  destruct e as [id p|fs| |t|id].
  - rewrite step_submit_eq. destruct (cur st) as [c|] eqn:Hc.
    + cbn [fst]. unfold GInv, quiescent. cbn [queued failed waiters cur].
      split; [exact Hq|]. split; [intro H; congruence|intro H; specialize (Hf H); discriminate].
    + destruct (sn_cases (submitted st id p) eq_refl)
        as [(oF & HoF & Heq & _)|(id' & p' & ws & Hf' & Hw' & Heq)]; rewrite Heq; cbn [fst];
        unfold GInv, quiescent; cbn [flushed started submitted failed waiters cur].
      * split; [intros c' H; discriminate|]. split; intros _; reflexivity.
      * split; [intros c' H; injection H as H; subst c'; reflexivity|].
        split; intro H; discriminate.
  - rewrite step_frames_eq. cbn [fst].
    destruct (settle_spec (fst (apply_frames st fs)))
      as [[E Hidle]|(c & k & ta & Hc & Hfu & Hk & Hta & Hcl)].
    + rewrite E. cbn [fst]. destruct (afs_misc fs st) as (_ & Kw & _ & Kn).
      assert (HM : MInv (fst (apply_frames st fs))).
      { apply afs_minv. intros Hft c Hc. rewrite (Hf Hft) in Hc. discriminate. }
      unfold GInv, quiescent. split; [|split].
      * intros c Hc. destruct Hidle as [Hn|(c' & Hc' & Hp)]; congruence.
      * intro Hn. rewrite Kw. apply Hw. destruct (cur st) as [c0|] eqn:Hc0; [|reflexivity].
        destruct (afs_cur fs st c0 Hc0) as (y & _ & Hc1). congruence.
      * intro Hft. destruct Hidle as [Hn|(c' & Hc' & Hp)]; [exact Hn|].
        exfalso. exact (HM Hft c' Hc' Hp).
    + exact (closed_ginv _ _ _ _ Hcl).
  - destruct (tick_spec st) as [[E _]|(c & ta & Hc & Hfu & Hta & Hcl)].
    + rewrite E. exact HG.
    + exact (closed_ginv _ _ _ _ Hcl).
  - destruct (step_wait_cases st t) as [_ [Es|Es]]; rewrite Es; exact HG.
  - destruct (step_cancel_cases st id) as [E|E]; rewrite E; exact HG.
Qed.

Lemma ginv_reachable : forall es, GInv (final es).
Proof.
  induction es as [|e es IH] using rev_ind.
  - unfold GInv, quiescent. rewrite final_nil. cbn [h_init cur waiters failed].
    split; [intros c H; discriminate|]. split; [reflexivity|intro H; discriminate].
  - rewrite final_snoc. apply step_ginv. exact IH.
Qed.

Lemma quiescent_reachable : forall es, quiescent (final es).
Proof. intro es. apply ginv_reachable. Qed.

Lemma failed_nothing_waiting : forall es,
  failed (final es) = true -> cur (final es) = None /\ waiters (final es) = [].
Proof.
  intros es Hf. destruct (ginv_reachable es) as (_ & Hw & Hc).
  split; [exact (Hc Hf)|exact (Hw (Hc Hf))].
Qed.

Lemma ok_needs_ack : forall es e id, submits_unique es ->
  In (HDone id OOk) (snd (host_step (final es) e)) ->
  exists c, cur (final es) = Some c /\ cid c = id /\ has_frame (acks ((cfrm c + 1) mod 8)) e.
Proof. intros es e id _. apply ok_needs_ack_gen. apply quiescent_reachable. Qed.

(* ---- C05: the retry budget ---------------------------------------------------------------------- *)
Definition canon (frm : N) (p : list N) (n : nat) : list (N * N * list N) :=
  map (fun k => (frm, if Nat.eqb k 0 then 0 else 1, p)) (seq 0 n).

Lemma canon_SS : forall frm p n, canon frm p (S (S n)) = canon frm p (S n) ++ [(frm, 1, p)].
Proof.
  intros frm p n. unfold canon. rewrite (seq_S (S n)), map_app. reflexivity.
Qed.

Definition cur_same (a b : option cur_send) : Prop :=
  match a, b with
  | None, None => True
  | Some c, Some c' =>
      cid c' = cid c /\ cfrm c' = cfrm c /\ cpayload c' = cpayload c /\ cattempt c' = cattempt c
  | _, _ => False
  end.

Lemma cur_same_refl : forall a, cur_same a a.
Proof. intros [c|]; cbn; auto. Qed.

(* what one step does to (current send, queue), and the DATA frames it writes *)
Inductive trans (cu : option cur_send) (q : list (N * list N))
  : option cur_send -> list (N * list N) -> list hout -> Prop :=
| T_keep : forall cu' out, nodata out -> cur_same cu cu' -> trans cu q cu' q out
| T_retx : forall c c' pre ack t,
    cu = Some c -> cid c' = cid c -> cfrm c' = cfrm c -> cpayload c' = cpayload c ->
    cattempt c' = cattempt c + 1 -> cattempt c < ACK_TIMEOUTS - 1 -> nodata pre ->
    trans cu q (Some c') q (pre ++ [HData (cid c) (cfrm c) 1 ack (cpayload c) t])
| T_flush : forall out, nodata out -> trans cu q None [] out
| T_next : forall id p ws c' pre ack t,
    q = (id, p) :: ws -> nodata pre -> cid c' = id -> cpayload c' = p -> cattempt c' = 0 ->
    trans cu q (Some c') ws (pre ++ [HData id (cfrm c') 0 ack p t]).

Lemma trans_pre : forall cu q cu' q' out o1, nodata o1 -> trans cu q cu' q' out ->
  trans cu q cu' q' (o1 ++ out).
Proof.
  intros cu q cu' q' out o1 Ho1 Htr.
  destruct Htr as [cu' out Hout Hsame|c c' pre ack t Hcu H1 H2 H3 H4 H5 Hpre|out Hout
                  |id p ws c' pre ack t Hq Hpre H1 H2 H3].
  - apply T_keep; [apply nodata_app; assumption|exact Hsame].
  - rewrite app_assoc. apply T_retx; try assumption. apply nodata_app; assumption.
  - apply T_flush. apply nodata_app; assumption.
  - rewrite app_assoc. apply T_next; try assumption. apply nodata_app; assumption.
Qed.

Lemma closed_trans : forall s c k r c0, closed s c k r ->
  cid c = cid c0 -> cfrm c = cfrm c0 -> cpayload c = cpayload c0 -> cattempt c = cattempt c0 ->
  trans (Some c0) (waiters s) (cur (fst r)) (waiters (fst r)) (snd r).
Proof.
  intros s c k r c0 Hcl E1 E2 E3 E4.
  destruct Hcl as [pre o oF fl Hpre Ho HoF Hfl Hw|o id' p' ws Ho Hk Hf Hw|Hk Hf Hlt].
  - cbn [fst snd flushed cur waiters]. apply T_flush. eapply closed_flush_nodata; eassumption.
  - cbn [fst snd started cur waiters].
    apply (T_next (Some c0) (waiters s) id' p' ws
                  {| cid := id'; cpayload := p'; cfrm := tx_seq s; cattempt := 0; cfut := FPending;
                     csent := now s; cdeadline := PrimFloat.add (now s) (t_ack s) |}
                  (done_out s (cid c) o) (rx_seq s) (now s)); try reflexivity.
    + exact Hw.
    + apply done_out_nodata.
  - unfold transmit. cbn [fst snd cur waiters]. rewrite succ_neq0, E1, E2, E3.
    apply (T_retx (Some c0) (waiters s) c0
                  {| cid := cid c0; cpayload := cpayload c0; cfrm := cfrm c0; cattempt := cattempt c + 1;
                     cfut := FPending; csent := now s; cdeadline := PrimFloat.add (now s) (t_ack s) |}
                  [] (rx_seq s) (now s)); try reflexivity.
    + cbn [cattempt]. rewrite E4. reflexivity.
    + rewrite <- E4. exact Hlt.
    + exact nodata_nil.
Qed.

Definition sub_of (e : hevent) : list (N * list N) :=
  match e with Submit id p => [(id, p)] | _ => [] end.

Lemma step_trans : forall st e, (cur st = None -> waiters st = []) ->
  trans (cur st) (waiters st ++ sub_of e)
        (cur (fst (host_step st e))) (waiters (fst (host_step st e))) (snd (host_step st e)).
Proof.
  intros st e Hw. destruct e as [id p|fs| |t|id]; cbn [sub_of]; rewrite ?app_nil_r.
  - rewrite step_submit_eq. destruct (cur st) as [c|] eqn:Hc.
    + cbn [fst snd queued cur waiters]. rewrite Hc.
      apply T_keep; [exact nodata_nil|apply cur_same_refl].
    + rewrite (Hw eq_refl). cbn [app].
      destruct (sn_cases (submitted st id p) eq_refl)
        as [(oF & HoF & Heq & _)|(id' & p' & ws & Hf' & Hw' & Heq)]; rewrite Heq;
        cbn [fst snd flushed started submitted cur waiters tx_seq rx_seq now t_ack].
      * apply T_flush. apply alldone_nodata. exact HoF.
      * cbn [submitted waiters] in Hw'. injection Hw' as E1 E2 E3. subst id' p' ws.
        apply (T_next None [(id, p)] id p []
                      {| cid := id; cpayload := p; cfrm := tx_seq st; cattempt := 0; cfut := FPending;
                         csent := now st; cdeadline := PrimFloat.add (now st) (t_ack st) |}
                      [] (rx_seq st) (now st)); try reflexivity. exact nodata_nil.
  - rewrite step_frames_eq. cbn [fst snd].
    pose proof (rxonly_nodata _ (afs_out fs st)) as Ho1.
    destruct (afs_misc fs st) as (_ & Kw & _ & Kn).
    destruct (settle_spec (fst (apply_frames st fs)))
      as [[E _]|(c & k & ta & Hc & Hfu & Hk & Hta & Hcl)].
    + rewrite E. cbn [fst snd]. rewrite app_nil_r, Kw. apply T_keep; [exact Ho1|].
      destruct (cur st) as [c0|] eqn:Hc0.
      * destruct (afs_cur fs st c0 Hc0) as (y & _ & Hc1). rewrite Hc1. cbn. auto.
      * rewrite (Kn eq_refl). exact I.
    + apply trans_pre; [exact Ho1|].
      destruct (cur st) as [c0|] eqn:Hc0.
      2:{ rewrite (Kn eq_refl) in Hc. discriminate. }
      destruct (afs_cur fs st c0 Hc0) as (y & _ & Hc1). rewrite Hc1 in Hc. injection Hc as Hc. subst c.
      rewrite <- Kw. apply (closed_trans _ _ _ _ c0 Hcl); reflexivity.
  - destruct (tick_spec st) as [[E _]|(c & ta & Hc & Hfu & Hta & Hcl)].
    + rewrite E. cbn [fst snd]. apply T_keep; [exact nodata_nil|apply cur_same_refl].
    + rewrite Hc. apply (closed_trans _ _ _ _ c Hcl); reflexivity.
  - destruct (step_wait_cases st t) as [Eo [Es|Es]]; rewrite Eo, Es; cbn [set_now cur waiters];
      (apply T_keep; [exact nodata_nil|apply cur_same_refl]).
  - destruct (step_cancel_cases st id) as [E|E]; rewrite E; cbn [fst snd cancelled_by cur waiters];
      (apply T_keep; [|apply cur_same_refl]).
    + exact nodata_nil.
    + intros o [Ho|[]]. subst o. reflexivity.
Qed.

(* the trace so far against the state *)
Definition curid (cu : option cur_send) : list N :=
  match cu with Some c => [cid c] | None => [] end.

Record AInv (seen : list N) (tr : list hout) (cu : option cur_send) (q : list (N * list N)) : Prop := {
  a_nodup : NoDup (curid cu ++ map fst q);
  a_seen : forall id, In id (curid cu ++ map fst q) -> In id seen;
  a_fresh : forall id, ~ In id seen -> datas id tr = [];
  a_wait : forall id, In id (map fst q) -> datas id tr = [];
  a_cur : forall c, cu = Some c ->
            cattempt c < ACK_TIMEOUTS /\
            datas (cid c) tr = canon (cfrm c) (cpayload c) (S (N.to_nat (cattempt c)));
  a_shape : forall id, exists frm p n,
              (n <= N.to_nat ACK_TIMEOUTS)%nat /\ datas id tr = canon frm p n }.

Lemma NoDup_snoc : forall (l : list N) x, NoDup l -> ~ In x l -> NoDup (l ++ [x]).
Proof.
  induction l as [|y l IH]; intros x Hnd Hx.
  - cbn. constructor; [intros []|constructor].
  - cbn [app]. inversion Hnd as [|y' l' Hy Hl]; subst. constructor.
    + intro Hin. apply in_app_or in Hin. destruct Hin as [Hin|[Hin|[]]]; [exact (Hy Hin)|].
      apply Hx. left. symmetry. exact Hin.
    + apply IH; [exact Hl|]. intro Hin. apply Hx. right. exact Hin.
Qed.

Lemma NoDup_app_r : forall (a b : list N), NoDup (a ++ b) -> NoDup b.
Proof.
  induction a as [|x a IH]; intros b H; [exact H|].
  cbn [app] in H. inversion H as [|x' l Hx Hl]; subst. apply IH. exact Hl.
Qed.

Lemma NoDup_app_l : forall (a b : list N), NoDup (a ++ b) -> NoDup a.
Proof.
  induction a as [|x a IH]; intros b H; [constructor|].
  cbn [app] in H. inversion H as [|x' l Hx Hl]; subst. constructor.
  - intro Hin. apply Hx. apply in_or_app. left. exact Hin.
  - eapply IH. exact Hl.
Qed.

Lemma ainv_enqueue : forall seen tr cu q id p, AInv seen tr cu q -> ~ In id seen ->
  AInv (seen ++ [id]) tr cu (q ++ [(id, p)]).
Proof.
  intros seen tr cu q id p [Hnd Hseen Hfresh Hwait Hcur Hshape] Hid. constructor.
  - rewrite map_app, app_assoc. cbn [map fst]. apply NoDup_snoc; [exact Hnd|].
    intro Hin. apply Hid. apply Hseen. exact Hin.
  - intros id' Hin. rewrite map_app, app_assoc in Hin. apply in_app_or in Hin. apply in_or_app.
    destruct Hin as [Hin|Hin]; [left; apply Hseen; exact Hin|right; exact Hin].
  - intros id' Hn. apply Hfresh. intro Hin. apply Hn. apply in_or_app. left. exact Hin.
  - intros id' Hin. rewrite map_app in Hin. apply in_app_or in Hin. destruct Hin as [Hin|[Hin|[]]].
    + apply Hwait. exact Hin.
    + cbn [fst] in Hin. subst id'. apply Hfresh. exact Hid.
  - exact Hcur.
  - exact Hshape.
Qed.

Lemma datas_one : forall id pre i f r a p t, nodata pre ->
  datas id (pre ++ [HData i f r a p t]) = if i =? id then [(f, r, p)] else [].
Proof.
  intros id pre i f r a p t Hpre. rewrite datas_app, (datas_nodata _ _ Hpre). cbn [app datas flat_map].
  rewrite app_nil_r. reflexivity.
Qed.

Lemma ainv_trans : forall seen tr cu q cu' q' out, AInv seen tr cu q -> trans cu q cu' q' out ->
  AInv seen (tr ++ out) cu' q'.
Proof.
  intros seen tr cu q cu' q' out [Hnd Hseen Hfresh Hwait Hcur Hshape] Htr.
  destruct Htr as [cu' out Hout Hsame|c c' pre ack t Hcu H1 H2 H3 H4 H5 Hpre|out Hout
                  |id p ws c' pre ack t Hq Hpre H1 H2 H3].
  - (* nothing written *)
    assert (Hd : forall id, datas id (tr ++ out) = datas id tr).
    { intro id. rewrite datas_app, (datas_nodata _ _ Hout), app_nil_r. reflexivity. }
    assert (Hcid : curid cu' = curid cu).
    { destruct cu as [c|], cu' as [c'|]; cbn in Hsame |- *; try contradiction; [|reflexivity].
      destruct Hsame as (E & _). rewrite E. reflexivity. }
    constructor.
    + rewrite Hcid. exact Hnd.
    + rewrite Hcid. exact Hseen.
    + intros id Hn. rewrite Hd. apply Hfresh. exact Hn.
    + intros id Hin. rewrite Hd. apply Hwait. exact Hin.
    + intros c' Hc'. subst cu'. destruct cu as [c|]; cbn in Hsame; [|contradiction].
      destruct Hsame as (E1 & E2 & E3 & E4). rewrite Hd, E1, E2, E3, E4. apply Hcur. reflexivity.
    + intro id. rewrite Hd. apply Hshape.
  - (* a repeat of the current send *)
    subst cu. cbn [curid] in Hnd, Hseen.
    assert (Hd : forall id, datas id (tr ++ pre ++ [HData (cid c) (cfrm c) 1 ack (cpayload c) t])
                            = datas id tr ++ if cid c =? id then [(cfrm c, 1, cpayload c)] else []).
    { intro id. rewrite datas_app, (datas_one _ _ _ _ _ _ _ _ Hpre). reflexivity. }
    destruct (Hcur c eq_refl) as [Hlt Hdc].
    constructor.
    + cbn [curid]. rewrite H1. exact Hnd.
    + cbn [curid]. rewrite H1. exact Hseen.
    + intros id Hn. rewrite Hd, (Hfresh id Hn).
      destruct (cid c =? id) eqn:E; [|reflexivity]. apply N.eqb_eq in E. subst id.
      exfalso. apply Hn. apply Hseen. left. reflexivity.
    + intros id Hin. rewrite Hd, (Hwait id Hin).
      destruct (cid c =? id) eqn:E; [|reflexivity]. apply N.eqb_eq in E. subst id.
      exfalso. cbn [app] in Hnd. inversion Hnd as [|x l Hx Hl]; subst. exact (Hx Hin).
    + intros c'' Hc''. injection Hc'' as Hc''. subst c''. rewrite H1, H2, H3, H4, Hd, N.eqb_refl, Hdc.
      split; [unfold ACK_TIMEOUTS in *; lia|].
      replace (N.to_nat (cattempt c + 1)) with (S (N.to_nat (cattempt c))) by lia.
      rewrite canon_SS. reflexivity.
    + intro id. rewrite Hd. destruct (cid c =? id) eqn:E.
      * apply N.eqb_eq in E. subst id. exists (cfrm c), (cpayload c), (S (S (N.to_nat (cattempt c)))).
        split; [unfold ACK_TIMEOUTS in *; lia|]. rewrite Hdc, canon_SS. reflexivity.
      * rewrite app_nil_r. apply Hshape.
  - (* the queue is flushed *)
    assert (Hd : forall id, datas id (tr ++ out) = datas id tr).
    { intro id. rewrite datas_app, (datas_nodata _ _ Hout), app_nil_r. reflexivity. }
    constructor; cbn [curid map app].
    + constructor.
    + intros id [].
    + intros id Hn. rewrite Hd. apply Hfresh. exact Hn.
    + intros id [].
    + intros c H. discriminate.
    + intro id. rewrite Hd. apply Hshape.
  - (* the next queued send starts *)
    subst q. cbn [map fst] in Hnd, Hseen, Hwait.
    assert (Hd : forall id', datas id' (tr ++ pre ++ [HData id (cfrm c') 0 ack p t])
                             = datas id' tr ++ if id =? id' then [(cfrm c', 0, p)] else []).
    { intro id'. rewrite datas_app, (datas_one _ _ _ _ _ _ _ _ Hpre). reflexivity. }
    apply NoDup_app_r in Hnd.
    constructor; cbn [curid app]; rewrite ?H1.
    + exact Hnd.
    + intros id' Hin. apply Hseen. apply in_or_app. right. exact Hin.
    + intros id' Hn. rewrite Hd, (Hfresh id' Hn).
      destruct (id =? id') eqn:E; [|reflexivity]. apply N.eqb_eq in E. subst id'.
      exfalso. apply Hn. apply Hseen. apply in_or_app. right. left. reflexivity.
    + intros id' Hin. rewrite Hd, (Hwait id' (or_intror Hin)).
      destruct (id =? id') eqn:E; [|reflexivity]. apply N.eqb_eq in E. subst id'.
      exfalso. inversion Hnd as [|x l Hx Hl]; subst. exact (Hx Hin).
    + intros c'' Hc''. injection Hc'' as Hc''. subst c''. rewrite H1, H2, H3, Hd, N.eqb_refl.
      rewrite (Hwait id (or_introl eq_refl)). split; [reflexivity|reflexivity].
    + intro id'. rewrite Hd. destruct (id =? id') eqn:E.
      * apply N.eqb_eq in E. subst id'. exists (cfrm c'), p, 1%nat.
        rewrite (Hwait id (or_introl eq_refl)). split; [unfold ACK_TIMEOUTS; lia|reflexivity].
      * rewrite app_nil_r. apply Hshape.
Qed.

Lemma attempts_inv : forall es, submits_unique es ->
  AInv (submits es) (outs es) (cur (final es)) (waiters (final es)).
Proof.
  induction es as [|e es IH] using rev_ind; intro Hu.
  - rewrite final_nil, outs_nil. cbn [h_init cur waiters submits flat_map]. constructor; cbn [curid map app].
    + constructor.
    + intros id [].
    + intros id _. reflexivity.
    + intros id [].
    + intros c H. discriminate.
    + intro id. exists 0, [], 0%nat. split; [lia|reflexivity].
  - unfold submits_unique in Hu. rewrite submits_snoc in Hu.
    assert (Hu0 : submits_unique es) by (apply NoDup_app_l in Hu; exact Hu).
    specialize (IH Hu0).
    destruct (ginv_reachable es) as (_ & Hw & _).
    pose proof (step_trans (final es) e Hw) as Htr.
    rewrite final_snoc, outs_snoc, submits_snoc.
    destruct e as [id p|fs| |t|id]; cbn [sub_of] in Htr; rewrite ?app_nil_r in Htr |- *;
      try (eapply ainv_trans; [exact IH|exact Htr]).
    eapply ainv_trans; [|exact Htr]. apply ainv_enqueue; [exact IH|].
    apply NoDup_remove_2 in Hu. rewrite app_nil_r in Hu. exact Hu.
Qed.

Lemma attempts : forall es id, submits_unique es ->
  exists frm p n, (n <= N.to_nat ACK_TIMEOUTS)%nat /\
    datas id (outs es) = map (fun k => (frm, if Nat.eqb k 0 then 0 else 1, p)) (seq 0 n).
Proof. intros es id Hu. exact (a_shape _ _ _ _ (attempts_inv es Hu) id). Qed.

(* ---- the hypothesis of repeat_cause is needed: an (unreachable) state whose future is already
        NAKed is resumed by any read, here an empty one -------------------------------------------- *)
Definition unquiet_state : hstate :=
  {| tx_seq := 1; rx_seq := 0; failed := false; t_ack := T_RX_ACK_INIT_F; now := 0%float;
     waiters := [];
     cur := Some {| cid := 7; cpayload := []; cfrm := 0; cattempt := 0; cfut := FNaked;
                    csent := 0%float; cdeadline := T_RX_ACK_INIT_F |};
     cancelled := [] |}.

Lemma repeat_cause_needs_quiescent :
  In (HData 7 0 1 0 [] 0%float) (snd (host_step unquiet_state (Frames [])))
  /\ ~ (Frames [] = Tick \/ has_frame is_nak (Frames [])).
Proof.
  split.
  - vm_compute. left. reflexivity.
  - intros [H|(f & Hf & _)]; [discriminate|destruct Hf].
Qed.

Lemma reachable_quiescent : forall st, reachable st -> quiescent st.
Proof. intros st (es & _ & E). subst st. apply quiescent_reachable. Qed.
