(* The sender half of AshProtocol as emitted from its SOURCE TEXT (gen/GenAshTxFn.v, harness/pysrc.py:
   _change_ack_timeout, send_data, _send_data_frame cut at its suspension points) against the hand-written
   host model (model/AshHost.v, model/AshRace.v).

   The coroutine's segments are functions over the attributes of the protocol object and the coroutine's
   locals; the model keeps the same data in [hstate] / [cur_send].  [interp] reads a segment's result as a
   model transition in ONE way for every outcome: the attributes are stored back, a suspended coroutine is
   the current send awaiting its future until the deadline, a returned / raised one is reported to its caller,
   the released semaphore goes to the queued sends ([start_next]), and the calls it made are the outputs.
   The theorems say that the model's transitions (settle after a resolved future, the timeout, the timeout
   racing frames, the start of queued sends) ARE these interpretations, for every state and attempt number. *)
From Coq Require Import PrimFloat ZArith NArith List Bool Lia.
Import ListNotations.
Require Import BV.gen.GenAsh BV.gen.GenAshRxFn BV.gen.GenAshTxFn.
Require Import BV.model.AshCodec BV.model.AshRx BV.model.AshHost BV.model.AshRace.
Open Scope N_scope.

(* ---- the timeout arithmetic ------------------------------------------------------------------------ *)
(* max(T_RX_ACK_MIN, min(new_value, T_RX_ACK_MAX)) as written = the model's clamp, for every float (NaN,
   infinities and signed zeros included: both sides are the same two comparisons) *)
Lemma src_change_ack_timeout : forall t v, py_change_ack_timeout t v = clamp v.
Proof. intros t v. reflexivity. Qed.

Lemma src_min_max : forall a b, py_min a b = fmin a b /\ py_max a b = fmax a b.
Proof. intros a b. split; reflexivity. Qed.

(* the literals: 7 / 8 (a division of two ints in the source), 0.5, 2 *)
Lemma src_seven_eighths : PrimFloat.div 0x1.cp+2%float 0x1p+3%float = f_7_8.
Proof. vm_compute. reflexivity. Qed.

Definition t_of (r : tx_result) : float :=
  match r with
  | RAwait s _ _ _ _ _ | RNext s _ _ _ | RReturn s _ | RRaise s _ _ => let '(_, _, _, _, t) := s in t
  end.

(* ---- "attempt end": what each outcome of the wait does, as written ------------------------------------------- *)
Definition give_up : list tx_eff :=
  [TRx (PCancelPending (CFailure ERROR_EXCEEDED_MAXIMUM_ACK_TIMEOUT_COUNT)); TRx (PResetUp ERROR_EXCEEDED_MAXIMUM_ACK_TIMEOUT_COUNT)].

Lemma src_attempt_end : forall rx tx fl code t frame frm attempt send now,
  py_send_attempt_end (rx, tx, fl, code, t) frame frm attempt send now WAcked
    = RReturn (rx, tx, fl, code, on_ack_time t (PrimFloat.sub now send)) [TPop frm; TRelease]
  /\ (forall c, py_send_attempt_end (rx, tx, fl, code, t) frame frm attempt send now (WNcpFailure c)
    = RRaise (rx, tx, fl, code, t) [TPop frm; TRelease] (XNcpFailure c))
  /\ py_send_attempt_end (rx, tx, fl, code, t) frame frm attempt send now WNotAcked
    = (if ACK_TIMEOUTS - 1 <=? attempt
       then RRaise (rx, tx, true, code, on_ack_time t (PrimFloat.sub now send)) (give_up ++ [TPop frm; TRelease]) XNotAcked
       else RNext (rx, tx, fl, code, on_ack_time t (PrimFloat.sub now send)) [] frame (Some frm))
  /\ py_send_attempt_end (rx, tx, fl, code, t) frame frm attempt send now WTimeout
    = (if ACK_TIMEOUTS - 1 <=? attempt
       then RRaise (rx, tx, true, code, on_timeout t) (give_up ++ [TPop frm; TRelease]) XTimeout
       else RNext (rx, tx, fl, code, on_timeout t) [] frame (Some frm)).
Proof.
  intros. unfold py_send_attempt_end, on_ack_time, on_timeout, give_up, f_half, f_two.
  rewrite !src_change_ack_timeout, !src_seven_eighths.
  repeat split; reflexivity.
Qed.

(* the update of the adaptive timeout for each way the wait ends *)
Lemma src_timeout_update : forall rx tx fl code t frame frm attempt send now,
  t_of (py_send_attempt_end (rx, tx, fl, code, t) frame frm attempt send now WAcked) = on_ack_time t (PrimFloat.sub now send)
  /\ t_of (py_send_attempt_end (rx, tx, fl, code, t) frame frm attempt send now WNotAcked) = on_ack_time t (PrimFloat.sub now send)
  /\ t_of (py_send_attempt_end (rx, tx, fl, code, t) frame frm attempt send now WTimeout) = on_timeout t
  /\ (forall c, t_of (py_send_attempt_end (rx, tx, fl, code, t) frame frm attempt send now (WNcpFailure c)) = t).
Proof.
  intros. destruct (src_attempt_end rx tx fl code t frame frm attempt send now) as (H1 & H2 & H3 & H4).
  rewrite H1, H3, H4. split; [reflexivity|]. split; [|split].
  - destruct (ACK_TIMEOUTS - 1 <=? attempt); reflexivity.
  - destruct (ACK_TIMEOUTS - 1 <=? attempt); reflexivity.
  - intro c. rewrite H2. reflexivity.
Qed.

(* ---- "attempt begin": from the loop head to the await, as written ------------------------------------------------ *)
Lemma retx_flag : forall n, N.b2n (0 <? n) = (if n =? 0 then 0 else 1).
Proof. intro n. destruct n; reflexivity. Qed.

Definition pops (frm_opt : option N) : list tx_eff := match frm_opt with Some f => [TPop f] | None => [] end.

Lemma src_attempt_begin_eq : forall rx tx fl code t eff h1 h2 h3 payload frm_opt attempt now,
  py_send_attempt_begin (rx, tx, fl, code, t) eff (h1, h2, h3, payload) frm_opt attempt now
  = if fl then RRaise (rx, tx, fl, code, t) (eff ++ pops frm_opt ++ [TRelease]) (XNcpFailure ERROR_EXCEEDED_MAXIMUM_ACK_TIMEOUT_COUNT)
    else
      let frm := match frm_opt with Some f => f | None => tx end in
      let frame := (Some frm, Some (if attempt =? 0 then 0 else 1), Some rx, payload) in
      RAwait (rx, match frm_opt with Some _ => tx | None => (tx + 1) mod 8 end, fl, code, t)
             (eff ++ [TRegister frm; TWrite frame; TAwaitAck t]) frame frm attempt now.
Proof.
  intros. unfold py_send_attempt_begin, pops. rewrite retx_flag.
  destruct fl, frm_opt; cbn [app]; rewrite <- ?app_assoc; reflexivity.
Qed.

(* ---- the refinement mapping ----------------------------------------------------------------------------------------- *)
Definition sstate (st : hstate) (code : N) : tx_state := (rx_seq st, tx_seq st, failed st, code, t_ack st).
Definition upd (st : hstate) (s : tx_state) : hstate :=
  let '(rx, tx, fl, _, t) := s in
  {| tx_seq := tx; rx_seq := rx; failed := fl; t_ack := t; now := now st; waiters := waiters st; cur := cur st;
     cancelled := cancelled st |}.
Definition payload_of (f : py_dataframe) : list N := let '(_, _, _, p) := f in p.
Definition await_timeout (eff : list tx_eff) : float :=
  fold_left (fun acc e => match e with TAwaitAck t => t | _ => acc end) eff 0%float.
Definition exc_outcome (e : tx_exc) : outcome :=
  match e with XNotAcked => ONotAcked | XNcpFailure c => OFailure c | XTimeout => OTimeout end.

(* a call made by the coroutine, in the model's vocabulary (the write carries the time of the segment) *)
Definition tx_hout (id : N) (t : float) (e : tx_eff) : list hout :=
  match e with
  | TWrite (Some f, Some r, Some a, p) => [HData id f r a p t]
  | TRx (PResetUp c) => [HReset c]
  | _ => []
  end.

(* the coroutine of send [id] ended: its caller is told, the semaphore goes to the queued sends *)
Definition finish (st : hstate) (id : N) (eff : list tx_eff) (o : outcome) : hstate * list hout :=
  let st1 := with_cur st None in
  let '(st2, o2) := start_next (S (length (waiters st1))) st1 in
  (st2, flat_map (tx_hout id (now st)) eff ++ done_out st1 id o ++ o2).

Definition interp (st : hstate) (id : N) (r : tx_result) : hstate * list hout :=
  match r with
  | RAwait s eff frame frm attempt send_time =>
      (with_cur (upd st s)
         (Some {| cid := id; cpayload := payload_of frame; cfrm := frm; cattempt := attempt; cfut := FPending;
                  csent := send_time; cdeadline := PrimFloat.add send_time (await_timeout eff) |}),
       flat_map (tx_hout id send_time) eff)
  | RReturn s eff => finish (upd st s) id eff OOk
  | RRaise s eff e => finish (upd st s) id eff (exc_outcome e)
  | RNext _ _ _ _ => (st, [])
  end.

Lemma start_next_S : forall fuel st,
  start_next (S fuel) st =
  match waiters st with
  | [] => (st, [])
  | (id, payload) :: ws =>
      let st1 := {| tx_seq := tx_seq st; rx_seq := rx_seq st; failed := failed st; t_ack := t_ack st;
                    now := now st; waiters := ws; cur := None; cancelled := cancelled st |} in
      if failed st1 then
        let '(st2, o) := start_next fuel st1 in
        (st2, done_out st1 id (OFailure ERROR_EXCEEDED_MAXIMUM_ACK_TIMEOUT_COUNT) ++ o)
      else
        let frm := tx_seq st1 in
        let st2 := {| tx_seq := (frm + 1) mod 8; rx_seq := rx_seq st1; failed := false; t_ack := t_ack st1;
                      now := now st1; waiters := ws; cur := None; cancelled := cancelled st1 |} in
        transmit st2 id payload frm 0
  end.
Proof. reflexivity. Qed.

#[local] Arguments start_next : simpl never.

Ltac fin :=
  unfold interp, finish, upd, exc_outcome, give_up, pops, with_cur, set_t, set_failed, set_now;
  cbn [failed waiters cancelled now tx_seq rx_seq t_ack cur app flat_map tx_hout length];
  try match goal with H : failed _ = _ |- _ => rewrite ?H end;
  destruct (start_next _ _); reflexivity.

(* ---- one transmission: the model's [transmit] is the begin segment ------------------------------------------------------ *)
(* frame number taken once (only when frm_num is None, and then the counter moves on), reTx = attempt > 0,
   ackNum = the current _rx_seq, future registered under the number before the write, deadline = now + _t_rx_ack *)
Theorem src_attempt_begin : forall st code id payload h1 h2 h3 frm_opt attempt,
  failed st = false ->
  let frm := match frm_opt with Some f => f | None => tx_seq st end in
  let st1 := match frm_opt with
             | Some _ => st
             | None => {| tx_seq := (tx_seq st + 1) mod 8; rx_seq := rx_seq st; failed := false; t_ack := t_ack st; now := now st;
                          waiters := waiters st; cur := cur st; cancelled := cancelled st |}
             end in
  let frame := (Some frm, Some (if attempt =? 0 then 0 else 1), Some (rx_seq st), payload) in
  py_send_attempt_begin (sstate st code) [] (h1, h2, h3, payload) frm_opt attempt (now st)
    = RAwait (sstate st1 code) [TRegister frm; TWrite frame; TAwaitAck (t_ack st)] frame frm attempt (now st)
  /\ interp st id (py_send_attempt_begin (sstate st code) [] (h1, h2, h3, payload) frm_opt attempt (now st))
    = transmit st1 id payload frm attempt.
Proof.
  intros st code id payload h1 h2 h3 frm_opt attempt Hf. unfold sstate.
  rewrite src_attempt_begin_eq, Hf. destruct frm_opt as [f|]; unfold transmit, sstate; cbn; rewrite ?Hf; split; reflexivity.
Qed.

Theorem src_attempt_begin_failed : forall st code payload h1 h2 h3 frm_opt attempt,
  failed st = true ->
  py_send_attempt_begin (sstate st code) [] (h1, h2, h3, payload) frm_opt attempt (now st)
    = RRaise (sstate st code) (pops frm_opt ++ [TRelease]) (XNcpFailure ERROR_EXCEEDED_MAXIMUM_ACK_TIMEOUT_COUNT).
Proof.
  intros. unfold sstate. rewrite src_attempt_begin_eq, H. reflexivity.
Qed.

(* ---- the loop: for attempt in range(ACK_TIMEOUTS) ----------------------------------------------------------------------------- *)
Lemma first_attempt : py_send_first_attempt = Some 0.
Proof. reflexivity. Qed.

Lemma next_attempt : forall a, (ACK_TIMEOUTS - 1 <=? a) = false -> py_send_next_attempt a = Some (a + 1).
Proof.
  intros a H. unfold py_send_next_attempt. apply N.leb_gt in H.
  replace (a + 1 <? ACK_TIMEOUTS) with true; [reflexivity|]. symmetry. apply N.ltb_lt. lia.
Qed.

(* the loop never runs out of attempts: on the last one every non-acknowledged outcome raises *)
Lemma src_never_exhausted : forall s frame frm a send now w,
  match py_send_attempt_end s frame frm a send now w with
  | RNext _ _ _ _ => py_send_next_attempt a = Some (a + 1)
  | _ => True
  end.
Proof.
  intros [[[[rx tx] fl] code] t] frame frm a send now w.
  destruct (src_attempt_end rx tx fl code t frame frm a send now) as (H1 & H2 & H3 & H4).
  destruct w as [| |c|]; rewrite ?H1, ?H2, ?H3, ?H4; try exact I;
    destruct (ACK_TIMEOUTS - 1 <=? a) eqn:E; try exact I; apply next_attempt; exact E.
Qed.

(* ---- a NAK or the timeout: repeat, or give up with the report (retry_or_fail) ---------------------------------------------------- *)
Lemma src_retry_or_fail : forall st c code h1 h2 h3 w o t',
  (w = WNotAcked /\ o = ONotAcked /\ t' = on_ack_time (t_ack st) (PrimFloat.sub (now st) (csent c)))
  \/ (w = WTimeout /\ o = OTimeout /\ t' = on_timeout (t_ack st)) ->
  retry_or_fail (set_t st t') c o
  = interp st (cid c)
      (py_send_resume (sstate st code) (h1, h2, h3, cpayload c) (cfrm c) (cattempt c) (csent c) (now st) w).
Proof.
  intros st c code h1 h2 h3 w o t' H. unfold py_send_resume, sstate.
  destruct (src_attempt_end (rx_seq st) (tx_seq st) (failed st) code (t_ack st) (h1, h2, h3, cpayload c)
              (cfrm c) (cattempt c) (csent c) (now st)) as (_ & _ & H3 & H4).
  unfold retry_or_fail.
  destruct H as [(-> & -> & ->)|(-> & -> & ->)]; rewrite ?H3, ?H4; clear H3 H4;
    (destruct (ACK_TIMEOUTS - 1 <=? cattempt c) eqn:E;
     [ fin
     | rewrite (next_attempt _ E), src_attempt_begin_eq; cbn [set_t failed];
       destruct (failed st) eqn:Hf;
       [ fin
       | unfold transmit, set_t; cbn; rewrite ?Hf; reflexivity ] ]).
Qed.

(* ---- the coroutine resumes with a resolved future: the model's [settle] --------------------------------------------------------- *)
Definition waited_of (f : fut) : option tx_waited :=
  match f with FPending => None | FAcked => Some WAcked | FNaked => Some WNotAcked | FFailed c => Some (WNcpFailure c) end.

Theorem src_settle : forall st c code h1 h2 h3 w,
  cur st = Some c -> waited_of (cfut c) = Some w ->
  settle st
  = interp st (cid c)
      (py_send_resume (sstate st code) (h1, h2, h3, cpayload c) (cfrm c) (cattempt c) (csent c) (now st) w).
Proof.
  intros st c code h1 h2 h3 w Hc Hw. unfold settle. rewrite Hc.
  destruct (cfut c) as [| | |fc]; cbn in Hw; try discriminate; injection Hw as <-.
  - unfold py_send_resume, sstate.
    destruct (src_attempt_end (rx_seq st) (tx_seq st) (failed st) code (t_ack st) (h1, h2, h3, cpayload c)
                (cfrm c) (cattempt c) (csent c) (now st)) as (H1 & _). rewrite H1.
    fin.
  - apply src_retry_or_fail. left; repeat split.
  - unfold py_send_resume, sstate.
    destruct (src_attempt_end (rx_seq st) (tx_seq st) (failed st) code (t_ack st) (h1, h2, h3, cpayload c)
                (cfrm c) (cattempt c) (csent c) (now st)) as (_ & H2 & _). rewrite H2.
    fin.
Qed.

(* ---- the acknowledgement timeout: the model's Tick ------------------------------------------------------------------------------------ *)
Theorem src_tick : forall st c code h1 h2 h3,
  cur st = Some c -> cfut c = FPending ->
  host_step st Tick
  = interp (set_now st (cdeadline c)) (cid c)
      (py_send_resume (sstate st code) (h1, h2, h3, cpayload c) (cfrm c) (cattempt c) (csent c) (cdeadline c) WTimeout).
Proof.
  intros st c code h1 h2 h3 Hc Hp. cbn [host_step]. rewrite Hc, Hp.
  exact (src_retry_or_fail (set_now st (cdeadline c)) c code h1 h2 h3 WTimeout OTimeout _
           (or_intror (conj eq_refl (conj eq_refl eq_refl)))).
Qed.

(* frames and the timeout in the same loop iteration (model/AshRace.v): the frames have their synchronous effects, then the
   coroutine resumes with TimeoutError whatever its future holds *)
Theorem src_race : forall st fs c code h1 h2 h3,
  cur st = Some c -> cfut c = FPending ->
  race_step st fs
  = let '(st1, o1) := apply_frames (set_now st (cdeadline c)) fs in
    match cur st1 with
    | Some c1 =>
        let '(st3, o3) := interp st1 (cid c1)
              (py_send_resume (sstate st1 code) (h1, h2, h3, cpayload c1) (cfrm c1) (cattempt c1) (csent c1) (now st1) WTimeout) in
        (st3, o1 ++ o3)
    | None => (st1, o1)
    end.
Proof.
  intros st fs c code h1 h2 h3 Hc Hp. unfold race_step. rewrite Hc, Hp.
  destruct (apply_frames (set_now st (cdeadline c)) fs) as [st1 o1].
  destruct (cur st1) as [c1|]; [|reflexivity].
  rewrite (src_retry_or_fail st1 c1 code h1 h2 h3 WTimeout OTimeout (on_timeout (t_ack st1))
             (or_intror (conj eq_refl (conj eq_refl eq_refl)))).
  destruct (interp _ _ _); reflexivity.
Qed.

(* ---- queued sends: the released semaphore is granted in FIFO order; each send starts with the emitted first segment -------- *)
Fixpoint sched (fuel : nat) (code : N) (st : hstate) : hstate * list hout :=
  match fuel with
  | O => (st, [])
  | S fuel' =>
      match waiters st with
      | [] => (st, [])
      | (id, payload) :: ws =>
          let st1 := {| tx_seq := tx_seq st; rx_seq := rx_seq st; failed := failed st; t_ack := t_ack st; now := now st;
                        waiters := ws; cur := None; cancelled := cancelled st |} in
          match py_send_enter (sstate st1 code) (py_send_data_arg payload) (now st1) with
          | RAwait _ _ _ _ _ _ as r => interp st1 id r
          | RReturn s eff =>
              let '(_, _, _, code', _) := s in
              let '(st2, o) := sched fuel' code' (upd st1 s) in
              (st2, flat_map (tx_hout id (now st1)) eff ++ done_out st1 id OOk ++ o)
          | RRaise s eff e =>
              let '(_, _, _, code', _) := s in
              let '(st2, o) := sched fuel' code' (upd st1 s) in
              (st2, flat_map (tx_hout id (now st1)) eff ++ done_out st1 id (exc_outcome e) ++ o)
          | RNext _ _ _ _ => (st, [])
          end
      end
  end.

Theorem src_start_next : forall fuel code st, start_next fuel st = sched fuel code st.
Proof.
  induction fuel as [|fuel IH]; intros code st; [reflexivity|].
  rewrite start_next_S. cbn [sched]. destruct (waiters st) as [|[id payload] ws]; [reflexivity|].
  unfold py_send_enter, sstate, py_send_data_arg. rewrite first_attempt.
  cbv zeta. cbn [failed now rx_seq tx_seq t_ack waiters cur cancelled].
  rewrite src_attempt_begin_eq.
  destruct (failed st) eqn:Hf.
  - cbn [pops app upd failed now rx_seq tx_seq t_ack waiters cur cancelled flat_map tx_hout exc_outcome].
    rewrite <- (IH code). destruct (start_next fuel _); reflexivity.
  - unfold transmit, interp, upd, payload_of, await_timeout, with_cur. cbn. reflexivity.
Qed.

(* the attributes a new protocol object starts from *)
Lemma src_init : py_tx_init = sstate h_init 256.
Proof. reflexivity. Qed.
