(* Gateway.reset_received / error_received / connection_lost / eof_received / _reset_cleanup / close and
   EZSP.enter_failed_state / connection_lost / close / stop_ezsp as emitted from their SOURCE TEXT
   (gen/GenGatewayFn.v, harness/pysrc.py) against the hand-written gateway model (model/Gateway.v). *)
From Coq Require Import ZArith NArith List Bool.
Import ListNotations.
Require Import BV.gen.GenAsh BV.model.Gateway BV.gen.GenGatewayFn.
Open Scope N_scope.

Definition gabs (st : gstate) : gw_state :=
  (r_attr st, r_fut st, s_attr st, s_fut st, t_open st, e_running st, e_has_gw st, e_app_cb st, []).
Definition eff_gout (e : gw_eff) : gout :=
  match e with PAppFailed => GAppFailed | PResetRequest => GResetRequest | PTransportClose => GTransportClose end.
Definition py_up (s : gw_state) (u : up) : gw_state :=
  match u with
  | UReset c => py_Gateway_reset_received_k s c
  | ULost b => py_Gateway_connection_lost_k s b
  | UEof => py_Gateway_eof_received_k s
  end.

(* the same fields and outputs, the waiters untouched *)
Definition same_as (st' : gstate) (o : list gout) (st : gstate) (s : gw_state) : Prop :=
  let '(ra, rf, sa, sf, op, run, gw, cb, eff) := s in
  r_attr st' = ra /\ r_fut st' = rf /\ s_attr st' = sa /\ s_fut st' = sf /\ t_open st' = op
  /\ e_running st' = run /\ e_has_gw st' = gw /\ e_app_cb st' = cb
  /\ r_waiting st' = r_waiting st /\ r_joined st' = r_joined st /\ s_waiting st' = s_waiting st
  /\ o = map eff_gout eff.

Ltac all_cases st :=
  destruct st as [ra rf rw rj sa sf sw op run gw cb];
  destruct ra, sa, op, run, gw, cb; destruct rf; destruct sf.

Lemma src_handle_up : forall st u,
  same_as (fst (handle_up st u)) (snd (handle_up st u)) st (py_up (gabs st) u).
Proof.
  intros st u. destruct u as [code|b|].
  - unfold handle_up, py_up, py_Gateway_reset_received_k, gabs.
    destruct (code =? RESET_SOFTWARE); all_cases st; cbn; repeat split; reflexivity.
  - destruct b; all_cases st; cbn; repeat split; reflexivity.
  - all_cases st; cbn; repeat split; reflexivity.
Qed.

Lemma src_ezsp_close : forall st,
  same_as (fst (ezsp_close st)) (snd (ezsp_close st)) st (py_EZSP_close_k (gabs st)).
Proof. intros st. all_cases st; cbn; repeat split; reflexivity. Qed.

Lemma src_enter_failed : forall st,
  same_as (fst (enter_failed st)) (GAppFailed :: nil ++ tl (snd (enter_failed st))) st
          (py_Gateway_error_received_k (gabs st) 0).
Proof. intros st. all_cases st; cbn; repeat split; reflexivity. Qed.

(* the done-callback of the reset future *)
Lemma src_reset_cleanup : forall s,
  let '(ra, rf, sa, sf, op, run, gw, cb, eff) := py_Gateway__reset_cleanup_k s in
  let '(ra0, rf0, sa0, sf0, op0, run0, gw0, cb0, eff0) := s in
  ra = false /\ (rf, sa, sf, op, run, gw, cb, eff) = (rf0, sa0, sf0, op0, run0, gw0, cb0, eff0).
Proof. intros [[[[[[[[ra rf] sa] sf] op] run] gw] cb] eff]. cbn. split; reflexivity. Qed.
