(* Positive halves for C17 (model/Events.v): command accepted + the awaited event arrives => the operation
   completes successfully -- for ANY interleaving, not only the two three-event traces of
   not_missed_before_reply and not_missed_after_reply (the two c17_not_missed theorems).

   Vocabulary (proofs/Events_proofs.v):  accepted h := exists nj, In (EReply true nj) h
                                         matched k h := exists l, In (ECallbacks l) h /\ In (CStatus (wanted k)) l *)
From Coq Require Import ZArith NArith List Bool.
Import ListNotations.
Require Import BV.model.Events BV.proofs.Events_proofs.
Open Scope N_scope.

(* nothing in the body ends the operation from outside: no new start, no cancellation, no refusal *)
Definition no_abort (body : list evt) : Prop :=
  forall e, In e body -> match e with EStart _ | ECancel | EReply false _ => False | _ => True end.

(* "within the timeout": every expiry of the operation timeout falls before the command's reply (it is
   not armed yet) or after the awaited status event (the wait is over) *)
Definition timely (k : opkind) (body : list evt) : Prop :=
  forall b1 b2, body = b1 ++ ETimeout :: b2 -> ~ accepted b1 \/ matched k b1.

(* ---- helpers ------------------------------------------------------------------------------------------ *)
Lemma cb_in_dec : forall (c : cbframe) l, {In c l} + {~ In c l}.
Proof.
  intros c l. apply in_dec. decide equality; [apply N.eq_dec|apply Z.eq_dec|apply bool_dec].
Qed.

Lemma no_abort_tail : forall e body, no_abort (e :: body) -> no_abort body.
Proof. intros e body H x Hx. apply H. right. exact Hx. Qed.

Lemma no_abort_no_start : forall body, no_abort body -> forall k, ~ In (EStart k) body.
Proof. intros body H k Hin. exact (H _ Hin). Qed.

Lemma matched_cons_inv : forall k e body, matched k (e :: body) ->
  (exists l, e = ECallbacks l /\ In (CStatus (wanted k)) l) \/ matched k body.
Proof.
  intros k e body [l [[H|H] Hc]].
  - left. exists l. split; [exact H|exact Hc].
  - right. exists l. split; [exact H|exact Hc].
Qed.

Lemma accepted_cons_inv : forall e body, accepted (e :: body) ->
  (exists nj, e = EReply true nj) \/ accepted body.
Proof.
  intros e body [nj [H|H]].
  - left. exists nj. exact H.
  - right. exists nj. exact H.
Qed.

(* the three shapes the state of a running form / leave / bring-up can have *)
Definition st_cmd (k : opkind) (cok : bool) (its : list Z) : estate :=      (* reply and event both awaited *)
  Build_estate [(wanted k, true)] 0 (Some (k, StCommand)) false cok its.
Definition st_cmd_seen (k : opkind) (cok : bool) (its : list Z) : estate := (* event seen, reply awaited *)
  Build_estate [] 0 (Some (k, StCommand)) true cok its.
Definition st_evt (k : opkind) (cok : bool) (its : list Z) : estate :=      (* accepted, event awaited *)
  Build_estate [(wanted k, true)] 0 (Some (k, StEvent)) false cok its.

Lemma done_then_nothing : forall st k o body,
  (forall k0, ~ In (EStart k0) body) ->
  concat (snd (erun (fst (finish st k o)) body)) = [].
Proof.
  intros st k o body Hno. exact (proj1 (idle_run body _ (finish_idle st k o) Hno)).
Qed.

(* accepted, waiting for the event *)
Lemma evt_phase : forall k body cok its, k <> OScan -> no_abort body -> matched k body ->
  (forall b1 b2, body = b1 ++ ETimeout :: b2 -> matched k b1) ->
  concat (snd (erun (st_evt k cok its) body)) = [ODone k (DoneOk [])].
Proof.
  intros k body cok its Hk. induction body as [|e body IH]; intros Hna Hm Ht.
  - destruct Hm as [l [[] _]].
  - assert (Hna' := no_abort_tail _ _ Hna).
    assert (Hns := no_abort_no_start _ Hna').
    assert (He := Hna e (or_introl eq_refl)).
    assert (Ht' : forall x, (forall l, x = ECallbacks l -> ~ In (CStatus (wanted k)) l) ->
                  e = x -> forall b1 b2, body = b1 ++ ETimeout :: b2 -> matched k b1).
    { intros x Hx Ex b1 b2 Eb. subst x.
      destruct (matched_cons_inv k e b1 (Ht (e :: b1) b2 (f_equal (cons e) Eb))) as [[l [El Hl]]|H];
        [destruct (Hx l El Hl)|exact H]. }
    rewrite erun_cons. cbn [fst snd concat].
    destruct e as [k'|ok nj|l| |]; try destruct He.
    + (* a reply while waiting for the event: ignored *)
      destruct ok; [|destruct He].
      assert (Hm' : matched k body).
      { destruct (matched_cons_inv _ _ _ Hm) as [[l [El _]]|H]; [discriminate El|exact H]. }
      unfold st_evt at 1 2. cbn [estep active fst snd app]. fold (st_evt k cok its).
      apply IH; [exact Hna'|exact Hm'|].
      apply (Ht' (EReply true nj)); [intros l El; discriminate El|reflexivity].
    + destruct (cb_in_dec (CStatus (wanted k)) l) as [Hin|Hnin].
      * (* the awaited event *)
        unfold st_evt. cbn [estep]. rewrite (fold_hit _ l _ _ _ _ Hin).
        destruct k; try (exfalso; exact (Hk eq_refl));
          cbn [settle active listeners scan_cbs event_seen completion_ok items filter snd];
          rewrite (done_then_nothing _ _ _ body Hns); reflexivity.
      * assert (Hm' : matched k body).
        { destruct (matched_cons_inv _ _ _ Hm) as [[l0 [El Hl]]|H]; [|exact H].
          injection El as El. subst l0. destruct (Hnin Hl). }
        unfold st_evt at 1 2. cbn [estep]. rewrite (fold_nohit _ l _ _ _ _ Hnin).
        cbn [settle active listeners scan_cbs event_seen completion_ok items filter snd fst app].
        fold (st_evt k cok its).
        apply IH; [exact Hna'|exact Hm'|].
        apply (Ht' (ECallbacks l)); [|reflexivity].
        intros l0 El. injection El as El. subst l0. exact Hnin.
    + (* the timeout cannot come first *)
      destruct (Ht [] body eq_refl) as [l [[] _]].
Qed.

(* the event was seen before the reply: the accepting reply completes the operation *)
Lemma cmd_seen_phase : forall k body cok its, k <> OScan -> no_abort body -> accepted body ->
  concat (snd (erun (st_cmd_seen k cok its) body)) = [ODone k (DoneOk [])].
Proof.
  intros k body cok its Hk. induction body as [|e body IH]; intros Hna Ha.
  - destruct Ha as [nj []].
  - assert (Hna' := no_abort_tail _ _ Hna).
    assert (Hns := no_abort_no_start _ Hna').
    assert (He := Hna e (or_introl eq_refl)).
    rewrite erun_cons. cbn [fst snd concat].
    destruct e as [k'|ok nj|l| |]; try destruct He.
    + destruct ok; [|destruct He].
      unfold st_cmd_seen.
      destruct k; try (exfalso; exact (Hk eq_refl));
        cbn [estep settle active listeners scan_cbs event_seen completion_ok items snd];
        rewrite (done_then_nothing _ _ _ body Hns); reflexivity.
    + assert (Ha' : accepted body).
      { destruct (accepted_cons_inv _ _ Ha) as [[nj E]|H]; [discriminate E|exact H]. }
      unfold st_cmd_seen at 1 2. cbn [estep]. rewrite fold_idle.
      cbn [settle active listeners scan_cbs event_seen completion_ok items filter snd fst app].
      fold (st_cmd_seen k cok its). exact (IH Hna' Ha').
    + assert (Ha' : accepted body).
      { destruct (accepted_cons_inv _ _ Ha) as [[nj E]|H]; [discriminate E|exact H]. }
      unfold st_cmd_seen at 1 2.
      destruct k; try (exfalso; exact (Hk eq_refl)); cbn [estep active fst snd app];
        exact (IH Hna' Ha').
Qed.

(* the command was sent: reply and event are both still awaited *)
Lemma cmd_phase : forall k body cok its, k <> OScan -> no_abort body -> accepted body ->
  matched k body -> timely k body ->
  concat (snd (erun (st_cmd k cok its) body)) = [ODone k (DoneOk [])].
Proof.
  intros k body cok its Hk. induction body as [|e body IH]; intros Hna Ha Hm Ht.
  - destruct Ha as [nj []].
  - assert (Hna' := no_abort_tail _ _ Hna).
    assert (He := Hna e (or_introl eq_refl)).
    assert (Htl : forall b1 b2, body = b1 ++ ETimeout :: b2 -> ~ accepted (e :: b1) \/ matched k (e :: b1)).
    { intros b1 b2 Eb. exact (Ht (e :: b1) b2 (f_equal (cons e) Eb)). }
    rewrite erun_cons. cbn [fst snd concat].
    destruct e as [k'|ok nj|l| |]; try destruct He.
    + (* the accepting reply: now wait for the event *)
      destruct ok; [|destruct He].
      assert (Hm' : matched k body).
      { destruct (matched_cons_inv _ _ _ Hm) as [[l [El _]]|H]; [discriminate El|exact H]. }
      unfold st_cmd at 1 2. cbn [estep settle active listeners scan_cbs event_seen completion_ok items fst snd app].
      fold (st_evt k cok its).
      apply evt_phase; [exact Hk|exact Hna'|exact Hm'|].
      intros b1 b2 Eb. destruct (Htl b1 b2 Eb) as [H|H].
      * elim H. exists nj. left. reflexivity.
      * destruct (matched_cons_inv _ _ _ H) as [[l [El _]]|H']; [discriminate El|exact H'].
    + assert (Ha' : accepted body).
      { destruct (accepted_cons_inv _ _ Ha) as [[nj E]|H]; [discriminate E|exact H]. }
      destruct (cb_in_dec (CStatus (wanted k)) l) as [Hin|Hnin].
      * (* the event, before the reply *)
        unfold st_cmd at 1 2. cbn [estep]. rewrite (fold_hit _ l _ _ _ _ Hin).
        cbn [settle active listeners scan_cbs event_seen completion_ok items filter snd fst app].
        fold (st_cmd_seen k cok its). exact (cmd_seen_phase k body cok its Hk Hna' Ha').
      * assert (Hm' : matched k body).
        { destruct (matched_cons_inv _ _ _ Hm) as [[l0 [El Hl]]|H]; [|exact H].
          injection El as El. subst l0. destruct (Hnin Hl). }
        unfold st_cmd at 1 2. cbn [estep]. rewrite (fold_nohit _ l _ _ _ _ Hnin).
        cbn [settle active listeners scan_cbs event_seen completion_ok items filter snd fst app].
        fold (st_cmd k cok its).
        apply IH; [exact Hna'|exact Ha'|exact Hm'|].
        intros b1 b2 Eb. destruct (Htl b1 b2 Eb) as [H|H].
        -- left. intros [nj Hnj]. apply H. exists nj. right. exact Hnj.
        -- right. destruct (matched_cons_inv _ _ _ H) as [[l0 [El Hl]]|H']; [|exact H'].
           injection El as El. subst l0. destruct (Hnin Hl).
    + (* a timeout before the reply: not armed *)
      assert (Ha' : accepted body).
      { destruct (accepted_cons_inv _ _ Ha) as [[nj E]|H]; [discriminate E|exact H]. }
      assert (Hm' : matched k body).
      { destruct (matched_cons_inv _ _ _ Hm) as [[l [El _]]|H]; [discriminate El|exact H]. }
      assert (Hgo : concat (snd (erun (st_cmd k cok its) body)) = [ODone k (DoneOk [])]).
      { apply IH; [exact Hna'|exact Ha'|exact Hm'|].
        intros b1 b2 Eb. destruct (Htl b1 b2 Eb) as [H|H].
        -- left. intros [nj Hnj]. apply H. exists nj. right. exact Hnj.
        -- right. destruct (matched_cons_inv _ _ _ H) as [[l0 [El _]]|H']; [discriminate El|exact H']. }
      unfold st_cmd at 1 2.
      destruct k; try (exfalso; exact (Hk eq_refl)); cbn [estep active fst snd app]; exact Hgo.
Qed.

(* ---- B1 ------------------------------------------------------------------------------------------------
   form / leave / bring-up: the command is accepted and the awaited stack status arrives -- before or after
   the command's reply, with anything else in between (other status frames, scan callbacks, further
   replies, timeouts outside the waiting window) -- then the operation completes successfully, exactly
   once, and nothing else is output. *)
Theorem accepted_and_event_completes : forall st k body, idle st -> k <> OScan ->
  no_abort body -> accepted body -> matched k body -> timely k body ->
  concat (snd (erun st (EStart k :: body))) = [OCommand k; ODone k (DoneOk [])].
Proof.
  intros st k body Hidle Hk Hna Ha Hm Ht. rewrite (idle_shape st Hidle).
  generalize (event_seen st) (completion_ok st) (items st). intros seen cok its.
  rewrite erun_cons. cbn [fst snd concat].
  assert (E : forall x, [OCommand k] ++ x = OCommand k :: x) by reflexivity.
  destruct k; try (exfalso; exact (Hk eq_refl)); cbn [estep active listeners scan_cbs fst snd app].
  - exact (f_equal (cons (OCommand OForm)) (cmd_phase OForm body false [] Hk Hna Ha Hm Ht)).
  - exact (f_equal (cons (OCommand OLeave)) (cmd_phase OLeave body false [] Hk Hna Ha Hm Ht)).
  - exact (f_equal (cons (OCommand OBringup)) (cmd_phase OBringup body false [] Hk Hna Ha Hm Ht)).
Qed.

(* and afterwards the machine is idle again: no listener is left behind *)
Theorem accepted_and_event_completes_idle : forall st k body, idle st -> k <> OScan ->
  no_abort body -> accepted body -> matched k body -> timely k body ->
  idle (fst (erun st (EStart k :: body))).
Proof.
  intros st k body Hidle Hk Hna Ha Hm Ht.
  pose proof (accepted_and_event_completes st k body Hidle Hk Hna Ha Hm Ht) as H.
  (* the last non-empty output is an ODone; from there on the state is idle *)
  assert (G : forall es s, (forall k0, ~ In (EStart k0) es) ->
            In (ODone k (DoneOk [])) (concat (snd (erun s es))) -> idle (fst (erun s es))).
  { induction es as [|e es IHes]; intros s Hns Hin; [destruct Hin|].
    rewrite erun_cons in *. cbn [fst snd concat] in *.
    assert (Hns' : forall k0, ~ In (EStart k0) es) by (intros k0 F; apply (Hns k0); right; exact F).
    apply in_app_or in Hin. destruct Hin as [Hin|Hin].
    - exact (proj2 (idle_run es _ (done_means_idle _ _ _ _ Hin) Hns')).
    - exact (IHes _ Hns' Hin). }
  rewrite erun_cons in *. cbn [fst snd concat] in *.
  apply G; [exact (no_abort_no_start _ Hna)|].
  destruct (start_opinv st k Hidle) as [Ho _]. rewrite Ho in H. cbn [app] in H.
  apply (f_equal (@tl eout)) in H. cbn [tl] in H. rewrite H. left. reflexivity.
Qed.

(* the two fixed traces of c17_not_missed_before_reply / c17_not_missed_after_reply are instances *)
Example instance_before_reply : forall st k l nj, idle st -> k <> OScan -> In (CStatus (wanted k)) l ->
  concat (snd (erun st [EStart k; ECallbacks l; EReply true nj])) = [OCommand k; ODone k (DoneOk [])].
Proof.
  intros st k l nj Hi Hk Hl. apply accepted_and_event_completes; [exact Hi|exact Hk| | | |].
  - intros e [E|[E|[]]]; subst e; exact I.
  - exists nj. right. left. reflexivity.
  - exists l. split; [left; reflexivity|exact Hl].
  - intros b1 b2 E. exfalso.
    destruct b1 as [|x [|y [|z b1]]]; discriminate E.
Qed.

(* ---- B2 ------------------------------------------------------------------------------------------------
   scan_results (c17_scan_results) is already the positive statement for ONE batch of results after the
   reply and the completion callback at the head of its batch.  General form: any number of result batches
   before and after the command's reply (the callback is registered before the command is sent, so results
   that overtake the reply are kept), and the completion callback anywhere in the last batch. *)
Definition no_complete (l : list cbframe) : Prop := forall ok, ~ In (CComplete ok) l.

Definition st_scan (stg : stage) (cok : bool) (its : list Z) : estate :=
  Build_estate [] 1 (Some (OScan, stg)) false cok its.

Lemma items_of_app : forall a b, items_of (a ++ b) = items_of a ++ items_of b.
Proof. intros a b. unfold items_of. apply flat_map_app. Qed.

Lemma scan_collect_run : forall batches stg cok its rest,
  (forall l, In l batches -> no_complete l) ->
  concat (snd (erun (st_scan stg cok its) (map ECallbacks batches ++ rest))) =
  concat (snd (erun (st_scan stg cok (its ++ items_of (concat batches))) rest)).
Proof.
  induction batches as [|l batches IH]; intros stg cok its rest Hnc.
  - cbn [map app concat]. unfold items_of at 1. cbn [flat_map]. rewrite app_nil_r. reflexivity.
  - cbn [map app concat]. rewrite erun_cons. cbn [fst snd concat].
    assert (Hl : no_complete l) by (apply Hnc; left; reflexivity).
    unfold st_scan at 1 2. cbn [estep].
    rewrite (fold_scan_collect l _ _ _ (Hl true) (Hl false)).
    replace (settle _) with (st_scan stg cok (its ++ items_of l), @nil eout)
      by (destruct stg; reflexivity).
    cbn [fst snd app]. rewrite IH by (intros l0 H0; apply Hnc; right; exact H0).
    rewrite items_of_app, app_assoc. reflexivity.
Qed.

Theorem scan_completes_with_results : forall st pre nj mid l1 l2, idle st ->
  (forall l, In l pre -> no_complete l) -> (forall l, In l mid -> no_complete l) -> no_complete l1 ->
  concat (snd (erun st (EStart OScan :: map ECallbacks pre ++ EReply true nj :: map ECallbacks mid
                        ++ [ECallbacks (l1 ++ CComplete true :: l2)])))
  = [OCommand OScan; ODone OScan (DoneOk (items_of (concat pre ++ concat mid ++ l1 ++ l2)))].
Proof.
  intros st pre nj mid l1 l2 Hidle Hpre Hmid Hl1. rewrite (idle_shape st Hidle).
  generalize (event_seen st) (completion_ok st) (items st). intros seen cok its.
  rewrite erun_cons. cbn [estep active listeners scan_cbs fst snd concat app].
  change (0 + 1) with 1. fold (st_scan StCommand false []).
  rewrite (scan_collect_run pre StCommand false [] _ Hpre). cbn [app].
  rewrite erun_cons. unfold st_scan.
  cbn [estep settle active listeners scan_cbs event_seen completion_ok items fst snd concat app].
  fold (st_scan StEvent false (items_of (concat pre))).
  rewrite (scan_collect_run mid StEvent false _ _ Hmid).
  rewrite erun_cons. cbn [erun fst snd concat]. rewrite app_nil_r.
  unfold st_scan. cbn [estep]. rewrite fold_left_app.
  rewrite (fold_scan_collect l1 _ _ _ (Hl1 true) (Hl1 false)).
  cbn [fold_left handle_cb scan_cbs event_seen listeners active items completion_ok].
  cbn [N.ltb N.compare andb negb].
  rewrite fold_scan_after.
  cbn [settle active listeners scan_cbs event_seen completion_ok items filter finish fst snd].
  rewrite !items_of_app, <- !app_assoc. reflexivity.
Qed.

(* a completion callback that reports failure makes the scan fail, whatever was collected *)
Theorem scan_failed_completion : forall st pre nj mid l1 l2, idle st ->
  (forall l, In l pre -> no_complete l) -> (forall l, In l mid -> no_complete l) -> no_complete l1 ->
  concat (snd (erun st (EStart OScan :: map ECallbacks pre ++ EReply true nj :: map ECallbacks mid
                        ++ [ECallbacks (l1 ++ CComplete false :: l2)])))
  = [OCommand OScan; ODone OScan DoneScanFailed].
Proof.
  intros st pre nj mid l1 l2 Hidle Hpre Hmid Hl1. rewrite (idle_shape st Hidle).
  generalize (event_seen st) (completion_ok st) (items st). intros seen cok its.
  rewrite erun_cons. cbn [estep active listeners scan_cbs fst snd concat app].
  change (0 + 1) with 1. fold (st_scan StCommand false []).
  rewrite (scan_collect_run pre StCommand false [] _ Hpre). cbn [app].
  rewrite erun_cons. unfold st_scan.
  cbn [estep settle active listeners scan_cbs event_seen completion_ok items fst snd concat app].
  fold (st_scan StEvent false (items_of (concat pre))).
  rewrite (scan_collect_run mid StEvent false _ _ Hmid).
  rewrite erun_cons. cbn [erun fst snd concat]. rewrite app_nil_r.
  unfold st_scan. cbn [estep]. rewrite fold_left_app.
  rewrite (fold_scan_collect l1 _ _ _ (Hl1 true) (Hl1 false)).
  cbn [fold_left handle_cb scan_cbs event_seen listeners active items completion_ok].
  cbn [N.ltb N.compare andb negb].
  rewrite fold_scan_after.
  cbn [settle active listeners scan_cbs event_seen completion_ok items filter finish fst snd].
  reflexivity.
Qed.
