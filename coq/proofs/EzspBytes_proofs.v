(* Proofs for C08: EZSP.frame_received on raw bytes (model/EzspProto.v, Section Bytes).
   Every received byte string either changes nothing, or produces exactly one callback, or drops /
   answers the pending entry registered under the sequence number it reads as.  The two shape
   lemmas [recv_shape] and [deliver_shape] enumerate these cases once; the theorems of props/C08.v
   are read off them. *)
From Coq Require Import String ZArith NArith List Bool.
Import ListNotations.
Require Import BV.lib.EzspTypes BV.model.EzspCodec BV.model.EzspProto.
Open Scope N_scope.

(* ---- the dictionaries --------------------------------------------------------------------------- *)
Lemma call_get_id : forall id l c, call_get id l = Some c -> k_id c = id.
Proof.
  intros id l. induction l as [|c' l' IH]; intros c Hget; cbn [call_get] in Hget.
  - discriminate Hget.
  - destruct (k_id c' =? id) eqn:Heq.
    + injection Hget as Hc. subst c'. apply N.eqb_eq. exact Heq.
    + apply IH. exact Hget.
Qed.

Lemma call_get_In : forall id l c, call_get id l = Some c -> In c l.
Proof.
  intros id l. induction l as [|c' l' IH]; intros c Hget; cbn [call_get] in Hget.
  - discriminate Hget.
  - destruct (k_id c' =? id) eqn:Heq.
    + injection Hget as Hc. left. exact Hc.
    + right. apply IH. exact Hget.
Qed.

Lemma call_get_set : forall id c l, k_id c = id -> call_get id (call_set c l) = Some c.
Proof.
  intros id c l Hid. subst id. induction l as [|c' l' IH]; cbn [call_set call_get].
  - rewrite N.eqb_refl. reflexivity.
  - destruct (k_id c' =? k_id c) eqn:Heq; cbn [call_get].
    + rewrite N.eqb_refl. reflexivity.
    + rewrite Heq. exact IH.
Qed.

Lemma call_set_In : forall c l x, In x (call_set c l) -> x = c \/ In x l.
Proof.
  intros c l x. induction l as [|c' l' IH]; cbn [call_set]; intro Hin.
  - destruct Hin as [Hx|[]]. left. symmetry. exact Hx.
  - destruct (k_id c' =? k_id c).
    + destruct Hin as [Hx|Hin].
      * left. symmetry. exact Hx.
      * right. right. exact Hin.
    + destruct Hin as [Hx|Hin].
      * right. left. exact Hx.
      * destruct (IH Hin) as [Hc|Hl]; [left; exact Hc|right; right; exact Hl].
Qed.

Lemma call_del_In : forall id l x, In x (call_del id l) -> In x l.
Proof.
  intros id l x. induction l as [|c' l' IH]; cbn [call_del]; intro Hin.
  - exact Hin.
  - destruct (k_id c' =? id).
    + right. exact Hin.
    + destruct Hin as [Hx|Hin]; [left; exact Hx|right; exact (IH Hin)].
Qed.

(* deleting the entry that was just written gives back (part of) the old dictionary *)
Lemma call_del_set_In : forall id c l x, k_id c = id -> In x (call_del id (call_set c l)) -> In x l.
Proof.
  intros id c l x Hid. subst id. induction l as [|c' l' IH]; cbn [call_set].
  - cbn [call_del]. rewrite N.eqb_refl. intros [].
  - destruct (k_id c' =? k_id c) eqn:Heq; cbn [call_del].
    + rewrite N.eqb_refl. intro Hin. right. exact Hin.
    + rewrite Heq. intros [Hx|Hin]; [left; exact Hx|right; exact (IH Hin)].
Qed.

Lemma aw_get_set : forall s v l, aw_get s (aw_set s v l) = Some v.
Proof.
  intros s v l. induction l as [|[s' v'] l' IH]; cbn [aw_set aw_get].
  - rewrite N.eqb_refl. reflexivity.
  - destruct (s' =? s) eqn:Heq; cbn [aw_get].
    + rewrite N.eqb_refl. reflexivity.
    + rewrite Heq. exact IH.
Qed.

(* ---- release / finish --------------------------------------------------------------------------- *)
Lemma finish_eq : forall st id o,
  finish st id o = (fst (release (with_calls st (call_del id (p_calls st)))),
                    o :: snd (release (with_calls st (call_del id (p_calls st))))).
Proof.
  intros st id o. unfold finish. destruct (release (with_calls st (call_del id (p_calls st)))) as [st1 outs].
  reflexivity.
Qed.

(* release() only ever emits the OSend of the first waiter, which leaves the queue *)
Lemma release_outs : forall st o, In o (snd (release st)) ->
  exists p n id q' c,
    p_queue st = (p, n, id) :: q' /\ call_get id (p_calls st) = Some c /\
    o = OSend id (p_seq st) (k_fid c) /\ p_queue (fst (release st)) = q'.
Proof.
  intros st o. unfold release. destruct (p_queue st) as [|[[p n] id] q'] eqn:Hq.
  - intros [].
  - destruct (call_get id (p_calls st)) as [c|] eqn:Hget.
    + unfold start_call. cbn [snd fst p_seq p_queue]. intros [Ho|[]].
      exists p, n, id, q', c. rewrite (call_get_id _ _ _ Hget) in Ho.
      split; [reflexivity|]. split; [exact Hget|]. split; [symmetry; exact Ho|reflexivity].
    + intros [].
Qed.

(* ---- deliver ------------------------------------------------------------------------------------ *)
(* a frame's reply either finds no call, is recorded on a call that is still sending, or completes
   the waiting call: one OReturn / ORaise KInvalidCommand for that call, then release() *)
Lemma deliver_shape : forall st call r, r <> RNone ->
  deliver st call r = (st, [])
  \/ (exists c, call_get call (p_calls st) = Some c /\ k_stage c <> PWaiting /\
        deliver st call r = (with_calls st (call_set (set_reply c r) (p_calls st)), []))
  \/ (exists c o, call_get call (p_calls st) = Some c /\ k_stage c = PWaiting /\
        ((exists vs, k_reply (set_reply c r) = RValues vs /\ o = OReturn call vs)
         \/ (k_reply (set_reply c r) = RInvalidCommand /\ o = ORaise call KInvalidCommand)) /\
        let st2 := with_calls st (call_del call (call_set (set_reply c r) (p_calls st))) in
        deliver st call r = (fst (release st2), o :: snd (release st2))).
Proof.
  intros st call r Hr. unfold deliver.
  destruct (call_get call (p_calls st)) as [c|] eqn:Hget; [|left; reflexivity].
  right. pose proof (call_get_id _ _ _ Hget) as Hid.
  change (k_stage (set_reply c r)) with (k_stage c).
  destruct (k_stage c) eqn:Hst.
  - left. exists c. split; [reflexivity|]. split; [rewrite Hst; discriminate|reflexivity].
  - left. exists c. split; [reflexivity|]. split; [rewrite Hst; discriminate|reflexivity].
  - right. unfold complete_with_reply.
    change (k_id (set_reply c r)) with (k_id c). rewrite Hid.
    destruct (k_reply (set_reply c r)) as [|vs|] eqn:Hrep.
    + exfalso. unfold set_reply in Hrep. cbn [k_reply] in Hrep.
      destruct (k_reply c); [apply Hr; exact Hrep|discriminate Hrep|discriminate Hrep].
    + exists c, (OReturn call vs). split; [reflexivity|]. split; [exact Hst|].
      split; [left; exists vs; split; [exact Hrep|reflexivity]|]. rewrite finish_eq. reflexivity.
    + exists c, (ORaise call KInvalidCommand). split; [reflexivity|]. split; [exact Hst|].
      split; [right; split; [exact Hrep|reflexivity]|]. rewrite finish_eq. reflexivity.
Qed.

(* ---- the invariant of reachable states ---------------------------------------------------------- *)
(* a call that waits for its reply has none recorded yet: complete_with_reply ends a call as soon as
   it is both waiting and answered *)
Definition waiting_has_no_reply (st : pstate) : Prop :=
  forall c, In c (p_calls st) -> k_stage c = PWaiting -> k_reply c = RNone.

Lemma waiting_inv_init : waiting_has_no_reply p_init.
Proof. intros c []. Qed.

Lemma wi_start_call : forall st c, waiting_has_no_reply st -> waiting_has_no_reply (fst (start_call st c)).
Proof.
  intros st c Hinv x Hin Hst. unfold start_call in Hin. cbn [fst p_calls] in Hin.
  apply call_set_In in Hin. destruct Hin as [Hx|Hin].
  - subst x. discriminate Hst.
  - exact (Hinv x Hin Hst).
Qed.

Lemma wi_release : forall st, waiting_has_no_reply st -> waiting_has_no_reply (fst (release st)).
Proof.
  intros st Hinv. unfold release. destruct (p_queue st) as [|[[p n] id] q'].
  - exact Hinv.
  - destruct (call_get id (p_calls st)) as [c|].
    + apply wi_start_call. exact Hinv.
    + exact Hinv.
Qed.

Lemma wi_finish : forall st id o,
  (forall c, In c (call_del id (p_calls st)) -> k_stage c = PWaiting -> k_reply c = RNone) ->
  waiting_has_no_reply (fst (finish st id o)).
Proof.
  intros st id o Hdel. rewrite finish_eq. cbn [fst]. apply wi_release. exact Hdel.
Qed.

Lemma wi_complete : forall st c, waiting_has_no_reply st ->
  waiting_has_no_reply (fst (complete_with_reply (with_calls st (call_set c (p_calls st))) c)).
Proof.
  intros st c Hinv. unfold complete_with_reply. destruct (k_reply c) as [|vs|] eqn:Hrep.
  - intros x Hin Hst. cbn [fst with_calls p_calls] in Hin. apply call_set_In in Hin.
    destruct Hin as [Hx|Hin]; [subst x; exact Hrep|exact (Hinv x Hin Hst)].
  - apply wi_finish. cbn [with_calls p_calls]. intros x Hin Hst.
    apply (call_del_set_In (k_id c) c) in Hin; [exact (Hinv x Hin Hst)|reflexivity].
  - apply wi_finish. cbn [with_calls p_calls]. intros x Hin Hst.
    apply (call_del_set_In (k_id c) c) in Hin; [exact (Hinv x Hin Hst)|reflexivity].
Qed.

Lemma wi_deliver : forall st call r, waiting_has_no_reply st -> waiting_has_no_reply (fst (deliver st call r)).
Proof.
  intros st call r Hinv. unfold deliver. destruct (call_get call (p_calls st)) as [c|]; [|exact Hinv].
  destruct (k_stage (set_reply c r)) eqn:Hst.
  - intros x Hin Hx. cbn [fst with_calls p_calls] in Hin. apply call_set_In in Hin.
    destruct Hin as [Hc|Hin]; [subst x; rewrite Hst in Hx; discriminate Hx|exact (Hinv x Hin Hx)].
  - intros x Hin Hx. cbn [fst with_calls p_calls] in Hin. apply call_set_In in Hin.
    destruct Hin as [Hc|Hin]; [subst x; rewrite Hst in Hx; discriminate Hx|exact (Hinv x Hin Hx)].
  - apply wi_complete. exact Hinv.
Qed.

Lemma waiting_inv_step : forall st e, waiting_has_no_reply st -> waiting_has_no_reply (fst (proto_step st e)).
Proof.
  intros st e Hinv. destruct e as [id prio fid|id ok|d|id|id]; cbn [proto_step].
  - assert (Hq : waiting_has_no_reply
             (fst ({| p_seq := p_seq st; p_awaiting := p_awaiting st; p_holder := p_holder st;
                      p_queue := q_insert ((- prio)%Z, p_counter st + 1, id) (p_queue st);
                      p_counter := p_counter st + 1;
                      p_calls := call_set {| k_id := id; k_prio := prio; k_fid := fid; k_seq := 0;
                                             k_stage := PQueued; k_reply := RNone |} (p_calls st) |},
                   @nil pout))).
    { intros x Hin Hst. cbn [fst p_calls] in Hin. apply call_set_In in Hin.
      destruct Hin as [Hx|Hin]; [subst x; discriminate Hst|exact (Hinv x Hin Hst)]. }
    destruct (p_holder st); [exact Hq|]. destruct (p_queue st); [|exact Hq].
    apply wi_start_call. exact Hinv.
  - destruct (call_get id (p_calls st)) as [c|]; [|exact Hinv].
    destruct (k_stage c); [exact Hinv| |exact Hinv].
    destruct ok.
    + apply wi_complete. exact Hinv.
    + apply wi_finish. intros x Hin Hst. exact (Hinv x (call_del_In _ _ _ Hin) Hst).
  - destruct d as [|s fid|s fid|s fid invalid vs]; try exact Hinv.
    destruct (aw_get s (p_awaiting st)) as [[expected call]|]; [|exact Hinv].
    destruct invalid.
    + apply wi_deliver. exact Hinv.
    + destruct (expected =? fid); [apply wi_deliver; exact Hinv|exact Hinv].
  - destruct (call_get id (p_calls st)) as [c|]; [|exact Hinv].
    destruct (k_stage c); try exact Hinv. destruct (k_reply c); try exact Hinv.
    apply wi_finish. intros x Hin Hst. exact (Hinv x (call_del_In _ _ _ Hin) Hst).
  - destruct (call_get id (p_calls st)) as [c|]; [|exact Hinv].
    destruct (k_stage c).
    + intros x Hin Hst. cbn [fst p_calls] in Hin. exact (Hinv x (call_del_In _ _ _ Hin) Hst).
    + apply wi_finish. intros x Hin Hst. exact (Hinv x (call_del_In _ _ _ Hin) Hst).
    + apply wi_finish. intros x Hin Hst. exact (Hinv x (call_del_In _ _ _ Hin) Hst).
Qed.

Lemma waiting_inv_run : forall es st, waiting_has_no_reply st -> waiting_has_no_reply (fst (proto_run st es)).
Proof.
  induction es as [|e es IH]; intros st Hinv; [exact Hinv|].
  cbn [proto_run]. pose proof (waiting_inv_step st e Hinv) as H1.
  destruct (proto_step st e) as [st1 o]. cbn [fst] in H1. specialize (IH st1 H1).
  destruct (proto_run st1 es) as [st2 os]. exact IH.
Qed.

Lemma waiting_inv_reachable : forall es, waiting_has_no_reply (fst (proto_run p_init es)).
Proof. intro es. apply waiting_inv_run. exact waiting_inv_init. Qed.

(* ---- the byte level ----------------------------------------------------------------------------- *)
Section Bytes.
  Variables (schemas : list schema) (kind : N) (cs : list command) (invalid_fid : N).
  Let recv := frame_received schemas kind cs invalid_fid.
  Let classify := classify schemas kind cs invalid_fid.

  (* all the ways a byte string can be handled *)
  Lemma recv_shape : forall st data,
    recv st data = (st, [])
    \/ exists s f payload c vs rest,
         header_rx kind data = Some (s, f, payload) /\ find_by_id f cs = Some c /\
         decode_schema (schema_at schemas (c_rx c)) payload = Some (vs, rest) /\
         classify data = Some (DOk s f (f =? invalid_fid) vs) /\
         ((aw_get s (p_awaiting st) = None /\ recv st data = (st, [OCallback f vs]))
          \/ exists exp call, aw_get s (p_awaiting st) = Some (exp, call) /\
               ((f <> invalid_fid /\ exp <> f /\ recv st data = (pop_awaiting st s, []))
                \/ (f = invalid_fid /\ recv st data = deliver (pop_awaiting st s) call RInvalidCommand)
                \/ (f <> invalid_fid /\ exp = f /\
                    recv st data = deliver (pop_awaiting st s) call (RValues vs)))).
  Proof.
    intros st data. unfold recv, classify, frame_received, EzspProto.classify.
    destruct data as [|b data']; [left; reflexivity|].
    destruct (header_rx kind (b :: data')) as [[[s f] payload]|] eqn:Hh; [|left; reflexivity].
    destruct (find_by_id f cs) as [c|] eqn:Hf; [|left; reflexivity].
    destruct (decode_schema (schema_at schemas (c_rx c)) payload) as [[vs rest]|] eqn:Hd; [|left; reflexivity].
    right. exists s, f, payload, c, vs, rest.
    split; [reflexivity|]. split; [exact Hf|]. split; [exact Hd|]. split; [reflexivity|].
    cbn [proto_step].
    destruct (aw_get s (p_awaiting st)) as [[exp call]|] eqn:Ha; [|left; split; reflexivity].
    right. exists exp, call. split; [reflexivity|].
    destruct (f =? invalid_fid) eqn:Hinv.
    - right. left. split; [apply N.eqb_eq; exact Hinv|reflexivity].
    - apply N.eqb_neq in Hinv. destruct (exp =? f) eqn:He.
      + right. right. split; [exact Hinv|]. split; [apply N.eqb_eq; exact He|reflexivity].
      + left. split; [exact Hinv|]. split; [apply N.eqb_neq; exact He|reflexivity].
  Qed.

  (* C08 no_cross.  Needs [waiting_has_no_reply st]: without it an earlier recorded reply would be
     returned in place of this frame's values (set_reply keeps the first reply). *)
  Lemma bytes_no_cross : forall st data id vs,
    waiting_has_no_reply st ->
    In (OReturn id vs) (snd (recv st data)) ->
    exists s f payload c rest,
      header_rx kind data = Some (s, f, payload) /\ find_by_id f cs = Some c /\
      decode_schema (schema_at schemas (c_rx c)) payload = Some (vs, rest) /\
      aw_get s (p_awaiting st) = Some (f, id) /\ f <> invalid_fid.
  Proof.
    intros st data id vs Hinv Hin.
    destruct (recv_shape st data) as [Hnil|[s [f [payload [c [vs0 [rest [Hh [Hf [Hd [_ Hcase]]]]]]]]]]].
    - rewrite Hnil in Hin. destruct Hin.
    - destruct Hcase as [[_ Hcb]|[exp [call [Ha Hcase]]]].
      + rewrite Hcb in Hin. destruct Hin as [Ho|[]]. discriminate Ho.
      + assert (Hkey : forall r, r <> RNone -> In (OReturn id vs) (snd (deliver (pop_awaiting st s) call r)) ->
                         r = RValues vs /\ call = id).
        { intros r Hr Hin'. destruct (deliver_shape (pop_awaiting st s) call r Hr)
            as [Hq|[[c0 [_ [_ Hq]]]|[c0 [o [Hget [Hst [Ho Hq]]]]]]].
          - rewrite Hq in Hin'. destruct Hin'.
          - rewrite Hq in Hin'. destruct Hin'.
          - cbv zeta in Hq. rewrite Hq in Hin'. cbn [snd] in Hin'. destruct Hin' as [Heq|Hrel].
            + cbn [pop_awaiting p_calls] in Hget.
              pose proof (Hinv c0 (call_get_In _ _ _ Hget) Hst) as Hnone.
              assert (Hrep : k_reply (set_reply c0 r) = r).
              { unfold set_reply. cbn [k_reply]. rewrite Hnone. reflexivity. }
              destruct Ho as [[vs1 [Hv Ho]]|[_ Ho]].
              * rewrite Ho in Heq. injection Heq as Hc Hvs. subst vs1. rewrite Hrep in Hv. split; assumption.
              * rewrite Ho in Heq. discriminate Heq.
            + apply release_outs in Hrel.
              destruct Hrel as [p [n [i [q' [c1 [_ [_ [Ho' _]]]]]]]]. discriminate Ho'. }
        destruct Hcase as [[_ [_ Hr]]|[[_ Hr]|[Hne [He Hr]]]].
        * rewrite Hr in Hin. destruct Hin.
        * rewrite Hr in Hin. apply Hkey in Hin; [|discriminate]. destruct Hin as [Hbad _]. discriminate Hbad.
        * rewrite Hr in Hin. apply Hkey in Hin; [|discriminate]. destruct Hin as [Hvs Hc].
          injection Hvs as Hvs. subst vs0 exp call.
          exists s, f, payload, c, rest. repeat split; assumption.
  Qed.

  Lemma bytes_callback_only_if_decodes : forall st data f vs,
    In (OCallback f vs) (snd (recv st data)) ->
    exists s payload c rest,
      header_rx kind data = Some (s, f, payload) /\ find_by_id f cs = Some c /\
      decode_schema (schema_at schemas (c_rx c)) payload = Some (vs, rest) /\
      aw_get s (p_awaiting st) = None.
  Proof.
    intros st data f vs Hin.
    destruct (recv_shape st data) as [Hnil|[s [f0 [payload [c [vs0 [rest [Hh [Hf [Hd [_ Hcase]]]]]]]]]]].
    - rewrite Hnil in Hin. destruct Hin.
    - destruct Hcase as [[Ha Hcb]|[exp [call [Ha Hcase]]]].
      + rewrite Hcb in Hin. destruct Hin as [Ho|[]]. injection Ho as Hf0 Hvs. subst f0 vs0.
        exists s, payload, c, rest. repeat split; assumption.
      + exfalso.
        assert (Hkey : forall r, r <> RNone -> In (OCallback f vs) (snd (deliver (pop_awaiting st s) call r)) -> False).
        { intros r Hr Hin'. destruct (deliver_shape (pop_awaiting st s) call r Hr)
            as [Hq|[[c0 [_ [_ Hq]]]|[c0 [o [_ [_ [Ho Hq]]]]]]].
          - rewrite Hq in Hin'. destruct Hin'.
          - rewrite Hq in Hin'. destruct Hin'.
          - cbv zeta in Hq. rewrite Hq in Hin'. cbn [snd] in Hin'. destruct Hin' as [Heq|Hrel].
            + destruct Ho as [[vs1 [_ Ho]]|[_ Ho]]; rewrite Ho in Heq; discriminate Heq.
            + apply release_outs in Hrel.
              destruct Hrel as [p [n [i [q' [c1 [_ [_ [Ho' _]]]]]]]]. discriminate Ho'. }
        destruct Hcase as [[_ [_ Hr]]|[[_ Hr]|[_ [_ Hr]]]]; rewrite Hr in Hin.
        * destruct Hin.
        * exact (Hkey RInvalidCommand ltac:(discriminate) Hin).
        * exact (Hkey (RValues vs0) ltac:(discriminate) Hin).
  Qed.

  Lemma bytes_malformed_no_effect : forall st data,
    match classify data with
    | None | Some DShort | Some (DUnknown _ _) | Some (DUndecodable _ _) => True
    | Some (DOk _ _ _ _) => False
    end -> recv st data = (st, []).
  Proof.
    intros st data. unfold recv, frame_received, classify.
    destruct (EzspProto.classify schemas kind cs invalid_fid data) as [d|]; [|reflexivity].
    destruct d as [|s f|s f|s f i vs]; intro H; try reflexivity. destruct H.
  Qed.

  Lemma bytes_mismatch_completes_nobody : forall st data s f vs exp id,
    classify data = Some (DOk s f false vs) -> aw_get s (p_awaiting st) = Some (exp, id) -> exp <> f ->
    snd (recv st data) = [].
  Proof.
    intros st data s f vs exp id Hc Ha Hne. unfold recv, frame_received.
    unfold classify in Hc. rewrite Hc. cbn [proto_step]. rewrite Ha.
    apply N.eqb_neq in Hne. rewrite Hne. reflexivity.
  Qed.

  Lemma bytes_later_ok : forall st junk id prio f vs,
    let st0 := fold_left (fun s d => fst (recv s d)) junk st in
    p_holder st0 = None -> p_queue st0 = [] -> call_get id (p_calls st0) = None ->
    let '(st1, o1) := proto_step st0 (ECall id prio f) in
    let '(st2, o2) := proto_step st1 (ESendDone id true) in
    let '(st3, o3) := proto_step st2 (EFrame (DOk (p_seq st0) f false vs)) in
    o1 = [OSend id (p_seq st0) f] /\ o2 = [] /\ o3 = [OReturn id vs] /\ p_holder st3 = None.
  Proof.
    intros st junk id prio f vs st0 Hh Hq _. clearbody st0.
    set (c1 := {| k_id := id; k_prio := prio; k_fid := f; k_seq := p_seq st0;
                  k_stage := PSending; k_reply := RNone |}).
    set (c2 := {| k_id := id; k_prio := prio; k_fid := f; k_seq := p_seq st0;
                  k_stage := PWaiting; k_reply := RNone |}).
    set (S1 := {| p_seq := (p_seq st0 + 1) mod 256;
                  p_awaiting := aw_set (p_seq st0) (f, id) (p_awaiting st0);
                  p_holder := Some id; p_queue := p_queue st0; p_counter := p_counter st0;
                  p_calls := call_set c1 (p_calls st0) |}).
    set (S2 := with_calls S1 (call_set c2 (p_calls S1))).
    assert (E1 : proto_step st0 (ECall id prio f) = (S1, [OSend id (p_seq st0) f])).
    { cbn [proto_step]. rewrite Hh, Hq. reflexivity. }
    assert (E2 : proto_step S1 (ESendDone id true) = (S2, [])).
    { cbn [proto_step]. change (p_calls S1) with (call_set c1 (p_calls st0)) at 1.
      rewrite (call_get_set id c1) by reflexivity. reflexivity. }
    assert (E3 : exists S3, proto_step S2 (EFrame (DOk (p_seq st0) f false vs)) = (S3, [OReturn id vs])
                            /\ p_holder S3 = None).
    { cbn [proto_step]. change (p_awaiting S2) with (aw_set (p_seq st0) (f, id) (p_awaiting st0)).
      rewrite aw_get_set. rewrite N.eqb_refl. unfold deliver.
      change (p_calls (pop_awaiting S2 (p_seq st0))) with (call_set c2 (p_calls S1)).
      rewrite (call_get_set id c2) by reflexivity.
      change (k_stage (set_reply c2 (RValues vs))) with PWaiting. cbv beta iota zeta.
      unfold complete_with_reply. change (k_reply (set_reply c2 (RValues vs))) with (RValues vs).
      cbv beta iota. rewrite finish_eq. unfold release.
      change (p_queue (with_calls _ _)) with (p_queue st0). rewrite Hq.
      eexists. split; reflexivity. }
    destruct E3 as [S3 [E3 H3]].
    rewrite E1. cbv beta iota. rewrite E2. cbv beta iota. rewrite E3. cbv beta iota.
    repeat split; try reflexivity. exact H3.
  Qed.

  (* the original c08_receive_only_completes: the queue moves only when a call is completed *)
  Lemma bytes_receive_only_completes : forall st data,
    p_queue (fst (recv st data)) = p_queue st \/ exists id vs, In (OReturn id vs) (snd (recv st data))
                                              \/ In (ORaise id KInvalidCommand) (snd (recv st data)).
  Proof.
    intros st data.
    destruct (recv_shape st data) as [Hnil|[s [f [payload [c [vs0 [rest [_ [_ [_ [_ Hcase]]]]]]]]]]].
    - left. rewrite Hnil. reflexivity.
    - destruct Hcase as [[_ Hcb]|[exp [call [_ Hcase]]]].
      + left. rewrite Hcb. reflexivity.
      + assert (Hkey : forall r, r <> RNone ->
                  p_queue (fst (deliver (pop_awaiting st s) call r)) = p_queue st
                  \/ exists id vs, In (OReturn id vs) (snd (deliver (pop_awaiting st s) call r))
                                   \/ In (ORaise id KInvalidCommand) (snd (deliver (pop_awaiting st s) call r))).
        { intros r Hr. destruct (deliver_shape (pop_awaiting st s) call r Hr)
            as [Hq|[[c0 [_ [_ Hq]]]|[c0 [o [_ [_ [Ho Hq]]]]]]].
          - left. rewrite Hq. reflexivity.
          - left. rewrite Hq. reflexivity.
          - right. cbv zeta in Hq. rewrite Hq. cbn [snd].
            destruct Ho as [[vs1 [_ Ho]]|[_ Ho]]; subst o.
            + exists call, vs1. left. left. reflexivity.
            + exists call, []. right. left. reflexivity. }
        destruct Hcase as [[_ [_ Hr]]|[[_ Hr]|[_ [_ Hr]]]]; rewrite Hr.
        * left. reflexivity.
        * apply Hkey. discriminate.
        * apply Hkey. discriminate.
  Qed.

  (* every output of recv: a return, an invalidCommand raise, a callback, or the OSend of the first
     QUEUED call, which got the slot because this very frame completed a call *)
  Lemma bytes_receive_outputs : forall st data o,
    In o (snd (recv st data)) ->
    match o with
    | OReturn _ _ | OCallback _ _ => True
    | ORaise _ k => k = KInvalidCommand
    | OSend id s f =>
        s = p_seq st /\
        (exists p n q', p_queue st = (p, n, id) :: q' /\ p_queue (fst (recv st data)) = q') /\
        (exists c, In c (p_calls st) /\ k_id c = id /\ k_fid c = f) /\
        (exists done, (exists vs, In (OReturn done vs) (snd (recv st data)))
                      \/ In (ORaise done KInvalidCommand) (snd (recv st data)))
    end.
  Proof.
    intros st data o Hin.
    destruct (recv_shape st data) as [Hnil|[s [f [payload [c [vs0 [rest [_ [_ [_ [_ Hcase]]]]]]]]]]].
    - rewrite Hnil in Hin. destruct Hin.
    - destruct Hcase as [[_ Hcb]|[exp [call [_ Hcase]]]].
      + rewrite Hcb in Hin. destruct Hin as [Ho|[]]. subst o. exact I.
      + assert (Hkey : forall r, r <> RNone -> recv st data = deliver (pop_awaiting st s) call r ->
                  match o with
                  | OReturn _ _ | OCallback _ _ => True
                  | ORaise _ k => k = KInvalidCommand
                  | OSend id s f =>
                      s = p_seq st /\
                      (exists p n q', p_queue st = (p, n, id) :: q' /\ p_queue (fst (recv st data)) = q') /\
                      (exists c, In c (p_calls st) /\ k_id c = id /\ k_fid c = f) /\
                      (exists done, (exists vs, In (OReturn done vs) (snd (recv st data)))
                                    \/ In (ORaise done KInvalidCommand) (snd (recv st data)))
                  end).
        { intros r Hr Heq. rewrite Heq in Hin |- *.
          destruct (deliver_shape (pop_awaiting st s) call r Hr)
            as [Hq|[[c0 [_ [_ Hq]]]|[c0 [o1 [Hget [_ [Ho Hq]]]]]]].
          - rewrite Hq in Hin. destruct Hin.
          - rewrite Hq in Hin. destruct Hin.
          - cbv zeta in Hq. rewrite Hq in Hin |- *. cbn [snd fst] in Hin |- *.
            destruct Hin as [Ho1|Hrel].
            + subst o1. destruct Ho as [[vs1 [_ Ho]]|[_ Ho]]; subst o; [exact I|reflexivity].
            + pose proof (release_outs _ _ Hrel) as Hrel'.
              destruct Hrel' as [p [n [i [q' [c1 [Hq1 [Hget1 [Ho' Hq2]]]]]]]].
              cbn [with_calls pop_awaiting p_queue p_seq p_calls] in Hq1, Hget1, Ho'.
              subst o. split; [reflexivity|]. split; [|split].
              * exists p, n, q'. split; [exact Hq1|exact Hq2].
              * exists c1. split; [|split; [exact (call_get_id _ _ _ Hget1)|reflexivity]].
                apply call_get_In in Hget1.
                apply (call_del_set_In call (set_reply c0 r)) in Hget1; [exact Hget1|].
                cbn [pop_awaiting p_calls] in Hget. exact (call_get_id _ _ _ Hget).
              * exists call. destruct Ho as [[vs1 [_ Ho]]|[_ Ho]]; subst o1.
                -- left. exists vs1. left. reflexivity.
                -- right. left. reflexivity. }
        destruct Hcase as [[_ [_ Hr]]|[[_ Hr]|[_ [_ Hr]]]].
        * rewrite Hr in Hin. destruct Hin.
        * exact (Hkey RInvalidCommand ltac:(discriminate) Hr).
        * exact (Hkey (RValues vs0) ltac:(discriminate) Hr).
  Qed.

  (* a frame that completes nobody leaves the slot, its queue, the counters and the calls alone: at
     most it pops the pending entry of its sequence number and records the reply on a call that is
     still in send_data *)
  Lemma bytes_receive_quiet : forall st data,
    (forall o, In o (snd (recv st data)) ->
       match o with OReturn _ _ | ORaise _ _ => False | _ => True end) ->
    let st' := fst (recv st data) in
    p_queue st' = p_queue st /\ p_holder st' = p_holder st /\
    p_seq st' = p_seq st /\ p_counter st' = p_counter st /\
    (p_awaiting st' = p_awaiting st \/ exists s, p_awaiting st' = aw_del s (p_awaiting st)) /\
    (p_calls st' = p_calls st
     \/ exists c r, In c (p_calls st) /\ k_stage c <> PWaiting /\ r <> RNone /\
                    p_calls st' = call_set (set_reply c r) (p_calls st)).
  Proof.
    intros st data Hquiet. cbv zeta.
    destruct (recv_shape st data) as [Hnil|[s [f [payload [c [vs0 [rest [_ [_ [_ [_ Hcase]]]]]]]]]]].
    - rewrite Hnil. cbn [fst]. repeat split; try reflexivity; left; reflexivity.
    - destruct Hcase as [[_ Hcb]|[exp [call [_ Hcase]]]].
      + rewrite Hcb. cbn [fst]. repeat split; try reflexivity; left; reflexivity.
      + assert (Hkey : forall r, r <> RNone -> recv st data = deliver (pop_awaiting st s) call r ->
                  p_queue (fst (recv st data)) = p_queue st /\ p_holder (fst (recv st data)) = p_holder st /\
                  p_seq (fst (recv st data)) = p_seq st /\ p_counter (fst (recv st data)) = p_counter st /\
                  (p_awaiting (fst (recv st data)) = p_awaiting st
                   \/ exists s, p_awaiting (fst (recv st data)) = aw_del s (p_awaiting st)) /\
                  (p_calls (fst (recv st data)) = p_calls st
                   \/ exists c r, In c (p_calls st) /\ k_stage c <> PWaiting /\ r <> RNone /\
                                  p_calls (fst (recv st data)) = call_set (set_reply c r) (p_calls st))).
        { intros r Hr Heq. rewrite Heq in Hquiet |- *.
          destruct (deliver_shape (pop_awaiting st s) call r Hr)
            as [Hq|[[c0 [Hget [Hst Hq]]]|[c0 [o1 [_ [_ [Ho Hq]]]]]]].
          - rewrite Hq. cbn [fst pop_awaiting p_queue p_holder p_seq p_counter p_awaiting p_calls].
            repeat split; try reflexivity; [right; exists s; reflexivity|left; reflexivity].
          - rewrite Hq. cbn [fst with_calls pop_awaiting p_queue p_holder p_seq p_counter p_awaiting p_calls].
            repeat split; try reflexivity; [right; exists s; reflexivity|].
            right. exists c0, r. cbn [pop_awaiting p_calls] in Hget.
            split; [exact (call_get_In _ _ _ Hget)|]. split; [exact Hst|]. split; [exact Hr|reflexivity].
          - exfalso. cbv zeta in Hq. rewrite Hq in Hquiet. cbn [snd] in Hquiet.
            specialize (Hquiet o1 (or_introl eq_refl)).
            destruct Ho as [[vs1 [_ Ho]]|[_ Ho]]; subst o1; exact Hquiet. }
        destruct Hcase as [[_ [_ Hr]]|[[_ Hr]|[_ [_ Hr]]]].
        * rewrite Hr. cbn [fst pop_awaiting p_queue p_holder p_seq p_counter p_awaiting p_calls].
          repeat split; try reflexivity; [right; exists s; reflexivity|left; reflexivity].
        * exact (Hkey RInvalidCommand ltac:(discriminate) Hr).
        * exact (Hkey (RValues vs0) ltac:(discriminate) Hr).
  Qed.

  (* received bytes keep the invariant *)
  Lemma bytes_waiting_inv_recv : forall st data,
    waiting_has_no_reply st -> waiting_has_no_reply (fst (recv st data)).
  Proof.
    intros st data Hinv. unfold recv, frame_received.
    destruct (EzspProto.classify schemas kind cs invalid_fid data) as [d|]; [|exact Hinv].
    apply waiting_inv_step. exact Hinv.
  Qed.
End Bytes.
