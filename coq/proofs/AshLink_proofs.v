(* C01 -- proofs about the composed system of model/AshLink.v.  Statements are restated in
   props/C01.v.

   Structure:
   (1) [Dir]: the abstract one-direction sliding-window invariant (3-bit numbers, window W <= 7,
       FIFO queues with loss and duplication), given as a contract: any sender / receiver / line
       whose moves are among the lemmas dir_* preserves it.  It yields
       "delivered = firstn r sent".
   (2) ghosts: the absolute indices of the frames in flight, as lists parallel to the two queues.
   (3) the host as the receiver of one direction (rx_frame) and the window-1 sender of the other
       (handle_ack / settle / retry_or_fail): precise one-step descriptions [smove], for every
       event including a read of any number of frames [frames_smove].
   (4) the system invariant [Inv] and its preservation by every label [inv_step], hence by every
       run [run_inv].  The refinement: each concrete label is a few abstract moves of the two
       directions (e.g. a read by the host = for each frame, "sender takes the head
       acknowledgement" in the host->NCP direction and "receiver accepts/rejects the head,
       then acknowledges" in the NCP->host direction; then possibly "sender slides" and
       "sender transmits" for the host->NCP direction).
   (5) the theorems.
   (6) cancellation commutes with everything.

   No hypothesis about floats is used: the time fields are carried along opaquely. *)
From Coq Require Import PrimFloat ZArith NArith List Bool Arith Lia ZifyBool ZifyN ZifyNat Sorted.
Import ListNotations.
Require Import BV.gen.GenAsh BV.model.AshCodec BV.model.AshRx BV.model.AshHost BV.model.AshLink.
Require Import BV.proofs.AshHost_proofs.
Local Open Scope nat_scope.
Ltac Zify.zify_post_hook ::= Z.to_euclidean_division_equations.

(* ================================================================================================ *)
(* (1) one direction, abstractly                                                                     *)
(* ================================================================================================ *)
Section DIR.
Variable P : Type.

Definition gsorted (q : list (nat * nat)) := StronglySorted (fun x y => fst x <= fst y) q.
Definition asorted (q : list nat) := StronglySorted le q.

(* a DATA frame in flight: (sender's base when it was sent, absolute index) *)
Definition dq_ok (W base next r : nat) (f : nat * nat) : Prop :=
  fst f <= snd f /\ snd f < fst f + W /\ snd f < next /\ fst f <= base /\ r <= fst f + W.

Record Dir (W base next r : nat) (sent deliv : list P) (dg : list (nat * nat)) (ag : list nat) : Prop := {
  d_br : base <= r;
  d_rn : r <= next;
  d_nb : next <= base + W;
  d_len : next <= length sent;
  d_dq : Forall (dq_ok W base next r) dg;
  d_ds : gsorted dg;
  d_aq : Forall (fun a => base <= a /\ a <= r) ag;
  d_as : asorted ag;
  d_del : deliv = firstn r sent
}.

Lemma ssorted_snoc {A} (R : A -> A -> Prop) q x :
  StronglySorted R q -> Forall (fun y => R y x) q -> StronglySorted R (q ++ [x]).
Proof.
  induction 1 as [|a q Hs IH Ha]; intros Hq; cbn.
  - repeat constructor.
  - inversion Hq; subst. constructor; [apply IH; assumption|].
    apply Forall_app; split; [assumption| constructor; [assumption|constructor]].
Qed.

Lemma dir_init W : Dir W 0 0 0 [] [] [] [].
Proof. constructor; cbn; try lia; try constructor. Qed.

(* the sender's upper layer submits more *)
Lemma dir_sent_app W b n r S D dg ag S' :
  Dir W b n r S D dg ag -> Dir W b n r (S ++ S') D dg ag.
Proof.
  intros [Hbr Hrn Hnb Hlen Hdq Hds Haq Has Hdel]. constructor; try assumption.
  - rewrite app_length. lia.
  - rewrite firstn_app. replace (r - length S) with 0 by lia. cbn. rewrite app_nil_r. exact Hdel.
Qed.

(* the sender (re)transmits frame i of its window *)
Lemma dir_send W b n r S D dg ag i :
  Dir W b n r S D dg ag -> b <= i -> i <= n -> i < b + W -> i < length S ->
  Dir W b (Nat.max n (Datatypes.S i)) r S D (dg ++ [(b, i)]) ag.
Proof.
  intros [Hbr Hrn Hnb Hlen Hdq Hds Haq Has Hdel] H1 H2 H3 H4. constructor; try assumption; try lia.
  - apply Forall_app; split.
    + eapply Forall_impl; [|exact Hdq]. unfold dq_ok. intros f Hf. lia.
    + constructor; [unfold dq_ok; cbn; lia|constructor].
  - apply ssorted_snoc; [assumption|]. eapply Forall_impl; [|exact Hdq]. unfold dq_ok; cbn; intros f Hf; lia.
Qed.

(* the line loses / duplicates the DATA frame at the head *)
Lemma dir_dtl W b n r S D x dg ag : Dir W b n r S D (x :: dg) ag -> Dir W b n r S D dg ag.
Proof.
  intros [Hbr Hrn Hnb Hlen Hdq Hds Haq Has Hdel]. constructor; try assumption.
  - inversion Hdq; assumption.
  - inversion Hds; assumption.
Qed.

Lemma dir_ddup W b n r S D x dg ag : Dir W b n r S D (x :: dg) ag -> Dir W b n r S D (x :: x :: dg) ag.
Proof.
  intros [Hbr Hrn Hnb Hlen Hdq Hds Haq Has Hdel]. constructor; try assumption.
  - inversion Hdq; subst. constructor; [assumption|constructor; assumption].
  - inversion Hds; subst. constructor; [constructor; assumption|]. constructor; [lia|assumption].
Qed.

Lemma firstn_S_nth_error {A} (l : list A) n x :
  nth_error l n = Some x -> firstn (Datatypes.S n) l = firstn n l ++ [x].
Proof.
  revert n. induction l as [|y l IH]; intros [|n] H; cbn in H; try discriminate.
  - injection H as H. subst. reflexivity.
  - cbn [firstn app]. f_equal. apply IH. exact H.
Qed.

(* the receiver accepts the head: its number equals the expected one modulo 8 *)
Lemma dir_accept W b n r S D g i dg ag p :
  W <= 7 -> Dir W b n r S D ((g, i) :: dg) ag -> i mod 8 = r mod 8 -> nth_error S i = Some p ->
  i = r /\ Dir W b n (Datatypes.S r) S (D ++ [p]) dg ag.
Proof.
  intros HW [Hbr Hrn Hnb Hlen Hdq Hds Haq Has Hdel] Hm Hp.
  inversion Hdq as [|? ? Hf Hq]; subst. unfold dq_ok in Hf; cbn in Hf.
  inversion Hds as [|? ? Hsq Hfq]; subst.
  assert (i = r) by lia. subst i. split; [reflexivity|].
  constructor; try assumption; try lia.
  - rewrite Forall_forall in *. intros f Hin. specialize (Hq f Hin). specialize (Hfq f Hin).
    unfold dq_ok in *. cbn in *. lia.
  - eapply Forall_impl; [|exact Haq]. cbn; intros; lia.
  - rewrite (firstn_S_nth_error _ _ _ Hp). reflexivity.
Qed.

(* the receiver sends an acknowledgement (on any frame) *)
Lemma dir_ack_snoc W b n r S D dg ag : Dir W b n r S D dg ag -> Dir W b n r S D dg (ag ++ [r]).
Proof.
  intros [Hbr Hrn Hnb Hlen Hdq Hds Haq Has Hdel]. constructor; try assumption.
  - apply Forall_app; split; [assumption|]. constructor; [lia|constructor].
  - apply ssorted_snoc; [assumption|]. eapply Forall_impl; [|exact Haq]. cbn; intros; lia.
Qed.

Lemma dir_atl W b n r S D dg a ag : Dir W b n r S D dg (a :: ag) -> Dir W b n r S D dg ag.
Proof.
  intros [Hbr Hrn Hnb Hlen Hdq Hds Haq Has Hdel]. constructor; try assumption.
  - inversion Haq; assumption.
  - inversion Has; assumption.
Qed.

Lemma dir_adup W b n r S D dg a ag : Dir W b n r S D dg (a :: ag) -> Dir W b n r S D dg (a :: a :: ag).
Proof.
  intros [Hbr Hrn Hnb Hlen Hdq Hds Haq Has Hdel]. constructor; try assumption.
  - inversion Haq; subst. constructor; [assumption|constructor; assumption].
  - inversion Has; subst. constructor; [constructor; assumption|]. constructor; [lia|assumption].
Qed.

(* what the head acknowledgement says *)
Lemma dir_ahead W b n r S D dg a ag : Dir W b n r S D dg (a :: ag) ->
  b <= a /\ a <= r /\ Forall (fun x => a <= x) ag.
Proof.
  intros [Hbr Hrn Hnb Hlen Hdq Hds Haq Has Hdel].
  inversion Haq as [|? ? Ha Hq]; subst. inversion Has as [|? ? Hsq Hle]; subst.
  split; [lia|]. split; [lia|exact Hle].
Qed.

(* the sender slides its window up to an acknowledgement no older than all those still in flight *)
Lemma dir_base_up W b n r S D dg ag b' :
  Dir W b n r S D dg ag -> b <= b' -> b' <= r -> Forall (fun x => b' <= x) ag ->
  Dir W b' n r S D dg ag.
Proof.
  intros [Hbr Hrn Hnb Hlen Hdq Hds Haq Has Hdel] H1 H2 H3. constructor; try assumption; try lia.
  - eapply Forall_impl; [|exact Hdq]. unfold dq_ok. intros f Hf. lia.
  - rewrite Forall_forall in *. intros x Hin. specialize (Haq x Hin). specialize (H3 x Hin). cbn in *. lia.
Qed.

(* the sender takes the head acknowledgement *)
Lemma dir_ack W b n r S D dg a ag : Dir W b n r S D dg (a :: ag) -> Dir W a n r S D dg ag.
Proof.
  intros H. destruct (dir_ahead _ _ _ _ _ _ _ _ _ H) as (H1 & H2 & H3).
  apply (dir_base_up W b); [apply (dir_atl _ _ _ _ _ _ _ a); exact H|exact H1|exact H2|exact H3].
Qed.

End DIR.
Arguments Dir {P}.

(* 3-bit arithmetic *)
Lemma num8_S i : ((num8 i + 1) mod 8)%N = num8 (S i).
Proof. unfold num8. lia. Qed.

Lemma num8_lt i : (num8 i < 8)%N.
Proof. unfold num8. lia. Qed.

Lemma num8_inj_near i r : i < r + 8 -> r < i + 8 -> num8 i = num8 r -> i = r.
Proof. unfold num8. lia. Qed.

Lemma num8_mod i r : num8 i = num8 r -> i mod 8 = r mod 8.
Proof. unfold num8. lia. Qed.

Lemma ack_decode b a : b <= a -> a <= b + 7 -> (N.to_nat (num8 a) + 8 - b mod 8) mod 8 = a - b.
Proof. unfold num8. lia. Qed.

Lemma host_ack_match a b : b <= a -> a <= b + 1 -> ((num8 a + 7) mod 8)%N = num8 b -> a = b + 1.
Proof. unfold num8. lia. Qed.

(* ================================================================================================ *)
(* (2) ghosts: what the proof knows about a frame in flight                                          *)
(* ================================================================================================ *)
Record gh := {
  ga : nat;                       (* the sender's receive counter when the frame was written *)
  gd : option (nat * nat)         (* DATA only: (sender's base then, absolute index) *)
}.
Definition dgs (l : list gh) : list (nat * nat) :=
  flat_map (fun g => match gd g with Some x => [x] | None => [] end) l.
Definition ags (l : list gh) : list nat := map ga l.

Lemma dgs_app a b : dgs (a ++ b) = dgs a ++ dgs b.
Proof. unfold dgs. apply flat_map_app. Qed.
Lemma ags_app a b : ags (a ++ b) = ags a ++ ags b.
Proof. unfold ags. apply map_app. Qed.

(* frame f is what ghost g says, [sent] being the payloads its sender has been given *)
Definition fr_ok (sent : list (list N)) (f : frame) (g : gh) : Prop :=
  match f with
  | Data frm re ack p =>
      ack = num8 (ga g) /\ exists b i, gd g = Some (b, i) /\ frm = num8 i /\ nth_error sent i = Some p
  | Ack _ _ ack | Nak _ _ ack => ack = num8 (ga g) /\ gd g = None
  | _ => False
  end.

Lemma fr_ok_app S S' f g : fr_ok S f g -> fr_ok (S ++ S') f g.
Proof.
  destruct f as [frm re ack p|a b c|a b c| |v c|v c]; cbn [fr_ok]; try (intro H; exact H).
  intros (H1 & b & i & H2 & H3 & H4). split; [exact H1|]. exists b, i. split; [exact H2|]. split; [exact H3|].
  rewrite nth_error_app1; [exact H4|]. apply nth_error_Some. rewrite H4. discriminate.
Qed.

Lemma frs_ok_app S S' q gq : Forall2 (fr_ok S) q gq -> Forall2 (fr_ok (S ++ S')) q gq.
Proof. induction 1; constructor; [apply fr_ok_app; assumption|assumption]. Qed.

Lemma frs_ok_dup S f q g gq : Forall2 (fr_ok S) (f :: q) (g :: gq) -> Forall2 (fr_ok S) (f :: f :: q) (g :: g :: gq).
Proof. intro H. inversion H; subst. constructor; [assumption|exact H]. Qed.

Lemma frs_ok_snoc S q gq f g : Forall2 (fr_ok S) q gq -> fr_ok S f g -> Forall2 (fr_ok S) (q ++ [f]) (gq ++ [g]).
Proof. intros H1 H2. apply Forall2_app; [exact H1|constructor; [exact H2|constructor]]. Qed.

(* ================================================================================================ *)
(* (3) the host, one event at a time                                                                 *)
(* ================================================================================================ *)
Lemma wire_app a b : wire (a ++ b) = wire a ++ wire b.
Proof. unfold wire. apply flat_map_app. Qed.
Lemma first_tx_app a b : first_tx (a ++ b) = first_tx a ++ first_tx b.
Proof. unfold first_tx. apply flat_map_app. Qed.
Lemma ups_of_app a b : ups_of (a ++ b) = ups_of a ++ ups_of b.
Proof. unfold ups_of. apply flat_map_app. Qed.
Lemma oks_app a b : oks (a ++ b) = oks a ++ oks b.
Proof. unfold oks. apply flat_map_app. Qed.

(* outputs with nothing on the wire and nothing handed up *)
Definition nw (out : list hout) : Prop := wire out = [] /\ first_tx out = [] /\ ups_of out = [].

Lemma nw_nil : nw [].
Proof. repeat split. Qed.
Lemma nw_app a b : nw a -> nw b -> nw (a ++ b).
Proof.
  intros (A1 & A2 & A3) (B1 & B2 & B3). unfold nw.
  rewrite wire_app, first_tx_app, ups_of_app, A1, A2, A3, B1, B2, B3. repeat split.
Qed.
Lemma nw_alldone l : alldone l -> nw l.
Proof.
  induction l as [|x l IH]; intro Hl; [exact nw_nil|].
  destruct (Hl x (or_introl eq_refl)) as (i & E). subst x.
  change (HDone i (OFailure ERROR_EXCEEDED_MAXIMUM_ACK_TIMEOUT_COUNT) :: l)
    with ([HDone i (OFailure ERROR_EXCEEDED_MAXIMUM_ACK_TIMEOUT_COUNT)] ++ l).
  apply nw_app; [repeat split|]. apply IH. intros o Ho. apply Hl. right. exact Ho.
Qed.
Lemma nw_done_out st id o : nw (done_out st id o).
Proof. destruct (done_out_cases st id o) as [[E _]|[E _]]; rewrite E; repeat split. Qed.
Lemma oks_alldone l : alldone l -> oks l = [].
Proof.
  induction l as [|x l IH]; intro Hl; [reflexivity|].
  destruct (Hl x (or_introl eq_refl)) as (i & E). subst x. cbn. apply IH.
  intros o Ho. apply Hl. right. exact Ho.
Qed.
Lemma oks_done_out st id o x : In x (oks (done_out st id o)) -> x = id /\ o = OOk.
Proof.
  destruct (done_out_cases st id o) as [[E _]|[E _]]; rewrite E; cbn; [intros []|].
  destruct o; cbn; try (intros Hf; exact (False_ind _ Hf)).
  intros [Hx|Hf]; [|destruct Hf]. split; [symmetry; exact Hx|reflexivity].
Qed.
Lemma oks_done_out_nok st id o : o <> OOk -> oks (done_out st id o) = [].
Proof.
  intro Ho. destruct (oks (done_out st id o)) as [|x l] eqn:E; [reflexivity|].
  destruct (oks_done_out st id o x) as [_ H]; [rewrite E; left; reflexivity|contradiction].
Qed.

(* the current send: (caller id, payload, frame number) *)
Definition cur_key (st : hstate) : option (N * list N * N) :=
  match cur st with Some c => Some (cid c, cpayload c, cfrm c) | None => None end.

(* what the sender half of the host does in one event.  [ackd]: the event carried the
   acknowledgement that the current send waits for; [rxn]: the acknowledgement number the host
   puts into what it writes. *)
Inductive smove (ackd : bool) (st : hstate) (rxn : N) (st' : hstate) (out : list hout) : Prop :=
| SM_none :
    tx_seq st' = tx_seq st -> failed st' = failed st -> waiters st' = waiters st ->
    cur_key st' = cur_key st -> nw out -> oks out = [] -> smove ackd st rxn st' out
| SM_retx : forall id p frm t,
    cur_key st = Some (id, p, frm) ->
    tx_seq st' = tx_seq st -> failed st' = false -> waiters st' = waiters st ->
    cur_key st' = cur_key st -> out = [HData id frm 1 rxn p t] -> smove ackd st rxn st' out
| SM_fail :
    cur_key st <> None ->
    tx_seq st' = tx_seq st -> failed st' = true -> waiters st' = [] -> cur_key st' = None ->
    nw out -> oks out = [] -> smove ackd st rxn st' out
| SM_ack_idle : forall id p frm,
    ackd = true -> cur_key st = Some (id, p, frm) -> waiters st = [] ->
    tx_seq st' = tx_seq st -> failed st' = false -> waiters st' = [] -> cur_key st' = None ->
    nw out -> (forall x, In x (oks out) -> x = id) -> smove ackd st rxn st' out
| SM_ack_next : forall id p frm id2 p2 ws pre t,
    ackd = true -> cur_key st = Some (id, p, frm) -> waiters st = (id2, p2) :: ws ->
    tx_seq st' = ((tx_seq st + 1) mod 8)%N -> failed st' = false -> waiters st' = ws ->
    cur_key st' = Some (id2, p2, tx_seq st) ->
    out = pre ++ [HData id2 (tx_seq st) 0 rxn p2 t] -> nw pre ->
    (forall x, In x (oks pre) -> x = id) -> smove ackd st rxn st' out.

(* a NAK or a timeout: retransmit, or give up for good *)
Lemma retry_smove ackd st st1 c o rxn :
  cur_key st = Some (cid c, cpayload c, cfrm c) -> tx_seq st1 = tx_seq st -> failed st1 = false ->
  waiters st1 = waiters st -> rx_seq st1 = rxn -> o <> OOk ->
  smove ackd st rxn (fst (retry_or_fail st1 c o)) (snd (retry_or_fail st1 c o))
  /\ rx_seq (fst (retry_or_fail st1 c o)) = rxn.
Proof.
  intros Hk Htx Hf Hw Hrx Ho. rewrite retry_or_fail_eq.
  destruct ((ACK_TIMEOUTS - 1 <=? cattempt c)%N).
  - destruct (close_cases (set_failed st1 true)
                (HReset ERROR_EXCEEDED_MAXIMUM_ACK_TIMEOUT_COUNT :: done_out st1 (cid c) o))
      as [(oF & HoF & Heq & _)|(id & p & ws & Hf' & _)]; [|discriminate Hf'].
    rewrite Heq. cbn [fst snd flushed set_failed tx_seq rx_seq failed waiters]. split; [|exact Hrx].
    apply SM_fail; cbn [flushed set_failed tx_seq failed waiters]; try reflexivity.
    + rewrite Hk. discriminate.
    + exact Htx.
    + change (HReset ERROR_EXCEEDED_MAXIMUM_ACK_TIMEOUT_COUNT :: done_out st1 (cid c) o)
        with ([HReset ERROR_EXCEEDED_MAXIMUM_ACK_TIMEOUT_COUNT] ++ done_out st1 (cid c) o).
      apply nw_app; [apply nw_app; [repeat split|apply nw_done_out]|apply nw_alldone; exact HoF].
    + cbn [app]. change (oks (HReset ERROR_EXCEEDED_MAXIMUM_ACK_TIMEOUT_COUNT :: ?l)) with (oks l).
      rewrite oks_app, (oks_done_out_nok _ _ _ Ho), (oks_alldone _ HoF). reflexivity.
  - rewrite Hf. unfold transmit. cbn [fst snd rx_seq]. split; [|exact Hrx].
    rewrite succ_neq0. apply (SM_retx ackd st rxn _ _ (cid c) (cpayload c) (cfrm c) (now st1)).
    + exact Hk.
    + exact Htx.
    + exact Hf.
    + exact Hw.
    + rewrite Hk. reflexivity.
    + rewrite Hrx. reflexivity.
Qed.

(* the acknowledgement arrived: report, release the semaphore, start the next queued send *)
Lemma acked_smove st s1 c rxn :
  cur_key st = Some (cid c, cpayload c, cfrm c) -> tx_seq s1 = tx_seq st -> failed s1 = false ->
  waiters s1 = waiters st -> rx_seq s1 = rxn ->
  smove true st rxn (fst (close s1 (done_out s1 (cid c) OOk))) (snd (close s1 (done_out s1 (cid c) OOk)))
  /\ rx_seq (fst (close s1 (done_out s1 (cid c) OOk))) = rxn.
Proof.
  intros Hk Htx Hf Hw Hrx.
  destruct (close_cases s1 (done_out s1 (cid c) OOk))
    as [(oF & HoF & Heq & Hc)|(id & p & ws & Hf' & Hw' & Heq)]; rewrite Heq; cbn [fst snd].
  - destruct Hc as [Hc|Hc]; [congruence|]. split; [|exact Hrx].
    apply (SM_ack_idle true st rxn _ _ (cid c) (cpayload c) (cfrm c)); cbn [flushed tx_seq failed waiters];
      try reflexivity; try assumption.
    + congruence.
    + apply nw_app; [apply nw_done_out|apply nw_alldone; exact HoF].
    + intros x Hx. rewrite oks_app, (oks_alldone _ HoF), app_nil_r in Hx.
      apply oks_done_out in Hx. apply Hx.
  - split; [|exact Hrx].
    apply (SM_ack_next true st rxn _ _ (cid c) (cpayload c) (cfrm c) id p ws (done_out s1 (cid c) OOk) (now s1));
      cbn [started tx_seq failed waiters]; try reflexivity; try assumption.
    + congruence.
    + rewrite Htx. reflexivity.
    + unfold cur_key. cbn [started cur cid cpayload cfrm]. rewrite Htx. reflexivity.
    + rewrite Htx, Hrx. reflexivity.
    + apply nw_done_out.
    + intros x Hx. apply oks_done_out in Hx. apply Hx.
Qed.

(* ---- the events other than a read ---------------------------------------------------------------- *)
Lemma ginv_cur_some st c : GInv st -> cur st = Some c -> cfut c = FPending /\ failed st = false.
Proof.
  intros (Hq & _ & Hf) Hc. split; [exact (Hq c Hc)|].
  destruct (failed st); [|reflexivity]. rewrite (Hf eq_refl) in Hc. discriminate.
Qed.

Lemma cur_key_some st c : cur st = Some c -> cur_key st = Some (cid c, cpayload c, cfrm c).
Proof. intro H. unfold cur_key. rewrite H. reflexivity. Qed.

Lemma tick_smove st : GInv st ->
  smove false st (rx_seq st) (fst (host_step st Tick)) (snd (host_step st Tick))
  /\ rx_seq (fst (host_step st Tick)) = rx_seq st.
Proof.
  intro HG. cbn [host_step]. destruct (cur st) as [c|] eqn:Hc.
  - destruct (ginv_cur_some st c HG Hc) as [Hp Hf]. rewrite Hp.
    apply retry_smove; try reflexivity.
    + apply cur_key_some. exact Hc.
    + exact Hf.
    + discriminate.
  - cbn [fst snd]. split; [|reflexivity]. apply SM_none; try reflexivity. exact nw_nil.
Qed.

Lemma wait_smove st t :
  smove false st (rx_seq st) (fst (host_step st (WaitTo t))) (snd (host_step st (WaitTo t)))
  /\ rx_seq (fst (host_step st (WaitTo t))) = rx_seq st.
Proof.
  destruct (step_wait_cases st t) as [Eo [Es|Es]]; rewrite Eo, Es; (split; [|reflexivity]);
    apply SM_none; try reflexivity; exact nw_nil.
Qed.

Lemma cancel_smove st id :
  smove false st (rx_seq st) (fst (host_step st (CancelCaller id))) (snd (host_step st (CancelCaller id)))
  /\ rx_seq (fst (host_step st (CancelCaller id))) = rx_seq st.
Proof.
  destruct (step_cancel_cases st id) as [E|E]; rewrite E; cbn [fst snd]; (split; [|reflexivity]);
    apply SM_none; try reflexivity; exact nw_nil.
Qed.

(* a caller arrives: queued behind the current send, refused at once, or transmitted *)
Lemma submit_cases st id p : GInv st ->
  let r := host_step st (Submit id p) in
  rx_seq (fst r) = rx_seq st /\
  ((cur st <> None /\ tx_seq (fst r) = tx_seq st /\ failed (fst r) = failed st /\
    waiters (fst r) = waiters st ++ [(id, p)] /\ cur_key (fst r) = cur_key st /\ snd r = [])
   \/ (cur st = None /\ failed st = true /\ tx_seq (fst r) = tx_seq st /\ failed (fst r) = true /\
       waiters (fst r) = [] /\ cur_key (fst r) = None /\ nw (snd r) /\ oks (snd r) = [])
   \/ (cur st = None /\ failed st = false /\ tx_seq (fst r) = ((tx_seq st + 1) mod 8)%N /\
       failed (fst r) = false /\ waiters (fst r) = [] /\ cur_key (fst r) = Some (id, p, tx_seq st) /\
       exists t, snd r = [HData id (tx_seq st) 0 (rx_seq st) p t])).
Proof.
  intros HG r. subst r. rewrite step_submit_eq. destruct (cur st) as [c|] eqn:Hc.
  - cbn [fst snd queued rx_seq]. split; [reflexivity|]. left.
    split; [discriminate|]. unfold cur_key. cbn [queued tx_seq failed waiters cur]. rewrite Hc.
    repeat split.
  - destruct (sn_cases (submitted st id p) eq_refl)
      as [(oF & HoF & Heq & Hw)|(id' & p' & ws & Hf' & Hw' & Heq)]; rewrite Heq; cbn [fst snd].
    + destruct Hw as [Hw|Hw]; [|discriminate Hw]. cbn [submitted failed] in Hw.
      split; [reflexivity|]. right; left. cbn [flushed submitted tx_seq failed waiters].
      split; [reflexivity|]. split; [exact Hw|]. split; [reflexivity|]. split; [exact Hw|].
      split; [reflexivity|]. split; [reflexivity|]. split; [apply nw_alldone; exact HoF|apply oks_alldone; exact HoF].
    + cbn [submitted failed waiters] in Hf', Hw'. injection Hw' as E1 E2 E3. subst id' p' ws.
      split; [reflexivity|]. right; right. cbn [started submitted tx_seq rx_seq failed waiters now].
      split; [reflexivity|]. split; [exact Hf'|]. split; [reflexivity|]. split; [reflexivity|].
      split; [reflexivity|]. split; [reflexivity|]. eexists. reflexivity.
Qed.

(* ---- a read of one DATA / ACK / NAK frame -------------------------------------------------------- *)
Definition f_ack (f : frame) : option N :=
  match f with Data _ _ a _ | Ack _ _ a | Nak _ _ a => Some a | _ => None end.
Definition f_nak (f : frame) : bool := match f with Nak _ _ _ => true | _ => false end.

Definition ackd (st : hstate) (a : N) : bool :=
  match cur st with Some c => ((a + 7) mod 8 =? cfrm c)%N | None => false end.

Lemma core_fields st f a : f_ack f = Some a ->
  tx_seq (core st f) = tx_seq st /\ failed (core st f) = failed st /\ waiters (core st f) = waiters st
  /\ (cur st = None -> cur (core st f) = None)
  /\ (forall c, cur st = Some c -> cfut c = FPending ->
        cur (core st f) = Some (set_fut c (if ((a + 7) mod 8 =? cfrm c)%N then FAcked
                                           else if f_nak f then FNaked else FPending))).
Proof.
  intro Hf.
  destruct f as [frm re a0 p|res nr a0|res nr a0| |v code|v code]; cbn [f_ack] in Hf; try discriminate;
    injection Hf as Hf; subst a0; cbn [core f_nak].
  - destruct (handle_ack_misc st a) as (H1 & H2 & _ & _ & H5 & _ & H7).
    split; [exact H1|]. split; [exact H2|]. split; [exact H5|]. split; [exact H7|].
    intros c Hc Hp. rewrite (handle_ack_cur st c a Hc), Hp.
    destruct ((a + 7) mod 8 =? cfrm c)%N; reflexivity.
  - destruct (handle_ack_misc st a) as (H1 & H2 & _ & _ & H5 & _ & H7).
    split; [exact H1|]. split; [exact H2|]. split; [exact H5|]. split; [exact H7|].
    intros c Hc Hp. rewrite (handle_ack_cur st c a Hc), Hp.
    destruct ((a + 7) mod 8 =? cfrm c)%N; reflexivity.
  - destruct (handle_ack_misc st a) as (H1 & H2 & _ & _ & H5 & _ & H7).
    destruct (resolve_misc (handle_ack st a) FNaked) as (K1 & K2 & _ & _ & K5 & _ & K7).
    split; [congruence|]. split; [congruence|]. split; [congruence|].
    split; [intro Hn; apply K7; apply H7; exact Hn|].
    intros c Hc Hp. rewrite (resolve_cur _ _ FNaked (handle_ack_cur st c a Hc)).
    cbn [set_fut cfut cid cpayload cfrm cattempt csent cdeadline]. rewrite Hp.
    destruct ((a + 7) mod 8 =? cfrm c)%N; reflexivity.
Qed.

Lemma frame_smove st f a : GInv st -> f_ack f = Some a ->
  let r := host_step st (Frames [f]) in
  let rr := rx_frame (rx_seq st) f in
  exists out2, snd r = flat_map out_of_rx (snd rr) ++ out2 /\ rx_seq (fst r) = fst rr /\
               smove (ackd st a) st (fst rr) (fst r) out2.
Proof.
  intros HG Hfa r rr. subst r rr. rewrite step_frames_eq, apply_frames_cons.
  cbn [apply_frames fst snd]. rewrite app_nil_r, apply_frame_eq. cbn [fst snd].
  set (rx' := fst (rx_frame (rx_seq st) f)).
  set (s1 := set_rx (core st f) rx').
  destruct (core_fields st f a Hfa) as (Ktx & Kf & Kw & Kn & Kc).
  assert (S1tx : tx_seq s1 = tx_seq st) by exact Ktx.
  assert (S1f : failed s1 = failed st) by exact Kf.
  assert (S1w : waiters s1 = waiters st) by exact Kw.
  assert (S1rx : rx_seq s1 = rx') by reflexivity.
  exists (snd (settle s1)). split; [reflexivity|].
  rewrite settle_eq. unfold ackd.
  destruct (cur st) as [c|] eqn:Hc.
  - destruct (ginv_cur_some st c HG Hc) as [Hp Hff].
    assert (S1c : cur s1 = cur (core st f)) by reflexivity.
    rewrite S1c, (Kc c eq_refl Hp).
    assert (Hkey : forall y, cur_key st = Some (cid (set_fut c y), cpayload (set_fut c y), cfrm (set_fut c y))).
    { intro y. cbn [set_fut cid cpayload cfrm]. apply cur_key_some. exact Hc. }
    destruct ((a + 7) mod 8 =? cfrm c)%N.
    + cbn [cfut set_fut].
      set (s2 := set_t s1 (on_ack_time (t_ack s1) (PrimFloat.sub (now s1) (csent c)))).
      change (done_out s1 (cid c) OOk) with (done_out s2 (cid (set_fut c FAcked)) OOk).
      destruct (acked_smove st s2 (set_fut c FAcked) rx' (Hkey FAcked)) as [Hm Hr];
        try assumption; try reflexivity.
      * cbn [s2 set_t failed]. rewrite S1f. exact Hff.
      * split; [exact Hr|exact Hm].
    + destruct (f_nak f); cbn [cfut set_fut].
      * set (s2 := set_t s1 (on_ack_time (t_ack s1) (PrimFloat.sub (now s1) (csent c)))).
        destruct (retry_smove false st s2 (set_fut c FNaked) ONotAcked rx' (Hkey FNaked)) as [Hm Hr];
          try assumption; try reflexivity; try discriminate.
        -- cbn [s2 set_t failed]. rewrite S1f. exact Hff.
        -- split; [exact Hr|exact Hm].
      * cbn [fst snd]. split; [reflexivity|]. apply SM_none; try assumption.
        -- unfold cur_key. rewrite S1c, (Kc c eq_refl Hp), Hc.
           destruct ((a + 7) mod 8 =? cfrm c)%N; destruct (f_nak f); reflexivity.
        -- exact nw_nil.
        -- reflexivity.
  - assert (S1c : cur s1 = None) by (apply Kn; reflexivity). rewrite S1c. cbn [fst snd].
    split; [reflexivity|]. apply SM_none; try assumption.
    + unfold cur_key. rewrite S1c, Hc. reflexivity.
    + exact nw_nil.
    + reflexivity.
Qed.

(* ================================================================================================ *)
(* (4) the system invariant                                                                          *)
(* ================================================================================================ *)
(* order-preserving sub-sequence *)
Inductive subseq {A} : list A -> list A -> Prop :=
| ss_nil : subseq [] []
| ss_skip x l1 l2 : subseq l1 l2 -> subseq l1 (x :: l2)
| ss_take x l1 l2 : subseq l1 l2 -> subseq (x :: l1) (x :: l2).

Lemma subseq_nil_l {A} (l : list A) : subseq [] l.
Proof. induction l; [apply ss_nil|apply ss_skip; assumption]. Qed.
Lemma subseq_refl {A} (l : list A) : subseq l l.
Proof. induction l; [apply ss_nil|apply ss_take; assumption]. Qed.
Lemma subseq_app {A} (a b c d : list A) : subseq a b -> subseq c d -> subseq (a ++ c) (b ++ d).
Proof. induction 1; intro H2; cbn; [exact H2|apply ss_skip; auto|apply ss_take; auto]. Qed.
Lemma subseq_app_r {A} (a b c : list A) : subseq a b -> subseq a (b ++ c).
Proof. intro H. rewrite <- (app_nil_r a). apply subseq_app; [exact H|apply subseq_nil_l]. Qed.
Lemma subseq_snoc {A} (a b : list A) x : subseq a b -> subseq (a ++ [x]) (b ++ [x]).
Proof. intro H. apply subseq_app; [exact H|apply subseq_refl]. Qed.
Lemma subseq_map {A B} (f : A -> B) a b : subseq a b -> subseq (map f a) (map f b).
Proof. induction 1; cbn; [apply ss_nil|apply ss_skip; assumption|apply ss_take; assumption]. Qed.
Lemma subseq_In {A} (a b : list A) x : subseq a b -> In x a -> In x b.
Proof.
  induction 1 as [|y l1 l2 H IH|y l1 l2 H IH]; intro Hin; [exact Hin|right; auto|].
  destruct Hin as [E|Hin]; [left; exact E|right; auto].
Qed.
Lemma subseq_NoDup {A} (a b : list A) : subseq a b -> NoDup b -> NoDup a.
Proof.
  induction 1 as [|y l1 l2 H IH|y l1 l2 H IH]; intro Hnd; [exact Hnd| |];
    inversion Hnd as [|? ? Hy Hl]; subst; [auto|].
  constructor; [|auto]. intro Hin. apply Hy. eapply subseq_In; eassumption.
Qed.
Lemma subseq_firstn {A} (l : list A) n : subseq (firstn n l) l.
Proof.
  revert n. induction l as [|x l IH]; intros [|n]; cbn.
  - apply ss_nil.
  - apply ss_nil.
  - apply subseq_nil_l.
  - apply ss_take. apply IH.
Qed.

(* the host's sender half against the abstract window [hb, length ftx) of width <= 1:
   ftx = sends first-transmitted so far, subs = sends submitted so far, okl = sends reported done *)
Record HL (st : hstate) (hb : nat) (ftx subs : list (N * list N)) (okl : list N) : Prop := {
  hl_tx : tx_seq st = num8 (length ftx);
  hl_cur : match cur_key st with
           | Some (id, p, frm) =>
               length ftx = hb + 1 /\ frm = num8 hb /\ failed st = false /\ nth_error ftx hb = Some (id, p)
           | None => waiters st = [] /\ (failed st = false -> length ftx = hb)
           end;
  hl_sub : exists A, subs = A ++ waiters st /\ subseq ftx A;
  hl_ok : forall id, In id okl -> In id (map fst (firstn hb ftx))
}.

Lemma in_firstn_S {A} (l : list A) n x : In x (firstn n l) -> In x (firstn (S n) l).
Proof.
  revert n. induction l as [|y l IH]; intros [|n]; cbn [firstn]; intro Hin; try (destruct Hin; fail).
  destruct Hin as [E|Hin]; [left; exact E|right; apply IH; exact Hin].
Qed.

Lemma firstn_app_exact {A} (l l' : list A) n : length l = n -> firstn n (l ++ l') = firstn n l.
Proof. intro E. rewrite firstn_app. replace (n - length l) with 0 by lia. cbn. apply app_nil_r. Qed.

Lemma dgs_snoc_none gl a : dgs (gl ++ [{| ga := a; gd := None |}]) = dgs gl.
Proof. rewrite dgs_app. cbn. apply app_nil_r. Qed.
Lemma dgs_snoc_some gl a x : dgs (gl ++ [{| ga := a; gd := Some x |}]) = dgs gl ++ [x].
Proof. rewrite dgs_app. reflexivity. Qed.
Lemma ags_snoc gl g : ags (gl ++ [g]) = ags gl ++ [ga g].
Proof. rewrite ags_app. reflexivity. Qed.

(* the host starts the next send: first transmission of frame number length ftx *)
Lemma start_piece hb ftx nr nupl g1 ag2 q1 id2 p2 frm rxn hr t :
  length ftx = hb -> frm = num8 (length ftx) -> rxn = num8 hr ->
  Dir 1 hb (length ftx) nr (map snd ftx) nupl (dgs g1) ag2 ->
  Forall2 (fr_ok (map snd ftx)) q1 g1 ->
  let g := {| ga := hr; gd := Some (hb, hb) |} in
  let ftx' := ftx ++ first_tx [HData id2 frm 0 rxn p2 t] in
  Dir 1 hb (length ftx') nr (map snd ftx') nupl (dgs (g1 ++ [g])) ag2 /\
  Forall2 (fr_ok (map snd ftx')) (q1 ++ wire [HData id2 frm 0 rxn p2 t]) (g1 ++ [g]) /\
  nth_error ftx' hb = Some (id2, p2) /\ length ftx' = hb + 1.
Proof.
  intros Hlen Hfrm Hrxn D2 F2 g ftx'. subst g ftx'. cbn [first_tx wire flat_map wire_of app N.eqb].
  rewrite dgs_snoc_some, map_app, app_length. cbn [map snd length].
  split; [|split; [|split]].
  - apply (dir_sent_app _ _ _ _ _ _ _ _ _ [p2]) in D2.
    apply (dir_send _ _ _ _ _ _ _ _ _ hb) in D2; try lia.
    + replace (length ftx + 1) with (Nat.max (length ftx) (S hb)) by lia. exact D2.
    + rewrite app_length, map_length. cbn. lia.
  - apply frs_ok_snoc; [apply frs_ok_app; exact F2|]. cbn [fr_ok ga gd]. split; [exact Hrxn|].
    exists hb, hb. split; [reflexivity|]. split; [rewrite Hfrm, Hlen; reflexivity|].
    rewrite nth_error_app2; rewrite map_length; [|lia]. replace (hb - length ftx) with 0 by lia. reflexivity.
  - rewrite nth_error_app2 by lia. replace (hb - length ftx) with 0 by lia. reflexivity.
  - lia.
Qed.

Lemma inv_smove K akd st rxn st' out2 hb ftx subs okl nb nn hr (nsub hupl : list (list N)) dg2 g1 nr nupl ag2 q1 :
  HL st hb ftx subs okl ->
  Dir K nb nn hr nsub hupl dg2 (ags g1) ->
  Dir 1 hb (length ftx) nr (map snd ftx) nupl (dgs g1) ag2 ->
  Forall2 (fr_ok (map snd ftx)) q1 g1 ->
  rxn = num8 hr ->
  smove akd st rxn st' out2 ->
  (akd = true -> hb + 1 <= nr /\ Forall (fun x => hb + 1 <= x) ag2) ->
  exists g1' hb',
    HL st' hb' (ftx ++ first_tx out2) subs (okl ++ oks out2) /\
    Dir K nb nn hr nsub hupl dg2 (ags g1') /\
    Dir 1 hb' (length (ftx ++ first_tx out2)) nr (map snd (ftx ++ first_tx out2)) nupl (dgs g1') ag2 /\
    Forall2 (fr_ok (map snd (ftx ++ first_tx out2))) (q1 ++ wire out2) g1' /\
    ups_of out2 = [].
Proof.
  intros [Htx0 Hcur0 Hsub0 Hok0] D1 D2 F2 Hrxn M Hak.
  destruct M as [Htx Hf Hw Hk (Hn1 & Hn2 & Hn3) Hok
                |id p frm t Hk0 Htx Hf Hw Hk Hout
                |Hk0 Htx Hf Hw Hk (Hn1 & Hn2 & Hn3) Hok
                |id p frm Ha Hk0 Hw0 Htx Hf Hw Hk (Hn1 & Hn2 & Hn3) Hok
                |id p frm id2 p2 ws pre t Ha Hk0 Hw0 Htx Hf Hw Hk Hout (Hn1 & Hn2 & Hn3) Hok].
  - (* nothing *)
    exists g1, hb. rewrite Hn1, Hn2, Hok, !app_nil_r.
    split; [|split; [exact D1|split; [exact D2|split; [exact F2|exact Hn3]]]].
    constructor.
    + rewrite Htx. exact Htx0.
    + rewrite Hk, Hf, Hw. exact Hcur0.
    + rewrite Hw. exact Hsub0.
    + exact Hok0.
  - (* a retransmission of frame hb *)
    subst out2. rewrite Hk0 in Hcur0. destruct Hcur0 as (Hlen & Hfrm & Hff & Hnth).
    exists (g1 ++ [{| ga := hr; gd := Some (hb, hb) |}]), hb.
    cbn [first_tx wire oks ups_of flat_map wire_of app N.eqb]. rewrite !app_nil_r.
    split; [|split; [|split; [|split; [|reflexivity]]]].
    + constructor.
      * rewrite Htx. exact Htx0.
      * rewrite Hk, Hk0. split; [exact Hlen|]. split; [exact Hfrm|]. split; [exact Hf|exact Hnth].
      * rewrite Hw. exact Hsub0.
      * exact Hok0.
    + rewrite ags_snoc. cbn [ga]. apply dir_ack_snoc. exact D1.
    + rewrite dgs_snoc_some.
      apply (dir_send _ _ _ _ _ _ _ _ _ hb) in D2; try lia.
      * replace (Nat.max (length ftx) (S hb)) with (length ftx) in D2 by lia. exact D2.
      * rewrite map_length. lia.
    + apply frs_ok_snoc; [exact F2|]. cbn [fr_ok ga gd]. split; [exact Hrxn|].
      exists hb, hb. split; [reflexivity|]. split; [exact Hfrm|].
      apply (map_nth_error snd) in Hnth. exact Hnth.
  - (* the link has failed *)
    exists g1, hb. rewrite Hn1, Hn2, Hok, !app_nil_r.
    split; [|split; [exact D1|split; [exact D2|split; [exact F2|exact Hn3]]]].
    constructor.
    + rewrite Htx. exact Htx0.
    + rewrite Hk. split; [exact Hw|]. intro H. congruence.
    + destruct Hsub0 as (A & HA & Hss). exists (A ++ waiters st). rewrite Hw, app_nil_r.
      split; [exact HA|apply subseq_app_r; exact Hss].
    + exact Hok0.
  - (* acknowledged, nothing queued *)
    destruct (Hak Ha) as [Hnr Hag]. rewrite Hk0 in Hcur0. destruct Hcur0 as (Hlen & Hfrm & Hff & Hnth).
    exists g1, (hb + 1). rewrite Hn1, Hn2, !app_nil_r.
    split; [|split; [exact D1|split; [|split; [exact F2|exact Hn3]]]].
    + constructor.
      * rewrite Htx. exact Htx0.
      * rewrite Hk. split; [exact Hw|]. intros _. exact Hlen.
      * rewrite Hw, <- Hw0. exact Hsub0.
      * intros x Hx. apply in_app_or in Hx. replace (hb + 1) with (S hb) by lia.
        destruct Hx as [Hx|Hx].
        -- apply in_map_iff. apply Hok0 in Hx. apply in_map_iff in Hx. destruct Hx as (y & Hy & Hin).
           exists y. split; [exact Hy|apply in_firstn_S; exact Hin].
        -- apply Hok in Hx. subst x. rewrite (firstn_S_nth_error _ _ _ Hnth), map_app.
           apply in_or_app. right. left. reflexivity.
    + apply (dir_base_up _ _ hb); [exact D2|lia|exact Hnr|exact Hag].
  - (* acknowledged, the next queued send starts *)
    destruct (Hak Ha) as [Hnr Hag]. rewrite Hk0 in Hcur0. destruct Hcur0 as (Hlen & Hfrm & Hff & Hnth).
    subst out2. rewrite first_tx_app, wire_app, oks_app, ups_of_app, Hn1, Hn2, Hn3. cbn [app].
    assert (D2' : Dir 1 (hb + 1) (length ftx) nr (map snd ftx) nupl (dgs g1) ag2).
    { apply (dir_base_up _ _ hb); [exact D2|lia|exact Hnr|exact Hag]. }
    destruct (start_piece (hb + 1) ftx nr nupl g1 ag2 q1 id2 p2 (tx_seq st) rxn hr t Hlen Htx0 Hrxn D2' F2)
      as (E1 & E2 & E3 & E4).
    exists (g1 ++ [{| ga := hr; gd := Some (hb + 1, hb + 1) |}]), (hb + 1).
    split; [|split; [|split; [exact E1|split; [exact E2|reflexivity]]]].
    + constructor.
      * rewrite Htx, Htx0, num8_S. f_equal. cbn [first_tx flat_map N.eqb app]. rewrite app_length. cbn. lia.
      * rewrite Hk. split; [exact E4|]. split; [rewrite Htx0, Hlen; reflexivity|]. split; [exact Hf|exact E3].
      * rewrite Hw. destruct Hsub0 as (A & HA & Hss). rewrite Hw0 in HA. exists (A ++ [(id2, p2)]).
        split; [rewrite <- app_assoc; exact HA|]. cbn [first_tx flat_map N.eqb app]. apply subseq_snoc. exact Hss.
      * intros x Hx. cbn [oks flat_map app] in Hx. rewrite app_nil_r in Hx. apply in_app_or in Hx.
        cbn [first_tx flat_map N.eqb app]. rewrite (firstn_app_exact _ _ _ Hlen).
        replace (hb + 1) with (S hb) by lia.
        destruct Hx as [Hx|Hx].
        -- apply in_map_iff. apply Hok0 in Hx. apply in_map_iff in Hx.
           destruct Hx as (y & Hy & Hin). exists y. split; [exact Hy|apply in_firstn_S; exact Hin].
        -- apply Hok in Hx. subst x. rewrite (firstn_S_nth_error _ _ _ Hnth), map_app.
           apply in_or_app. right. left. reflexivity.
    + rewrite ags_snoc. cbn [ga]. apply dir_ack_snoc. exact D1.
Qed.

(* ---- the invariant of the composed system --------------------------------------------------------
   g1 / g2: ghosts of the frames in the host->NCP / NCP->host queue; hb: number of the host's sends
   acknowledged so far (its window is [hb, length ftx), ftx = first transmissions so far).
   Direction NCP->host: sender counters n_base/n_next, receiver counter = number of HUp so far.
   Direction host->NCP: sender counters hb/length ftx, receiver counter n_rx.
   Every frame acknowledges for the direction opposite to the one it travels in. *)
Record Inv (K : nat) (subs : list (N * list N)) (s : lstate) (g1 g2 : list gh) (hb : nat) : Prop := {
  i_g : GInv (hs s);
  i_rx : rx_seq (hs s) = num8 (length (ups_of (htrace s)));
  i_hl : HL (hs s) hb (first_tx (htrace s)) subs (oks (htrace s));
  i_nr : n_rx (ns s) = length (nups s);
  i_d1 : Dir K (n_base (ns s)) (n_next (ns s)) (length (ups_of (htrace s))) (n_sub (ns s))
             (ups_of (htrace s)) (dgs g2) (ags g1);
  i_d2 : Dir 1 hb (length (first_tx (htrace s))) (n_rx (ns s)) (map snd (first_tx (htrace s)))
             (nups s) (dgs g1) (ags g2);
  i_f1 : Forall2 (fr_ok (n_sub (ns s))) (n2h s) g2;
  i_f2 : Forall2 (fr_ok (map snd (first_tx (htrace s)))) (h2n s) g1
}.
Definition SInv (K : nat) (subs : list (N * list N)) (s : lstate) : Prop :=
  exists g1 g2 hb, Inv K subs s g1 g2 hb.

Lemma inv_init K : Inv K [] l_init [] [] 0.
Proof.
  constructor; cbn [l_init hs ns h2n n2h htrace nups first_tx ups_of oks flat_map n_init n_rx n_base n_next
                    n_sub length map dgs ags].
  - unfold GInv, quiescent. cbn [h_init cur waiters failed].
    split; [intros c H; discriminate|]. split; [reflexivity|intro H; discriminate].
  - reflexivity.
  - constructor; cbn [h_init tx_seq cur_key cur waiters failed length firstn map].
    + reflexivity.
    + split; reflexivity.
    + exists []. split; [reflexivity|apply ss_nil].
    + intros id [].
  - reflexivity.
  - apply dir_init.
  - apply dir_init.
  - constructor.
  - constructor.
Qed.

Lemma dgs_cons_some g gl x : gd g = Some x -> dgs (g :: gl) = x :: dgs gl.
Proof. intro H. unfold dgs. cbn [flat_map]. rewrite H. reflexivity. Qed.
Lemma dgs_cons_none g gl : gd g = None -> dgs (g :: gl) = dgs gl.
Proof. intro H. unfold dgs. cbn [flat_map]. rewrite H. reflexivity. Qed.

Lemma dir_gtl {P} W b n r (S D : list P) g gl ag : Dir W b n r S D (dgs (g :: gl)) ag -> Dir W b n r S D (dgs gl) ag.
Proof.
  destruct (gd g) as [x|] eqn:E.
  - rewrite (dgs_cons_some _ _ _ E). apply dir_dtl.
  - rewrite (dgs_cons_none _ _ E). intro H; exact H.
Qed.
Lemma dir_gdup {P} W b n r (S D : list P) g gl ag :
  Dir W b n r S D (dgs (g :: gl)) ag -> Dir W b n r S D (dgs (g :: g :: gl)) ag.
Proof.
  destruct (gd g) as [x|] eqn:E.
  - rewrite !(dgs_cons_some _ _ _ E). apply dir_ddup.
  - rewrite !(dgs_cons_none _ _ E). intro H; exact H.
Qed.

(* ---- the line loses or duplicates a frame ------------------------------------------------------- *)
Lemma inv_hdrop K subs s : SInv K subs s -> SInv K subs (set_n2h s (tl (n2h s))).
Proof.
  intros (g1 & g2 & hb & [Hg Hrx Hhl Hnr D1 D2 F1 F2]).
  destruct (n2h s) as [|f q] eqn:E.
  - exists g1, g2, hb. constructor; cbn [set_n2h hs ns h2n n2h htrace nups tl]; try assumption.
  - inversion F1 as [|? gf ? gq Hf Hq]; subst. exists g1, gq, hb.
    constructor; cbn [set_n2h hs ns h2n n2h htrace nups tl]; try assumption.
    + eapply dir_gtl. exact D1.
    + eapply dir_atl. exact D2.
Qed.

Lemma inv_hdup K subs s : SInv K subs s -> SInv K subs (set_n2h s (dup_head (n2h s))).
Proof.
  intros (g1 & g2 & hb & [Hg Hrx Hhl Hnr D1 D2 F1 F2]).
  destruct (n2h s) as [|f q] eqn:E.
  - exists g1, g2, hb. constructor; cbn [set_n2h hs ns h2n n2h htrace nups dup_head]; try assumption.
  - inversion F1 as [|? gf ? gq Hf Hq]; subst. exists g1, (gf :: gf :: gq), hb.
    constructor; cbn [set_n2h hs ns h2n n2h htrace nups dup_head]; try assumption.
    + apply dir_gdup. exact D1.
    + apply dir_adup. exact D2.
    + apply frs_ok_dup. exact F1.
Qed.

Lemma inv_ndrop K subs s : SInv K subs s -> SInv K subs (set_h2n s (tl (h2n s))).
Proof.
  intros (g1 & g2 & hb & [Hg Hrx Hhl Hnr D1 D2 F1 F2]).
  destruct (h2n s) as [|f q] eqn:E.
  - exists g1, g2, hb. constructor; cbn [set_h2n hs ns h2n n2h htrace nups tl]; try assumption.
  - inversion F2 as [|? gf ? gq Hf Hq]; subst. exists gq, g2, hb.
    constructor; cbn [set_h2n hs ns h2n n2h htrace nups tl]; try assumption.
    + eapply dir_atl. exact D1.
    + eapply dir_gtl. exact D2.
Qed.

Lemma inv_ndup K subs s : SInv K subs s -> SInv K subs (set_h2n s (dup_head (h2n s))).
Proof.
  intros (g1 & g2 & hb & [Hg Hrx Hhl Hnr D1 D2 F1 F2]).
  destruct (h2n s) as [|f q] eqn:E.
  - exists g1, g2, hb. constructor; cbn [set_h2n hs ns h2n n2h htrace nups dup_head]; try assumption.
  - inversion F2 as [|? gf ? gq Hf Hq]; subst. exists (gf :: gf :: gq), g2, hb.
    constructor; cbn [set_h2n hs ns h2n n2h htrace nups dup_head]; try assumption.
    + apply dir_adup. exact D1.
    + apply dir_gdup. exact D2.
    + apply frs_ok_dup. exact F2.
Qed.

(* ---- the NCP's own moves ------------------------------------------------------------------------ *)
(* it writes a frame without DATA *)
Lemma inv_ncp_ctl K subs s f : SInv K subs s ->
  (f = Ack 0 0 (num8 (n_rx (ns s))) \/ f = Nak 0 0 (num8 (n_rx (ns s)))) ->
  SInv K subs (ncp_sends s (ns s) [f]).
Proof.
  intros (g1 & g2 & hb & [Hg Hrx Hhl Hnr D1 D2 F1 F2]) Hf.
  exists g1, (g2 ++ [{| ga := n_rx (ns s); gd := None |}]), hb.
  constructor; cbn [ncp_sends hs ns h2n n2h htrace nups]; try assumption.
  - rewrite dgs_snoc_none. exact D1.
  - rewrite ags_snoc. cbn [ga]. apply dir_ack_snoc. exact D2.
  - apply frs_ok_snoc; [exact F1|]. destruct Hf as [Hf|Hf]; subst f; cbn [fr_ok ga gd]; split; reflexivity.
Qed.

Lemma inv_nsubmit K subs s p : SInv K subs s ->
  SInv K subs (ncp_sends s {| n_rx := n_rx (ns s); n_base := n_base (ns s); n_next := n_next (ns s);
                              n_sub := n_sub (ns s) ++ [p] |} []).
Proof.
  intros (g1 & g2 & hb & [Hg Hrx Hhl Hnr D1 D2 F1 F2]).
  exists g1, g2, hb.
  constructor; cbn [ncp_sends hs ns h2n n2h htrace nups n_rx n_base n_next n_sub]; try assumption.
  - apply dir_sent_app. exact D1.
  - rewrite app_nil_r. apply frs_ok_app. exact F1.
Qed.

Lemma inv_ndata K subs s i re : SInv K subs s ->
  n_base (ns s) <= i -> i <= n_next (ns s) -> i < n_base (ns s) + K -> i < length (n_sub (ns s)) ->
  SInv K subs (ncp_sends s {| n_rx := n_rx (ns s); n_base := n_base (ns s);
                              n_next := Nat.max (n_next (ns s)) (S i); n_sub := n_sub (ns s) |}
                 [Data (num8 i) (bit re) (num8 (n_rx (ns s))) (nth i (n_sub (ns s)) [])]).
Proof.
  intros (g1 & g2 & hb & [Hg Hrx Hhl Hnr D1 D2 F1 F2]) H1 H2 H3 H4.
  exists g1, (g2 ++ [{| ga := n_rx (ns s); gd := Some (n_base (ns s), i) |}]), hb.
  constructor; cbn [ncp_sends hs ns h2n n2h htrace nups n_rx n_base n_next n_sub]; try assumption.
  - rewrite dgs_snoc_some. apply dir_send; assumption.
  - rewrite ags_snoc. cbn [ga]. apply dir_ack_snoc. exact D2.
  - apply frs_ok_snoc; [exact F1|]. cbn [fr_ok ga gd]. split; [reflexivity|].
    exists (n_base (ns s)), i. split; [reflexivity|]. split; [reflexivity|].
    apply nth_error_nth'. exact H4.
Qed.

(* the NCP discards an unparsable frame and asks again *)
Lemma inv_ncorrupt K subs s f q : SInv K subs s -> h2n s = f :: q ->
  SInv K subs (ncp_sends (set_h2n s q) (ns s) [Nak 0 0 (num8 (n_rx (ns s)))]).
Proof.
  intros H E. pose proof (inv_ndrop K subs s H) as H1. rewrite E in H1. cbn [tl] in H1.
  apply (inv_ncp_ctl K subs (set_h2n s q) (Nak 0 0 (num8 (n_rx (ns s)))) H1). right. reflexivity.
Qed.

(* ---- the NCP reads a frame ---------------------------------------------------------------------- *)
Lemma n_ack_spec n a : n_base n <= a -> a <= n_next n -> a <= n_base n + 7 ->
  n_ack n (num8 a) = {| n_rx := n_rx n; n_base := a; n_next := n_next n; n_sub := n_sub n |}.
Proof.
  intros H1 H2 H3. unfold n_ack. rewrite ack_decode by lia.
  replace (n_base n + (a - n_base n)) with a by lia.
  destruct (Nat.leb_spec a (n_next n)); [reflexivity|lia].
Qed.

Lemma fr_ok_ack S f g : fr_ok S f g -> f_ack f = Some (num8 (ga g)).
Proof.
  destruct f as [frm re a p|x y a|x y a| |v c|v c]; cbn [fr_ok f_ack]; try (intro Hf; destruct Hf; fail);
    intros [E _]; rewrite E; reflexivity.
Qed.

Lemma inv_ndeliver K subs s f q : K <= 7 -> SInv K subs s -> h2n s = f :: q ->
  SInv K subs {| hs := hs s; ns := fst (n_recv (ns s) f); h2n := q; n2h := n2h s; htrace := htrace s;
                 nups := nups s ++ snd (n_recv (ns s) f) |}.
Proof.
  intros HK (g1 & g2 & hb & [Hg Hrx Hhl Hnr D1 D2 F1 F2]) E. rewrite E in F2.
  inversion F2 as [|? gf ? gq Hf Hq]; subst.
  assert (Hags : ags (gf :: gq) = ga gf :: ags gq) by reflexivity. rewrite Hags in D1.
  destruct (dir_ahead _ _ _ _ _ _ _ _ _ _ D1) as (Ha1 & Ha2 & _).
  pose proof D1 as Hd. destruct Hd as [_ Hrn Hnb _ _ _ _ _ _].
  assert (Eack : n_ack (ns s) (num8 (ga gf)) =
                 {| n_rx := n_rx (ns s); n_base := ga gf; n_next := n_next (ns s); n_sub := n_sub (ns s) |}).
  { apply n_ack_spec; lia. }
  apply dir_ack in D1.
  destruct f as [frm re a p|x y a|x y a| |v c|v c]; cbn [fr_ok] in Hf; try contradiction.
  - destruct Hf as (Ea & b & i & Egd & Efrm & Enth). subst a frm.
    cbn [n_recv]. rewrite Eack. cbn [n_rx n_base n_next n_sub].
    rewrite (dgs_cons_some _ _ _ Egd) in D2.
    destruct (num8 i =? num8 (n_rx (ns s)))%N eqn:Eq.
    + apply N.eqb_eq in Eq. apply num8_mod in Eq.
      destruct (dir_accept _ 1 _ _ _ _ _ _ _ _ _ p ltac:(lia) D2 Eq Enth) as [Ei D2'].
      exists gq, g2, hb. constructor; cbn [hs ns h2n n2h htrace nups fst snd n_rx n_base n_next n_sub]; try assumption.
      * rewrite app_length. cbn [length]. lia.
    + apply dir_dtl in D2.
      exists gq, g2, hb. constructor; cbn [hs ns h2n n2h htrace nups fst snd n_rx n_base n_next n_sub];
        rewrite ?app_nil_r; try assumption.
  - destruct Hf as (Ea & Egd). subst a. cbn [n_recv]. rewrite Eack. rewrite (dgs_cons_none _ _ Egd) in D2.
    exists gq, g2, hb. constructor; cbn [hs ns h2n n2h htrace nups fst snd n_rx n_base n_next n_sub];
      rewrite ?app_nil_r; try assumption.
  - destruct Hf as (Ea & Egd). subst a. cbn [n_recv]. rewrite Eack. rewrite (dgs_cons_none _ _ Egd) in D2.
    exists gq, g2, hb. constructor; cbn [hs ns h2n n2h htrace nups fst snd n_rx n_base n_next n_sub];
      rewrite ?app_nil_r; try assumption.
Qed.

(* ---- the host's events --------------------------------------------------------------------------- *)
(* timeout, passage of time, cancellation of a caller *)
Lemma inv_host_plain K subs s e : SInv K subs s ->
  smove false (hs s) (rx_seq (hs s)) (fst (host_step (hs s) e)) (snd (host_step (hs s) e)) ->
  rx_seq (fst (host_step (hs s) e)) = rx_seq (hs s) ->
  SInv K subs (host_do s e).
Proof.
  intros (g1 & g2 & hb & [Hg Hrx Hhl Hnr D1 D2 F1 F2]) M Hrx'.
  destruct (inv_smove K false (hs s) (rx_seq (hs s)) _ _ hb _ subs _ _ _ _ _ _ _ g1 _ _ _ (h2n s)
              Hhl D1 D2 F2 Hrx M ltac:(discriminate)) as (g1' & hb' & Hhl' & D1' & D2' & F2' & Hups).
  exists g1', g2, hb'. unfold host_do.
  constructor; cbn [hs ns h2n n2h htrace nups]; rewrite ?first_tx_app, ?oks_app, ?ups_of_app, ?Hups, ?app_nil_r;
    try assumption.
  - apply step_ginv. exact Hg.
  - rewrite Hrx'. exact Hrx.
Qed.

Lemma inv_submit K subs s id p : SInv K subs s -> SInv K (subs ++ [(id, p)]) (host_do s (Submit id p)).
Proof.
  intros (g1 & g2 & hb & [Hg Hrx Hhl Hnr D1 D2 F1 F2]).
  destruct (submit_cases (hs s) id p Hg) as (Hrx' & Hc). cbv zeta in Hrx', Hc.
  pose proof (step_ginv (hs s) (Submit id p) Hg) as Hg'.
  destruct Hhl as [Htx0 Hcur0 Hsub0 Hok0].
  destruct Hc as [(Hcu & Htx & Hf & Hw & Hk & Hout)
                 |[(Hcu & Hf0 & Htx & Hf & Hw & Hk & (Hn1 & Hn2 & Hn3) & Hok)
                  |(Hcu & Hf0 & Htx & Hf & Hw & Hk & t & Hout)]].
  - (* queued *)
    exists g1, g2, hb. unfold host_do.
    constructor; cbn [hs ns h2n n2h htrace nups]; rewrite ?Hout, ?app_nil_r; try assumption.
    + rewrite Hrx'. exact Hrx.
    + constructor.
      * rewrite Htx. exact Htx0.
      * rewrite Hk, Hf. destruct (cur_key (hs s)) as [[[i q] frm]|] eqn:Ek; [exact Hcur0|].
        unfold cur_key in Ek. destruct (cur (hs s)); [discriminate|contradiction].
      * rewrite Hw. destruct Hsub0 as (A & HA & Hss). exists A. split; [rewrite HA, app_assoc; reflexivity|exact Hss].
      * exact Hok0.
  - (* refused at once: the link has failed *)
    assert (Ek : cur_key (hs s) = None) by (unfold cur_key; rewrite Hcu; reflexivity).
    rewrite Ek in Hcur0. destruct Hcur0 as [Hw0 _].
    exists g1, g2, hb. unfold host_do.
    constructor; cbn [hs ns h2n n2h htrace nups];
      rewrite ?first_tx_app, ?oks_app, ?ups_of_app, ?Hn1, ?Hn2, ?Hn3, ?Hok, ?app_nil_r; try assumption.
    + rewrite Hrx'. exact Hrx.
    + constructor.
      * rewrite Htx. exact Htx0.
      * rewrite Hk. split; [exact Hw|]. intro H. congruence.
      * destruct Hsub0 as (A & HA & Hss). exists (A ++ [(id, p)]). rewrite Hw, app_nil_r.
        rewrite Hw0, app_nil_r in HA. split; [rewrite HA; reflexivity|apply subseq_app_r; exact Hss].
      * exact Hok0.
  - (* transmitted *)
    assert (Ek : cur_key (hs s) = None) by (unfold cur_key; rewrite Hcu; reflexivity).
    rewrite Ek in Hcur0. destruct Hcur0 as [Hw0 Hlen]. specialize (Hlen Hf0).
    destruct (start_piece hb _ _ _ g1 _ (h2n s) id p (tx_seq (hs s)) (rx_seq (hs s))
                (length (ups_of (htrace (s)))) t Hlen Htx0 Hrx D2 F2) as (E1 & E2 & E3 & E4).
    exists (g1 ++ [{| ga := length (ups_of (htrace s)); gd := Some (hb, hb) |}]), g2, hb. unfold host_do.
    constructor; cbn [hs ns h2n n2h htrace nups]; rewrite ?Hout, ?first_tx_app, ?oks_app, ?ups_of_app;
      try assumption.
    + rewrite Hrx'. cbn [ups_of flat_map]. rewrite app_nil_r. exact Hrx.
    + constructor.
      * rewrite Htx, Htx0, num8_S. f_equal. cbn [first_tx flat_map N.eqb app]. rewrite app_length. cbn. lia.
      * rewrite Hk. split; [exact E4|]. split; [rewrite Htx0, Hlen; reflexivity|]. split; [exact Hf|exact E3].
      * destruct Hsub0 as (A & HA & Hss). exists (A ++ [(id, p)]). rewrite Hw, app_nil_r.
        rewrite Hw0, app_nil_r in HA. split; [rewrite HA; reflexivity|].
        cbn [first_tx flat_map N.eqb app]. apply subseq_snoc. exact Hss.
      * cbn [oks flat_map app]. rewrite app_nil_r. intros x Hx.
        rewrite (firstn_app_exact _ _ _ Hlen). apply Hok0. exact Hx.
    + cbn [ups_of flat_map]. rewrite app_nil_r, ags_snoc. cbn [ga]. apply dir_ack_snoc. exact D1.
Qed.

(* an unparsable frame reaches the host: CANCEL + NAK *)
Lemma inv_hcorrupt K subs s f q : SInv K subs s -> n2h s = f :: q ->
  SInv K subs {| hs := hs s; ns := ns s; h2n := h2n s ++ wire [HCancelNak (rx_seq (hs s))]; n2h := q;
                 htrace := htrace s ++ [HCancelNak (rx_seq (hs s))]; nups := nups s |}.
Proof.
  intros H E. pose proof (inv_hdrop K subs s H) as H1. rewrite E in H1. cbn [tl] in H1.
  destruct H1 as (g1 & g2 & hb & [Hg Hrx Hhl Hnr D1 D2 F1 F2]).
  cbn [set_n2h hs ns h2n n2h htrace nups] in *.
  exists (g1 ++ [{| ga := length (ups_of (htrace s)); gd := None |}]), g2, hb.
  constructor; cbn [hs ns h2n n2h htrace nups wire wire_of flat_map app];
    rewrite ?first_tx_app, ?oks_app, ?ups_of_app; cbn [first_tx oks ups_of flat_map]; rewrite ?app_nil_r;
    try assumption.
  - rewrite ags_snoc. cbn [ga]. apply dir_ack_snoc. exact D1.
  - rewrite dgs_snoc_none. exact D2.
  - apply frs_ok_snoc; [exact F2|]. cbn [fr_ok ga gd]. split; [exact Hrx|reflexivity].
Qed.

(* ---- the host reads a frame ---------------------------------------------------------------------- *)
(* the receiver half: rx_frame against the NCP->host direction *)
Lemma rx_phase K nb nn (nsub hupl : list (list N)) f gf gq g1 rx P2 q1 :
  K <= 7 -> fr_ok nsub f gf -> rx = num8 (length hupl) ->
  Dir K nb nn (length hupl) nsub hupl (dgs (gf :: gq)) (ags g1) ->
  Forall2 (fr_ok P2) q1 g1 ->
  let o1 := flat_map out_of_rx (snd (rx_frame rx f)) in
  exists g1a,
    first_tx o1 = [] /\ oks o1 = [] /\ dgs g1a = [] /\
    fst (rx_frame rx f) = num8 (length (hupl ++ ups_of o1)) /\
    Dir K nb nn (length (hupl ++ ups_of o1)) nsub (hupl ++ ups_of o1) (dgs gq) (ags (g1 ++ g1a)) /\
    Forall2 (fr_ok P2) (q1 ++ wire o1) (g1 ++ g1a).
Proof.
  intros HK Hf Hrx D1 F2 o1. subst o1.
  destruct f as [frm re a p|x y a|x y a| |v c|v c]; cbn [fr_ok] in Hf; try contradiction.
  - destruct Hf as (Ea & b & i & Egd & Efrm & Enth). subst a frm.
    rewrite (dgs_cons_some _ _ _ Egd) in D1. cbn [rx_frame].
    destruct (num8 i =? rx)%N eqn:Eq.
    + apply N.eqb_eq in Eq. rewrite Hrx in Eq. pose proof (num8_mod _ _ Eq) as Em.
      destruct (dir_accept _ K _ _ _ _ _ _ _ _ _ p HK D1 Em Enth) as [Ei D1']. subst i.
      cbn [fst snd flat_map out_of_rx app ups_of first_tx oks wire wire_of].
      rewrite app_length. cbn [length]. rewrite Nat.add_1_r, num8_S.
      exists [{| ga := S (length hupl); gd := None |}].
      split; [reflexivity|]. split; [reflexivity|]. split; [reflexivity|]. split; [reflexivity|].
      split.
      * rewrite ags_snoc. cbn [ga]. apply dir_ack_snoc. exact D1'.
      * apply frs_ok_snoc; [exact F2|]. cbn [fr_ok ga gd]. split; reflexivity.
    + apply dir_dtl in D1.
      destruct (negb (re =? 0)%N); cbn [fst snd flat_map out_of_rx app ups_of first_tx oks wire wire_of];
        rewrite !app_nil_r; exists [{| ga := length hupl; gd := None |}];
        (split; [reflexivity|]); (split; [reflexivity|]); (split; [reflexivity|]); (split; [exact Hrx|]);
        (split; [rewrite ags_snoc; cbn [ga]; apply dir_ack_snoc; exact D1
                |apply frs_ok_snoc; [exact F2|]; cbn [fr_ok ga gd]; split; [exact Hrx|reflexivity]]).
  - destruct Hf as (Ea & Egd). rewrite (dgs_cons_none _ _ Egd) in D1.
    cbn [rx_frame fst snd flat_map out_of_rx app ups_of first_tx oks wire wire_of]. rewrite !app_nil_r.
    exists []. rewrite !app_nil_r. split; [reflexivity|]. split; [reflexivity|]. split; [reflexivity|].
    split; [exact Hrx|]. split; [exact D1|exact F2].
  - destruct Hf as (Ea & Egd). rewrite (dgs_cons_none _ _ Egd) in D1.
    cbn [rx_frame fst snd flat_map out_of_rx app ups_of first_tx oks wire wire_of]. rewrite !app_nil_r.
    exists []. rewrite !app_nil_r. split; [reflexivity|]. split; [reflexivity|]. split; [reflexivity|].
    split; [exact Hrx|]. split; [exact D1|exact F2].
Qed.

Lemma inv_hdeliver K subs s f q : K <= 7 -> SInv K subs s -> n2h s = f :: q ->
  SInv K subs (host_do (set_n2h s q) (Frames [f])).
Proof.
  intros HK (g1 & g2 & hb & [Hg Hrx Hhl Hnr D1 D2 F1 F2]) E. rewrite E in F1.
  inversion F1 as [|? gf ? gq Hf Hq]; subst.
  pose proof (fr_ok_ack _ _ _ Hf) as Hfa.
  destruct (frame_smove (hs s) f (num8 (ga gf)) Hg Hfa) as (out2 & Hout & Hrx' & M). cbv zeta in Hout, Hrx', M.
  destruct (rx_phase K _ _ _ _ f gf gq g1 (rx_seq (hs s)) _ (h2n s) HK Hf Hrx D1 F2)
    as (g1a & Hn1 & Hn2 & Hn3 & Erx & D1' & F2').
  cbv zeta in Hn1, Hn2, Hn3, Erx, D1', F2'.
  set (o1 := flat_map out_of_rx (snd (rx_frame (rx_seq (hs s)) f))) in *.
  assert (Hags : ags (gf :: gq) = ga gf :: ags gq) by reflexivity. rewrite Hags in D2.
  destruct (dir_ahead _ _ _ _ _ _ _ _ _ _ D2) as (Ha1 & Ha2 & Ha3).
  pose proof D2 as Hd. destruct Hd as [_ Hrn _ _ _ _ _ _ _].
  apply dir_atl in D2.
  assert (D2a : Dir 1 hb (length (first_tx (htrace s))) (n_rx (ns s)) (map snd (first_tx (htrace s)))
                    (nups s) (dgs (g1 ++ g1a)) (ags gq)).
  { rewrite dgs_app, Hn3, app_nil_r. exact D2. }
  assert (Hak : ackd (hs s) (num8 (ga gf)) = true ->
                hb + 1 <= n_rx (ns s) /\ Forall (fun x => hb + 1 <= x) (ags gq)).
  { unfold ackd. destruct (cur (hs s)) as [c|] eqn:Hc; [|discriminate]. intro Hm. apply N.eqb_eq in Hm.
    pose proof (hl_cur _ _ _ _ _ Hhl) as Hcu. rewrite (cur_key_some _ _ Hc) in Hcu.
    destruct Hcu as (Hlen & Hfrm & _). rewrite Hfrm in Hm.
    assert (ga gf = hb + 1) by (apply host_ack_match; [lia|lia|exact Hm]).
    split; [lia|]. eapply Forall_impl; [|exact Ha3]. cbn. intros; lia. }
  destruct (inv_smove K _ (hs s) _ _ _ hb _ subs _ _ _ _ _ _ _ _ _ _ _ _ Hhl D1' D2a F2' Erx M Hak)
    as (g1' & hb' & Hhl' & D1'' & D2' & F2'' & Hups).
  exists g1', gq, hb'. unfold host_do.
  cbn [set_n2h hs ns h2n n2h htrace nups]. rewrite Hout.
  constructor; cbn [hs ns h2n n2h htrace nups];
    rewrite ?first_tx_app, ?oks_app, ?ups_of_app, ?wire_app, ?Hups, ?Hn1, ?Hn2; cbn [app];
    rewrite ?app_nil_r, ?app_assoc; try assumption.
  - apply (step_ginv (hs s) (Frames [f])). exact Hg.
  - rewrite Hrx'. exact Erx.
Qed.

(* ---- the host reads several frames at once ------------------------------------------------------- *)
Definition dan (f : frame) : Prop := f_ack f <> None.

Lemma rx_frames_cons' rx f fs :
  rx_frames rx (f :: fs) =
    (fst (rx_frames (fst (rx_frame rx f)) fs), snd (rx_frame rx f) ++ snd (rx_frames (fst (rx_frame rx f)) fs)).
Proof.
  cbn [rx_frames]. destruct (rx_frame rx f) as [rx' o]. cbn [fst snd].
  destruct (rx_frames rx' fs) as [rx'' o']. reflexivity.
Qed.

Lemma afs_fields : forall fs st, Forall dan fs ->
  tx_seq (fst (apply_frames st fs)) = tx_seq st /\ failed (fst (apply_frames st fs)) = failed st /\
  waiters (fst (apply_frames st fs)) = waiters st /\
  rx_seq (fst (apply_frames st fs)) = fst (rx_frames (rx_seq st) fs) /\
  snd (apply_frames st fs) = flat_map out_of_rx (snd (rx_frames (rx_seq st) fs)).
Proof.
  induction fs as [|f fs IH]; intros st Hd; [cbn; repeat split|].
  inversion Hd as [|? ? Hf Hfs]; subst. unfold dan in Hf.
  destruct (f_ack f) as [a|] eqn:Ea; [|contradiction].
  rewrite apply_frames_cons, rx_frames_cons', apply_frame_eq. cbn [fst snd].
  destruct (core_fields st f a Ea) as (K1 & K2 & K3 & _).
  destruct (IH (set_rx (core st f) (fst (rx_frame (rx_seq st) f))) Hfs) as (I1 & I2 & I3 & I4 & I5).
  cbn [set_rx tx_seq failed waiters rx_seq] in I1, I2, I3, I4, I5.
  split; [congruence|]. split; [congruence|]. split; [congruence|]. split; [exact I4|].
  rewrite flat_map_app, I5. reflexivity.
Qed.

Lemma frames_smove st fs : GInv st -> Forall dan fs ->
  let r := host_step st (Frames fs) in
  let rr := rx_frames (rx_seq st) fs in
  exists out2 akd, snd r = flat_map out_of_rx (snd rr) ++ out2 /\ rx_seq (fst r) = fst rr /\
    smove akd st (fst rr) (fst r) out2 /\
    (akd = true -> exists c f, cur st = Some c /\ In f fs /\ acks ((cfrm c + 1) mod 8)%N f).
Proof.
  intros HG Hd r rr. subst r rr. rewrite step_frames_eq. cbn [fst snd].
  destruct (afs_fields fs st Hd) as (S1tx & S1f & S1w & S1rx & S1o).
  set (s1 := fst (apply_frames st fs)) in *. rewrite S1o. rewrite settle_eq.
  destruct (cur st) as [c|] eqn:Hc.
  - destruct (ginv_cur_some st c HG Hc) as [Hp Hff].
    destruct (afs_cur fs st c Hc) as (y & Htr & Hc1). fold s1 in Hc1. rewrite Hc1. cbn [cfut set_fut].
    assert (Hkey : cur_key st = Some (cid (set_fut c y), cpayload (set_fut c y), cfrm (set_fut c y))).
    { cbn [set_fut cid cpayload cfrm]. apply cur_key_some. exact Hc. }
    unfold fut_tr in Htr. rewrite Hp in Htr.
    destruct Htr as [Ey|(_ & [(Ey & f & Hin & Hack)|[(Ey & _)|(code & Ey & f & Hin & v & Ef)]])]; subst y.
    + exists [], false. cbn [fst snd]. rewrite app_nil_r. split; [reflexivity|]. split; [exact S1rx|].
      split; [|discriminate]. apply SM_none; try assumption.
      * unfold cur_key. rewrite Hc1, Hc. reflexivity.
      * exact nw_nil.
      * reflexivity.
    + set (s2 := set_t s1 (on_ack_time (t_ack s1) (PrimFloat.sub (now s1) (csent (set_fut c FAcked))))).
      change (done_out s1 (cid (set_fut c FAcked)) OOk) with (done_out s2 (cid (set_fut c FAcked)) OOk).
      destruct (acked_smove st s2 (set_fut c FAcked) (fst (rx_frames (rx_seq st) fs)) Hkey) as [Hm Hr];
        try assumption.
      * cbn [s2 set_t failed]. rewrite S1f. exact Hff.
      * eexists _, true. split; [reflexivity|]. split; [exact Hr|]. split; [exact Hm|].
        intros _. exists c, f. split; [reflexivity|]. split; [exact Hin|exact Hack].
    + set (s2 := set_t s1 (on_ack_time (t_ack s1) (PrimFloat.sub (now s1) (csent (set_fut c FNaked))))).
      destruct (retry_smove false st s2 (set_fut c FNaked) ONotAcked (fst (rx_frames (rx_seq st) fs)) Hkey)
        as [Hm Hr]; try assumption; try discriminate.
      * cbn [s2 set_t failed]. rewrite S1f. exact Hff.
      * eexists _, false. split; [reflexivity|]. split; [exact Hr|]. split; [exact Hm|discriminate].
    + exfalso. rewrite Forall_forall in Hd. specialize (Hd f Hin). subst f. apply Hd. reflexivity.
  - destruct (afs_misc fs st) as (_ & _ & _ & Kn). specialize (Kn Hc). fold s1 in Kn. rewrite Kn.
    exists [], false. cbn [fst snd]. rewrite app_nil_r. split; [reflexivity|]. split; [exact S1rx|].
    split; [|discriminate]. apply SM_none; try assumption.
    + unfold cur_key. rewrite Kn, Hc. reflexivity.
    + exact nw_nil.
    + reflexivity.
Qed.

Lemma fr_ok_dan S f g : fr_ok S f g -> dan f.
Proof. intro H. unfold dan. rewrite (fr_ok_ack _ _ _ H). discriminate. Qed.

(* the receiver half over a whole read *)
Lemma rxs_phase K nb nn (nsub : list (list N)) P2 : K <= 7 -> forall fs gfs, Forall2 (fr_ok nsub) fs gfs ->
  forall (hupl : list (list N)) gq g1 rx q1,
  rx = num8 (length hupl) ->
  Dir K nb nn (length hupl) nsub hupl (dgs (gfs ++ gq)) (ags g1) ->
  Forall2 (fr_ok P2) q1 g1 ->
  let o1 := flat_map out_of_rx (snd (rx_frames rx fs)) in
  exists g1a,
    first_tx o1 = [] /\ oks o1 = [] /\ dgs g1a = [] /\
    fst (rx_frames rx fs) = num8 (length (hupl ++ ups_of o1)) /\
    Dir K nb nn (length (hupl ++ ups_of o1)) nsub (hupl ++ ups_of o1) (dgs gq) (ags (g1 ++ g1a)) /\
    Forall2 (fr_ok P2) (q1 ++ wire o1) (g1 ++ g1a).
Proof.
  intro HK. induction 1 as [|f gf fs gfs Hf Hfs IH]; intros hupl gq g1 rx q1 Hrx D1 F2 o1; subst o1.
  - cbn [rx_frames fst snd flat_map app ups_of first_tx oks wire]. exists []. rewrite !app_nil_r.
    split; [reflexivity|]. split; [reflexivity|]. split; [reflexivity|]. split; [exact Hrx|].
    split; [exact D1|exact F2].
  - rewrite rx_frames_cons'. cbn [fst snd]. cbn [app] in D1.
    destruct (rx_phase K nb nn nsub hupl f gf (gfs ++ gq) g1 rx P2 q1 HK Hf Hrx D1 F2)
      as (ga1 & A1 & A2 & A3 & A4 & A5 & A6). cbv zeta in A1, A2, A3, A4, A5, A6.
    destruct (IH _ gq _ _ _ A4 A5 A6) as (ga2 & B1 & B2 & B3 & B4 & B5 & B6).
    cbv zeta in B1, B2, B3, B4, B5, B6.
    exists (ga1 ++ ga2).
    rewrite flat_map_app, first_tx_app, oks_app, ups_of_app, wire_app, dgs_app, A1, A2, A3, B1, B2, B3.
    rewrite !app_assoc. split; [reflexivity|]. split; [reflexivity|]. split; [reflexivity|].
    split; [exact B4|]. split; [exact B5|exact B6].
Qed.

Lemma dir_adrop {P} W b n r (S D : list P) dg l : forall ag,
  Dir W b n r S D dg (l ++ ag) -> Dir W b n r S D dg ag.
Proof.
  induction l as [|a l IH]; intros ag H; [exact H|]. apply IH. eapply dir_atl. exact H.
Qed.

Lemma dir_amid {P} W b n r (S D : list P) dg l ag a :
  Dir W b n r S D dg (l ++ ag) -> In a l -> b <= a /\ a <= r /\ Forall (fun x => a <= x) ag.
Proof.
  induction l as [|a0 l IH]; intros H Hin; [destruct Hin|].
  destruct Hin as [E|Hin].
  - subst a0. cbn [app] in H. destruct (dir_ahead _ _ _ _ _ _ _ _ _ _ H) as (H1 & H2 & H3).
    split; [exact H1|]. split; [exact H2|]. apply Forall_app in H3. apply H3.
  - apply IH; [|exact Hin]. eapply dir_atl. exact H.
Qed.

Lemma inv_hread K subs s n : K <= 7 -> SInv K subs s ->
  SInv K subs (host_do (set_n2h s (skipn n (n2h s))) (Frames (firstn n (n2h s)))).
Proof.
  intros HK (g1 & g2 & hb & [Hg Hrx Hhl Hnr D1 D2 F1 F2]).
  set (fs := firstn n (n2h s)). set (q := skipn n (n2h s)).
  assert (Eq : n2h s = fs ++ q) by (symmetry; apply firstn_skipn). rewrite Eq in F1.
  apply Forall2_app_inv_l in F1. destruct F1 as (gfs & gq & Ffs & Fq & Eg). subst g2.
  assert (Hd : Forall dan fs).
  { clear -Ffs. induction Ffs; constructor; [eapply fr_ok_dan; eassumption|assumption]. }
  destruct (frames_smove (hs s) fs Hg Hd) as (out2 & akd & Hout & Hrx' & M & Hakd).
  cbv zeta in Hout, Hrx', M.
  destruct (rxs_phase K _ _ _ (map snd (first_tx (htrace s))) HK fs gfs Ffs _ gq g1 (rx_seq (hs s)) (h2n s)
              Hrx D1 F2) as (g1a & Hn1 & Hn2 & Hn3 & Erx & D1' & F2').
  cbv zeta in Hn1, Hn2, Hn3, Erx, D1', F2'.
  set (o1 := flat_map out_of_rx (snd (rx_frames (rx_seq (hs s)) fs))) in *.
  rewrite ags_app in D2. pose proof D2 as Hd2. destruct Hd2 as [_ Hrn _ _ _ _ _ _ _].
  assert (D2a : Dir 1 hb (length (first_tx (htrace s))) (n_rx (ns s)) (map snd (first_tx (htrace s)))
                    (nups s) (dgs (g1 ++ g1a)) (ags gq)).
  { rewrite dgs_app, Hn3, app_nil_r. eapply dir_adrop. exact D2. }
  assert (Hak : akd = true -> hb + 1 <= n_rx (ns s) /\ Forall (fun x => hb + 1 <= x) (ags gq)).
  { intro Ht. destruct (Hakd Ht) as (c & f & Hc & Hin & Hack).
    pose proof (hl_cur _ _ _ _ _ Hhl) as Hcu. rewrite (cur_key_some _ _ Hc) in Hcu.
    destruct Hcu as (Hlen & Hfrm & _).
    assert (Hg' : exists g, In g gfs /\ fr_ok (n_sub (ns s)) f g).
    { clear -Ffs Hin. induction Ffs as [|x y l l' Hxy Hl IH]; [destruct Hin|].
      destruct Hin as [E|Hin]; [subst x; exists y; split; [left; reflexivity|exact Hxy]|].
      destruct (IH Hin) as (g & Hg1 & Hg2). exists g. split; [right; exact Hg1|exact Hg2]. }
    destruct Hg' as (g & Hgin & Hgf).
    assert (Hain : In (ga g) (ags gfs)) by (apply in_map; exact Hgin).
    destruct (dir_amid _ _ _ _ _ _ _ _ _ _ D2 Hain) as (Ha1 & Ha2 & Ha3).
    pose proof (fr_ok_ack _ _ _ Hgf) as Hfa.
    assert (ga g = hb + 1).
    { destruct f as [frm re a p|x y a|x y a| |v c0|v c0]; cbn [f_ack] in Hfa; try discriminate;
        injection Hfa as Hfa; subst a; cbn [acks] in Hack; rewrite Hfrm in Hack;
        unfold num8 in Hack; lia. }
    split; [lia|]. eapply Forall_impl; [|exact Ha3]. cbn. intros; lia. }
  destruct (inv_smove K _ (hs s) _ _ _ hb _ subs _ _ _ _ _ _ _ _ _ _ _ _ Hhl D1' D2a F2' Erx M Hak)
    as (g1' & hb' & Hhl' & D1'' & D2' & F2'' & Hups).
  exists g1', gq, hb'. unfold host_do.
  cbn [set_n2h hs ns h2n n2h htrace nups]. rewrite Hout.
  constructor; cbn [hs ns h2n n2h htrace nups];
    rewrite ?first_tx_app, ?oks_app, ?ups_of_app, ?wire_app, ?Hups, ?Hn1, ?Hn2; cbn [app];
    rewrite ?app_nil_r, ?app_assoc; try assumption.
  - apply (step_ginv (hs s) (Frames fs)). exact Hg.
  - rewrite Hrx'. exact Erx.
Qed.

(* ---- every label preserves the invariant --------------------------------------------------------- *)
Lemma inv_step K subs s l : K <= 7 -> SInv K subs s -> SInv K (subs ++ lsubmits [l]) (link_step K s l).
Proof.
  intros HK H.
  destruct l as [id p|id| |t|p|i re| | | | | | |n| | | | ]; cbn [lsubmits flat_map app link_step]; rewrite ?app_nil_r.
  - apply inv_submit. exact H.
  - destruct H as (g1 & g2 & hb & HI). destruct (cancel_smove (hs s) id) as [M Hr].
    apply inv_host_plain; [exists g1, g2, hb; exact HI|exact M|exact Hr].
  - destruct H as (g1 & g2 & hb & HI). destruct (tick_smove (hs s) (i_g _ _ _ _ _ _ HI)) as [M Hr].
    apply inv_host_plain; [exists g1, g2, hb; exact HI|exact M|exact Hr].
  - destruct H as (g1 & g2 & hb & HI). destruct (wait_smove (hs s) t) as [M Hr].
    apply inv_host_plain; [exists g1, g2, hb; exact HI|exact M|exact Hr].
  - apply inv_nsubmit. exact H.
  - destruct (Nat.leb_spec (n_base (ns s)) i); cbn [andb]; [|exact H].
    destruct (Nat.leb_spec i (n_next (ns s))); cbn [andb]; [|exact H].
    destruct (Nat.ltb_spec i (n_base (ns s) + K)); cbn [andb]; [|exact H].
    destruct (Nat.ltb_spec i (length (n_sub (ns s)))); [|exact H].
    apply inv_ndata; assumption.
  - apply inv_ncp_ctl; [exact H|left; reflexivity].
  - apply inv_ncp_ctl; [exact H|right; reflexivity].
  - destruct (n2h s) as [|f q] eqn:E; [exact H|]. apply inv_hdeliver; assumption.
  - apply inv_hdrop. exact H.
  - apply inv_hdup. exact H.
  - destruct (n2h s) as [|f q] eqn:E; [exact H|]. eapply inv_hcorrupt; eassumption.
  - apply inv_hread; assumption.
  - destruct (h2n s) as [|f q] eqn:E; [exact H|]. cbv zeta. apply inv_ndeliver; assumption.
  - apply inv_ndrop. exact H.
  - apply inv_ndup. exact H.
  - destruct (h2n s) as [|f q] eqn:E; [exact H|]. eapply inv_ncorrupt; eassumption.
Qed.

Lemma link_run_snoc K ls l : link_run K (ls ++ [l]) = link_step K (link_run K ls) l.
Proof. unfold link_run. rewrite fold_left_app. reflexivity. Qed.

Lemma lsubmits_app a b : lsubmits (a ++ b) = lsubmits a ++ lsubmits b.
Proof. unfold lsubmits. apply flat_map_app. Qed.

Theorem run_inv K ls : K <= 7 -> SInv K (lsubmits ls) (link_run K ls).
Proof.
  intro HK. induction ls as [|l ls IH] using rev_ind.
  - exists [], [], 0. apply inv_init.
  - rewrite link_run_snoc, lsubmits_app. apply inv_step; assumption.
Qed.

(* ================================================================================================ *)
(* (5) the theorems                                                                                  *)
(* ================================================================================================ *)
Lemma prefix_firstn {A} (l : list A) n : prefix_of (firstn n l) l.
Proof. exists (skipn n l). symmetry. apply firstn_skipn. Qed.

(* NCP -> host: what the host hands up is a prefix of what the NCP's upper layer submitted *)
Theorem ncp_to_host_prefix K ls : K <= 7 ->
  prefix_of (hups (link_run K ls)) (n_sub (ns (link_run K ls))).
Proof.
  intro HK. destruct (run_inv K ls HK) as (g1 & g2 & hb & HI).
  unfold hups. rewrite (d_del _ _ _ _ _ _ _ _ _ (i_d1 _ _ _ _ _ _ HI)). apply prefix_firstn.
Qed.

(* host -> NCP: what the NCP hands up is a prefix of the payloads in first-transmission order,
   the k-th payload handed up belongs to the k-th send first-transmitted, and the sends are first
   transmitted in the order in which they were submitted *)
Theorem host_to_ncp_prefix K ls : K <= 7 ->
  let s := link_run K ls in
  prefix_of (nups s) (map snd (first_tx (htrace s)))
  /\ map snd (ncp_deliveries s) = nups s
  /\ subseq (first_tx (htrace s)) (lsubmits ls).
Proof.
  intros HK s. subst s. destruct (run_inv K ls HK) as (g1 & g2 & hb & HI).
  pose proof (d_del _ _ _ _ _ _ _ _ _ (i_d2 _ _ _ _ _ _ HI)) as Hdel.
  split; [|split].
  - rewrite Hdel at 1. apply prefix_firstn.
  - unfold ncp_deliveries. rewrite <- firstn_map, <- (i_nr _ _ _ _ _ _ HI). symmetry. exact Hdel.
  - destruct (hl_sub _ _ _ _ _ (i_hl _ _ _ _ _ _ HI)) as (A & HA & Hss). rewrite HA.
    apply subseq_app_r. exact Hss.
Qed.

Lemma oks_In l id : In (HDone id OOk) l <-> In id (oks l).
Proof.
  unfold oks. rewrite in_flat_map. split.
  - intro H. exists (HDone id OOk). split; [exact H|left; reflexivity].
  - intros (o & Ho & Hin). destruct o as [| | | | | |i oc]; try (destruct Hin; fail).
    destruct oc; try (destruct Hin; fail). destruct Hin as [E|[]]. subst i. exact Ho.
Qed.

Lemma in_firstn_le {A} (l : list A) n m x : n <= m -> In x (firstn n l) -> In x (firstn m l).
Proof.
  intro H. induction H as [|m H IH]; [intro Hx; exact Hx|]. intro Hx. apply in_firstn_S. apply IH. exact Hx.
Qed.

Lemma deliveries_nodup K ls : K <= 7 -> NoDup (map fst (lsubmits ls)) ->
  NoDup (map fst (ncp_deliveries (link_run K ls))).
Proof.
  intros HK Hnd. destruct (host_to_ncp_prefix K ls HK) as (_ & _ & Hss). cbv zeta in Hss.
  eapply subseq_NoDup; [|exact Hnd]. apply subseq_map. unfold ncp_deliveries.
  eapply (subseq_app_r _ _ []) in Hss. rewrite app_nil_r in Hss.
  clear Hnd. revert Hss. generalize (lsubmits ls). generalize (first_tx (htrace (link_run K ls))).
  generalize (length (nups (link_run K ls))). intros n l. revert n.
  induction l as [|x l IH]; intros n l2 H.
  - rewrite firstn_nil. exact H.
  - destruct n as [|n]; cbn [firstn]; [apply subseq_nil_l|].
    remember (x :: l) as xl eqn:Exl. revert x l IH Exl.
    induction H as [|y l1 l2 H IHs|y l1 l2 H IHs]; intros x l IH Exl; [discriminate| |].
    + apply ss_skip. eapply IHs; eassumption.
    + injection Exl as E1 E2. subst y l1. apply ss_take. apply IH. exact H.
Qed.

(* a send reported done has been handed to the NCP's upper layer, exactly once *)
Theorem completed_delivered K ls id : K <= 7 -> NoDup (map fst (lsubmits ls)) ->
  let s := link_run K ls in
  In (HDone id OOk) (htrace s) ->
  count_occ N.eq_dec (map fst (ncp_deliveries s)) id = 1
  /\ exists p, In (id, p) (lsubmits ls) /\ In (id, p) (ncp_deliveries s).
Proof.
  intros HK Hnd s Hin. subst s. apply oks_In in Hin.
  destruct (run_inv K ls HK) as (g1 & g2 & hb & HI).
  pose proof (hl_ok _ _ _ _ _ (i_hl _ _ _ _ _ _ HI) id Hin) as Hd.
  pose proof (i_d2 _ _ _ _ _ _ HI) as D2. destruct D2 as [Hbr _ _ _ _ _ _ _ _].
  rewrite (i_nr _ _ _ _ _ _ HI) in Hbr.
  apply in_map_iff in Hd. destruct Hd as ([i p] & Ei & Hd). cbn [fst] in Ei. subst i.
  apply (in_firstn_le _ _ _ _ Hbr) in Hd.
  split.
  - apply NoDup_count_occ'; [apply deliveries_nodup; assumption|].
    apply in_map_iff. exists (id, p). split; [reflexivity|exact Hd].
  - exists p. split; [|exact Hd].
    destruct (host_to_ncp_prefix K ls HK) as (_ & _ & Hss). cbv zeta in Hss.
    eapply subseq_In; [exact Hss|]. eapply subseq_In; [apply subseq_firstn|exact Hd].
Qed.

(* whatever its outcome (failure, cancellation, none yet), no send is handed up twice *)
Theorem at_most_once K ls id : K <= 7 -> NoDup (map fst (lsubmits ls)) ->
  count_occ N.eq_dec (map fst (ncp_deliveries (link_run K ls))) id <= 1.
Proof.
  intros HK Hnd. apply (proj1 (NoDup_count_occ N.eq_dec _)). apply deliveries_nodup; assumption.
Qed.

(* ================================================================================================ *)
(* (6) cancelling callers changes nothing but who is told                                            *)
(* ================================================================================================ *)
(* [cancelled] is written by CancelCaller and read by done_out, nowhere else: the host with its
   cancelled list emptied does the same thing, up to the completion events of cancelled callers *)
Definition u (st : hstate) : hstate := set_cancelled st [].
Definition sub_mem (C D : list N) : Prop := forall x, memN x C = true -> memN x D = true.

Lemma strip_app D a b : strip D (a ++ b) = strip D a ++ strip D b.
Proof. unfold strip. apply filter_app. Qed.

Lemma u_done_out D st id o : sub_mem (cancelled st) D ->
  strip D (done_out (u st) id o) = strip D (done_out st id o).
Proof.
  intro HD. unfold done_out. cbn [u set_cancelled cancelled memN].
  destruct (memN id (cancelled st)) eqn:E; [|reflexivity].
  cbn [strip filter]. rewrite (HD id E). reflexivity.
Qed.

Lemma u_start_next D : forall fuel st, sub_mem (cancelled st) D ->
  fst (start_next fuel (u st)) = u (fst (start_next fuel st)) /\
  cancelled (fst (start_next fuel st)) = cancelled st /\
  strip D (snd (start_next fuel (u st))) = strip D (snd (start_next fuel st)).
Proof.
  induction fuel as [|fuel IH]; intros st HD.
  - cbn [start_next fst snd]. repeat split.
  - destruct st as [tx rx fl ta nw ws cu ca]. unfold u, set_cancelled in *.
    cbn [tx_seq rx_seq failed t_ack now waiters cur cancelled start_next] in *.
    destruct ws as [|[id p] ws]; [cbn [fst snd]; repeat split|].
    destruct fl.
    + specialize (IH {| tx_seq := tx; rx_seq := rx; failed := true; t_ack := ta; now := nw; waiters := ws;
                        cur := None; cancelled := ca |} HD).
      cbn [tx_seq rx_seq failed t_ack now waiters cur cancelled] in IH.
      destruct IH as (I1 & I2 & I3).
      destruct (start_next fuel {| tx_seq := tx; rx_seq := rx; failed := true; t_ack := ta; now := nw;
                                   waiters := ws; cur := None; cancelled := [] |}) as [a1 b1].
      destruct (start_next fuel {| tx_seq := tx; rx_seq := rx; failed := true; t_ack := ta; now := nw;
                                   waiters := ws; cur := None; cancelled := ca |}) as [a2 b2].
      cbn [fst snd] in *. split; [exact I1|]. split; [exact I2|].
      rewrite !strip_app, I3. f_equal.
      apply (u_done_out D {| tx_seq := tx; rx_seq := rx; failed := true; t_ack := ta; now := nw; waiters := ws;
                             cur := None; cancelled := ca |}). exact HD.
    + unfold transmit. cbn [fst snd tx_seq rx_seq failed t_ack now waiters cur cancelled]. repeat split.
Qed.

Lemma u_close D s pre1 pre : sub_mem (cancelled s) D -> strip D pre1 = strip D pre ->
  fst (close (u s) pre1) = u (fst (close s pre)) /\
  cancelled (fst (close s pre)) = cancelled s /\
  strip D (snd (close (u s) pre1)) = strip D (snd (close s pre)).
Proof.
  intros HD Hpre. unfold close, sn. cbn [fst snd].
  destruct (u_start_next D (S (length (waiters (with_cur s None)))) (with_cur s None) HD) as (H1 & H2 & H3).
  split; [exact H1|]. split; [exact H2|]. rewrite !strip_app, Hpre. f_equal. exact H3.
Qed.

Lemma u_retry D st c o : sub_mem (cancelled st) D ->
  fst (retry_or_fail (u st) c o) = u (fst (retry_or_fail st c o)) /\
  cancelled (fst (retry_or_fail st c o)) = cancelled st /\
  strip D (snd (retry_or_fail (u st) c o)) = strip D (snd (retry_or_fail st c o)).
Proof.
  intro HD. rewrite !retry_or_fail_eq. destruct (ACK_TIMEOUTS - 1 <=? cattempt c)%N.
  - apply (u_close D (set_failed st true)); [exact HD|].
    change (HReset ERROR_EXCEEDED_MAXIMUM_ACK_TIMEOUT_COUNT :: ?l)
      with ([HReset ERROR_EXCEEDED_MAXIMUM_ACK_TIMEOUT_COUNT] ++ l).
    rewrite !strip_app. f_equal. apply u_done_out. exact HD.
  - change (failed (u st)) with (failed st). destruct (failed st).
    + apply (u_close D st); [exact HD|]. apply u_done_out. exact HD.
    + unfold transmit. cbn [fst snd cancelled]. repeat split.
Qed.

Lemma u_settle D st : sub_mem (cancelled st) D ->
  fst (settle (u st)) = u (fst (settle st)) /\
  cancelled (fst (settle st)) = cancelled st /\
  strip D (snd (settle (u st))) = strip D (snd (settle st)).
Proof.
  intro HD. rewrite !settle_eq. change (cur (u st)) with (cur st).
  destruct (cur st) as [c|]; [|repeat split].
  destruct (cfut c) as [| | |code]; [repeat split| | |].
  - apply (u_close D (set_t st _)); [exact HD|]. apply u_done_out. exact HD.
  - apply (u_retry D (set_t st _)). exact HD.
  - apply (u_close D st); [exact HD|]. apply u_done_out. exact HD.
Qed.

Lemma u_resolve st y : resolve (u st) y = u (resolve st y).
Proof.
  unfold resolve. change (cur (u st)) with (cur st).
  destruct (cur st) as [c|]; [|reflexivity]. destruct (cfut c); reflexivity.
Qed.

Lemma u_handle_ack st a : handle_ack (u st) a = u (handle_ack st a).
Proof.
  unfold handle_ack. change (cur (u st)) with (cur st).
  destruct (cur st) as [c|]; [|reflexivity]. destruct ((a + 7) mod 8 =? cfrm c)%N; [apply u_resolve|reflexivity].
Qed.

Lemma u_apply_frame st f :
  apply_frame (u st) f = (u (fst (apply_frame st f)), snd (apply_frame st f)).
Proof.
  rewrite !apply_frame_eq. cbn [fst snd]. change (rx_seq (u st)) with (rx_seq st). f_equal.
  destruct f as [frm re a p|res nr a|res nr a| |v code|v code]; cbn [core].
  - rewrite u_handle_ack. reflexivity.
  - rewrite u_handle_ack. reflexivity.
  - rewrite u_handle_ack, u_resolve. reflexivity.
  - reflexivity.
  - reflexivity.
  - change (set_failed (u st) true) with (u (set_failed st true)). rewrite u_resolve. reflexivity.
Qed.

Lemma u_apply_frames fs : forall st,
  apply_frames (u st) fs = (u (fst (apply_frames st fs)), snd (apply_frames st fs)).
Proof.
  induction fs as [|f fs IH]; intro st; [reflexivity|].
  rewrite !apply_frames_cons, u_apply_frame. cbn [fst snd]. rewrite IH. reflexivity.
Qed.

Definition not_cancel (e : hevent) : Prop := match e with CancelCaller _ => False | _ => True end.

Lemma u_host_step D st e : not_cancel e -> sub_mem (cancelled st) D ->
  fst (host_step (u st) e) = u (fst (host_step st e)) /\
  cancelled (fst (host_step st e)) = cancelled st /\
  strip D (snd (host_step (u st) e)) = strip D (snd (host_step st e)).
Proof.
  intros Hn HD. destruct e as [id p|fs| |t|id]; [| | | |destruct Hn].
  - rewrite !step_submit_eq. change (cur (u st)) with (cur st). destruct (cur st) as [c|].
    + cbn [fst snd]. repeat split.
    + apply (u_start_next D _ (submitted st id p)). exact HD.
  - rewrite !step_frames_eq, u_apply_frames. cbn [fst snd].
    destruct (afs_misc fs st) as (_ & _ & Kc & _).
    destruct (u_settle D (fst (apply_frames st fs))) as (H1 & H2 & H3); [rewrite Kc; exact HD|].
    split; [exact H1|]. split; [rewrite H2; exact Kc|]. rewrite !strip_app, H3. reflexivity.
  - cbn [host_step]. change (cur (u st)) with (cur st). destruct (cur st) as [c|]; [|repeat split].
    destruct (cfut c); try (repeat split; fail).
    apply (u_retry D (set_t (set_now st (cdeadline c)) (on_timeout (t_ack st)))). exact HD.
  - cbn [host_step]. change (cur (u st)) with (cur st). change (now (u st)) with (now st).
    destruct (cur st) as [c|].
    + destruct (PrimFloat.ltb t (cdeadline c) && PrimFloat.leb (now st) t); repeat split.
    + destruct (PrimFloat.leb (now st) t); repeat split.
Qed.

Lemma sub_mem_refl C : sub_mem C C.
Proof. intros x H; exact H. Qed.

Lemma wire_strip D l : wire (strip D l) = wire l.
Proof.
  induction l as [|o l IH]; [reflexivity|]. cbn [strip filter].
  destruct o as [| | | | | |i oc]; cbn [wire flat_map wire_of app]; fold (strip D l); fold (wire (strip D l));
    fold (wire l); rewrite ?IH; try reflexivity.
  destruct (negb (memN i D)); cbn [wire flat_map wire_of app]; fold (wire (strip D l)); rewrite ?IH; reflexivity.
Qed.
Lemma ups_of_strip D l : ups_of (strip D l) = ups_of l.
Proof.
  induction l as [|o l IH]; [reflexivity|]. cbn [strip filter].
  destruct o as [| | | | | |i oc]; cbn [ups_of flat_map app]; fold (strip D l); fold (ups_of (strip D l));
    fold (ups_of l); rewrite ?IH; try reflexivity.
  destruct (negb (memN i D)); cbn [ups_of flat_map app]; fold (ups_of (strip D l)); rewrite ?IH; reflexivity.
Qed.
Lemma first_tx_strip D l : first_tx (strip D l) = first_tx l.
Proof.
  induction l as [|o l IH]; [reflexivity|]. cbn [strip filter].
  destruct o as [| | | | | |i oc]; cbn [first_tx flat_map app]; fold (strip D l); fold (first_tx (strip D l));
    fold (first_tx l); rewrite ?IH; try reflexivity.
  destruct (negb (memN i D)); cbn [first_tx flat_map app]; fold (first_tx (strip D l)); rewrite ?IH; reflexivity.
Qed.
Lemma strip_In D l id o : memN id D = false -> (In (HDone id o) (strip D l) <-> In (HDone id o) l).
Proof.
  intro Hm. unfold strip. rewrite filter_In. split; [intros [H _]; exact H|].
  intro H. split; [exact H|]. rewrite Hm. reflexivity.
Qed.

(* the run with the cancellations (s1) against the run without (s2) *)
Record Rc (s1 s2 : lstate) : Prop := {
  rc_hs : hs s2 = u (hs s1);
  rc_ns : ns s2 = ns s1;
  rc_h2n : h2n s2 = h2n s1;
  rc_n2h : n2h s2 = n2h s1;
  rc_nups : nups s2 = nups s1;
  rc_tr : forall D, sub_mem (cancelled (hs s1)) D -> strip D (htrace s2) = strip D (htrace s1)
}.

Lemma rc_host_do s1 s2 e : Rc s1 s2 -> not_cancel e -> Rc (host_do s1 e) (host_do s2 e).
Proof.
  intros [H1 H2 H3 H4 H5 H6] Hn. unfold host_do. rewrite H1.
  destruct (u_host_step (cancelled (hs s1)) (hs s1) e Hn (sub_mem_refl _)) as (E1 & E2 & E3).
  constructor; cbn [hs ns h2n n2h htrace nups]; try assumption.
  - rewrite H3. f_equal. rewrite <- (wire_strip (cancelled (hs s1))), E3. apply wire_strip.
  - intros D HD. rewrite E2 in HD.
    destruct (u_host_step D (hs s1) e Hn HD) as (_ & _ & E3').
    rewrite !strip_app, E3', (H6 D HD). reflexivity.
Qed.

Lemma rc_step K s1 s2 l : Rc s1 s2 -> is_cancel l = false -> Rc (link_step K s1 l) (link_step K s2 l).
Proof.
  intros HR Hl.
  destruct l as [id p|id| |t|p|i re| | | | | | |n| | | | ]; cbn [is_cancel] in Hl; try discriminate;
    cbn [link_step]; try (apply rc_host_do; [exact HR|exact I]);
    pose proof HR as [H1 H2 H3 H4 H5 H6]; rewrite ?H2, ?H3, ?H4.
  - constructor; cbn [ncp_sends hs ns h2n n2h htrace nups]; rewrite ?H4, ?H5; try assumption; reflexivity.
  - destruct ((n_base (ns s1) <=? i) && (i <=? n_next (ns s1)) && (i <? n_base (ns s1) + K)
              && (i <? length (n_sub (ns s1)))); [|exact HR].
    constructor; cbn [ncp_sends hs ns h2n n2h htrace nups]; rewrite ?H4, ?H5; try assumption; reflexivity.
  - constructor; cbn [ncp_sends hs ns h2n n2h htrace nups]; rewrite ?H4, ?H5; try assumption; reflexivity.
  - constructor; cbn [ncp_sends hs ns h2n n2h htrace nups]; rewrite ?H4, ?H5; try assumption; reflexivity.
  - destruct (n2h s1) as [|f q]; [exact HR|]. apply rc_host_do; [|exact I].
    constructor; cbn [set_n2h hs ns h2n n2h htrace nups]; try assumption; reflexivity.
  - constructor; cbn [set_n2h hs ns h2n n2h htrace nups]; try assumption; reflexivity.
  - constructor; cbn [set_n2h hs ns h2n n2h htrace nups]; try assumption; reflexivity.
  - destruct (n2h s1) as [|f q]; [exact HR|]. rewrite H1. change (rx_seq (u (hs s1))) with (rx_seq (hs s1)).
    constructor; cbn [hs ns h2n n2h htrace nups]; rewrite ?H3; try assumption; try reflexivity.
    intros D HD. rewrite !strip_app, (H6 D HD). reflexivity.
  - apply rc_host_do; [|exact I].
    constructor; cbn [set_n2h hs ns h2n n2h htrace nups]; try assumption; reflexivity.
  - destruct (h2n s1) as [|f q]; [exact HR|]. cbv zeta.
    constructor; cbn [hs ns h2n n2h htrace nups]; rewrite ?H5; try assumption; reflexivity.
  - constructor; cbn [set_h2n hs ns h2n n2h htrace nups]; try assumption; reflexivity.
  - constructor; cbn [set_h2n hs ns h2n n2h htrace nups]; try assumption; reflexivity.
  - destruct (h2n s1) as [|f q]; [exact HR|].
    constructor; cbn [ncp_sends set_h2n hs ns h2n n2h htrace nups]; rewrite ?H4; try assumption; reflexivity.
Qed.

Lemma rc_cancel s1 s2 id : Rc s1 s2 -> Rc (host_do s1 (CancelCaller id)) s2.
Proof.
  intros [H1 H2 H3 H4 H5 H6]. unfold host_do.
  destruct (step_cancel_cases (hs s1) id) as [E|E]; rewrite E; cbn [fst snd];
    constructor; cbn [hs ns h2n n2h htrace nups wire flat_map]; rewrite ?app_nil_r; try assumption.
  - intros D HD. rewrite strip_app. cbn [strip filter]. cbn [cancelled_by cancelled] in HD.
    assert (Hid : memN id D = true) by (apply HD; cbn [memN]; rewrite N.eqb_refl; reflexivity).
    rewrite Hid. cbn [negb]. rewrite app_nil_r. apply H6.
    intros x Hx. apply HD. cbn [memN]. rewrite Hx. apply orb_true_r.
Qed.

Lemma drop_cancels_app a b : drop_cancels (a ++ b) = drop_cancels a ++ drop_cancels b.
Proof. unfold drop_cancels. apply filter_app. Qed.

Theorem cancel_rc K ls : Rc (link_run K ls) (link_run K (drop_cancels ls)).
Proof.
  induction ls as [|l ls IH] using rev_ind.
  - constructor; try reflexivity.
  - rewrite drop_cancels_app, link_run_snoc. destruct (is_cancel l) eqn:E.
    + destruct l; try discriminate. cbn [drop_cancels filter is_cancel negb]. rewrite app_nil_r.
      cbn [link_step]. apply rc_cancel. exact IH.
    + unfold drop_cancels at 2. cbn [filter]. rewrite E. cbn [negb]. rewrite link_run_snoc.
      apply rc_step; assumption.
Qed.

Lemma memN_In x l : memN x l = true <-> In x l.
Proof.
  induction l as [|y l IH]; cbn [memN In]; [split; [discriminate|intros []]|].
  rewrite orb_true_iff, IH, N.eqb_eq. split; intros [H|H]; auto.
Qed.

(* exactly the callers named by LCancel labels are in [cancelled] *)
Lemma cancelled_labels K ls id :
  In id (cancelled (hs (link_run K ls))) <-> In (LCancel id) ls.
Proof.
  induction ls as [|l ls IH] using rev_ind; [cbn; tauto|].
  rewrite link_run_snoc, in_app_iff, <- IH. set (s := link_run K ls). clearbody s. clear IH.
  assert (Hh : forall s' e, not_cancel e -> cancelled (hs (host_do s' e)) = cancelled (hs s')).
  { intros s' e He. unfold host_do. cbn [hs].
    destruct (u_host_step (cancelled (hs s')) (hs s') e He (sub_mem_refl _)) as (_ & E & _). exact E. }
  assert (Hno : forall (l' : label) (X : Prop), l' <> LCancel id -> (X <-> X \/ In (LCancel id) [l'])).
  { intros l' X Hne. cbn [In]. split; [intro H; left; exact H|intros [H|[H|[]]]; [exact H|congruence]]. }
  destruct l as [i p|i| |t|p|i re| | | | | | |n| | | | ]; cbn [link_step].
  - rewrite (Hh s (Submit i p) I). apply Hno. discriminate.
  - unfold host_do. cbn [hs].
    destruct (step_cancel_cases (hs s) i) as [E|E]; rewrite E; cbn [fst cancelled_by cancelled In].
    + split; [intro H; left; exact H|]. intros [H|[H|[]]]; [exact H|]. injection H as H. subst i.
      cbn [host_step] in E. destruct (memN id (cancelled (hs s))) eqn:Em; [apply memN_In; exact Em|].
      injection E as E. exfalso. clear -E. destruct (hs s) as [tx rx fl ta nw ws cu ca]. cbn in E.
      injection E as E. apply (f_equal (@length N)) in E. cbn [length] in E. lia.
    + split; [intros [H|H]; [right; left; subst; reflexivity|left; exact H]|].
      intros [H|[H|[]]]; [right; exact H|left]. injection H as H. exact H.
  - rewrite (Hh s Tick I). apply Hno. discriminate.
  - rewrite (Hh s (WaitTo t) I). apply Hno. discriminate.
  - cbn [ncp_sends hs]. apply Hno. discriminate.
  - destruct ((n_base (ns s) <=? i) && (i <=? n_next (ns s)) && (i <? n_base (ns s) + K)
              && (i <? length (n_sub (ns s)))); cbn [ncp_sends hs]; apply Hno; discriminate.
  - cbn [ncp_sends hs]. apply Hno. discriminate.
  - cbn [ncp_sends hs]. apply Hno. discriminate.
  - destruct (n2h s) as [|f q]; [apply Hno; discriminate|].
    rewrite (Hh (set_n2h s q) (Frames [f]) I). cbn [set_n2h hs]. apply Hno. discriminate.
  - cbn [set_n2h hs]. apply Hno. discriminate.
  - cbn [set_n2h hs]. apply Hno. discriminate.
  - destruct (n2h s) as [|f q]; cbn [hs]; apply Hno; discriminate.
  - rewrite (Hh (set_n2h s (skipn n (n2h s))) (Frames (firstn n (n2h s))) I). cbn [set_n2h hs].
    apply Hno. discriminate.
  - destruct (h2n s) as [|f q]; cbn [hs]; apply Hno; discriminate.
  - cbn [set_h2n hs]. apply Hno. discriminate.
  - cbn [set_h2n hs]. apply Hno. discriminate.
  - destruct (h2n s) as [|f q]; cbn [ncp_sends set_h2n hs]; apply Hno; discriminate.
Qed.

(* removing every cancellation from a run changes neither the states of the two endpoints (but for
   the host's list of cancelled callers), nor what is on the wire, nor what either side hands up,
   nor any output of the host other than the completion events of the cancelled callers *)
Theorem cancel_noop K ls :
  let s1 := link_run K ls in
  let s2 := link_run K (drop_cancels ls) in
  hs s2 = set_cancelled (hs s1) [] /\ ns s2 = ns s1 /\ h2n s2 = h2n s1 /\ n2h s2 = n2h s1
  /\ nups s2 = nups s1 /\ hups s2 = hups s1 /\ first_tx (htrace s2) = first_tx (htrace s1)
  /\ strip (cancelled (hs s1)) (htrace s2) = strip (cancelled (hs s1)) (htrace s1)
  /\ (forall id o, ~ In (LCancel id) ls ->
        (In (HDone id o) (htrace s2) <-> In (HDone id o) (htrace s1))).
Proof.
  intros s1 s2. subst s1 s2. destruct (cancel_rc K ls) as [H1 H2 H3 H4 H5 H6].
  pose proof (H6 _ (sub_mem_refl _)) as H7.
  split; [exact H1|]. split; [exact H2|]. split; [exact H3|]. split; [exact H4|]. split; [exact H5|].
  split; [|split; [|split; [exact H7|]]].
  - unfold hups. rewrite <- (ups_of_strip (cancelled (hs (link_run K ls)))), H7. apply ups_of_strip.
  - rewrite <- (first_tx_strip (cancelled (hs (link_run K ls)))), H7. apply first_tx_strip.
  - intros id o Hn.
    assert (Hm : memN id (cancelled (hs (link_run K ls))) = false).
    { destruct (memN id (cancelled (hs (link_run K ls)))) eqn:Em; [|reflexivity].
      exfalso. apply Hn. apply cancelled_labels with (K := K). apply memN_In. exact Em. }
    rewrite <- (strip_In _ _ _ o Hm), H7. apply strip_In. exact Hm.
Qed.

(* what the NCP has seen acknowledged, the host has handed up *)
Theorem ncp_acked_delivered K ls : K <= 7 ->
  n_base (ns (link_run K ls)) <= length (hups (link_run K ls)).
Proof.
  intro HK. destruct (run_inv K ls HK) as (g1 & g2 & hb & HI).
  pose proof (i_d1 _ _ _ _ _ _ HI) as D1. destruct D1 as [Hbr _ _ _ _ _ _ _ _]. exact Hbr.
Qed.
