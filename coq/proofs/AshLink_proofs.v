(* C01 -- proofs about the composed system of model/AshLink.v.  Statements are restated in
   props/C01.v.

   Structure:
   (1) [Dir]: the abstract one-direction sliding-window invariant (3-bit numbers, window W <= 7,
       FIFO queues with loss and duplication), given as a contract: any sender / receiver / line
       whose moves are among the lemmas dir_* preserves it.  It yields
       "delivered = firstn r sent".
   (2) ghosts: the absolute indices of the frames in flight, as lists parallel to the two queues.
   (3) the host as the receiver of one direction (rx_frame) and the window-1 sender of the other
       (handle_ack / settle / retry_or_fail): precise one-step descriptions [smove].
   (4) the system invariant [Inv] and its preservation by every label.
   (5) the theorems.
   (6) cancellation commutes with everything. *)
From Coq Require Import PrimFloat ZArith NArith List Bool Arith Lia ZifyBool ZifyN ZifyNat Sorted.
Import ListNotations.
Require Import BV.gen.GenAsh BV.model.AshCodec BV.model.AshRx BV.model.AshHost BV.model.AshLink.
Require Import BV.proofs.AshHost_proofs.
Local Open Scope nat_scope.
Ltac Zify.zify_post_hook ::= Z.to_euclidean_division_equations.

(* ================================================================================================ *)
(* (1) one direction, abstractly                                                                     *)
(* ================================================================================================ *)
Section DIR.
Variable P : Type.

Definition gsorted (q : list (nat * nat)) := StronglySorted (fun x y => fst x <= fst y) q.
Definition asorted (q : list nat) := StronglySorted le q.

(* a DATA frame in flight: (sender's base when it was sent, absolute index) *)
Definition dq_ok (W base next r : nat) (f : nat * nat) : Prop :=
  fst f <= snd f /\ snd f < fst f + W /\ snd f < next /\ fst f <= base /\ r <= fst f + W.

Record Dir (W base next r : nat) (sent deliv : list P) (dg : list (nat * nat)) (ag : list nat) : Prop := {
  d_br : base <= r;
  d_rn : r <= next;
  d_nb : next <= base + W;
  d_len : next <= length sent;
  d_dq : Forall (dq_ok W base next r) dg;
  d_ds : gsorted dg;
  d_aq : Forall (fun a => base <= a /\ a <= r) ag;
  d_as : asorted ag;
  d_del : deliv = firstn r sent
}.

Lemma ssorted_snoc {A} (R : A -> A -> Prop) q x :
  StronglySorted R q -> Forall (fun y => R y x) q -> StronglySorted R (q ++ [x]).
Proof.
  induction 1 as [|a q Hs IH Ha]; intros Hq; cbn.
  - repeat constructor.
  - inversion Hq; subst. constructor; [apply IH; assumption|].
    apply Forall_app; split; [assumption| constructor; [assumption|constructor]].
Qed.

Lemma dir_init W : Dir W 0 0 0 [] [] [] [].
Proof. constructor; cbn; try lia; try constructor. Qed.

(* the sender's upper layer submits more *)
Lemma dir_sent_app W b n r S D dg ag S' :
  Dir W b n r S D dg ag -> Dir W b n r (S ++ S') D dg ag.
Proof.
  intros [Hbr Hrn Hnb Hlen Hdq Hds Haq Has Hdel]. constructor; try assumption.
  - rewrite app_length. lia.
  - rewrite firstn_app. replace (r - length S) with 0 by lia. cbn. rewrite app_nil_r. exact Hdel.
Qed.

(* the sender (re)transmits frame i of its window *)
Lemma dir_send W b n r S D dg ag i :
  Dir W b n r S D dg ag -> b <= i -> i <= n -> i < b + W -> i < length S ->
  Dir W b (Nat.max n (Datatypes.S i)) r S D (dg ++ [(b, i)]) ag.
Proof.
  intros [Hbr Hrn Hnb Hlen Hdq Hds Haq Has Hdel] H1 H2 H3 H4. constructor; try assumption; try lia.
  - apply Forall_app; split.
    + eapply Forall_impl; [|exact Hdq]. unfold dq_ok. intros f Hf. lia.
    + constructor; [unfold dq_ok; cbn; lia|constructor].
  - apply ssorted_snoc; [assumption|]. eapply Forall_impl; [|exact Hdq]. unfold dq_ok; cbn; intros f Hf; lia.
Qed.

(* the line loses / duplicates the DATA frame at the head *)
Lemma dir_dtl W b n r S D x dg ag : Dir W b n r S D (x :: dg) ag -> Dir W b n r S D dg ag.
Proof.
  intros [Hbr Hrn Hnb Hlen Hdq Hds Haq Has Hdel]. constructor; try assumption.
  - inversion Hdq; assumption.
  - inversion Hds; assumption.
Qed.

Lemma dir_ddup W b n r S D x dg ag : Dir W b n r S D (x :: dg) ag -> Dir W b n r S D (x :: x :: dg) ag.
Proof.
  intros [Hbr Hrn Hnb Hlen Hdq Hds Haq Has Hdel]. constructor; try assumption.
  - inversion Hdq; subst. constructor; [assumption|constructor; assumption].
  - inversion Hds; subst. constructor; [constructor; assumption|]. constructor; [lia|assumption].
Qed.

Lemma firstn_S_nth_error {A} (l : list A) n x :
  nth_error l n = Some x -> firstn (Datatypes.S n) l = firstn n l ++ [x].
Proof.
  revert n. induction l as [|y l IH]; intros [|n] H; cbn in H; try discriminate.
  - injection H as H. subst. reflexivity.
  - cbn [firstn app]. f_equal. apply IH. exact H.
Qed.

(* the receiver accepts the head: its number equals the expected one modulo 8 *)
Lemma dir_accept W b n r S D g i dg ag p :
  W <= 7 -> Dir W b n r S D ((g, i) :: dg) ag -> i mod 8 = r mod 8 -> nth_error S i = Some p ->
  i = r /\ Dir W b n (Datatypes.S r) S (D ++ [p]) dg ag.
Proof.
  intros HW [Hbr Hrn Hnb Hlen Hdq Hds Haq Has Hdel] Hm Hp.
  inversion Hdq as [|? ? Hf Hq]; subst. unfold dq_ok in Hf; cbn in Hf.
  inversion Hds as [|? ? Hsq Hfq]; subst.
  assert (i = r) by lia. subst i. split; [reflexivity|].
  constructor; try assumption; try lia.
  - rewrite Forall_forall in *. intros f Hin. specialize (Hq f Hin). specialize (Hfq f Hin).
    unfold dq_ok in *. cbn in *. lia.
  - eapply Forall_impl; [|exact Haq]. cbn; intros; lia.
  - rewrite (firstn_S_nth_error _ _ _ Hp). reflexivity.
Qed.

(* the receiver sends an acknowledgement (on any frame) *)
Lemma dir_ack_snoc W b n r S D dg ag : Dir W b n r S D dg ag -> Dir W b n r S D dg (ag ++ [r]).
Proof.
  intros [Hbr Hrn Hnb Hlen Hdq Hds Haq Has Hdel]. constructor; try assumption.
  - apply Forall_app; split; [assumption|]. constructor; [lia|constructor].
  - apply ssorted_snoc; [assumption|]. eapply Forall_impl; [|exact Haq]. cbn; intros; lia.
Qed.

Lemma dir_atl W b n r S D dg a ag : Dir W b n r S D dg (a :: ag) -> Dir W b n r S D dg ag.
Proof.
  intros [Hbr Hrn Hnb Hlen Hdq Hds Haq Has Hdel]. constructor; try assumption.
  - inversion Haq; assumption.
  - inversion Has; assumption.
Qed.

Lemma dir_adup W b n r S D dg a ag : Dir W b n r S D dg (a :: ag) -> Dir W b n r S D dg (a :: a :: ag).
Proof.
  intros [Hbr Hrn Hnb Hlen Hdq Hds Haq Has Hdel]. constructor; try assumption.
  - inversion Haq; subst. constructor; [assumption|constructor; assumption].
  - inversion Has; subst. constructor; [constructor; assumption|]. constructor; [lia|assumption].
Qed.

(* what the head acknowledgement says *)
Lemma dir_ahead W b n r S D dg a ag : Dir W b n r S D dg (a :: ag) ->
  b <= a /\ a <= r /\ Forall (fun x => a <= x) ag.
Proof.
  intros [Hbr Hrn Hnb Hlen Hdq Hds Haq Has Hdel].
  inversion Haq as [|? ? Ha Hq]; subst. inversion Has as [|? ? Hsq Hle]; subst.
  split; [lia|]. split; [lia|exact Hle].
Qed.

(* the sender slides its window up to an acknowledgement no older than all those still in flight *)
Lemma dir_base_up W b n r S D dg ag b' :
  Dir W b n r S D dg ag -> b <= b' -> b' <= r -> Forall (fun x => b' <= x) ag ->
  Dir W b' n r S D dg ag.
Proof.
  intros [Hbr Hrn Hnb Hlen Hdq Hds Haq Has Hdel] H1 H2 H3. constructor; try assumption; try lia.
  - eapply Forall_impl; [|exact Hdq]. unfold dq_ok. intros f Hf. lia.
  - rewrite Forall_forall in *. intros x Hin. specialize (Haq x Hin). specialize (H3 x Hin). cbn in *. lia.
Qed.

(* the sender takes the head acknowledgement *)
Lemma dir_ack W b n r S D dg a ag : Dir W b n r S D dg (a :: ag) -> Dir W a n r S D dg ag.
Proof.
  intros H. destruct (dir_ahead _ _ _ _ _ _ _ _ _ H) as (H1 & H2 & H3).
  apply (dir_base_up W b); [apply (dir_atl _ _ _ _ _ _ _ a); exact H|exact H1|exact H2|exact H3].
Qed.

End DIR.

(* 3-bit arithmetic *)
Lemma num8_S i : ((num8 i + 1) mod 8)%N = num8 (S i).
Proof. unfold num8. lia. Qed.

Lemma num8_lt i : (num8 i < 8)%N.
Proof. unfold num8. lia. Qed.

Lemma num8_inj_near i r : i < r + 8 -> r < i + 8 -> num8 i = num8 r -> i = r.
Proof. unfold num8. lia. Qed.

Lemma num8_mod i r : num8 i = num8 r -> i mod 8 = r mod 8.
Proof. unfold num8. lia. Qed.

Lemma ack_decode b a : b <= a -> a <= b + 7 -> (N.to_nat (num8 a) + 8 - b mod 8) mod 8 = a - b.
Proof. unfold num8. lia. Qed.

Lemma host_ack_match a b : b <= a -> a <= b + 1 -> ((num8 a + 7) mod 8)%N = num8 b -> a = b + 1.
Proof. unfold num8. lia. Qed.

(* ================================================================================================ *)
(* (2) ghosts: what the proof knows about a frame in flight                                          *)
(* ================================================================================================ *)
Record gh := {
  ga : nat;                       (* the sender's receive counter when the frame was written *)
  gd : option (nat * nat)         (* DATA only: (sender's base then, absolute index) *)
}.
Definition dgs (l : list gh) : list (nat * nat) :=
  flat_map (fun g => match gd g with Some x => [x] | None => [] end) l.
Definition ags (l : list gh) : list nat := map ga l.

Lemma dgs_app a b : dgs (a ++ b) = dgs a ++ dgs b.
Proof. unfold dgs. apply flat_map_app. Qed.
Lemma ags_app a b : ags (a ++ b) = ags a ++ ags b.
Proof. unfold ags. apply map_app. Qed.

(* frame f is what ghost g says, [sent] being the payloads its sender has been given *)
Definition fr_ok (sent : list (list N)) (f : frame) (g : gh) : Prop :=
  match f with
  | Data frm re ack p =>
      ack = num8 (ga g) /\ exists b i, gd g = Some (b, i) /\ frm = num8 i /\ nth_error sent i = Some p
  | Ack _ _ ack | Nak _ _ ack => ack = num8 (ga g) /\ gd g = None
  | _ => False
  end.

Lemma fr_ok_app S S' f g : fr_ok S f g -> fr_ok (S ++ S') f g.
Proof.
  destruct f as [frm re ack p|a b c|a b c| |v c|v c]; cbn [fr_ok]; try (intro H; exact H).
  intros (H1 & b & i & H2 & H3 & H4). split; [exact H1|]. exists b, i. split; [exact H2|]. split; [exact H3|].
  rewrite nth_error_app1; [exact H4|]. apply nth_error_Some. rewrite H4. discriminate.
Qed.

Lemma frs_ok_app S S' q gq : Forall2 (fr_ok S) q gq -> Forall2 (fr_ok (S ++ S')) q gq.
Proof. induction 1; constructor; [apply fr_ok_app; assumption|assumption]. Qed.

Lemma frs_ok_dup S f q g gq : Forall2 (fr_ok S) (f :: q) (g :: gq) -> Forall2 (fr_ok S) (f :: f :: q) (g :: g :: gq).
Proof. intro H. inversion H; subst. constructor; [assumption|exact H]. Qed.

Lemma frs_ok_snoc S q gq f g : Forall2 (fr_ok S) q gq -> fr_ok S f g -> Forall2 (fr_ok S) (q ++ [f]) (gq ++ [g]).
Proof. intros H1 H2. apply Forall2_app; [exact H1|constructor; [exact H2|constructor]]. Qed.

(* ================================================================================================ *)
(* (3) the host, one event at a time                                                                 *)
(* ================================================================================================ *)
Lemma wire_app a b : wire (a ++ b) = wire a ++ wire b.
Proof. unfold wire. apply flat_map_app. Qed.
Lemma first_tx_app a b : first_tx (a ++ b) = first_tx a ++ first_tx b.
Proof. unfold first_tx. apply flat_map_app. Qed.
Lemma ups_of_app a b : ups_of (a ++ b) = ups_of a ++ ups_of b.
Proof. unfold ups_of. apply flat_map_app. Qed.
Lemma oks_app a b : oks (a ++ b) = oks a ++ oks b.
Proof. unfold oks. apply flat_map_app. Qed.

(* outputs with nothing on the wire and nothing handed up *)
Definition nw (out : list hout) : Prop := wire out = [] /\ first_tx out = [] /\ ups_of out = [].

Lemma nw_nil : nw [].
Proof. repeat split. Qed.
Lemma nw_app a b : nw a -> nw b -> nw (a ++ b).
Proof.
  intros (A1 & A2 & A3) (B1 & B2 & B3). unfold nw.
  rewrite wire_app, first_tx_app, ups_of_app, A1, A2, A3, B1, B2, B3. repeat split.
Qed.
Lemma nw_alldone l : alldone l -> nw l.
Proof.
  induction l as [|x l IH]; intro Hl; [exact nw_nil|].
  destruct (Hl x (or_introl eq_refl)) as (i & E). subst x.
  change (HDone i (OFailure ERROR_EXCEEDED_MAXIMUM_ACK_TIMEOUT_COUNT) :: l)
    with ([HDone i (OFailure ERROR_EXCEEDED_MAXIMUM_ACK_TIMEOUT_COUNT)] ++ l).
  apply nw_app; [repeat split|]. apply IH. intros o Ho. apply Hl. right. exact Ho.
Qed.
Lemma nw_done_out st id o : nw (done_out st id o).
Proof. destruct (done_out_cases st id o) as [[E _]|[E _]]; rewrite E; repeat split. Qed.
Lemma oks_alldone l : alldone l -> oks l = [].
Proof.
  induction l as [|x l IH]; intro Hl; [reflexivity|].
  destruct (Hl x (or_introl eq_refl)) as (i & E). subst x. cbn. apply IH.
  intros o Ho. apply Hl. right. exact Ho.
Qed.
Lemma oks_done_out st id o x : In x (oks (done_out st id o)) -> x = id /\ o = OOk.
Proof.
  destruct (done_out_cases st id o) as [[E _]|[E _]]; rewrite E; cbn; [intros []|].
  destruct o; cbn; try (intros Hf; exact (False_ind _ Hf)).
  intros [Hx|Hf]; [|destruct Hf]. split; [symmetry; exact Hx|reflexivity].
Qed.
Lemma oks_done_out_nok st id o : o <> OOk -> oks (done_out st id o) = [].
Proof.
  intro Ho. destruct (oks (done_out st id o)) as [|x l] eqn:E; [reflexivity|].
  destruct (oks_done_out st id o x) as [_ H]; [rewrite E; left; reflexivity|contradiction].
Qed.

(* the current send: (caller id, payload, frame number) *)
Definition cur_key (st : hstate) : option (N * list N * N) :=
  match cur st with Some c => Some (cid c, cpayload c, cfrm c) | None => None end.

(* what the sender half of the host does in one event.  [ackd]: the event carried the
   acknowledgement that the current send waits for; [rxn]: the acknowledgement number the host
   puts into what it writes. *)
Inductive smove (ackd : bool) (st : hstate) (rxn : N) (st' : hstate) (out : list hout) : Prop :=
| SM_none :
    tx_seq st' = tx_seq st -> failed st' = failed st -> waiters st' = waiters st ->
    cur_key st' = cur_key st -> nw out -> oks out = [] -> smove ackd st rxn st' out
| SM_retx : forall id p frm t,
    cur_key st = Some (id, p, frm) ->
    tx_seq st' = tx_seq st -> failed st' = false -> waiters st' = waiters st ->
    cur_key st' = cur_key st -> out = [HData id frm 1 rxn p t] -> smove ackd st rxn st' out
| SM_fail :
    cur_key st <> None ->
    tx_seq st' = tx_seq st -> failed st' = true -> waiters st' = [] -> cur_key st' = None ->
    nw out -> oks out = [] -> smove ackd st rxn st' out
| SM_ack_idle : forall id p frm,
    ackd = true -> cur_key st = Some (id, p, frm) -> waiters st = [] ->
    tx_seq st' = tx_seq st -> failed st' = false -> waiters st' = [] -> cur_key st' = None ->
    nw out -> (forall x, In x (oks out) -> x = id) -> smove ackd st rxn st' out
| SM_ack_next : forall id p frm id2 p2 ws pre t,
    ackd = true -> cur_key st = Some (id, p, frm) -> waiters st = (id2, p2) :: ws ->
    tx_seq st' = ((tx_seq st + 1) mod 8)%N -> failed st' = false -> waiters st' = ws ->
    cur_key st' = Some (id2, p2, tx_seq st) ->
    out = pre ++ [HData id2 (tx_seq st) 0 rxn p2 t] -> nw pre ->
    (forall x, In x (oks pre) -> x = id) -> smove ackd st rxn st' out.

(* a NAK or a timeout: retransmit, or give up for good *)
Lemma retry_smove ackd st st1 c o rxn :
  cur_key st = Some (cid c, cpayload c, cfrm c) -> tx_seq st1 = tx_seq st -> failed st1 = false ->
  waiters st1 = waiters st -> rx_seq st1 = rxn -> o <> OOk ->
  smove ackd st rxn (fst (retry_or_fail st1 c o)) (snd (retry_or_fail st1 c o))
  /\ rx_seq (fst (retry_or_fail st1 c o)) = rxn.
Proof.
  intros Hk Htx Hf Hw Hrx Ho. rewrite retry_or_fail_eq.
  destruct ((ACK_TIMEOUTS - 1 <=? cattempt c)%N).
  - destruct (close_cases (set_failed st1 true)
                (HReset ERROR_EXCEEDED_MAXIMUM_ACK_TIMEOUT_COUNT :: done_out st1 (cid c) o))
      as [(oF & HoF & Heq & _)|(id & p & ws & Hf' & _)]; [|discriminate Hf'].
    rewrite Heq. cbn [fst snd flushed set_failed tx_seq rx_seq failed waiters]. split; [|exact Hrx].
    apply SM_fail; cbn [flushed set_failed tx_seq failed waiters]; try reflexivity.
    + rewrite Hk. discriminate.
    + exact Htx.
    + change (HReset ERROR_EXCEEDED_MAXIMUM_ACK_TIMEOUT_COUNT :: done_out st1 (cid c) o)
        with ([HReset ERROR_EXCEEDED_MAXIMUM_ACK_TIMEOUT_COUNT] ++ done_out st1 (cid c) o).
      apply nw_app; [apply nw_app; [repeat split|apply nw_done_out]|apply nw_alldone; exact HoF].
    + cbn [app]. change (oks (HReset ERROR_EXCEEDED_MAXIMUM_ACK_TIMEOUT_COUNT :: ?l)) with (oks l).
      rewrite oks_app, (oks_done_out_nok _ _ _ Ho), (oks_alldone _ HoF). reflexivity.
  - rewrite Hf. unfold transmit. cbn [fst snd rx_seq]. split; [|exact Hrx].
    rewrite succ_neq0. apply (SM_retx ackd st rxn _ _ (cid c) (cpayload c) (cfrm c) (now st1)).
    + exact Hk.
    + exact Htx.
    + exact Hf.
    + exact Hw.
    + rewrite Hk. reflexivity.
    + rewrite Hrx. reflexivity.
Qed.

(* the acknowledgement arrived: report, release the semaphore, start the next queued send *)
Lemma acked_smove st s1 c rxn :
  cur_key st = Some (cid c, cpayload c, cfrm c) -> tx_seq s1 = tx_seq st -> failed s1 = false ->
  waiters s1 = waiters st -> rx_seq s1 = rxn ->
  smove true st rxn (fst (close s1 (done_out s1 (cid c) OOk))) (snd (close s1 (done_out s1 (cid c) OOk)))
  /\ rx_seq (fst (close s1 (done_out s1 (cid c) OOk))) = rxn.
Proof.
  intros Hk Htx Hf Hw Hrx.
  destruct (close_cases s1 (done_out s1 (cid c) OOk))
    as [(oF & HoF & Heq & Hc)|(id & p & ws & Hf' & Hw' & Heq)]; rewrite Heq; cbn [fst snd].
  - destruct Hc as [Hc|Hc]; [congruence|]. split; [|exact Hrx].
    apply (SM_ack_idle true st rxn _ _ (cid c) (cpayload c) (cfrm c)); cbn [flushed tx_seq failed waiters];
      try reflexivity; try assumption.
    + congruence.
    + apply nw_app; [apply nw_done_out|apply nw_alldone; exact HoF].
    + intros x Hx. rewrite oks_app, (oks_alldone _ HoF), app_nil_r in Hx.
      apply oks_done_out in Hx. apply Hx.
  - split; [|exact Hrx].
    apply (SM_ack_next true st rxn _ _ (cid c) (cpayload c) (cfrm c) id p ws (done_out s1 (cid c) OOk) (now s1));
      cbn [started tx_seq failed waiters]; try reflexivity; try assumption.
    + congruence.
    + rewrite Htx. reflexivity.
    + unfold cur_key. cbn [started cur cid cpayload cfrm]. rewrite Htx. reflexivity.
    + rewrite Htx, Hrx. reflexivity.
    + apply nw_done_out.
    + intros x Hx. apply oks_done_out in Hx. apply Hx.
Qed.

(* ---- the events other than a read ---------------------------------------------------------------- *)
Lemma ginv_cur_some st c : GInv st -> cur st = Some c -> cfut c = FPending /\ failed st = false.
Proof.
  intros (Hq & _ & Hf) Hc. split; [exact (Hq c Hc)|].
  destruct (failed st); [|reflexivity]. rewrite (Hf eq_refl) in Hc. discriminate.
Qed.

Lemma cur_key_some st c : cur st = Some c -> cur_key st = Some (cid c, cpayload c, cfrm c).
Proof. intro H. unfold cur_key. rewrite H. reflexivity. Qed.

Lemma tick_smove st : GInv st ->
  smove false st (rx_seq st) (fst (host_step st Tick)) (snd (host_step st Tick))
  /\ rx_seq (fst (host_step st Tick)) = rx_seq st.
Proof.
  intro HG. cbn [host_step]. destruct (cur st) as [c|] eqn:Hc.
  - destruct (ginv_cur_some st c HG Hc) as [Hp Hf]. rewrite Hp.
    apply retry_smove; try reflexivity.
    + apply cur_key_some. exact Hc.
    + exact Hf.
    + discriminate.
  - cbn [fst snd]. split; [|reflexivity]. apply SM_none; try reflexivity. exact nw_nil.
Qed.

Lemma wait_smove st t :
  smove false st (rx_seq st) (fst (host_step st (WaitTo t))) (snd (host_step st (WaitTo t)))
  /\ rx_seq (fst (host_step st (WaitTo t))) = rx_seq st.
Proof.
  destruct (step_wait_cases st t) as [Eo [Es|Es]]; rewrite Eo, Es; (split; [|reflexivity]);
    apply SM_none; try reflexivity; exact nw_nil.
Qed.

Lemma cancel_smove st id :
  smove false st (rx_seq st) (fst (host_step st (CancelCaller id))) (snd (host_step st (CancelCaller id)))
  /\ rx_seq (fst (host_step st (CancelCaller id))) = rx_seq st.
Proof.
  destruct (step_cancel_cases st id) as [E|E]; rewrite E; cbn [fst snd]; (split; [|reflexivity]);
    apply SM_none; try reflexivity; exact nw_nil.
Qed.

(* a caller arrives: queued behind the current send, refused at once, or transmitted *)
Lemma submit_cases st id p : GInv st ->
  let r := host_step st (Submit id p) in
  rx_seq (fst r) = rx_seq st /\
  ((cur st <> None /\ tx_seq (fst r) = tx_seq st /\ failed (fst r) = failed st /\
    waiters (fst r) = waiters st ++ [(id, p)] /\ cur_key (fst r) = cur_key st /\ snd r = [])
   \/ (cur st = None /\ failed st = true /\ tx_seq (fst r) = tx_seq st /\ failed (fst r) = true /\
       waiters (fst r) = [] /\ cur_key (fst r) = None /\ nw (snd r) /\ oks (snd r) = [])
   \/ (cur st = None /\ failed st = false /\ tx_seq (fst r) = ((tx_seq st + 1) mod 8)%N /\
       failed (fst r) = false /\ waiters (fst r) = [] /\ cur_key (fst r) = Some (id, p, tx_seq st) /\
       exists t, snd r = [HData id (tx_seq st) 0 (rx_seq st) p t])).
Proof.
  intros HG r. subst r. rewrite step_submit_eq. destruct (cur st) as [c|] eqn:Hc.
  - cbn [fst snd queued rx_seq]. split; [reflexivity|]. left.
    split; [discriminate|]. unfold cur_key. cbn [queued tx_seq failed waiters cur]. rewrite Hc.
    repeat split.
  - destruct (sn_cases (submitted st id p) eq_refl)
      as [(oF & HoF & Heq & Hw)|(id' & p' & ws & Hf' & Hw' & Heq)]; rewrite Heq; cbn [fst snd].
    + destruct Hw as [Hw|Hw]; [|discriminate Hw]. cbn [submitted failed] in Hw.
      split; [reflexivity|]. right; left. cbn [flushed submitted tx_seq failed waiters].
      split; [reflexivity|]. split; [exact Hw|]. split; [reflexivity|]. split; [exact Hw|].
      split; [reflexivity|]. split; [reflexivity|]. split; [apply nw_alldone; exact HoF|apply oks_alldone; exact HoF].
    + cbn [submitted failed waiters] in Hf', Hw'. injection Hw' as E1 E2 E3. subst id' p' ws.
      split; [reflexivity|]. right; right. cbn [started submitted tx_seq rx_seq failed waiters now].
      split; [reflexivity|]. split; [exact Hf'|]. split; [reflexivity|]. split; [reflexivity|].
      split; [reflexivity|]. split; [reflexivity|]. eexists. reflexivity.
Qed.

(* ---- a read of one DATA / ACK / NAK frame -------------------------------------------------------- *)
Definition f_ack (f : frame) : option N :=
  match f with Data _ _ a _ | Ack _ _ a | Nak _ _ a => Some a | _ => None end.
Definition f_nak (f : frame) : bool := match f with Nak _ _ _ => true | _ => false end.

Definition ackd (st : hstate) (a : N) : bool :=
  match cur st with Some c => ((a + 7) mod 8 =? cfrm c)%N | None => false end.

Lemma core_fields st f a : f_ack f = Some a ->
  tx_seq (core st f) = tx_seq st /\ failed (core st f) = failed st /\ waiters (core st f) = waiters st
  /\ (cur st = None -> cur (core st f) = None)
  /\ (forall c, cur st = Some c -> cfut c = FPending ->
        cur (core st f) = Some (set_fut c (if ((a + 7) mod 8 =? cfrm c)%N then FAcked
                                           else if f_nak f then FNaked else FPending))).
Proof.
  intro Hf.
  destruct f as [frm re a0 p|res nr a0|res nr a0| |v code|v code]; cbn [f_ack] in Hf; try discriminate;
    injection Hf as Hf; subst a0; cbn [core f_nak].
  - destruct (handle_ack_misc st a) as (H1 & H2 & _ & _ & H5 & _ & H7).
    split; [exact H1|]. split; [exact H2|]. split; [exact H5|]. split; [exact H7|].
    intros c Hc Hp. rewrite (handle_ack_cur st c a Hc), Hp.
    destruct ((a + 7) mod 8 =? cfrm c)%N; reflexivity.
  - destruct (handle_ack_misc st a) as (H1 & H2 & _ & _ & H5 & _ & H7).
    split; [exact H1|]. split; [exact H2|]. split; [exact H5|]. split; [exact H7|].
    intros c Hc Hp. rewrite (handle_ack_cur st c a Hc), Hp.
    destruct ((a + 7) mod 8 =? cfrm c)%N; reflexivity.
  - destruct (handle_ack_misc st a) as (H1 & H2 & _ & _ & H5 & _ & H7).
    destruct (resolve_misc (handle_ack st a) FNaked) as (K1 & K2 & _ & _ & K5 & _ & K7).
    split; [congruence|]. split; [congruence|]. split; [congruence|].
    split; [intro Hn; apply K7; apply H7; exact Hn|].
    intros c Hc Hp. rewrite (resolve_cur _ _ FNaked (handle_ack_cur st c a Hc)).
    cbn [set_fut cfut cid cpayload cfrm cattempt csent cdeadline]. rewrite Hp.
    destruct ((a + 7) mod 8 =? cfrm c)%N; reflexivity.
Qed.

Lemma frame_smove st f a : GInv st -> f_ack f = Some a ->
  let r := host_step st (Frames [f]) in
  let rr := rx_frame (rx_seq st) f in
  exists out2, snd r = flat_map out_of_rx (snd rr) ++ out2 /\ rx_seq (fst r) = fst rr /\
               smove (ackd st a) st (fst rr) (fst r) out2.
Proof.
  intros HG Hfa r rr. subst r rr. rewrite step_frames_eq, apply_frames_cons.
  cbn [apply_frames fst snd]. rewrite app_nil_r, apply_frame_eq. cbn [fst snd].
  set (rx' := fst (rx_frame (rx_seq st) f)).
  set (s1 := set_rx (core st f) rx').
  destruct (core_fields st f a Hfa) as (Ktx & Kf & Kw & Kn & Kc).
  assert (S1tx : tx_seq s1 = tx_seq st) by exact Ktx.
  assert (S1f : failed s1 = failed st) by exact Kf.
  assert (S1w : waiters s1 = waiters st) by exact Kw.
  assert (S1rx : rx_seq s1 = rx') by reflexivity.
  exists (snd (settle s1)). split; [reflexivity|].
  rewrite settle_eq. unfold ackd.
  destruct (cur st) as [c|] eqn:Hc.
  - destruct (ginv_cur_some st c HG Hc) as [Hp Hff].
    assert (S1c : cur s1 = cur (core st f)) by reflexivity.
    rewrite S1c, (Kc c eq_refl Hp).
    assert (Hkey : forall y, cur_key st = Some (cid (set_fut c y), cpayload (set_fut c y), cfrm (set_fut c y))).
    { intro y. cbn [set_fut cid cpayload cfrm]. apply cur_key_some. exact Hc. }
    destruct ((a + 7) mod 8 =? cfrm c)%N.
    + cbn [cfut set_fut].
      set (s2 := set_t s1 (on_ack_time (t_ack s1) (PrimFloat.sub (now s1) (csent c)))).
      change (done_out s1 (cid c) OOk) with (done_out s2 (cid (set_fut c FAcked)) OOk).
      destruct (acked_smove st s2 (set_fut c FAcked) rx' (Hkey FAcked)) as [Hm Hr];
        try assumption; try reflexivity.
      * cbn [s2 set_t failed]. rewrite S1f. exact Hff.
      * split; [exact Hr|exact Hm].
    + destruct (f_nak f); cbn [cfut set_fut].
      * set (s2 := set_t s1 (on_ack_time (t_ack s1) (PrimFloat.sub (now s1) (csent c)))).
        destruct (retry_smove false st s2 (set_fut c FNaked) ONotAcked rx' (Hkey FNaked)) as [Hm Hr];
          try assumption; try reflexivity; try discriminate.
        -- cbn [s2 set_t failed]. rewrite S1f. exact Hff.
        -- split; [exact Hr|exact Hm].
      * cbn [fst snd]. split; [reflexivity|]. apply SM_none; try assumption.
        -- unfold cur_key. rewrite S1c, (Kc c eq_refl Hp), Hc.
           destruct ((a + 7) mod 8 =? cfrm c)%N; destruct (f_nak f); reflexivity.
        -- exact nw_nil.
        -- reflexivity.
  - assert (S1c : cur s1 = None) by (apply Kn; reflexivity). rewrite S1c. cbn [fst snd].
    split; [reflexivity|]. apply SM_none; try assumption.
    + unfold cur_key. rewrite S1c, Hc. reflexivity.
    + exact nw_nil.
    + reflexivity.
Qed.

(* ================================================================================================ *)
(* (4) the system invariant                                                                          *)
(* ================================================================================================ *)
(* order-preserving sub-sequence *)
Inductive subseq {A} : list A -> list A -> Prop :=
| ss_nil : subseq [] []
| ss_skip x l1 l2 : subseq l1 l2 -> subseq l1 (x :: l2)
| ss_take x l1 l2 : subseq l1 l2 -> subseq (x :: l1) (x :: l2).

Lemma subseq_nil_l {A} (l : list A) : subseq [] l.
Proof. induction l; [apply ss_nil|apply ss_skip; assumption]. Qed.
Lemma subseq_refl {A} (l : list A) : subseq l l.
Proof. induction l; [apply ss_nil|apply ss_take; assumption]. Qed.
Lemma subseq_app {A} (a b c d : list A) : subseq a b -> subseq c d -> subseq (a ++ c) (b ++ d).
Proof. induction 1; intro H2; cbn; [exact H2|apply ss_skip; auto|apply ss_take; auto]. Qed.
Lemma subseq_app_r {A} (a b c : list A) : subseq a b -> subseq a (b ++ c).
Proof. intro H. rewrite <- (app_nil_r a). apply subseq_app; [exact H|apply subseq_nil_l]. Qed.
Lemma subseq_snoc {A} (a b : list A) x : subseq a b -> subseq (a ++ [x]) (b ++ [x]).
Proof. intro H. apply subseq_app; [exact H|apply subseq_refl]. Qed.
Lemma subseq_map {A B} (f : A -> B) a b : subseq a b -> subseq (map f a) (map f b).
Proof. induction 1; cbn; [apply ss_nil|apply ss_skip; assumption|apply ss_take; assumption]. Qed.
Lemma subseq_In {A} (a b : list A) x : subseq a b -> In x a -> In x b.
Proof.
  induction 1 as [|y l1 l2 H IH|y l1 l2 H IH]; intro Hin; [exact Hin|right; auto|].
  destruct Hin as [E|Hin]; [left; exact E|right; auto].
Qed.
Lemma subseq_NoDup {A} (a b : list A) : subseq a b -> NoDup b -> NoDup a.
Proof.
  induction 1 as [|y l1 l2 H IH|y l1 l2 H IH]; intro Hnd; [exact Hnd| |];
    inversion Hnd as [|? ? Hy Hl]; subst; [auto|].
  constructor; [|auto]. intro Hin. apply Hy. eapply subseq_In; eassumption.
Qed.
Lemma subseq_firstn {A} (l : list A) n : subseq (firstn n l) l.
Proof.
  revert n. induction l as [|x l IH]; intros [|n]; cbn.
  - apply ss_nil.
  - apply ss_nil.
  - apply subseq_nil_l.
  - apply ss_take. apply IH.
Qed.

(* the host's sender half against the abstract window [hb, length ftx) of width <= 1:
   ftx = sends first-transmitted so far, subs = sends submitted so far, okl = sends reported done *)
Record HL (st : hstate) (hb : nat) (ftx subs : list (N * list N)) (okl : list N) : Prop := {
  hl_tx : tx_seq st = num8 (length ftx);
  hl_cur : match cur_key st with
           | Some (id, p, frm) =>
               length ftx = hb + 1 /\ frm = num8 hb /\ failed st = false /\ nth_error ftx hb = Some (id, p)
           | None => waiters st = [] /\ (failed st = false -> length ftx = hb)
           end;
  hl_sub : exists A, subs = A ++ waiters st /\ subseq ftx A;
  hl_ok : forall id, In id okl -> In id (map fst (firstn hb ftx))
}.

Lemma in_firstn_S {A} (l : list A) n x : In x (firstn n l) -> In x (firstn (S n) l).
Proof.
  revert n. induction l as [|y l IH]; intros [|n]; cbn [firstn]; intro Hin; try (destruct Hin; fail).
  destruct Hin as [E|Hin]; [left; exact E|right; apply IH; exact Hin].
Qed.

Lemma firstn_app_exact {A} (l l' : list A) n : length l = n -> firstn n (l ++ l') = firstn n l.
Proof. intro E. rewrite firstn_app. replace (n - length l) with 0 by lia. cbn. apply app_nil_r. Qed.

Lemma dgs_snoc_none gl a : dgs (gl ++ [{| ga := a; gd := None |}]) = dgs gl.
Proof. rewrite dgs_app. cbn. apply app_nil_r. Qed.
Lemma dgs_snoc_some gl a x : dgs (gl ++ [{| ga := a; gd := Some x |}]) = dgs gl ++ [x].
Proof. rewrite dgs_app. reflexivity. Qed.
Lemma ags_snoc gl g : ags (gl ++ [g]) = ags gl ++ [ga g].
Proof. rewrite ags_app. reflexivity. Qed.

(* the host starts the next send: first transmission of frame number length ftx *)
Lemma start_piece hb ftx nr nupl g1 ag2 q1 id2 p2 frm rxn hr t :
  length ftx = hb -> frm = num8 (length ftx) -> rxn = num8 hr ->
  Dir 1 hb (length ftx) nr (map snd ftx) nupl (dgs g1) ag2 ->
  Forall2 (fr_ok (map snd ftx)) q1 g1 ->
  let g := {| ga := hr; gd := Some (hb, hb) |} in
  let ftx' := ftx ++ first_tx [HData id2 frm 0 rxn p2 t] in
  Dir 1 hb (length ftx') nr (map snd ftx') nupl (dgs (g1 ++ [g])) ag2 /\
  Forall2 (fr_ok (map snd ftx')) (q1 ++ wire [HData id2 frm 0 rxn p2 t]) (g1 ++ [g]) /\
  nth_error ftx' hb = Some (id2, p2) /\ length ftx' = hb + 1.
Proof.
  intros Hlen Hfrm Hrxn D2 F2 g ftx'. subst g ftx'. cbn [first_tx wire flat_map wire_of app N.eqb].
  rewrite dgs_snoc_some, map_app, app_length. cbn [map snd length].
  split; [|split; [|split]].
  - apply (dir_sent_app _ _ _ _ _ _ _ _ _ [p2]) in D2.
    apply (dir_send _ _ _ _ _ _ _ _ _ hb) in D2; try lia.
    + replace (length ftx + 1) with (Nat.max (length ftx) (S hb)) by lia. exact D2.
    + rewrite app_length, map_length. cbn. lia.
  - apply frs_ok_snoc; [apply frs_ok_app; exact F2|]. cbn [fr_ok ga gd]. split; [exact Hrxn|].
    exists hb, hb. split; [reflexivity|]. split; [rewrite Hfrm, Hlen; reflexivity|].
    rewrite nth_error_app2; rewrite map_length; [|lia]. replace (hb - length ftx) with 0 by lia. reflexivity.
  - rewrite nth_error_app2 by lia. replace (hb - length ftx) with 0 by lia. reflexivity.
  - lia.
Qed.

Lemma inv_smove K akd st rxn st' out2 hb ftx subs okl nb nn hr nsub hupl dg2 g1 nr nupl ag2 q1 :
  HL st hb ftx subs okl ->
  Dir K nb nn hr nsub hupl dg2 (ags g1) ->
  Dir 1 hb (length ftx) nr (map snd ftx) nupl (dgs g1) ag2 ->
  Forall2 (fr_ok (map snd ftx)) q1 g1 ->
  rxn = num8 hr ->
  smove akd st rxn st' out2 ->
  (akd = true -> hb + 1 <= nr /\ Forall (fun x => hb + 1 <= x) ag2) ->
  exists g1' hb',
    HL st' hb' (ftx ++ first_tx out2) subs (okl ++ oks out2) /\
    Dir K nb nn hr nsub hupl dg2 (ags g1') /\
    Dir 1 hb' (length (ftx ++ first_tx out2)) nr (map snd (ftx ++ first_tx out2)) nupl (dgs g1') ag2 /\
    Forall2 (fr_ok (map snd (ftx ++ first_tx out2))) (q1 ++ wire out2) g1' /\
    ups_of out2 = [].
Proof.
  intros [Htx0 Hcur0 Hsub0 Hok0] D1 D2 F2 Hrxn M Hak.
  destruct M as [Htx Hf Hw Hk (Hn1 & Hn2 & Hn3) Hok
                |id p frm t Hk0 Htx Hf Hw Hk Hout
                |Hk0 Htx Hf Hw Hk (Hn1 & Hn2 & Hn3) Hok
                |id p frm Ha Hk0 Hw0 Htx Hf Hw Hk (Hn1 & Hn2 & Hn3) Hok
                |id p frm id2 p2 ws pre t Ha Hk0 Hw0 Htx Hf Hw Hk Hout (Hn1 & Hn2 & Hn3) Hok].
  - (* nothing *)
    exists g1, hb. rewrite Hn1, Hn2, Hok, !app_nil_r.
    split; [|split; [exact D1|split; [exact D2|split; [exact F2|exact Hn3]]]].
    constructor.
    + rewrite Htx. exact Htx0.
    + rewrite Hk, Hf, Hw. exact Hcur0.
    + rewrite Hw. exact Hsub0.
    + exact Hok0.
  - (* a retransmission of frame hb *)
    subst out2. rewrite Hk0 in Hcur0. destruct Hcur0 as (Hlen & Hfrm & Hff & Hnth).
    exists (g1 ++ [{| ga := hr; gd := Some (hb, hb) |}]), hb.
    cbn [first_tx wire oks ups_of flat_map wire_of app N.eqb]. rewrite !app_nil_r.
    split; [|split; [|split; [|split; [|reflexivity]]]].
    + constructor.
      * rewrite Htx. exact Htx0.
      * rewrite Hk, Hk0. split; [exact Hlen|]. split; [exact Hfrm|]. split; [exact Hf|exact Hnth].
      * rewrite Hw. exact Hsub0.
      * exact Hok0.
    + rewrite ags_snoc. cbn [ga]. apply dir_ack_snoc. exact D1.
    + rewrite dgs_snoc_some.
      apply (dir_send _ _ _ _ _ _ _ _ _ hb) in D2; try lia.
      * replace (Nat.max (length ftx) (S hb)) with (length ftx) in D2 by lia. exact D2.
      * rewrite map_length. lia.
    + apply frs_ok_snoc; [exact F2|]. cbn [fr_ok ga gd]. split; [exact Hrxn|].
      exists hb, hb. split; [reflexivity|]. split; [exact Hfrm|].
      apply (map_nth_error snd) in Hnth. exact Hnth.
  - (* the link has failed *)
    exists g1, hb. rewrite Hn1, Hn2, Hok, !app_nil_r.
    split; [|split; [exact D1|split; [exact D2|split; [exact F2|exact Hn3]]]].
    constructor.
    + rewrite Htx. exact Htx0.
    + rewrite Hk. split; [exact Hw|]. intro H. congruence.
    + rewrite Hw, app_nil_r. destruct Hsub0 as (A & HA & Hss). exists (A ++ waiters st).
      split; [exact HA|apply subseq_app_r; exact Hss].
    + exact Hok0.
  - (* acknowledged, nothing queued *)
    destruct (Hak Ha) as [Hnr Hag]. rewrite Hk0 in Hcur0. destruct Hcur0 as (Hlen & Hfrm & Hff & Hnth).
    exists g1, (hb + 1). rewrite Hn1, Hn2, !app_nil_r.
    split; [|split; [exact D1|split; [|split; [exact F2|exact Hn3]]]].
    + constructor.
      * rewrite Htx. exact Htx0.
      * rewrite Hk. split; [exact Hw|]. intros _. exact Hlen.
      * rewrite Hw, <- Hw0. exact Hsub0.
      * intros x Hx. apply in_app_or in Hx. replace (hb + 1) with (S hb) by lia.
        destruct Hx as [Hx|Hx]; [rewrite firstn_map in *|].
        -- apply in_map_iff. apply Hok0 in Hx. apply in_map_iff in Hx. destruct Hx as (y & Hy & Hin).
           exists y. split; [exact Hy|apply in_firstn_S; exact Hin].
        -- apply Hok in Hx. subst x. rewrite (firstn_S_nth_error _ _ _ Hnth), map_app.
           apply in_or_app. right. left. reflexivity.
    + apply (dir_base_up _ _ hb); [exact D2|lia|exact Hnr|exact Hag].
  - (* acknowledged, the next queued send starts *)
    destruct (Hak Ha) as [Hnr Hag]. rewrite Hk0 in Hcur0. destruct Hcur0 as (Hlen & Hfrm & Hff & Hnth).
    subst out2. rewrite first_tx_app, wire_app, oks_app, ups_of_app, Hn1, Hn2, Hn3. cbn [app].
    assert (D2' : Dir 1 (hb + 1) (length ftx) nr (map snd ftx) nupl (dgs g1) ag2).
    { apply (dir_base_up _ _ hb); [exact D2|lia|exact Hnr|exact Hag]. }
    destruct (start_piece (hb + 1) ftx nr nupl g1 ag2 q1 id2 p2 (tx_seq st) rxn hr t Hlen Htx0 Hrxn D2' F2)
      as (E1 & E2 & E3 & E4).
    exists (g1 ++ [{| ga := hr; gd := Some (hb + 1, hb + 1) |}]), (hb + 1).
    split; [|split; [|split; [exact E1|split; [exact E2|reflexivity]]]].
    + constructor.
      * rewrite Htx, Htx0, num8_S. f_equal. cbn [first_tx flat_map N.eqb app]. rewrite app_length. cbn. lia.
      * rewrite Hk. split; [exact E4|]. split; [rewrite Htx0, Hlen; reflexivity|]. split; [exact Hf|exact E3].
      * rewrite Hw. destruct Hsub0 as (A & HA & Hss). rewrite Hw0 in HA. exists (A ++ [(id2, p2)]).
        split; [rewrite <- app_assoc; exact HA|]. cbn [first_tx flat_map N.eqb app]. apply subseq_snoc. exact Hss.
      * intros x Hx. cbn [oks flat_map app] in Hx. rewrite app_nil_r in Hx. apply in_app_or in Hx.
        cbn [first_tx flat_map N.eqb app]. rewrite (firstn_app_exact _ _ _ Hlen).
        replace (hb + 1) with (S hb) by lia.
        destruct Hx as [Hx|Hx].
        -- rewrite firstn_map in *. apply in_map_iff. apply Hok0 in Hx. apply in_map_iff in Hx.
           destruct Hx as (y & Hy & Hin). exists y. split; [exact Hy|apply in_firstn_S; exact Hin].
        -- apply Hok in Hx. subst x. rewrite (firstn_S_nth_error _ _ _ Hnth), map_app.
           apply in_or_app. right. left. reflexivity.
    + rewrite ags_snoc. cbn [ga]. apply dir_ack_snoc. exact D1.
Qed.
