(* C01 -- proofs about the composed system of model/AshLink.v.  Statements are restated in
   props/C01.v.

   Structure:
   (1) [Dir]: the abstract one-direction sliding-window invariant (3-bit numbers, window W <= 7,
       FIFO queues with loss and duplication), given as a contract: any sender / receiver / line
       whose moves are among the lemmas dir_* preserves it.  It yields
       "delivered = firstn r sent".
   (2) ghosts: the absolute indices of the frames in flight, as lists parallel to the two queues.
   (3) the host as the receiver of one direction (rx_frame) and the window-1 sender of the other
       (handle_ack / settle / retry_or_fail): precise one-step descriptions [smove].
   (4) the system invariant [Inv] and its preservation by every label.
   (5) the theorems.
   (6) cancellation commutes with everything. *)
From Coq Require Import PrimFloat ZArith NArith List Bool Arith Lia ZifyBool ZifyN ZifyNat Sorted.
Import ListNotations.
Require Import BV.gen.GenAsh BV.model.AshCodec BV.model.AshRx BV.model.AshHost BV.model.AshLink.
Require Import BV.proofs.AshHost_proofs.
Local Open Scope nat_scope.
Ltac Zify.zify_post_hook ::= Z.to_euclidean_division_equations.

(* ================================================================================================ *)
(* (1) one direction, abstractly                                                                     *)
(* ================================================================================================ *)
Section DIR.
Variable P : Type.

Definition gsorted (q : list (nat * nat)) := StronglySorted (fun x y => fst x <= fst y) q.
Definition asorted (q : list nat) := StronglySorted le q.

(* a DATA frame in flight: (sender's base when it was sent, absolute index) *)
Definition dq_ok (W base next r : nat) (f : nat * nat) : Prop :=
  fst f <= snd f /\ snd f < fst f + W /\ snd f < next /\ fst f <= base /\ r <= fst f + W.

Record Dir (W base next r : nat) (sent deliv : list P) (dg : list (nat * nat)) (ag : list nat) : Prop := {
  d_br : base <= r;
  d_rn : r <= next;
  d_nb : next <= base + W;
  d_len : next <= length sent;
  d_dq : Forall (dq_ok W base next r) dg;
  d_ds : gsorted dg;
  d_aq : Forall (fun a => base <= a /\ a <= r) ag;
  d_as : asorted ag;
  d_del : deliv = firstn r sent
}.

Lemma ssorted_snoc {A} (R : A -> A -> Prop) q x :
  StronglySorted R q -> Forall (fun y => R y x) q -> StronglySorted R (q ++ [x]).
Proof.
  induction 1 as [|a q Hs IH Ha]; intros Hq; cbn.
  - repeat constructor.
  - inversion Hq; subst. constructor; [apply IH; assumption|].
    apply Forall_app; split; [assumption| constructor; [assumption|constructor]].
Qed.

Lemma dir_init W : Dir W 0 0 0 [] [] [] [].
Proof. constructor; cbn; try lia; try constructor. Qed.

(* the sender's upper layer submits more *)
Lemma dir_sent_app W b n r S D dg ag S' :
  Dir W b n r S D dg ag -> Dir W b n r (S ++ S') D dg ag.
Proof.
  intros [Hbr Hrn Hnb Hlen Hdq Hds Haq Has Hdel]. constructor; try assumption.
  - rewrite app_length. lia.
  - rewrite firstn_app. replace (r - length S) with 0 by lia. cbn. rewrite app_nil_r. exact Hdel.
Qed.

(* the sender (re)transmits frame i of its window *)
Lemma dir_send W b n r S D dg ag i :
  Dir W b n r S D dg ag -> b <= i -> i <= n -> i < b + W -> i < length S ->
  Dir W b (Nat.max n (Datatypes.S i)) r S D (dg ++ [(b, i)]) ag.
Proof.
  intros [Hbr Hrn Hnb Hlen Hdq Hds Haq Has Hdel] H1 H2 H3 H4. constructor; try assumption; try lia.
  - apply Forall_app; split.
    + eapply Forall_impl; [|exact Hdq]. unfold dq_ok. intros f Hf. lia.
    + constructor; [unfold dq_ok; cbn; lia|constructor].
  - apply ssorted_snoc; [assumption|]. eapply Forall_impl; [|exact Hdq]. unfold dq_ok; cbn; intros f Hf; lia.
Qed.

(* the line loses / duplicates the DATA frame at the head *)
Lemma dir_dtl W b n r S D x dg ag : Dir W b n r S D (x :: dg) ag -> Dir W b n r S D dg ag.
Proof.
  intros [Hbr Hrn Hnb Hlen Hdq Hds Haq Has Hdel]. constructor; try assumption.
  - inversion Hdq; assumption.
  - inversion Hds; assumption.
Qed.

Lemma dir_ddup W b n r S D x dg ag : Dir W b n r S D (x :: dg) ag -> Dir W b n r S D (x :: x :: dg) ag.
Proof.
  intros [Hbr Hrn Hnb Hlen Hdq Hds Haq Has Hdel]. constructor; try assumption.
  - inversion Hdq; subst. constructor; [assumption|constructor; assumption].
  - inversion Hds; subst. constructor; [constructor; assumption|]. constructor; [lia|assumption].
Qed.

Lemma firstn_S_nth_error {A} (l : list A) n x :
  nth_error l n = Some x -> firstn (Datatypes.S n) l = firstn n l ++ [x].
Proof.
  revert n. induction l as [|y l IH]; intros [|n] H; cbn in H; try discriminate.
  - injection H as H. subst. reflexivity.
  - cbn [firstn app]. f_equal. apply IH. exact H.
Qed.

(* the receiver accepts the head: its number equals the expected one modulo 8 *)
Lemma dir_accept W b n r S D g i dg ag p :
  W <= 7 -> Dir W b n r S D ((g, i) :: dg) ag -> i mod 8 = r mod 8 -> nth_error S i = Some p ->
  i = r /\ Dir W b n (Datatypes.S r) S (D ++ [p]) dg ag.
Proof.
  intros HW [Hbr Hrn Hnb Hlen Hdq Hds Haq Has Hdel] Hm Hp.
  inversion Hdq as [|? ? Hf Hq]; subst. unfold dq_ok in Hf; cbn in Hf.
  inversion Hds as [|? ? Hsq Hfq]; subst.
  assert (i = r) by lia. subst i. split; [reflexivity|].
  constructor; try assumption; try lia.
  - rewrite Forall_forall in *. intros f Hin. specialize (Hq f Hin). specialize (Hfq f Hin).
    unfold dq_ok in *. cbn in *. lia.
  - eapply Forall_impl; [|exact Haq]. cbn; intros; lia.
  - rewrite (firstn_S_nth_error _ _ _ Hp). reflexivity.
Qed.

(* the receiver sends an acknowledgement (on any frame) *)
Lemma dir_ack_snoc W b n r S D dg ag : Dir W b n r S D dg ag -> Dir W b n r S D dg (ag ++ [r]).
Proof.
  intros [Hbr Hrn Hnb Hlen Hdq Hds Haq Has Hdel]. constructor; try assumption.
  - apply Forall_app; split; [assumption|]. constructor; [lia|constructor].
  - apply ssorted_snoc; [assumption|]. eapply Forall_impl; [|exact Haq]. cbn; intros; lia.
Qed.

Lemma dir_atl W b n r S D dg a ag : Dir W b n r S D dg (a :: ag) -> Dir W b n r S D dg ag.
Proof.
  intros [Hbr Hrn Hnb Hlen Hdq Hds Haq Has Hdel]. constructor; try assumption.
  - inversion Haq; assumption.
  - inversion Has; assumption.
Qed.

Lemma dir_adup W b n r S D dg a ag : Dir W b n r S D dg (a :: ag) -> Dir W b n r S D dg (a :: a :: ag).
Proof.
  intros [Hbr Hrn Hnb Hlen Hdq Hds Haq Has Hdel]. constructor; try assumption.
  - inversion Haq; subst. constructor; [assumption|constructor; assumption].
  - inversion Has; subst. constructor; [constructor; assumption|]. constructor; [lia|assumption].
Qed.

(* what the head acknowledgement says *)
Lemma dir_ahead W b n r S D dg a ag : Dir W b n r S D dg (a :: ag) ->
  b <= a /\ a <= r /\ Forall (fun x => a <= x) ag.
Proof.
  intros [Hbr Hrn Hnb Hlen Hdq Hds Haq Has Hdel].
  inversion Haq as [|? ? Ha Hq]; subst. inversion Has as [|? ? Hsq Hle]; subst.
  split; [lia|]. split; [lia|exact Hle].
Qed.

(* the sender slides its window up to an acknowledgement no older than all those still in flight *)
Lemma dir_base_up W b n r S D dg ag b' :
  Dir W b n r S D dg ag -> b <= b' -> b' <= r -> Forall (fun x => b' <= x) ag ->
  Dir W b' n r S D dg ag.
Proof.
  intros [Hbr Hrn Hnb Hlen Hdq Hds Haq Has Hdel] H1 H2 H3. constructor; try assumption; try lia.
  - eapply Forall_impl; [|exact Hdq]. unfold dq_ok. intros f Hf. lia.
  - rewrite Forall_forall in *. intros x Hin. specialize (Haq x Hin). specialize (H3 x Hin). cbn in *. lia.
Qed.

(* the sender takes the head acknowledgement *)
Lemma dir_ack W b n r S D dg a ag : Dir W b n r S D dg (a :: ag) -> Dir W a n r S D dg ag.
Proof.
  intros H. destruct (dir_ahead _ _ _ _ _ _ _ _ _ H) as (H1 & H2 & H3).
  apply (dir_base_up W b); [apply (dir_atl _ _ _ _ _ _ _ a); exact H|exact H1|exact H2|exact H3].
Qed.

End DIR.

(* 3-bit arithmetic *)
Lemma num8_S i : ((num8 i + 1) mod 8)%N = num8 (S i).
Proof. unfold num8. lia. Qed.

Lemma num8_lt i : (num8 i < 8)%N.
Proof. unfold num8. lia. Qed.

Lemma num8_inj_near i r : i < r + 8 -> r < i + 8 -> num8 i = num8 r -> i = r.
Proof. unfold num8. lia. Qed.

Lemma num8_mod i r : num8 i = num8 r -> i mod 8 = r mod 8.
Proof. unfold num8. lia. Qed.

Lemma ack_decode b a : b <= a -> a <= b + 7 -> (N.to_nat (num8 a) + 8 - b mod 8) mod 8 = a - b.
Proof. unfold num8. lia. Qed.

Lemma host_ack_match a b : b <= a -> a <= b + 1 -> ((num8 a + 7) mod 8)%N = num8 b -> a = b + 1.
Proof. unfold num8. lia. Qed.

(* ================================================================================================ *)
(* (2) ghosts: what the proof knows about a frame in flight                                          *)
(* ================================================================================================ *)
Record gh := {
  ga : nat;                       (* the sender's receive counter when the frame was written *)
  gd : option (nat * nat)         (* DATA only: (sender's base then, absolute index) *)
}.
Definition dgs (l : list gh) : list (nat * nat) :=
  flat_map (fun g => match gd g with Some x => [x] | None => [] end) l.
Definition ags (l : list gh) : list nat := map ga l.

Lemma dgs_app a b : dgs (a ++ b) = dgs a ++ dgs b.
Proof. unfold dgs. apply flat_map_app. Qed.
Lemma ags_app a b : ags (a ++ b) = ags a ++ ags b.
Proof. unfold ags. apply map_app. Qed.

(* frame f is what ghost g says, [sent] being the payloads its sender has been given *)
Definition fr_ok (sent : list (list N)) (f : frame) (g : gh) : Prop :=
  match f with
  | Data frm re ack p =>
      ack = num8 (ga g) /\ exists b i, gd g = Some (b, i) /\ frm = num8 i /\ nth_error sent i = Some p
  | Ack _ _ ack | Nak _ _ ack => ack = num8 (ga g) /\ gd g = None
  | _ => False
  end.

Lemma fr_ok_app S S' f g : fr_ok S f g -> fr_ok (S ++ S') f g.
Proof.
  destruct f as [frm re ack p|a b c|a b c| |v c|v c]; cbn [fr_ok]; try (intro H; exact H).
  intros (H1 & b & i & H2 & H3 & H4). split; [exact H1|]. exists b, i. split; [exact H2|]. split; [exact H3|].
  rewrite nth_error_app1; [exact H4|]. apply nth_error_Some. rewrite H4. discriminate.
Qed.

Lemma frs_ok_app S S' q gq : Forall2 (fr_ok S) q gq -> Forall2 (fr_ok (S ++ S')) q gq.
Proof. induction 1; constructor; [apply fr_ok_app; assumption|assumption]. Qed.

Lemma frs_ok_dup S f q g gq : Forall2 (fr_ok S) (f :: q) (g :: gq) -> Forall2 (fr_ok S) (f :: f :: q) (g :: g :: gq).
Proof. intro H. inversion H; subst. constructor; [assumption|exact H]. Qed.

Lemma frs_ok_snoc S q gq f g : Forall2 (fr_ok S) q gq -> fr_ok S f g -> Forall2 (fr_ok S) (q ++ [f]) (gq ++ [g]).
Proof. intros H1 H2. apply Forall2_app; [exact H1|constructor; [exact H2|constructor]]. Qed.

(* ================================================================================================ *)
(* (3) the host, one event at a time                                                                 *)
(* ================================================================================================ *)
Lemma wire_app a b : wire (a ++ b) = wire a ++ wire b.
Proof. unfold wire. apply flat_map_app. Qed.
Lemma first_tx_app a b : first_tx (a ++ b) = first_tx a ++ first_tx b.
Proof. unfold first_tx. apply flat_map_app. Qed.
Lemma ups_of_app a b : ups_of (a ++ b) = ups_of a ++ ups_of b.
Proof. unfold ups_of. apply flat_map_app. Qed.
Lemma oks_app a b : oks (a ++ b) = oks a ++ oks b.
Proof. unfold oks. apply flat_map_app. Qed.

(* outputs with nothing on the wire and nothing handed up *)
Definition nw (out : list hout) : Prop := wire out = [] /\ first_tx out = [] /\ ups_of out = [].

Lemma nw_nil : nw [].
Proof. repeat split. Qed.
Lemma nw_app a b : nw a -> nw b -> nw (a ++ b).
Proof.
  intros (A1 & A2 & A3) (B1 & B2 & B3). unfold nw.
  rewrite wire_app, first_tx_app, ups_of_app, A1, A2, A3, B1, B2, B3. repeat split.
Qed.
Lemma nw_alldone l : alldone l -> nw l.
Proof.
  induction l as [|x l IH]; intro Hl; [exact nw_nil|].
  destruct (Hl x (or_introl eq_refl)) as (i & E). subst x.
  change (HDone i (OFailure ERROR_EXCEEDED_MAXIMUM_ACK_TIMEOUT_COUNT) :: l)
    with ([HDone i (OFailure ERROR_EXCEEDED_MAXIMUM_ACK_TIMEOUT_COUNT)] ++ l).
  apply nw_app; [repeat split|]. apply IH. intros o Ho. apply Hl. right. exact Ho.
Qed.
Lemma nw_done_out st id o : nw (done_out st id o).
Proof. destruct (done_out_cases st id o) as [[E _]|[E _]]; rewrite E; repeat split. Qed.
Lemma oks_alldone l : alldone l -> oks l = [].
Proof.
  induction l as [|x l IH]; intro Hl; [reflexivity|].
  destruct (Hl x (or_introl eq_refl)) as (i & E). subst x. cbn. apply IH.
  intros o Ho. apply Hl. right. exact Ho.
Qed.
Lemma oks_done_out st id o x : In x (oks (done_out st id o)) -> x = id /\ o = OOk.
Proof.
  destruct (done_out_cases st id o) as [[E _]|[E _]]; rewrite E; cbn; [intros []|].
  destruct o; cbn; try (intros Hf; exact (False_ind _ Hf)).
  intros [Hx|Hf]; [|destruct Hf]. split; [symmetry; exact Hx|reflexivity].
Qed.
Lemma oks_done_out_nok st id o : o <> OOk -> oks (done_out st id o) = [].
Proof.
  intro Ho. destruct (oks (done_out st id o)) as [|x l] eqn:E; [reflexivity|].
  destruct (oks_done_out st id o x) as [_ H]; [rewrite E; left; reflexivity|contradiction].
Qed.

(* the current send: (caller id, payload, frame number) *)
Definition cur_key (st : hstate) : option (N * list N * N) :=
  match cur st with Some c => Some (cid c, cpayload c, cfrm c) | None => None end.

(* what the sender half of the host does in one event.  [ackd]: the event carried the
   acknowledgement that the current send waits for; [rxn]: the acknowledgement number the host
   puts into what it writes. *)
Inductive smove (ackd : bool) (st : hstate) (rxn : N) (st' : hstate) (out : list hout) : Prop :=
| SM_none :
    tx_seq st' = tx_seq st -> failed st' = failed st -> waiters st' = waiters st ->
    cur_key st' = cur_key st -> nw out -> oks out = [] -> smove ackd st rxn st' out
| SM_retx : forall id p frm t,
    cur_key st = Some (id, p, frm) ->
    tx_seq st' = tx_seq st -> failed st' = false -> waiters st' = waiters st ->
    cur_key st' = cur_key st -> out = [HData id frm 1 rxn p t] -> smove ackd st rxn st' out
| SM_fail :
    cur_key st <> None ->
    tx_seq st' = tx_seq st -> failed st' = true -> waiters st' = [] -> cur_key st' = None ->
    nw out -> oks out = [] -> smove ackd st rxn st' out
| SM_ack_idle : forall id p frm,
    ackd = true -> cur_key st = Some (id, p, frm) -> waiters st = [] ->
    tx_seq st' = tx_seq st -> failed st' = false -> waiters st' = [] -> cur_key st' = None ->
    nw out -> (forall x, In x (oks out) -> x = id) -> smove ackd st rxn st' out
| SM_ack_next : forall id p frm id2 p2 ws pre t,
    ackd = true -> cur_key st = Some (id, p, frm) -> waiters st = (id2, p2) :: ws ->
    tx_seq st' = ((tx_seq st + 1) mod 8)%N -> failed st' = false -> waiters st' = ws ->
    cur_key st' = Some (id2, p2, tx_seq st) ->
    out = pre ++ [HData id2 (tx_seq st) 0 rxn p2 t] -> nw pre ->
    (forall x, In x (oks pre) -> x = id) -> smove ackd st rxn st' out.

(* a NAK or a timeout: retransmit, or give up for good *)
Lemma retry_smove ackd st st1 c o rxn :
  cur_key st = Some (cid c, cpayload c, cfrm c) -> tx_seq st1 = tx_seq st -> failed st1 = false ->
  waiters st1 = waiters st -> rx_seq st1 = rxn -> o <> OOk ->
  smove ackd st rxn (fst (retry_or_fail st1 c o)) (snd (retry_or_fail st1 c o))
  /\ rx_seq (fst (retry_or_fail st1 c o)) = rxn.
Proof.
  intros Hk Htx Hf Hw Hrx Ho. rewrite retry_or_fail_eq.
  destruct ((ACK_TIMEOUTS - 1 <=? cattempt c)%N).
  - destruct (close_cases (set_failed st1 true)
                (HReset ERROR_EXCEEDED_MAXIMUM_ACK_TIMEOUT_COUNT :: done_out st1 (cid c) o))
      as [(oF & HoF & Heq & _)|(id & p & ws & Hf' & _)]; [|discriminate Hf'].
    rewrite Heq. cbn [fst snd flushed set_failed tx_seq rx_seq failed waiters]. split; [|exact Hrx].
    apply SM_fail; cbn [flushed set_failed tx_seq failed waiters]; try reflexivity.
    + rewrite Hk. discriminate.
    + exact Htx.
    + change (HReset ERROR_EXCEEDED_MAXIMUM_ACK_TIMEOUT_COUNT :: done_out st1 (cid c) o)
        with ([HReset ERROR_EXCEEDED_MAXIMUM_ACK_TIMEOUT_COUNT] ++ done_out st1 (cid c) o).
      apply nw_app; [apply nw_app; [repeat split|apply nw_done_out]|apply nw_alldone; exact HoF].
    + cbn [app]. change (oks (HReset ERROR_EXCEEDED_MAXIMUM_ACK_TIMEOUT_COUNT :: ?l)) with (oks l).
      rewrite oks_app, (oks_done_out_nok _ _ _ Ho), (oks_alldone _ HoF). reflexivity.
  - rewrite Hf. unfold transmit. cbn [fst snd rx_seq]. split; [|exact Hrx].
    rewrite succ_neq0. apply (SM_retx ackd st rxn _ _ (cid c) (cpayload c) (cfrm c) (now st1)).
    + exact Hk.
    + exact Htx.
    + exact Hf.
    + exact Hw.
    + rewrite Hk. reflexivity.
    + rewrite Hrx. reflexivity.
Qed.

(* the acknowledgement arrived: report, release the semaphore, start the next queued send *)
Lemma acked_smove st s1 c rxn :
  cur_key st = Some (cid c, cpayload c, cfrm c) -> tx_seq s1 = tx_seq st -> failed s1 = false ->
  waiters s1 = waiters st -> rx_seq s1 = rxn ->
  smove true st rxn (fst (close s1 (done_out s1 (cid c) OOk))) (snd (close s1 (done_out s1 (cid c) OOk)))
  /\ rx_seq (fst (close s1 (done_out s1 (cid c) OOk))) = rxn.
Proof.
  intros Hk Htx Hf Hw Hrx.
  destruct (close_cases s1 (done_out s1 (cid c) OOk))
    as [(oF & HoF & Heq & Hc)|(id & p & ws & Hf' & Hw' & Heq)]; rewrite Heq; cbn [fst snd].
  - destruct Hc as [Hc|Hc]; [congruence|]. split; [|exact Hrx].
    apply (SM_ack_idle true st rxn _ _ (cid c) (cpayload c) (cfrm c)); cbn [flushed tx_seq failed waiters];
      try reflexivity; try assumption.
    + congruence.
    + apply nw_app; [apply nw_done_out|apply nw_alldone; exact HoF].
    + intros x Hx. rewrite oks_app, (oks_alldone _ HoF), app_nil_r in Hx.
      apply oks_done_out in Hx. apply Hx.
  - split; [|exact Hrx].
    apply (SM_ack_next true st rxn _ _ (cid c) (cpayload c) (cfrm c) id p ws (done_out s1 (cid c) OOk) (now s1));
      cbn [started tx_seq failed waiters]; try reflexivity; try assumption.
    + congruence.
    + rewrite Htx. reflexivity.
    + unfold cur_key. cbn [started cur cid cpayload cfrm]. rewrite Htx. reflexivity.
    + rewrite Htx, Hrx. reflexivity.
    + apply nw_done_out.
    + intros x Hx. apply oks_done_out in Hx. apply Hx.
Qed.
