(* ControllerApplication.ezsp_callback_handler / _handle_frame / _handle_tc_join_handler as emitted from their
   SOURCE TEXT (gen/GenAppFn.v) against the hand-written translation (model/Translate.v): for every protocol
   version of the command tables, every message type and every list of decoded values the emitted dispatch
   hands zigpy exactly the events of [translate] -- so the C13 theorems speak of the code as it is. *)
From Coq Require Import String ZArith NArith List Bool Lia.
Import ListNotations.
Require Import BV.lib.EzspTypes BV.gen.GenCallbacks BV.model.Translate BV.proofs.Translate_proofs BV.gen.GenAppFn.
Open Scope N_scope.

(* ---- the two handlers, independent of the version ---------------------------------------------- *)
Lemma src_handle_frame : forall own ty sep dep tsn profile cluster grp lqi rssi sender msg,
  py_handle_frame own ty sep dep tsn profile cluster grp lqi rssi sender msg =
  if is_packet_type ty
  then [EvPacket {| k_src := sender; k_src_ep := sep; k_dst := dest_for ty own grp; k_dst_ep := dep;
                    k_tsn := tsn; k_profile := profile; k_cluster := cluster; k_data := msg;
                    k_lqi := lqi; k_rssi := rssi |}]
  else [].
Proof.
  intros. unfold py_handle_frame, is_packet_type, dest_for.
  change (Z.of_N INCOMING_BROADCAST) with 4%Z. change (Z.of_N INCOMING_MULTICAST) with 2%Z.
  change (Z.of_N INCOMING_UNICAST) with 0%Z. change (Z.of_N BROADCAST_ALL_ROUTERS_AND_COORDINATOR) with 65532%Z.
  destruct (ty =? 4)%Z; [rewrite orb_true_r; reflexivity|].
  destruct (ty =? 2)%Z; [rewrite orb_true_r; reflexivity|].
  destruct (ty =? 0)%Z; reflexivity.
Qed.

Lemma src_handle_tc_join_handler : forall own nwk ieee status decision parent,
  py_handle_tc_join_handler own nwk ieee status decision parent =
  if (status =? Z.of_N DEVICE_LEFT)%Z then [EvLeave nwk ieee]
  else if (decision =? Z.of_N DENY_JOIN)%Z then [] else [EvJoin nwk ieee parent].
Proof.
  intros. unfold py_handle_tc_join_handler.
  change (Z.of_N DEVICE_LEFT) with 2%Z. change (Z.of_N DENY_JOIN) with 2%Z.
  destruct (status =? 2)%Z; [reflexivity|]. destruct (decision =? 2)%Z; reflexivity.
Qed.

(* ---- reading the args tuple: element k of a concrete field list is a flat position; the reads of
   [geti] / [getb] / [getl] themselves are left folded ---------------------------------------------- *)
Ltac read_positions :=
  cbv [arg_int arg_bytes arg_rows arg_attr arg_at nth_error fst snd index_of APS_FRAME_FIELDS
       String.eqb Ascii.eqb Bool.eqb Nat.ltb Nat.leb Nat.add].

(* both sides read the same flat positions; whichever is missing, both give None *)
Ltac split_reads vs :=
  repeat match goal with
         | |- context [geti ?p vs] => destruct (geti p vs); cbn [obind]; try reflexivity
         | |- context [getb ?p vs] => destruct (getb p vs); cbn [obind]; try reflexivity
         | |- context [getl ?p vs] => destruct (getl p vs); cbn [obind]; try reflexivity
         end.

Lemma mk_packets : forall ty own grp sender sep dep tsn profile cluster msg lqi rssi,
  (let mk d := Some [EvPacket {| k_src := sender; k_src_ep := sep; k_dst := d; k_dst_ep := dep;
                                 k_tsn := tsn; k_profile := profile; k_cluster := cluster;
                                 k_data := msg; k_lqi := lqi; k_rssi := rssi |}] in
   if (ty =? Z.of_N INCOMING_BROADCAST)%Z then mk (DBroadcast (Z.of_N BROADCAST_ALL_ROUTERS_AND_COORDINATOR))
   else if (ty =? Z.of_N INCOMING_MULTICAST)%Z then mk (DGroup grp)
   else if (ty =? Z.of_N INCOMING_UNICAST)%Z then mk (DNwk own)
   else Some []) =
  Some (py_handle_frame own ty sep dep tsn profile cluster grp lqi rssi sender msg).
Proof.
  intros. rewrite src_handle_frame. unfold is_packet_type, dest_for. cbv zeta.
  destruct (ty =? Z.of_N INCOMING_BROADCAST)%Z; [rewrite orb_true_r; reflexivity|].
  destruct (ty =? Z.of_N INCOMING_MULTICAST)%Z; [rewrite orb_true_r; reflexivity|].
  destruct (ty =? Z.of_N INCOMING_UNICAST)%Z; reflexivity.
Qed.

(* ---- the dispatch, per version ------------------------------------------------------------------ *)
Definition versions : list N := map fst CB_FIELDS.

Ltac each_version H :=
  unfold versions in H; vm_compute in H;
  repeat (destruct H as [<- | H]; [ | ]); [ .. | contradiction H ].

Lemma src_incoming : forall v own vs, In v versions ->
  py_ezsp_callback_handler v own "incomingMessageHandler" vs = POut (translate_incoming v own vs).
Proof.
  intros v own vs H. each_version H.
  all: unfold py_ezsp_callback_handler, translate_incoming, incoming_positions.
  all: match goal with |- context [fields_of ?v ?n] =>
         let fs := eval vm_compute in (fields_of v n) in change (fields_of v n) with fs end.
  all: cbv zeta; cbn [String.eqb Ascii.eqb Bool.eqb andb N.leb N.compare Pos.compare Pos.compare_cont
                      args_len fst snd List.length Nat.eqb negb].
  all: read_positions.
  all: cbn [Nat.add].
  all: f_equal.
  all: split_reads vs.
  all: symmetry; apply mk_packets.
Qed.

Lemma src_join : forall v own vs, In v versions ->
  py_ezsp_callback_handler v own "trustCenterJoinHandler" vs = POut (translate_join vs).
Proof.
  intros v own vs H. each_version H.
  all: unfold py_ezsp_callback_handler, translate_join.
  all: match goal with |- context [fields_of ?v ?n] =>
         let fs := eval vm_compute in (fields_of v n) in change (fields_of v n) with fs end.
  all: cbv zeta; cbn [String.eqb Ascii.eqb Bool.eqb andb args_len fst snd List.length Nat.eqb negb].
  all: read_positions.
  all: f_equal.
  all: split_reads vs.
  all: rewrite src_handle_tc_join_handler.
  all: repeat match goal with |- context [if ?c then _ else _] => destruct c end; reflexivity.
Qed.

(* whatever the callback: where a translated handler runs it hands zigpy the events of [translate]; where no
   branch matches nothing is done, which is what [translate] says of such a name *)
Ltac all_branches H :=
  repeat match type of H with context [if ?c then _ else _] => destruct c; try discriminate H end;
  try discriminate H.

Lemma src_handled : forall v own name vs r, In v versions ->
  py_ezsp_callback_handler v own name vs = POut r -> r = translate v own name vs.
Proof.
  intros v own name vs r Hv H.
  destruct (String.eqb_spec name "incomingMessageHandler") as [->|N1].
  - rewrite (src_incoming v own vs Hv) in H. injection H as <-. reflexivity.
  - destruct (String.eqb_spec name "trustCenterJoinHandler") as [->|N2].
    + rewrite (src_join v own vs Hv) in H. injection H as <-. reflexivity.
    + exfalso. unfold py_ezsp_callback_handler in H. cbv zeta in H.
      apply String.eqb_neq in N1. apply String.eqb_neq in N2. rewrite N1, N2 in H. cbv iota in H.
      all_branches H.
Qed.

Lemma src_no_branch : forall v own name vs,
  py_ezsp_callback_handler v own name vs = PNoBranch -> translate v own name vs = Some [].
Proof.
  intros v own name vs H. unfold translate.
  destruct (String.eqb name "incomingMessageHandler") eqn:E1.
  - exfalso. unfold py_ezsp_callback_handler in H. cbv zeta in H. rewrite E1 in H. cbv iota in H. all_branches H.
  - destruct (String.eqb name "trustCenterJoinHandler") eqn:E2; [|reflexivity].
    exfalso. unfold py_ezsp_callback_handler in H. cbv zeta in H. rewrite E1, E2 in H. cbv iota in H.
    all_branches H.
Qed.

(* branches of the chain that end in other handlers: the delivery confirmation (C12, proofs/AppSentSrc_proofs.v) and,
   not translated, the address-conflict handler *)
Lemma src_delegated : forall v own vs,
  (exists f, py_ezsp_callback_handler v own "messageSentHandler" vs = PSent f) /\
  py_ezsp_callback_handler v own "idConflictHandler" vs = PCalls ["_handle_id_conflict"%string].
Proof.
  intros. split; [|reflexivity]. unfold py_ezsp_callback_handler. cbv zeta.
  cbn [String.eqb Ascii.eqb Bool.eqb].
  repeat match goal with |- context [if ?c then _ else _] => destruct c end; eexists; reflexivity.
Qed.

(* ---- the C13 statements, now about the emitted code --------------------------------------------- *)
Lemma src_incoming_packet : forall v own vs evs, In v versions ->
  py_ezsp_callback_handler v own "incomingMessageHandler" vs = POut (Some evs) ->
  let '(pt, pa, pl, pr, ps, pm) := incoming_positions v in
  exists ty profile cluster sep dep grp tsn lqi rssi sender msg,
    geti pt vs = Some ty /\ geti pa vs = Some profile /\ geti (pa + 1) vs = Some cluster /\
    geti (pa + 2) vs = Some sep /\ geti (pa + 3) vs = Some dep /\ geti (pa + 5) vs = Some grp /\
    geti (pa + 6) vs = Some tsn /\ geti pl vs = Some lqi /\ geti pr vs = Some rssi /\
    geti ps vs = Some sender /\ getb pm vs = Some msg /\
    evs = if is_packet_type ty
          then [EvPacket {| k_src := sender; k_src_ep := sep; k_dst := dest_for ty own grp; k_dst_ep := dep;
                            k_tsn := tsn; k_profile := profile; k_cluster := cluster; k_data := msg;
                            k_lqi := lqi; k_rssi := rssi |}]
          else [].
Proof.
  intros v own vs evs Hv H. rewrite (src_incoming v own vs Hv) in H.
  apply incoming_translation. injection H as H. exact H.
Qed.

Lemma src_join_events : forall v own vs evs, In v versions ->
  py_ezsp_callback_handler v own "trustCenterJoinHandler" vs = POut (Some evs) ->
  exists nwk ieee status decision parent,
    geti 0 vs = Some nwk /\ getl 1 vs = Some ieee /\ geti 2 vs = Some status /\ geti 3 vs = Some decision /\
    geti 4 vs = Some parent /\
    evs = if (status =? Z.of_N DEVICE_LEFT)%Z then [EvLeave nwk ieee]
          else if (decision =? Z.of_N DENY_JOIN)%Z then [] else [EvJoin nwk ieee parent].
Proof.
  intros v own vs evs Hv H. rewrite (src_join v own vs Hv) in H.
  apply join_translation. injection H as H. exact H.
Qed.
