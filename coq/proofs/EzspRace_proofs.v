(* C06, the racing schedule -- the results of proofs/EzspProto_proofs.v and proofs/EzspProtoPos_proofs.v
   extended to runs in which a frame and the expiry of the command timeout of the call waiting under the
   frame's sequence number fall into the same event-loop iteration (model/EzspRace.v: [race_step], [rstep],
   [rrun]).

   Two lemmas carry everything.
   [race_spec]: a race step is either the plain frame step (no call waits, without a reply, under the
     frame's number) or it is [finish (pop_awaiting st s) call (ORaise call KTimeout)] -- entry popped, the
     call ended by the timeout, the slot released -- whatever the frame carried.
   [race_as_plain]: in the second case state and outputs are those of two plain events, a frame with a
     foreign frame id under that number (pops the entry, completes nobody) followed by the timeout of the
     call.  [expand] rewrites a run with race steps into a plain run with the same final state, the same
     outputs and the same calls ([rrun_expand]); so every state reachable with race steps is reachable
     without ([rreachable_reachable]) and the run-level theorems of C06 transfer verbatim.
   The trace theorem [own_response] is redone over [rrun] directly (pass [rstep_prov]): its witness must be
   a frame event of the ORIGINAL run. *)
From Coq Require Import String ZArith NArith List Bool Sorting.Sorted Lia ZifyBool ZifyN.
Import ListNotations.
Require Import BV.lib.EzspTypes BV.model.EzspCodec BV.model.EzspProto BV.model.EzspCases BV.model.EzspRace
               BV.proofs.EzspProto_proofs BV.proofs.EzspProtoPos_proofs.
Open Scope N_scope.

(* ---- vocabulary ---------------------------------------------------------------------------------- *)
Definition routs (es : list revent) : list pout := concat (snd (rrun p_init es)).
Definition rfinal (es : list revent) : pstate := fst (rrun p_init es).
Definition rcalls (es : list revent) : list N :=
  flat_map (fun e => match e with REv (ECall id _ _) => [id] | _ => [] end) es.
Definition rcalls_unique (es : list revent) : Prop := NoDup (rcalls es).
Definition rreachable (st : pstate) : Prop := exists es, rcalls_unique es /\ st = rfinal es.
(* the frame an event hands to __call__ *)
Definition frame_of (e : revent) : option decoded :=
  match e with REv (EFrame d) => Some d | RRace d => Some d | _ => None end.
(* the situation in which the schedule is a race: a call waits, without a reply, under the frame's number *)
Definition racing (st : pstate) (d : decoded) (s expected call : N) (c : pcall) : Prop :=
  (exists f inv vs, d = DOk s f inv vs) /\ aw_get s (p_awaiting st) = Some (expected, call) /\
  call_get call (p_calls st) = Some c /\ k_stage c = PWaiting /\ k_reply c = RNone.

(* ---- runs ---------------------------------------------------------------------------------------- *)
Lemma rrun_app : forall es1 es2 st,
  rrun st (es1 ++ es2) =
  (fst (rrun (fst (rrun st es1)) es2),
   snd (rrun st es1) ++ snd (rrun (fst (rrun st es1)) es2)).
Proof.
  induction es1 as [|e es1 IH]; intros es2 st; cbn [rrun app].
  - cbn [fst snd app]. destruct (rrun st es2); reflexivity.
  - destruct (rstep st e) as [sa oa]. rewrite IH.
    destruct (rrun sa es1) as [sb ob]. cbn [fst snd].
    destruct (rrun sb es2) as [sc oc]. reflexivity.
Qed.

Lemma rfinal_snoc : forall es e, rfinal (es ++ [e]) = fst (rstep (rfinal es) e).
Proof.
  intros es e. unfold rfinal. rewrite rrun_app. cbn [fst rrun].
  destruct (rstep (fst (rrun p_init es)) e); reflexivity.
Qed.

Lemma routs_snoc : forall es e, routs (es ++ [e]) = routs es ++ snd (rstep (rfinal es) e).
Proof.
  intros es e. unfold routs, rfinal. rewrite rrun_app. cbn [snd rrun].
  destruct (rstep (fst (rrun p_init es)) e) as [s o]. cbn [snd].
  rewrite concat_app. cbn [concat]. rewrite app_nil_r. reflexivity.
Qed.

Lemma rcalls_app : forall a b, rcalls (a ++ b) = rcalls a ++ rcalls b.
Proof. intros a b. unfold rcalls. apply flat_map_app. Qed.

Lemma calls_app : forall a b, calls (a ++ b) = calls a ++ calls b.
Proof. intros a b. unfold calls. apply flat_map_app. Qed.

(* ---- the race step ------------------------------------------------------------------------------- *)
Lemma race_reply_frame_reply : forall inv expected f vs,
  race_reply inv expected f vs = frame_reply inv expected f vs.
Proof. reflexivity. Qed.

Lemma racing_unique : forall st d s e call c s' e' call' c',
  racing st d s e call c -> racing st d s' e' call' c' -> s' = s /\ e' = e /\ call' = call /\ c' = c.
Proof.
  intros st d s e call c s' e' call' c' ((f & inv & vs & Hd) & A & G & _) ((f' & inv' & vs' & Hd') & A' & G' & _).
  rewrite Hd in Hd'. inversion Hd'; subst s'. rewrite A in A'. inversion A'; subst e' call'.
  rewrite G in G'. inversion G'. repeat split; reflexivity.
Qed.

Lemma race_spec : forall st d,
  (race_step st d = proto_step st (EFrame d) /\ forall s e call c, ~ racing st d s e call c)
  \/ (exists s e call c, racing st d s e call c /\
        race_step st d = finish (pop_awaiting st s) call (ORaise call KTimeout)).
Proof.
  intros st d.
  destruct d as [|s f|s f|s f inv vs];
    try (left; split; [reflexivity|intros s0 e0 call0 c0 ((f0 & inv0 & vs0 & Hd) & _); discriminate Hd]).
  unfold race_step.
  destruct (aw_get s (p_awaiting st)) as [[expected call]|] eqn:A.
  2:{ left. split; [reflexivity|]. intros s0 e0 call0 c0 ((f0 & inv0 & vs0 & Hd) & A0 & _).
      inversion Hd; subst s0. rewrite A in A0. discriminate A0. }
  destruct (call_get call (p_calls st)) as [c|] eqn:G.
  2:{ left. split; [reflexivity|]. intros s0 e0 call0 c0 ((f0 & inv0 & vs0 & Hd) & A0 & G0 & _).
      inversion Hd; subst s0. rewrite A in A0. inversion A0; subst e0 call0. rewrite G in G0. discriminate G0. }
  assert (Hno : k_stage c <> PWaiting \/ k_reply c <> RNone ->
                forall s0 e0 call0 c0, ~ racing st (DOk s f inv vs) s0 e0 call0 c0).
  { intros Hc s0 e0 call0 c0 ((f0 & inv0 & vs0 & Hd) & A0 & G0 & S0 & R0).
    inversion Hd; subst s0. rewrite A in A0. inversion A0; subst e0 call0. rewrite G in G0.
    inversion G0; subst c0. destruct Hc as [Hc|Hc]; [exact (Hc S0)|exact (Hc R0)]. }
  destruct (k_stage c) eqn:S.
  - left. split; [reflexivity|]. apply Hno. left. discriminate.
  - left. split; [reflexivity|]. apply Hno. left. discriminate.
  - destruct (k_reply c) as [|vs0|] eqn:R.
    + right. exists s, expected, call, c. split.
      { split; [exists f, inv, vs; reflexivity|]. split; [exact A|]. split; [exact G|]. split; assumption. }
      cbv zeta.
      assert (Hid : k_id c = call) by (apply call_get_In in G; tauto).
      pose proof (finish_after_set (pop_awaiting st s) (set_reply c (race_reply inv expected f vs))
                                   (ORaise call KTimeout)) as H.
      change (k_id (set_reply c (race_reply inv expected f vs))) with (k_id c) in H.
      rewrite Hid in H. apply H. cbn [pop_awaiting p_calls]. rewrite G. discriminate.
    + left. split; [reflexivity|]. apply Hno. right. discriminate.
    + left. split; [reflexivity|]. apply Hno. right. discriminate.
Qed.

(* a frame under a number nobody awaits (a callback, a late or foreign reply), or one that cannot be decoded:
   not a race *)
Lemma race_unpending : forall st d,
  (forall s f inv vs, d = DOk s f inv vs -> aw_get s (p_awaiting st) = None) ->
  race_step st d = proto_step st (EFrame d).
Proof.
  intros st d H. destruct (race_spec st d) as [[E _]|(s & e & call & c & ((f & inv & vs & Hd) & A & _) & _)].
  - exact E.
  - rewrite (H s f inv vs Hd) in A. discriminate A.
Qed.

Lemma race_outcome : forall st s f inv vs expected call,
  aw_get s (p_awaiting st) = Some (expected, call) ->
  outcome (pop_awaiting st s) call (frame_reply inv expected f vs) (race_step st (DOk s f inv vs)).
Proof.
  intros st s f inv vs expected call A.
  destruct (race_spec st (DOk s f inv vs)) as [[E _]|(s' & e' & call' & c & ((f0 & inv0 & vs0 & Hd) & A' & G & S & R) & E)];
    rewrite E.
  - exact (frame_outcome st s f inv vs expected call A).
  - inversion Hd; subst s'. rewrite A in A'. inversion A'; subst e' call'.
    eapply oc_raise; [exact G|rewrite S; discriminate].
Qed.

(* ---- the race step as two plain events ------------------------------------------------------------- *)
Definition race_events (st : pstate) (d : decoded) : list pevent :=
  match d with
  | DOk s fid invalid vs =>
      match aw_get s (p_awaiting st) with
      | Some (expected, call) =>
          match call_get call (p_calls st) with
          | Some c =>
              match k_stage c, k_reply c with
              | PWaiting, RNone => [EFrame (DOk s (expected + 1) false []); ETimeout call]
              | _, _ => [EFrame d]
              end
          | None => [EFrame d]
          end
      | None => [EFrame d]
      end
  | _ => [EFrame d]
  end.

Definition flat (r : pstate * list (list pout)) : pstate * list pout := (fst r, concat (snd r)).

Lemma flat_one : forall st e, flat (proto_run st [e]) = proto_step st e.
Proof.
  intros st e. unfold flat. cbn [proto_run]. destruct (proto_step st e) as [s o]. cbn [fst snd concat].
  rewrite app_nil_r. reflexivity.
Qed.

Lemma racing_plain : forall st d s expected call c, racing st d s expected call c ->
  flat (proto_run st [EFrame (DOk s (expected + 1) false []); ETimeout call]) =
  finish (pop_awaiting st s) call (ORaise call KTimeout).
Proof.
  intros st d s expected call c (_ & A & G & S & R).
  assert (E1 : proto_step st (EFrame (DOk s (expected + 1) false [])) = (pop_awaiting st s, [])).
  { cbn [proto_step]. rewrite A. cbv zeta.
    replace (expected =? expected + 1) with false by (symmetry; apply N.eqb_neq; lia). reflexivity. }
  assert (E2 : proto_step (pop_awaiting st s) (ETimeout call) =
               finish (pop_awaiting st s) call (ORaise call KTimeout)).
  { cbn [proto_step pop_awaiting p_calls]. rewrite G, S, R. reflexivity. }
  unfold flat. cbn [proto_run]. rewrite E1, E2.
  destruct (finish (pop_awaiting st s) call (ORaise call KTimeout)) as [s2 o2]. cbn [fst snd concat app].
  rewrite app_nil_r. reflexivity.
Qed.

Lemma race_events_spec : forall st d,
  (race_events st d = [EFrame d] /\ forall s e call c, ~ racing st d s e call c)
  \/ (exists s e call c, racing st d s e call c /\
        race_events st d = [EFrame (DOk s (e + 1) false []); ETimeout call]).
Proof.
  intros st d. destruct (race_spec st d) as [[_ Hn]|(s & e & call & c & Hr & _)].
  - left. split; [|exact Hn]. destruct d as [|s f|s f|s f inv vs]; try reflexivity.
    unfold race_events. destruct (aw_get s (p_awaiting st)) as [[expected call]|] eqn:A; [|reflexivity].
    destruct (call_get call (p_calls st)) as [c|] eqn:G; [|reflexivity].
    destruct (k_stage c) eqn:S; try reflexivity. destruct (k_reply c) eqn:R; try reflexivity.
    exfalso. apply (Hn s expected call c). split; [exists f, inv, vs; reflexivity|].
    split; [exact A|]. split; [exact G|]. split; assumption.
  - right. exists s, e, call, c. split; [exact Hr|].
    destruct Hr as ((f & inv & vs & Hd) & A & G & S & R). subst d. unfold race_events.
    rewrite A, G, S, R. reflexivity.
Qed.

(* state AND outputs of a race step are those of the plain events [race_events] *)
Lemma race_as_plain : forall st d, race_step st d = flat (proto_run st (race_events st d)).
Proof.
  intros st d.
  destruct (race_events_spec st d) as [[E Hn]|(s & e & call & c & Hr & E)]; rewrite E.
  - rewrite flat_one. destruct (race_spec st d) as [[E1 _]|(s & e & call & c & Hr & _)]; [exact E1|].
    destruct (Hn s e call c Hr).
  - rewrite (racing_plain st d s e call c Hr).
    destruct (race_spec st d) as [[_ Hn]|(s' & e' & call' & c' & Hr' & E1)]; [destruct (Hn s e call c Hr)|].
    destruct (racing_unique _ _ _ _ _ _ _ _ _ _ Hr Hr') as (-> & _ & -> & _). exact E1.
Qed.

Lemma race_events_calls : forall st d, calls (race_events st d) = [].
Proof.
  intros st d. destruct (race_events_spec st d) as [[E _]|(s & e & call & c & _ & E)]; rewrite E; reflexivity.
Qed.

(* a run with race steps, rewritten into a plain run *)
Fixpoint expand (st : pstate) (es : list revent) : list pevent :=
  match es with
  | [] => []
  | REv e :: es' => e :: expand (fst (proto_step st e)) es'
  | RRace d :: es' => race_events st d ++ expand (fst (race_step st d)) es'
  end.

Lemma rrun_expand : forall es st, flat (rrun st es) = flat (proto_run st (expand st es)).
Proof.
  induction es as [|e es IH]; intro st; [reflexivity|]. destruct e as [e|d]; cbn [rrun rstep expand].
  - cbn [proto_run]. destruct (proto_step st e) as [s1 o]. cbn [fst]. specialize (IH s1).
    destruct (rrun s1 es) as [s2 os]. destruct (proto_run s1 (expand s1 es)) as [s2' os'].
    unfold flat in *. cbn [fst snd concat] in *. injection IH as K1 K2. rewrite K1, K2. reflexivity.
  - rewrite proto_run_app. pose proof (race_as_plain st d) as E.
    destruct (proto_run st (race_events st d)) as [s1 o1]. unfold flat in E. cbn [fst snd] in E.
    rewrite E. cbn [fst]. specialize (IH s1).
    destruct (rrun s1 es) as [s2 os]. destruct (proto_run s1 (expand s1 es)) as [s2' os'].
    unfold flat in *. cbn [fst snd concat] in *. injection IH as K1 K2. rewrite concat_app, K1, K2. reflexivity.
Qed.

Lemma expand_calls : forall es st, calls (expand st es) = rcalls es.
Proof.
  induction es as [|e es IH]; intro st; [reflexivity|]. destruct e as [e|d]; cbn [expand].
  - change (e :: expand (fst (proto_step st e)) es) with ([e] ++ expand (fst (proto_step st e)) es).
    change (REv e :: es) with ([REv e] ++ es). rewrite calls_app, rcalls_app, IH. reflexivity.
  - change (RRace d :: es) with ([RRace d] ++ es). rewrite calls_app, rcalls_app, IH, race_events_calls. reflexivity.
Qed.

Lemma rfinal_expand : forall es, rfinal es = final (expand p_init es).
Proof. intro es. pose proof (rrun_expand es p_init) as H. unfold flat in H. injection H as K1 K2. exact K1. Qed.

Lemma routs_expand : forall es, routs es = outs (expand p_init es).
Proof. intro es. pose proof (rrun_expand es p_init) as H. unfold flat in H. injection H as K1 K2. exact K2. Qed.

Lemma rcalls_unique_expand : forall es, rcalls_unique es -> calls_unique (expand p_init es).
Proof. intros es U. unfold calls_unique. rewrite expand_calls. exact U. Qed.

(* 1 -- every state a run with race steps reaches is reached by a run without, and conversely *)
Theorem rreachable_reachable : forall st, rreachable st -> reachable st.
Proof.
  intros st (es & U & E). exists (expand p_init es). split; [exact (rcalls_unique_expand es U)|].
  rewrite E. apply rfinal_expand.
Qed.

Lemma rrun_plain : forall es st, rrun st (map REv es) = proto_run st es.
Proof.
  induction es as [|e es IH]; intro st; [reflexivity|]. cbn [map rrun rstep proto_run].
  destruct (proto_step st e) as [s1 o]. rewrite IH. reflexivity.
Qed.

Theorem reachable_rreachable : forall st, reachable st -> rreachable st.
Proof.
  intros st (es & U & E). exists (map REv es). split.
  - unfold rcalls_unique, rcalls. unfold calls_unique, calls in U. rewrite flat_map_concat_map, map_map.
    rewrite flat_map_concat_map in U. exact U.
  - rewrite E. unfold rfinal, final. rewrite rrun_plain. reflexivity.
Qed.

Lemma rreachable_Inv : forall st, rreachable st -> Inv st.
Proof. intros st R. exact (reachable_Inv st (rreachable_reachable st R)). Qed.

Lemma reachable_J : forall st, reachable st -> AwJ st.
Proof. intros st (es & U & E). subst st. exact (proj1 (reach_J es U)). Qed.

(* ---- the invariant is kept by every step, race steps included ------------------------------------ *)
(* 2 *)
Theorem rstep_Inv : forall st e, Inv st ->
  (forall id p f, e = REv (ECall id p f) -> call_get id (p_calls st) = None) ->
  Inv (fst (rstep st e)).
Proof.
  intros st [e|d] I Hfresh; cbn [rstep].
  - apply Inv_step; [exact I|]. intros id p f E. apply (Hfresh id p f). rewrite E. reflexivity.
  - destruct (race_spec st d) as [[E _]|(s & e & call & c & (_ & _ & G & S & _) & E)]; rewrite E.
    + apply Inv_step; [exact I|]. intros id p f E1. discriminate E1.
    + apply (Inv_finish (pop_awaiting st s) call c); [exact (Inv_pop st s I)|exact G|rewrite S; discriminate].
Qed.

(* ---- what a race step does, case by case (states satisfying the invariant) -------------------------- *)
Lemma plain_frame_quiet : forall st s f inv vs expected call, Inv st ->
  aw_get s (p_awaiting st) = Some (expected, call) ->
  (forall c, ~ racing st (DOk s f inv vs) s expected call c) ->
  snd (proto_step st (EFrame (DOk s f inv vs))) = [].
Proof.
  intros st s f inv vs expected call I A Hn.
  assert (Hd : forall r, snd (deliver (pop_awaiting st s) call r) = []).
  { intro r. unfold deliver. cbn [pop_awaiting p_calls].
    destruct (call_get call (p_calls st)) as [c|] eqn:G; [|reflexivity]. cbv zeta.
    change (k_stage (set_reply c r)) with (k_stage c).
    destruct (k_stage c) eqn:S; [reflexivity|reflexivity|]. exfalso. apply (Hn c).
    split; [exists f, inv, vs; reflexivity|]. split; [exact A|]. split; [exact G|]. split; [exact S|].
    exact (iv_wait _ _ _ I call c G S). }
  cbn [proto_step]. rewrite A. cbv zeta. destruct inv; [apply Hd|].
  destruct (expected =? f); [apply Hd|reflexivity].
Qed.

Lemma race_cases : forall st d, Inv st ->
  (snd (race_step st d) = [])
  \/ (exists s f inv vs, d = DOk s f inv vs /\ aw_get s (p_awaiting st) = None /\
        race_step st d = (st, [OCallback f vs]))
  \/ (exists s e call c, racing st d s e call c /\
        race_step st d = finish (pop_awaiting st s) call (ORaise call KTimeout)).
Proof.
  intros st d I. destruct (race_spec st d) as [[E Hn]|H]; [|right; right; exact H].
  destruct d as [|s f|s f|s f inv vs]; try (left; rewrite E; reflexivity).
  destruct (aw_get s (p_awaiting st)) as [[expected call]|] eqn:A.
  - left. rewrite E. apply (plain_frame_quiet st s f inv vs expected call I A). intro c. apply Hn.
  - right. left. exists s, f, inv, vs. split; [reflexivity|]. split; [exact A|].
    rewrite E. apply callbacks_once. exact A.
Qed.

(* 3 -- a reply that races the timeout never completes the call with its payload *)
Theorem race_never_returns : forall st d id vs, rreachable st -> ~ In (OReturn id vs) (snd (race_step st d)).
Proof.
  intros st d id vs R Hin. apply rreachable_Inv in R.
  destruct (race_cases st d R) as [E|[(s & f & inv & vs0 & _ & _ & E)|(s & e & call & c & _ & E)]];
    rewrite E in Hin.
  - destruct Hin.
  - destruct Hin as [Hin|[]]. discriminate Hin.
  - apply finish_out in Hin. destruct Hin as [Hin|(a & b & x & Hin)]; discriminate Hin.
Qed.

(* 4 -- no cross completion: the only call a race step ends is the one that waits under the frame's own
   sequence number (sent under exactly that number), and it ends with the timeout *)
Theorem race_no_cross : forall st d id o, rreachable st ->
  In o (snd (race_step st d)) -> ends id o ->
  o = ORaise id KTimeout /\
  exists s f inv vs f0 c, d = DOk s f inv vs /\ aw_get s (p_awaiting st) = Some (f0, id) /\
    call_get id (p_calls st) = Some c /\ k_stage c = PWaiting /\ k_seq c = s /\ k_fid c = f0.
Proof.
  intros st d id o R Hin He. apply rreachable_reachable in R.
  pose proof (reachable_Inv st R) as I. pose proof (reachable_J st R) as [_ J].
  destruct (race_cases st d I) as [E|[(s & f & inv & vs0 & _ & _ & E)|(s & e & call & c & Hr & E)]];
    rewrite E in Hin.
  - destruct Hin.
  - destruct Hin as [Hin|[]]. subst o. destruct He as [[x Ex]|[x Ex]]; discriminate Ex.
  - apply finish_out in Hin. destruct Hin as [Hin|(a & b & x & Hin)].
    2:{ subst o. destruct He as [[y Ey]|[y Ey]]; discriminate Ey. }
    assert (Eid : call = id).
    { subst o. destruct He as [[y Ey]|[y Ey]]; inversion Ey. reflexivity. }
    subst call. split; [exact Hin|].
    destruct Hr as ((f & inv & vs & Hd) & A & G & S & _).
    destruct (J s e id c (aw_get_In _ _ _ A) G) as (_ & _ & K1 & K2).
    exists s, f, inv, vs, e, c. repeat split; assumption.
Qed.

(* 5 -- the call under the frame's number ends with the timeout in that very step, whatever the frame
   carries (its own payload, invalidCommand, another command's id); it is over, and no pending entry names it
   any more (the entry was popped by the frame) *)
Theorem race_times_out : forall st s f inv vs f0 id c, rreachable st ->
  aw_get s (p_awaiting st) = Some (f0, id) -> call_get id (p_calls st) = Some c -> k_stage c = PWaiting ->
  let r := race_step st (DOk s f inv vs) in
  In (ORaise id KTimeout) (snd r) /\
  call_get id (p_calls (fst r)) = None /\
  (forall s' f', ~ In (s', (f', id)) (p_awaiting (fst r))) /\
  ~ In (s, (f0, id)) (p_awaiting (fst r)).
Proof.
  intros st s f inv vs f0 id c R A G S r. apply rreachable_reachable in R.
  pose proof (reachable_Inv st R) as I. pose proof (reachable_J st R) as HJ.
  assert (Hr : racing st (DOk s f inv vs) s f0 id c).
  { split; [exists f, inv, vs; reflexivity|]. split; [exact A|]. split; [exact G|]. split; [exact S|].
    exact (iv_wait _ _ _ I id c G S). }
  assert (E : r = finish (pop_awaiting st s) id (ORaise id KTimeout)).
  { unfold r. destruct (race_spec st (DOk s f inv vs)) as [[_ Hn]|(s' & e' & call' & c' & Hr' & E)].
    - destruct (Hn s f0 id c Hr).
    - destruct (racing_unique _ _ _ _ _ _ _ _ _ _ Hr Hr') as (-> & _ & -> & _). exact E. }
  rewrite E.
  assert (Hno : forall s' f', ~ In (s', (f', id))
                   (p_awaiting (fst (finish (pop_awaiting st s) id (ORaise id KTimeout))))).
  { intros s' f' H.
    assert (H1 : In id (aw_ids (p_awaiting (fst (finish (pop_awaiting st s) id (ORaise id KTimeout))))))
      by exact (in_map (fun z => snd (snd z)) _ _ H).
    rewrite finish_fst in H1. apply release_aw in H1.
    cbn [with_calls p_awaiting p_calls] in H1. destruct H1 as [H1|H1].
    - apply in_map_iff in H1. destruct H1 as ([s2 [f2 i2]] & E2 & H2). cbn [snd] in E2. subst i2.
      exact (proj2 (pop_J st s f0 id HJ A) c G s2 f2 H2).
    - revert H1. apply call_get_None. cbn [pop_awaiting p_calls].
      rewrite (call_get_del id id _ (iv_nodup _ _ _ I)), N.eqb_refl. reflexivity. }
  split; [rewrite finish_snd; left; reflexivity|].
  split; [apply finish_ends; exact (iv_nodup _ _ _ I)|]. split; [exact Hno|apply Hno].
Qed.

(* 6 -- a frame that matched a pending entry is not handed to the callbacks by a race step either ... *)
Theorem race_pending_not_callback : forall st s f inv vs x f' vs',
  aw_get s (p_awaiting st) = Some x ->
  ~ In (OCallback f' vs') (snd (race_step st (DOk s f inv vs))).
Proof.
  intros st s f inv vs [expected call] f' vs' A.
  exact (outcome_no_callback _ _ _ _ _ _ (race_outcome st s f inv vs expected call A)).
Qed.

(* ... and one that answers no pending call is delivered exactly once and changes nothing (no timeout of
   "the call waiting under its number" exists) *)
Theorem race_callbacks_once : forall st s f inv vs,
  aw_get s (p_awaiting st) = None ->
  race_step st (DOk s f inv vs) = (st, [OCallback f vs]).
Proof.
  intros st s f inv vs A. rewrite race_unpending.
  - apply callbacks_once. exact A.
  - intros s0 f0 inv0 vs0 E. inversion E; subst. exact A.
Qed.

(* a frame for a call that is still inside send_data is the plain frame: recorded, returned when send_data
   returns (the timeout context has not been entered) *)
Theorem race_while_sending : forall st s f inv vs f0 id c,
  aw_get s (p_awaiting st) = Some (f0, id) -> call_get id (p_calls st) = Some c -> k_stage c = PSending ->
  race_step st (DOk s f inv vs) = proto_step st (EFrame (DOk s f inv vs)).
Proof.
  intros st s f inv vs f0 id c A G S.
  destruct (race_spec st (DOk s f inv vs)) as [[E _]|(s' & e' & call' & c' & ((f1 & inv1 & vs1 & Hd) & A' & G' & S' & _) & _)].
  - exact E.
  - inversion Hd; subst s'. rewrite A in A'. inversion A'; subst e' call'. rewrite G in G'. inversion G'; subst c'.
    rewrite S in S'. discriminate S'.
Qed.

(* 7 -- the slot is released and handed to the head of the queue in the same step: for every step of a run
   with race steps *)
Theorem rslot_handed_on : forall st e id o p n id' q c', rreachable st ->
  p_holder st = Some id -> p_queue st = (p, n, id') :: q -> call_get id' (p_calls st) = Some c' ->
  In o (snd (rstep st e)) -> ends id o ->
  In (OSend id' (p_seq st) (k_fid c')) (snd (rstep st e)) /\
  p_holder (fst (rstep st e)) = Some id' /\ p_queue (fst (rstep st e)) = q.
Proof.
  intros st e id o p n id' q c' R Hh Hq G' Hin He. apply rreachable_reachable in R.
  destruct e as [e|d]; cbn [rstep] in *.
  - exact (slot_handed_on st e id o p n id' q c' R Hh Hq G' Hin He).
  - destruct d as [|s f|s f|s f inv vs]; try destruct Hin.
    destruct (aw_get s (p_awaiting st)) as [[expected call]|] eqn:A.
    + pose proof (reachable_Inv st R) as I.
      exact (outcome_hands_on (pop_awaiting st s) _ _ _ id o p n id' q c' (Inv_pop st s I)
               (race_outcome st s f inv vs expected call A) Hq G' Hin He).
    + exfalso. rewrite (race_callbacks_once st s f inv vs A) in Hin. destruct Hin as [Hin|[]].
      destruct He as [[x E]|[x E]]; rewrite E in Hin; discriminate Hin.
Qed.

(* the form asked for: the call that raced is the holder, the head of the queue is sent under the next number *)
Corollary race_slot_handed_on : forall st s f inv vs f0 id c p n id' q c', rreachable st ->
  aw_get s (p_awaiting st) = Some (f0, id) -> call_get id (p_calls st) = Some c -> k_stage c = PWaiting ->
  p_queue st = (p, n, id') :: q -> call_get id' (p_calls st) = Some c' ->
  let r := race_step st (DOk s f inv vs) in
  In (OSend id' (p_seq st) (k_fid c')) (snd r) /\ p_holder (fst r) = Some id' /\ p_queue (fst r) = q.
Proof.
  intros st s f inv vs f0 id c p n id' q c' R A G S Hq G' r.
  assert (Hh : p_holder st = Some id).
  { apply (iv_hold _ _ _ (rreachable_Inv st R) id c G). rewrite S. discriminate. }
  refine (rslot_handed_on st (RRace (DOk s f inv vs)) id (ORaise id KTimeout) p n id' q c' R Hh Hq G' _ _).
  - exact (proj1 (race_times_out st s f inv vs f0 id c R A G S)).
  - right. exists KTimeout. reflexivity.
Qed.

(* nobody queued: the slot is simply free afterwards *)
Theorem race_slot_released : forall st s f inv vs f0 id c, rreachable st ->
  aw_get s (p_awaiting st) = Some (f0, id) -> call_get id (p_calls st) = Some c -> k_stage c = PWaiting ->
  p_queue st = [] -> p_holder (fst (race_step st (DOk s f inv vs))) = None.
Proof.
  intros st s f inv vs f0 id c R A G S Hq. pose proof (rreachable_Inv st R) as I.
  assert (Hr : racing st (DOk s f inv vs) s f0 id c).
  { split; [exists f, inv, vs; reflexivity|]. split; [exact A|]. split; [exact G|]. split; [exact S|].
    exact (iv_wait _ _ _ I id c G S). }
  destruct (race_spec st (DOk s f inv vs)) as [[_ Hn]|(s' & e' & call' & c' & Hr' & E)].
  - destruct (Hn s f0 id c Hr).
  - destruct (racing_unique _ _ _ _ _ _ _ _ _ _ Hr Hr') as (-> & _ & -> & _). rewrite E, finish_fst.
    unfold release. cbn [with_calls pop_awaiting p_queue]. rewrite Hq. reflexivity.
Qed.

(* 8 -- sequence numbers: a step of a run with race steps sends at most one request, under the current number,
   which then advances by one modulo 256 *)
Theorem rstep_seq : forall st e, SeqStep (p_seq st) (rstep st e).
Proof.
  intros st [e|d]; cbn [rstep]; [apply step_seq|].
  destruct (race_spec st d) as [[E _]|(s & e & call & c & _ & E)]; rewrite E.
  - apply step_seq.
  - exact (finish_seq (pop_awaiting st s) call (ORaise call KTimeout) I).
Qed.

(* ---- run-level theorems: by [rrun_expand] they are those of the plain machine ------------------------ *)
(* 9 *)
Theorem rone_in_flight : forall es, rcalls_unique es ->
  (List.length (in_flight (rfinal es)) <= 1)%nat /\
  (forall c, In c (in_flight (rfinal es)) -> p_holder (rfinal es) = Some (k_id c)).
Proof. intros es U. rewrite rfinal_expand. exact (one_in_flight _ (rcalls_unique_expand es U)). Qed.

(* 10 *)
Theorem rqueue_sorted : forall es, rcalls_unique es -> StronglySorted q_before (p_queue (rfinal es)).
Proof. intros es U. rewrite rfinal_expand. exact (queue_sorted _ (rcalls_unique_expand es U)). Qed.

(* 11 *)
Theorem rno_slot_leak : forall es, rcalls_unique es ->
  p_holder (rfinal es) = None -> p_queue (rfinal es) = [] /\ in_flight (rfinal es) = [].
Proof. intros es U. rewrite rfinal_expand. exact (no_slot_leak _ (rcalls_unique_expand es U)). Qed.

Theorem rholder_in_flight : forall es h, rcalls_unique es -> p_holder (rfinal es) = Some h ->
  exists c, In c (in_flight (rfinal es)) /\ k_id c = h.
Proof. intros es h U. rewrite rfinal_expand. exact (holder_in_flight _ h (rcalls_unique_expand es U)). Qed.

(* 12 *)
Theorem rseq_consecutive : forall es, rcalls_unique es ->
  map (fun x => snd (fst x)) (sends (routs es)) =
    map (fun k => N.of_nat k mod 256) (seq 0 (List.length (sends (routs es)))).
Proof. intros es U. rewrite routs_expand. exact (seq_consecutive _ (rcalls_unique_expand es U)). Qed.

(* a frame handled by a plain step of a run with race steps completes only the call registered under its number *)
Theorem rno_cross : forall st s f inv vs id vs', rreachable st ->
  In (OReturn id vs') (snd (proto_step st (EFrame (DOk s f inv vs)))) ->
  aw_get s (p_awaiting st) = Some (f, id) /\ inv = false /\ vs' = vs.
Proof. intros st s f inv vs id vs' R. exact (no_cross st s f inv vs id vs' (rreachable_reachable st R)). Qed.

(* ---- pass: where returns come from, over runs with race steps ------------------------------------- *)
Lemma rstep_prov : forall Sent Wit st e, AwOK Sent st -> RpOK Wit st ->
  (forall id s f, In (OSend id s f) (snd (rstep st e)) -> Sent id s f) ->
  (forall s f vs id, frame_of e = Some (DOk s f false vs) -> In (s, (f, id)) (p_awaiting st) -> Wit id vs) ->
  ProvOK Sent Wit (rstep st e).
Proof.
  intros Sent Wit st e HA HR Hs Hf. destruct e as [e|d]; cbn [rstep] in *.
  - apply step_prov; [exact HA|exact HR|exact Hs|]. intros s f vs id E. subst e. exact (Hf s f vs id eq_refl).
  - destruct d as [|s f|s f|s f inv vs];
      try (split; [exact HA|split; [exact HR|intros i vs0 []]]).
    destruct (aw_get s (p_awaiting st)) as [[expected call]|] eqn:A.
    + apply (outcome_prov Sent Wit (pop_awaiting st s) call (frame_reply inv expected f vs)).
      * intros s' f' i H. cbn [pop_awaiting p_awaiting] in H. apply In_aw_del in H. exact (HA s' f' i H).
      * exact HR.
      * exact Hs.
      * unfold frame_reply. intros vs0 E. destruct inv; [discriminate|].
        destruct (N.eqb_spec expected f) as [E1|E1]; [|discriminate]. inversion E; subst.
        apply (Hf s f vs0 call eq_refl). apply aw_get_In. exact A.
      * exact (race_outcome st s f inv vs expected call A).
    + rewrite (race_callbacks_once st s f inv vs A). split; [exact HA|]. split; [exact HR|].
      intros i vs0 [H|[]]. discriminate.
Qed.

Definition rwitness (es : list revent) (id : N) (vs : list ival) : Prop :=
  exists es1 e es2 s f, es = es1 ++ e :: es2 /\ frame_of e = Some (DOk s f false vs) /\
                        In (OSend id s f) (routs es1).

Lemma rwitness_snoc : forall es e id vs, rwitness es id vs -> rwitness (es ++ [e]) id vs.
Proof.
  intros es e id vs (es1 & e0 & es2 & s & f & E & F & H). exists es1, e0, (es2 ++ [e]), s, f.
  split; [|split; [exact F|exact H]]. rewrite E, <- app_assoc. reflexivity.
Qed.

Lemma rprov_trace : forall es,
  AwOK (fun id s f => In (OSend id s f) (routs es)) (rfinal es) /\
  RpOK (rwitness es) (rfinal es) /\
  (forall id vs, In (OReturn id vs) (routs es) -> rwitness es id vs).
Proof.
  induction es as [|e es IH] using rev_ind.
  - split; [intros s f id []|]. split; [intros c vs []|intros id vs []].
  - destruct IH as [HA [HR Ho]].
    destruct (rstep_prov (fun id s f => In (OSend id s f) (routs (es ++ [e]))) (rwitness (es ++ [e]))
                         (rfinal es) e) as [H1 [H2 H3]].
    + intros s f id H. rewrite routs_snoc. apply in_or_app. left. exact (HA s f id H).
    + intros c vs H R. apply rwitness_snoc. exact (HR c vs H R).
    + intros id s f H. rewrite routs_snoc. apply in_or_app. right. exact H.
    + intros s f vs id E H. exists es, e, [], s, f. split; [reflexivity|]. split; [exact E|exact (HA s f id H)].
    + rewrite rfinal_snoc. split; [exact H1|]. split; [exact H2|].
      intros id vs H. rewrite routs_snoc in H. apply in_app_or in H. destruct H as [H|H].
      * apply rwitness_snoc. exact (Ho id vs H).
      * exact (H3 id vs H).
Qed.

(* 13 -- own response, over runs with race steps: a call returns exactly the payload of a frame of the run
   that carried the sequence number and frame id of its own request, handled after that request was sent *)
Theorem rown_response : forall es id vs, rcalls_unique es ->
  In (OReturn id vs) (routs es) ->
  exists es1 e es2 s f, es = es1 ++ e :: es2 /\ frame_of e = Some (DOk s f false vs) /\
                        In (OSend id s f) (routs es1).
Proof. intros es id vs _ H. exact (proj2 (proj2 (rprov_trace es)) id vs H). Qed.

(* ---- non-vacuity: call 1 (ordinary) waits under number 0, call 2 (keep-alive) is queued; the reply of
        call 1 is handled in the iteration in which its timeout expires: call 1 raises the timeout, call 2
        is sent under number 1 in the same step, the entry is gone; the same frame again is a callback ------ *)
Example race_example :
  let d := DOk 0 10 false [XNone] in
  let es := [REv (ECall 1 0 10); REv (ECall 2 999 5); REv (ESendDone 1 true); RRace d; REv (EFrame d)] in
  nth 3 (snd (rrun p_init es)) [] = [ORaise 1 KTimeout; OSend 2 1 5] /\
  nth 4 (snd (rrun p_init es)) [] = [OCallback 10 [XNone]] /\
  p_awaiting (rfinal es) = [(1, (5, 2))] /\ p_holder (rfinal es) = Some 2.
Proof. vm_compute. repeat split. Qed.
