(* EZSP.write_config as emitted from its SOURCE TEXT (gen/GenConfigFn.v: Python dicts as association lists with
   dict semantics, the three loops as folds, the NCP's answers as an oracle) against the hand-written model
   (model/Config.v):
     - [src_write_config]: for every supported version, every override dict with distinct keys and every NCP
       whose configuration reads are described by [cur], the coroutine runs to its end and the writes it
       issues are exactly [write_plan] -- the values, then the configuration settings, same ids, same values,
       same order;
     - [src_rejection_independent]: two NCPs that answer the reads alike get the same command sequence,
       whatever statuses they return for the writes (no well-formedness needed);
     - [src_short_value_read_raises]: a getValue answer shorter than the value's type ends the coroutine
       with an exception (the hypothesis [values_readable] of the first theorem is needed).
   Well-formedness the model already presupposes, made explicit: the configuration ids of a version's table
   are pairwise distinct, so are the schema-default ids and the caller's keys ([admissible]); in addition the
   value ids of the table are pairwise distinct (the model lists them with [flat_map], the source puts them in
   a dict).  All hold for the generated tables ([versions_admissible], [src_versions_check]). *)
From Coq Require Import ZArith NArith List Bool Lia.
Import ListNotations.
Require Import BV.lib.PyDict BV.gen.GenConfig BV.gen.GenStatus BV.model.Status BV.model.Config
               BV.proofs.Config_proofs BV.gen.GenConfigFn.
Open Scope N_scope.

(* ---------- the model's lists as the source's dicts ---------- *)

Definition of_entry (e : entry) : RuntimeConfig :=
  {| rc_config_id := e_id e; rc_value := e_val e; rc_minimum := e_min e |}.
Definition dict_of (d : list entry) : dict RuntimeConfig := map (fun e => (e_id e, of_entry e)) d.

Definition vid (x : N * N * N) : N := fst (fst x).
Definition of_value (x : N * N * N) : ValueConfig :=
  {| vc_value_id := fst (fst x); vc_value := snd (fst x); vc_width := snd x |}.
Definition vdict_of (l : list (N * N * N)) : dict ValueConfig := map (fun x => (vid x, of_value x)) l.

(* the two projections of a version's table, for any table *)
Definition rows_config (rows : list (bool * N * N * bool * N)) : list entry :=
  flat_map (fun x => match x with (false, id, val, mn, _) => [{| e_id := id; e_val := val; e_min := mn |}]
                                | _ => [] end) rows.
Definition rows_values (rows : list (bool * N * N * bool * N)) : list (N * N * N) :=
  flat_map (fun x => match x with (true, id, val, _, w) => [(id, val, w)] | _ => [] end) rows.

Lemma config_defaults_rows : forall v, config_defaults v = rows_config (defaults_of v).
Proof. reflexivity. Qed.
Lemma value_defaults_rows : forall v, value_defaults v = rows_values (defaults_of v).
Proof. reflexivity. Qed.

(* ---------- what is observed of a run ---------- *)

Definition is_write (c : cmd) : bool :=
  match c with CSetValue _ _ _ | CSetConfigurationValue _ _ => true | _ => false end.

Definition plan_cmds (p : list (N * N * N) * list (N * N)) : list cmd :=
  map (fun x => CSetValue (fst (fst x)) (snd (fst x)) (snd x)) (fst p)
  ++ map (fun x => CSetConfigurationValue (fst x) (snd x)) (snd p).

(* the NCP answers a configuration read of [id] as [cur] says: a value, or an error status *)
Definition config_reads (o : ncp) (cur : list (N * option N)) : Prop :=
  forall tr id,
    match assoc id cur with
    | Some (Some c) => py_status_ok (fst (ans_getConfigurationValue o tr id)) = true
                       /\ snd (ans_getConfigurationValue o tr id) = c
    | _ => py_status_ok (fst (ans_getConfigurationValue o tr id)) = false
    end.

(* a successful value read returns at least as many bytes as the value's type has *)
Definition values_readable (o : ncp) (vals : list (N * N * N)) : Prop :=
  forall tr x, In x vals -> py_status_ok (fst (ans_getValue o tr (vid x))) = true ->
    snd x <= N.of_nat (List.length (snd (ans_getValue o tr (vid x)))).

Definition same_reads (o1 o2 : ncp) : Prop :=
  (forall tr id, ans_getValue o1 tr id = ans_getValue o2 tr id)
  /\ (forall tr id, ans_getConfigurationValue o1 tr id = ans_getConfigurationValue o2 tr id).

(* the full command sequence of a run that completes *)
Definition value_cmds (x : N * N * N) : list cmd :=
  [CGetValue (vid x); CSetValue (vid x) (snd (fst x)) (snd x)].
Definition config_cmds (cur : list (N * option N)) (e : entry) : list cmd :=
  CGetConfigurationValue (e_id e) :: map (fun p => CSetConfigurationValue (fst p) (snd p)) (wr cur e).
Definition model_trace (vals : list (N * N * N)) (d : list entry) (cur : list (N * option N)) : list cmd :=
  flat_map value_cmds vals ++ flat_map (config_cmds cur) d.

(* ---------- dict primitives ---------- *)

Lemma dict_get_assoc : forall (A : Type) k (l : list (N * A)), dict_get k l = assoc k l.
Proof.
  intros A k l. induction l as [|[k' v] l IH]; simpl; [reflexivity|].
  destruct (k' =? k); [reflexivity | exact IH].
Qed.

Lemma dict_get_absent : forall (A : Type) k (d : dict A), ~ In k (map fst d) -> dict_get k d = None.
Proof.
  intros A k d. induction d as [|[k' v] d IH]; simpl; intros H; [reflexivity|].
  destruct (k' =? k) eqn:E.
  - apply N.eqb_eq in E. exfalso. apply H. left. exact E.
  - apply IH. intros Hin. apply H. right. exact Hin.
Qed.

Lemma dict_set_absent : forall (A : Type) k (v : A) (d : dict A),
  dict_get k d = None -> dict_set k v d = d ++ [(k, v)].
Proof.
  intros A k v d. induction d as [|[k' v'] d IH]; simpl; intros H; [reflexivity|].
  destruct (k' =? k); [discriminate H|]. rewrite (IH H). reflexivity.
Qed.

Lemma dict_mem_keys : forall (A : Type) k (d : dict A), dict_mem k d = set_mem k (dict_keys d).
Proof.
  intros A k d. unfold dict_mem, set_mem, dict_keys. induction d as [|[k' v] d IH]; simpl; [reflexivity|].
  rewrite (N.eqb_sym k k'). destruct (k' =? k); simpl; [reflexivity | exact IH].
Qed.

Lemma dict_mem_user : forall k (user : list (N * option N)), dict_mem k user = user_has k user.
Proof.
  intros k user. unfold dict_mem. rewrite dict_get_assoc. rewrite user_has_assoc. reflexivity.
Qed.

Lemma dict_get_of : forall k d, dict_get k (dict_of d) = option_map of_entry (find_id k d).
Proof.
  intros k d. induction d as [|a d IH]; simpl; [reflexivity|].
  destruct (e_id a =? k); [reflexivity | exact IH].
Qed.

Lemma dict_of_app : forall l1 l2, dict_of (l1 ++ l2) = dict_of l1 ++ dict_of l2.
Proof. intros l1 l2. unfold dict_of. apply map_app. Qed.

Lemma keys_dict_of : forall d, map fst (dict_of d) = ids d.
Proof. intros d. unfold dict_of, ids. rewrite map_map. reflexivity. Qed.

Lemma values_dict_of : forall d, dict_values (dict_of d) = map of_entry d.
Proof. intros d. unfold dict_values, dict_of. rewrite map_map. reflexivity. Qed.

Lemma values_vdict_of : forall l, dict_values (vdict_of l) = map of_value l.
Proof. intros l. unfold dict_values, vdict_of. rewrite map_map. reflexivity. Qed.

(* ---------- the model's list operations are the dict operations ---------- *)

Lemma set_user_dict : forall id v d,
  dict_set id {| rc_config_id := id; rc_value := v; rc_minimum := false |} (dict_of d) = dict_of (set_user id v d).
Proof.
  intros id v d. induction d as [|a d IH]; simpl; [reflexivity|].
  destruct (e_id a =? id) eqn:E; simpl.
  - apply N.eqb_eq in E. rewrite E. reflexivity.
  - rewrite IH. reflexivity.
Qed.

Lemma remove_dict : forall id d, dict_pop id (dict_of d) = dict_of (remove_id id d).
Proof.
  intros id d. induction d as [|a d IH]; simpl; [reflexivity|].
  destruct (e_id a =? id); simpl; [reflexivity | rewrite IH; reflexivity].
Qed.

Lemma set_sd_dict_present : forall id v d e, find_id id d = Some e ->
  dict_set id {| rc_config_id := e_id e; rc_value := v; rc_minimum := e_min e |}
    (dict_of d) = dict_of (set_schema_default id v d).
Proof.
  intros id v d e. induction d as [|a d IH]; simpl; intros H; [discriminate H|].
  destruct (e_id a =? id) eqn:E; simpl.
  - injection H as <-. apply N.eqb_eq in E. rewrite E. reflexivity.
  - rewrite (IH H). reflexivity.
Qed.

Lemma set_sd_dict_absent : forall id v d, find_id id d = None ->
  dict_set id {| rc_config_id := id; rc_value := v; rc_minimum := false |} (dict_of d)
  = dict_of (set_schema_default id v d).
Proof.
  intros id v d. induction d as [|a d IH]; simpl; intros H; [reflexivity|].
  destruct (e_id a =? id); [discriminate H|]. simpl. rewrite (IH H). reflexivity.
Qed.

Lemma move_dict_present : forall K d e, NoDup (ids d) -> find_id K d = Some e ->
  dict_get K (dict_of d) = Some (of_entry e)
  /\ dict_set K (of_entry e) (dict_pop K (dict_of d)) = dict_of (move_last K d).
Proof.
  intros K d e Hnd F. split; [rewrite dict_get_of, F; reflexivity|].
  rewrite (move_last_some K d e F), remove_dict, dict_of_app.
  destruct (find_id_some K d e F) as [_ He].
  rewrite dict_set_absent.
  - simpl. rewrite He. reflexivity.
  - rewrite dict_get_of, (find_removed_self K d Hnd). reflexivity.
Qed.

Lemma move_dict_absent : forall K d, find_id K d = None ->
  dict_mem K (dict_of d) = false /\ move_last K d = d.
Proof.
  intros K d F. split; [unfold dict_mem; rewrite dict_get_of, F; reflexivity | exact (move_last_none K d F)].
Qed.

(* ---------- loop 1: for cfg in DEFAULT_CONFIG[version] ---------- *)

Lemma nodup_snoc : forall (l1 l2 : list N) x, NoDup (l1 ++ x :: l2) -> NoDup ((l1 ++ [x]) ++ l2).
Proof. intros l1 l2 x H. rewrite <- app_assoc. exact H. Qed.

Lemma nodup_mid_absent : forall (l1 l2 : list N) x, NoDup (l1 ++ x :: l2) -> ~ In x l1.
Proof.
  intros l1 l2 x H Hin. apply NoDup_remove_2 in H. apply H. apply in_or_app. left. exact Hin.
Qed.

Lemma for1_fold : forall rows c vs tr,
  NoDup (map fst c ++ ids (rows_config rows)) -> NoDup (map fst vs ++ map vid (rows_values rows)) ->
  fold_left py_write_config_for1 (map cfg_of_row rows) (c, vs, tr, Running)
  = (c ++ dict_of (rows_config rows), vs ++ vdict_of (rows_values rows), tr, Running).
Proof.
  induction rows as [|[[[[b id] val] mn] w] rows IH]; intros c vs tr Hc Hv.
  - simpl. rewrite !app_nil_r. reflexivity.
  - destruct b.
    + (* a ValueConfig *)
      change (rows_values ((true, id, val, mn, w) :: rows)) with ((id, val, w) :: rows_values rows) in *.
      change (rows_config ((true, id, val, mn, w) :: rows)) with (rows_config rows) in *.
      cbn [map fold_left py_write_config_for1 cfg_of_row vc_value_id vc_value vc_width].
      cbn [map vid fst] in Hv.
      rewrite dict_set_absent by (apply dict_get_absent; exact (nodup_mid_absent _ _ _ Hv)).
      rewrite IH.
      * cbn [vdict_of map]. rewrite <- app_assoc. reflexivity.
      * exact Hc.
      * rewrite map_app. cbn [map fst]. apply nodup_snoc. exact Hv.
    + (* a RuntimeConfig *)
      change (rows_config ((false, id, val, mn, w) :: rows))
        with ({| e_id := id; e_val := val; e_min := mn |} :: rows_config rows) in *.
      change (rows_values ((false, id, val, mn, w) :: rows)) with (rows_values rows) in *.
      cbn [map fold_left py_write_config_for1 cfg_of_row rc_config_id rc_value rc_minimum].
      unfold ids in Hc. cbn [map e_id] in Hc.
      rewrite dict_set_absent by (apply dict_get_absent; exact (nodup_mid_absent _ _ _ Hc)).
      rewrite IH.
      * cbn [dict_of map]. rewrite <- app_assoc. reflexivity.
      * rewrite map_app. cbn [map fst]. apply nodup_snoc. exact Hc.
      * exact Hv.
Qed.

(* ---------- loop 2: for name, value in config.items() ---------- *)

Lemma for2_user : forall us part d vs tr,
  (forall kv, In kv part -> set_mem (fst kv) us = true) ->
  fold_left (py_write_config_for2 us) part (dict_of d, vs, tr, Running)
  = (dict_of (apply_user d part), vs, tr, Running).
Proof.
  intros us part. induction part as [|[k val] part IH]; intros d vs tr H; [reflexivity|].
  rewrite apply_user_cons. cbn [fold_left]. rewrite <- IH by (intros kv Hin; apply H; right; exact Hin).
  f_equal. unfold py_write_config_for2, ustep. cbn [fst snd].
  destruct val as [val|].
  - pose proof (H (k, Some val) (or_introl eq_refl)) as Hk. cbn [fst] in Hk. rewrite Hk.
    cbn [negb andb]. rewrite set_user_dict. reflexivity.
  - rewrite remove_dict. reflexivity.
Qed.

Lemma for2_defaults : forall us (config : dict (option N)) user sd d vs tr,
  (forall k, set_mem k us = user_has k user) -> (forall k, dict_mem k config = user_has k user) ->
  fold_left (py_write_config_for2 us)
    (map (fun kv => (fst kv, Some (snd kv))) (filter (fun kv => negb (dict_mem (fst kv) config)) sd))
    (dict_of d, vs, tr, Running)
  = (dict_of (apply_schema_defaults d user sd), vs, tr, Running).
Proof.
  intros us config user sd. induction sd as [|[k val] sd IH]; intros d vs tr Hus Hcf; [reflexivity|].
  rewrite asd_cons. unfold sstep. cbn [filter fst snd]. rewrite Hcf.
  destruct (user_has k user) eqn:U; cbn [negb].
  - apply IH; assumption.
  - cbn [map fold_left fst snd]. rewrite <- IH by assumption. f_equal.
    unfold py_write_config_for2. rewrite Hus, U. cbn [negb andb].
    unfold dict_mem. rewrite dict_get_of. destruct (find_id k d) as [e|] eqn:F; cbn [option_map].
    + cbn [of_entry rc_config_id rc_minimum]. rewrite (set_sd_dict_present k val d e F). reflexivity.
    + rewrite (set_sd_dict_absent k val d F). reflexivity.
Qed.

Lemma set_mem_user : forall k (user : list (N * option N)), set_mem k (dict_keys user) = user_has k user.
Proof. intros k user. rewrite <- dict_mem_keys. apply dict_mem_user. Qed.

Lemma for2_fold : forall sd user d vs tr,
  fold_left (py_write_config_for2 (dict_keys user)) (dict_items (py_schema_validate sd user)) (dict_of d, vs, tr, Running)
  = (dict_of (apply_schema_defaults (apply_user d user) user sd), vs, tr, Running).
Proof.
  intros sd user d vs tr. unfold dict_items, py_schema_validate. rewrite fold_left_app.
  rewrite for2_user.
  - apply for2_defaults; intros k0; [apply set_mem_user | apply dict_mem_user].
  - intros [k val] Hin. cbn [fst]. rewrite set_mem_user, user_has_assoc.
    destruct (assoc k user) eqn:A; [reflexivity|].
    exfalso. apply assoc_none in A. apply A. change k with (fst (k, val)). apply in_map. exact Hin.
Qed.

(* ---------- loop 3: for cfg in ezsp_values.values() ---------- *)

Lemma deserialize_enough : forall w data, w <= N.of_nat (List.length data) ->
  exists r, py_int_deserialize w data = Some r.
Proof.
  intros w data H. unfold py_int_deserialize.
  replace (N.of_nat (List.length data) <? w) with false by (symmetry; apply N.ltb_ge; exact H).
  eexists. reflexivity.
Qed.

Lemma for3_fold : forall o vals, values_readable o vals ->
  forall l c vs tr, incl l vals ->
  fold_left (py_write_config_for3 o) (map of_value l) (c, vs, tr, Running)
  = (c, vs, tr ++ flat_map value_cmds l, Running).
Proof.
  intros o vals Hr. induction l as [|x l IH]; intros c vs tr Hin.
  - simpl. rewrite app_nil_r. reflexivity.
  - cbn [map fold_left flat_map].
    assert (Hx : In x vals) by (apply Hin; left; reflexivity).
    assert (Hl : incl l vals) by (intros y Hy; apply Hin; right; exact Hy).
    replace (py_write_config_for3 o (c, vs, tr, Running) (of_value x))
      with (c, vs, (tr ++ value_cmds x), Running).
    + rewrite (IH c vs (tr ++ value_cmds x) Hl). rewrite <- app_assoc. reflexivity.
    + unfold py_write_config_for3, value_cmds, of_value. cbn [vc_value_id vc_value vc_width].
      pose proof (Hr tr x Hx) as Hx'. unfold vid in *.
      destruct (ans_getValue o tr (fst (fst x))) as [st data]. cbn [fst snd] in Hx'.
      destruct (py_status_ok st) eqn:S.
      * destruct (deserialize_enough _ _ (Hx' eq_refl)) as [[cv rest] ->].
        rewrite <- app_assoc. cbn [app].
        destruct (negb (py_status_ok (ans_setValue o (tr ++ [CGetValue (fst (fst x))]) (fst (fst x)) (snd (fst x)) (snd x))));
          reflexivity.
      * rewrite <- app_assoc. cbn [app].
        destruct (negb (py_status_ok (ans_setValue o (tr ++ [CGetValue (fst (fst x))]) (fst (fst x)) (snd (fst x)) (snd x))));
          reflexivity.
Qed.

(* ---------- loop 4: for cfg in ezsp_config.values() ---------- *)

Lemma for4_fold : forall o cur, config_reads o cur ->
  forall d c vs tr,
  fold_left (py_write_config_for4 o) (map of_entry d) (c, vs, tr, Running)
  = (c, vs, tr ++ flat_map (config_cmds cur) d, Running).
Proof.
  intros o cur Hr. induction d as [|e d IH]; intros c vs tr.
  - simpl. rewrite app_nil_r. reflexivity.
  - cbn [map fold_left flat_map].
    replace (py_write_config_for4 o (c, vs, tr, Running) (of_entry e))
      with (c, vs, (tr ++ config_cmds cur e), Running).
    + rewrite (IH c vs (tr ++ config_cmds cur e)). rewrite <- app_assoc. reflexivity.
    + unfold py_write_config_for4, config_cmds, wr, of_entry. cbn [rc_config_id rc_value rc_minimum].
      pose proof (Hr tr (e_id e)) as He.
      destruct (ans_getConfigurationValue o tr (e_id e)) as [st val]. cbn [fst snd] in He.
      destruct (assoc (e_id e) cur) as [[cv|]|].
      * destruct He as [-> ->]. cbn [andb].
        destruct (e_min e && (e_val e <=? cv)); cbn [map].
        -- reflexivity.
        -- rewrite <- app_assoc. cbn [app fst snd].
           destruct (negb (py_status_ok (ans_setConfigurationValue o (tr ++ [CGetConfigurationValue (e_id e)]) (e_id e) (e_val e))));
             reflexivity.
      * rewrite He. cbn [andb map]. rewrite <- app_assoc. cbn [app fst snd].
        destruct (negb (py_status_ok (ans_setConfigurationValue o (tr ++ [CGetConfigurationValue (e_id e)]) (e_id e) (e_val e))));
          reflexivity.
      * rewrite He. cbn [andb map]. rewrite <- app_assoc. cbn [app fst snd].
        destruct (negb (py_status_ok (ans_setConfigurationValue o (tr ++ [CGetConfigurationValue (e_id e)]) (e_id e) (e_val e))));
          reflexivity.
Qed.

(* ---------- the writes of the model trace are the plan ---------- *)

Lemma writes_value_cmds : forall l,
  filter is_write (flat_map value_cmds l) = map (fun x => CSetValue (fst (fst x)) (snd (fst x)) (snd x)) l.
Proof.
  induction l as [|x l IH]; [reflexivity|]. cbn [flat_map value_cmds app filter is_write map].
  rewrite IH. reflexivity.
Qed.

Lemma writes_config_cmds : forall cur d,
  filter is_write (flat_map (config_cmds cur) d)
  = map (fun x => CSetConfigurationValue (fst x) (snd x)) (flat_map (wr cur) d).
Proof.
  intros cur d. induction d as [|e d IH]; [reflexivity|].
  cbn [flat_map]. rewrite filter_app, map_app, IH. f_equal.
  unfold config_cmds. cbn [filter is_write].
  destruct (wr_cases cur e) as [-> | ->]; reflexivity.
Qed.

Lemma writes_model_trace : forall vals d cur,
  filter is_write (model_trace vals d cur) = plan_cmds (vals, config_writes d cur).
Proof.
  intros vals d cur. unfold model_trace, plan_cmds. cbn [fst snd].
  rewrite filter_app, writes_value_cmds, writes_config_cmds, config_writes_eq. reflexivity.
Qed.

(* ---------- the whole function, any table ---------- *)

Lemma src_body_trace : forall rows sd user cur o,
  admissible (rows_config rows) sd user -> NoDup (map vid (rows_values rows)) ->
  config_reads o cur -> values_readable o (rows_values rows) ->
  py_write_config_body (map cfg_of_row rows) sd o user
  = (model_trace (rows_values rows) (merged_gen (rows_config rows) sd user) cur, Returned).
Proof.
  intros rows sd user cur o [Hd [Hsd Hu]] Hv Hcr Hvr.
  unfold py_write_config_body. cbv zeta.
  rewrite (for1_fold rows [] [] []) by (cbn [map app]; assumption).
  cbn [app]. rewrite for2_fold.
  set (d1 := apply_schema_defaults (apply_user (rows_config rows) user) user sd).
  assert (Hd1 : NoDup (ids d1)) by (apply nodup_asd, nodup_apply_user; exact Hd).
  unfold merged_gen. fold d1. unfold model_trace.
  destruct (find_id CONFIG_PACKET_BUFFER_COUNT d1) as [e|] eqn:F.
  - destruct (move_dict_present _ d1 e Hd1 F) as [G M].
    unfold dict_mem. rewrite G, M.
    rewrite values_vdict_of, (for3_fold o _ Hvr) by apply incl_refl.
    rewrite values_dict_of, (for4_fold o cur Hcr). reflexivity.
  - destruct (move_dict_absent _ d1 F) as [G M]. rewrite G, M.
    rewrite values_vdict_of, (for3_fold o _ Hvr) by apply incl_refl.
    rewrite values_dict_of, (for4_fold o cur Hcr). reflexivity.
Qed.

(* ---------- instantiation on the generated tables ---------- *)

Definition src_version_ok (v : N) : bool :=
  match dict_get v DEFAULT_CONFIG, dict_get v SCHEMA_DEFAULTS with
  | Some rows, Some _ => nodupb (map vid (rows_values rows))
  | _, _ => false
  end.

Lemma src_versions_check : forallb src_version_ok SUPPORTED_VERSIONS = true.
Proof. vm_compute. reflexivity. Qed.

Theorem src_write_config : forall v user cur o,
  In v SUPPORTED_VERSIONS -> NoDup (map fst user) ->
  config_reads o cur -> values_readable o (value_defaults v) ->
  exists tr, py_write_config v o user = Some (tr, Returned)
             /\ filter is_write tr = plan_cmds (write_plan v user cur).
Proof.
  intros v user cur o Hv Hu Hcr Hvr.
  pose proof (proj1 (forallb_forall src_version_ok SUPPORTED_VERSIONS) src_versions_check v Hv) as C.
  destruct (versions_admissible v Hv) as [_ [Hd [Hsd _]]].
  unfold src_version_ok in C. unfold py_write_config.
  rewrite config_defaults_rows in Hd. rewrite value_defaults_rows in Hvr.
  unfold write_plan, merged. rewrite config_defaults_rows, value_defaults_rows.
  unfold schema_defaults_of, defaults_of in *.
  rewrite <- (dict_get_assoc _ v DEFAULT_CONFIG) in *.
  rewrite <- (dict_get_assoc _ v SCHEMA_DEFAULTS) in *.
  destruct (dict_get v DEFAULT_CONFIG) as [rows|]; [|discriminate C].
  destruct (dict_get v SCHEMA_DEFAULTS) as [sd|]; [|discriminate C].
  apply nodupb_sound in C.
  eexists. split.
  - rewrite (src_body_trace rows sd user cur o); [reflexivity | | assumption..].
    split; [exact Hd | split; [exact Hsd | exact Hu]].
  - apply writes_model_trace.
Qed.

(* ---------- the statuses of the writes do not matter ---------- *)

Lemma for3_same : forall o1 o2, same_reads o1 o2 ->
  forall l s, fold_left (py_write_config_for3 o1) l s = fold_left (py_write_config_for3 o2) l s.
Proof.
  intros o1 o2 [Hg _]. induction l as [|x l IH]; intros s; [reflexivity|].
  cbn [fold_left]. rewrite IH. f_equal.
  destruct s as [[[c vs] tr] fl]. unfold py_write_config_for3. destruct fl; try reflexivity.
  rewrite Hg. destruct (ans_getValue o2 tr (vc_value_id x)) as [st data].
  destruct (py_status_ok st).
  - destruct (py_int_deserialize (vc_width x) data) as [[cv rest]|]; [|reflexivity].
    destruct (negb (py_status_ok (ans_setValue o1 _ _ _ _))), (negb (py_status_ok (ans_setValue o2 _ _ _ _))); reflexivity.
  - destruct (negb (py_status_ok (ans_setValue o1 _ _ _ _))), (negb (py_status_ok (ans_setValue o2 _ _ _ _))); reflexivity.
Qed.

Lemma for4_same : forall o1 o2, same_reads o1 o2 ->
  forall l s, fold_left (py_write_config_for4 o1) l s = fold_left (py_write_config_for4 o2) l s.
Proof.
  intros o1 o2 [_ Hg]. induction l as [|x l IH]; intros s; [reflexivity|].
  cbn [fold_left]. rewrite IH. f_equal.
  destruct s as [[[c vs] tr] fl]. unfold py_write_config_for4. destruct fl; try reflexivity.
  rewrite Hg. destruct (ans_getConfigurationValue o2 tr (rc_config_id x)) as [st val].
  destruct (py_status_ok st && rc_minimum x && (rc_value x <=? val)); [reflexivity|].
  destruct (negb (py_status_ok (ans_setConfigurationValue o1 _ _ _))), (negb (py_status_ok (ans_setConfigurationValue o2 _ _ _))); reflexivity.
Qed.

Lemma src_body_same : forall table sd o1 o2 config, same_reads o1 o2 ->
  py_write_config_body table sd o1 config = py_write_config_body table sd o2 config.
Proof.
  intros table sd o1 o2 config H. unfold py_write_config_body. cbv zeta.
  destruct (fold_left py_write_config_for1 table _) as [[[c vs] tr] fl]. destruct fl; try reflexivity.
  destruct (fold_left (py_write_config_for2 _) _ _) as [[[c2 vs2] tr2] fl2]. destruct fl2; try reflexivity.
  destruct (dict_mem CONFIG_PACKET_BUFFER_COUNT c2).
  - destruct (dict_get CONFIG_PACKET_BUFFER_COUNT c2) as [g|]; [|reflexivity].
    rewrite (for3_same o1 o2 H).
    destruct (fold_left (py_write_config_for3 o2) _ _) as [[[c3 vs3] tr3] fl3]. destruct fl3; try reflexivity.
    rewrite (for4_same o1 o2 H). reflexivity.
  - rewrite (for3_same o1 o2 H).
    destruct (fold_left (py_write_config_for3 o2) _ _) as [[[c3 vs3] tr3] fl3]. destruct fl3; try reflexivity.
    rewrite (for4_same o1 o2 H). reflexivity.
Qed.

Theorem src_rejection_independent : forall v o1 o2 config, same_reads o1 o2 ->
  py_write_config v o1 config = py_write_config v o2 config.
Proof.
  intros v o1 o2 config H. unfold py_write_config.
  destruct (dict_get v DEFAULT_CONFIG) as [rows|]; [|reflexivity].
  destruct (dict_get v SCHEMA_DEFAULTS) as [sd|]; [|reflexivity].
  rewrite (src_body_same _ sd o1 o2 config H). reflexivity.
Qed.

(* ---------- non-vacuity, and what [values_readable] is needed for ---------- *)

Definition st_ok : status := (FUnified, sl_OK).
Definition st_fail : status := (FUnified, sl_FAIL).

(* an NCP that reports [cur], returns four bytes for every value and answers the writes by [reject] *)
Definition ncp_of (cur : list (N * option N)) (reject : N -> bool) : ncp :=
  {| ans_getValue := fun _ _ => (st_ok, [0; 0; 0; 0]);
     ans_setValue := fun _ id _ _ => if reject id then st_fail else st_ok;
     ans_getConfigurationValue := fun _ id => match assoc id cur with Some (Some c) => (st_ok, c) | _ => (st_fail, 0) end;
     ans_setConfigurationValue := fun _ id _ => if reject id then st_fail else st_ok |}.

Lemma st_ok_ok : py_status_ok st_ok = true.
Proof. vm_compute. reflexivity. Qed.
Lemma st_fail_fails : py_status_ok st_fail = false.
Proof. vm_compute. reflexivity. Qed.

Lemma ncp_of_reads : forall cur reject, config_reads (ncp_of cur reject) cur.
Proof.
  intros cur reject tr id. cbn [ncp_of ans_getConfigurationValue].
  destruct (assoc id cur) as [[c|]|]; cbn [fst snd];
    [split; [exact st_ok_ok | reflexivity] | exact st_fail_fails | exact st_fail_fails].
Qed.

Definition widths_ok (v : N) : bool := forallb (fun x => snd x <=? 4) (value_defaults v).
Lemma widths_check : forallb widths_ok SUPPORTED_VERSIONS = true.
Proof. vm_compute. reflexivity. Qed.

Lemma ncp_of_readable : forall v cur reject, In v SUPPORTED_VERSIONS ->
  values_readable (ncp_of cur reject) (value_defaults v).
Proof.
  intros v cur reject Hv tr x Hx _. cbn [ncp_of ans_getValue snd List.length].
  pose proof (proj1 (forallb_forall widths_ok SUPPORTED_VERSIONS) widths_check v Hv) as C.
  pose proof (proj1 (forallb_forall _ _) C x Hx) as Cx. apply N.leb_le in Cx. exact Cx.
Qed.

(* a getValue answer shorter than the value (EZSP v7 and later set one one-byte value): the coroutine ends with the
   exception of the deserialisation, after the read and before any write *)
Definition ncp_short : ncp :=
  {| ans_getValue := fun _ _ => (st_ok, []);
     ans_setValue := fun _ _ _ _ => st_ok;
     ans_getConfigurationValue := fun _ _ => (st_fail, 0);
     ans_setConfigurationValue := fun _ _ _ => st_ok |}.

Lemma src_short_value_read_raises :
  exists id, py_write_config 8 ncp_short [] = Some ([CGetValue id], Raised).
Proof. eexists. vm_compute. reflexivity. Qed.

(* EZSP v8, one override of a non-default setting, every write rejected: the writes are those of the
   model's example (props/C16.v, c16_example), the buffer count last *)
Lemma src_example :
  match py_write_config 8 (ncp_of [] (fun _ => true)) [(3, Some 100)] with
  | Some (tr, Returned) =>
      flat_map (fun c => match c with CSetConfigurationValue id _ => [id] | _ => [] end) tr
      = [26; 19; 56; 18; 12; 45; 6; 25; 13; 5; 34; 30; 17; 42; 3; 1]
  | _ => False
  end.
Proof. vm_compute. reflexivity. Qed.
