(* The byte-level host (model/AshHostBytes.v): the monolithic receive loop of AshRx.v is the pure
   deframer followed by the frame handler; a read whose frames all parse is one [Frames] event of the
   host machine; unparsable frames only produce CANCEL + NAK. *)
From Coq Require Import PrimFloat ZArith NArith List Bool.
Import ListNotations.
Require Import BV.gen.GenAsh BV.model.AshCodec BV.model.AshRx BV.model.AshHost BV.model.AshHostBytes.
Open Scope N_scope.

(* ---- deframe: the accumulator is only ever appended to ----------------------------------------- *)
Lemma deframe_acc : forall fuel b d acc,
  deframe fuel b d acc =
    let '(b', d', items) := deframe fuel b d [] in (b', d', acc ++ items).
Proof.
  induction fuel as [|fuel IH]; intros b d acc.
  - simpl. rewrite app_nil_r. reflexivity.
  - destruct b as [|x b0].
    + simpl. rewrite app_nil_r. reflexivity.
    + cbn [deframe].
      set (ad := if d then
                   match split_first (fun x0 => x0 =? FLAG) (x :: b0) with
                   | Some (_, _, suf) => Some suf
                   | None => None
                   end
                 else Some (x :: b0)).
      destruct ad as [b1|].
      * destruct (split_first reserved_no_esc b1) as [[[pre r] suf]|].
        -- destruct (r =? FLAG).
           ++ destruct pre as [|p pre'].
              ** apply IH.
              ** rewrite (IH suf false (acc ++ [parse_bytes (p :: pre')])).
                 rewrite (IH suf false ([] ++ [parse_bytes (p :: pre')])).
                 destruct (deframe fuel suf false []) as [[b' d'] items].
                 cbn [app]. rewrite <- app_assoc. reflexivity.
           ++ destruct (r =? CANCEL); [apply IH|].
              destruct (r =? SUB); apply IH.
        -- rewrite app_nil_r. reflexivity.
      * rewrite app_nil_r. reflexivity.
Qed.

(* ---- handle_items over an append --------------------------------------------------------------- *)
Lemma handle_items_app : forall l1 l2 rx,
  handle_items rx (l1 ++ l2) =
    let '(rx1, o1) := handle_items rx l1 in
    let '(rx2, o2) := handle_items rx1 l2 in (rx2, o1 ++ o2).
Proof.
  induction l1 as [|i l1 IH]; intros l2 rx.
  - cbn [app handle_items]. destruct (handle_items rx l2) as [rx2 o2]. reflexivity.
  - cbn [app handle_items]. destruct i as [f|].
    + destruct (rx_frame rx f) as [rxa oa]. rewrite IH.
      destruct (handle_items rxa l1) as [rx1 o1].
      destruct (handle_items rx1 l2) as [rx2 o2].
      rewrite app_assoc. reflexivity.
    + rewrite IH.
      destruct (handle_items rx l1) as [rx1 o1].
      destruct (handle_items rx1 l2) as [rx2 o2].
      reflexivity.
Qed.

Lemma handle_frame_bytes_items : forall rx fb,
  handle_frame_bytes rx fb = handle_items rx [parse_bytes fb].
Proof.
  intros rx fb. unfold handle_frame_bytes, parse_bytes.
  destruct (unstuff fb) as [d|]; [|reflexivity].
  destruct (parse d) as [f|]; [|reflexivity].
  cbn [handle_items]. destruct (rx_frame rx f) as [rx' o]. rewrite app_nil_r. reflexivity.
Qed.

(* ---- 1. the receive loop is deframe then handle ------------------------------------------------ *)
Theorem rx_loop_deframe : forall fuel b disc rx acc,
  rx_loop fuel b disc rx acc =
    let '(b', d', items) := deframe fuel b disc [] in
    let '(rx', outs) := handle_items rx items in (b', d', rx', acc ++ outs).
Proof.
  induction fuel as [|fuel IH]; intros b d rx acc.
  - simpl. rewrite app_nil_r. reflexivity.
  - destruct b as [|x b0].
    + simpl. rewrite app_nil_r. reflexivity.
    + cbn [rx_loop deframe].
      set (ad := if d then
                   match split_first (fun x0 => x0 =? FLAG) (x :: b0) with
                   | Some (_, _, suf) => Some suf
                   | None => None
                   end
                 else Some (x :: b0)).
      destruct ad as [b1|].
      * destruct (split_first reserved_no_esc b1) as [[[pre r] suf]|].
        -- destruct (r =? FLAG).
           ++ destruct pre as [|p pre'].
              ** apply IH.
              ** rewrite (deframe_acc fuel suf false ([] ++ [parse_bytes (p :: pre')])).
                 rewrite handle_frame_bytes_items.
                 destruct (handle_items rx [parse_bytes (p :: pre')]) as [rx1 o1] eqn:E1.
                 rewrite IH.
                 destruct (deframe fuel suf false []) as [[b' d'] items].
                 cbn [app]. change (parse_bytes (p :: pre') :: items) with ([parse_bytes (p :: pre')] ++ items).
                 rewrite handle_items_app. rewrite E1.
                 destruct (handle_items rx1 items) as [rx2 o2].
                 rewrite app_assoc. reflexivity.
           ++ destruct (r =? CANCEL); [apply IH|].
              destruct (r =? SUB); apply IH.
        -- cbn [handle_items]. rewrite app_nil_r. reflexivity.
      * cbn [handle_items]. rewrite app_nil_r. reflexivity.
Qed.

(* ---- 2. a read whose frames all parse is one Frames event -------------------------------------- *)
Lemma apply_items_valid : forall fs st,
  apply_items st (map Some fs) = apply_frames st fs.
Proof.
  induction fs as [|f fs IH]; intros st.
  - reflexivity.
  - cbn [map apply_items apply_frames].
    destruct (apply_frame st f) as [st1 o1]. rewrite IH. reflexivity.
Qed.

Theorem read_of_valid_frames : forall st chunk b' d' fs,
  deframe (S (List.length (rbuf st ++ chunk))) (rbuf st ++ chunk) (rdisc st) [] = (b', d', map Some fs) ->
  bstep st (BBytes chunk) =
    ({| hst := fst (host_step (hst st) (Frames fs)); rbuf := cap b'; rdisc := d' |},
     snd (host_step (hst st) (Frames fs))).
Proof.
  intros st chunk b' d' fs H.
  unfold bstep. cbv zeta. rewrite H. rewrite apply_items_valid.
  cbn [host_step].
  destruct (apply_frames (hst st) fs) as [h1 o1].
  destruct (settle h1) as [h2 o2].
  reflexivity.
Qed.

(* ---- 3. unparsable frames only produce CANCEL + NAK -------------------------------------------- *)
Theorem invalid_frames_only_nak : forall st items,
  Forall (fun i => i = None) items ->
  apply_items st items = (st, map (fun _ => HCancelNak (rx_seq st)) items).
Proof.
  intros st items H. induction H as [|i l Hi Hl IH].
  - reflexivity.
  - subst i. cbn [apply_items map]. rewrite IH. reflexivity.
Qed.

Print Assumptions rx_loop_deframe.
Print Assumptions read_of_valid_frames.
Print Assumptions invalid_frames_only_nak.
