(* C18, tie to the source text: the function emitted from the AST of sl_Status.from_ember_status over the dict emitted
   from the AST of the SL_STATUS_MAP definition (gen/GenStatusFn.v) is the model's [normalise]; the wrappers of the
   protocol handlers hand on converted statuses; the comparison sites of the controller modules compare converted
   values (or compare with a success member, where the integer comparison cannot tell the difference). *)
From Coq Require Import NArith List Bool String Lia.
Import ListNotations.
Require Import BV.lib.Sweep BV.gen.GenStatus BV.model.Status BV.proofs.Status_proofs BV.gen.GenStatusFn.
Open Scope N_scope.

(* the class the classmethod is called on at every call site: t.sl_Status *)
Definition sl_class : pyclass := fam_tag FUnified.

(* ---- the dict denoted by the defining expression is the table read from the live dict ---------------------- *)
Definition flat_entry (e : pykey * pystatus) : N * N * N := (fst (fst e), snd (snd (fst e)), snd (snd e)).
(* the class in the key is the class of the member next to it; every value is a unified member *)
Definition entry_wf (e : pykey * pystatus) : bool := (fst (snd (fst e)) =? fst (fst e)) && (fst (snd e) =? sl_class).

Lemma src_map_is_table : map flat_entry py_SL_STATUS_MAP = status_map.
Proof. vm_compute. reflexivity. Qed.

Lemma src_map_wf : forallb entry_wf py_SL_STATUS_MAP = true.
Proof. vm_compute. reflexivity. Qed.

Lemma dict_get_lookup (d : pydict) (c : pyclass) (s : pystatus) :
  forallb entry_wf d = true ->
  py_dict_get (c, s) d = option_map (fun u => (sl_class, u)) (lookup_map c (snd s) (map flat_entry d)).
Proof.
  induction d as [|[[c' s'] v] d IH]; intros Hwf; [reflexivity|].
  cbn [forallb] in Hwf. apply andb_true_iff in Hwf. destruct Hwf as [Hw Hwf].
  cbn [py_dict_get map flat_entry lookup_map fst snd]. unfold py_key_eqb. cbn [fst snd].
  destruct ((c' =? c) && (snd s' =? snd s)) eqn:E.
  - unfold entry_wf in Hw. cbn [fst snd] in Hw. apply andb_true_iff in Hw. destruct Hw as [_ Hv].
    apply N.eqb_eq in Hv. destruct v as [vc vv]. cbn [fst snd] in *. subst vc. reflexivity.
  - apply IH. exact Hwf.
Qed.

Lemma src_lookup (f : family) (c : N) :
  py_dict_get (fam_tag f, (fam_tag f, c)) py_SL_STATUS_MAP
  = option_map (fun u => (sl_class, u)) (lookup_map (fam_tag f) c status_map).
Proof. rewrite (dict_get_lookup _ _ _ src_map_wf). rewrite src_map_is_table. reflexivity. Qed.

Lemma isinstance_unified (f : family) (c : N) :
  py_isinstance (fam_tag f, c) sl_class = match f with FUnified => true | _ => false end.
Proof. destruct f; vm_compute; reflexivity. Qed.

Lemma getattr_fail : py_getattr sl_class "FAIL" = Some (sl_class, sl_FAIL).
Proof. vm_compute. reflexivity. Qed.

(* the emitted function, called on sl_Status with a value of any of the three classes, returns the model's value *)
Theorem source_conversion (f : family) (c : N) :
  py_from_ember_status sl_class (fam_tag f, c) = PRet (sl_class, normalise f c).
Proof.
  unfold py_from_ember_status. rewrite isinstance_unified.
  destruct f; [| |reflexivity].
  all: unfold py_dict_mem, py_type; cbn [fst]; rewrite src_lookup;
       unfold normalise, normalise_with;
       destruct (lookup_map _ c status_map) as [u|]; cbn [option_map negb];
       [reflexivity | rewrite getattr_fail; reflexivity].
Qed.

(* neither the KeyError of the subscript nor the AttributeError of cls.FAIL can come out *)
Theorem source_never_raises (f : family) (c : N) (e : pyexn) :
  py_from_ember_status sl_class (fam_tag f, c) <> PExn e.
Proof. rewrite source_conversion. discriminate. Qed.

Theorem source_unified_unchanged (c : N) :
  py_from_ember_status sl_class (fam_tag FUnified, c) = PRet (fam_tag FUnified, c).
Proof. rewrite source_conversion. reflexivity. Qed.

Theorem source_ok_iff (f : family) (c : N) :
  f <> FUnified -> c < 256 ->
  (py_from_ember_status sl_class (fam_tag f, c) = PRet (sl_class, sl_OK) <-> c = success_code f).
Proof.
  intros Hf Hc. rewrite source_conversion. rewrite <- (ok_iff_legacy f c Hf Hc).
  split; [intros H; injection H; auto | intros ->; reflexivity].
Qed.

(* the result is always a value of the unified class *)
Theorem source_result_class (f : family) (c : N) :
  exists u, py_from_ember_status sl_class (fam_tag f, c) = PRet (sl_class, u).
Proof. eexists. apply source_conversion. Qed.

(* ---- wrappers ------------------------------------------------------------------------------------------------ *)
(* what the wrapper hands on when the command answered the integer c in that field *)
Definition wrapper_returns (r : wrapper_row) (c : N) : pyres :=
  match w_kind r with
  | KConv => py_from_ember_status sl_class (w_ans_class r, c)
  | KAsIs => PRet (w_ans_class r, c)
  | KCast cls => PRet (cls, c)
  | KConst m => PRet m
  end.

(* went through the conversion (or is a unified member written in the source) *)
Definition row_converts (r : wrapper_row) : bool :=
  match w_kind r with
  | KConv => w_ans_class r <=? 2
  | KConst m => fst m =? sl_class
  | _ => false
  end.

(* hands on the conversion of the answer: converted, or the field already is of the unified class *)
Definition row_unified (r : wrapper_row) : bool :=
  match w_kind r with
  | KConv => w_ans_class r <=? 2
  | KAsIs => w_ans_class r =? sl_class
  | KCast cls => (cls =? sl_class) && (w_ans_class r =? sl_class)
  | KConst m => fst m =? sl_class
  end.

Lemma fam_tag_of_tag (t : N) : t <= 2 -> fam_tag (fam_of_tag t) = t.
Proof.
  intros H. assert (E : t = 0 \/ t = 1 \/ t = 2) by lia.
  destruct E as [->|[->| ->]]; reflexivity.
Qed.

Lemma row_unified_sound (r : wrapper_row) :
  row_unified r = true ->
  (forall c, wrapper_returns r c = PRet (sl_class, normalise (fam_of_tag (w_ans_class r)) c))
  \/ exists m, w_kind r = KConst (sl_class, m).
Proof.
  unfold row_unified, wrapper_returns. destruct (w_kind r) as [| |cls|[mc mv]]; intros H.
  - left. intros c. apply N.leb_le in H. rewrite <- (fam_tag_of_tag _ H) at 1. apply source_conversion.
  - left. intros c. apply N.eqb_eq in H. rewrite H. reflexivity.
  - left. intros c. apply andb_true_iff in H. destruct H as [H1 H2].
    apply N.eqb_eq in H1. apply N.eqb_eq in H2. rewrite H1, H2. reflexivity.
  - right. cbn [fst] in H. apply N.eqb_eq in H. subst mc. exists mv. reflexivity.
Qed.

Lemma row_converts_unified (r : wrapper_row) : row_converts r = true -> row_unified r = true.
Proof. unfold row_converts, row_unified. destruct (w_kind r); auto; discriminate. Qed.

Lemma row_converts_kind (r : wrapper_row) :
  row_converts r = true -> w_kind r = KConv \/ exists m, w_kind r = KConst (sl_class, m).
Proof.
  unfold row_converts. destruct (w_kind r) as [| |cls|[mc mv]]; intros H; try discriminate.
  - left. reflexivity.
  - right. cbn [fst] in H. apply N.eqb_eq in H. subst mc. exists mv. reflexivity.
Qed.

Lemma wrappers_below_14_sweep :
  forallb (fun r => (14 <=? w_version r) || row_converts r) py_wrappers = true.
Proof. vm_compute. reflexivity. Qed.

Lemma wrappers_all_sweep : forallb row_unified py_wrappers = true.
Proof. vm_compute. reflexivity. Qed.

(* in every version below 14 every status a wrapper returns went through the conversion, and is the conversion of
   what the NCP answered *)
Theorem wrappers_convert (r : wrapper_row) :
  In r py_wrappers -> w_version r < 14 ->
  (w_kind r = KConv \/ exists m, w_kind r = KConst (sl_class, m)) /\
  ((forall c, wrapper_returns r c = PRet (sl_class, normalise (fam_of_tag (w_ans_class r)) c))
   \/ exists m, w_kind r = KConst (sl_class, m)).
Proof.
  intros Hin Hv. pose proof wrappers_below_14_sweep as H. rewrite forallb_forall in H. specialize (H r Hin).
  apply orb_true_iff in H. destruct H as [H|H]; [apply N.leb_le in H; lia|].
  split; [apply row_converts_kind; exact H | apply row_unified_sound, row_converts_unified; exact H].
Qed.

(* every version, 14 included: the status handed on is the conversion of the answer *)
Theorem wrappers_return_conversion (r : wrapper_row) :
  In r py_wrappers ->
  (forall c, wrapper_returns r c = PRet (sl_class, normalise (fam_of_tag (w_ans_class r)) c))
  \/ exists m, w_kind r = KConst (sl_class, m).
Proof.
  intros Hin. pose proof wrappers_all_sweep as H. rewrite forallb_forall in H. apply row_unified_sound, H, Hin.
Qed.

(* the table is not empty where it matters: every version has a row for every status-returning wrapper name, and the
   names the application steers by are among them *)
Definition has_row (v : N) (n : string) : bool :=
  existsb (fun r => (w_version r =? v) && String.eqb (w_name r) n) py_wrappers.
Definition steering_wrappers : list string :=
  ["initialize_network"; "send_unicast"; "send_multicast"; "send_broadcast"; "set_source_route"; "add_transient_link_key"]%string.

Lemma wrappers_cover_sweep :
  forallb (fun v => forallb (has_row v) py_wrapper_names) py_versions
  && forallb (fun n => existsb (String.eqb n) py_wrapper_names) steering_wrappers
  && forallb (fun v => existsb (N.eqb v) py_versions) [4; 5; 6; 7; 8; 9; 10; 11; 12; 13; 14] = true.
Proof. vm_compute. reflexivity. Qed.

Theorem wrappers_cover (v : N) (n : string) :
  In v [4; 5; 6; 7; 8; 9; 10; 11; 12; 13; 14] -> In n steering_wrappers ->
  exists r, In r py_wrappers /\ w_version r = v /\ w_name r = n.
Proof.
  intros Hv Hn. pose proof wrappers_cover_sweep as H.
  apply andb_true_iff in H. destruct H as [H H3]. apply andb_true_iff in H. destruct H as [H1 H2].
  rewrite forallb_forall in H1, H2, H3.
  specialize (H3 v Hv). apply existsb_exists in H3. destruct H3 as [v' [Hv' E]]. apply N.eqb_eq in E. subst v'.
  specialize (H2 n Hn). apply existsb_exists in H2. destruct H2 as [n' [Hn' E]]. apply String.eqb_eq in E. subst n'.
  specialize (H1 v Hv'). rewrite forallb_forall in H1. specialize (H1 n Hn').
  unfold has_row in H1. apply existsb_exists in H1. destruct H1 as [r [Hr E]].
  apply andb_true_iff in E. destruct E as [E1 E2]. apply N.eqb_eq in E1. apply String.eqb_eq in E2.
  exists r. auto.
Qed.

(* ---- comparison sites ---------------------------------------------------------------------------------------- *)
Definition is_nil {A : Type} (l : list A) : bool := match l with [] => true | _ => false end.
Definition optN_eqb (a b : option N) : bool :=
  match a, b with Some x, Some y => x =? y | None, None => true | _, _ => false end.

(* the success member of its class *)
Definition member_is_success (m : pystatus) : bool := snd m =? success_code (fam_of_tag (fst m)).

Definition wrapper_ok (name : string) (ret : option N) : bool :=
  let rows := filter (fun r => String.eqb (w_name r) name && optN_eqb (w_ret r) ret) py_wrappers in
  negb (is_nil rows) && forallb row_unified rows.

Definition prov_ok (p : provenance) : bool :=
  match p with
  | PConv => true
  | PWrapper name ret => wrapper_ok name ret
  | PRaw _ _ classes => negb (is_nil classes) && forallb (fun vc => snd vc =? sl_class) classes
  | PMember m => fst m =? sl_class
  | PCast _ | PParam _ | PUnknown => false
  end.

(* a comparison is sound for every protocol version when it is with success members only (the integers decide, and
   0 is the success code on both sides of the conversion: [success_compare]), or when the members are unified and the
   operand is, on every path, a converted value / the result of a wrapper that converts in every version / a field
   that is of the unified class in every version the function runs in *)
Definition site_ok (s : compare_site) : bool :=
  negb (is_nil (s_members s)) &&
  (forallb member_is_success (s_members s)
   || (forallb (fun m => fst m =? sl_class) (s_members s) && negb (is_nil (s_prov s)) && forallb prov_ok (s_prov s))).

Lemma compare_sites_sweep : forallb site_ok py_compare_sites = true.
Proof. vm_compute. reflexivity. Qed.

Theorem compare_sites_ok (s : compare_site) : In s py_compare_sites -> site_ok s = true.
Proof. intros H. pose proof compare_sites_sweep as S. rewrite forallb_forall in S. apply S, H. Qed.

(* comparing the unconverted integer with a success member decides what comparing the converted value with OK decides *)
Theorem success_compare (f : family) (c : N) (m : pystatus) :
  (f <> FUnified -> c < 256) -> member_is_success m = true ->
  (c =? snd m) = (normalise f c =? sl_OK).
Proof.
  intros Hc Hm. unfold member_is_success in Hm. apply N.eqb_eq in Hm. rewrite Hm.
  assert (S0 : forall g, success_code g = 0) by (intros g; destruct g; vm_compute; reflexivity).
  rewrite S0.
  destruct f.
  - assert (H := ok_iff_legacy FEzsp c ltac:(discriminate) (Hc ltac:(discriminate))). rewrite S0 in H.
    destruct (c =? 0) eqn:E1, (normalise FEzsp c =? sl_OK) eqn:E2; try reflexivity.
    + apply N.eqb_eq in E1. apply H in E1. apply N.eqb_neq in E2. contradiction.
    + apply N.eqb_eq in E2. apply H in E2. apply N.eqb_neq in E1. contradiction.
  - assert (H := ok_iff_legacy FEmber c ltac:(discriminate) (Hc ltac:(discriminate))). rewrite S0 in H.
    destruct (c =? 0) eqn:E1, (normalise FEmber c =? sl_OK) eqn:E2; try reflexivity.
    + apply N.eqb_eq in E1. apply H in E1. apply N.eqb_neq in E2. contradiction.
    + apply N.eqb_eq in E2. apply H in E2. apply N.eqb_neq in E1. contradiction.
  - reflexivity.
Qed.

(* non-vacuity: the sites the start-up decision and the retry loop hang on are in the table, with non-success members *)
Definition site_named (fn : string) (m : N) (s : compare_site) : bool :=
  String.eqb (s_function s) fn && existsb (fun x => (fst x =? sl_class) && (snd x =? m)) (s_members s).

Lemma compare_sites_present :
  existsb (site_named "ControllerApplication._ensure_network_running" (member_or "NOT_JOINED" sl_members 0)) py_compare_sites
  && existsb (site_named "ControllerApplication.send_packet" (member_or "ZIGBEE_MAX_MESSAGE_LIMIT_REACHED" sl_members 0)) py_compare_sites
  && existsb (site_named "ControllerApplication.send_packet" (member_or "ALLOCATION_FAILED" sl_members 0)) py_compare_sites
  && existsb (site_named "EZSPv4.read_link_keys" (member_or "INVALID_INDEX" sl_members 0)) py_compare_sites
  && existsb (site_named "EZSPv4.read_link_keys" (member_or "NOT_FOUND" sl_members 0)) py_compare_sites = true.
Proof. vm_compute. reflexivity. Qed.
