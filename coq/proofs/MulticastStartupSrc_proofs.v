(* Multicast.startup as emitted from its SOURCE TEXT (gen/GenMulticastInitFn.v, [py_startup]) against the model's
   [Startup] operation (model/Multicast.v): with every table write of the call answered alike, the emitted coroutine
   leaves the dict, the set of free indices, the table writes in order and the outcome of one [Startup] whose calls are
   the groups of the coordinator's endpoints other than 0, in order, each with the element the oracle has set.pop()
   return. *)
From Coq Require Import NArith PeanoNat List Bool Lia.
Import ListNotations.
Require Import BV.gen.GenStatus BV.model.Status BV.model.Multicast BV.gen.GenMulticastFn BV.gen.GenMulticastInitFn.
Require Import BV.proofs.Multicast_proofs BV.proofs.MulticastSrc_proofs BV.proofs.MulticastInitSrc_proofs.
Require Import BV.proofs.MulticastStartup_proofs.
Open Scope N_scope.

(* the calls of the start-up: the k-th subscribe call gets the oracle's k-th choice *)
Fixpoint oracle_calls (o : N -> N * answer) (k : N) (gs : list N) : list (N * N) :=
  match gs with
  | [] => []
  | g :: gs' => (g, fst (o k)) :: oracle_calls o (k + 1) gs'
  end.

(* every table write of the call is answered by [a] *)
Definition same_answer (o : N -> N * answer) (a : answer) : Prop := forall k, snd (o k) = a.

Lemma py_opt_list_writes_of {A} (w : option A) : py_opt_list w = writes_of w.
Proof. destruct w; reflexivity. Qed.

(* the fold of MulticastInitSrc_proofs.v (one [Subscribe] per group until one raises) is [startup_subs] *)
Lemma sub_fold_startup : forall o a, same_answer o a -> forall gs st k ws,
  let '(st', r, ws') := startup_subs st (oracle_calls o k gs) a in
  fst (fst (fst (fold_left (sub_step o) gs (st, k, ws, RStatus 0)))) = st' /\
  snd (fst (fold_left (sub_step o) gs (st, k, ws, RStatus 0))) = ws ++ ws' /\
  snd (fold_left (sub_step o) gs (st, k, ws, RStatus 0)) = r.
Proof.
  intros o a Ho gs. induction gs as [|g gs IH]; intros st k ws.
  - cbn [oracle_calls startup_subs fold_left fst snd]. rewrite app_nil_r. repeat split.
  - cbn [oracle_calls startup_subs fold_left sub_step]. rewrite (Ho k).
    destruct (step st (Subscribe g (fst (o k)) a)) as [[st1 r1] w1]. destruct r1 as [s1|].
    + specialize (IH st1 (k + 1) (ws ++ py_opt_list w1)).
      destruct (startup_subs st1 (oracle_calls o (k + 1) gs) a) as [[st2 r2] ws2].
      destruct IH as (H1 & H2 & H3). split; [exact H1 | split; [|exact H3]].
      rewrite H2, <- app_assoc, py_opt_list_writes_of. reflexivity.
    + rewrite sub_step_raised. cbn [fst snd]. rewrite py_opt_list_writes_of. repeat split.
Qed.

Lemma model_startup_is_op : forall st ss rs coordinator o a, same_answer o a ->
  let '(st', r, ws) := xstep st (Startup ss rs (oracle_calls o 0 (startup_groups coordinator)) a) in
  fst (fst (fst (model_startup st ss rs coordinator o))) = st' /\
  snd (fst (model_startup st ss rs coordinator o)) = ws /\
  snd (model_startup st ss rs coordinator o) = r.
Proof.
  intros st ss rs coordinator o a Ho. cbn [xstep]. unfold model_startup, after_init.
  pose proof (sub_fold_startup o a Ho (startup_groups coordinator) (st_of (step st (Init ss rs))) 0 []) as H.
  destruct (startup_subs (st_of (step st (Init ss rs))) (oracle_calls o 0 (startup_groups coordinator)) a)
    as [[st' r] ws]. exact H.
Qed.

Lemma src_startup_op : forall st ss rs coordinator cfg rd o a,
  size_answer cfg 6 ss (ncp st) -> reads_table rd (ncp st) rs -> same_answer o a ->
  choices_ok o (after_init st ss rs) (startup_groups coordinator) ->
  let '(s', av', k, ws, r) := py_startup (subs st) (avail st) coordinator cfg rd o in
  let '(st', r', ws') := xstep st (Startup ss rs (oracle_calls o 0 (startup_groups coordinator)) a) in
  subs st' = s' /\ seteq (avail st') av' /\ ws' = ws /\ r' = r.
Proof.
  intros st ss rs coordinator cfg rd o a Hc Hr Ho Hv.
  pose proof (src_startup st ss rs coordinator cfg rd o Hc Hr Hv) as Hsrc.
  pose proof (model_startup_is_op st ss rs coordinator o a Ho) as Hop.
  destruct (py_startup (subs st) (avail st) coordinator cfg rd o) as [[[[s' av'] k] ws] r].
  destruct (model_startup st ss rs coordinator o) as [[[stm km] wsm] rm].
  destruct (xstep st (Startup ss rs (oracle_calls o 0 (startup_groups coordinator)) a)) as [[st' r'] ws'].
  cbn [fst snd] in Hop. destruct Hop as (E1 & E2 & E3). destruct Hsrc as (H1 & H2 & _ & H4 & H5).
  subst stm wsm rm. repeat split; (assumption || (symmetry; assumption)).
Qed.
