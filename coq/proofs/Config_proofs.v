(* C16 proofs: EZSP.write_config model (model/Config.v) over the generated tables (gen/GenConfig.v).
   Generic part: the merged dictionary is characterised by [find_id] (lemma [find_merged]) under
   duplicate-free keys; the write plan is a [flat_map] emitting at most one pair per entry.
   Table part: boolean checkers decided by [vm_compute], so regenerated tables are re-checked. *)
From Coq Require Import ZArith NArith List Bool String Lia Permutation.
Import ListNotations.
Require Import BV.gen.GenConfig BV.model.Config.
Open Scope N_scope.

(* ---------- vocabulary ---------- *)

Definition ids (d : list entry) : list N := map e_id d.

Definition admissible (d0 : list entry) (sd : list (N * N)) (user : list (N * option N)) : Prop :=
  NoDup (ids d0) /\ NoDup (map fst sd) /\ NoDup (map fst user).

Definition grow_only (d0 : list entry) (id : N) : Prop :=
  exists e, In e d0 /\ e_id e = id /\ e_min e = true.

Fixpoint sassoc (name : string) (l : list (string * N)) : N :=
  match l with
  | [] => 0
  | (k, v) :: l' => if String.eqb k name then v else sassoc name l'
  end.

Definition cfg_id (name : string) : N := sassoc name CONFIG_IDS.

Definition mk (id v : N) (m : bool) : entry := {| e_id := id; e_val := v; e_min := m |}.

Definition emin_of (o : option entry) : bool :=
  match o with Some e => e_min e | None => false end.

(* ---------- find_id ---------- *)

Lemma find_id_some : forall k d e, find_id k d = Some e -> In e d /\ e_id e = k.
Proof.
  intros k d. induction d as [|a d IH]; intros e H; simpl in H.
  - discriminate H.
  - destruct (e_id a =? k) eqn:E.
    + inversion H; subst. split; [left; reflexivity | apply N.eqb_eq; exact E].
    + destruct (IH e H) as [H1 H2]. split; [right; exact H1 | exact H2].
Qed.

Lemma find_id_none : forall k d, find_id k d = None <-> ~ In k (ids d).
Proof.
  intros k d. unfold ids. induction d as [|a d IH]; simpl.
  - split; [intros _ H; exact H | reflexivity].
  - destruct (e_id a =? k) eqn:E.
    + apply N.eqb_eq in E. split; [intros H; discriminate H | intros H; exfalso; apply H; left; exact E].
    + apply N.eqb_neq in E. rewrite IH. split.
      * intros H [H1|H1]; [exact (E H1) | exact (H H1)].
      * intros H H1. apply H. right. exact H1.
Qed.

Lemma find_id_in : forall d e, NoDup (ids d) -> In e d -> find_id (e_id e) d = Some e.
Proof.
  unfold ids. induction d as [|a d IH]; intros e Hnd Hin; simpl in *.
  - contradiction.
  - inversion Hnd as [|x l Hni Hnd']; subst. destruct Hin as [Hin|Hin].
    + subst a. rewrite N.eqb_refl. reflexivity.
    + destruct (e_id a =? e_id e) eqn:E.
      * apply N.eqb_eq in E. exfalso. apply Hni. rewrite E. apply in_map. exact Hin.
      * apply IH; assumption.
Qed.

Lemma in_ids_iff : forall k d, In k (ids d) <-> find_id k d <> None.
Proof.
  intros k d. split.
  - intros H H1. apply find_id_none in H1. exact (H1 H).
  - intros H. destruct (find_id k d) as [e|] eqn:F.
    + destruct (find_id_some k d e F) as [H1 H2]. rewrite <- H2. unfold ids. apply in_map. exact H1.
    + exfalso. apply H. reflexivity.
Qed.

Lemma find_id_app : forall k l1 l2, find_id k (l1 ++ l2) =
  match find_id k l1 with Some x => Some x | None => find_id k l2 end.
Proof.
  intros k l1 l2. induction l1 as [|a l1 IH]; simpl.
  - reflexivity.
  - destruct (e_id a =? k); [reflexivity | exact IH].
Qed.

(* ---------- set_user ---------- *)

Lemma find_set_user : forall id v k d,
  find_id k (set_user id v d) = if k =? id then Some (mk id v false) else find_id k d.
Proof.
  intros id v k d. unfold mk. induction d as [|a d IH]; simpl.
  - rewrite (N.eqb_sym id k). destruct (k =? id); reflexivity.
  - destruct (e_id a =? id) eqn:E; simpl.
    + apply N.eqb_eq in E. rewrite E. rewrite (N.eqb_sym id k). destruct (k =? id); reflexivity.
    + rewrite IH. destruct (e_id a =? k) eqn:E2.
      * apply N.eqb_eq in E2. rewrite <- E2. rewrite E. reflexivity.
      * reflexivity.
Qed.

Lemma nodup_set_user : forall id v d, NoDup (ids d) -> NoDup (ids (set_user id v d)).
Proof.
  intros id v d. induction d as [|a d IH]; intros Hnd.
  - simpl. constructor; [intros H; exact H | constructor].
  - unfold ids in Hnd. simpl in Hnd. inversion Hnd as [|x l Hni Hnd']; subst.
    simpl. destruct (e_id a =? id) eqn:E.
    + apply N.eqb_eq in E. unfold ids. simpl. rewrite <- E. constructor; assumption.
    + unfold ids. simpl. constructor.
      * intros H. apply in_ids_iff in H. rewrite find_set_user in H. rewrite E in H.
        apply in_ids_iff in H. exact (Hni H).
      * apply IH. exact Hnd'.
Qed.

(* ---------- set_schema_default ---------- *)

Lemma find_set_sd : forall id v k d,
  find_id k (set_schema_default id v d) =
  if k =? id then Some (mk id v (emin_of (find_id id d))) else find_id k d.
Proof.
  intros id v k d. unfold mk. induction d as [|a d IH]; simpl.
  - rewrite (N.eqb_sym id k). destruct (k =? id); reflexivity.
  - destruct (e_id a =? id) eqn:E; simpl.
    + apply N.eqb_eq in E. rewrite E. rewrite (N.eqb_sym id k). destruct (k =? id); reflexivity.
    + rewrite IH. destruct (e_id a =? k) eqn:E2.
      * apply N.eqb_eq in E2. rewrite <- E2. rewrite E. reflexivity.
      * reflexivity.
Qed.

Lemma nodup_set_sd : forall id v d, NoDup (ids d) -> NoDup (ids (set_schema_default id v d)).
Proof.
  intros id v d. induction d as [|a d IH]; intros Hnd.
  - simpl. constructor; [intros H; exact H | constructor].
  - unfold ids in Hnd. simpl in Hnd. inversion Hnd as [|x l Hni Hnd']; subst.
    simpl. destruct (e_id a =? id) eqn:E.
    + apply N.eqb_eq in E. unfold ids. simpl. rewrite <- E. constructor; assumption.
    + unfold ids. simpl. constructor.
      * intros H. apply in_ids_iff in H. rewrite find_set_sd in H. rewrite E in H.
        apply in_ids_iff in H. exact (Hni H).
      * apply IH. exact Hnd'.
Qed.

(* ---------- remove_id ---------- *)

Lemma in_ids_remove : forall id x d, In x (ids (remove_id id d)) -> In x (ids d).
Proof.
  intros id x d. unfold ids. induction d as [|a d IH]; simpl; intros H.
  - exact H.
  - destruct (e_id a =? id).
    + right. exact H.
    + simpl in H. destruct H as [H|H]; [left; exact H | right; exact (IH H)].
Qed.

Lemma nodup_remove : forall id d, NoDup (ids d) -> NoDup (ids (remove_id id d)).
Proof.
  intros id d. induction d as [|a d IH]; intros Hnd.
  - exact Hnd.
  - unfold ids in Hnd. simpl in Hnd. inversion Hnd as [|x l Hni Hnd']; subst.
    simpl. destruct (e_id a =? id).
    + exact Hnd'.
    + unfold ids. simpl. constructor.
      * intros H. apply in_ids_remove in H. exact (Hni H).
      * apply IH. exact Hnd'.
Qed.

Lemma find_remove : forall id k d, NoDup (ids d) ->
  find_id k (remove_id id d) = if k =? id then None else find_id k d.
Proof.
  intros id k d. induction d as [|a d IH]; intros Hnd.
  - simpl. destruct (k =? id); reflexivity.
  - unfold ids in Hnd. simpl in Hnd. inversion Hnd as [|x l Hni Hnd']; subst.
    simpl. destruct (e_id a =? id) eqn:E.
    + apply N.eqb_eq in E. destruct (k =? id) eqn:E2.
      * apply N.eqb_eq in E2. apply find_id_none. rewrite E2, <- E. exact Hni.
      * rewrite E. rewrite (N.eqb_sym id k). rewrite E2. reflexivity.
    + simpl. rewrite (IH Hnd'). destruct (e_id a =? k) eqn:E3.
      * apply N.eqb_eq in E3. rewrite <- E3. rewrite E. reflexivity.
      * reflexivity.
Qed.

(* ---------- move_last ---------- *)

Lemma move_last_some : forall B d e, find_id B d = Some e -> move_last B d = remove_id B d ++ [e].
Proof. intros B d e H. unfold move_last. rewrite H. reflexivity. Qed.

Lemma move_last_none : forall B d, find_id B d = None -> move_last B d = d.
Proof. intros B d H. unfold move_last. rewrite H. reflexivity. Qed.

Lemma find_removed_self : forall B d, NoDup (ids d) -> find_id B (remove_id B d) = None.
Proof. intros B d Hnd. rewrite (find_remove B B d Hnd). rewrite N.eqb_refl. reflexivity. Qed.

Lemma nodup_move_last : forall B d, NoDup (ids d) -> NoDup (ids (move_last B d)).
Proof.
  intros B d Hnd. destruct (find_id B d) as [e|] eqn:F.
  - rewrite (move_last_some B d e F). unfold ids. rewrite map_app. simpl.
    apply (Permutation_NoDup (Permutation_cons_append (map e_id (remove_id B d)) (e_id e))).
    destruct (find_id_some B d e F) as [_ He]. rewrite He. constructor.
    + apply find_id_none. apply find_removed_self. exact Hnd.
    + apply nodup_remove. exact Hnd.
  - rewrite (move_last_none B d F). exact Hnd.
Qed.

Lemma find_move_last : forall B k d, NoDup (ids d) -> find_id k (move_last B d) = find_id k d.
Proof.
  intros B k d Hnd. destruct (find_id B d) as [e|] eqn:F.
  - rewrite (move_last_some B d e F). rewrite find_id_app. rewrite (find_remove B k d Hnd).
    destruct (find_id_some B d e F) as [_ He].
    destruct (k =? B) eqn:E.
    + apply N.eqb_eq in E. subst k. simpl. rewrite He. rewrite N.eqb_refl. symmetry. exact F.
    + destruct (find_id k d) as [x|] eqn:G; [reflexivity|].
      simpl. rewrite He. rewrite (N.eqb_sym B k). rewrite E. reflexivity.
  - rewrite (move_last_none B d F). reflexivity.
Qed.

(* ---------- assoc ---------- *)

Lemma assoc_none : forall (A : Type) k (l : list (N * A)), assoc k l = None <-> ~ In k (map fst l).
Proof.
  intros A k l. induction l as [|[k' v] l IH]; simpl.
  - split; [intros _ H; exact H | reflexivity].
  - destruct (k' =? k) eqn:E.
    + apply N.eqb_eq in E. split; [intros H; discriminate H | intros H; exfalso; apply H; left; exact E].
    + apply N.eqb_neq in E. rewrite IH. split.
      * intros H [H1|H1]; [exact (E H1) | exact (H H1)].
      * intros H H1. apply H. right. exact H1.
Qed.

Lemma assoc_in : forall (A : Type) k (x : A) (l : list (N * A)),
  NoDup (map fst l) -> In (k, x) l -> assoc k l = Some x.
Proof.
  intros A k x l. induction l as [|[k' v] l IH]; intros Hnd Hin; simpl in *.
  - contradiction.
  - inversion Hnd as [|y l' Hni Hnd']; subst. destruct Hin as [Hin|Hin].
    + inversion Hin; subst. rewrite N.eqb_refl. reflexivity.
    + destruct (k' =? k) eqn:E.
      * apply N.eqb_eq in E. subst k'. exfalso. apply Hni.
        change k with (fst (k, x)). apply in_map. exact Hin.
      * apply IH; assumption.
Qed.

Lemma user_has_assoc : forall k user,
  user_has k user = match assoc k user with Some _ => true | None => false end.
Proof.
  intros k user. unfold user_has. induction user as [|[k' v] u IH]; simpl.
  - reflexivity.
  - destruct (k' =? k); simpl; [reflexivity | exact IH].
Qed.

(* ---------- apply_user ---------- *)

Definition ustep (d : list entry) (kv : N * option N) : list entry :=
  match snd kv with
  | None => remove_id (fst kv) d
  | Some val => set_user (fst kv) val d
  end.

Lemma apply_user_cons : forall d kv u, apply_user d (kv :: u) = apply_user (ustep d kv) u.
Proof. reflexivity. Qed.

Lemma nodup_ustep : forall d kv, NoDup (ids d) -> NoDup (ids (ustep d kv)).
Proof.
  intros d [k [v|]] Hnd; unfold ustep; simpl.
  - apply nodup_set_user. exact Hnd.
  - apply nodup_remove. exact Hnd.
Qed.

Lemma find_ustep_other : forall d k0 x k, NoDup (ids d) -> (k0 =? k) = false ->
  find_id k (ustep d (k0, x)) = find_id k d.
Proof.
  intros d k0 x k Hnd E. rewrite N.eqb_sym in E. destruct x as [v|]; unfold ustep; simpl.
  - rewrite find_set_user. rewrite E. reflexivity.
  - rewrite (find_remove k0 k d Hnd). rewrite E. reflexivity.
Qed.

Lemma nodup_apply_user : forall user d, NoDup (ids d) -> NoDup (ids (apply_user d user)).
Proof.
  induction user as [|kv u IH]; intros d Hnd.
  - exact Hnd.
  - rewrite apply_user_cons. apply IH. apply nodup_ustep. exact Hnd.
Qed.

Lemma find_apply_user : forall user k d, NoDup (ids d) -> NoDup (map fst user) ->
  find_id k (apply_user d user) =
  match assoc k user with
  | Some (Some v) => Some (mk k v false)
  | Some None => None
  | None => find_id k d
  end.
Proof.
  induction user as [|[k0 x] u IH]; intros k d Hd Hu.
  - reflexivity.
  - rewrite apply_user_cons. simpl in Hu. inversion Hu as [|y l Hni Hu']; subst.
    rewrite (IH k (ustep d (k0, x)) (nodup_ustep d (k0, x) Hd) Hu').
    simpl assoc. destruct (k0 =? k) eqn:E.
    + apply N.eqb_eq in E. subst k0.
      assert (Hn : assoc k u = None) by (apply assoc_none; exact Hni).
      rewrite Hn. destruct x as [v|]; unfold ustep; simpl.
      * rewrite find_set_user. rewrite N.eqb_refl. reflexivity.
      * apply find_removed_self. exact Hd.
    + rewrite (find_ustep_other d k0 x k Hd E). reflexivity.
Qed.

(* ---------- apply_schema_defaults ---------- *)

Definition sstep (user : list (N * option N)) (d : list entry) (kv : N * N) : list entry :=
  if user_has (fst kv) user then d else set_schema_default (fst kv) (snd kv) d.

Lemma asd_cons : forall d user kv s,
  apply_schema_defaults d user (kv :: s) = apply_schema_defaults (sstep user d kv) user s.
Proof. reflexivity. Qed.

Lemma nodup_sstep : forall user d kv, NoDup (ids d) -> NoDup (ids (sstep user d kv)).
Proof.
  intros user d kv Hnd. unfold sstep. destruct (user_has (fst kv) user).
  - exact Hnd.
  - apply nodup_set_sd. exact Hnd.
Qed.

Lemma nodup_asd : forall user sd d, NoDup (ids d) -> NoDup (ids (apply_schema_defaults d user sd)).
Proof.
  intros user sd. induction sd as [|kv s IH]; intros d Hnd.
  - exact Hnd.
  - rewrite asd_cons. apply IH. apply nodup_sstep. exact Hnd.
Qed.

Lemma find_sstep_other : forall user d k0 v0 k, (k0 =? k) = false ->
  find_id k (sstep user d (k0, v0)) = find_id k d.
Proof.
  intros user d k0 v0 k E. rewrite N.eqb_sym in E. unfold sstep. simpl.
  destruct (user_has k0 user).
  - reflexivity.
  - rewrite find_set_sd. rewrite E. reflexivity.
Qed.

Lemma find_asd : forall user sd k d, NoDup (map fst sd) ->
  find_id k (apply_schema_defaults d user sd) =
  if user_has k user then find_id k d else
  match assoc k sd with
  | Some v => Some (mk k v (emin_of (find_id k d)))
  | None => find_id k d
  end.
Proof.
  intros user sd. induction sd as [|[k0 v0] s IH]; intros k d Hs.
  - simpl. destruct (user_has k user); reflexivity.
  - rewrite asd_cons. simpl in Hs. inversion Hs as [|y l Hni Hs']; subst.
    rewrite (IH k (sstep user d (k0, v0)) Hs').
    simpl assoc. destruct (k0 =? k) eqn:E.
    + apply N.eqb_eq in E. subst k0.
      assert (Hn : assoc k s = None) by (apply assoc_none; exact Hni).
      rewrite Hn. unfold sstep. simpl. destruct (user_has k user) eqn:U.
      * reflexivity.
      * rewrite find_set_sd. rewrite N.eqb_refl. reflexivity.
    + rewrite (find_sstep_other user d k0 v0 k E). reflexivity.
Qed.

(* ---------- the merged dictionary ---------- *)

Lemma nodup_merged : forall d0 sd user, admissible d0 sd user -> NoDup (ids (merged_gen d0 sd user)).
Proof.
  intros d0 sd user [Hd _]. unfold merged_gen.
  apply nodup_move_last. apply nodup_asd. apply nodup_apply_user. exact Hd.
Qed.

Lemma find_merged : forall d0 sd user, admissible d0 sd user -> forall k,
  find_id k (merged_gen d0 sd user) =
  match assoc k user with
  | Some (Some v) => Some (mk k v false)
  | Some None => None
  | None => match assoc k sd with
            | Some v => Some (mk k v (emin_of (find_id k d0)))
            | None => find_id k d0
            end
  end.
Proof.
  intros d0 sd user [Hd [Hs Hu]] k. unfold merged_gen.
  rewrite find_move_last by (apply nodup_asd; apply nodup_apply_user; exact Hd).
  rewrite (find_asd user sd k (apply_user d0 user) Hs).
  rewrite user_has_assoc. rewrite (find_apply_user user k d0 Hd Hu).
  destruct (assoc k user) as [[v|]|]; reflexivity.
Qed.

(* ---------- the write plan ---------- *)

Definition wr (cur : list (N * option N)) (e : entry) : list (N * N) :=
  match assoc (e_id e) cur with
  | Some (Some c) => if e_min e && (e_val e <=? c) then [] else [(e_id e, e_val e)]
  | _ => [(e_id e, e_val e)]
  end.

Lemma config_writes_eq : forall d cur, config_writes d cur = flat_map (wr cur) d.
Proof. reflexivity. Qed.

Lemma wr_cases : forall cur e, wr cur e = [] \/ wr cur e = [(e_id e, e_val e)].
Proof.
  intros cur e. unfold wr. destruct (assoc (e_id e) cur) as [[c|]|].
  - destruct (e_min e && (e_val e <=? c)); [left | right]; reflexivity.
  - right. reflexivity.
  - right. reflexivity.
Qed.

Lemma wr_in : forall cur e p, In p (wr cur e) -> p = (e_id e, e_val e) /\ wr cur e = [(e_id e, e_val e)].
Proof.
  intros cur e p H. destruct (wr_cases cur e) as [W|W]; rewrite W in H; simpl in H.
  - contradiction.
  - destruct H as [H|H]; [|contradiction]. split; [symmetry; exact H | exact W].
Qed.

Lemma wr_unflagged : forall cur e, e_min e = false -> wr cur e = [(e_id e, e_val e)].
Proof.
  intros cur e H. unfold wr. rewrite H. simpl. destruct (assoc (e_id e) cur) as [[c|]|]; reflexivity.
Qed.

Lemma in_writes : forall cur d id val, In (id, val) (flat_map (wr cur) d) ->
  exists e, In e d /\ e_id e = id /\ e_val e = val /\ wr cur e = [(id, val)].
Proof.
  intros cur d id val H. apply in_flat_map in H. destruct H as [e [He Hp]].
  destruct (wr_in cur e (id, val) Hp) as [Heq W]. inversion Heq; subst.
  exists e. split; [exact He|]. split; [reflexivity|]. split; [reflexivity | exact W].
Qed.

Lemma writes_ids : forall cur d k, In k (map fst (flat_map (wr cur) d)) -> In k (ids d).
Proof.
  intros cur d k H. apply in_map_iff in H. destruct H as [[id val] [Hk Hp]]. simpl in Hk. subst id.
  destruct (in_writes cur d k val Hp) as [e [He [Hid _]]].
  rewrite <- Hid. unfold ids. apply in_map. exact He.
Qed.

Lemma writes_nodup : forall cur d, NoDup (ids d) -> NoDup (map fst (flat_map (wr cur) d)).
Proof.
  intros cur d. induction d as [|a d IH]; intros Hnd.
  - simpl. constructor.
  - unfold ids in Hnd. simpl in Hnd. inversion Hnd as [|x l Hni Hnd']; subst.
    simpl. destruct (wr_cases cur a) as [W|W]; rewrite W; simpl.
    + apply IH. exact Hnd'.
    + constructor.
      * intros H. apply writes_ids in H. exact (Hni H).
      * apply IH. exact Hnd'.
Qed.

(* ---------- the generic theorems ---------- *)

Lemma writes_once : forall d0 sd user cur, admissible d0 sd user ->
  NoDup (map fst (config_writes (merged_gen d0 sd user) cur)).
Proof.
  intros d0 sd user cur Hadm. rewrite config_writes_eq.
  apply writes_nodup. apply nodup_merged. exact Hadm.
Qed.

Lemma user_exact : forall d0 sd user cur, admissible d0 sd user ->
  forall id val, In (id, Some val) user ->
  In (id, val) (config_writes (merged_gen d0 sd user) cur) /\
  forall val', In (id, val') (config_writes (merged_gen d0 sd user) cur) -> val' = val.
Proof.
  intros d0 sd user cur Hadm id val Hin. rewrite config_writes_eq.
  pose proof (nodup_merged d0 sd user Hadm) as Hnd.
  pose proof (find_merged d0 sd user Hadm id) as F.
  destruct Hadm as [Hd [Hs Hu]].
  rewrite (assoc_in _ id (Some val) user Hu Hin) in F.
  split.
  - destruct (find_id_some _ _ _ F) as [He _].
    apply in_flat_map. exists (mk id val false). split; [exact He|].
    rewrite wr_unflagged by reflexivity. left. reflexivity.
  - intros val' H. destruct (in_writes cur _ id val' H) as [e [He [Hid [Hval _]]]].
    pose proof (find_id_in _ e Hnd He) as F2. rewrite Hid in F2. rewrite F in F2.
    inversion F2; subst e. simpl in Hval. symmetry. exact Hval.
Qed.

Lemma disabled_silent : forall d0 sd user cur, admissible d0 sd user ->
  forall id, In (id, None) user ->
  ~ In id (map fst (config_writes (merged_gen d0 sd user) cur)).
Proof.
  intros d0 sd user cur Hadm id Hin H. rewrite config_writes_eq in H.
  apply writes_ids in H. apply in_ids_iff in H. apply H.
  rewrite (find_merged d0 sd user Hadm id).
  destruct Hadm as [Hd [Hs Hu]].
  rewrite (assoc_in _ id None user Hu Hin). reflexivity.
Qed.

Lemma never_shrink : forall d0 sd user cur, admissible d0 sd user ->
  forall id val c,
  In (id, val) (config_writes (merged_gen d0 sd user) cur) -> user_has id user = false ->
  grow_only d0 id -> assoc id cur = Some (Some c) -> c < val.
Proof.
  intros d0 sd user cur Hadm id val c Hw Hu Hg Hc. rewrite config_writes_eq in Hw.
  pose proof (nodup_merged d0 sd user Hadm) as Hnd.
  pose proof (find_merged d0 sd user Hadm id) as F.
  destruct (in_writes cur _ id val Hw) as [e [He [Hid [Hval W]]]].
  pose proof (find_id_in _ e Hnd He) as F2. rewrite Hid in F2.
  rewrite user_has_assoc in Hu.
  destruct (assoc id user) as [x|] eqn:Au; [discriminate Hu|].
  destruct Hg as [e0 [He0 [Hid0 Hmin0]]].
  destruct Hadm as [Hd [Hs Hun]].
  pose proof (find_id_in d0 e0 Hd He0) as F0. rewrite Hid0 in F0.
  rewrite F0 in F. simpl in F.
  assert (Hmin : e_min e = true).
  { rewrite F in F2. destruct (assoc id sd) as [v|].
    - inversion F2; subst e. simpl. exact Hmin0.
    - inversion F2; subst e. exact Hmin0. }
  unfold wr in W. rewrite Hid in W. rewrite Hc in W. rewrite Hmin in W. simpl in W.
  destruct (e_val e <=? c) eqn:L.
  - discriminate W.
  - apply N.leb_gt in L. rewrite <- Hval. exact L.
Qed.

Lemma flat_map_snoc : forall (A B : Type) (f : A -> list B) l a,
  flat_map f (l ++ [a]) = flat_map f l ++ f a.
Proof.
  intros A B f l a. rewrite flat_map_app. simpl. rewrite app_nil_r. reflexivity.
Qed.

Lemma buffer_last : forall d0 sd user cur, admissible d0 sd user ->
  forall val, In (CONFIG_PACKET_BUFFER_COUNT, val) (config_writes (merged_gen d0 sd user) cur) ->
  exists l, config_writes (merged_gen d0 sd user) cur = l ++ [(CONFIG_PACKET_BUFFER_COUNT, val)].
Proof.
  intros d0 sd user cur Hadm val. rewrite config_writes_eq. unfold merged_gen.
  set (B := CONFIG_PACKET_BUFFER_COUNT).
  set (D := apply_schema_defaults (apply_user d0 user) user sd).
  assert (Hnd : NoDup (ids D)).
  { destruct Hadm as [Hd _]. apply nodup_asd. apply nodup_apply_user. exact Hd. }
  intros Hw. destruct (find_id B D) as [e|] eqn:F.
  - rewrite (move_last_some B D e F) in *. rewrite flat_map_snoc in *.
    apply in_app_or in Hw. destruct Hw as [Hw|Hw].
    + exfalso. assert (Hin : In B (ids (remove_id B D))).
      { apply (writes_ids cur). change B with (fst (B, val)). apply in_map. exact Hw. }
      apply in_ids_iff in Hin. apply Hin. apply find_removed_self. exact Hnd.
    + destruct (wr_in cur e (B, val) Hw) as [Heq W]. rewrite W. rewrite <- Heq.
      exists (flat_map (wr cur) (remove_id B D)). reflexivity.
  - rewrite (move_last_none B D F) in Hw. exfalso.
    assert (Hin : In B (ids D)).
    { apply (writes_ids cur). change B with (fst (B, val)). apply in_map. exact Hw. }
    apply in_ids_iff in Hin. exact (Hin F).
Qed.

Lemma defaults_written : forall d0 sd user cur, admissible d0 sd user ->
  forall e, In e d0 -> user_has (e_id e) user = false -> assoc (e_id e) sd = None ->
  (e_min e = false \/ assoc (e_id e) cur = None \/ assoc (e_id e) cur = Some None
   \/ exists c, assoc (e_id e) cur = Some (Some c) /\ c < e_val e) ->
  In (e_id e, e_val e) (config_writes (merged_gen d0 sd user) cur).
Proof.
  intros d0 sd user cur Hadm e He Hu Hsd Hc. rewrite config_writes_eq.
  pose proof (find_merged d0 sd user Hadm (e_id e)) as F.
  rewrite user_has_assoc in Hu.
  destruct (assoc (e_id e) user) as [x|] eqn:Au; [discriminate Hu|].
  rewrite Hsd in F. destruct Hadm as [Hd _]. rewrite (find_id_in d0 e Hd He) in F.
  destruct (find_id_some _ _ _ F) as [HeD _].
  apply in_flat_map. exists e. split; [exact HeD|].
  assert (W : wr cur e = [(e_id e, e_val e)]).
  { destruct Hc as [Hc|[Hc|[Hc|[c [Hc Hlt]]]]].
    - apply wr_unflagged. exact Hc.
    - unfold wr. rewrite Hc. reflexivity.
    - unfold wr. rewrite Hc. reflexivity.
    - unfold wr. rewrite Hc. apply N.leb_gt in Hlt. rewrite Hlt. rewrite andb_false_r. reflexivity. }
  rewrite W. left. reflexivity.
Qed.

(* ---------- instantiation on the generated tables ---------- *)

Fixpoint memb (x : N) (l : list N) : bool :=
  match l with [] => false | y :: l' => (y =? x) || memb x l' end.

Fixpoint nodupb (l : list N) : bool :=
  match l with [] => true | x :: l' => negb (memb x l') && nodupb l' end.

Lemma memb_in : forall x l, memb x l = true <-> In x l.
Proof.
  intros x l. induction l as [|y l IH]; simpl.
  - split; [intros H; discriminate H | intros H; contradiction].
  - rewrite orb_true_iff, N.eqb_eq, IH. reflexivity.
Qed.

Lemma nodupb_sound : forall l, nodupb l = true -> NoDup l.
Proof.
  induction l as [|x l IH]; simpl; intros H.
  - constructor.
  - apply andb_true_iff in H. destruct H as [H1 H2]. constructor.
    + intros Hin. apply memb_in in Hin. rewrite Hin in H1. discriminate H1.
    + apply IH. exact H2.
Qed.

Definition growb (d : list entry) (id : N) : bool :=
  existsb (fun e => (e_id e =? id) && e_min e) d.

Lemma growb_sound : forall d id, growb d id = true -> grow_only d id.
Proof.
  intros d id H. unfold growb in H. apply existsb_exists in H. destruct H as [e [He H]].
  apply andb_true_iff in H. destruct H as [H1 H2]. apply N.eqb_eq in H1.
  exists e. split; [exact He|]. split; [exact H1 | exact H2].
Qed.

Definition nonemptyb (A : Type) (l : list A) : bool := match l with [] => false | _ => true end.

Definition version_ok (v : N) : bool :=
  memb v DEFAULT_CONFIG_VERSIONS && nodupb (ids (config_defaults v))
  && nodupb (map fst (schema_defaults_of v)) && nonemptyb entry (config_defaults v).

Lemma versions_check : forallb version_ok SUPPORTED_VERSIONS = true.
Proof. vm_compute. reflexivity. Qed.

Lemma versions_admissible : forall v, In v SUPPORTED_VERSIONS ->
  In v DEFAULT_CONFIG_VERSIONS /\ NoDup (ids (config_defaults v))
  /\ NoDup (map fst (schema_defaults_of v)) /\ config_defaults v <> [].
Proof.
  intros v Hv. pose proof (proj1 (forallb_forall version_ok SUPPORTED_VERSIONS) versions_check v Hv) as C.
  unfold version_ok in C. repeat rewrite andb_true_iff in C. destruct C as [[[C1 C2] C3] C4].
  split; [apply memb_in; exact C1|]. split; [apply nodupb_sound; exact C2|].
  split; [apply nodupb_sound; exact C3|].
  intros Hnil. rewrite Hnil in C4. discriminate C4.
Qed.

Definition capacity_names_l : list string :=
  ["CONFIG_SOURCE_ROUTE_TABLE_SIZE"; "CONFIG_SUPPORTED_NETWORKS"; "CONFIG_MULTICAST_TABLE_SIZE";
   "CONFIG_TRUST_CENTER_ADDRESS_CACHE_SIZE"; "CONFIG_ADDRESS_TABLE_SIZE"; "CONFIG_KEY_TABLE_SIZE";
   "CONFIG_MAX_END_DEVICE_CHILDREN"]%string.

Definition capacity_ok (v : N) : bool :=
  forallb (fun name => growb (config_defaults v) (cfg_id name) && negb (cfg_id name =? 0)) capacity_names_l.

Lemma capacity_check : forallb capacity_ok SUPPORTED_VERSIONS = true.
Proof. vm_compute. reflexivity. Qed.

Lemma capacity_grow_only : forall v name, In v SUPPORTED_VERSIONS -> In name capacity_names_l ->
  grow_only (config_defaults v) (cfg_id name) /\ cfg_id name <> 0.
Proof.
  intros v name Hv Hn.
  pose proof (proj1 (forallb_forall capacity_ok SUPPORTED_VERSIONS) capacity_check v Hv) as C.
  unfold capacity_ok in C.
  pose proof (proj1 (forallb_forall _ capacity_names_l) C name Hn) as C'. simpl in C'.
  apply andb_true_iff in C'. destruct C' as [C1 C2]. split.
  - apply growb_sound. exact C1.
  - apply N.eqb_neq. apply negb_true_iff. exact C2.
Qed.

Lemma buffer_check :
  forallb (fun v => memb CONFIG_PACKET_BUFFER_COUNT (ids (config_defaults v))) SUPPORTED_VERSIONS = true.
Proof. vm_compute. reflexivity. Qed.

Lemma buffer_in_defaults : forall v, In v SUPPORTED_VERSIONS ->
  In CONFIG_PACKET_BUFFER_COUNT (ids (config_defaults v)).
Proof.
  intros v Hv. apply memb_in.
  exact (proj1 (forallb_forall _ SUPPORTED_VERSIONS) buffer_check v Hv).
Qed.
