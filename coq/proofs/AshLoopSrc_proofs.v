(* AshProtocol.data_received as emitted from its SOURCE TEXT (gen/GenAshLoopFn.v, harness/pysrc.py: the
   `while self._buffer:` loop on explicit fuel, the list operations of the fixed prelude) against the
   hand-written receive loop (model/AshRx.v, rx_loop / data_received): for every starting state and every
   read the emitted function returns (it neither raises nor runs out of fuel), leaves the buffer, the
   discarding flag and the receive sequence number of the model, and its writes and upward calls are the
   model's outputs, in order. *)
From Coq Require Import ZArith NArith List Bool Lia PeanoNat.
Import ListNotations.
Require Import BV.gen.GenAsh BV.gen.GenAshFn BV.gen.GenAshRxFn BV.gen.GenAshLoopFn.
Require Import BV.model.AshCodec BV.model.AshRx.
Require Import BV.proofs.AshSrc_proofs BV.proofs.AshRxSrc_proofs BV.proofs.AshRxBytes_proofs.
Open Scope N_scope.

(* ---- the prelude's list functions in the model's vocabulary ---------------------------------------- *)
Lemma mem_rwe : forall c, mem_N c RESERVED_WITHOUT_ESCAPE = reserved_no_esc c.
Proof.
  intro c. unfold mem_N, RESERVED_WITHOUT_ESCAPE, reserved_no_esc, FLAG, XON, XOFF, SUB, CANCEL.
  cbn [existsb].
  destruct (c =? 126), (c =? 17), (c =? 19), (c =? 24), (c =? 26); reflexivity.
Qed.

Lemma contains_split : forall x b,
  py_contains [x] b = match split_first (fun y => y =? x) b with Some _ => true | None => false end.
Proof.
  intros x b. induction b as [|y b IH]; [reflexivity|].
  cbn [py_contains py_startswith split_first]. rewrite IH.
  destruct (y =? x); [reflexivity|].
  destruct (split_first (fun y0 => y0 =? x) b) as [[[p r] s]|]; reflexivity.
Qed.

Lemma partition_split : forall x b,
  py_partition [x] b =
    match split_first (fun y => y =? x) b with
    | Some (pre, _, suf) => (pre, [x], suf)
    | None => (b, [], [])
    end.
Proof.
  intros x b. induction b as [|y b IH]; [reflexivity|].
  cbn [py_partition py_startswith split_first List.length skipn]. rewrite IH.
  destruct (y =? x); cbn [andb]; [reflexivity|].
  destruct (split_first (fun y0 => y0 =? x) b) as [[[p r] s]|]; reflexivity.
Qed.

Lemma next_enumerate_split : forall (p : N -> bool) b i,
  py_next_enumerate_from (fun _ y => p y) i b =
    match split_first p b with
    | Some (pre, r, _) => Some ((i + List.length pre)%nat, r)
    | None => None
    end.
Proof.
  intros p b. induction b as [|y b IH]; intro i; [reflexivity|].
  cbn [py_next_enumerate_from split_first].
  destruct (p y).
  - cbn [List.length]. rewrite Nat.add_0_r. reflexivity.
  - rewrite IH. destruct (split_first p b) as [[[pre r] s]|]; [|reflexivity].
    cbn [List.length]. rewrite Nat.add_succ_r. reflexivity.
Qed.

Lemma firstn_len_app {A} : forall (a l : list A), firstn (List.length a) (a ++ l) = a.
Proof. induction a as [|x a IH]; intro l; [reflexivity|]. cbn [List.length app firstn]. rewrite IH. reflexivity. Qed.

Lemma skipn_len1_app {A} : forall (a : list A) r l, skipn (List.length a + 1) (a ++ r :: l) = l.
Proof. induction a as [|x a IH]; intros r l; [reflexivity|]. cbn [List.length app Nat.add skipn]. apply IH. Qed.

Lemma pop_at_app : forall a r l, py_pop_at (List.length a) (a ++ r :: l) = Some (a ++ l).
Proof.
  induction a as [|x a IH]; intros r l; [reflexivity|].
  cbn [List.length app py_pop_at]. rewrite IH. reflexivity.
Qed.

(* ---- outputs: the effects of the emitted code against the model's [out]s ----------------------------- *)
Definition obs_of (e : list py_eff) : list out := flat_map eff_obs e.
Lemma obs_app a b : obs_of (a ++ b) = obs_of a ++ obs_of b.
Proof. unfold obs_of. apply flat_map_app. Qed.
Lemma is_obs_observable : forall l, filter is_obs l = filter observable l.
Proof. intro l. apply filter_ext. intros [ | | | | | | | | ]; reflexivity. Qed.

(* one complete frame: unstuff (the emitted _unstuff_bytes), parse, then the NAK of the except clause or the emitted
   frame_received *)
Lemma frame_bytes_sim : forall rx tx fl code fb,
  match py_unstuff_bytes fb with
  | None => obs_of [PWriteCancel (Nak 0 0 rx)] = filter is_obs (snd (handle_frame_bytes rx fb))
            /\ fst (handle_frame_bytes rx fb) = rx
  | Some d =>
      match parse d with
      | None => obs_of [PWriteCancel (Nak 0 0 rx)] = filter is_obs (snd (handle_frame_bytes rx fb))
                /\ fst (handle_frame_bytes rx fb) = rx
      | Some f =>
          let '(rx', _, _, _, e) := py_frame_received (rx, tx, fl, code) f in
          obs_of e = filter is_obs (snd (handle_frame_bytes rx fb)) /\ fst (handle_frame_bytes rx fb) = rx'
      end
  end.
Proof.
  intros rx tx fl code fb. unfold handle_frame_bytes. rewrite src_unstuff.
  destruct (unstuff fb) as [d|]; [|split; reflexivity].
  destruct (parse d) as [f|]; [|split; reflexivity].
  pose proof (src_rx_frame rx tx fl code f) as H.
  destruct (py_frame_received (rx, tx, fl, code) f) as [[[[rx' tx'] fl'] code'] e].
  destruct H as [H1 H2]. split; [exact H2|symmetry; exact H1].
Qed.

(* ---- one run of the loop body ------------------------------------------------------------------------- *)
Local Notation body := py_data_received_loop_body.
Local Notation test := py_data_received_loop_test.

(* one iteration as the model has it (rx_loop unfolded once; iter2 is AshRxBytes_proofs.phase2 without the recursion):
   break with a buffer and a flag, or go on with a buffer, a flag and possibly a complete frame to handle *)
Inductive iter_result :=
| IBreak (b : list N) (d : bool)
| INext (b : list N) (d : bool) (fb : option (list N)).   (* fb: a complete non-empty frame to handle *)

Definition iter2 (b1 : list N) : iter_result :=
  match split_first reserved_no_esc b1 with
  | None => IBreak b1 false
  | Some (pre, r, suf) =>
      if r =? FLAG then match pre with [] => INext suf false None | _ => INext suf false (Some pre) end
      else if r =? CANCEL then INext suf false None
      else if r =? SUB then INext suf true None
      else INext (pre ++ suf) false None
  end.

Definition iter1 (b : list N) (d : bool) : iter_result :=
  if d then
    match split_first (fun x => x =? FLAG) b with
    | None => IBreak [] true
    | Some (_, _, suf) => iter2 suf
    end
  else iter2 b.

(* a non-breaking iteration consumes at least one byte *)
Lemma iter2_shrinks : forall b1, match iter2 b1 with INext b _ _ => (List.length b < List.length b1)%nat | IBreak _ _ => True end.
Proof.
  intro b1. unfold iter2.
  destruct (split_first reserved_no_esc b1) as [[[pre r] suf]|] eqn:E; [|exact I].
  destruct (split_first_some _ _ _ _ _ E) as (-> & _ & _).
  rewrite app_length. cbn [List.length].
  destruct (r =? FLAG); [destruct pre; cbn [List.length]; lia|].
  destruct (r =? CANCEL); [lia|]. destruct (r =? SUB); [lia|]. rewrite app_length. lia.
Qed.

Lemma iter1_shrinks : forall b d, match iter1 b d with INext b' _ _ => (List.length b' < List.length b)%nat | IBreak _ _ => True end.
Proof.
  intros b d. unfold iter1. destruct d; [|apply iter2_shrinks].
  destruct (split_first (fun x => x =? FLAG) b) as [[[pre r] suf]|] eqn:E; [|exact I].
  destruct (split_first_some _ _ _ _ _ E) as (-> & _ & _).
  pose proof (iter2_shrinks suf) as H. destruct (iter2 suf); [exact I|].
  rewrite app_length. cbn [List.length]. lia.
Qed.

(* the model's loop, one unfolding, through iter1 *)
Lemma rx_loop_iter : forall f b d rx acc, b <> [] ->
  rx_loop (S f) b d rx acc =
    match iter1 b d with
    | IBreak b' d' => (b', d', rx, acc)
    | INext b' d' None => rx_loop f b' d' rx acc
    | INext b' d' (Some fb) => let '(rx', o) := handle_frame_bytes rx fb in rx_loop f b' d' rx' (acc ++ o)
    end.
Proof.
  intros f b d rx acc Hb. rewrite (rx_loop_unfold f b d rx acc Hb). unfold iter1.
  assert (P2 : forall b1, phase2 f b1 rx acc =
    match iter2 b1 with
    | IBreak b' d' => (b', d', rx, acc)
    | INext b' d' None => rx_loop f b' d' rx acc
    | INext b' d' (Some fb) => let '(rx', o) := handle_frame_bytes rx fb in rx_loop f b' d' rx' (acc ++ o)
    end).
  { intro b1. unfold phase2, iter2.
    destruct (split_first reserved_no_esc b1) as [[[pre r] suf]|]; [|reflexivity].
    destruct (r =? FLAG); [destruct pre; reflexivity|].
    destruct (r =? CANCEL); [reflexivity|]. destruct (r =? SUB); reflexivity. }
  destruct d; [|apply P2].
  destruct (split_first (fun x => x =? FLAG) b) as [[[pre r] suf]|]; [apply P2|reflexivity].
Qed.

(* what one run of the emitted body must return, given the model's reading of the iteration *)
Definition body_result (rx tx : N) (fl : bool) (code : N) (eff : list py_eff) (r : iter_result)
  (res : py_data_received_state * py_ctl) : Prop :=
  match r with
  | IBreak b' d' => res = ((b', d', rx, tx, fl, code, eff), CBreak)
  | INext b' d' None => res = ((b', d', rx, tx, fl, code, eff), CNext)
  | INext b' d' (Some fb) =>
      exists tx' fl' code' e,
        res = ((b', d', fst (handle_frame_bytes rx fb), tx', fl', code', eff ++ e), CNext)
        /\ obs_of e = filter is_obs (snd (handle_frame_bytes rx fb))
  end.

Lemma xon_xoff : forall r, reserved_no_esc r = true -> (r =? 126) = false -> (r =? 26) = false -> (r =? 24) = false ->
  (r =? 17) = true \/ ((r =? 17) = false /\ (r =? 19) = true).
Proof.
  intros r. unfold reserved_no_esc, FLAG, XON, XOFF, SUB, CANCEL. intros H H1 H2 H3.
  rewrite H1, H2, H3 in H. destruct (r =? 17); [left; reflexivity|right].
  destruct (r =? 19); [split; reflexivity|discriminate H].
Qed.

Lemma split_first_ext (p q : N -> bool) : (forall x, p x = q x) -> forall l, split_first p l = split_first q l.
Proof.
  intros H l. induction l as [|b l IH]; [reflexivity|]. cbn [split_first]. rewrite H, IH. reflexivity.
Qed.

(* what follows the discarding block (the translator duplicates it into both branches of the `if`) *)
Ltac after_discard b1 rx tx fl code :=
  unfold py_next_enumerate; rewrite (next_enumerate_split (fun byte => mem_N byte RESERVED_WITHOUT_ESCAPE));
  rewrite (split_first_ext _ reserved_no_esc mem_rwe b1);
  unfold iter2;
  let pre := fresh "pre" in let r := fresh "r" in let suf := fresh "suf" in let E := fresh "E" in
  let Hr := fresh "Hr" in
  destruct (split_first reserved_no_esc b1) as [[[pre r] suf]|] eqn:E; cbv beta iota zeta; [|reflexivity];
  destruct (split_first_some _ _ _ _ _ E) as (-> & Hr & _);
  cbn [Nat.add]; rewrite ?firstn_len_app, ?skipn_len1_app, ?pop_at_app;
  unfold FLAG, CANCEL, SUB;
  let E1 := fresh "E1" in let E2 := fresh "E2" in let E3 := fresh "E3" in
  destruct (r =? 126) eqn:E1;
  [ destruct pre as [|p0 pre']; [reflexivity|]; cbn [py_is_empty];
    let H := fresh "H" in
    pose proof (frame_bytes_sim rx tx fl code (p0 :: pre')) as H;
    destruct (py_unstuff_bytes (p0 :: pre')) as [dd|];
    [ destruct (parse dd) as [f|];
      [ let rx' := fresh "rx'" in let tx' := fresh "tx'" in let fl' := fresh "fl'" in
        let code' := fresh "code'" in let e := fresh "e" in
        destruct (py_frame_received (rx, tx, fl, code) f) as [[[[rx' tx'] fl'] code'] e];
        destruct H as [H1 H2]; exists tx', fl', code', e; rewrite H2; split; [reflexivity|exact H1]
      | destruct H as [H1 H2]; exists tx, fl, code, [PWriteCancel (Nak 0 0 rx)]; rewrite H2; split; [reflexivity|exact H1] ]
    | destruct H as [H1 H2]; exists tx, fl, code, [PWriteCancel (Nak 0 0 rx)]; rewrite H2; split; [reflexivity|exact H1] ]
  | destruct (r =? 26) eqn:E2; [reflexivity|];
    destruct (r =? 24) eqn:E3; [reflexivity|];
    destruct (xon_xoff r Hr E1 E2 E3) as [->|[-> ->]]; reflexivity ].

Lemma body_sim : forall b d rx tx fl code eff,
  body_result rx tx fl code eff (iter1 b d) (body (b, d, rx, tx, fl, code, eff)).
Proof.
  intros b d rx tx fl code eff.
  unfold body, iter1.
  destruct d.
  - (* discarding: `bytes([FLAG]) not in buffer`, then partition *)
    rewrite contains_split, partition_split.
    change (fun y : N => y =? 126) with (fun x : N => x =? FLAG).
    destruct (split_first (fun x => x =? FLAG) b) as [[[pre0 r0] b1]|]; cbv beta iota zeta; cbn [negb].
    2:{ reflexivity. }
    after_discard b1 rx tx fl code.
  - after_discard b rx tx fl code.
Qed.

(* ---- the while loop ------------------------------------------------------------------------------------ *)
Lemma while_step : forall f s, test s = true ->
  py_while test body (S f) s =
    match body s with
    | (s', CNext) => py_while test body f s'
    | (s', CBreak) => Done s'
    | (s', CRaise) => Raised s'
    end.
Proof. intros f s H. cbn [py_while]. rewrite H. reflexivity. Qed.

Lemma while_done : forall f s, test s = false -> py_while test body f s = Done s.
Proof. intros f s H. destruct f; cbn [py_while]; rewrite H; reflexivity. Qed.

(* with any fuel above the length of the buffer the emitted loop returns what the model's loop computes; in
   particular it neither raises nor runs out of fuel *)
Lemma loop_sim : forall fuel b d rx tx fl code eff0 e acc,
  (List.length b < fuel)%nat ->
  obs_of e = filter is_obs acc ->
  exists tx' fl' code' e',
    py_while test body fuel (b, d, rx, tx, fl, code, eff0 ++ e) =
      Done (fst (fst (fst (rx_loop fuel b d rx acc))), snd (fst (fst (rx_loop fuel b d rx acc))),
            snd (fst (rx_loop fuel b d rx acc)), tx', fl', code', eff0 ++ e')
    /\ obs_of e' = filter is_obs (snd (rx_loop fuel b d rx acc)).
Proof.
  induction fuel as [|f IH]; intros b d rx tx fl code eff0 e acc Hlen He; [inversion Hlen|].
  destruct b as [|h t].
  - rewrite while_done by reflexivity. cbn [rx_loop fst snd].
    exists tx, fl, code, e. split; [reflexivity|exact He].
  - rewrite while_step by reflexivity.
    rewrite rx_loop_iter by discriminate.
    pose proof (body_sim (h :: t) d rx tx fl code (eff0 ++ e)) as Hb.
    pose proof (iter1_shrinks (h :: t) d) as Hs.
    destruct (iter1 (h :: t) d) as [b' d'|b' d' [fb|]]; unfold body_result in Hb.
    + rewrite Hb. cbn [fst snd]. exists tx, fl, code, e. split; [reflexivity|exact He].
    + destruct Hb as (tx1 & fl1 & code1 & e1 & -> & Ho).
      destruct (handle_frame_bytes rx fb) as [rx1 o]. cbn [fst snd] in Ho |- *.
      rewrite <- app_assoc.
      apply IH; [lia|]. rewrite obs_app, filter_app, He, Ho. reflexivity.
    + rewrite Hb. apply IH; [lia|exact He].
Qed.

(* the fuel: every run of the body that asks for another iteration has consumed a byte, so any amount above the
   length of the buffer gives the same result *)
Lemma body_consumes : forall b d rx tx fl code eff s',
  body (b, d, rx, tx, fl, code, eff) = (s', CNext) ->
  (List.length (fst (fst (fst (fst (fst (fst s')))))) < List.length b)%nat.
Proof.
  intros b d rx tx fl code eff s' H.
  pose proof (body_sim b d rx tx fl code eff) as Hb. pose proof (iter1_shrinks b d) as Hs.
  rewrite H in Hb. destruct (iter1 b d) as [b' d'|b' d' [fb|]]; unfold body_result in Hb.
  - discriminate Hb.
  - destruct Hb as (tx1 & fl1 & code1 & e1 & Hb & _). injection Hb as ->. exact Hs.
  - injection Hb as ->. exact Hs.
Qed.

Definition buffer_of (s : py_data_received_state) : list N := fst (fst (fst (fst (fst (fst s))))).

Lemma loop_fuel_irrelevant : forall f1 f2 s,
  (List.length (buffer_of s) < f1)%nat -> (List.length (buffer_of s) < f2)%nat ->
  py_while test body f1 s = py_while test body f2 s.
Proof.
  induction f1 as [|f1 IH]; intros f2 s H1 H2; [inversion H1|].
  destruct f2 as [|f2]; [inversion H2|].
  destruct (test s) eqn:Et; [|rewrite !while_done by exact Et; reflexivity].
  rewrite !while_step by exact Et.
  destruct (body s) as [s' c] eqn:Eb. destruct c; try reflexivity.
  destruct s as [[[[[[b d] rx] tx] fl] code] eff].
  pose proof (body_consumes b d rx tx fl code eff s' Eb) as Hc.
  unfold buffer_of in *. cbn [fst] in H1, H2. apply IH; lia.
Qed.

Lemma loop_returns : forall fuel s, (List.length (buffer_of s) < fuel)%nat ->
  exists s', py_while test body fuel s = Done s'.
Proof.
  intros fuel [[[[[[b d] rx] tx] fl] code] eff] H. unfold buffer_of in H. cbn [fst] in H.
  destruct (loop_sim fuel b d rx tx fl code eff [] [] H eq_refl) as (tx' & fl' & code' & e' & Hw & _).
  rewrite app_nil_r in Hw. eexists. exact Hw.
Qed.

(* ---- the buffer cap after the loop ---------------------------------------------------------------------- *)
Lemma suffix_lastn : forall b, py_suffix (N.to_nat MAX_BUFFER_SIZE) b = lastn (N.to_nat MAX_BUFFER_SIZE) b.
Proof.
  intro b. unfold py_suffix, lastn.
  destruct (N.to_nat MAX_BUFFER_SIZE) eqn:E; [vm_compute in E; discriminate E|reflexivity].
Qed.

(* ---- data_received ---------------------------------------------------------------------------------------- *)
Lemma src_receive_loop : forall st tx fl code eff0 chunk,
  exists tx' fl' code' e,
    py_data_received (buf st, discarding st, rxseq st, tx, fl, code, eff0) chunk =
      Done (buf (fst (data_received st chunk)), discarding (fst (data_received st chunk)),
            rxseq (fst (data_received st chunk)), tx', fl', code', eff0 ++ e)
    /\ flat_map eff_obs e = filter observable (snd (data_received st chunk)).
Proof.
  intros st tx fl code eff0 chunk. unfold py_data_received, data_received.
  destruct (loop_sim (S (List.length (buf st ++ chunk))) (buf st ++ chunk) (discarding st) (rxseq st)
              tx fl code eff0 [] [] (Nat.lt_succ_diag_r _) eq_refl) as (tx' & fl' & code' & e' & Hw & Ho).
  rewrite app_nil_r in Hw. rewrite Hw. clear Hw.
  destruct (rx_loop (S (List.length (buf st ++ chunk))) (buf st ++ chunk) (discarding st) (rxseq st) [])
    as [[[b' d'] rx'] o].
  cbn [fst snd buf discarding rxseq] in *. cbv beta iota zeta.
  rewrite <- is_obs_observable. unfold cap.
  destruct (N.to_nat MAX_BUFFER_SIZE <? List.length b')%nat.
  - rewrite suffix_lastn. exists tx', fl', code', e'. split; [reflexivity|exact Ho].
  - exists tx', fl', code', e'. split; [reflexivity|exact Ho].
Qed.

(* the fuel the emitted function passes (len(buffer) + 1) is not special: every larger amount gives the same result *)
Lemma src_loop_fuel : forall fuel s,
  (List.length (buffer_of s) < fuel)%nat ->
  py_while py_data_received_loop_test py_data_received_loop_body fuel s =
  py_while py_data_received_loop_test py_data_received_loop_body (S (List.length (buffer_of s))) s
  /\ exists s', py_while py_data_received_loop_test py_data_received_loop_body fuel s = Done s'.
Proof.
  intros fuel s H. split.
  - apply loop_fuel_irrelevant; [exact H|apply Nat.lt_succ_diag_r].
  - apply loop_returns. exact H.
Qed.

(* ---- a sequence of reads ------------------------------------------------------------------------------------ *)
Fixpoint py_feed (s : py_data_received_state) (chunks : list (list N)) : py_outcome py_data_received_state :=
  match chunks with
  | [] => Done s
  | c :: cs => match py_data_received s c with Done s' => py_feed s' cs | o => o end
  end.

Lemma src_feed : forall chunks st tx fl code eff0,
  exists tx' fl' code' e,
    py_feed (buf st, discarding st, rxseq st, tx, fl, code, eff0) chunks =
      Done (buf (fst (feed st chunks)), discarding (fst (feed st chunks)), rxseq (fst (feed st chunks)),
            tx', fl', code', eff0 ++ e)
    /\ flat_map eff_obs e = filter observable (snd (feed st chunks)).
Proof.
  induction chunks as [|c cs IH]; intros st tx fl code eff0.
  - exists tx, fl, code, []. cbn [py_feed feed fst snd filter flat_map]. rewrite app_nil_r. split; reflexivity.
  - cbn [py_feed feed].
    destruct (src_receive_loop st tx fl code eff0 c) as (tx1 & fl1 & code1 & e1 & -> & Ho1).
    destruct (data_received st c) as [st1 o1]. cbn [fst snd] in *.
    destruct (IH st1 tx1 fl1 code1 (eff0 ++ e1)) as (tx2 & fl2 & code2 & e2 & -> & Ho2).
    destruct (feed st1 cs) as [st2 o2]. cbn [fst snd] in *.
    exists tx2, fl2, code2, (e1 ++ e2). rewrite app_assoc. split; [reflexivity|].
    rewrite flat_map_app, filter_app, Ho1, Ho2. reflexivity.
Qed.

(* the emitted function against the specification-derived reference decoder, for every stream and every split into
   reads whose unterminated residue fits the buffer (the hypothesis of c02_refines_reference) *)
Lemma src_feed_reference : forall chunks tx fl code,
  residue_ok chunks ->
  exists tx' fl' code' e,
    py_feed ([], false, 0, tx, fl, code, []) chunks =
      Done (racc (ref_after (concat chunks)), rdisc (ref_after (concat chunks)), rrx (ref_after (concat chunks)),
            tx', fl', code', e)
    /\ flat_map eff_obs e = filter observable (snd (ref_run ref_init (concat chunks))).
Proof.
  intros chunks tx fl code Hres.
  destruct (src_feed chunks rx_init tx fl code []) as (tx' & fl' & code' & e & Hf & Ho).
  destruct (refines_reference chunks Hres) as [Hout (Hb & Hd & Hx)].
  exists tx', fl', code', e. cbn [rx_init buf discarding rxseq app] in Hf.
  rewrite Hf, Hb, Hd, Hx, <- Hout. split; [reflexivity|exact Ho].
Qed.
