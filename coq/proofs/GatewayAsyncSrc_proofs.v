(* The coroutines of Gateway -- reset, wait_for_startup_reset, send_data -- and AshProtocol.send_reset as emitted
   from their SOURCE TEXT (gen/GenGatewayAsyncFn.v, harness/pysrc.py: one function per segment between two awaits)
   against the hand-written gateway model (model/Gateway.v): the model's [GReq], [GStartup], [GTimer] transitions and
   its [settle] are those segments, run by the event loop as asyncio's contract says (stated in the generated file:
   a future that becomes done runs its add_done_callback callbacks first, then wakes the coroutines that await it; the
   expiry of the timeout cancels the awaited future and wakes the coroutine with the timeout's CancelledError).

   The model keeps, next to the control state the source functions work on, who is suspended: [r_waiting] (the caller
   that created the reset future and waits for it under the reset timeout, await #2 of reset), [r_joined] (callers
   that found a reset in progress and wait for the same future, await #1) and [s_waiting] (await #1 of
   wait_for_startup_reset).  The functions [*_of_src] below read this bookkeeping off the status a segment ends with
   and turn the way a coroutine ends into the model's outputs. *)
From Coq Require Import ZArith NArith List Bool.
Import ListNotations.
Require Import BV.gen.GenAsh BV.gen.GenProto BV.gen.GenAshFn BV.model.AshCodec BV.model.Gateway
               BV.gen.GenGatewayFn BV.gen.GenGatewayAsyncFn BV.proofs.AshSrc_proofs BV.proofs.Gateway_proofs.
Open Scope N_scope.

(* ---- the two state spaces ------------------------------------------------------------------------------------- *)
Definition aabs (st : gstate) : gwa_state :=
  (r_attr st, r_fut st, s_attr st, s_fut st, t_open st, e_running st, e_has_gw st, e_app_cb st, []).
(* control fields from the source state, the waiters as given *)
Definition conc (s : gwa_state) (rw : bool) (rj : N) (sw : bool) : gstate :=
  let '(ra, rf, sa, sf, op, run, gw, cb, _) := s in
  {| r_attr := ra; r_fut := rf; r_waiting := rw; r_joined := rj; s_attr := sa; s_fut := sf; s_waiting := sw;
     t_open := op; e_running := run; e_has_gw := gw; e_app_cb := cb |}.
Definition effs (s : gwa_state) : list gwa_eff := let '(_, _, _, _, _, _, _, _, eff) := s in eff.
Definition a_rattr (s : gwa_state) : bool := let '(ra, _, _, _, _, _, _, _, _) := s in ra.
Definition a_rfut (s : gwa_state) : fstate := let '(_, rf, _, _, _, _, _, _, _) := s in rf.
Definition a_sattr (s : gwa_state) : bool := let '(_, _, sa, _, _, _, _, _, _) := s in sa.
Definition a_sfut (s : gwa_state) : fstate := let '(_, _, _, sf, _, _, _, _, _) := s in sf.
Definition set_rfut (s : gwa_state) (f : fstate) : gwa_state :=
  let '(ra, _, sa, sf, op, run, gw, cb, eff) := s in (ra, f, sa, sf, op, run, gw, cb, eff).
Definition set_sfut (s : gwa_state) (f : fstate) : gwa_state :=
  let '(ra, rf, sa, _, op, run, gw, cb, eff) := s in (ra, rf, sa, f, op, run, gw, cb, eff).

(* outputs of the model for what the source does *)
Definition eff_out (e : gwa_eff) : list gout :=
  match e with PSendReset _ => [GWriteRst] | PAshSendData _ => [] end.
Definition reset_out (r : gwa_status) : list gout :=
  match r with
  | AReturn => [GResetDone ROk]
  | ARaise EXNcpFailure => [GResetDone RClosed]
  | ARaise EXTimeout => [GResetDone RTimeout]
  | ARaise EXCancelled => []                       (* the caller itself was cancelled: no result of its own *)
  | ARaise _ => [GResetDone RExn]
  | ASuspend _ _ _ => []
  end.
Definition startup_out (r : gwa_status) : list gout :=
  match r with AReturn => [GStartupDone true] | ARaise _ => [GStartupDone false] | ASuspend _ _ _ => [] end.
Definition ended (r : gwa_status) : Prop := match r with ASuspend _ _ _ => False | _ => True end.

Ltac brk_s s := destruct s as [[[[[[[[ra rf] sa] sf] op] run] gw] cb] eff].

(* ---- AshProtocol.send_reset / _write_frame ----------------------------------------------------------------------- *)
(* _write_frame on an open transport writes the model's [write_frame]; on a closed one it raises NcpFailure *)
Lemma src_write_frame : forall f prefix,
  py_AshProtocol_write_frame true (encode f) prefix [FLAG] = WfWritten (write_frame prefix f).
Proof.
  intros f prefix. unfold py_AshProtocol_write_frame, write_frame. cbn [negb]. rewrite src_stuff. reflexivity.
Qed.
Lemma src_write_frame_closed : forall b prefix suffix, py_AshProtocol_write_frame false b prefix suffix = WfNcpFailure.
Proof. reflexivity. Qed.

Lemma src_send_reset : py_AshProtocol_send_reset true = WfWritten (write_frame [CANCEL] Rst).
Proof.
  unfold py_AshProtocol_send_reset. rewrite <- (src_write_frame Rst [CANCEL]). rewrite (src_encode Rst). reflexivity.
Qed.
Lemma src_send_reset_bytes : py_AshProtocol_send_reset true = WfWritten [0x1A; 0xC0; 0x38; 0xBC; 0x7E].
Proof. vm_compute. reflexivity. Qed.
Lemma src_send_reset_closed : py_AshProtocol_send_reset false = WfNcpFailure.
Proof. reflexivity. Qed.

Lemma src_send_reset_both : py_AshProtocol_send_reset true = WfWritten (write_frame [CANCEL] Rst) /\
  py_AshProtocol_send_reset false = WfNcpFailure.
Proof. exact (conj src_send_reset src_send_reset_closed). Qed.

Lemma src_reset_timeout : py_RESET_TIMEOUT = RESET_TIMEOUT.
Proof. reflexivity. Qed.

(* the done-callback as emitted here and as emitted by the synchronous translator: the same assignment *)
Lemma src_cleanup_agree : forall ra rf sa sf op run gw cb,
  let '(ra1, rf1, sa1, sf1, op1, run1, gw1, cb1, _) := py_Gateway__reset_cleanup_a (ra, rf, sa, sf, op, run, gw, cb, []) in
  let '(ra2, rf2, sa2, sf2, op2, run2, gw2, cb2, _) := py_Gateway__reset_cleanup_k (ra, rf, sa, sf, op, run, gw, cb, []) in
  (ra1, rf1, sa1, sf1, op1, run1, gw1, cb1) = (ra2, rf2, sa2, sf2, op2, run2, gw2, cb2) /\ ra1 = false.
Proof. intros. cbn. split; reflexivity. Qed.

(* ================================================================================================================
   reset(): the segment from the call to the first suspension is the model's GReq
   ================================================================================================================ *)
Definition req_of_src (st : gstate) : gstate * list gout :=
  let '(s, r) := py_Gateway_reset_begin (aabs st) in
  let o := flat_map eff_out (effs s) in
  match r with
  | ASuspend _ FutReset (Some _) =>        (* suspended under the reset timeout, on the future it has just created: *)
      (conc s true 0 (s_waiting st), o)    (* nobody else waits for that one yet *)
  | ASuspend _ FutReset None =>            (* one more caller on the future of the request in progress *)
      (conc s (r_waiting st) (r_joined st + 1) (s_waiting st), o)
  | _ => (conc s (r_waiting st) (r_joined st) (s_waiting st), o ++ reset_out r)
  end.

(* a request in progress has a pending future in every state between two events ([quiet]): that is the hypothesis.
   (Joining a future that is already done does not suspend: see [src_req_join_done].) *)
Theorem src_gstep_req : forall st, (r_attr st = true -> r_fut st = FPend) ->
  gstep st GReq = req_of_src st.
Proof.
  intros st H. brk st. cbn [r_attr r_fut] in H.
  unfold req_of_src, py_Gateway_reset_begin, aabs. cbn [r_attr r_fut s_attr s_fut t_open e_running e_has_gw e_app_cb].
  destruct ra.
  - rewrite (H eq_refl). reflexivity.
  - destruct op.
    + rewrite src_send_reset_bytes. reflexivity.
    + rewrite src_send_reset_closed. reflexivity.
Qed.

Corollary src_gstep_req_quiet : forall st, quiet st -> gstep st GReq = req_of_src st.
Proof.
  intros st (_ & _ & _ & _ & Q5 & _). apply src_gstep_req. intros Ha. apply Q5. exact Ha.
Qed.

(* what the first segment does, on the source state alone *)
Theorem src_reset_begin_new : forall ra rf sa sf run gw cb eff, ra = false ->
  py_Gateway_reset_begin (ra, rf, sa, sf, true, run, gw, cb, eff)
  = ((true, FPend, sa, sf, true, run, gw, cb, eff ++ [PSendReset [0x1A; 0xC0; 0x38; 0xBC; 0x7E]]),
     ASuspend 2 FutReset (Some RESET_TIMEOUT)).
Proof.
  intros ra rf sa sf run gw cb eff ->. unfold py_Gateway_reset_begin. rewrite src_send_reset_bytes. reflexivity.
Qed.
(* the bytes are the model's CANCEL-prefixed RST frame *)
Lemma src_reset_bytes_model : write_frame [CANCEL] Rst = [0x1A; 0xC0; 0x38; 0xBC; 0x7E].
Proof. vm_compute. reflexivity. Qed.
Theorem src_reset_begin_closed : forall ra rf sa sf run gw cb eff, ra = false ->
  py_Gateway_reset_begin (ra, rf, sa, sf, false, run, gw, cb, eff)
  = ((false, rf, sa, sf, false, run, gw, cb, eff), ARaise EXNcpFailure).
Proof. intros ra rf sa sf run gw cb eff ->. reflexivity. Qed.
Theorem src_reset_begin_join : forall rf sa sf op run gw cb eff, rf = FPend ->
  py_Gateway_reset_begin (true, rf, sa, sf, op, run, gw, cb, eff)
  = ((true, rf, sa, sf, op, run, gw, cb, eff), ASuspend 1 FutReset None).
Proof. intros rf sa sf op run gw cb eff ->. reflexivity. Qed.
(* the attribute still points to a future that is done (its clean-up has not run yet): the call ends at once with
   the outcome of that future, nothing is written.  The model counts the caller as joined and reports the same
   outcome when it settles; the situation does not arise between two events. *)
Theorem src_req_join_done : forall rf sa sf op run gw cb eff, is_res rf = true ->
  exists r, py_Gateway_reset_begin (true, rf, sa, sf, op, run, gw, cb, eff) = ((true, rf, sa, sf, op, run, gw, cb, eff), r)
            /\ ended r /\ reset_out r = (match rf with FCancelled => [] | _ => [GResetDone (res_of rf)] end).
Proof.
  intros rf sa sf op run gw cb eff H. destruct rf; try discriminate H; eexists; (split; [reflexivity|split; [exact I|reflexivity]]).
Qed.

(* a reset request writes the RST unless one is already in progress; it writes nothing else *)
Theorem src_reset_writes_rst : forall s, let '(s', r) := py_Gateway_reset_begin s in
  effs s' = effs s ++
    (if a_rattr s then []                                   (* in progress: joins, writes nothing *)
     else let '(_, _, _, _, op, _, _, _, _) := s in
          if op then [PSendReset (write_frame [CANCEL] Rst)] else []).   (* closed: NcpFailure, no future created *)
Proof.
  intros s. brk_s s. unfold py_Gateway_reset_begin, a_rattr, effs. destruct ra.
  - destruct rf; cbn; rewrite app_nil_r; reflexivity.
  - destruct op.
    + rewrite src_send_reset. reflexivity.
    + rewrite src_send_reset_closed. cbn. rewrite app_nil_r. reflexivity.
Qed.

(* ================================================================================================================
   wait_for_startup_reset(): the first segment is the model's GStartup
   ================================================================================================================ *)
Definition startup_of_src (st : gstate) : gstate * list gout :=
  let '(s, r) := py_Gateway_wait_for_startup_reset_begin (aabs st) in
  match r with
  | ASuspend _ FutStartup _ => (conc s (r_waiting st) (r_joined st) true, flat_map eff_out (effs s))
  | _ => (conc s (r_waiting st) (r_joined st) (s_waiting st), flat_map eff_out (effs s) ++ startup_out r)
  end.

Theorem src_gstep_startup : forall st, gstep st GStartup = startup_of_src st.
Proof. intros st. brk st. destruct sa; reflexivity. Qed.

(* ================================================================================================================
   the ways out.  A suspended coroutine is woken because its future is done, by the expiry of its timeout, or by a
   cancellation of its task; in the last two cases asyncio has first cancelled the future if it was still pending.
   When the future is done its add_done_callback callbacks have run before the coroutine resumes.
   ================================================================================================================ *)
Definition wake_env (w : gwa_wake) (f : fstate) : fstate := match w with WkFuture => f | _ => fut_cancel f end.
Definition reset_leave (s : gwa_state) (w : gwa_wake) : gwa_state * gwa_status :=
  py_Gateway_reset_resume_2 (py_Gateway_reset_future_done (set_rfut s (wake_env w (a_rfut s)))) w.
Definition reset_join_leave (s : gwa_state) (w : gwa_wake) : gwa_state * gwa_status :=
  py_Gateway_reset_resume_1 (py_Gateway_reset_future_done (set_rfut s (wake_env w (a_rfut s)))) w.
Definition startup_leave (s : gwa_state) (w : gwa_wake) : gwa_state * gwa_status :=
  py_Gateway_wait_for_startup_reset_resume_1
    (py_Gateway_wait_for_startup_reset_future_done (set_sfut s (wake_env w (a_sfut s)))) w.

(* whichever way reset() is left -- result, exception set by connection_lost, timeout, cancellation -- the
   attribute is cleared and the call has ended *)
Theorem src_reset_exit_clears : forall s w, a_rfut s <> FNone -> (w = WkFuture -> is_res (a_rfut s) = true) ->
  a_rattr (fst (reset_leave s w)) = false /\ ended (snd (reset_leave s w)) /\
  a_rattr (fst (reset_join_leave s w)) = false /\ ended (snd (reset_join_leave s w)).
Proof.
  intros s w Hn Hw. brk_s s. cbn [a_rfut] in Hn, Hw.
  destruct w; [specialize (Hw eq_refl)|clear Hw|clear Hw]; destruct rf; try discriminate Hw;
    try (elim Hn; reflexivity); cbn; repeat split; exact I.
Qed.

(* the outcomes, one by one (await #2, the caller under the timeout) *)
Theorem src_reset_exits : forall ra sa sf op run gw cb eff,
  let s f := (ra, f, sa, sf, op, run, gw, cb, eff) in
  let s' f := (false, f, sa, sf, op, run, gw, cb, eff) in
  reset_leave (s FOk) WkFuture = (s' FOk, AReturn) /\                        (* RSTACK(software) resolved it *)
  reset_leave (s FExn) WkFuture = (s' FExn, ARaise EXFuture) /\              (* connection_lost set the error *)
  reset_leave (s FPend) WkTimeout = (s' FCancelled, ARaise EXTimeout) /\     (* the reset timeout *)
  reset_leave (s FPend) WkCancel = (s' FCancelled, ARaise EXCancelled) /\    (* the caller's task is cancelled *)
  (* the result arrived in the very iteration in which the timeout fired: still a timeout *)
  reset_leave (s FOk) WkTimeout = (s' FOk, ARaise EXTimeout).
Proof. intros. repeat split; reflexivity. Qed.

(* a timeout leaves nothing pending: the future is cancelled (so the callers that joined it are released too), the
   attribute cleared, the call ended with TimeoutError *)
Theorem src_timeout_nothing_pending : forall s, a_rfut s = FPend ->
  let '(s', r) := reset_leave s WkTimeout in
  r = ARaise EXTimeout /\ a_rattr s' = false /\ a_rfut s' = FCancelled /\
  snd (reset_join_leave s' WkFuture) = ARaise EXCancelled.
Proof. intros s H. brk_s s. cbn [a_rfut] in H. subst rf. cbn. repeat split; reflexivity. Qed.

(* wait_for_startup_reset(): the finally clause runs on every way out *)
Theorem src_startup_exit_clears : forall s w, a_sfut s <> FNone -> (w = WkFuture -> is_res (a_sfut s) = true) ->
  a_sattr (fst (startup_leave s w)) = false /\ ended (snd (startup_leave s w)).
Proof.
  intros s w Hn Hw. brk_s s. cbn [a_sfut] in Hn, Hw.
  destruct w; [specialize (Hw eq_refl)|clear Hw|clear Hw]; destruct sf; try discriminate Hw;
    try (elim Hn; reflexivity); cbn; repeat split; exact I.
Qed.
Theorem src_startup_exits : forall ra rf sa op run gw cb eff,
  let s f := (ra, rf, sa, f, op, run, gw, cb, eff) in
  let s' f := (ra, rf, false, f, op, run, gw, cb, eff) in
  startup_leave (s FOk) WkFuture = (s' FOk, AReturn) /\
  startup_leave (s FExn) WkFuture = (s' FExn, ARaise EXFuture) /\
  startup_leave (s FPend) WkCancel = (s' FCancelled, ARaise EXCancelled).
Proof. intros. repeat split; reflexivity. Qed.
(* a second caller fails its assert BEFORE the try: the first caller's attribute is not touched *)
Theorem src_startup_second_caller : forall rf sf op run ra gw cb eff,
  py_Gateway_wait_for_startup_reset_begin (ra, rf, true, sf, op, run, gw, cb, eff)
  = ((ra, rf, true, sf, op, run, gw, cb, eff), ARaise EXAssertion).
Proof. reflexivity. Qed.

(* ================================================================================================================
   the model's [settle] -- and with it the second half of GBatch and of GTimer -- is: callbacks of the finished reset
   future, then its waiters (the caller under the timeout first, then those that joined), then the start-up waiter
   ================================================================================================================ *)
Fixpoint resume_joiners (n : nat) (s : gwa_state) : gwa_state * list gout :=
  match n with
  | O => (s, [])
  | S n' => let '(s1, r) := py_Gateway_reset_resume_1 s WkFuture in
            let '(s2, o) := resume_joiners n' s1 in (s2, reset_out r ++ o)
  end.
(* in the model the reset future is cancelled only by the expiry of the reset timeout (GTimer) *)
Definition reset_wake (f : fstate) : gwa_wake := match f with FCancelled => WkTimeout | _ => WkFuture end.

Definition settle_reset_of_src (st : gstate) : gwa_state * list gout * bool * N :=
  if is_res (r_fut st) then
    let s1 := py_Gateway_reset_future_done (aabs st) in
    let '(s2, o2) := if r_waiting st
                     then (let '(s, r) := py_Gateway_reset_resume_2 s1 (reset_wake (r_fut st)) in (s, reset_out r))
                     else (s1, []) in
    let '(s3, o3) := resume_joiners (N.to_nat (r_joined st)) s2 in
    (set_rfut s3 FNone, o2 ++ o3, false, 0)          (* nobody holds the future any more *)
  else (aabs st, [], r_waiting st, r_joined st).

Definition settle_of_src (st : gstate) : gstate * list gout :=
  let '(s1, o1, rw, rj) := settle_reset_of_src st in
  if is_res (s_fut st) then
    let '(s2, r) := py_Gateway_wait_for_startup_reset_resume_1 (py_Gateway_wait_for_startup_reset_future_done s1) WkFuture in
    (conc (set_sfut s2 FNone) rw rj false, o1 ++ startup_out r)
  else (conc s1 rw rj (s_waiting st), o1).

Lemma resume_joiners_done : forall n ra rf sa sf op run gw cb eff, is_res rf = true ->
  resume_joiners n (ra, rf, sa, sf, op, run, gw, cb, eff)
  = ((ra, rf, sa, sf, op, run, gw, cb, eff),
     match rf with FCancelled => [] | _ => repeat (GResetDone (res_of rf)) n end).
Proof.
  induction n as [|n IH]; intros ra rf sa sf op run gw cb eff H.
  - destruct rf; reflexivity.
  - cbn [resume_joiners]. destruct rf; try discriminate H; cbn; rewrite IH by reflexivity; reflexivity.
Qed.

(* the start-up future exists only while its creator is suspended on it *)
Definition startup_held (st : gstate) : Prop := s_fut st <> FNone -> s_waiting st = true.

Theorem src_settle : forall st, startup_held st -> settle st = settle_of_src st.
Proof.
  intros st H. brk st. unfold startup_held in H. cbn [s_fut s_waiting] in H.
  unfold settle_of_src, settle_reset_of_src, aabs, py_Gateway_reset_future_done, py_Gateway__reset_cleanup_a.
  cbn [r_attr r_fut r_waiting r_joined s_attr s_fut s_waiting t_open e_running e_has_gw e_app_cb].
  assert (Hsw : sf <> FNone -> sw = true) by exact H. clear H.
  destruct ra, rf; cbn [is_res]; try (destruct rw; cbn; rewrite resume_joiners_done by reflexivity; cbn);
    destruct sf; try rewrite (Hsw ltac:(discriminate)); cbn; rewrite ?app_nil_r; reflexivity.
Qed.

Lemma quiet_startup_held : forall st, quiet st -> startup_held st.
Proof.
  intros st (_ & [Q2|Q2] & _ & Q4 & _) Hn; [elim Hn; exact Q2|apply Q4; exact Q2].
Qed.
Theorem startup_held_reachable : forall es, startup_held (gfinal es).
Proof. intros es. apply quiet_startup_held, quiet_reachable. Qed.
Lemma hu_startup_held : forall st u, startup_held st -> startup_held (fst (handle_up st u)).
Proof.
  intros st u H. spec st u. unfold startup_held in *. rewrite Hsf, Hsw. intros Hn. apply H.
  destruct (sp st) eqn:E; [|exact Hn]. apply sp_true in E. destruct E as [_ E]. rewrite E. discriminate.
Qed.
Lemma batch_startup_held : forall l st, startup_held st -> startup_held (fst (handle_ups st l)).
Proof.
  induction l as [|u l IH]; intros st H; [exact H|]. rewrite handle_ups_fst_cons. apply IH, hu_startup_held, H.
Qed.

(* GBatch: the upward calls (proofs/GatewaySrc_proofs.v: [handle_up] is the emitted synchronous handlers), then the
   loop settles *)
Theorem src_gstep_batch : forall st l, startup_held st ->
  gstep st (GBatch l) = (let '(st1, o1) := handle_ups st l in let '(st2, o2) := settle_of_src st1 in (st2, o1 ++ o2)).
Proof.
  intros st l H. cbn [gstep]. pose proof (batch_startup_held l st H) as H1.
  destruct (handle_ups st l) as [st1 o1]. cbn [fst] in H1. rewrite (src_settle st1 H1). reflexivity.
Qed.

(* GTimer: the expiry cancels the awaited future, then everything goes as for any finished future *)
Definition timer_of_src (st : gstate) : gstate * list gout :=
  if r_waiting st && is_pend (r_fut st)       (* the timeout is armed: a caller is suspended at await #2 *)
  then settle_of_src (upd_r st (r_attr st) (fut_cancel (r_fut st)) (r_waiting st) (r_joined st))
  else (st, []).

Theorem src_gstep_timer : forall st, startup_held st -> gstep st GTimer = timer_of_src st.
Proof.
  intros st H. unfold timer_of_src. cbn [gstep]. destruct (r_waiting st && is_pend (r_fut st)) eqn:E; [|reflexivity].
  apply andb_true_iff in E. destruct E as [Ew Ep]. destruct (r_fut st) eqn:Ef; try discriminate Ep.
  rewrite Ew. cbn [fut_cancel]. apply src_settle. exact H.
Qed.

(* the timed-out request in the model's terms: from a pending request the timer step is the source's timeout exit *)
Corollary src_timer_pending : forall st, startup_held st -> request_pending st ->
  In (GResetDone RTimeout) (snd (timer_of_src st)) /\ r_attr (fst (timer_of_src st)) = false /\
  r_waiting (fst (timer_of_src st)) = false /\ r_fut (fst (timer_of_src st)) = FNone.
Proof.
  intros st H (Hw & Hf & Ha). rewrite <- (src_gstep_timer st H). brk st. cbn in Hw, Hf, Ha. subst.
  destruct sf; cbn; repeat split; try reflexivity; left; reflexivity.
Qed.

(* ================================================================================================================
   send_data: pure delegation to the ASH layer -- one call with the same bytes, every outcome passed on unchanged
   (the NcpFailure of a failed link reaches the EZSP command that is being sent)
   ================================================================================================================ *)
Theorem src_send_data : forall ra rf sa sf op run gw cb eff data sent,
  py_Gateway_send_data (ra, rf, sa, sf, op, run, gw, cb, eff) data sent
  = ((ra, rf, sa, sf, op, run, gw, cb, eff ++ [PAshSendData data]),
     match sent with DReturn => AReturn | DRaise e => ARaise e end).
Proof. intros. destruct sent; reflexivity. Qed.
