(* ControllerApplication.send_packet as emitted from its SOURCE TEXT (gen/GenSendPacketFn.v: py_send_packet, the loop body
   py_send_attempt) against the request evolution of the hand-written model (model/SendPacket.v, [sstep]).
   Every execution of the emitted coroutine -- every choice of how its suspension points resume -- is a path of the
   model's request machine: the same commands in the same order, the request lock held exactly where the model holds
   it, the pending entry present exactly from its registration to the end, the same outcome. *)
From Coq Require Import String ZArith NArith List Bool Lia.
Import ListNotations.
Require Import BV.gen.GenApp BV.gen.GenStatus BV.model.Status BV.model.SendPacket BV.gen.GenSendPacketFn.
Open Scope N_scope.

(* ---- reading the inputs ---------------------------------------------------------------------------------------- *)
Definition kind_of_mode (m : N) : option pkind :=
  if m =? AddrMode_NWK then Some Unicast else if m =? AddrMode_Group then Some Multicast
  else if m =? AddrMode_Broadcast then Some Broadcast else None.

(* the set-up commands of one attempt, in order *)
Definition setup_names (p : sp_packet) : list string :=
  if p_addr_mode p =? AddrMode_NWK then
    (if p_extended_timeout p && p_device_known p then ["set_extended_timeout"%string] else []) ++
    (if p_has_source_route p then ["set_source_route"%string] else [])
  else [].
Definition setup_args (p : sp_packet) (name : string) : list (string * N) :=
  if String.eqb name "set_source_route" then [("nwk"%string, p_dst_address p)] else [].
Definition send_cmd (p : sp_packet) (tag : N) : sp_eff :=
  if p_addr_mode p =? AddrMode_NWK then
    ECmd "send_unicast" [("nwk"%string, p_dst_address p); ("message_tag"%string, tag)]
  else if p_addr_mode p =? AddrMode_Group then ECmd "send_multicast" [("message_tag"%string, tag)]
  else ECmd "send_broadcast" [("address"%string, p_dst_address p); ("message_tag"%string, tag)].

Lemma sp_sl_OK_value : sl_OK = 0.
Proof. vm_compute. reflexivity. Qed.

(* the enqueue status as the model's three answers *)
Definition classify (s : N) : enq :=
  if s =? sl_OK then EnqOk else if sp_mem_N s (map snd py_busy_statuses) then EnqBusy else EnqRefused.

(* ---- one attempt in normal form: the effects it appends and how it ends ------------------------------------------ *)
Fixpoint setup_effs (p : sp_packet) (names : list string) (oa : sp_attempt) : list sp_eff * bool :=
  match names with
  | [] => ([], true)
  | n :: ns => match o_cmd oa n with
               | AwThrow => ([ECmd n (setup_args p n)], false)
               | AwOk => let '(l, ok) := setup_effs p ns oa in (ECmd n (setup_args p n) :: l, ok)
               end
  end.
Inductive att_end := AThrown | ARefused | AAccepted (s : N) | ARetry (s : N).
Definition att_effs (p : sp_packet) (tag : N) (oa : sp_attempt) (d : N * N) : list sp_eff * att_end :=
  match o_lock oa with
  | AwThrow => ([], AThrown)
  | AwOk =>
      let '(l, ok) := setup_effs p (setup_names p) oa in
      if negb ok then (ELockAcquire :: l ++ [ELockRelease], AThrown)
      else match o_send oa with
           | SentThrow => (ELockAcquire :: l ++ [send_cmd p tag; ELockRelease], AThrown)
           | SentStatus s =>
               let pre := ELockAcquire :: l ++ [send_cmd p tag; ELockRelease] in
               match classify s with
               | EnqOk => (pre, AAccepted s)
               | EnqRefused => (pre, ARefused)
               | EnqBusy => match o_sleep oa with
                            | AwThrow => (pre ++ [ESleep d], AThrown)
                            | AwOk => (pre ++ [ESleep d], ARetry s)
                            end
               end
           end
  end.
Definition att_flow (eff : list sp_eff) (x : list sp_eff * att_end) : sp_flow :=
  match snd x with
  | AThrown => FExit (SpRaise XThrown) (eff ++ fst x)
  | ARefused => FExit (SpRaise XDeliveryError) (eff ++ fst x)
  | AAccepted s => FBreak (Some s) (eff ++ fst x)
  | ARetry s => FNext (Some s) (eff ++ fst x)
  end.

Lemma attempt_norm : forall p knd tag key o k d status eff,
  kind_of_mode (p_addr_mode p) = Some knd -> k <? nretries = true ->
  py_send_attempt p tag key o (k, d) status eff = att_flow eff (att_effs p tag (o k) d).
Proof.
  intros [m dst ext dev route] knd tag key o k d status eff Hk Hlt.
  unfold nretries in Hlt.
  unfold py_send_attempt, att_effs, att_flow, setup_names, send_cmd, classify, kind_of_mode in *.
  rewrite sp_sl_OK_value. cbn [p_addr_mode p_dst_address p_extended_timeout p_device_known p_has_source_route] in *.
  unfold AddrMode_NWK, AddrMode_Group, AddrMode_Broadcast in *.
  rewrite Hlt.
  destruct (o_lock (o k)); [|cbn; rewrite app_nil_r; reflexivity].
  destruct (m =? 2); [|destruct (m =? 1); [|destruct (m =? 15); [|discriminate Hk]]].
  all: destruct ext, dev, route; cbn [andb app setup_effs setup_args String.eqb Ascii.eqb Bool.eqb negb fst snd].
  all: repeat match goal with
         | |- context [o_cmd ?x ?n] => destruct (o_cmd x n)
         end; cbn [andb app setup_effs setup_args String.eqb Ascii.eqb Bool.eqb negb fst snd].
  all: try (destruct (o_send (o k)) as [s|]; [destruct (s =? 0); [|destruct (sp_mem_N s (map snd py_busy_statuses)); [destruct (o_sleep (o k))|]]|]).
  all: cbn [andb app negb fst snd]; repeat rewrite <- app_assoc; reflexivity.
Qed.

(* ---- the retry loop in normal form ------------------------------------------------------------------------------- *)
Inductive loop_end := LThrown | LRefused | LExhausted | LAccepted.
Fixpoint loop_effs (p : sp_packet) (tag : N) (o : N -> sp_attempt) (k : N) (l : list (N * N)) : list sp_eff * loop_end :=
  match l with
  | [] => ([], LExhausted)
  | d :: l' =>
      match snd (att_effs p tag (o k) d) with
      | AThrown => (fst (att_effs p tag (o k) d), LThrown)
      | ARefused => (fst (att_effs p tag (o k) d), LRefused)
      | AAccepted _ => (fst (att_effs p tag (o k) d), LAccepted)
      | ARetry _ => (fst (att_effs p tag (o k) d) ++ fst (loop_effs p tag o (k + 1) l'), snd (loop_effs p tag o (k + 1) l'))
      end
  end.
Definition loop_matches (L : sp_loop) (eff : list sp_eff) (x : list sp_eff * loop_end) : Prop :=
  match snd x, L with
  | LThrown, LExit (SpRaise XThrown) e => e = eff ++ fst x
  | LRefused, LExit (SpRaise XDeliveryError) e => e = eff ++ fst x
  | LExhausted, LElse _ e => e = eff ++ fst x
  | LAccepted, LBroke _ e => e = eff ++ fst x
  | _, _ => False
  end.

Lemma loop_norm : forall p knd tag key o, kind_of_mode (p_addr_mode p) = Some knd ->
  forall l k status eff, k + N.of_nat (List.length l) = nretries ->
  loop_matches (py_for_else (py_send_attempt p tag key o) (py_enumerate_from k l) status eff) eff (loop_effs p tag o k l).
Proof.
  intros p knd tag key o Hk. induction l as [|d l IH]; intros k status eff Hn.
  - cbn. rewrite app_nil_r. reflexivity.
  - cbn [py_enumerate_from py_for_else loop_effs].
    rewrite (attempt_norm p knd tag key o k d status eff Hk) by (apply N.ltb_lt; cbn [List.length] in Hn; lia).
    unfold att_flow. destruct (snd (att_effs p tag (o k) d)) eqn:E; cbn [snd fst loop_matches]; try reflexivity.
    unfold loop_matches.
    specialize (IH (k + 1) (Some s) (eff ++ fst (att_effs p tag (o k) d))).
    assert (Hn' : k + 1 + N.of_nat (List.length l) = nretries) by (cbn [List.length] in Hn; lia).
    specialize (IH Hn'). unfold loop_matches in IH.
    cbn [snd fst].
    destruct (snd (loop_effs p tag o (k + 1) l)), (py_for_else _ _ _ _) as [s' e|s' e|r e]; try contradiction;
      try (destruct r as [|[]]; try contradiction); rewrite IH; rewrite app_assoc; reflexivity.
Qed.

(* ---- the whole coroutine in normal form -------------------------------------------------------------------------- *)
Definition conf_res (fam : family) (oc : sp_conf) : sp_res :=
  match oc with
  | ConfThrow => SpRaise XThrown
  | ConfTimeout => SpRaise XTimeoutError
  | ConfResult s => if normalise fam s =? sl_OK then SpReturn else SpRaise XDeliveryError
  end.
Definition finish (fam : family) (p : sp_packet) (tag : N) (oc : sp_conf) (e : loop_end) : list sp_eff * sp_res :=
  let key := (p_dst_address p, tag) in
  let post := [EPendingRemove key; ELimiterRelease] in
  match e with
  | LThrown => (post, SpRaise XThrown)
  | LRefused | LExhausted => (post, SpRaise XDeliveryError)
  | LAccepted =>
      if p_addr_mode p =? AddrMode_NWK then (EAwaitConfirm key APS_ACK_TIMEOUT :: post, conf_res fam oc)
      else (post, SpReturn)
  end.
Definition send_packet_norm (fam : family) (p : sp_packet) (tag : N) (has : N * N -> bool) (o : N -> sp_attempt) (oc : sp_conf)
  : list sp_eff * sp_res :=
  let key := (p_dst_address p, tag) in
  if has key then ([ELimiterAcquire; EGetSequence; ELimiterRelease], SpRaise XDuplicate)
  else
    let L := loop_effs p tag o 0 RETRY_DELAYS in
    (ELimiterAcquire :: EGetSequence :: EPendingNew key :: fst L ++ fst (finish fam p tag oc (snd L)),
     snd (finish fam p tag oc (snd L))).

Lemma send_packet_norm_eq : forall fam p knd tag has otop o oc, kind_of_mode (p_addr_mode p) = Some knd ->
  py_send_packet fam p tag has AwOk otop o oc = send_packet_norm fam p tag has o oc.
Proof.
  intros fam p knd tag has otop o oc Hk. unfold py_send_packet, send_packet_norm, finish.
  cbv zeta. destruct (has (p_dst_address p, tag)); [reflexivity|].
  pose proof (loop_norm p knd tag (p_dst_address p, tag) o Hk RETRY_DELAYS 0 None
                ((([] ++ [ELimiterAcquire]) ++ [EGetSequence]) ++ [EPendingNew (p_dst_address p, tag)])) as L.
  unfold py_enumerate. unfold loop_matches in L.
  specialize (L eq_refl).
  destruct (snd (loop_effs p tag o 0 RETRY_DELAYS)), (py_for_else _ _ _ _) as [s' e|s' e|r e]; try contradiction;
    try (destruct r as [|[]]; try contradiction); subst e; cbn [app fst snd].
  all: try (repeat rewrite <- app_assoc; reflexivity).
  unfold AddrMode_NWK, py_from_ember_status, conf_res. rewrite sp_sl_OK_value.
  destruct (p_addr_mode p =? 2); cbn [negb fst snd].
  - destruct oc as [s| |]; [destruct (normalise fam s =? 0)|..]; cbn [negb]; repeat rewrite <- app_assoc; reflexivity.
  - repeat rewrite <- app_assoc; reflexivity.
Qed.

(* the limiter not granted (the caller is cancelled while queued): nothing has happened *)
Lemma limiter_thrown : forall fam p tag has otop o oc,
  py_send_packet fam p tag has AwThrow otop o oc = ([], SpRaise XThrown).
Proof. reflexivity. Qed.


(* ---- the joint trace: what each side shows at every suspension point ---------------------------------------------- *)
(* what a request in progress is waiting for *)
Inductive sp_wait := WLock | WSetup | WSend | WSleep (d : N * N) | WConfirm (timeout : N).
(* None: there is no bookkeeping for the request; otherwise the key of its pending entry, what it waits for, whether it
   holds the request lock *)
Definition mview := option ((N * N) * sp_wait * bool).
(* one step: the commands issued / the completion reported, and the view afterwards *)
Definition entry := (list sout * mview)%type.

(* -- the model side: [sstep] on a list of events, the outputs of each step and the request as the state then has it.
      The model keeps no clock: the delay slept after the a-th busy answer and the confirmation timeout are the generated
      constants *)
Definition delay_of (a : N) : N * N := nth (N.to_nat (a - 1)) RETRY_DELAYS (0, 1).
Definition wait_of (r : req) : sp_wait :=
  match q_stage r with
  | RLock => WLock | RSetup _ => WSetup | RSend => WSend
  | RBackoff => WSleep (delay_of (q_attempt r)) | RConfirm => WConfirm APS_ACK_TIMEOUT
  end.
Definition view_of (st : sstate) (id : N) : mview :=
  match rget id (s_reqs st) with
  | None => None
  | Some r => Some ((q_dst r, q_tag r), wait_of r, holds st id)
  end.
Fixpoint mtrace (id : N) (st : sstate) (es : list sevent) : list entry * sstate :=
  match es with
  | [] => ([], st)
  | e :: es' => let st1 := fst (sstep st e) in
                (((snd (sstep st e), view_of st1 id)) :: fst (mtrace id st1 es'), snd (mtrace id st1 es'))
  end.

(* -- the script side: a scan of the effect list.  The lock is held between ELockAcquire and ELockRelease, the entry
      exists between EPendingNew and EPendingRemove; every suspension point (a command awaited, the sleep, the wait for
      the confirmation) gives one step *)
Fixpoint arg (k : string) (l : list (string * N)) : option N :=
  match l with [] => None | (k', v) :: l' => if String.eqb k' k then Some v else arg k l' end.
(* a command of the script as the model's output; XUnexpected (which no request step of the model emits) marks a send
   command whose destination / tag argument cannot be read *)
Definition cmd_out (id dst : N) (n : string) (a : list (string * N)) : sout :=
  if String.eqb n "send_unicast" then
    match arg "nwk" a, arg "message_tag" a with Some d, Some t => XSendCmd id Unicast d t | _, _ => XUnexpected end
  else if String.eqb n "send_multicast" then     (* the group is carried by the APS frame, built before the limiter *)
    match arg "message_tag" a with Some t => XSendCmd id Multicast dst t | None => XUnexpected end
  else if String.eqb n "send_broadcast" then
    match arg "address" a, arg "message_tag" a with Some d, Some t => XSendCmd id Broadcast d t | _, _ => XUnexpected end
  else XSetup id.
Definition is_send (n : string) : bool :=
  String.eqb n "send_unicast" || String.eqb n "send_multicast" || String.eqb n "send_broadcast".
Definition sview (locked : bool) (present : option (N * N)) (w : sp_wait) : mview :=
  match present with Some k => Some (k, w, locked) | None => None end.
Fixpoint scan (id dst : N) (locked : bool) (present : option (N * N)) (eff : list sp_eff) : list entry :=
  match eff with
  | [] => []
  | e :: eff' =>
      match e with
      | ELockAcquire => scan id dst true present eff'
      | ELockRelease => scan id dst false present eff'
      | EPendingNew k => scan id dst locked (Some k) eff'
      | EPendingRemove _ => scan id dst locked None eff'
      | ECmd n a => ([cmd_out id dst n a], sview locked present (if is_send n then WSend else WSetup)) :: scan id dst locked present eff'
      | ESleep d => ([], sview locked present (WSleep d)) :: scan id dst locked present eff'
      | EAwaitConfirm k t =>
          ([], match present with Some _ => Some (k, WConfirm t, locked) | None => None end) :: scan id dst locked present eff'
      | ELimiterAcquire | ELimiterRelease | EGetSequence => scan id dst locked present eff'
      end
  end.
(* an exception thrown in at an await is the model's cancellation; XUnboundLocal never ends an execution (below) *)
Definition res_of (r : sp_res) : sres :=
  match r with
  | SpReturn => ResOk
  | SpRaise XDeliveryError => ResDeliveryError
  | SpRaise XTimeoutError => ResTimeout
  | SpRaise XDuplicate => ResDuplicateTag
  | SpRaise XThrown | SpRaise XUnboundLocal => ResCancelled
  end.
Definition script_trace (id dst : N) (run : list sp_eff * sp_res) : list entry :=
  scan id dst false None (fst run) ++ [([XDone id (res_of (snd run))], None)].

(* ---- the path, written once: for every suspension point the model event its outcome stands for and the step both sides
   must show.  A command answered is SReply (set-up commands with EnqOk, the send command with the status read as the
   model's three answers), something thrown in at an await is SCancel, the end of the sleep is STimer, the confirmation
   is SConfirm for the key of the entry with `the status normalises to OK`, its absence STimer. *)
Notation pstep := (sevent * entry)%type.
Section Spec.
Variables (id : N) (knd : pkind) (dst tag : N) (fam : family) (p : sp_packet) (o : N -> sp_attempt) (oc : sp_conf).

Definition Vw (w : sp_wait) (h : bool) : mview := Some ((dst, tag), w, h).
Definition fin (r : sres) : entry := ([XDone id r], None).

Fixpoint spec_cmds (ev : sevent) (names : list string) (oa : sp_attempt) : list pstep * option sevent :=
  match names with
  | [] => ([], Some ev)
  | n :: ns =>
      match o_cmd oa n with
      | AwThrow => ([(ev, ([XSetup id], Vw WSetup true)); (SCancel id, fin ResCancelled)], None)
      | AwOk => ((ev, ([XSetup id], Vw WSetup true)) :: fst (spec_cmds (SReply id EnqOk) ns oa), snd (spec_cmds (SReply id EnqOk) ns oa))
      end
  end.
Inductive spec_end := PEnd | PRetry | PAccepted.
Definition spec_attempt (ev : sevent) (oa : sp_attempt) (d : N * N) : list pstep * spec_end :=
  let l := fst (spec_cmds ev (setup_names p) oa) in
  match snd (spec_cmds ev (setup_names p) oa) with
  | None => (l, PEnd)
  | Some ev1 =>
      let es := (ev1, ([XSendCmd id knd dst tag], Vw WSend true)) in
      match o_send oa with
      | SentThrow => (l ++ [es; (SCancel id, fin ResCancelled)], PEnd)
      | SentStatus s =>
          match classify s with
          | EnqOk => (l ++ [es], PAccepted)
          | EnqRefused => (l ++ [es; (SReply id EnqRefused, fin ResDeliveryError)], PEnd)
          | EnqBusy =>
              let sl := (SReply id EnqBusy, (@nil sout, Vw (WSleep d) false)) in
              match o_sleep oa with
              | AwThrow => (l ++ [es; sl; (SCancel id, fin ResCancelled)], PEnd)
              | AwOk => (l ++ [es; sl], PRetry)
              end
          end
      end
  end.
Definition conf_event : sevent :=
  match oc with
  | ConfResult s => SConfirm dst tag (normalise fam s =? sl_OK)
  | ConfTimeout => STimer id
  | ConfThrow => SCancel id
  end.
Definition spec_tail : list pstep :=
  match knd with
  | Unicast => [(SReply id EnqOk, (@nil sout, Vw (WConfirm APS_ACK_TIMEOUT) false)); (conf_event, fin (res_of (conf_res fam oc)))]
  | _ => [(SReply id EnqOk, fin ResOk)]
  end.
Fixpoint spec_loop (ev : sevent) (k : N) (l : list (N * N)) : list pstep :=
  match l with
  | [] => [(ev, fin ResDeliveryError)]
  | d :: l' =>
      match snd (spec_attempt ev (o k) d) with
      | PEnd => fst (spec_attempt ev (o k) d)
      | PRetry => fst (spec_attempt ev (o k) d) ++ spec_loop (STimer id) (k + 1) l'
      | PAccepted => fst (spec_attempt ev (o k) d) ++ spec_tail
      end
  end.
End Spec.

Lemma spec_tail_unicast : forall id knd dst tag fam oc, knd = Unicast ->
  spec_tail id knd dst tag fam oc =
    [(SReply id EnqOk, (@nil sout, Vw dst tag (WConfirm APS_ACK_TIMEOUT) false)); (conf_event id dst tag fam oc, fin id (res_of (conf_res fam oc)))].
Proof. intros. subst. reflexivity. Qed.
Lemma spec_tail_other : forall id knd dst tag fam oc, knd <> Unicast ->
  spec_tail id knd dst tag fam oc = [(SReply id EnqOk, fin id ResOk)].
Proof. intros id knd dst tag fam oc H. destruct knd; [contradiction|reflexivity|reflexivity]. Qed.
Lemma kind_dec : forall knd : pkind, knd = Unicast \/ knd <> Unicast.
Proof. destruct knd; [left; reflexivity|right; discriminate|right; discriminate]. Qed.

(* ---- the script side ---------------------------------------------------------------------------------------------- *)
Lemma script_loop : forall id knd fam p o oc, kind_of_mode (p_addr_mode p) = Some knd -> (forall a, o_lock (o a) = AwOk) ->
  forall tag l k ev,
  let dst := p_dst_address p in
  let L := loop_effs p tag o k l in
  scan id dst false (Some (dst, tag)) (fst L ++ fst (finish fam p tag oc (snd L)))
    ++ [([XDone id (res_of (snd (finish fam p tag oc (snd L))))], None)]
  = map snd (spec_loop id knd dst tag fam p o oc ev k l).
Proof.
  intros id knd fam p o oc Hk Hg tag. cbv zeta.
  induction l as [|d l IH]; intros k ev.
  - reflexivity.
  - cbn [loop_effs spec_loop].
    specialize (IH (k + 1) (STimer id)).
    unfold att_effs, spec_attempt, setup_names, send_cmd. rewrite (Hg k).
    revert IH. generalize (loop_effs p tag o (k + 1) l). intros L IH.
    unfold kind_of_mode in Hk.
    destruct (p_addr_mode p =? AddrMode_NWK) eqn:E1; [|destruct (p_addr_mode p =? AddrMode_Group) eqn:E2;
       [|destruct (p_addr_mode p =? AddrMode_Broadcast) eqn:E3; [|discriminate Hk]]]; injection Hk as <-.
    all: destruct (p_extended_timeout p), (p_device_known p), (p_has_source_route p);
      cbn [andb app setup_effs spec_cmds setup_args String.eqb Ascii.eqb Bool.eqb negb fst snd].
    all: repeat match goal with
           | |- context [o_cmd ?x ?n] => destruct (o_cmd x n)
           end; cbn [andb app setup_effs spec_cmds setup_args String.eqb Ascii.eqb Bool.eqb negb fst snd].
    all: try (destruct (o_send (o k)) as [s|]; [destruct (classify s); [| destruct (o_sleep (o k)) |]|]).
    all: cbn [andb app negb fst snd finish spec_tail map]; rewrite ?E1; cbn [andb app negb fst snd finish spec_tail map].
    all: try rewrite map_app; try rewrite <- IH; try rewrite <- app_assoc.
    all: try reflexivity.
Qed.

(* ---- the model side ----------------------------------------------------------------------------------------------- *)
Lemma rget_snoc : forall id l r, rget id l = None -> q_id r = id -> rget id (l ++ [r]) = Some r.
Proof.
  intros id l r H E. induction l as [|x l IH]; cbn in *.
  - rewrite E, N.eqb_refl. reflexivity.
  - destruct (q_id x =? id); [discriminate|auto].
Qed.
Lemma rset_snoc : forall id l r r', rget id l = None -> q_id r = id -> q_id r' = id -> rset r' (l ++ [r]) = l ++ [r'].
Proof.
  intros id l r r' H E E'. induction l as [|x l IH]; cbn in *.
  - rewrite E, E', N.eqb_refl. reflexivity.
  - rewrite E'. destruct (q_id x =? id); [discriminate|]. rewrite IH by assumption. reflexivity.
Qed.
Lemma rdel_snoc : forall id l r, rget id l = None -> q_id r = id -> rdel id (l ++ [r]) = l.
Proof.
  intros id l r H E. induction l as [|x l IH]; cbn in *.
  - rewrite E, N.eqb_refl. reflexivity.
  - destruct (q_id x =? id); [discriminate|]. rewrite IH by assumption. reflexivity.
Qed.
Lemma rfind_snoc : forall d t l r, rfind_tag d t l = None -> q_dst r = d -> q_tag r = t -> rfind_tag d t (l ++ [r]) = Some r.
Proof.
  intros d t l r H E1 E2. induction l as [|x l IH]; cbn in *.
  - rewrite E1, E2, !N.eqb_refl. reflexivity.
  - destruct ((q_dst x =? d) && (q_tag x =? t)); [discriminate|auto].
Qed.

Section Model.
Variables (id : N) (knd : pkind) (dst tag nset : N) (others : list req).
Hypothesis Hfresh : rget id others = None.
Hypothesis Hkey : rfind_tag dst tag others = None.

Definition mkr (a : N) (s : rstage) : req :=
  {| q_id := id; q_kind := knd; q_dst := dst; q_tag := tag; q_setup := nset; q_attempt := a; q_stage := s; q_confirmed := None |}.
(* the request in progress next to the others, no one else at the lock *)
Definition St (a : N) (s : rstage) (h : bool) : sstate :=
  {| s_seq := tag; s_reqs := others ++ [mkr a s]; s_lock := if h then Some id else None; s_lockq := [] |}.
Definition Fin : sstate := {| s_seq := tag; s_reqs := others; s_lock := None; s_lockq := [] |}.

Lemma get_St : forall a s, rget id (others ++ [mkr a s]) = Some (mkr a s).
Proof. intros. apply rget_snoc; [exact Hfresh|reflexivity]. Qed.
Lemma set_St : forall a s a' s', rset (mkr a' s') (others ++ [mkr a s]) = others ++ [mkr a' s'].
Proof. intros. apply (rset_snoc id); [exact Hfresh|reflexivity|reflexivity]. Qed.
Lemma del_St : forall a s, rdel id (others ++ [mkr a s]) = others.
Proof. intros. apply rdel_snoc; [exact Hfresh|reflexivity]. Qed.
Lemma find_St : forall a s, rfind_tag dst tag (others ++ [mkr a s]) = Some (mkr a s).
Proof. intros. apply rfind_snoc; [exact Hkey|reflexivity|reflexivity]. Qed.

Lemma view_St : forall a s h, view_of (St a s h) id = Some ((dst, tag), wait_of (mkr a s), h).
Proof.
  intros. unfold view_of, St. cbn [s_reqs]. rewrite get_St. unfold holds. cbn [s_lock q_dst q_tag mkr].
  destruct h; [rewrite N.eqb_refl|]; reflexivity.
Qed.
Lemma view_Fin : view_of Fin id = None.
Proof. unfold view_of, Fin. cbn [s_reqs]. rewrite Hfresh. reflexivity. Qed.

Lemma end_St : forall a s h res, end_req (St a s h) (mkr a s) res = (Fin, [XDone id res]).
Proof.
  intros. unfold end_req, St, holds. cbn [s_lock s_reqs s_lockq s_seq q_id mkr filter].
  rewrite del_St. destruct h; [rewrite N.eqb_refl|]; reflexivity.
Qed.
Lemma unlock_St : forall a s h, unlock (St a s h) = (St a s false, []).
Proof. intros. reflexivity. Qed.

Definition first_stage : rstage := if 0 <? nset then RSetup nset else RSend.
Definition first_out : sout := if 0 <? nset then XSetup id else XSendCmd id knd dst tag.
Lemma want_St : forall a s, want_lock (St a s false) (mkr a s) = (St a first_stage true, [first_out]).
Proof.
  intros. unfold want_lock, St, begin_attempt, first_stage, first_out. cbn [s_lock s_reqs s_seq s_lockq q_setup q_id mkr].
  destruct (0 <? nset); cbn [with_stage q_id q_kind q_dst q_tag q_setup q_attempt q_confirmed mkr fst snd];
    unfold with_stage; cbn [q_id q_kind q_dst q_tag q_setup q_attempt q_confirmed mkr];
    rewrite (rset_snoc id others _ _ Hfresh) by reflexivity; reflexivity.
Qed.

Lemma step_cancel : forall a s h, sstep (St a s h) (SCancel id) = (Fin, [XDone id ResCancelled]).
Proof. intros. cbn [sstep]. unfold St at 1. cbn [s_reqs]. rewrite get_St. apply end_St. Qed.

Lemma step_setup_more : forall a n, 1 <? n = true ->
  sstep (St a (RSetup n) true) (SReply id EnqOk) = (St a (RSetup (n - 1)) true, [XSetup id]).
Proof.
  intros a n H. cbn [sstep]. unfold St at 1. cbn [s_reqs]. rewrite get_St. cbn [q_stage mkr]. rewrite H.
  unfold set_reqs, St, with_stage. cbn [s_reqs s_seq s_lock s_lockq q_id q_kind q_dst q_tag q_setup q_attempt q_confirmed mkr].
  rewrite (rset_snoc id others _ _ Hfresh) by reflexivity. reflexivity.
Qed.
Lemma step_setup_last : forall a n, 1 <? n = false ->
  sstep (St a (RSetup n) true) (SReply id EnqOk) = (St a RSend true, [XSendCmd id knd dst tag]).
Proof.
  intros a n H. cbn [sstep]. unfold St at 1. cbn [s_reqs]. rewrite get_St. cbn [q_stage mkr]. rewrite H.
  unfold set_reqs, St, with_stage. cbn [s_reqs s_seq s_lock s_lockq q_id q_kind q_dst q_tag q_setup q_attempt q_confirmed mkr].
  rewrite (rset_snoc id others _ _ Hfresh) by reflexivity. reflexivity.
Qed.
Lemma step_accept_unicast : forall a, knd = Unicast ->
  sstep (St a RSend true) (SReply id EnqOk) = (St a RConfirm false, []).
Proof.
  intros a Hu. cbn [sstep]. unfold St at 1. cbn [s_reqs]. rewrite get_St. cbn [q_stage q_kind q_confirmed mkr]. rewrite Hu.
  unfold set_reqs, with_stage. cbn [s_reqs s_seq s_lock s_lockq q_id q_kind q_dst q_tag q_setup q_attempt q_confirmed mkr St].
  rewrite (rset_snoc id others _ _ Hfresh) by reflexivity. unfold St, mkr. rewrite Hu. reflexivity.
Qed.
Lemma step_accept_other : forall a, knd <> Unicast ->
  sstep (St a RSend true) (SReply id EnqOk) = (Fin, [XDone id ResOk]).
Proof.
  intros a Hu. cbn [sstep]. unfold St at 1. cbn [s_reqs]. rewrite get_St. cbn [q_stage q_kind q_confirmed mkr].
  destruct knd; [contradiction|apply end_St|apply end_St].
Qed.
Lemma step_refused : forall a, sstep (St a RSend true) (SReply id EnqRefused) = (Fin, [XDone id ResDeliveryError]).
Proof. intros a. cbn [sstep]. unfold St at 1. cbn [s_reqs]. rewrite get_St. cbn [q_stage mkr]. apply end_St. Qed.
Lemma step_busy : forall a, sstep (St a RSend true) (SReply id EnqBusy) = (St (a + 1) RBackoff false, []).
Proof.
  intros a. cbn [sstep]. unfold St at 1. cbn [s_reqs]. rewrite get_St. cbn [q_stage mkr].
  unfold set_reqs. cbn [s_reqs s_seq s_lock s_lockq q_id q_kind q_dst q_tag q_setup q_attempt q_confirmed mkr St].
  change {| q_id := id; q_kind := knd; q_dst := dst; q_tag := tag; q_setup := nset; q_attempt := a + 1; q_stage := RBackoff;
            q_confirmed := None |} with (mkr (a + 1) RBackoff).
  rewrite (rset_snoc id others _ _ Hfresh) by reflexivity. reflexivity.
Qed.
Lemma step_timer_retry : forall a, a <? nretries = true ->
  sstep (St a RBackoff false) (STimer id) = want_lock (St a RBackoff false) (mkr a RBackoff).
Proof. intros a H. cbn [sstep]. unfold St at 1. cbn [s_reqs]. rewrite get_St. cbn [q_stage q_attempt mkr]. rewrite H. reflexivity. Qed.
Lemma step_timer_giveup : forall a, a <? nretries = false ->
  sstep (St a RBackoff false) (STimer id) = (Fin, [XDone id ResDeliveryError]).
Proof. intros a H. cbn [sstep]. unfold St at 1. cbn [s_reqs]. rewrite get_St. cbn [q_stage q_attempt mkr]. rewrite H. apply end_St. Qed.
Lemma step_confirm : forall a ok,
  sstep (St a RConfirm false) (SConfirm dst tag ok) = (Fin, [XDone id (if ok then ResOk else ResDeliveryError)]).
Proof.
  intros a ok. cbn [sstep]. unfold St at 1. cbn [s_reqs]. rewrite find_St. cbn [q_confirmed q_stage mkr].
  unfold set_reqs. cbn [s_reqs s_seq s_lock s_lockq q_id q_kind q_dst q_tag q_setup q_attempt q_stage q_confirmed mkr St].
  rewrite (rset_snoc id) by (try exact Hfresh; reflexivity).
  unfold end_req, holds. cbn [s_lock s_reqs s_lockq s_seq q_id filter].
  rewrite rdel_snoc by (try exact Hfresh; reflexivity). reflexivity.
Qed.
Lemma step_confirm_timeout : forall a, sstep (St a RConfirm false) (STimer id) = (Fin, [XDone id ResTimeout]).
Proof. intros a. cbn [sstep]. unfold St at 1. cbn [s_reqs]. rewrite get_St. cbn [q_stage mkr]. apply end_St. Qed.

Lemma mtrace_app : forall a st b,
  mtrace id st (a ++ b) = (fst (mtrace id st a) ++ fst (mtrace id (snd (mtrace id st a)) b), snd (mtrace id (snd (mtrace id st a)) b)).
Proof.
  induction a as [|e a IH]; intros st b; cbn [app mtrace fst snd].
  - destruct (mtrace id st b); reflexivity.
  - rewrite IH. reflexivity.
Qed.

Variables (fam : family) (p : sp_packet) (o : N -> sp_attempt) (oc : sp_conf).
Notation send_out := (XSendCmd id knd dst tag).

(* the event that issues the next command, when [m] set-up commands are still to come *)
Definition issues (st : sstate) (ev : sevent) (a m : N) : Prop :=
  sstep st ev = if 0 <? m then (St a (RSetup m) true, [XSetup id]) else (St a RSend true, [send_out]).

Lemma model_cmds : forall oa names ev st a, issues st ev a (N.of_nat (List.length names)) ->
  let C := spec_cmds id dst tag ev names oa in
  match snd C with
  | None => mtrace id st (map fst (fst C)) = (map snd (fst C), Fin)
  | Some ev1 => fst (mtrace id st (map fst (fst C))) = map snd (fst C) /\
                sstep (snd (mtrace id st (map fst (fst C)))) ev1 = (St a RSend true, [send_out])
  end.
Proof.
  intros oa. induction names as [|n ns IH]; intros ev st a H; cbv zeta.
  - cbn. split; [reflexivity|exact H].
  - unfold issues in H. cbn [List.length] in H.
    replace (0 <? N.of_nat (S (List.length ns))) with true in H by (symmetry; apply N.ltb_lt; lia).
    cbn [spec_cmds]. destruct (o_cmd oa n).
    + specialize (IH (SReply id EnqOk) (St a (RSetup (N.of_nat (S (List.length ns)))) true) a).
      assert (Hi : issues (St a (RSetup (N.of_nat (S (List.length ns)))) true) (SReply id EnqOk) a (N.of_nat (List.length ns))).
      { unfold issues. destruct ns as [|n' ns'].
        - cbn [List.length]. rewrite step_setup_last by reflexivity. reflexivity.
        - replace (0 <? N.of_nat (List.length (n' :: ns'))) with true by (symmetry; apply N.ltb_lt; cbn [List.length]; lia).
          rewrite step_setup_more by (apply N.ltb_lt; cbn [List.length]; lia).
          replace (N.of_nat (S (List.length (n' :: ns'))) - 1) with (N.of_nat (List.length (n' :: ns'))) by lia. reflexivity. }
      specialize (IH Hi). cbv zeta in IH. cbn [fst snd map mtrace]. rewrite H. cbn [fst snd].
      rewrite view_St. cbn [wait_of q_stage mkr].
      destruct (snd (spec_cmds id dst tag (SReply id EnqOk) ns oa)).
      * destruct IH as [IH1 IH2]. rewrite IH1. split; [reflexivity|exact IH2].
      * rewrite IH. reflexivity.
    + cbn [fst snd map mtrace]. rewrite H. cbn [fst snd]. rewrite step_cancel. cbn [fst snd].
      rewrite view_St, view_Fin. reflexivity.
Qed.

Hypothesis Hnset : nset = N.of_nat (List.length (setup_names p)).

Lemma model_attempt : forall ev st a s oa d, sstep st ev = want_lock (St a s false) (mkr a s) -> d = delay_of (a + 1) ->
  let X := spec_attempt id knd dst tag p ev oa d in
  mtrace id st (map fst (fst X)) =
    (map snd (fst X), match snd X with PEnd => Fin | PRetry => St (a + 1) RBackoff false | PAccepted => St a RSend true end).
Proof.
  intros ev st a s oa d H Hd. cbv zeta. unfold spec_attempt.
  assert (Hi : issues st ev a (N.of_nat (List.length (setup_names p)))).
  { unfold issues. rewrite H, want_St. unfold first_stage, first_out. rewrite <- Hnset. destruct (0 <? nset); reflexivity. }
  pose proof (model_cmds oa (setup_names p) ev st a Hi) as C. cbv zeta in C.
  destruct (snd (spec_cmds id dst tag ev (setup_names p) oa)) as [ev1|]; [|exact C].
  destruct C as [C1 C2].
  set (l := fst (spec_cmds id dst tag ev (setup_names p) oa)) in *.
  destruct (o_send oa) as [sx|]; [destruct (classify sx); [|destruct (o_sleep oa)|]|]; cbn [fst snd].
  all: rewrite map_app, mtrace_app, C1, map_app; cbn [map fst snd mtrace]; rewrite C2; cbn [fst snd].
  all: rewrite ?step_busy, ?step_refused, ?step_cancel; cbn [fst snd]; rewrite ?step_cancel; cbn [fst snd].
  all: rewrite ?view_St, ?view_Fin; cbn [wait_of q_stage q_attempt mkr]; rewrite <- ?Hd; reflexivity.
Qed.

Lemma tail_ok : forall a,
  mtrace id (St a RSend true) (map fst (spec_tail id knd dst tag fam oc)) = (map snd (spec_tail id knd dst tag fam oc), Fin).
Proof.
  intros a. destruct (kind_dec knd) as [Hu|Hu].
  - rewrite (spec_tail_unicast id knd dst tag fam oc Hu). cbn [map fst snd mtrace].
    rewrite (step_accept_unicast a Hu). cbn [fst snd].
    rewrite view_St. cbn [wait_of q_stage mkr].
    unfold conf_event, conf_res. destruct oc as [sx| |].
    + rewrite step_confirm. cbn [fst snd]. rewrite view_Fin. destruct (normalise fam sx =? sl_OK); reflexivity.
    + rewrite step_confirm_timeout. cbn [fst snd]. rewrite view_Fin. reflexivity.
    + rewrite step_cancel. cbn [fst snd]. rewrite view_Fin. reflexivity.
  - rewrite (spec_tail_other id knd dst tag fam oc Hu). cbn [map fst snd mtrace].
    rewrite (step_accept_other a Hu). cbn [fst snd]. rewrite view_Fin. reflexivity.
Qed.

Lemma model_loop : forall l pre k ev st s, RETRY_DELAYS = pre ++ l -> N.of_nat (List.length pre) = k ->
  (l <> [] -> sstep st ev = want_lock (St k s false) (mkr k s)) ->
  (l = [] -> sstep st ev = (Fin, [XDone id ResDeliveryError])) ->
  mtrace id st (map fst (spec_loop id knd dst tag fam p o oc ev k l)) = (map snd (spec_loop id knd dst tag fam p o oc ev k l), Fin).
Proof.
  induction l as [|d l IH]; intros pre k ev st s Hr Hk H1 H2.
  - cbn [spec_loop map fst snd mtrace]. rewrite (H2 eq_refl). cbn [fst snd]. rewrite view_Fin. reflexivity.
  - cbn [spec_loop].
    assert (Hd : d = delay_of (k + 1)).
    { unfold delay_of. rewrite Hr. replace (N.to_nat (k + 1 - 1)) with (List.length pre) by lia. rewrite nth_middle. reflexivity. }
    pose proof (model_attempt ev st k s (o k) d (H1 ltac:(discriminate)) Hd) as A. cbv zeta in A.
    destruct (snd (spec_attempt id knd dst tag p ev (o k) d)).
    + exact A.
    + rewrite map_app, mtrace_app, A, map_app. cbn [fst snd].
      assert (Hn : nretries = N.of_nat (List.length pre) + 1 + N.of_nat (List.length l)).
      { unfold nretries. rewrite Hr, app_length. cbn [List.length]. lia. }
      rewrite (IH (pre ++ [d]) (k + 1) (STimer id) (St (k + 1) RBackoff false) RBackoff).
      * reflexivity.
      * rewrite Hr, <- app_assoc. reflexivity.
      * rewrite app_length. cbn [List.length]. lia.
      * intros Hl. apply step_timer_retry. apply N.ltb_lt. destruct l; [contradiction|]. cbn [List.length] in Hn. lia.
      * intros ->. apply step_timer_giveup. apply N.ltb_ge. cbn [List.length] in Hn. lia.
    + rewrite map_app, mtrace_app, A, map_app. cbn [fst snd]. rewrite tail_ok. reflexivity.
Qed.
End Model.

(* ---- every execution of the emitted coroutine is a path of the model ------------------------------------------------ *)
Definition nsetup_of (p : sp_packet) : N := N.of_nat (List.length (setup_names p)).
(* self._pending as the model holds it: the keys of the requests in progress *)
Definition pending_has_of (st : sstate) (k : N * N) : bool :=
  match rfind_tag (fst k) (snd k) (s_reqs st) with Some _ => true | None => false end.
(* the path: send_packet is called (SSend), then one event per suspension point, as its outcome says; dup: the key is
   taken, Requests.new raises *)
Definition path (id : N) (knd : pkind) (fam : family) (p : sp_packet) (tag : N) (o : N -> sp_attempt) (oc : sp_conf) (dup : bool)
  : list pstep :=
  let call := SSend id knd (p_dst_address p) (nsetup_of p) in
  if dup then [(call, ([XDone id ResDuplicateTag], None))]
  else spec_loop id knd (p_dst_address p) tag fam p o oc call 0 RETRY_DELAYS.
Definition model_events id knd fam p tag o oc dup : list sevent := map fst (path id knd fam p tag o oc dup).

Lemma retry_delays_nonempty : RETRY_DELAYS <> [].
Proof. unfold RETRY_DELAYS. discriminate. Qed.

Theorem src_send_packet : forall id knd fam p otop o oc st0,
  kind_of_mode (p_addr_mode p) = Some knd ->
  s_lock st0 = None -> s_lockq st0 = [] -> rget id (s_reqs st0) = None ->
  (forall a, o_lock (o a) = AwOk) ->
  let dst := p_dst_address p in
  let tag := (s_seq st0 + 1) mod 256 in
  let run := py_send_packet fam p tag (pending_has_of st0) AwOk otop o oc in
  mtrace id st0 (model_events id knd fam p tag o oc (pending_has_of st0 (dst, tag)))
  = (script_trace id dst run, {| s_seq := tag; s_reqs := s_reqs st0; s_lock := None; s_lockq := [] |}).
Proof.
  intros id knd fam p otop o oc st0 Hk Hl Hq Hf Hg. cbv zeta.
  rewrite (send_packet_norm_eq fam p knd _ _ otop o oc Hk).
  unfold send_packet_norm, model_events, path, script_trace. cbv zeta.
  destruct (pending_has_of st0 (p_dst_address p, (s_seq st0 + 1) mod 256)) eqn:Hd.
  - unfold pending_has_of in Hd. cbn [fst snd] in Hd.
    cbn [map fst snd mtrace scan app sstep].
    destruct (rfind_tag (p_dst_address p) ((s_seq st0 + 1) mod 256) (s_reqs st0)); [|discriminate Hd].
    cbn [fst snd]. unfold view_of. cbn [s_reqs]. rewrite Hf, Hl, Hq. reflexivity.
  - unfold pending_has_of in Hd. cbn [fst snd] in Hd.
    assert (Hkey : rfind_tag (p_dst_address p) ((s_seq st0 + 1) mod 256) (s_reqs st0) = None)
      by (destruct (rfind_tag _ _ (s_reqs st0)); [discriminate Hd|reflexivity]).
    cbn [fst snd scan].
    rewrite (script_loop id knd fam p o oc Hk Hg ((s_seq st0 + 1) mod 256) RETRY_DELAYS 0
               (SSend id knd (p_dst_address p) (nsetup_of p))).
    apply (model_loop id knd (p_dst_address p) ((s_seq st0 + 1) mod 256) (nsetup_of p) (s_reqs st0) Hf Hkey fam p o oc eq_refl
             RETRY_DELAYS [] 0 _ st0 RLock eq_refl eq_refl).
    + intros _. cbn [sstep]. rewrite Hkey. unfold set_reqs. cbn [s_seq s_reqs s_lock s_lockq]. rewrite Hl, Hq. reflexivity.
    + intros E. destruct (retry_delays_nonempty E).
Qed.

(* after the call every event of the path is one of this request's: an answer to its command, its timer, its
   cancellation, a confirmation for its key *)
Definition own_event (id dst tag : N) (e : sevent) : bool :=
  match e with
  | SReply i _ | STimer i | SCancel i => i =? id
  | SConfirm d t _ => (d =? dst) && (t =? tag)
  | SSend _ _ _ _ => false
  end.
Lemma own_cmds : forall id dst tag oa names ev,
  let C := spec_cmds id dst tag ev names oa in
  exists rest, map fst (fst C) ++ match snd C with Some e => [e] | None => [] end = ev :: rest /\
               forallb (own_event id dst tag) rest = true.
Proof.
  intros id dst tag oa. induction names as [|n ns IH]; intros ev; cbv zeta; cbn [spec_cmds].
  - exists []. split; reflexivity.
  - destruct (o_cmd oa n); cbn [fst snd map app].
    + destruct (IH (SReply id EnqOk)) as (rest & E & F). cbv zeta in E. rewrite E.
      exists (SReply id EnqOk :: rest). split; [reflexivity|]. cbn [forallb own_event]. rewrite N.eqb_refl, F. reflexivity.
    + exists [SCancel id]. split; [reflexivity|]. cbn. rewrite N.eqb_refl. reflexivity.
Qed.
Lemma own_attempt : forall id knd dst tag p ev oa d,
  exists rest, map fst (fst (spec_attempt id knd dst tag p ev oa d)) = ev :: rest /\ forallb (own_event id dst tag) rest = true.
Proof.
  intros id knd dst tag p ev oa d. unfold spec_attempt.
  destruct (own_cmds id dst tag oa (setup_names p) ev) as (rest & E & F). cbv zeta in E.
  destruct (snd (spec_cmds id dst tag ev (setup_names p) oa)) as [ev1|].
  - assert (G : forall tl : list pstep, forallb (own_event id dst tag) (map fst tl) = true ->
              exists rest', map fst (fst (spec_cmds id dst tag ev (setup_names p) oa) ++ (ev1, ([XSendCmd id knd dst tag], Vw dst tag WSend true)) :: tl)
                            = ev :: rest' /\ forallb (own_event id dst tag) rest' = true).
    { intros tl Ht. exists (rest ++ map fst tl). rewrite map_app. cbn [map fst].
      change (ev1 :: map fst tl) with ([ev1] ++ map fst tl). rewrite app_assoc, E. split; [reflexivity|].
      rewrite forallb_app, F, Ht. reflexivity. }
    destruct (o_send oa) as [s|]; [destruct (classify s); [|destruct (o_sleep oa)|]|]; cbn [fst snd];
      apply G; cbn; rewrite ?N.eqb_refl; reflexivity.
  - rewrite app_nil_r in E. exists rest. split; assumption.
Qed.

Lemma own_loop : forall id knd dst tag fam p o oc l k ev,
  exists rest, map fst (spec_loop id knd dst tag fam p o oc ev k l) = ev :: rest /\ forallb (own_event id dst tag) rest = true.
Proof.
  intros id knd dst tag fam p o oc. induction l as [|d l IH]; intros k ev; cbn [spec_loop].
  - exists []. split; reflexivity.
  - destruct (own_attempt id knd dst tag p ev (o k) d) as (rest & E & F).
    destruct (snd (spec_attempt id knd dst tag p ev (o k) d)).
    + exists rest. split; assumption.
    + destruct (IH (k + 1) (STimer id)) as (rest' & E' & F'). rewrite map_app, E, E'.
      exists (rest ++ STimer id :: rest'). split; [reflexivity|]. rewrite forallb_app, F. cbn [forallb own_event andb].
      rewrite N.eqb_refl, F'. reflexivity.
    + rewrite map_app, E. exists (rest ++ map fst (spec_tail id knd dst tag fam oc)). split; [reflexivity|].
      rewrite forallb_app, F. cbn [andb]. unfold spec_tail, conf_event.
      destruct knd; [destruct oc|..]; cbn; rewrite ?N.eqb_refl; reflexivity.
Qed.

Theorem path_events_own : forall id knd fam p tag o oc dup,
  exists rest, model_events id knd fam p tag o oc dup = SSend id knd (p_dst_address p) (nsetup_of p) :: rest /\
               forallb (own_event id (p_dst_address p) tag) rest = true.
Proof.
  intros. unfold model_events, path. cbv zeta. destruct dup.
  - exists []. split; reflexivity.
  - apply own_loop.
Qed.

(* ---- the scopes, on the effect list alone: EVERY execution (also those where an acquisition of the lock is thrown out
   of) -------------------------------------------------------------------------------------------------------------- *)
(* the request lock: taken only when free, released before the end; every command lies inside a section, a section
   holds set-up commands followed by at most one send command and nothing after it; the sleep, the wait for the
   confirmation, the registration and removal of the pending entry and the limiter lie outside *)
Inductive lk := LOut | LIn (sent : bool).
Fixpoint lock_scoped (s : lk) (eff : list sp_eff) : bool :=
  match eff with
  | [] => match s with LOut => true | LIn _ => false end
  | e :: eff' =>
      match e, s with
      | ELockAcquire, LOut => lock_scoped (LIn false) eff'
      | ELockRelease, LIn _ => lock_scoped LOut eff'
      | ECmd n _, LIn false => lock_scoped (LIn (is_send n)) eff'
      | (ESleep _ | EAwaitConfirm _ _ | EPendingNew _ | EPendingRemove _ | EGetSequence | ELimiterAcquire | ELimiterRelease), LOut =>
          lock_scoped LOut eff'
      | _, _ => false
      end
  end.
(* the number of lock sections and of send commands *)
Definition count_eff (f : sp_eff -> bool) (eff : list sp_eff) : nat := List.length (filter f eff).
Definition is_acquire (e : sp_eff) : bool := match e with ELockAcquire => true | _ => false end.
Definition is_send_eff (e : sp_eff) : bool := match e with ECmd n _ => is_send n | _ => false end.

Lemma attempt_scoped : forall p knd tag oa d b, kind_of_mode (p_addr_mode p) = Some knd ->
  lock_scoped LOut (fst (att_effs p tag oa d) ++ b) = lock_scoped LOut b.
Proof.
  intros p knd tag oa d b Hk. unfold att_effs, setup_names, send_cmd. unfold kind_of_mode in Hk.
  destruct (o_lock oa); [|reflexivity].
  destruct (p_addr_mode p =? AddrMode_NWK); [|destruct (p_addr_mode p =? AddrMode_Group);
     [|destruct (p_addr_mode p =? AddrMode_Broadcast); [|discriminate Hk]]].
  all: destruct (p_extended_timeout p), (p_device_known p), (p_has_source_route p);
    cbn [andb app setup_effs setup_args negb fst snd].
  all: repeat match goal with
         | |- context [o_cmd ?x ?n] => destruct (o_cmd x n)
         end; cbn [andb app setup_effs setup_args negb fst snd].
  all: try (destruct (o_send oa) as [s|]; [destruct (classify s); [| destruct (o_sleep oa) |]|]).
  all: reflexivity.
Qed.
Lemma loop_scoped : forall p knd tag o, kind_of_mode (p_addr_mode p) = Some knd ->
  forall l k b, lock_scoped LOut (fst (loop_effs p tag o k l) ++ b) = lock_scoped LOut b.
Proof.
  intros p knd tag o Hk. induction l as [|d l IH]; intros k b; cbn [loop_effs].
  - reflexivity.
  - destruct (snd (att_effs p tag (o k) d)); cbn [fst snd]; rewrite <- ?app_assoc, (attempt_scoped p knd tag (o k) d _ Hk);
      try reflexivity. apply IH.
Qed.

Theorem src_lock_scope : forall fam p knd tag has ol otop o oc, kind_of_mode (p_addr_mode p) = Some knd ->
  lock_scoped LOut (fst (py_send_packet fam p tag has ol otop o oc)) = true.
Proof.
  intros fam p knd tag has ol otop o oc Hk. destruct ol; [|reflexivity].
  rewrite (send_packet_norm_eq fam p knd tag has otop o oc Hk). unfold send_packet_norm. cbv zeta.
  destruct (has (p_dst_address p, tag)); [reflexivity|]. cbn [fst lock_scoped].
  rewrite (loop_scoped p knd tag o Hk). unfold finish.
  destruct (snd (loop_effs p tag o 0 RETRY_DELAYS)); try reflexivity.
  destruct (p_addr_mode p =? AddrMode_NWK); reflexivity.
Qed.

(* the pending entry: registered once, before anything else happens inside the limiter but the tag counter, and removed on
   every way out as the last thing before the limiter is released; in between only the lock, commands, the sleep and the
   wait for the confirmation (of that very entry) *)
Definition inner_eff (key : N * N) (e : sp_eff) : bool :=
  match e with
  | ELockAcquire | ELockRelease | ECmd _ _ | ESleep _ => true
  | EAwaitConfirm k _ => (fst k =? fst key) && (snd k =? snd key)
  | _ => false
  end.
Lemma attempt_inner : forall key p tag oa d, forallb (inner_eff key) (fst (att_effs p tag oa d)) = true.
Proof.
  intros key p tag oa d. unfold att_effs, setup_names, send_cmd.
  destruct (o_lock oa); [|reflexivity].
  destruct (p_addr_mode p =? AddrMode_NWK); [|destruct (p_addr_mode p =? AddrMode_Group)].
  all: destruct (p_extended_timeout p), (p_device_known p), (p_has_source_route p);
    cbn [andb app setup_effs setup_args negb fst snd].
  all: repeat match goal with
         | |- context [o_cmd ?x ?n] => destruct (o_cmd x n)
         end; cbn [andb app setup_effs setup_args negb fst snd].
  all: try (destruct (o_send oa) as [s|]; [destruct (classify s); [| destruct (o_sleep oa) |]|]).
  all: reflexivity.
Qed.
Lemma loop_inner : forall key p tag o l k, forallb (inner_eff key) (fst (loop_effs p tag o k l)) = true.
Proof.
  intros key p tag o. induction l as [|d l IH]; intros k; cbn [loop_effs]; [reflexivity|].
  destruct (snd (att_effs p tag (o k) d)); cbn [fst snd]; rewrite ?forallb_app, ?attempt_inner, ?IH; reflexivity.
Qed.

Theorem src_pending_scope : forall fam p knd tag has otop o oc, kind_of_mode (p_addr_mode p) = Some knd ->
  let key := (p_dst_address p, tag) in
  let run := py_send_packet fam p tag has AwOk otop o oc in
  if has key then run = ([ELimiterAcquire; EGetSequence; ELimiterRelease], SpRaise XDuplicate)
  else exists mid, fst run = ELimiterAcquire :: EGetSequence :: EPendingNew key :: mid ++ [EPendingRemove key; ELimiterRelease] /\
                   forallb (inner_eff key) mid = true /\ snd run <> SpRaise XDuplicate /\ snd run <> SpRaise XUnboundLocal.
Proof.
  intros fam p knd tag has otop o oc Hk. cbv zeta.
  rewrite (send_packet_norm_eq fam p knd tag has otop o oc Hk). unfold send_packet_norm. cbv zeta.
  destruct (has (p_dst_address p, tag)); [reflexivity|]. cbn [fst snd]. unfold finish.
  pose proof (loop_inner (p_dst_address p, tag) p tag o RETRY_DELAYS 0) as I.
  destruct (snd (loop_effs p tag o 0 RETRY_DELAYS)); cbn [fst snd].
  1-3: exists (fst (loop_effs p tag o 0 RETRY_DELAYS)); repeat split; try assumption; discriminate.
  destruct (p_addr_mode p =? AddrMode_NWK); cbn [fst snd].
  - exists (fst (loop_effs p tag o 0 RETRY_DELAYS) ++ [EAwaitConfirm (p_dst_address p, tag) APS_ACK_TIMEOUT]).
    rewrite <- app_assoc. repeat split.
    + rewrite forallb_app, I. cbn. rewrite !N.eqb_refl. reflexivity.
    + unfold conf_res. destruct oc as [s| |]; [destruct (normalise fam s =? sl_OK)|..]; discriminate.
    + unfold conf_res. destruct oc as [s| |]; [destruct (normalise fam s =? sl_OK)|..]; discriminate.
  - exists (fst (loop_effs p tag o 0 RETRY_DELAYS)). repeat split; try assumption; discriminate.
Qed.

(* ---- the constants --------------------------------------------------------------------------------------------------
   the loop runs over enumerate(RETRY_DELAYS) of gen/GenApp.v, the list the model's [nretries] is the length of, and the
   timeout of the wait is GenApp's APS_ACK_TIMEOUT: both by construction of the emitted term (src_send_packet compares
   every sleep with the model's [delay_of]).  The statuses answered by a retry are the three the property names, with
   the values of the generated sl_Status table. *)
Theorem src_busy_statuses :
  map fst py_busy_statuses = ["ZIGBEE_MAX_MESSAGE_LIMIT_REACHED"; "TRANSMIT_BUSY"; "ALLOCATION_FAILED"]%string /\
  forallb (fun nv => match member (fst nv) sl_members with Some v => v =? snd nv | None => false end) py_busy_statuses = true /\
  classify sl_OK = EnqOk /\
  (forall s, classify s = EnqBusy <-> s <> sl_OK /\ In s (map snd py_busy_statuses)).
Proof.
  split; [reflexivity|]. split; [vm_compute; reflexivity|]. split; [vm_compute; reflexivity|].
  intros s. unfold classify, sp_mem_N. destruct (s =? sl_OK) eqn:E.
  - split; [discriminate|]. intros [H _]. apply N.eqb_eq in E. contradiction.
  - apply N.eqb_neq in E. destruct (existsb (N.eqb s) (map snd py_busy_statuses)) eqn:M.
    + split; [|reflexivity]. intros _. split; [exact E|]. apply existsb_exists in M. destruct M as (x & Hx & Ex).
      apply N.eqb_eq in Ex. subst x. exact Hx.
    + split; [discriminate|]. intros [_ H]. assert (existsb (N.eqb s) (map snd py_busy_statuses) = true).
      { apply existsb_exists. exists s. split; [exact H|apply N.eqb_refl]. } congruence.
Qed.

(* ---- the lock is busy and the wait for it is thrown out of (the caller is cancelled while queued) ------------------- *)
Lemma filter_snoc_notin : forall id (q : list N), ~ In id q -> filter (fun x => negb (x =? id)) (q ++ [id]) = q.
Proof.
  intros id q H. induction q as [|x q IH]; cbn.
  - rewrite N.eqb_refl. reflexivity.
  - destruct (x =? id) eqn:E; [apply N.eqb_eq in E; subst; exfalso; apply H; left; reflexivity|].
    cbn. rewrite IH; [reflexivity|]. intros Hi. apply H. right. exact Hi.
Qed.
Theorem src_lock_wait_thrown : forall id knd fam p otop o oc st0 h,
  kind_of_mode (p_addr_mode p) = Some knd ->
  s_lock st0 = Some h -> h <> id -> ~ In id (s_lockq st0) -> rget id (s_reqs st0) = None ->
  o_lock (o 0) = AwThrow ->
  let dst := p_dst_address p in
  let tag := (s_seq st0 + 1) mod 256 in
  pending_has_of st0 (dst, tag) = false ->
  let run := py_send_packet fam p tag (pending_has_of st0) AwOk otop o oc in
  run = ([ELimiterAcquire; EGetSequence; EPendingNew (dst, tag); EPendingRemove (dst, tag); ELimiterRelease], SpRaise XThrown) /\
  mtrace id st0 [SSend id knd dst (nsetup_of p); SCancel id]
  = ([([], Some ((dst, tag), WLock, false)); ([XDone id (res_of (snd run))], None)],
     {| s_seq := tag; s_reqs := s_reqs st0; s_lock := Some h; s_lockq := s_lockq st0 |}).
Proof.
  intros id knd fam p otop o oc st0 h Hk Hl Hh Hq Hf Ho. cbv zeta. intros Hd.
  rewrite (send_packet_norm_eq fam p knd _ _ otop o oc Hk). unfold send_packet_norm. cbv zeta. rewrite Hd.
  assert (E : loop_effs p ((s_seq st0 + 1) mod 256) o 0 RETRY_DELAYS = ([], LThrown)).
  { destruct RETRY_DELAYS as [|d l] eqn:R; [destruct (retry_delays_nonempty R)|].
    cbn [loop_effs]. unfold att_effs. rewrite Ho. reflexivity. }
  rewrite E. cbn [fst snd finish app]. split; [reflexivity|].
  unfold pending_has_of in Hd. cbn [fst snd] in Hd.
  assert (Hkey : rfind_tag (p_dst_address p) ((s_seq st0 + 1) mod 256) (s_reqs st0) = None)
    by (destruct (rfind_tag _ _ (s_reqs st0)); [discriminate Hd|reflexivity]).
  cbn [mtrace sstep]. rewrite Hkey. unfold set_reqs, want_lock. cbn [s_seq s_reqs s_lock s_lockq fst snd]. rewrite Hl.
  cbn [fst snd s_reqs]. unfold with_stage. cbn [q_id q_kind q_dst q_tag q_setup q_attempt q_confirmed].
  rewrite (rset_snoc id) by (try exact Hf; reflexivity).
  unfold view_of at 1. cbn [s_reqs]. rewrite (rget_snoc id) by (try exact Hf; reflexivity).
  unfold holds. cbn [s_lock q_dst q_tag wait_of q_stage].
  unfold end_req, holds. cbn [s_lock s_reqs s_lockq s_seq q_id].
  replace (h =? id) with false by (symmetry; apply N.eqb_neq; exact Hh).
  rewrite (rdel_snoc id) by (try exact Hf; reflexivity). rewrite (filter_snoc_notin id _ Hq).
  cbn [fst snd]. unfold view_of. cbn [s_reqs]. rewrite Hf. reflexivity.
Qed.

(* ---- non-vacuity: the NCP busy on every attempt.  One lock section with the set-up command and the send command per
   attempt, a sleep of the attempt's delay after EACH of them (also the last: `attempt < len(RETRY_DELAYS)` holds on every
   iteration; the model's timer event after the last busy answer is that sleep), then the delivery error; the entry is
   there throughout and gone at the end *)
Definition ex_packet : sp_packet :=
  {| p_addr_mode := AddrMode_NWK; p_dst_address := 0x1234; p_extended_timeout := false; p_device_known := true; p_has_source_route := true |}.
Definition ex_busy : sp_attempt :=
  {| o_lock := AwOk; o_cmd := fun _ => AwOk; o_send := SentStatus 52; o_sleep := AwOk |}.
Example src_all_busy :
  py_send_packet FUnified ex_packet 7 (fun _ => false) AwOk ex_busy (fun _ => ex_busy) ConfTimeout =
    (let setup := ECmd "set_source_route" [("nwk"%string, 0x1234)] in
     let send := ECmd "send_unicast" [("nwk"%string, 0x1234); ("message_tag"%string, 7)] in
     [ELimiterAcquire; EGetSequence; EPendingNew (0x1234, 7);
      ELockAcquire; setup; send; ELockRelease; ESleep (1, 2);
      ELockAcquire; setup; send; ELockRelease; ESleep (1, 1);
      ELockAcquire; setup; send; ELockRelease; ESleep (3, 2);
      EPendingRemove (0x1234, 7); ELimiterRelease], SpRaise XDeliveryError)
  /\ model_events 1 Unicast FUnified ex_packet 7 (fun _ => ex_busy) ConfTimeout false =
     [SSend 1 Unicast 0x1234 1; SReply 1 EnqOk; SReply 1 EnqBusy; STimer 1; SReply 1 EnqOk; SReply 1 EnqBusy; STimer 1;
      SReply 1 EnqOk; SReply 1 EnqBusy; STimer 1].
Proof. vm_compute. split; reflexivity. Qed.
