(* C15 proofs: the host's multicast bookkeeping (model/Multicast.v) partitions the NCP table's
   indices and mirrors the entries programmed with a non-zero endpoint. *)
From Coq Require Import PeanoNat NArith List Bool Lia Permutation.
Import ListNotations.
Require Import BV.gen.GenStatus BV.model.Multicast.
(* exported: props/C15.v states c15_idempotent with Status.sl_OK *)
Require Import BV.model.Status.
Open Scope N_scope.

(* ---- vocabulary used by props/C15.v ------------------------------------------------------- *)
Definition used (st : mstate) : list N := map snd (subs st).

Definition wf (st : mstate) : Prop :=
  NoDup (map fst (subs st)) /\ NoDup (avail st ++ used st) /\
  (forall i, In i (avail st ++ used st) -> (N.to_nat i < length (ncp st))%nat).

Definition full_partition (st : mstate) : Prop :=
  (length (avail st) + length (subs st) = length (ncp st))%nat.

Definition mirror (st : mstate) : Prop :=
  forall g i, In (g, i) (subs st) <->
    exists ep, nth_error (ncp st) (N.to_nat i) = Some (g, ep) /\ ep <> 0%N.

Definition distinct_groups (t : list (N * N)) : Prop :=
  NoDup (map fst (filter (fun e => negb (snd e =? 0)%N) t)).

Definition answered (o : op) : Prop :=
  match o with
  | Subscribe _ _ (Ans _) => True
  | Unsubscribe _ (Ans _) => True
  | _ => False
  end.

Definition is_call (o : op) : Prop :=
  match o with
  | Subscribe _ _ _ | Unsubscribe _ _ => True
  | Init _ _ => False
  end.

Definition failed (r : ret) : Prop :=
  r = RRaised \/ exists s, r = RStatus s /\ status_ok s = false.

(* status_ok is only ever decided by computation on closed terms; keep tactics from unfolding it *)
Local Opaque status_ok.

Lemma status_ok_0 : status_ok 0 = true.
Proof. vm_compute. reflexivity. Qed.

Lemma status_ok_invalid_index : status_ok INVALID_INDEX = false.
Proof. vm_compute. reflexivity. Qed.

(* ---- lists: NoDup over an append ---------------------------------------------------------- *)
Lemma NoDup_app_l {A} (a b : list A) : NoDup (a ++ b) -> NoDup a.
Proof.
  induction a as [|x a IH]; cbn [app]; intros H; [constructor|].
  apply NoDup_cons_iff in H. destruct H as [Hx Hn].
  constructor; [|apply IH; exact Hn].
  intros Hin. apply Hx. apply in_or_app. left. exact Hin.
Qed.

Lemma NoDup_app_r {A} (a b : list A) : NoDup (a ++ b) -> NoDup b.
Proof.
  induction a as [|x a IH]; cbn [app]; intros H; [exact H|].
  apply NoDup_cons_iff in H. destruct H as [_ Hn]. apply IH. exact Hn.
Qed.

Lemma NoDup_app_disj {A} (a b : list A) (x : A) : NoDup (a ++ b) -> In x a -> In x b -> False.
Proof.
  induction a as [|y a IH]; cbn [app]; intros H Ha Hb; [destruct Ha|].
  apply NoDup_cons_iff in H. destruct H as [Hy Hn].
  destruct Ha as [-> | Ha].
  - apply Hy. apply in_or_app. right. exact Hb.
  - apply IH; assumption.
Qed.

Lemma NoDup_snd_unique (l : list (N * N)) g g' i :
  NoDup (map snd l) -> In (g, i) l -> In (g', i) l -> g' = g.
Proof.
  induction l as [|[h j] l IH]; cbn [map snd]; intros Hn H1 H2; [destruct H1|].
  apply NoDup_cons_iff in Hn. destruct Hn as [Hj Hn].
  destruct H1 as [E1 | H1]; destruct H2 as [E2 | H2].
  - congruence.
  - injection E1 as -> ->. exfalso. apply Hj.
    apply in_map_iff. exists (g', i). split; [reflexivity | exact H2].
  - injection E2 as -> ->. exfalso. apply Hj.
    apply in_map_iff. exists (g, i). split; [reflexivity | exact H1].
  - apply IH; assumption.
Qed.

(* a duplicate-free list of n indices below n contains every index below n *)
Lemma covers (l : list N) (n : nat) :
  NoDup l -> (forall i, In i l -> (N.to_nat i < n)%nat) -> length l = n ->
  forall i, (N.to_nat i < n)%nat -> In i l.
Proof.
  intros Hnd Hb Hlen i Hi.
  assert (Hnd' : NoDup (map N.to_nat l)).
  { apply FinFun.Injective_map_NoDup; [|exact Hnd]. intros x y Hxy. apply N2Nat.inj. exact Hxy. }
  assert (Hincl : incl (seq 0 n) (map N.to_nat l)).
  { apply NoDup_length_incl; [exact Hnd'| |].
    - rewrite seq_length, map_length. lia.
    - intros x Hx. apply in_map_iff in Hx. destruct Hx as [y [Hy Hin]]. subst x.
      apply in_seq. specialize (Hb y Hin). lia. }
  assert (Hin : In (N.to_nat i) (map N.to_nat l)).
  { apply Hincl. apply in_seq. lia. }
  apply in_map_iff in Hin. destruct Hin as [y [Hy Hin]].
  apply N2Nat.inj in Hy. subst y. exact Hin.
Qed.

(* ---- the model's list operations ---------------------------------------------------------- *)
Lemma mem_true_iff i l : mem i l = true <-> In i l.
Proof.
  induction l as [|j l IH]; cbn [mem In].
  - split; [discriminate | intros []].
  - rewrite orb_true_iff, N.eqb_eq, IH. tauto.
Qed.

Lemma set_add_notin i l : ~ In i l -> set_add i l = l ++ [i].
Proof.
  intros H. unfold set_add. destruct (mem i l) eqn:E; [|reflexivity].
  exfalso. apply H. apply mem_true_iff. exact E.
Qed.

Lemma lookup_none g l : lookup g l = None -> ~ In g (map fst l).
Proof.
  induction l as [|[h j] l IH]; cbn [lookup map fst In]; intros H; [tauto|].
  destruct (h =? g) eqn:E; [discriminate|].
  apply N.eqb_neq in E. intros [Hh | Hin]; [exact (E Hh) | exact (IH H Hin)].
Qed.

Lemma notin_lookup_none g l : ~ In g (map fst l) -> lookup g l = None.
Proof.
  induction l as [|[h j] l IH]; cbn [lookup map fst In]; intros H; [reflexivity|].
  destruct (h =? g) eqn:E.
  - apply N.eqb_eq in E. exfalso. apply H. left. exact E.
  - apply IH. intros Hin. apply H. right. exact Hin.
Qed.

Lemma lookup_some_perm g i l : lookup g l = Some i -> Permutation l ((g, i) :: dict_del g l).
Proof.
  induction l as [|[h j] l IH]; cbn [lookup dict_del]; intros H; [discriminate|].
  destruct (h =? g) eqn:E.
  - apply N.eqb_eq in E. injection H as ->. subst h. apply Permutation_refl.
  - eapply perm_trans; [apply perm_skip; apply IH; exact H | apply perm_swap].
Qed.

Lemma lookup_some_in g i l : lookup g l = Some i -> In (g, i) l.
Proof.
  intros H. apply (Permutation_in _ (Permutation_sym (lookup_some_perm g i l H))). left. reflexivity.
Qed.

Lemma dict_set_absent g i l : lookup g l = None -> dict_set g i l = l ++ [(g, i)].
Proof.
  induction l as [|[h j] l IH]; cbn [lookup dict_set app]; intros H; [reflexivity|].
  destruct (h =? g); [discriminate|]. rewrite IH by exact H. reflexivity.
Qed.

Lemma remove_idx_perm i l : In i l -> Permutation l (i :: remove_idx i l).
Proof.
  induction l as [|j l IH]; cbn [remove_idx In]; intros H; [destruct H|].
  destruct (j =? i) eqn:E.
  - apply N.eqb_eq in E. subst j. apply Permutation_refl.
  - apply N.eqb_neq in E. destruct H as [H | H]; [contradiction|].
    eapply perm_trans; [apply perm_skip; apply IH; exact H | apply perm_swap].
Qed.

Lemma pick_in c a i : pick c a = Some i -> In i a.
Proof.
  unfold pick. destruct a as [|h a']; [discriminate|].
  destruct (mem c (h :: a')) eqn:E; intros H; injection H as <-.
  - apply mem_true_iff. exact E.
  - left. reflexivity.
Qed.

Lemma upd_length {A} n (x : A) l : length (upd n x l) = length l.
Proof.
  revert n. induction l as [|y l IH]; intros n; [destruct n; reflexivity|].
  destruct n as [|n]; cbn [upd length]; [reflexivity|]. rewrite IH. reflexivity.
Qed.

Lemma nth_error_upd_eq {A} n (x : A) l : (n < length l)%nat -> nth_error (upd n x l) n = Some x.
Proof.
  revert n. induction l as [|y l IH]; intros n Hn; cbn [length] in Hn; [lia|].
  destruct n as [|n]; cbn [upd nth_error]; [reflexivity|]. apply IH. lia.
Qed.

Lemma nth_error_upd_neq {A} n m (x : A) l : n <> m -> nth_error (upd n x l) m = nth_error l m.
Proof.
  revert n m. induction l as [|y l IH]; intros n m Hnm; [destruct n; reflexivity|].
  destruct n as [|n]; destruct m as [|m]; cbn [upd nth_error]; try reflexivity; [congruence|].
  apply IH. congruence.
Qed.

Lemma ncp_write_length i g ep t : length (ncp_write i g ep t) = length t.
Proof. unfold ncp_write. apply upd_length. Qed.

(* ---- the partition of the indices --------------------------------------------------------- *)
Lemma wf_full_perm st st' :
  NoDup (map fst (subs st')) ->
  Permutation (avail st ++ used st) (avail st' ++ used st') ->
  length (ncp st') = length (ncp st) ->
  wf st -> full_partition st -> wf st' /\ full_partition st'.
Proof.
  intros Hfst Hperm Hlen [_ [Hnd Hb]] Hfull. unfold wf, full_partition in *.
  split; [split; [exact Hfst | split]|].
  - exact (Permutation_NoDup Hperm Hnd).
  - intros i Hi. rewrite Hlen. apply Hb. exact (Permutation_in _ (Permutation_sym Hperm) Hi).
  - apply Permutation_length in Hperm. unfold used in Hperm.
    rewrite !app_length, !map_length in Hperm. lia.
Qed.

Lemma same_partition st st' :
  subs st' = subs st -> avail st' = avail st -> length (ncp st') = length (ncp st) ->
  wf st -> full_partition st -> wf st' /\ full_partition st'.
Proof.
  intros Hs Ha Hn Hwf Hfull. apply (wf_full_perm st st'); try assumption.
  - rewrite Hs. apply Hwf.
  - unfold used. rewrite Hs, Ha. apply Permutation_refl.
Qed.

Lemma subscribe_ok_partition st g i :
  lookup g (subs st) = None -> In i (avail st) -> wf st -> full_partition st ->
  let st' := {| subs := dict_set g i (subs st); avail := remove_idx i (avail st);
                ncp := ncp_write i g 1 (ncp st) |} in
  wf st' /\ full_partition st'.
Proof.
  intros Hl Hi Hwf Hfull st'.
  apply (wf_full_perm st st'); try assumption; unfold st', used; cbn [subs avail ncp].
  - rewrite dict_set_absent by exact Hl. rewrite map_app. cbn [map fst].
    apply (Permutation_NoDup (Permutation_cons_append _ _)).
    constructor; [apply lookup_none; exact Hl | apply Hwf].
  - rewrite dict_set_absent by exact Hl. rewrite map_app. cbn [map snd].
    eapply perm_trans; [apply Permutation_app_tail; apply remove_idx_perm; exact Hi|].
    cbn [app]. rewrite app_assoc. apply Permutation_cons_append.
  - apply ncp_write_length.
Qed.

Lemma unsubscribe_ok_partition st g i :
  lookup g (subs st) = Some i -> wf st -> full_partition st ->
  let st' := {| subs := dict_del g (subs st); avail := set_add i (avail st);
                ncp := ncp_write i g 0 (ncp st) |} in
  wf st' /\ full_partition st'.
Proof.
  intros Hl Hwf Hfull st'.
  pose proof (lookup_some_perm _ _ _ Hl) as Hp.
  assert (Hni : ~ In i (avail st)).
  { intros Hin. destruct Hwf as [_ [Hnd _]]. apply (NoDup_app_disj _ _ i Hnd Hin).
    unfold used. apply in_map_iff. exists (g, i).
    split; [reflexivity | apply lookup_some_in; exact Hl]. }
  apply (wf_full_perm st st'); try assumption; unfold st', used; cbn [subs avail ncp].
  - destruct Hwf as [Hf _]. apply (Permutation_NoDup (Permutation_map fst Hp)) in Hf.
    cbn [map fst] in Hf. apply NoDup_cons_iff in Hf. apply Hf.
  - rewrite set_add_notin by exact Hni. rewrite <- app_assoc. cbn [app].
    apply Permutation_app_head. exact (Permutation_map snd Hp).
  - apply ncp_write_length.
Qed.

Lemma partition_step : forall st o, is_call o ->
  wf st -> full_partition st ->
  wf (st_of (step st o)) /\ full_partition (st_of (step st o)).
Proof.
  intros st o Hc Hwf Hfull. unfold st_of, step.
  destruct o as [ss rs | g c a | g a]; [destruct Hc | |].
  - destruct (lookup g (subs st)) as [i0|] eqn:El; [split; assumption|].
    destruct (pick c (avail st)) as [i|] eqn:Ep; [|split; assumption].
    destruct a as [s | |]; cbn [fst].
    + destruct (status_ok s); cbn [fst]; [|split; assumption].
      apply subscribe_ok_partition; try assumption. eapply pick_in. exact Ep.
    + split; assumption.
    + apply (same_partition st); try assumption; try reflexivity. cbn [ncp]. apply ncp_write_length.
  - destruct (lookup g (subs st)) as [i|] eqn:El; [|split; assumption].
    destruct a as [s | |]; cbn [fst].
    + destruct (status_ok s); cbn [fst]; [|split; assumption].
      apply unsubscribe_ok_partition; assumption.
    + split; assumption.
    + apply (same_partition st); try assumption; try reflexivity. cbn [ncp]. apply ncp_write_length.
Qed.

Lemma partition_means : forall st, wf st -> full_partition st ->
  forall i, (N.to_nat i < length (ncp st))%nat ->
    (In i (avail st) /\ ~ In i (used st)) \/ (~ In i (avail st) /\ exists g, In (g, i) (subs st) /\
       forall g', In (g', i) (subs st) -> g' = g).
Proof.
  intros st [Hf [Hnd Hb]] Hfull i Hi.
  assert (Hin : In i (avail st ++ used st)).
  { apply (covers _ (length (ncp st))); try assumption.
    unfold used. rewrite app_length, map_length. exact Hfull. }
  apply in_app_or in Hin. destruct Hin as [Ha | Hu].
  - left. split; [exact Ha|]. intros Hu. exact (NoDup_app_disj _ _ i Hnd Ha Hu).
  - right. split; [intros Ha; exact (NoDup_app_disj _ _ i Hnd Ha Hu)|].
    unfold used in Hu. apply in_map_iff in Hu. destruct Hu as [[g j] [Hj Hin]].
    cbn [snd] in Hj. subst j. exists g. split; [exact Hin|].
    intros g' Hg'. apply (NoDup_snd_unique (subs st) g g' i); try assumption.
    apply (NoDup_app_r _ _ Hnd).
Qed.

(* ---- the mirror of the NCP table ---------------------------------------------------------- *)
Lemma subscribe_ok_mirror st g i :
  lookup g (subs st) = None -> In i (avail st) -> wf st -> mirror st ->
  mirror {| subs := dict_set g i (subs st); avail := remove_idx i (avail st);
            ncp := ncp_write i g 1 (ncp st) |}.
Proof.
  intros Hl Hi [Hf [Hnd Hb]] Hm g' j. cbn [subs ncp].
  rewrite dict_set_absent by exact Hl. unfold ncp_write.
  destruct (N.eq_dec j i) as [Heq | Hne].
  - subst j. rewrite nth_error_upd_eq by (apply Hb; apply in_or_app; left; exact Hi).
    split.
    + intros Hin. apply in_app_or in Hin. destruct Hin as [Hin | Hin].
      * exfalso. apply (NoDup_app_disj _ _ i Hnd Hi). unfold used. apply in_map_iff.
        exists (g', i). split; [reflexivity | exact Hin].
      * destruct Hin as [E | []]. injection E as E. subst g'.
        exists 1. split; [reflexivity | discriminate].
    + intros [ep [E _]]. injection E as E _. subst g'.
      apply in_or_app. right. left. reflexivity.
  - rewrite nth_error_upd_neq
      by (intros E; apply Hne; apply N2Nat.inj; symmetry; exact E).
    rewrite <- (Hm g' j). split.
    + intros Hin. apply in_app_or in Hin. destruct Hin as [Hin | [E | []]]; [exact Hin|].
      injection E as _ E. exfalso. apply Hne. symmetry. exact E.
    + intros Hin. apply in_or_app. left. exact Hin.
Qed.

Lemma unsubscribe_ok_mirror st g i :
  lookup g (subs st) = Some i -> wf st -> mirror st ->
  mirror {| subs := dict_del g (subs st); avail := set_add i (avail st);
            ncp := ncp_write i g 0 (ncp st) |}.
Proof.
  intros Hl [Hf [Hnd Hb]] Hm g' j. cbn [subs ncp]. unfold ncp_write.
  pose proof (lookup_some_perm _ _ _ Hl) as Hp.
  assert (Hu : NoDup (i :: map snd (dict_del g (subs st)))).
  { apply (Permutation_NoDup (Permutation_map snd Hp)). apply (NoDup_app_r _ _ Hnd). }
  apply NoDup_cons_iff in Hu. destruct Hu as [Hni _].
  destruct (N.eq_dec j i) as [Heq | Hne].
  - subst j. split.
    + intros Hin. exfalso. apply Hni. apply in_map_iff.
      exists (g', i). split; [reflexivity | exact Hin].
    + intros [ep [E Hep]]. exfalso. rewrite nth_error_upd_eq in E.
      * injection E as _ E. apply Hep. symmetry. exact E.
      * apply Hb. apply in_or_app. right. unfold used. apply in_map_iff.
        exists (g, i). split; [reflexivity | apply lookup_some_in; exact Hl].
  - rewrite nth_error_upd_neq
      by (intros E; apply Hne; apply N2Nat.inj; symmetry; exact E).
    rewrite <- (Hm g' j). split.
    + intros Hin. apply (Permutation_in _ (Permutation_sym Hp)). right. exact Hin.
    + intros Hin. apply (Permutation_in _ Hp) in Hin. destruct Hin as [E | Hin]; [|exact Hin].
      injection E as _ E. exfalso. apply Hne. symmetry. exact E.
Qed.

Lemma mirror_step : forall st o, is_call o -> answered o ->
  wf st -> mirror st -> mirror (st_of (step st o)).
Proof.
  intros st o Hc Ha Hwf Hm. unfold st_of, step.
  destruct o as [ss rs | g c a | g a]; [destruct Hc | |].
  - destruct a as [s | |]; [|destruct Ha|destruct Ha].
    destruct (lookup g (subs st)) as [i0|] eqn:El; [exact Hm|].
    destruct (pick c (avail st)) as [i|] eqn:Ep; [|exact Hm].
    destruct (status_ok s); cbn [fst]; [|exact Hm].
    apply subscribe_ok_mirror; try assumption. eapply pick_in. exact Ep.
  - destruct a as [s | |]; [|destruct Ha|destruct Ha].
    destruct (lookup g (subs st)) as [i|] eqn:El; [|exact Hm].
    destruct (status_ok s); cbn [fst]; [|exact Hm].
    apply unsubscribe_ok_mirror; assumption.
Qed.

(* ---- the start-up scan -------------------------------------------------------------------- *)
(* what the scan has established after reading the prefix [pre] of the table *)
Definition inv (pre s : list (N * N)) (a : list N) : Prop :=
  wf {| subs := s; avail := a; ncp := pre |} /\
  full_partition {| subs := s; avail := a; ncp := pre |} /\
  mirror {| subs := s; avail := a; ncp := pre |}.

Lemma inv_nil : inv [] [] [].
Proof.
  unfold inv, wf, full_partition, mirror, used; cbn [subs avail ncp map app length].
  split; [split; [constructor | split; [constructor | intros i []]] | split; [reflexivity|]].
  intros g i. split; [intros [] | intros [ep [E _]]].
  destruct (N.to_nat i); discriminate.
Qed.

Lemma inv_fresh pre s a : inv pre s a -> ~ In (N.of_nat (length pre)) (a ++ map snd s).
Proof.
  unfold inv, wf, used; cbn [subs avail ncp].
  intros [[_ [_ Hb]] _] Hin. apply Hb in Hin. rewrite Nat2N.id in Hin. lia.
Qed.

Lemma inv_free pre s a g :
  inv pre s a -> inv (pre ++ [(g, 0)]) s (set_add (N.of_nat (length pre)) a).
Proof.
  intros Hinv. pose proof (inv_fresh _ _ _ Hinv) as Hfr. revert Hinv.
  unfold inv, wf, full_partition, mirror, used; cbn [subs avail ncp].
  intros [[Hf [Hnd Hb]] [Hfull Hm]].
  rewrite set_add_notin by (intros Hin; apply Hfr; apply in_or_app; left; exact Hin).
  rewrite !app_length. cbn [length].
  split; [split; [exact Hf | split] | split].
  - rewrite <- app_assoc. cbn [app].
    apply (Permutation_NoDup (Permutation_middle _ _ _)). constructor; assumption.
  - intros j Hj. rewrite <- app_assoc in Hj. cbn [app] in Hj.
    apply (Permutation_in _ (Permutation_sym (Permutation_middle _ _ _))) in Hj.
    destruct Hj as [Hj | Hj].
    + subst j. rewrite Nat2N.id. lia.
    + apply Hb in Hj. lia.
  - lia.
  - intros g' j. rewrite Hm. split; intros [ep [E Hep]]; exists ep; (split; [|exact Hep]).
    + rewrite nth_error_app1; [exact E|]. apply nth_error_Some. rewrite E. discriminate.
    + destruct (Nat.lt_ge_cases (N.to_nat j) (length pre)) as [Hlt | Hge].
      * rewrite nth_error_app1 in E by exact Hlt. exact E.
      * exfalso. rewrite nth_error_app2 in E by exact Hge.
        destruct (N.to_nat j - length pre)%nat as [|k]; cbn [nth_error] in E.
        -- injection E as _ E. apply Hep. symmetry. exact E.
        -- destruct k; discriminate.
Qed.

Lemma inv_used pre s a g ep :
  ep <> 0 -> ~ In g (map fst (filter (fun e => negb (snd e =? 0)) pre)) ->
  inv pre s a -> inv (pre ++ [(g, ep)]) (dict_set g (N.of_nat (length pre)) s) a.
Proof.
  intros Hep Hg Hinv. pose proof (inv_fresh _ _ _ Hinv) as Hfr. revert Hinv.
  unfold inv, wf, full_partition, mirror, used; cbn [subs avail ncp].
  intros [[Hf [Hnd Hb]] [Hfull Hm]].
  assert (Hl : lookup g s = None).
  { apply notin_lookup_none. intros Hin. apply in_map_iff in Hin.
    destruct Hin as [[g0 j] [Hg0 Hin]]. cbn [fst] in Hg0. subst g0.
    apply Hm in Hin. destruct Hin as [ep' [E Hep']].
    apply Hg. apply in_map_iff. exists (g, ep'). split; [reflexivity|].
    apply filter_In. split; [eapply nth_error_In; exact E|].
    cbn [snd]. apply negb_true_iff. apply N.eqb_neq. exact Hep'. }
  rewrite dict_set_absent by exact Hl. rewrite !map_app, !app_length. cbn [map fst snd length].
  split; [split; [| split] | split].
  - apply (Permutation_NoDup (Permutation_cons_append _ _)).
    constructor; [apply lookup_none; exact Hl | exact Hf].
  - rewrite app_assoc. apply (Permutation_NoDup (Permutation_cons_append _ _)).
    constructor; assumption.
  - intros j Hj. rewrite app_assoc in Hj. apply in_app_or in Hj.
    destruct Hj as [Hj | [Hj | []]].
    + apply Hb in Hj. lia.
    + subst j. rewrite Nat2N.id. lia.
  - lia.
  - intros g' j. split.
    + intros Hin. apply in_app_or in Hin. destruct Hin as [Hin | [E | []]].
      * apply Hm in Hin. destruct Hin as [ep' [E Hep']]. exists ep'. split; [|exact Hep'].
        rewrite nth_error_app1; [exact E|]. apply nth_error_Some. rewrite E. discriminate.
      * injection E as Eg Ej. subst g' j. exists ep. split; [|exact Hep].
        rewrite Nat2N.id. rewrite nth_error_app2 by lia. rewrite Nat.sub_diag. reflexivity.
    + intros [ep' [E Hep']]. apply in_or_app.
      destruct (Nat.lt_ge_cases (N.to_nat j) (length pre)) as [Hlt | Hge].
      * left. apply Hm. exists ep'. rewrite nth_error_app1 in E by exact Hlt. split; assumption.
      * right. left. rewrite nth_error_app2 in E by exact Hge.
        destruct (N.to_nat j - length pre)%nat as [|k] eqn:Ek; cbn [nth_error] in E.
        -- injection E as Eg _. subst g'. f_equal.
           apply N2Nat.inj. rewrite Nat2N.id. lia.
        -- destruct k; discriminate.
Qed.

Lemma scan_inv : forall es pre rs s a,
  Forall (fun r => status_ok r = true) rs -> distinct_groups (pre ++ es) -> inv pre s a ->
  inv (pre ++ es) (fst (scan (N.of_nat (length pre)) es rs s a))
                  (snd (scan (N.of_nat (length pre)) es rs s a)).
Proof.
  induction es as [|[g ep] es IH]; intros pre rs s a Hrs Hd Hinv.
  - rewrite app_nil_r. exact Hinv.
  - assert (Hr : status_ok (hd 0 rs) = true).
    { destruct Hrs as [|r rs' Hr _]; [exact status_ok_0 | exact Hr]. }
    assert (Hrs' : Forall (fun r => status_ok r = true) (tl rs)).
    { destruct Hrs as [|r rs' _ Hrs']; [constructor | exact Hrs']. }
    assert (Hi : N.of_nat (length pre) + 1 = N.of_nat (length (pre ++ [(g, ep)]))).
    { rewrite app_length. cbn [length]. lia. }
    assert (Hcat : pre ++ (g, ep) :: es = (pre ++ [(g, ep)]) ++ es).
    { rewrite <- app_assoc. reflexivity. }
    cbn [scan]. cbv zeta. rewrite Hr, Hi, Hcat.
    destruct (ep =? 0) eqn:E.
    + apply N.eqb_eq in E. subst ep. rewrite Hcat in Hd.
      apply IH; [exact Hrs' | exact Hd | apply inv_free; exact Hinv].
    + apply N.eqb_neq in E.
      apply IH; [exact Hrs' | rewrite <- Hcat; exact Hd | apply inv_used; [exact E | | exact Hinv]].
      unfold distinct_groups in Hd. rewrite filter_app, map_app in Hd. cbn [filter snd] in Hd.
      rewrite (proj2 (N.eqb_neq ep 0) E) in Hd. cbn [negb map fst] in Hd.
      apply NoDup_remove_2 in Hd. intros Hin. apply Hd. apply in_or_app. left. exact Hin.
Qed.

Lemma startup_establishes : forall s0 a0 t ss rs,
  distinct_groups t -> status_ok ss = true -> Forall (fun r => status_ok r = true) rs ->
  let st := st_of (step {| subs := s0; avail := a0; ncp := t |} (Init ss rs)) in
  wf st /\ full_partition st /\ mirror st.
Proof.
  intros s0 a0 t ss rs Hd Hss Hrs st. unfold st, st_of, step. rewrite Hss. cbn [ncp].
  pose proof (scan_inv t [] rs [] [] Hrs Hd inv_nil) as H. cbn [app length N.of_nat] in H.
  destruct (scan 0 t rs [] []) as [s a]. cbn [fst snd] in H |- *. exact H.
Qed.

(* ---- every reachable state ---------------------------------------------------------------- *)
Lemma run_calls : forall ops st, Forall is_call ops -> wf st -> full_partition st ->
  wf (run st ops) /\ full_partition (run st ops) /\
  (mirror st -> Forall answered ops -> mirror (run st ops)).
Proof.
  induction ops as [|o ops IH]; intros st Hc Hwf Hfull; cbn [run].
  - split; [exact Hwf | split; [exact Hfull | intros Hm _; exact Hm]].
  - inversion Hc as [|o' ops' Ho Hops]; subst o' ops'.
    destruct (partition_step st o Ho Hwf Hfull) as [Hwf' Hfull'].
    destruct (IH _ Hops Hwf' Hfull') as [H1 [H2 H3]].
    split; [exact H1 | split; [exact H2|]].
    intros Hm Ha. inversion Ha as [|o' ops' Hao Haops]; subst o' ops'.
    apply H3; [apply mirror_step; assumption | exact Haops].
Qed.

Lemma reachable : forall t ss rs ops,
  distinct_groups t -> status_ok ss = true -> Forall (fun r => status_ok r = true) rs ->
  Forall is_call ops ->
  let st := run {| subs := []; avail := []; ncp := t |} (Init ss rs :: ops) in
  wf st /\ full_partition st /\ (Forall answered ops -> mirror st).
Proof.
  intros t ss rs ops Hd Hss Hrs Hc st. unfold st. cbn [run].
  destruct (startup_establishes [] [] t ss rs Hd Hss Hrs) as [Hwf [Hfull Hm]].
  destruct (run_calls ops _ Hc Hwf Hfull) as [H1 [H2 H3]].
  split; [exact H1 | split; [exact H2|]]. intros Ha. apply H3; assumption.
Qed.

(* ---- single calls ------------------------------------------------------------------------- *)
Lemma subscribe_idempotent : forall st g c a i,
  lookup g (subs st) = Some i -> step st (Subscribe g c a) = (st, RStatus sl_OK, None).
Proof.
  intros st g c a i Hl. unfold step. rewrite Hl. reflexivity.
Qed.

Lemma subscribe_full : forall st g c a,
  lookup g (subs st) = None -> avail st = [] ->
  step st (Subscribe g c a) = (st, RStatus INVALID_INDEX, None) /\ failed (RStatus INVALID_INDEX).
Proof.
  intros st g c a Hl Ha. split.
  - unfold step. rewrite Hl, Ha. reflexivity.
  - right. exists INVALID_INDEX. split; [reflexivity | exact status_ok_invalid_index].
Qed.

Lemma fail_keeps_free : forall st o, is_call o ->
  failed (snd (fst (step st o))) ->
  length (avail (st_of (step st o))) = length (avail st).
Proof.
  intros st o Hc Hf. unfold st_of, step in *.
  destruct o as [ss rs | g c a | g a]; [destruct Hc | |].
  - destruct (lookup g (subs st)) as [i0|]; [reflexivity|].
    destruct (pick c (avail st)) as [i|]; [|reflexivity].
    destruct a as [s | |]; try reflexivity.
    destruct (status_ok s) eqn:Es; [|reflexivity].
    exfalso. cbn [fst snd] in Hf. destruct Hf as [Hf | [s' [E Hs']]]; [discriminate|].
    injection E as E. subst s'. congruence.
  - destruct (lookup g (subs st)) as [i|]; [|reflexivity].
    destruct a as [s | |]; try reflexivity.
    destruct (status_ok s) eqn:Es; [|reflexivity].
    exfalso. cbn [fst snd] in Hf. destruct Hf as [Hf | [s' [E Hs']]]; [discriminate|].
    injection E as E. subst s'. congruence.
Qed.
