(* Proofs for C14 (props/C14.v): zha_security flag/keys facts and the write / read round trip of
   the network settings through the modelled NCP store (model/NetInfo.v), versions 4..14. *)
From Coq Require Import String ZArith NArith List Bool Lia ZifyBool ZifyN ZifyNat.
Import ListNotations.
Require Import BV.gen.GenSecurity BV.model.NetInfo.
Open Scope N_scope.

(* the admissible inputs: link-key partners distinct and no more keys than the table holds; at most
   256 children; from v5 on the trust-centre link key is the well-known one (see c14_tclk_refuted) *)
Definition admissible (v key_size : N) (ni : netinfo) : Prop :=
  NoDup (map fst (link_keys ni)) /\ (List.length (link_keys ni) <= N.to_nat key_size)%nat /\
  (List.length (known_children ni) <= 256)%nat /\ (4 < v -> tclk ni = WELL_KNOWN_TCLK).

(* ---- zha_security ------------------------------------------------------------------------------- *)
Lemma hashed_flag : forall ni u h,
  has_bits (s_bitmask (zha_security ni u h)) (ibit "TRUST_CENTER_USES_HASHED_LINK_KEY") = u.
Proof.
  intros ni u h. unfold zha_security; cbn [s_bitmask].
  destruct (tc_address ni) as [a|]; destruct u; vm_compute; reflexivity.
Qed.

Lemma security_state : forall ni use_hashed hashed,
  let s := zha_security ni use_hashed hashed in
  s_network_key s = nwk_key ni /\ s_seq s = nwk_key_seq ni /\
  s_preconfigured s = (if use_hashed then hashed else tclk ni) /\
  (has_bits (s_bitmask s) (ibit "HAVE_TRUST_CENTER_EUI64") = true <-> tc_address ni <> None) /\
  (forall a, tc_address ni = Some a -> s_tc_eui64 s = a) /\
  (has_bits (s_bitmask s) (ibit "TRUST_CENTER_USES_HASHED_LINK_KEY") = use_hashed) /\
  has_bits (s_bitmask s) (ibit "HAVE_PRECONFIGURED_KEY") = true /\
  has_bits (s_bitmask s) (ibit "HAVE_NETWORK_KEY") = true /\
  has_bits (s_bitmask s) (ibit "TRUST_CENTER_GLOBAL_LINK_KEY") = true.
Proof.
  intros ni use_hashed hashed s. subst s.
  split; [reflexivity|]. split; [reflexivity|]. split; [reflexivity|].
  split.
  { unfold zha_security; cbn [s_bitmask].
    destruct (tc_address ni) as [a|]; destruct use_hashed; split; intro H.
    - discriminate.
    - vm_compute; reflexivity.
    - discriminate.
    - vm_compute; reflexivity.
    - vm_compute in H; discriminate H.
    - exfalso; apply H; reflexivity.
    - vm_compute in H; discriminate H.
    - exfalso; apply H; reflexivity. }
  split.
  { intros a Ha. unfold zha_security; cbn [s_tc_eui64]. rewrite Ha. reflexivity. }
  split; [apply hashed_flag|].
  unfold zha_security; cbn [s_bitmask].
  destruct (tc_address ni) as [a|]; destruct use_hashed; repeat split; vm_compute; reflexivity.
Qed.

(* ---- indexed tables: a table represents the list l when index i holds the i-th element ------------ *)
Definition Rep {A} (tbl : list (N * A)) (l : list A) : Prop :=
  forall i, idx_get i tbl = nth_error l (N.to_nat i).

Definition Sub {A} (tbl : list (N * A)) (l : list A) : Prop :=
  forall j e, In (j, e) tbl -> In e l.

Lemma Rep_nil : forall A, @Rep A [] [].
Proof. intros A i. cbn [idx_get]. destruct (N.to_nat i); reflexivity. Qed.

Lemma idx_get_set : forall A (tbl : list (N * A)) i x j,
  idx_get j (idx_set i x tbl) = if i =? j then Some x else idx_get j tbl.
Proof.
  intros A tbl i x j. induction tbl as [|[k y] tbl IH]; cbn [idx_set idx_get].
  - reflexivity.
  - destruct (k =? i) eqn:Hki.
    + apply N.eqb_eq in Hki. subst k. cbn [idx_get]. destruct (i =? j); reflexivity.
    + cbn [idx_get]. rewrite IH. destruct (k =? j) eqn:Hkj; [|reflexivity].
      apply N.eqb_eq in Hkj. subst k. rewrite N.eqb_sym in Hki. rewrite Hki. reflexivity.
Qed.

Lemma In_idx_set : forall A (tbl : list (N * A)) i x j e,
  In (j, e) (idx_set i x tbl) -> (j, e) = (i, x) \/ In (j, e) tbl.
Proof.
  intros A tbl i x j e. induction tbl as [|[k y] tbl IH]; cbn [idx_set]; intro H.
  - destruct H as [H|[]]. left. symmetry. exact H.
  - destruct (k =? i).
    + destruct H as [H|H]; [left; symmetry; exact H | right; right; exact H].
    + destruct H as [H|H]; [right; left; exact H|].
      destruct (IH H) as [H'|H']; [left; exact H' | right; right; exact H'].
Qed.

Lemma nth_error_snoc : forall A (l : list A) x n,
  nth_error (l ++ [x]) n = if Nat.eqb n (length l) then Some x else nth_error l n.
Proof.
  intros A l x. induction l as [|a l IH]; intros n.
  - destruct n as [|n]; cbn; [reflexivity|]. destruct n; reflexivity.
  - destruct n as [|n]; cbn [app nth_error length Nat.eqb]; [reflexivity|]. apply IH.
Qed.

Lemma Rep_snoc : forall A (tbl : list (N * A)) l x,
  Rep tbl l -> Rep (idx_set (N.of_nat (length l)) x tbl) (l ++ [x]).
Proof.
  intros A tbl l x HR i. rewrite idx_get_set, nth_error_snoc, HR.
  destruct (N.of_nat (length l) =? i) eqn:E1; destruct (Nat.eqb (N.to_nat i) (length l)) eqn:E2;
    try reflexivity.
  - apply N.eqb_eq in E1. apply Nat.eqb_neq in E2. lia.
  - apply N.eqb_neq in E1. apply Nat.eqb_eq in E2. lia.
Qed.

Lemma Sub_snoc : forall A (tbl : list (N * A)) l i x,
  Sub tbl l -> Sub (idx_set i x tbl) (l ++ [x]).
Proof.
  intros A tbl l i x HS j e H. apply In_idx_set in H. apply in_or_app. destruct H as [H|H].
  - right. injection H as _ He. subst e. left. reflexivity.
  - left. apply (HS j), H.
Qed.

Lemma skipn_nth : forall A (l : list A) n x,
  nth_error l n = Some x -> skipn n l = x :: skipn (S n) l.
Proof.
  intros A l. induction l as [|a l IH]; intros n x H.
  - destruct n; discriminate H.
  - destruct n as [|n].
    + cbn in H. injection H as H. subst a. reflexivity.
    + cbn [nth_error] in H. change (skipn (S n) (a :: l)) with (skipn n l).
      change (skipn (S (S n)) (a :: l)) with (skipn (S n) l). apply IH, H.
Qed.

(* reading a table back in index order *)
Lemma table_read : forall A (tbl : list (N * A)) l size,
  Rep tbl l -> (length l <= N.to_nat size)%nat ->
  forall fuel i, (N.to_nat size - N.to_nat i < fuel)%nat ->
  table_in_order fuel i size tbl = skipn (N.to_nat i) l.
Proof.
  intros A tbl l size HR Hlen fuel. induction fuel as [|f IH]; intros i Hf.
  - lia.
  - cbn [table_in_order]. destruct (size <=? i) eqn:E.
    + apply N.leb_le in E. symmetry. apply skipn_all2. lia.
    + apply N.leb_gt in E. rewrite HR.
      destruct (nth_error l (N.to_nat i)) as [x|] eqn:En.
      * rewrite (skipn_nth _ _ _ _ En). f_equal. rewrite IH by lia.
        replace (N.to_nat (i + 1)) with (S (N.to_nat i)) by lia. reflexivity.
      * rewrite IH by lia. apply nth_error_None in En. rewrite !skipn_all2 by lia. reflexivity.
Qed.

(* ---- addOrUpdateKeyTableEntry: partner lookup and first free index --------------------------------- *)
Lemma bytes_eqb_eq : forall a b, bytes_eqb a b = true -> a = b.
Proof.
  induction a as [|x a IH]; intros [|y b] H; cbn in H; try discriminate H.
  - reflexivity.
  - apply andb_true_iff in H. destruct H as [H1 H2]. apply N.eqb_eq in H1. subst y.
    f_equal. apply IH, H2.
Qed.

Lemma find_partner_none : forall p tbl l,
  Sub tbl l -> ~ In p (map fst l) -> find_partner p tbl = None.
Proof.
  intros p tbl l HS Hn. induction tbl as [|[j [q k]] tbl IH]; cbn [find_partner]; [reflexivity|].
  destruct (bytes_eqb q p) eqn:E.
  - exfalso. apply Hn. apply bytes_eqb_eq in E. subst q.
    apply (in_map fst l (p, k)). apply (HS j). left. reflexivity.
  - apply IH. intros j' e H. apply (HS j'). right. exact H.
Qed.

Lemma first_free_rep : forall tbl l size,
  Rep tbl l -> (length l < N.to_nat size)%nat ->
  forall fuel i, (N.to_nat i <= length l)%nat -> (length l - N.to_nat i < fuel)%nat ->
  first_free fuel i tbl size = Some (N.of_nat (length l)).
Proof.
  intros tbl l size HR Hlt fuel. induction fuel as [|f IH]; intros i Hi Hf; [lia|].
  cbn [first_free]. destruct (size <=? i) eqn:E; [apply N.leb_le in E; lia|].
  rewrite HR. destruct (nth_error l (N.to_nat i)) as [x|] eqn:En.
  - assert (Hb : (N.to_nat i < length l)%nat) by (apply nth_error_Some; rewrite En; discriminate).
    apply IH; lia.
  - apply nth_error_None in En. f_equal. lia.
Qed.

(* ---- frame: each segment of the plan only touches its own table ------------------------------------ *)
Definition with_keys (st : ncp) (T : list (N * (bytes * bytes))) : ncp :=
  {| n_params := n_params st; n_sec := n_sec st; n_nwk_fc := n_nwk_fc st; n_aps_fc := n_aps_fc st;
     n_keys := T; n_key_size := n_key_size st; n_children := n_children st |}.
Definition with_children (st : ncp) (C : list (N * (bytes * N))) : ncp :=
  {| n_params := n_params st; n_sec := n_sec st; n_nwk_fc := n_nwk_fc st; n_aps_fc := n_aps_fc st;
     n_keys := n_keys st; n_key_size := n_key_size st; n_children := C |}.

Lemma keys_by_address : forall rest done st,
  Rep (n_keys st) done -> Sub (n_keys st) done -> NoDup (map fst (done ++ rest)) ->
  (length (done ++ rest) <= N.to_nat (n_key_size st))%nat ->
  exists T, fold_left apply_wop (map (fun k => WKeyByAddress (fst k) (snd k)) rest) st = with_keys st T
            /\ Rep T (done ++ rest).
Proof.
  induction rest as [|[p k] rest IH]; intros done st HR HS Hnd Hlen.
  - exists (n_keys st). split; [destruct st; reflexivity|]. rewrite app_nil_r. exact HR.
  - cbn [map fold_left fst snd].
    assert (Hnp : ~ In p (map fst done)).
    { rewrite map_app in Hnd. cbn [map fst] in Hnd. apply NoDup_remove_2 in Hnd.
      intro H. apply Hnd. apply in_or_app. left. exact H. }
    assert (Hlt : (length done < N.to_nat (n_key_size st))%nat).
    { rewrite app_length in Hlen. cbn [length] in Hlen. lia. }
    assert (Hst : apply_wop st (WKeyByAddress p k)
                  = with_keys st (idx_set (N.of_nat (length done)) (p, k) (n_keys st))).
    { unfold apply_wop. rewrite (find_partner_none p _ done HS Hnp).
      rewrite (first_free_rep _ done _ HR Hlt) by (cbn; lia). reflexivity. }
    rewrite Hst.
    destruct (IH (done ++ [(p, k)])
                 (with_keys st (idx_set (N.of_nat (length done)) (p, k) (n_keys st))))
      as [T [HT HRT]].
    + cbn [with_keys n_keys]. apply Rep_snoc, HR.
    + cbn [with_keys n_keys]. apply Sub_snoc, HS.
    + rewrite <- app_assoc. exact Hnd.
    + rewrite <- app_assoc. cbn [with_keys n_key_size]. exact Hlen.
    + exists T. split; [rewrite HT; reflexivity|]. rewrite <- app_assoc in HRT. exact HRT.
Qed.

Lemma keys_at : forall rest done st,
  Rep (n_keys st) done -> (length (done ++ rest) <= N.to_nat (n_key_size st))%nat ->
  exists T, fold_left apply_wop
              (map (fun x => WKeyAt (fst x) (fst (snd x)) (snd (snd x)))
                   (enumerate (N.of_nat (length done)) rest)) st = with_keys st T
            /\ Rep T (done ++ rest).
Proof.
  induction rest as [|[p k] rest IH]; intros done st HR Hlen.
  - exists (n_keys st). split; [destruct st; reflexivity|]. rewrite app_nil_r. exact HR.
  - cbn [enumerate map fold_left fst snd].
    assert (Hlt : N.of_nat (length done) <? n_key_size st = true).
    { apply N.ltb_lt. rewrite app_length in Hlen. cbn [length] in Hlen. lia. }
    assert (Hst : apply_wop st (WKeyAt (N.of_nat (length done)) p k)
                  = with_keys st (idx_set (N.of_nat (length done)) (p, k) (n_keys st))).
    { unfold apply_wop. rewrite Hlt. reflexivity. }
    rewrite Hst.
    replace (N.of_nat (length done) + 1) with (N.of_nat (length (done ++ [(p, k)])))
      by (rewrite app_length; cbn [length]; lia).
    destruct (IH (done ++ [(p, k)])
                 (with_keys st (idx_set (N.of_nat (length done)) (p, k) (n_keys st))))
      as [T [HT HRT]].
    + cbn [with_keys n_keys]. apply Rep_snoc, HR.
    + rewrite <- app_assoc. cbn [with_keys n_key_size]. exact Hlen.
    + exists T. split; [rewrite HT; reflexivity|]. rewrite <- app_assoc in HRT. exact HRT.
Qed.

Lemma children_at : forall rest done st,
  Rep (n_children st) done ->
  exists C, fold_left apply_wop
              (map (fun x => WChild (fst x) (fst (snd x)) (snd (snd x)))
                   (enumerate (N.of_nat (length done)) rest)) st = with_children st C
            /\ Rep C (done ++ rest).
Proof.
  induction rest as [|[e a] rest IH]; intros done st HR.
  - exists (n_children st). split; [destruct st; reflexivity|]. rewrite app_nil_r. exact HR.
  - cbn [enumerate map fold_left fst snd].
    assert (Hst : apply_wop st (WChild (N.of_nat (length done)) e a)
                  = with_children st (idx_set (N.of_nat (length done)) (e, a) (n_children st)))
      by reflexivity.
    rewrite Hst.
    replace (N.of_nat (length done) + 1) with (N.of_nat (length (done ++ [(e, a)])))
      by (rewrite app_length; cbn [length]; lia).
    destruct (IH (done ++ [(e, a)])
                 (with_children st (idx_set (N.of_nat (length done)) (e, a) (n_children st))))
      as [C [HC HRC]].
    + cbn [with_children n_children]. apply Rep_snoc, HR.
    + exists C. split; [rewrite HC; reflexivity|]. rewrite <- app_assoc in HRC. exact HRC.
Qed.

(* ---- the plan, segment by segment ------------------------------------------------------------------ *)
Definition plan_ctr (v : N) (ni : netinfo) : list wop :=
  if 4 <? v then [WNwkFc (nwk_key_fc ni); WApsFc (tclk_fc ni)] else [].
Definition plan_keys (v : N) (ni : netinfo) : list wop :=
  if v <? 13 then map (fun k => WKeyByAddress (fst k) (snd k)) (link_keys ni)
  else map (fun x => WKeyAt (fst x) (fst (snd x)) (snd (snd x))) (enumerate 0 (link_keys ni)).
Definition plan_children (v : N) (ni : netinfo) : list wop :=
  if v <? 9 then []
  else map (fun x => WChild (fst x) (fst (snd x)) (snd (snd x))) (enumerate 0 (known_children ni)).
Definition params_of (ni : netinfo) : netparams :=
  {| p_pan := pan_id ni; p_epan := ext_pan_id ni; p_channel := channel ni; p_mask := channel_mask ni;
     p_update := update_id ni; p_manager := manager_id ni |}.
Definition sec_of (v : N) (ni : netinfo) (rh : bytes) : secstate :=
  zha_security ni (4 <? v) (match hashed_tclk ni with Some h => h | None => rh end).

Lemma plan_split : forall v ni rh,
  write_plan v ni rh =
  plan_ctr v ni ++ [WSecurity (sec_of v ni rh)] ++ plan_keys v ni ++ plan_children v ni
  ++ [WForm (params_of ni)].
Proof. reflexivity. Qed.

(* from any start store with empty key and child tables (whatever its network, security state and
   frame counters): the counters are overwritten exactly when the version can store them *)
Lemma sec_stage : forall v ni st0 s,
  n_keys st0 = [] -> n_children st0 = [] ->
  fold_left apply_wop [WSecurity s] (fold_left apply_wop (plan_ctr v ni) st0) =
  {| n_params := n_params st0; n_sec := Some s;
     n_nwk_fc := if 4 <? v then nwk_key_fc ni else n_nwk_fc st0;
     n_aps_fc := if 4 <? v then tclk_fc ni else n_aps_fc st0;
     n_keys := []; n_key_size := n_key_size st0; n_children := [] |}.
Proof.
  intros v ni st0 s Hk Hc. destruct st0 as [a b c d e f g]. cbn [n_keys n_children] in Hk, Hc.
  subst e g. unfold plan_ctr. destruct (4 <? v); reflexivity.
Qed.

Lemma keys_stage : forall v ni st,
  n_keys st = [] -> NoDup (map fst (link_keys ni)) ->
  (length (link_keys ni) <= N.to_nat (n_key_size st))%nat ->
  exists T, fold_left apply_wop (plan_keys v ni) st = with_keys st T /\ Rep T (link_keys ni).
Proof.
  intros v ni st Hk Hnd Hlen. unfold plan_keys. destruct (v <? 13).
  - apply (keys_by_address (link_keys ni) [] st).
    + rewrite Hk. apply Rep_nil.
    + rewrite Hk. intros j e H. destruct H.
    + exact Hnd.
    + exact Hlen.
  - apply (keys_at (link_keys ni) [] st).
    + rewrite Hk. apply Rep_nil.
    + exact Hlen.
Qed.

Lemma children_stage : forall v ni st,
  n_children st = [] ->
  exists C, fold_left apply_wop (plan_children v ni) st = with_children st C
            /\ (9 <= v -> Rep C (known_children ni)).
Proof.
  intros v ni st Hc. unfold plan_children. destruct (v <? 9) eqn:E.
  - exists []. split.
    + destruct st as [a b c d e f g]. cbn [n_children] in Hc. subst g. reflexivity.
    + intro H. apply N.ltb_lt in E. lia.
  - destruct (children_at (known_children ni) [] st) as [C [HC HR]].
    + rewrite Hc. apply Rep_nil.
    + exists C. split; [exact HC|]. intros _. exact HR.
Qed.

(* the store after the whole plan, from any start store with empty key and child tables *)
Lemma written_from_char : forall v ni rh st0,
  n_keys st0 = [] -> n_children st0 = [] ->
  NoDup (map fst (link_keys ni)) -> (length (link_keys ni) <= N.to_nat (n_key_size st0))%nat ->
  exists T C,
    fold_left apply_wop (write_plan v ni rh) st0 =
    {| n_params := Some (params_of ni); n_sec := Some (sec_of v ni rh);
       n_nwk_fc := if 4 <? v then nwk_key_fc ni else n_nwk_fc st0;
       n_aps_fc := if 4 <? v then tclk_fc ni else n_aps_fc st0;
       n_keys := T; n_key_size := n_key_size st0; n_children := C |}
    /\ Rep T (link_keys ni) /\ (9 <= v -> Rep C (known_children ni)).
Proof.
  intros v ni rh st0 Hk0 Hc0 Hnd Hlen.
  rewrite plan_split, !fold_left_app, (sec_stage v ni st0 _ Hk0 Hc0).
  match goal with |- context [fold_left apply_wop (plan_keys v ni) ?st] =>
    destruct (keys_stage v ni st eq_refl Hnd Hlen) as [T [HT HRT]] end.
  rewrite HT.
  match goal with |- context [fold_left apply_wop (plan_children v ni) ?st] =>
    destruct (children_stage v ni st eq_refl) as [C [HC HRC]] end.
  rewrite HC. exists T, C. split; [reflexivity|]. split; assumption.
Qed.

Lemma written_char : forall v ks ni rh,
  NoDup (map fst (link_keys ni)) -> (length (link_keys ni) <= N.to_nat ks)%nat ->
  exists T C,
    written v ks ni rh =
    {| n_params := Some (params_of ni); n_sec := Some (sec_of v ni rh);
       n_nwk_fc := if 4 <? v then nwk_key_fc ni else 0; n_aps_fc := if 4 <? v then tclk_fc ni else 0;
       n_keys := T; n_key_size := ks; n_children := C |}
    /\ Rep T (link_keys ni) /\ (9 <= v -> Rep C (known_children ni)).
Proof.
  intros v ks ni rh Hnd Hlen. unfold written.
  exact (written_from_char v ni rh (ncp_blank ks) eq_refl eq_refl Hnd Hlen).
Qed.

Lemma written_after_char : forall v ks pn pa ni rh,
  NoDup (map fst (link_keys ni)) -> (length (link_keys ni) <= N.to_nat ks)%nat ->
  exists T C,
    written_after v ks pn pa ni rh =
    {| n_params := Some (params_of ni); n_sec := Some (sec_of v ni rh);
       n_nwk_fc := if 4 <? v then nwk_key_fc ni else if 13 <=? v then 0 else pn;
       n_aps_fc := if 4 <? v then tclk_fc ni else if 13 <=? v then 0 else pa;
       n_keys := T; n_key_size := ks; n_children := C |}
    /\ Rep T (link_keys ni) /\ (9 <= v -> Rep C (known_children ni)).
Proof.
  intros v ks pn pa ni rh Hnd Hlen. unfold written_after.
  exact (written_from_char v ni rh (ncp_after_reset v ks pn pa) eq_refl eq_refl Hnd Hlen).
Qed.

(* ---- the round trip --------------------------------------------------------------------------------- *)
(* from any start store with empty key and child tables; [roundtrip] (blank adapter) and
   [roundtrip_after] (adapter that held another network before) are instances *)
Lemma roundtrip_from : forall v ni rh st0, 4 <= v -> v <= 14 ->
  n_keys st0 = [] -> n_children st0 = [] -> admissible v (n_key_size st0) ni ->
  exists r, read_back v (fold_left apply_wop (write_plan v ni rh) st0) = Some r /\
    pan_id r = pan_id ni /\ ext_pan_id r = ext_pan_id ni /\ channel r = channel ni /\
    channel_mask r = channel_mask ni /\ update_id r = update_id ni /\
    nwk_key r = nwk_key ni /\ nwk_key_seq r = nwk_key_seq ni /\
    tclk r = tclk ni /\
    link_keys r = link_keys ni /\
    (4 < v -> nwk_key_fc r = nwk_key_fc ni /\
              hashed_tclk r = Some (match hashed_tclk ni with Some h => h | None => rh end)) /\
    (v = 4 -> hashed_tclk r = None) /\
    (9 <= v -> children r = map (fun c => (fst c, Some (snd c))) (known_children ni)).
Proof.
  intros v ni rh st0 Hv4 Hv14 Hk0 Hc0 [Hnd [Hlen [Hch Htc]]].
  destruct (written_from_char v ni rh st0 Hk0 Hc0 Hnd Hlen) as [T [C [Hw [HT HC]]]].
  set (ks := n_key_size st0) in *.
  rewrite Hw. unfold read_back. cbn [n_params n_sec]. eexists. split; [reflexivity|].
  cbn [pan_id ext_pan_id channel channel_mask update_id manager_id nwk_key nwk_key_seq nwk_key_fc
       tclk tclk_fc tc_address hashed_tclk link_keys children
       n_nwk_fc n_aps_fc n_keys n_key_size n_children].
  unfold sec_of. rewrite hashed_flag.
  split; [reflexivity|]. split; [reflexivity|]. split; [reflexivity|]. split; [reflexivity|].
  split; [reflexivity|]. split; [reflexivity|]. split; [reflexivity|].
  split.
  { destruct (4 <? v) eqn:E; [|reflexivity]. apply N.ltb_lt in E. symmetry. apply Htc, E. }
  split.
  { rewrite (table_read _ T (link_keys ni) ks HT Hlen) by lia. reflexivity. }
  split.
  { intro H. assert (E : 4 <? v = true) by (apply N.ltb_lt; exact H). rewrite E.
    split; reflexivity. }
  split.
  { intro H. subst v. reflexivity. }
  intro H.
  assert (Hch' : (length (known_children ni) <= N.to_nat 256)%nat) by lia.
  rewrite (table_read _ C (known_children ni) 256 (HC H) Hch') by lia. reflexivity.
Qed.

Lemma roundtrip : forall v key_size ni rh, 4 <= v -> v <= 14 -> admissible v key_size ni ->
  exists r, read_back v (written v key_size ni rh) = Some r /\
    pan_id r = pan_id ni /\ ext_pan_id r = ext_pan_id ni /\ channel r = channel ni /\
    channel_mask r = channel_mask ni /\ update_id r = update_id ni /\
    nwk_key r = nwk_key ni /\ nwk_key_seq r = nwk_key_seq ni /\
    tclk r = tclk ni /\
    link_keys r = link_keys ni /\
    (4 < v -> nwk_key_fc r = nwk_key_fc ni /\
              hashed_tclk r = Some (match hashed_tclk ni with Some h => h | None => rh end)) /\
    (v = 4 -> hashed_tclk r = None) /\
    (9 <= v -> children r = map (fun c => (fst c, Some (snd c))) (known_children ni)).
Proof.
  intros v ks ni rh Hv4 Hv14 Hadm. unfold written.
  exact (roundtrip_from v ni rh (ncp_blank ks) Hv4 Hv14 eq_refl eq_refl Hadm).
Qed.

(* the same on an adapter that held another network before, whatever counters it kept *)
Lemma roundtrip_after : forall v key_size pn pa ni rh, 4 <= v -> v <= 14 -> admissible v key_size ni ->
  exists r, read_back v (written_after v key_size pn pa ni rh) = Some r /\
    pan_id r = pan_id ni /\ ext_pan_id r = ext_pan_id ni /\ channel r = channel ni /\
    channel_mask r = channel_mask ni /\ update_id r = update_id ni /\
    nwk_key r = nwk_key ni /\ nwk_key_seq r = nwk_key_seq ni /\
    tclk r = tclk ni /\
    link_keys r = link_keys ni /\
    (4 < v -> nwk_key_fc r = nwk_key_fc ni /\
              hashed_tclk r = Some (match hashed_tclk ni with Some h => h | None => rh end)) /\
    (v = 4 -> hashed_tclk r = None) /\
    (9 <= v -> children r = map (fun c => (fst c, Some (snd c))) (known_children ni)).
Proof.
  intros v ks pn pa ni rh Hv4 Hv14 Hadm. unfold written_after.
  exact (roundtrip_from v ni rh (ncp_after_reset v ks pn pa) Hv4 Hv14 eq_refl eq_refl Hadm).
Qed.

(* on v4 the network frame counter cannot be stored: whatever the adapter held stays (no
   admissibility needed: no operation of the v4 plan touches the counter) *)
Lemma keys_by_address_nwk_fc : forall l st,
  n_nwk_fc (fold_left apply_wop (map (fun k => WKeyByAddress (fst k) (snd k)) l) st) = n_nwk_fc st.
Proof.
  induction l as [|[p k] l IH]; intro st; cbn [map fold_left fst snd]; [reflexivity|].
  rewrite IH. unfold apply_wop.
  destruct (find_partner p (n_keys st)) as [i|]; [reflexivity|].
  destruct (first_free (S (N.to_nat (n_key_size st))) 0 (n_keys st) (n_key_size st)); reflexivity.
Qed.

Lemma read_back_nwk_fc : forall v st r, read_back v st = Some r -> nwk_key_fc r = n_nwk_fc st.
Proof.
  intros v st r H. unfold read_back in H.
  destruct (n_params st) as [p|]; [|discriminate H]. destruct (n_sec st) as [s|]; [|discriminate H].
  assert (E : option_map nwk_key_fc (Some r) = Some (n_nwk_fc st)) by (rewrite <- H; reflexivity).
  cbn [option_map] in E. injection E as E. exact E.
Qed.

Lemma stale_counter_v4 : forall key_size pn pa ni rh r,
  read_back 4 (written_after 4 key_size pn pa ni rh) = Some r -> nwk_key_fc r = pn.
Proof.
  intros ks pn pa ni rh r H. rewrite (read_back_nwk_fc _ _ _ H).
  unfold written_after. rewrite plan_split, !fold_left_app.
  change (plan_ctr 4 ni) with (@nil wop). change (plan_children 4 ni) with (@nil wop).
  change (plan_keys 4 ni) with (map (fun k => WKeyByAddress (fst k) (snd k)) (link_keys ni)).
  cbn [fold_left]. unfold apply_wop at 1. cbn [n_nwk_fc].
  rewrite keys_by_address_nwk_fc. reflexivity.
Qed.

Lemma tclk_refuted : exists v ni rh r, 4 < v /\ v <= 14 /\ tclk ni <> WELL_KNOWN_TCLK /\
  NoDup (map fst (link_keys ni)) /\
  read_back v (written v 4 ni rh) = Some r /\ tclk r <> tclk ni.
Proof.
  exists 6.
  exists {| pan_id := 0x1A2B; ext_pan_id := [1;2;3;4;5;6;7;8]; channel := 15; channel_mask := 0x8000;
            update_id := 3; manager_id := 0; nwk_key := [9;9;9]; nwk_key_seq := 7; nwk_key_fc := 1000;
            tclk := [1]; tclk_fc := 5; tc_address := Some [8;7;6;5;4;3;2;1]; hashed_tclk := None;
            link_keys := []; children := [] |}.
  exists [0xEE]. eexists.
  split; [reflexivity|]. split; [discriminate|]. split; [discriminate|].
  split; [constructor|]. split; [vm_compute; reflexivity|].
  vm_compute. discriminate.
Qed.

Lemma v4_any_tclk : forall key_size ni rh,
  NoDup (map fst (link_keys ni)) -> (List.length (link_keys ni) <= N.to_nat key_size)%nat ->
  exists r, read_back 4 (written 4 key_size ni rh) = Some r /\ tclk r = tclk ni.
Proof.
  intros ks ni rh Hnd Hlen.
  destruct (written_char 4 ks ni rh Hnd Hlen) as [T [C [Hw _]]].
  rewrite Hw. unfold read_back. cbn [n_params n_sec]. eexists. split; [reflexivity|].
  cbn [tclk]. unfold sec_of. rewrite hashed_flag. reflexivity.
Qed.
