(* C03 -- the CRC-CCITT of ASH frames (bitwise specification in model/AshCodec.v) detects every
   1-bit and 2-bit error in frames of up to 4095 bytes.
   Architecture: (1) the shift step is linear over xor, hence crc16 (m xor e) = crc16 m xor crc_from 0 e;
   (2) a body followed by its own CRC has residue 0 (sweep over the 65536 states); (3) an error
   pattern of weight 1 or 2 has a non-zero residue from state 0: the zero-input step zstep has trivial
   kernel on 16-bit states (sweep) and the orbit of POLY = 0x1021 under zstep does not return to POLY within
   32766 steps (orbit sweep), i.e. x has order 32767 modulo the generator polynomial. *)
From Coq Require Import NArith List Bool Lia PeanoNat.
Import ListNotations.
Require Import BV.gen.GenAsh BV.model.AshCodec.
Open Scope N_scope.

(* ---- weights ------------------------------------------------------------------------------------ *)
Definition cnt (l : list bool) : nat := length (filter (fun b : bool => b) l).
Definition popcount8 (b : N) : nat := cnt (byte_bits b).
Definition weight (e : list N) : nat := fold_right (fun b n => (popcount8 b + n)%nat) O e.
Definition bits_of (l : list N) : list bool := flat_map byte_bits l.

Lemma cnt_true l : cnt (true :: l) = S (cnt l).
Proof. reflexivity. Qed.
Lemma cnt_false l : cnt (false :: l) = cnt l.
Proof. reflexivity. Qed.
Lemma cnt_app a b : cnt (a ++ b) = (cnt a + cnt b)%nat.
Proof. unfold cnt. rewrite filter_app, app_length. reflexivity. Qed.

Lemma weight_cnt e : weight e = cnt (bits_of e).
Proof.
  induction e as [|a e IH]; [reflexivity|].
  unfold weight, bits_of in *. cbn [fold_right flat_map]. rewrite cnt_app, IH. reflexivity.
Qed.

Lemma bits_len e : length (bits_of e) = (8 * length e)%nat.
Proof.
  unfold bits_of. induction e as [|a e IH]; [reflexivity|].
  cbn [flat_map]. rewrite app_length, IH. cbn [length byte_bits]. lia.
Qed.

Lemma crc_from_bits l : forall s, crc_from s l = fold_left crc_step1 (bits_of l) s.
Proof.
  unfold crc_from, bits_of. induction l as [|a l IH]; intro s; cbn [fold_left flat_map]; [reflexivity|].
  rewrite fold_left_app. apply IH.
Qed.

(* ---- 16-bit states ------------------------------------------------------------------------------ *)
Lemma lt16_iff s : s < 65536 <-> N.shiftr s 16 = 0.
Proof.
  rewrite N.shiftr_div_pow2. change (2 ^ 16) with 65536.
  symmetry. apply N.div_small_iff. discriminate.
Qed.

Lemma lxor_lt16 a b : a < 65536 -> b < 65536 -> N.lxor a b < 65536.
Proof. rewrite !lt16_iff, N.shiftr_lxor. intros Ha Hb. rewrite Ha, Hb. reflexivity. Qed.

Lemma land_lxor_distr a b m : N.land (N.lxor a b) m = N.lxor (N.land a m) (N.land b m).
Proof.
  apply N.bits_inj; intro n. rewrite !N.land_spec, !N.lxor_spec, !N.land_spec.
  destruct (N.testbit m n); rewrite ?andb_true_r, ?andb_false_r; reflexivity.
Qed.

Lemma lxor_cancel_l a b c : N.lxor a b = N.lxor a c -> b = c.
Proof.
  intro H. rewrite <- (N.lxor_0_l b), <- (N.lxor_0_l c), <- (N.lxor_nilpotent a).
  rewrite !N.lxor_assoc, H. reflexivity.
Qed.

Lemma step_lt16 s b : crc_step1 s b < 65536.
Proof.
  unfold crc_step1. cbv zeta.
  assert (H : N.land (N.shiftl s 1) 0xFFFF < 65536).
  { change 0xFFFF with (N.ones 16). rewrite N.land_ones. apply N.mod_lt. discriminate. }
  destruct (xorb (N.testbit s 15) b); [apply lxor_lt16; [exact H | reflexivity] | exact H].
Qed.

Lemma fold_lt16 l : forall s, s < 65536 -> fold_left crc_step1 l s < 65536.
Proof.
  induction l as [|b l IH]; intros s H; [exact H|]. cbn [fold_left]. apply IH, step_lt16.
Qed.

Lemma crc_from_lt16 s l : s < 65536 -> crc_from s l < 65536.
Proof. intro H. rewrite crc_from_bits. apply fold_lt16, H. Qed.

(* ---- linearity ---------------------------------------------------------------------------------- *)
Lemma step_lin s1 s2 b1 b2 :
  crc_step1 (N.lxor s1 s2) (xorb b1 b2) = N.lxor (crc_step1 s1 b1) (crc_step1 s2 b2).
Proof.
  unfold crc_step1. cbv zeta. rewrite N.lxor_spec, N.shiftl_lxor, land_lxor_distr.
  set (a := N.land (N.shiftl s1 1) 0xFFFF). set (c := N.land (N.shiftl s2 1) 0xFFFF).
  destruct (N.testbit s1 15), (N.testbit s2 15), b1, b2; cbn [xorb];
    apply N.bits_inj; intro n; rewrite ?N.lxor_spec;
    destruct (N.testbit a n), (N.testbit c n), (N.testbit 0x1021 n); reflexivity.
Qed.

Lemma crc_byte_lin s1 s2 x y :
  crc_byte (N.lxor s1 s2) (N.lxor x y) = N.lxor (crc_byte s1 x) (crc_byte s2 y).
Proof.
  unfold crc_byte, byte_bits. cbn [fold_left]. rewrite !N.lxor_spec, !step_lin. reflexivity.
Qed.

Lemma crc_from_lin l1 : forall l2 s1 s2, length l1 = length l2 ->
  crc_from (N.lxor s1 s2) (xor_zip l1 l2) = N.lxor (crc_from s1 l1) (crc_from s2 l2).
Proof.
  unfold crc_from.
  induction l1 as [|x l1 IH]; intros [|y l2] s1 s2 H; cbn [fold_left xor_zip length] in *;
    try discriminate H; [reflexivity|].
  rewrite crc_byte_lin. apply IH. lia.
Qed.

Lemma crc16_affine m e : length m = length e ->
  crc16 (xor_zip m e) = N.lxor (crc16 m) (crc_from 0 e).
Proof.
  intro H. unfold crc16. rewrite <- (crc_from_lin m e CRC_SEED 0 H), N.lxor_0_r. reflexivity.
Qed.

(* ---- finite sweeps ------------------------------------------------------------------------------ *)
Fixpoint all_from (fuel : nat) (s : N) (f : N -> bool) : bool :=
  match fuel with O => true | S k => f s && all_from k (N.succ s) f end.

Lemma all_from_spec f : forall n s, all_from n s f = true ->
  forall i, s <= i -> i < s + N.of_nat n -> f i = true.
Proof.
  induction n as [|n IH]; intros s H i H1 H2; [lia|].
  cbn [all_from] in H. apply andb_true_iff in H. destruct H as [Ha Hb].
  destruct (N.eq_dec i s) as [E|Hne]; [rewrite E; exact Ha|].
  apply (IH (N.succ s) Hb); lia.
Qed.

Lemma sweep16 f : all_from (N.to_nat 65536) 0 f = true -> forall s, s < 65536 -> f s = true.
Proof.
  intros H s Hs. apply (all_from_spec f _ 0 H); [apply N.le_0_l|].
  rewrite N2Nat.id. exact Hs.
Qed.

(* a state followed by its own big-endian bytes runs to 0 *)
Lemma resid_sweep :
  all_from (N.to_nat 65536) 0 (fun s => crc_byte (crc_byte s (crc_hi s)) (crc_lo s) =? 0) = true.
Proof. vm_compute. reflexivity. Qed.
Lemma resid_zero s : s < 65536 -> crc_byte (crc_byte s (crc_hi s)) (crc_lo s) = 0.
Proof.
  intro H. pose proof (sweep16 _ resid_sweep s H) as K. cbv beta in K.
  apply N.eqb_eq in K. exact K.
Qed.

(* the zero-input step *)
Definition POLY : N := 0x1021.
Definition zstep (s : N) : N := crc_step1 s false.
Fixpoint zpow (k : nat) (s : N) : N := match k with O => s | S k' => zpow k' (zstep s) end.

Lemma step_true s : crc_step1 s true = N.lxor (zstep s) POLY.
Proof.
  pose proof (step_lin s 0 false true) as H. rewrite N.lxor_0_r in H. cbn [xorb] in H.
  change (crc_step1 0 true) with POLY in H. exact H.
Qed.

Lemma zpow_0 k : zpow k 0 = 0.
Proof. induction k as [|k IH]; [reflexivity|]. cbn [zpow]. change (zstep 0) with 0. exact IH. Qed.

Lemma zpow_lt16 k : forall s, s < 65536 -> zpow k s < 65536.
Proof.
  induction k as [|k IH]; intros s H; [exact H|]. cbn [zpow]. apply IH. unfold zstep. apply step_lt16.
Qed.

Lemma zker_sweep : all_from (N.to_nat 65536) 0 (fun s => negb (zstep s =? 0) || (s =? 0)) = true.
Proof. vm_compute. reflexivity. Qed.
Lemma z_ker s : s < 65536 -> zstep s = 0 -> s = 0.
Proof.
  intros H Hz. pose proof (sweep16 _ zker_sweep s H) as K. cbv beta in K.
  rewrite Hz in K. apply N.eqb_eq. exact K.
Qed.

Lemma zpow_ker k : forall s, s < 65536 -> zpow k s = 0 -> s = 0.
Proof.
  induction k as [|k IH]; intros s H Hz; cbn [zpow] in Hz; [exact Hz|].
  apply z_ker; [exact H|]. apply (IH (zstep s)); [unfold zstep; apply step_lt16 | exact Hz].
Qed.

(* the orbit of POLY under zstep does not come back to POLY within 32766 steps *)
Fixpoint orbit_ok (fuel : nat) (s : N) : bool :=
  match fuel with O => true | S f => let s' := zstep s in negb (s' =? POLY) && orbit_ok f s' end.

Lemma orbit_ok_spec : forall n s, orbit_ok n s = true ->
  forall d, (0 < d <= n)%nat -> zpow d s <> POLY.
Proof.
  induction n as [|n IH]; intros s H d Hd; [lia|].
  cbn [orbit_ok] in H. cbv zeta in H. apply andb_true_iff in H. destruct H as [Ha Hb].
  destruct d as [|d]; [lia|]. cbn [zpow].
  destruct d as [|d].
  - cbn [zpow]. apply N.eqb_neq. apply negb_true_iff. exact Ha.
  - apply (IH (zstep s) Hb). lia.
Qed.

Lemma orbit_sweep : orbit_ok (N.to_nat 32766) POLY = true.
Proof. vm_compute. reflexivity. Qed.

Lemma orbit_P d : (0 < d)%nat -> (N.of_nat d <= 32766) -> zpow d POLY <> POLY.
Proof.
  intros H0 H1. apply (orbit_ok_spec _ POLY orbit_sweep). split; [exact H0|].
  clear H0. lia.
Qed.

(* ---- error patterns of weight 0, 1, 2 on bit lists ---------------------------------------------- *)
Lemma fold_zero l : forall s, cnt l = O -> fold_left crc_step1 l s = zpow (length l) s.
Proof.
  induction l as [|b l IH]; intros s H; [reflexivity|].
  destruct b; [rewrite cnt_true in H; discriminate H|]. rewrite cnt_false in H.
  cbn [fold_left length zpow]. change (crc_step1 s false) with (zstep s). apply IH. exact H.
Qed.

Lemma fold_one l : forall s, cnt l = 1%nat ->
  exists d k, (1 <= d)%nat /\ (d + k = length l)%nat /\
    fold_left crc_step1 l s = zpow k (N.lxor (zpow d s) POLY).
Proof.
  induction l as [|b l IH]; intros s H; [cbv in H; discriminate H|].
  destruct b.
  - rewrite cnt_true in H. injection H as H. exists 1%nat, (length l).
    split; [lia|]. split; [reflexivity|].
    cbn [fold_left zpow]. rewrite step_true. apply fold_zero. exact H.
  - rewrite cnt_false in H. destruct (IH (zstep s) H) as (d & k & Hd & Hk & E).
    exists (S d), k. split; [lia|]. split; [cbn [length]; lia|]. cbn [fold_left zpow]. exact E.
Qed.

Lemma fold_two_from0 l : cnt l = 2%nat ->
  exists d k, (1 <= d)%nat /\ (d + k < length l)%nat /\
    fold_left crc_step1 l 0 = zpow k (N.lxor (zpow d POLY) POLY).
Proof.
  induction l as [|b l IH]; intro H; [cbv in H; discriminate H|].
  destruct b.
  - rewrite cnt_true in H. injection H as H.
    destruct (fold_one l POLY H) as (d & k & Hd & Hk & E).
    exists d, k. split; [exact Hd|]. split; [cbn [length]; lia|].
    cbn [fold_left]. change (crc_step1 0 true) with POLY. exact E.
  - rewrite cnt_false in H. destruct (IH H) as (d & k & Hd & Hk & E).
    exists d, k. split; [exact Hd|]. split; [cbn [length]; lia|].
    cbn [fold_left]. change (crc_step1 0 false) with 0. exact E.
Qed.

Lemma P_lt16 : POLY < 65536.
Proof. reflexivity. Qed.

Lemma err_nonzero e : (1 <= weight e <= 2)%nat -> (length e <= 4095)%nat -> crc_from 0 e <> 0.
Proof.
  intros Hw Hl. rewrite crc_from_bits. rewrite weight_cnt in Hw.
  pose proof (bits_len e) as Hlen.
  destruct (Nat.eq_dec (cnt (bits_of e)) 1) as [H1|H1].
  - destruct (fold_one (bits_of e) 0 H1) as (d & k & _ & _ & E).
    rewrite E, zpow_0, N.lxor_0_l. intro Hz.
    apply zpow_ker in Hz; [unfold POLY in Hz; discriminate Hz | exact P_lt16].
  - assert (H2 : cnt (bits_of e) = 2%nat) by lia.
    destruct (fold_two_from0 _ H2) as (d & k & Hd & Hk & E). rewrite E. intro Hz.
    apply zpow_ker in Hz.
    + apply N.lxor_eq in Hz. revert Hz. apply orbit_P; lia.
    + apply lxor_lt16; [apply zpow_lt16; exact P_lt16 | exact P_lt16].
Qed.

(* ---- unwrap ------------------------------------------------------------------------------------- *)
Lemma unwrap_app body hi lo :
  unwrap (body ++ [hi; lo]) =
  match body with
  | [] => None
  | c :: rest =>
      if (hi =? crc_hi (crc16 body)) && (lo =? crc_lo (crc16 body)) then Some (c, rest) else None
  end.
Proof.
  unfold unwrap. cbv zeta. rewrite app_length. cbn [length].
  replace (length body + 2 - 2)%nat with (length body) by lia.
  rewrite firstn_app, Nat.sub_diag, firstn_all. cbn [firstn]. rewrite app_nil_r.
  rewrite skipn_app, Nat.sub_diag, skipn_all. cbn [skipn app].
  destruct body as [|c rest]; [reflexivity|].
  destruct (Nat.ltb_spec (length (c :: rest) + 2) 3) as [Hlt|_]; [cbn [length] in Hlt; lia|].
  reflexivity.
Qed.

Lemma unwrap_app_some body hi lo : unwrap (body ++ [hi; lo]) <> None ->
  hi = crc_hi (crc16 body) /\ lo = crc_lo (crc16 body).
Proof.
  rewrite unwrap_app. destruct body as [|c rest]; [congruence|]. intro H.
  destruct (hi =? crc_hi (crc16 (c :: rest))) eqn:E1;
    destruct (lo =? crc_lo (crc16 (c :: rest))) eqn:E2; cbn [andb] in H; try congruence.
  apply N.eqb_eq in E1, E2. split; assumption.
Qed.

Lemma unwrap_app_none body hi lo :
  (hi = crc_hi (crc16 body) -> lo = crc_lo (crc16 body) -> False) ->
  unwrap (body ++ [hi; lo]) = None.
Proof.
  intro H. rewrite unwrap_app. destruct body as [|c rest]; [reflexivity|].
  destruct (hi =? crc_hi (crc16 (c :: rest))) eqn:E1;
    destruct (lo =? crc_lo (crc16 (c :: rest))) eqn:E2; cbn [andb]; try reflexivity.
  exfalso. apply H; apply N.eqb_eq; assumption.
Qed.

Lemma split_last2 (d : list N) : (2 <= length d)%nat -> exists body hi lo, d = body ++ [hi; lo].
Proof.
  intro H. induction d as [|x d _] using rev_ind; [cbn in H; lia|].
  induction d as [|y d _] using rev_ind; [cbn in H; lia|].
  exists d, y, x. rewrite <- app_assoc. reflexivity.
Qed.

Lemma unwrap_some_split d : unwrap d <> None -> exists body hi lo, d = body ++ [hi; lo].
Proof.
  intro H. destruct (Nat.le_gt_cases 2 (length d)) as [Hge|Hlt]; [apply split_last2, Hge|].
  exfalso. apply H. unfold unwrap. cbv zeta.
  destruct (Nat.ltb_spec (length d) 3) as [_|Hge]; [reflexivity | lia].
Qed.

Lemma xor_zip_app a : forall b a' b', length a = length b ->
  xor_zip (a ++ a') (b ++ b') = xor_zip a b ++ xor_zip a' b'.
Proof.
  induction a as [|x a IH]; intros [|y b] a' b' H; cbn [length] in H; try discriminate H; [reflexivity|].
  cbn [app xor_zip]. rewrite IH by lia. reflexivity.
Qed.

Lemma xor_zip_len a : forall b, (length (xor_zip a b) <= length a)%nat.
Proof.
  induction a as [|x a IH]; intros [|y b]; cbn [xor_zip length]; try lia.
  specialize (IH b). lia.
Qed.

(* ---- the detection theorem ---------------------------------------------------------------------- *)
Lemma crc_detects_core m e :
  length e = length m -> (length m <= 4095)%nat ->
  unwrap m <> None -> (1 <= weight e <= 2)%nat ->
  unwrap (xor_zip m e) = None.
Proof.
  intros Hlen Hmax Hm Hw.
  destruct (unwrap_some_split m Hm) as (body & hi & lo & Em). subst m.
  destruct (unwrap_app_some body hi lo Hm) as [Hhi Hlo].
  rewrite app_length in Hlen, Hmax. cbn [length] in Hlen, Hmax.
  destruct (split_last2 e) as (eb & ehi & elo & Ee); [lia|]. subst e.
  rewrite app_length in Hlen. cbn [length] in Hlen.
  assert (Hb : length body = length eb) by lia.
  rewrite (xor_zip_app body eb _ _ Hb). cbn [xor_zip].
  apply unwrap_app_none. intros Ehi Elo.
  rewrite (crc16_affine body eb Hb) in Ehi, Elo.
  set (C := crc16 body) in *. set (c := crc_from 0 eb) in *.
  assert (Hehi : ehi = crc_hi c).
  { unfold crc_hi in *. rewrite N.shiftr_lxor, Hhi in Ehi. exact (lxor_cancel_l _ _ _ Ehi). }
  assert (Helo : elo = crc_lo c).
  { unfold crc_lo in *. rewrite land_lxor_distr, Hlo in Elo. exact (lxor_cancel_l _ _ _ Elo). }
  apply (err_nonzero (eb ++ [ehi; elo]) Hw).
  - rewrite app_length. cbn [length]. lia.
  - rewrite Hehi, Helo. unfold crc_from. rewrite fold_left_app. cbn [fold_left].
    fold (crc_from 0 eb). fold c. apply resid_zero. apply crc_from_lt16. reflexivity.
Qed.

Lemma crc_detects_1_2_bits : forall m e,
  Forall (fun b => b < 256) m -> Forall (fun b => b < 256) e ->
  length e = length m -> (length m <= 4095)%nat ->
  unwrap m <> None -> (1 <= weight e <= 2)%nat ->
  unwrap (xor_zip m e) = None.
Proof. intros m e _ _. apply crc_detects_core. Qed.

(* ---- frames ------------------------------------------------------------------------------------- *)
Lemma parse_unwrap_none d : unwrap d = None -> parse d = None.
Proof.
  intro H. unfold parse. destruct d as [|c d]; [reflexivity|]. rewrite H.
  repeat match goal with |- context [if ?b then _ else _] => destruct b end; reflexivity.
Qed.

Lemma unwrap_append_crc c rest : unwrap (append_crc (c :: rest)) <> None.
Proof.
  unfold append_crc. rewrite unwrap_app. cbv beta iota. rewrite !N.eqb_refl. cbn [andb]. discriminate.
Qed.

Lemma unwrap_encode f : unwrap (encode f) <> None.
Proof. destruct f; unfold encode; cbv zeta; apply unwrap_append_crc. Qed.

Lemma append_crc_len d : length (append_crc d) = (length d + 2)%nat.
Proof. unfold append_crc. rewrite app_length. reflexivity. Qed.

Lemma encode_len f : wf_frame f = true -> (length (encode f) <= 259)%nat.
Proof.
  intro H. destruct f as [frm re ack p| | | | |]; unfold encode; cbv zeta; rewrite append_crc_len;
    cbn [length]; try lia.
  unfold wf_frame in H. rewrite !andb_true_iff in H. destruct H as [[_ Hl] _].
  apply Nat.leb_le in Hl. unfold randomize.
  destruct (length p <=? length PSEUDO_RANDOM_DATA_SEQUENCE)%nat.
  - pose proof (xor_zip_len p PSEUDO_RANDOM_DATA_SEQUENCE) as Hx. lia.
  - cbn [length]. lia.
Qed.

Lemma corrupted_frame_rejected : forall f e,
  wf_frame f = true -> Forall (fun b => b < 256) e ->
  length e = length (encode f) -> (1 <= weight e <= 2)%nat ->
  parse (xor_zip (encode f) e) = None.
Proof.
  intros f e Hwf _ Hlen Hw. apply parse_unwrap_none. apply crc_detects_core.
  - exact Hlen.
  - pose proof (encode_len f Hwf) as Hl. lia.
  - apply unwrap_encode.
  - exact Hw.
Qed.
