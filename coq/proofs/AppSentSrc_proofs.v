(* ControllerApplication._handle_frame_sent and the messageSentHandler branch of ezsp_callback_handler as emitted
   from their SOURCE TEXT (gen/GenAppFn.v) against the confirmation event of the hand-written model
   (model/SendPacket.v, [sstep] on [SConfirm]): which pending request a delivery confirmation completes -- the one
   registered under (destination, message tag) -- and with what; a confirmation that finds no request, or one whose
   future is already resolved, completes nothing. *)
From Coq Require Import String ZArith NArith List Bool Lia.
Import ListNotations.
Require Import BV.lib.EzspTypes BV.gen.GenCallbacks BV.gen.GenStatus BV.model.Status BV.model.Translate
               BV.gen.GenApp BV.model.SendPacket BV.gen.GenAppFn.
Open Scope N_scope.

(* self._pending as the model holds it: the request in progress under (destination, tag), and whether its
   confirmation future is resolved *)
Definition pending_of (st : sstate) (dst tag : N) : option bool :=
  match rfind_tag dst tag (s_reqs st) with
  | Some r => Some (match q_confirmed r with Some _ => true | None => false end)
  | None => None
  end.

Definition confirmed (r : req) (ok : bool) : req :=
  {| q_id := q_id r; q_kind := q_kind r; q_dst := q_dst r; q_tag := q_tag r; q_setup := q_setup r;
     q_attempt := q_attempt r; q_stage := q_stage r; q_confirmed := Some ok |}.

Lemma sl_OK_value : sl_OK = 0.
Proof. vm_compute. reflexivity. Qed.

(* the model event a call stands for: SConfirm destination tag (status is sl_Status.OK) *)
Lemma src_confirmation : forall st dst tag status,
  let ok := status =? sl_OK in
  match py_handle_frame_sent (pending_of st) dst tag status with
  | PSetResult key s text =>
      key = (dst, tag) /\ s = status /\
      text = (if ok then "message send success" else "message send failure")%string /\
      exists r, rfind_tag dst tag (s_reqs st) = Some r /\ q_confirmed r = None /\
        sstep st (SConfirm dst tag ok) =
          match q_stage r with
          | RConfirm => end_req (set_reqs st (rset (confirmed r ok) (s_reqs st))) (confirmed r ok)
                                (if ok then ResOk else ResDeliveryError)
          | _ => (set_reqs st (rset (confirmed r ok) (s_reqs st)), [])
          end
  | PUnexpected =>
      rfind_tag dst tag (s_reqs st) = None /\ sstep st (SConfirm dst tag ok) = (st, [XUnexpected])
  | PDuplicate =>
      (exists r b, rfind_tag dst tag (s_reqs st) = Some r /\ q_confirmed r = Some b) /\
      sstep st (SConfirm dst tag ok) = (st, [XUnexpected])
  end.
Proof.
  intros st dst tag status. rewrite sl_OK_value. cbv zeta.
  unfold py_handle_frame_sent, pending_of. cbn [sstep fst snd].
  destruct (status =? 0) eqn:Es;
    (destruct (rfind_tag dst tag (s_reqs st)) as [r|] eqn:Hf; [|split; reflexivity]);
    (destruct (q_confirmed r) as [b|] eqn:Hc; [split; [exists r, b; split; [reflexivity|exact Hc]|reflexivity]|]);
    (split; [reflexivity|split; [reflexivity|split; [reflexivity|]]]);
    exists r; (split; [reflexivity|split; [exact Hc|]]);
    unfold confirmed; destruct (q_stage r); reflexivity.
Qed.

(* ---- the dispatch: which elements of the callback are the destination, the tag and the status ---- *)
(* flat positions of (destination, message tag, status) in the two field orders *)
Definition sent_positions (v : N) : nat * nat * nat :=
  if 14 <=? v then (2, 10, 0)%nat       (* status, message_type, nwk, aps_frame (7), message_tag, message *)
  else (1, 9, 10)%nat.                  (* type, indexOrDestination, apsFrame (7), messageTag, status, messageContents *)
(* pre-v14 the status is an EmberStatus, converted; v14 reports a unified status *)
Definition sent_status (v : N) (s : N) : N := if 14 <=? v then s else normalise FEmber s.

Definition sent_role (names : list string) (p : nat) (fs : list (string * nat * nat)) : bool :=
  match field_at p fs with
  | Some (n, off) => existsb (String.eqb n) names && (off =? 0)%nat
  | None => false
  end.
Definition sent_ok (v : N) : bool :=
  let fs := fields_of v "messageSentHandler" in
  let '(pd, pt, ps) := sent_positions v in
  sent_role ["indexOrDestination"; "nwk"]%string pd fs && sent_role ["messageTag"; "message_tag"]%string pt fs
  && sent_role ["status"]%string ps fs.

Lemma sent_positions_ok : forall v, In v (map fst CB_FIELDS) -> sent_ok v = true.
Proof.
  assert (A : forallb sent_ok (map fst CB_FIELDS) = true) by (vm_compute; reflexivity).
  intros v H. rewrite forallb_forall in A. exact (A v H).
Qed.

Ltac split_reads vs :=
  repeat match goal with
         | |- context [geti ?p vs] => destruct (geti p vs); cbn [obind]; try reflexivity
         end.

Ltac each_version H :=
  vm_compute in H; repeat (destruct H as [<- | H]; [ | ]); [ .. | contradiction H ].

Lemma src_sent_dispatch : forall v own vs pending, In v (map fst CB_FIELDS) ->
  exists f, py_ezsp_callback_handler v own "messageSentHandler" vs = PSent f /\
    f pending =
      let '(pd, pt, ps) := sent_positions v in
      match geti pd vs, geti pt vs, geti ps vs with
      | Some d, Some t, Some s =>
          Some (py_handle_frame_sent pending (Z.to_N d) (Z.to_N t) (sent_status v (Z.to_N s)))
      | _, _, _ => None
      end.
Proof.
  intros v own vs pending H. each_version H.
  all: unfold py_ezsp_callback_handler, sent_positions, sent_status.
  all: match goal with |- context [fields_of ?v ?n] =>
         let fs := eval vm_compute in (fields_of v n) in change (fields_of v n) with fs end.
  all: cbv zeta; cbn [String.eqb Ascii.eqb Bool.eqb andb N.leb N.compare Pos.compare Pos.compare_cont
                      args_len fst snd List.length Nat.eqb negb].
  all: eexists; split; [reflexivity|].
  all: cbv [arg_uint arg_int arg_at nth_error fst snd].
  all: split_reads vs.
Qed.
