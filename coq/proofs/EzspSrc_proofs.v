(* The EZSP frame-header functions emitted from the SOURCE TEXT of EZSPv4/v5/v8._ezsp_frame_tx/_rx
   (gen/GenEzspFn.v, harness/pysrc.py) agree with the header model of model/EzspCodec.v. *)
From Coq Require Import ZArith NArith List Bool Lia.
Import ListNotations.
Require Import BV.lib.EzspTypes BV.model.EzspCodec BV.gen.GenEzspFn.
Open Scope N_scope.

Lemma src_header_tx4 : forall seq id bs, header_tx 4 seq id = Some bs -> bs = py_v4_header_tx seq id.
Proof.
  intros seq id bs H. unfold header_tx in H. cbn [N.eqb Pos.eqb] in H.
  destruct (id <? 256); [|discriminate]. injection H as <-. reflexivity.
Qed.

Lemma src_header_tx5 : forall seq id bs, header_tx 5 seq id = Some bs -> bs = py_v5_header_tx seq id.
Proof.
  intros seq id bs H. unfold header_tx in H. cbn [N.eqb Pos.eqb] in H.
  destruct ((id <? 256) && (seq <? 256)); [|discriminate]. injection H as <-. reflexivity.
Qed.

Lemma src_header_tx8 : forall seq id bs, header_tx 8 seq id = Some bs -> bs = py_v8_header_tx seq id.
Proof.
  intros seq id bs H. unfold header_tx in H. cbn [N.eqb Pos.eqb] in H.
  destruct ((id <? 65536) && (seq <? 256)) eqn:Hc; [|discriminate]. injection H as <-.
  apply andb_true_iff in Hc. destruct Hc as [Hid _]. apply N.ltb_lt in Hid.
  unfold py_v8_header_tx. cbn [le_bytes app].
  assert (Hq : id / 256 < 256) by (apply N.div_lt_upper_bound; lia).
  rewrite (N.mod_small (id / 256) 256 Hq). reflexivity.
Qed.

Lemma src_header_rx4 : forall d, header_rx 4 d = py_v4_header_rx d.
Proof.
  intros d. unfold header_rx, py_v4_header_rx. cbn [N.eqb Pos.eqb].
  destruct d as [|a [|b [|c r]]]; reflexivity.
Qed.

Lemma src_header_rx5 : forall d, header_rx 5 d = py_v5_header_rx d.
Proof.
  intros d. unfold header_rx, py_v5_header_rx. cbn [N.eqb Pos.eqb].
  destruct d as [|a [|b [|c [|e [|f r]]]]]; reflexivity.
Qed.

Lemma src_header_rx8 : forall d, header_rx 8 d = py_v8_header_rx d.
Proof.
  intros d. unfold header_rx, py_v8_header_rx. cbn [N.eqb Pos.eqb].
  destruct d as [|a [|b [|c [|e [|f r]]]]]; try reflexivity.
  cbn [List.length Nat.ltb Nat.leb nth skipn firstn le_value].
  replace (f + 256 * 0) with f by lia. reflexivity.
Qed.

Lemma src_header_tx_all : forall seq id bs,
  (header_tx 4 seq id = Some bs -> bs = py_v4_header_tx seq id) /\
  (header_tx 5 seq id = Some bs -> bs = py_v5_header_tx seq id) /\
  (header_tx 8 seq id = Some bs -> bs = py_v8_header_tx seq id).
Proof. intros; repeat split; [apply src_header_tx4 | apply src_header_tx5 | apply src_header_tx8]. Qed.

Lemma src_header_rx_all : forall d,
  header_rx 4 d = py_v4_header_rx d /\ header_rx 5 d = py_v5_header_rx d /\ header_rx 8 d = py_v8_header_rx d.
Proof. intros; repeat split; [apply src_header_rx4 | apply src_header_rx5 | apply src_header_rx8]. Qed.
