(* C05, positive halves -- over model/AshHost.v: if the awaited thing arrives (an acknowledgement,
   an ERROR frame, a NAK, the deadline), the current send completes / repeats / fails accordingly.
   The per-step theorems hold in every state; [cfrm_lt_8] supplies the one arithmetic side condition
   (the current frame number is below 8) for every state reached by [host_run] from [h_init]. *)
From Coq Require Import PrimFloat NArith List Bool Lia ZifyBool ZifyN Arith.
Import ListNotations.
Require Import BV.gen.GenAsh BV.model.AshCodec BV.model.AshRx BV.model.AshHost.
Require Import BV.proofs.AshHost_proofs.
Open Scope N_scope.

(* ---- a read that holds one frame ---------------------------------------------------------------- *)
Lemma step_frame1_eq : forall st f,
  host_step st (Frames [f]) =
  (fst (settle (fst (apply_frame st f))),
   snd (apply_frame st f) ++ snd (settle (fst (apply_frame st f)))).
Proof.
  intros st f. rewrite step_frames_eq, apply_frames_cons. cbn [apply_frames fst snd].
  rewrite app_nil_r. reflexivity.
Qed.

Lemma in_step_frame1 : forall st f x,
  In x (snd (settle (fst (apply_frame st f)))) -> In x (snd (host_step st (Frames [f]))).
Proof. intros st f x H. rewrite step_frame1_eq. cbn [snd]. apply in_or_app. right. exact H. Qed.

Lemma af_cancelled : forall st f, cancelled (fst (apply_frame st f)) = cancelled st.
Proof. intros st f. destruct (af_misc st f) as (_ & _ & H & _). exact H. Qed.

Lemma done_out_live : forall st id o, memN id (cancelled st) = false -> done_out st id o = [HDone id o].
Proof. intros st id o H. unfold done_out. rewrite H. reflexivity. Qed.

(* ---- the resumed coroutine, by the value of the future ------------------------------------------ *)
Lemma settle_acked : forall s c, cur s = Some c -> cfut c = FAcked ->
  memN (cid c) (cancelled s) = false -> In (HDone (cid c) OOk) (snd (settle s)).
Proof.
  intros s c Hc Hf Hm. rewrite settle_eq, Hc, Hf. unfold close. cbn [snd].
  apply in_or_app. left. rewrite (done_out_live s _ _ Hm). left. reflexivity.
Qed.

Lemma settle_failed : forall s c code, cur s = Some c -> cfut c = FFailed code ->
  memN (cid c) (cancelled s) = false -> In (HDone (cid c) (OFailure code)) (snd (settle s)).
Proof.
  intros s c code Hc Hf Hm. rewrite settle_eq, Hc, Hf. unfold close. cbn [snd].
  apply in_or_app. left. rewrite (done_out_live s _ _ Hm). left. reflexivity.
Qed.

(* the attempt ended without an acknowledgement: budget left, the frame is repeated *)
Lemma retry_repeats : forall s c o, failed s = false -> (ACK_TIMEOUTS - 1 <=? cattempt c) = false ->
  retry_or_fail s c o =
  transmit s (cid c) (cpayload c) (cfrm c) (cattempt c + 1).
Proof. intros s c o Hf Hb. rewrite retry_or_fail_eq, Hb, Hf. reflexivity. Qed.

Lemma transmit_out : forall s id p frm a,
  snd (transmit s id p frm (a + 1)) = [HData id frm 1 (rx_seq s) p (now s)].
Proof. intros s id p frm a. unfold transmit. cbn [snd]. rewrite succ_neq0. reflexivity. Qed.

(* budget spent: the link fails, the upper layer is told, the caller gets [o] *)
Lemma retry_fails : forall s c o, (ACK_TIMEOUTS - 1 <=? cattempt c) = true ->
  In (HReset ERROR_EXCEEDED_MAXIMUM_ACK_TIMEOUT_COUNT) (snd (retry_or_fail s c o))
  /\ failed (fst (retry_or_fail s c o)) = true
  /\ (memN (cid c) (cancelled s) = false -> In (HDone (cid c) o) (snd (retry_or_fail s c o))).
Proof.
  intros s c o Hb. rewrite retry_or_fail_eq, Hb.
  destruct (close_cases (set_failed s true)
              (HReset ERROR_EXCEEDED_MAXIMUM_ACK_TIMEOUT_COUNT :: done_out s (cid c) o))
    as [(oF & _ & Heq & _)|(id & p & ws & Hf & _)].
  2:{ cbn [set_failed failed] in Hf. discriminate. }
  rewrite Heq. cbn [fst snd flushed set_failed failed].
  split; [left; reflexivity|]. split; [reflexivity|].
  intro Hm. right. apply in_or_app. left. rewrite (done_out_live s _ _ Hm). left. reflexivity.
Qed.

(* ---- arithmetic of the acknowledgement number --------------------------------------------------- *)
Lemma ack_names : forall x, x < 8 -> (((x + 1) mod 8 + 7) mod 8 =? x) = true.
Proof.
  intros x Hx. apply N.eqb_eq.
  assert (H : x = 0 \/ x = 1 \/ x = 2 \/ x = 3 \/ x = 4 \/ x = 5 \/ x = 6 \/ x = 7) by lia.
  destruct H as [H|[H|[H|[H|[H|[H|[H|H]]]]]]]; subst x; reflexivity.
Qed.

(* the hypothesis [cfrm c < 8] cannot be dropped from [ack_completes]: handle_ack compares
   (ack + 7) mod 8, which is below 8, with the frame number itself *)
Lemma ack_names_needs_bound : (((9 + 1) mod 8 + 7) mod 8 =? 9) = false.
Proof. reflexivity. Qed.

(* ---- the future after one frame ----------------------------------------------------------------- *)
Lemma af_ack_cur : forall st c a, cur st = Some c -> cfut c = FPending -> cfrm c < 8 ->
  a = (cfrm c + 1) mod 8 ->
  cur (handle_ack st a) = Some (set_fut c FAcked).
Proof.
  intros st c a Hc Hf Hlt Ha. rewrite (handle_ack_cur st c a Hc). subst a.
  rewrite (ack_names _ Hlt), Hf. reflexivity.
Qed.

(* ---- A1, A2: the acknowledgement of the current frame completes the send ------------------------ *)
Theorem ack_completes : forall st c r n,
  cur st = Some c -> cfut c = FPending -> memN (cid c) (cancelled st) = false -> cfrm c < 8 ->
  In (HDone (cid c) OOk) (snd (host_step st (Frames [Ack r n ((cfrm c + 1) mod 8)]))).
Proof.
  intros st c r n Hc Hf Hm Hlt. apply in_step_frame1.
  apply (settle_acked _ (set_fut c FAcked)).
  - rewrite apply_frame_eq. cbn [fst set_rx cur core].
    apply (af_ack_cur st c _ Hc Hf Hlt eq_refl).
  - reflexivity.
  - rewrite af_cancelled. exact Hm.
Qed.

Theorem data_ack_completes : forall st c frm re p,
  cur st = Some c -> cfut c = FPending -> memN (cid c) (cancelled st) = false -> cfrm c < 8 ->
  In (HDone (cid c) OOk) (snd (host_step st (Frames [Data frm re ((cfrm c + 1) mod 8) p]))).
Proof.
  intros st c frm re p Hc Hf Hm Hlt. apply in_step_frame1.
  apply (settle_acked _ (set_fut c FAcked)).
  - rewrite apply_frame_eq. cbn [fst set_rx cur core].
    apply (af_ack_cur st c _ Hc Hf Hlt eq_refl).
  - reflexivity.
  - rewrite af_cancelled. exact Hm.
Qed.

(* ---- A3: an ERROR frame fails the current send and is reported upward --------------------------- *)
Theorem error_fails_current : forall st c v code,
  cur st = Some c -> cfut c = FPending -> memN (cid c) (cancelled st) = false ->
  In (HDone (cid c) (OFailure code)) (snd (host_step st (Frames [Error v code])))
  /\ In (HReset code) (snd (host_step st (Frames [Error v code]))).
Proof.
  intros st c v code Hc Hf Hm. split.
  - apply in_step_frame1. apply (settle_failed _ (set_fut c (FFailed code))).
    + rewrite apply_frame_eq. cbn [fst set_rx cur core].
      assert (Hc' : cur (set_failed st true) = Some c) by exact Hc.
      rewrite (resolve_cur _ _ (FFailed code) Hc'), Hf. reflexivity.
    + reflexivity.
    + rewrite af_cancelled. exact Hm.
  - apply (error_reported st [Error v code] v code). left. reflexivity.
Qed.

(* ---- A4: a NAK that does not also acknowledge the frame ----------------------------------------- *)
Lemma af_nak : forall st c r n a, cur st = Some c -> cfut c = FPending ->
  ((a + 7) mod 8 =? cfrm c) = false ->
  cur (fst (apply_frame st (Nak r n a))) = Some (set_fut c FNaked)
  /\ failed (fst (apply_frame st (Nak r n a))) = failed st
  /\ cancelled (fst (apply_frame st (Nak r n a))) = cancelled st.
Proof.
  intros st c r n a Hc Hf Hna. split; [|split; [|apply af_cancelled]].
  - rewrite apply_frame_eq. cbn [fst set_rx cur core].
    pose proof (handle_ack_cur st c a Hc) as H1. rewrite Hna, set_fut_same in H1.
    rewrite (resolve_cur _ _ FNaked H1), Hf. reflexivity.
  - rewrite apply_frame_eq. cbn [fst set_rx failed core].
    destruct (resolve_misc (handle_ack st a) FNaked) as (_ & K & _).
    destruct (handle_ack_misc st a) as (_ & K' & _). rewrite K, K'. reflexivity.
Qed.

Lemma settle_naked : forall s c, cur s = Some c -> cfut c = FNaked ->
  exists ta, settle s = retry_or_fail (set_t s ta) c ONotAcked.
Proof. intros s c Hc Hf. rewrite settle_eq, Hc, Hf. eexists. reflexivity. Qed.

Theorem nak_repeats_or_fails : forall st c r n a,
  cur st = Some c -> cfut c = FPending -> failed st = false ->
  ((a + 7) mod 8 =? cfrm c) = false ->
  ((ACK_TIMEOUTS - 1 <=? cattempt c) = false ->
     exists t ack, In (HData (cid c) (cfrm c) 1 ack (cpayload c) t)
                      (snd (host_step st (Frames [Nak r n a]))))
  /\ ((ACK_TIMEOUTS - 1 <=? cattempt c) = true ->
        In (HReset ERROR_EXCEEDED_MAXIMUM_ACK_TIMEOUT_COUNT) (snd (host_step st (Frames [Nak r n a])))
        /\ failed (fst (host_step st (Frames [Nak r n a]))) = true
        /\ (memN (cid c) (cancelled st) = false ->
              In (HDone (cid c) ONotAcked) (snd (host_step st (Frames [Nak r n a]))))).
Proof.
  intros st c r n a Hc Hf Hfl Hna.
  destruct (af_nak st c r n a Hc Hf Hna) as (Hc1 & Hf1 & Hca1).
  destruct (settle_naked _ _ Hc1 eq_refl) as (ta & Hs).
  split; intro Hb.
  - eexists. eexists. apply in_step_frame1. rewrite Hs.
    rewrite retry_repeats; [|cbn [set_t failed]; rewrite Hf1; exact Hfl|exact Hb].
    cbn [set_fut cid cpayload cfrm cattempt]. rewrite transmit_out. left. reflexivity.
  - destruct (retry_fails (set_t (fst (apply_frame st (Nak r n a))) ta) (set_fut c FNaked) ONotAcked Hb)
      as (H1 & H2 & H3).
    rewrite <- Hs in H1, H2, H3. cbn [set_fut cid set_t cancelled] in H3. rewrite Hca1 in H3.
    split; [apply in_step_frame1; exact H1|]. split.
    + rewrite step_frame1_eq. cbn [fst]. exact H2.
    + intro Hm. apply in_step_frame1. exact (H3 Hm).
Qed.

(* the side condition on the NAK's acknowledgement number cannot be dropped: a NAK whose
   acknowledgement number names the frame in flight acknowledges it (handle_ack runs first) *)
Example nak_that_acknowledges :
  let st := fst (host_run h_init [Submit 3 [1]]) in
  filter (fun o => match o with HDone _ _ | HData _ _ _ _ _ _ => true | _ => false end)
         (snd (host_step st (Frames [Nak 0 0 1]))) = [HDone 3 OOk].
Proof. vm_compute. reflexivity. Qed.

(* ---- A5: the deadline passes ---------------------------------------------------------------------- *)
Theorem tick_repeats_or_fails : forall st c,
  cur st = Some c -> cfut c = FPending -> failed st = false ->
  ((ACK_TIMEOUTS - 1 <=? cattempt c) = false ->
     exists t ack, In (HData (cid c) (cfrm c) 1 ack (cpayload c) t) (snd (host_step st Tick)))
  /\ ((ACK_TIMEOUTS - 1 <=? cattempt c) = true ->
        In (HReset ERROR_EXCEEDED_MAXIMUM_ACK_TIMEOUT_COUNT) (snd (host_step st Tick))
        /\ failed (fst (host_step st Tick)) = true
        /\ (memN (cid c) (cancelled st) = false -> In (HDone (cid c) OTimeout) (snd (host_step st Tick)))).
Proof.
  intros st c Hc Hf Hfl.
  assert (Hs : host_step st Tick =
               retry_or_fail (set_t (set_now st (cdeadline c)) (on_timeout (t_ack st))) c OTimeout).
  { cbn [host_step]. rewrite Hc, Hf. reflexivity. }
  rewrite Hs. split; intro Hb.
  - eexists. eexists. rewrite retry_repeats; [|exact Hfl|exact Hb].
    rewrite transmit_out. left. reflexivity.
  - exact (retry_fails _ c OTimeout Hb).
Qed.

(* ---- A1': frame numbers of reachable states are below 8 ------------------------------------------- *)
Definition BInv (st : hstate) : Prop := tx_seq st < 8 /\ forall c, cur st = Some c -> cfrm c < 8.

Lemma mod8_lt : forall a, a mod 8 < 8.
Proof. intro a. apply N.mod_lt. discriminate. Qed.

Lemma closed_binv : forall s c k r, closed s c k r -> tx_seq s < 8 -> cfrm c < 8 -> BInv (fst r).
Proof.
  intros s c k r Hcl Ht Hcf.
  destruct Hcl as [pre o oF fl Hpre Ho HoF Hfl Hw|o id' p' ws Ho Hk Hf Hw|Hk Hf Hlt];
    unfold transmit; cbn [fst]; split; cbn [flushed started set_failed tx_seq cur]; try exact Ht.
  - intros c' H. discriminate.
  - apply mod8_lt.
  - intros c' H. injection H as H. subst c'. exact Ht.
  - intros c' H. injection H as H. subst c'. exact Hcf.
Qed.

Lemma af_binv : forall st f, BInv st -> BInv (fst (apply_frame st f)).
Proof.
  intros st f [Ht Hd]. split.
  - rewrite apply_frame_eq. cbn [fst set_rx tx_seq].
    destruct f as [frm re a p|res nr a|res nr a| |v code|v code]; cbn [core].
    + destruct (handle_ack_misc st a) as (K & _). rewrite K. exact Ht.
    + destruct (handle_ack_misc st a) as (K & _). rewrite K. exact Ht.
    + destruct (resolve_misc (handle_ack st a) FNaked) as (K & _).
      destruct (handle_ack_misc st a) as (K' & _). rewrite K, K'. exact Ht.
    + exact Ht.
    + cbn [tx_seq]. reflexivity.
    + destruct (resolve_misc (set_failed st true) (FFailed code)) as (K & _). rewrite K. exact Ht.
  - intros c' Hc'. destruct (cur st) as [c|] eqn:Hc.
    + destruct (af_cur st f c Hc) as (y & _ & Hc1). rewrite Hc1 in Hc'. injection Hc' as Hc'. subst c'.
      exact (Hd c eq_refl).
    + destruct (af_misc st f) as (_ & _ & _ & K). rewrite (K Hc) in Hc'. discriminate.
Qed.

Lemma afs_binv : forall fs st, BInv st -> BInv (fst (apply_frames st fs)).
Proof.
  induction fs as [|f fs IH]; intros st H; [exact H|].
  rewrite apply_frames_cons. cbn [fst]. apply IH. apply af_binv. exact H.
Qed.

Lemma step_binv : forall st e, BInv st -> BInv (fst (host_step st e)).
Proof.
  intros st e HB. pose proof HB as [Ht Hd].
  destruct e as [id p|fs| |t|id].
  - rewrite step_submit_eq. destruct (cur st) as [c|] eqn:Hc.
    + cbn [fst]. split; cbn [queued tx_seq cur]; [exact Ht|]. rewrite Hc. exact Hd.
    + destruct (sn_cases (submitted st id p) eq_refl)
        as [(oF & HoF & Heq & _)|(id' & p' & ws & Hf' & Hw & Heq)]; rewrite Heq; cbn [fst];
        split; cbn [flushed started submitted tx_seq cur]; try exact Ht.
      * intros c' H. discriminate.
      * apply mod8_lt.
      * intros c' H. injection H as H. subst c'. exact Ht.
  - rewrite step_frames_eq. cbn [fst].
    pose proof (afs_binv fs st HB) as [Ht1 Hd1].
    destruct (settle_spec (fst (apply_frames st fs)))
      as [[E _]|(c & k & ta & Hc & Hfu & Hk & Hta & Hcl)].
    + rewrite E. split; assumption.
    + apply (closed_binv _ _ _ _ Hcl); [exact Ht1|exact (Hd1 c Hc)].
  - destruct (tick_spec st) as [[E _]|(c & ta & Hc & Hfu & Hta & Hcl)].
    + rewrite E. exact HB.
    + apply (closed_binv _ _ _ _ Hcl); [exact Ht|exact (Hd c Hc)].
  - destruct (step_wait_cases st t) as [_ [Es|Es]]; rewrite Es; [exact HB|]. exact HB.
  - destruct (step_cancel_cases st id) as [E|E]; rewrite E; exact HB.
Qed.

Lemma binv_run : forall es, BInv (fst (host_run h_init es)).
Proof.
  induction es as [|e es IH] using rev_ind.
  - split; [reflexivity|]. intros c H. discriminate.
  - change (BInv (final (es ++ [e]))). rewrite final_snoc. apply step_binv. exact IH.
Qed.

Theorem cfrm_lt_8 : forall es c, cur (fst (host_run h_init es)) = Some c -> cfrm c < 8.
Proof. intros es c Hc. destruct (binv_run es) as [_ H]. exact (H c Hc). Qed.

(* A1 and A2 for every state a run reaches, without the side condition *)
Corollary ack_completes_run : forall es c r n, let st := fst (host_run h_init es) in
  cur st = Some c -> cfut c = FPending -> memN (cid c) (cancelled st) = false ->
  In (HDone (cid c) OOk) (snd (host_step st (Frames [Ack r n ((cfrm c + 1) mod 8)]))).
Proof. intros es c r n st Hc Hf Hm. apply ack_completes; try assumption. exact (cfrm_lt_8 es c Hc). Qed.

Corollary data_ack_completes_run : forall es c frm re p, let st := fst (host_run h_init es) in
  cur st = Some c -> cfut c = FPending -> memN (cid c) (cancelled st) = false ->
  In (HDone (cid c) OOk) (snd (host_step st (Frames [Data frm re ((cfrm c + 1) mod 8) p]))).
Proof. intros es c frm re p st Hc Hf Hm. apply data_ack_completes; try assumption. exact (cfrm_lt_8 es c Hc). Qed.

(* ---- the hypotheses are satisfiable from a real run ----------------------------------------------- *)
Example ack_completes_witness :
  let st := fst (host_run h_init [Submit 3 [1]]) in
  match cur st with
  | Some c => cid c = 3 /\ cfrm c = 0 /\ cfut c = FPending /\ memN (cid c) (cancelled st) = false
              /\ (cfrm c <? 8) = true
              /\ snd (host_step st (Frames [Ack 0 0 ((cfrm c + 1) mod 8)])) = [HDone 3 OOk]
  | None => False
  end.
Proof. vm_compute. repeat split; reflexivity. Qed.
