(* Positive halves for C06 (model/EzspProto.v): if the awaited thing arrives, the call completes accordingly.
   Reuses the invariant [Inv] and [reachable] of proofs/EzspProto_proofs.v.

   Already present, not repeated: release hands the slot to the head of the queue (head_starts,
   c06_head_starts) -- stated on [release]; [slot_handed_on] below is its step-level form. *)
From Coq Require Import String ZArith NArith List Bool Lia.
Import ListNotations.
Require Import BV.lib.EzspTypes BV.model.EzspCodec BV.model.EzspProto BV.proofs.EzspProto_proofs.
Open Scope N_scope.

(* ---- what a frame under a pending sequence number is turned into ---------------------------------------- *)
Lemma frame_own : forall st s f id vs, aw_get s (p_awaiting st) = Some (f, id) ->
  proto_step st (EFrame (DOk s f false vs)) = deliver (pop_awaiting st s) id (RValues vs).
Proof. intros st s f id vs A. cbn [proto_step]. rewrite A. cbv zeta. rewrite N.eqb_refl. reflexivity. Qed.

Lemma frame_invalid : forall st s f f' id vs, aw_get s (p_awaiting st) = Some (f, id) ->
  proto_step st (EFrame (DOk s f' true vs)) = deliver (pop_awaiting st s) id RInvalidCommand.
Proof. intros st s f f' id vs A. cbn [proto_step]. rewrite A. reflexivity. Qed.

(* a reply delivered to a call that waits and has none yet ends it at once ... *)
Lemma deliver_waiting : forall st id c r, call_get id (p_calls st) = Some c ->
  k_stage c = PWaiting -> k_reply c = RNone ->
  deliver st id r =
    match r with
    | RValues vs => finish st id (OReturn id vs)
    | RInvalidCommand => finish st id (ORaise id KInvalidCommand)
    | RNone => (with_calls st (call_set (set_reply c RNone) (p_calls st)), [])
    end.
Proof.
  intros st id c r G S R. unfold deliver. rewrite G. cbv zeta.
  change (k_stage (set_reply c r)) with (k_stage c). rewrite S.
  assert (Hid : k_id (set_reply c r) = id) by (cbn; apply call_get_In in G; tauto).
  assert (Hr : k_reply (set_reply c r) = r) by (cbn [set_reply k_reply]; rewrite R; reflexivity).
  unfold complete_with_reply. rewrite Hr. destruct r as [|vs|].
  - reflexivity.
  - rewrite finish_after_set by (rewrite Hid, G; discriminate). rewrite Hid. reflexivity.
  - rewrite finish_after_set by (rewrite Hid, G; discriminate). rewrite Hid. reflexivity.
Qed.

(* ... and to a call whose send_data has not returned yet it is only recorded *)
Lemma deliver_sending : forall st id c r, call_get id (p_calls st) = Some c -> k_stage c = PSending ->
  deliver st id r = (with_calls st (call_set (set_reply c r) (p_calls st)), []).
Proof.
  intros st id c r G S. unfold deliver. rewrite G. cbv zeta.
  change (k_stage (set_reply c r)) with (k_stage c). rewrite S. reflexivity.
Qed.

Lemma finish_ends : forall st id o, NoDup (ids (p_calls st)) ->
  call_get id (p_calls (fst (finish st id o))) = None.
Proof.
  intros st id o ND. apply call_get_None. intros F. rewrite finish_fst in F. apply release_ids in F.
  cbn [with_calls p_calls] in F. revert F. apply call_get_None.
  rewrite (call_get_del id id _ ND), N.eqb_refl. reflexivity.
Qed.

(* ---- A1: the call's own response completes it with exactly the payload ------------------------------------ *)
Theorem own_response_returns : forall st s f vs id c, reachable st ->
  aw_get s (p_awaiting st) = Some (f, id) -> call_get id (p_calls st) = Some c -> k_stage c = PWaiting ->
  In (OReturn id vs) (snd (proto_step st (EFrame (DOk s f false vs)))) /\
  call_get id (p_calls (fst (proto_step st (EFrame (DOk s f false vs))))) = None.
Proof.
  intros st s f vs id c R A G S. apply reachable_Inv in R.
  assert (Rp : k_reply c = RNone) by exact (iv_wait _ _ _ R id c G S).
  rewrite (frame_own st s f id vs A).
  rewrite (deliver_waiting (pop_awaiting st s) id c (RValues vs) G S Rp). split.
  - rewrite finish_snd. left. reflexivity.
  - apply finish_ends. exact (iv_nodup _ _ _ R).
Qed.

(* ---- A2: an invalidCommand frame under the pending number raises, whatever frame id it names ------------- *)
Theorem invalid_command_raises : forall st s f f' vs id c, reachable st ->
  aw_get s (p_awaiting st) = Some (f, id) -> call_get id (p_calls st) = Some c -> k_stage c = PWaiting ->
  In (ORaise id KInvalidCommand) (snd (proto_step st (EFrame (DOk s f' true vs)))) /\
  call_get id (p_calls (fst (proto_step st (EFrame (DOk s f' true vs))))) = None.
Proof.
  intros st s f f' vs id c R A G S. apply reachable_Inv in R.
  assert (Rp : k_reply c = RNone) by exact (iv_wait _ _ _ R id c G S).
  rewrite (frame_invalid st s f f' id vs A).
  rewrite (deliver_waiting (pop_awaiting st s) id c RInvalidCommand G S Rp). split.
  - rewrite finish_snd. left. reflexivity.
  - apply finish_ends. exact (iv_nodup _ _ _ R).
Qed.

(* ---- A1' / A2': the response overtakes the return of send_data: two steps ---------------------------------- *)
(* step 1: the reply is recorded, nothing is output, the call keeps sending (here under the explicit
   hypothesis that no reply is recorded yet; see response_recorded_while_sending below) *)
Lemma response_recorded_unanswered : forall st s f vs id c,
  aw_get s (p_awaiting st) = Some (f, id) -> call_get id (p_calls st) = Some c ->
  k_stage c = PSending -> k_reply c = RNone ->
  snd (proto_step st (EFrame (DOk s f false vs))) = [] /\
  exists c', call_get id (p_calls (fst (proto_step st (EFrame (DOk s f false vs))))) = Some c' /\
             k_stage c' = PSending /\ k_reply c' = RValues vs.
Proof.
  intros st s f vs id c A G S Rp. rewrite (frame_own st s f id vs A).
  rewrite (deliver_sending (pop_awaiting st s) id c (RValues vs) G S). split; [reflexivity|].
  exists (set_reply c (RValues vs)). cbn [fst with_calls p_calls pop_awaiting].
  rewrite call_get_set. cbn [set_reply k_id k_stage k_reply].
  assert (Hid : k_id c = id) by (apply call_get_In in G; tauto).
  rewrite Hid, N.eqb_refl, Rp. split; [reflexivity|]. split; [exact S|reflexivity].
Qed.

Lemma invalid_recorded_unanswered : forall st s f f' vs id c,
  aw_get s (p_awaiting st) = Some (f, id) -> call_get id (p_calls st) = Some c ->
  k_stage c = PSending -> k_reply c = RNone ->
  snd (proto_step st (EFrame (DOk s f' true vs))) = [] /\
  exists c', call_get id (p_calls (fst (proto_step st (EFrame (DOk s f' true vs))))) = Some c' /\
             k_stage c' = PSending /\ k_reply c' = RInvalidCommand.
Proof.
  intros st s f f' vs id c A G S Rp. rewrite (frame_invalid st s f f' id vs A).
  rewrite (deliver_sending (pop_awaiting st s) id c RInvalidCommand G S). split; [reflexivity|].
  exists (set_reply c RInvalidCommand). cbn [fst with_calls p_calls pop_awaiting].
  rewrite call_get_set. cbn [set_reply k_id k_stage k_reply].
  assert (Hid : k_id c = id) by (apply call_get_In in G; tauto).
  rewrite Hid, N.eqb_refl, Rp. split; [reflexivity|]. split; [exact S|reflexivity].
Qed.

(* step 2: when send_data returns, the recorded reply completes the call (in any state) *)
Lemma sdone_recorded : forall st id c, call_get id (p_calls st) = Some c -> k_stage c = PSending ->
  proto_step st (ESendDone id true) =
    match k_reply c with
    | RValues vs => finish st id (OReturn id vs)
    | RInvalidCommand => finish st id (ORaise id KInvalidCommand)
    | RNone => (with_calls st (call_set (set_stage c PWaiting) (p_calls st)), [])
    end.
Proof.
  intros st id c G S. cbn [proto_step]. rewrite G, S. cbv zeta. unfold complete_with_reply.
  assert (Hid : k_id (set_stage c PWaiting) = id) by (cbn; apply call_get_In in G; tauto).
  change (k_reply (set_stage c PWaiting)) with (k_reply c).
  destruct (k_reply c) as [|vs|].
  - reflexivity.
  - rewrite finish_after_set by (rewrite Hid, G; discriminate). rewrite Hid. reflexivity.
  - rewrite finish_after_set by (rewrite Hid, G; discriminate). rewrite Hid. reflexivity.
Qed.

Theorem recorded_response_returns : forall st id c vs, call_get id (p_calls st) = Some c ->
  k_stage c = PSending -> k_reply c = RValues vs ->
  In (OReturn id vs) (snd (proto_step st (ESendDone id true))).
Proof.
  intros st id c vs G S Rp. rewrite (sdone_recorded st id c G S), Rp, finish_snd. left. reflexivity.
Qed.

Theorem recorded_invalid_raises : forall st id c, call_get id (p_calls st) = Some c ->
  k_stage c = PSending -> k_reply c = RInvalidCommand ->
  In (ORaise id KInvalidCommand) (snd (proto_step st (ESendDone id true))).
Proof.
  intros st id c G S Rp. rewrite (sdone_recorded st id c G S), Rp, finish_snd. left. reflexivity.
Qed.

(* ---- a further invariant: awaiting entries of calls in progress ----------------------------------------- *)
Definition AwC (aw : list (N * (N * N))) (cs : list pcall) : Prop :=
  forall s f id c, In (s, (f, id)) aw -> call_get id cs = Some c ->
    k_stage c <> PQueued /\ k_reply c = RNone /\ k_seq c = s /\ k_fid c = f.
Definition AwJ (st : pstate) : Prop :=
  NoDup (map fst (p_awaiting st)) /\ AwC (p_awaiting st) (p_calls st).
Definition AllQueued (cs : list pcall) : Prop :=
  forall x cx, call_get x cs = Some cx -> k_stage cx = PQueued.

Lemma keys_aw_set : forall x s v l, In x (map fst (aw_set s v l)) -> x = s \/ In x (map fst l).
Proof.
  intros x s v l H. apply in_map_iff in H. destruct H as [[s0 v0] [E H]]. cbn [fst] in E. subst s0.
  apply In_aw_set in H. destruct H as [H|H].
  - left. inversion H. reflexivity.
  - right. apply in_map_iff. exists (x, v0). split; [reflexivity|exact H].
Qed.

Lemma NoDup_aw_set : forall s v l, NoDup (map fst l) -> NoDup (map fst (aw_set s v l)).
Proof.
  induction l as [|[s' v'] l IH]; intros ND; cbn [aw_set].
  - cbn. constructor; [intros []|constructor].
  - cbn [map fst] in ND. inversion ND as [|y ys Hn ND']; subst.
    destruct (N.eqb_spec s' s) as [E|E]; cbn [map fst].
    + rewrite <- E. constructor; assumption.
    + constructor; [|exact (IH ND')]. intros F. apply keys_aw_set in F.
      destruct F as [F|F]; [exact (E F)|exact (Hn F)].
Qed.

Lemma NoDup_aw_del : forall s l, NoDup (map fst l) -> NoDup (map fst (aw_del s l)).
Proof.
  induction l as [|[s' v'] l IH]; intros ND; cbn [aw_del]; [exact ND|].
  cbn [map fst] in ND. inversion ND as [|y ys Hn ND']; subst.
  destruct (s' =? s); [exact ND'|]. cbn [map fst].
  constructor; [|exact (IH ND')]. intros F. apply Hn.
  apply in_map_iff in F. destruct F as [x [E F]]. apply In_aw_del in F.
  apply in_map_iff. exists x. split; assumption.
Qed.

Lemma aw_del_key : forall s s2 v l, NoDup (map fst l) -> In (s2, v) (aw_del s l) -> s2 <> s.
Proof.
  induction l as [|[s' v'] l IH]; intros ND H; cbn [aw_del] in H; [destruct H|].
  cbn [map fst] in ND. inversion ND as [|y ys Hn ND']; subst.
  destruct (N.eqb_spec s' s) as [E|E].
  - intros F. subst. apply Hn. apply in_map_iff. exists (s, v). split; [reflexivity|exact H].
  - destruct H as [H|H]; [inversion H; subst; exact E|exact (IH ND' H)].
Qed.

Lemma start_J : forall st c, NoDup (map fst (p_awaiting st)) -> AllQueued (p_calls st) ->
  AwC (p_awaiting st) (p_calls st) -> (forall s f, ~ In (s, (f, k_id c)) (p_awaiting st)) ->
  AwJ (fst (start_call st c)).
Proof.
  intros st c ND Q J Hno. unfold AwJ, start_call. cbn [fst p_awaiting p_calls]. split.
  - apply NoDup_aw_set. exact ND.
  - intros s0 f0 i0 c0 H G. apply In_aw_set in H. rewrite call_get_set in G. cbn [k_id] in G.
    destruct H as [H|H].
    + inversion H; subst s0 f0 i0. rewrite N.eqb_refl in G. inversion G; subst c0. cbn.
      split; [discriminate|]. split; [reflexivity|]. split; reflexivity.
    + destruct (N.eqb_spec (k_id c) i0) as [E|E].
      * subst i0. destruct (Hno _ _ H).
      * exfalso. destruct (J _ _ _ _ H G) as [S _]. exact (S (Q _ _ G)).
Qed.

Lemma release_J : forall st, NoDup (map fst (p_awaiting st)) -> AllQueued (p_calls st) ->
  AwC (p_awaiting st) (p_calls st) -> AwJ (fst (release st)).
Proof.
  intros st ND Q J. unfold release. destruct (p_queue st) as [|[[p n] h] q'].
  - split; assumption.
  - destruct (call_get h (p_calls st)) as [c|] eqn:G; [|split; assumption].
    apply start_J; cbn [p_awaiting p_calls]; try assumption.
    intros s f H. assert (Hid : k_id c = h) by (apply call_get_In in G; tauto). rewrite Hid in H.
    destruct (J _ _ _ _ H G) as [S _]. exact (S (Q _ _ G)).
Qed.

Lemma finish_J : forall st id c o, Inv st -> AwJ st -> call_get id (p_calls st) = Some c ->
  k_stage c <> PQueued -> AwJ (fst (finish st id o)).
Proof.
  intros st id c o I [ND J] G S. rewrite finish_fst.
  assert (Hsub : forall x cx, call_get x (call_del id (p_calls st)) = Some cx ->
                   x <> id /\ call_get x (p_calls st) = Some cx).
  { intros x cx. rewrite (call_get_del x id _ (iv_nodup _ _ _ I)).
    destruct (N.eqb_spec id x) as [E|E]; [discriminate|]. intros H. split; [intros F; exact (E (eq_sym F))|exact H]. }
  apply release_J; cbn [with_calls p_awaiting p_calls].
  - exact ND.
  - intros x cx Gx. destruct (Hsub x cx Gx) as [Hne Gx'].
    destruct (k_stage cx) eqn:Sx; [reflexivity| |]; exfalso.
    + assert (H1 : p_holder st = Some x) by (apply (iv_hold _ _ _ I x cx Gx'); rewrite Sx; discriminate).
      assert (H2 : p_holder st = Some id) by exact (iv_hold _ _ _ I id c G S). congruence.
    + assert (H1 : p_holder st = Some x) by (apply (iv_hold _ _ _ I x cx Gx'); rewrite Sx; discriminate).
      assert (H2 : p_holder st = Some id) by exact (iv_hold _ _ _ I id c G S). congruence.
  - intros s0 f0 i0 c0 H G0. destruct (Hsub i0 c0 G0) as [_ G0']. exact (J _ _ _ _ H G0').
Qed.

(* one call record replaced *)
Lemma upd_J : forall st id c', AwJ st -> k_id c' = id ->
  (forall s f, In (s, (f, id)) (p_awaiting st) ->
     k_stage c' <> PQueued /\ k_reply c' = RNone /\ k_seq c' = s /\ k_fid c' = f) ->
  AwJ (with_calls st (call_set c' (p_calls st))).
Proof.
  intros st id c' [ND J] Hid Hc. split; cbn [with_calls p_awaiting p_calls]; [exact ND|].
  intros s0 f0 i0 c0 H G. rewrite call_get_set, Hid in G.
  destruct (N.eqb_spec id i0) as [E|E].
  - subst i0. inversion G; subst c0. exact (Hc _ _ H).
  - exact (J _ _ _ _ H G).
Qed.

Lemma pop_J : forall st s expected call, AwJ st -> aw_get s (p_awaiting st) = Some (expected, call) ->
  AwJ (pop_awaiting st s) /\
  (forall c, call_get call (p_calls st) = Some c ->
     forall s2 f2, ~ In (s2, (f2, call)) (p_awaiting (pop_awaiting st s))).
Proof.
  intros st s expected call [ND J] A. split; [split|]; cbn [pop_awaiting p_awaiting p_calls].
  - apply NoDup_aw_del. exact ND.
  - intros s0 f0 i0 c0 H G. apply In_aw_del in H. exact (J _ _ _ _ H G).
  - intros c G s2 f2 H. pose proof (aw_del_key _ _ _ _ ND H) as Hne. apply In_aw_del in H.
    destruct (J _ _ _ _ H G) as (_ & _ & E2 & _).
    destruct (J _ _ _ _ (aw_get_In _ _ _ A) G) as (_ & _ & E1 & _). congruence.
Qed.

Lemma deliver_J : forall st call r, Inv st -> AwJ st -> r <> RNone ->
  (forall c, call_get call (p_calls st) = Some c -> forall s f, ~ In (s, (f, call)) (p_awaiting st)) ->
  AwJ (fst (deliver st call r)).
Proof.
  intros st call r I HJ Hr Hno. unfold deliver.
  destruct (call_get call (p_calls st)) as [c|] eqn:G; [|exact HJ]. cbv zeta.
  assert (Hid : k_id (set_reply c r) = call) by (cbn; apply call_get_In in G; tauto).
  assert (Hupd : AwJ (with_calls st (call_set (set_reply c r) (p_calls st)))).
  { apply (upd_J st call); [exact HJ|exact Hid|]. intros s f H. destruct (Hno c eq_refl s f H). }
  change (k_stage (set_reply c r)) with (k_stage c).
  destruct (k_stage c) eqn:S; [exact Hupd|exact Hupd|].
  unfold complete_with_reply.
  assert (Hfin : forall o, AwJ (fst (finish (with_calls st (call_set (set_reply c r) (p_calls st)))
                                           (k_id (set_reply c r)) o))).
  { intros o. rewrite finish_after_set by (rewrite Hid, G; discriminate). rewrite Hid.
    apply (finish_J st call c o I HJ G). rewrite S. discriminate. }
  destruct (k_reply (set_reply c r)) as [|vs|] eqn:R; [|apply Hfin|apply Hfin].
  exfalso. cbn [set_reply k_reply] in R. destruct (k_reply c); [exact (Hr R)|discriminate|discriminate].
Qed.

Lemma step_J : forall st e, Inv st -> AwJ st ->
  (forall id p f, e = ECall id p f ->
     call_get id (p_calls st) = None /\ forall s f', ~ In (s, (f', id)) (p_awaiting st)) ->
  AwJ (fst (proto_step st e)).
Proof.
  intros st e I HJ Hfresh. destruct e as [id prio fid|id ok|d|id|id].
  - destruct (Hfresh id prio fid eq_refl) as [Hnone Hno]. cbn [proto_step].
    set (c := {| k_id := id; k_prio := prio; k_fid := fid; k_seq := 0; k_stage := PQueued; k_reply := RNone |}).
    assert (Hq : forall q n, AwJ {| p_seq := p_seq st; p_awaiting := p_awaiting st; p_holder := p_holder st;
                 p_queue := q; p_counter := n; p_calls := call_set c (p_calls st) |}).
    { intros q n. destruct HJ as [ND J]. split; cbn [p_awaiting p_calls]; [exact ND|].
      intros s0 f0 i0 c0 H G. rewrite call_get_set in G. cbn [c k_id] in G.
      destruct (N.eqb_spec id i0) as [E|E]; [subst i0; destruct (Hno _ _ H)|exact (J _ _ _ _ H G)]. }
    destruct (p_holder st) as [h|] eqn:Hh; [apply Hq|].
    destruct (p_queue st) as [|y q]; [|apply Hq].
    cbn [fst]. destruct HJ as [ND J]. apply start_J; try assumption.
    + intros x cx Gx. destruct (k_stage cx) eqn:Sx; [reflexivity| |]; exfalso;
        assert (H1 : p_holder st = Some x) by (apply (iv_hold _ _ _ I x cx Gx); rewrite Sx; discriminate);
        congruence.
  - cbn [proto_step]. destruct (call_get id (p_calls st)) as [c|] eqn:G; [|exact HJ].
    destruct (k_stage c) eqn:S; [exact HJ| |exact HJ].
    assert (Sq : k_stage c <> PQueued) by (rewrite S; discriminate).
    destruct ok; [|exact (finish_J st id c _ I HJ G Sq)].
    pose proof (sdone_recorded st id c G S) as E. cbn [proto_step] in E. rewrite G, S in E. rewrite E.
    destruct (k_reply c) as [|vs|] eqn:R;
      [|exact (finish_J st id c _ I HJ G Sq)|exact (finish_J st id c _ I HJ G Sq)].
    cbn [fst]. apply (upd_J st id); [exact HJ|cbn; apply call_get_In in G; tauto|].
    intros s f H. destruct (proj2 HJ _ _ _ _ H G) as (_ & R1 & R2 & R3). cbn.
    split; [discriminate|]. split; [exact R1|]. split; assumption.
  - destruct d as [|s f|s f|s f inv vs]; try exact HJ. cbn [proto_step].
    destruct (aw_get s (p_awaiting st)) as [[expected call]|] eqn:A; [|exact HJ]. cbv zeta.
    destruct (pop_J st s expected call HJ A) as [HJ1 Hno].
    destruct inv.
    + apply deliver_J; [exact (Inv_pop st s I)|exact HJ1|discriminate|exact Hno].
    + destruct (expected =? f); [|exact HJ1].
      apply deliver_J; [exact (Inv_pop st s I)|exact HJ1|discriminate|exact Hno].
  - cbn [proto_step]. destruct (call_get id (p_calls st)) as [c|] eqn:G; [|exact HJ].
    destruct (k_stage c) eqn:S; [exact HJ|exact HJ|].
    destruct (k_reply c); [|exact HJ|exact HJ].
    apply (finish_J st id c _ I HJ G). rewrite S. discriminate.
  - cbn [proto_step]. destruct (call_get id (p_calls st)) as [c|] eqn:G; [|exact HJ].
    destruct (k_stage c) eqn:S.
    + destruct HJ as [ND J]. split; cbn [fst p_awaiting p_calls]; [exact ND|].
      intros s0 f0 i0 c0 H G0. rewrite (call_get_del i0 id _ (iv_nodup _ _ _ I)) in G0.
      destruct (id =? i0); [discriminate|]. exact (J _ _ _ _ H G0).
    + apply (finish_J st id c _ I HJ G). rewrite S. discriminate.
    + apply (finish_J st id c _ I HJ G). rewrite S. discriminate.
Qed.

(* the calls named by awaiting entries come from ECall events *)
Definition aw_ids (l : list (N * (N * N))) : list N := map (fun x => snd (snd x)) l.

Lemma release_aw : forall st x, In x (aw_ids (p_awaiting (fst (release st)))) ->
  In x (aw_ids (p_awaiting st)) \/ In x (ids (p_calls st)).
Proof.
  intros st x. unfold release. destruct (p_queue st) as [|[[p n] h] q']; cbn [fst p_awaiting]; [tauto|].
  destruct (call_get h (p_calls st)) as [c|] eqn:G; cbn [fst start_call p_awaiting]; [|tauto].
  intros H. apply in_map_iff in H. destruct H as [y [E H]]. apply In_aw_set in H. destruct H as [H|H].
  - right. subst y x. cbn [snd]. apply call_get_In in G. apply in_map. tauto.
  - left. subst x. exact (in_map (fun z => snd (snd z)) _ _ H).
Qed.

Lemma finish_aw : forall st id o x, In x (aw_ids (p_awaiting (fst (finish st id o)))) ->
  In x (aw_ids (p_awaiting st)) \/ In x (ids (p_calls st)).
Proof.
  intros st id o x H. rewrite finish_fst in H. apply release_aw in H.
  cbn [with_calls p_awaiting p_calls] in H. destruct H as [H|H]; [left; exact H|right].
  exact (ids_call_del _ _ _ H).
Qed.

Lemma outcome_aw : forall st tgt ro res x, outcome st tgt ro res ->
  In x (aw_ids (p_awaiting (fst res))) -> In x (aw_ids (p_awaiting st)) \/ In x (ids (p_calls st)).
Proof.
  intros st tgt ro res x O. destruct O as [|id c c' _ _ _ _ _|id c vs _ _ _|id c k _ _]; cbn [fst].
  - tauto.
  - cbn [with_calls p_awaiting]. tauto.
  - apply finish_aw.
  - apply finish_aw.
Qed.

Lemma step_aw : forall st e x, In x (aw_ids (p_awaiting (fst (proto_step st e)))) ->
  In x (aw_ids (p_awaiting st)) \/ In x (ids (p_calls st)) \/ exists p f, e = ECall x p f.
Proof.
  intros st e x H.
  assert (W : In x (aw_ids (p_awaiting st)) \/ In x (ids (p_calls st)) ->
              In x (aw_ids (p_awaiting st)) \/ In x (ids (p_calls st)) \/ exists p f, e = ECall x p f) by tauto.
  destruct e as [id prio fid|id ok|d|id|id].
  - cbn [proto_step] in H.
    destruct (p_holder st); [left; exact H|]. destruct (p_queue st); [|left; exact H].
    cbn [fst start_call p_awaiting k_id k_fid] in H. apply in_map_iff in H. destruct H as [y [E H]].
    apply In_aw_set in H. destruct H as [H|H].
    + right. right. subst y x. cbn [snd]. eauto.
    + left. subst x. exact (in_map (fun z => snd (snd z)) _ _ H).
  - exact (W (outcome_aw _ _ _ _ _ (sdone_outcome st id ok) H)).
  - destruct d as [|s f|s f|s f inv vs]; try (left; exact H).
    destruct (aw_get s (p_awaiting st)) as [[expected call]|] eqn:A.
    + destruct (outcome_aw _ _ _ _ _ (frame_outcome st s f inv vs expected call A) H) as [H1|H1].
      * left. cbn [pop_awaiting p_awaiting] in H1. apply in_map_iff in H1. destruct H1 as [y [E H1]].
        apply In_aw_del in H1. subst x. exact (in_map (fun z => snd (snd z)) _ _ H1).
      * right. left. exact H1.
    + cbn [proto_step] in H. rewrite A in H. left. exact H.
  - exact (W (outcome_aw _ _ _ _ _ (timeout_outcome st id) H)).
  - destruct (cancel_outcome st id) as [O|[c [G [S E]]]].
    + exact (W (outcome_aw _ _ _ _ _ O H)).
    + rewrite E in H. left. exact H.
Qed.

Lemma reach_J : forall es, calls_unique es ->
  AwJ (final es) /\ (forall x, In x (aw_ids (p_awaiting (final es))) -> In x (calls es)).
Proof.
  induction es as [|e es IH] using rev_ind; intros U.
  - split; [split; [constructor|intros s f id c []]|intros x []].
  - apply calls_unique_snoc in U. destruct U as [U Hf]. destruct (IH U) as [HJ Hsub].
    destruct (reach_Inv es U) as [I Hids]. rewrite final_snoc. split.
    + apply step_J; [exact I|exact HJ|]. intros id p f E. split.
      * apply call_get_None. intros F. exact (Hf id p f E (Hids id F)).
      * intros s f' H. apply (Hf id p f E). apply Hsub.
        exact (in_map (fun z => snd (snd z)) _ _ H).
    + intros x Hx. rewrite calls_snoc. apply in_or_app. apply step_aw in Hx.
      destruct Hx as [Hx|[Hx|[p [f E]]]].
      * left. exact (Hsub x Hx).
      * left. exact (Hids x Hx).
      * right. subst e. left. reflexivity.
Qed.

(* in a reachable state, the call a pending sequence number is registered for -- if it is still in
   progress -- has been sent under exactly that number and frame id, and has no reply yet *)
Theorem awaiting_entry_unanswered : forall st s f id c, reachable st ->
  aw_get s (p_awaiting st) = Some (f, id) -> call_get id (p_calls st) = Some c ->
  k_stage c <> PQueued /\ k_reply c = RNone /\ k_seq c = s /\ k_fid c = f.
Proof.
  intros st s f id c [es [U E]] A G. subst st.
  exact (proj2 (proj1 (reach_J es U)) s f id c (aw_get_In _ _ _ A) G).
Qed.

(* step 1, for reachable states: the hypothesis "no reply recorded yet" is redundant there *)
Theorem response_recorded_while_sending : forall st s f vs id c, reachable st ->
  aw_get s (p_awaiting st) = Some (f, id) -> call_get id (p_calls st) = Some c -> k_stage c = PSending ->
  snd (proto_step st (EFrame (DOk s f false vs))) = [] /\
  exists c', call_get id (p_calls (fst (proto_step st (EFrame (DOk s f false vs))))) = Some c' /\
             k_stage c' = PSending /\ k_reply c' = RValues vs.
Proof.
  intros st s f vs id c R A G S.
  destruct (awaiting_entry_unanswered st s f id c R A G) as (_ & Rp & _).
  exact (response_recorded_unanswered st s f vs id c A G S Rp).
Qed.

Theorem invalid_recorded_while_sending : forall st s f f' vs id c, reachable st ->
  aw_get s (p_awaiting st) = Some (f, id) -> call_get id (p_calls st) = Some c -> k_stage c = PSending ->
  snd (proto_step st (EFrame (DOk s f' true vs))) = [] /\
  exists c', call_get id (p_calls (fst (proto_step st (EFrame (DOk s f' true vs))))) = Some c' /\
             k_stage c' = PSending /\ k_reply c' = RInvalidCommand.
Proof.
  intros st s f f' vs id c R A G S.
  destruct (awaiting_entry_unanswered st s f id c R A G) as (_ & Rp & _).
  exact (invalid_recorded_unanswered st s f f' vs id c A G S Rp).
Qed.

(* the two steps chained *)
Corollary response_then_send_done_returns : forall st s f vs id c, reachable st ->
  aw_get s (p_awaiting st) = Some (f, id) -> call_get id (p_calls st) = Some c -> k_stage c = PSending ->
  In (OReturn id vs)
     (snd (proto_step (fst (proto_step st (EFrame (DOk s f false vs)))) (ESendDone id true))).
Proof.
  intros st s f vs id c R A G S.
  destruct (response_recorded_while_sending st s f vs id c R A G S) as [_ [c' [G' [S' R']]]].
  exact (recorded_response_returns _ id c' vs G' S' R').
Qed.

Corollary invalid_then_send_done_raises : forall st s f f' vs id c, reachable st ->
  aw_get s (p_awaiting st) = Some (f, id) -> call_get id (p_calls st) = Some c -> k_stage c = PSending ->
  In (ORaise id KInvalidCommand)
     (snd (proto_step (fst (proto_step st (EFrame (DOk s f' true vs)))) (ESendDone id true))).
Proof.
  intros st s f f' vs id c R A G S.
  destruct (invalid_recorded_while_sending st s f f' vs id c R A G S) as [_ [c' [G' [S' R']]]].
  exact (recorded_invalid_raises _ id c' G' S' R').
Qed.

(* outside the reachable states the recorded reply can be an older one: the first reply wins *)
Example recorded_needs_reachable :
  let c := {| k_id := 1; k_prio := 0; k_fid := 10; k_seq := 0; k_stage := PSending; k_reply := RValues [XNone] |} in
  let st := {| p_seq := 1; p_awaiting := [(0, (10, 1))]; p_holder := Some 1; p_queue := []; p_counter := 0;
               p_calls := [c] |} in
  call_get 1 (p_calls (fst (proto_step st (EFrame (DOk 0 10 false []))))) = Some c.
Proof. reflexivity. Qed.

(* ---- A3: no reply: the command timeout ends the waiting call ---------------------------------------------- *)
(* timeout_raises (c06_timeout) carries the hypothesis k_reply c = RNone; in a reachable state a waiting
   call never has a reply recorded ([iv_wait]), so it can be dropped.  Without [reachable] it cannot: *)
Theorem no_reply_times_out : forall st id c, reachable st -> call_get id (p_calls st) = Some c ->
  k_stage c = PWaiting ->
  In (ORaise id KTimeout) (snd (proto_step st (ETimeout id))) /\
  call_get id (p_calls (fst (proto_step st (ETimeout id)))) = None.
Proof.
  intros st id c R G S. apply (timeout_raises st id c R G S).
  exact (iv_wait _ _ _ (reachable_Inv st R) id c G S).
Qed.

Example no_reply_times_out_needs_reachable :
  let c := {| k_id := 1; k_prio := 0; k_fid := 10; k_seq := 0; k_stage := PWaiting; k_reply := RValues [] |} in
  let st := {| p_seq := 1; p_awaiting := []; p_holder := Some 1; p_queue := []; p_counter := 0; p_calls := [c] |} in
  call_get 1 (p_calls st) = Some c /\ k_stage c = PWaiting /\ snd (proto_step st (ETimeout 1)) = [].
Proof. repeat split. Qed.

(* ---- A4: the slot is handed on in the same step ------------------------------------------------------------- *)
Definition ends (id : N) (o : pout) : Prop := (exists vs, o = OReturn id vs) \/ (exists k, o = ORaise id k).

Lemma finish_hands_on : forall st id o p n id' q c', NoDup (ids (p_calls st)) ->
  p_queue st = (p, n, id') :: q -> call_get id' (p_calls st) = Some c' -> id' <> id ->
  In (OSend id' (p_seq st) (k_fid c')) (snd (finish st id o)) /\
  p_holder (fst (finish st id o)) = Some id' /\ p_queue (fst (finish st id o)) = q.
Proof.
  intros st id o p n id' q c' ND Hq G Hne. rewrite finish_snd, finish_fst. unfold release.
  cbn [with_calls p_seq p_awaiting p_holder p_queue p_counter p_calls]. rewrite Hq.
  rewrite (call_get_del id' id _ ND).
  destruct (N.eqb_spec id id') as [E|_]; [exfalso; apply Hne; symmetry; exact E|]. rewrite G.
  cbn [fst snd start_call p_holder p_queue p_seq].
  assert (Hid : k_id c' = id') by (apply call_get_In in G; tauto). rewrite Hid.
  split; [right; left; reflexivity|]. split; reflexivity.
Qed.

Lemma outcome_hands_on : forall st tgt ro res id o p n id' q c', Inv st -> outcome st tgt ro res ->
  p_queue st = (p, n, id') :: q -> call_get id' (p_calls st) = Some c' ->
  In o (snd res) -> ends id o ->
  In (OSend id' (p_seq st) (k_fid c')) (snd res) /\
  p_holder (fst res) = Some id' /\ p_queue (fst res) = q.
Proof.
  intros st tgt ro res id o p n id' q c' I O Hq G' Hin He.
  assert (Hqd : exists cq, call_get id' (p_calls st) = Some cq /\ k_stage cq = PQueued).
  { apply (iv_q1 _ _ _ I). rewrite Hq. left. reflexivity. }
  destruct Hqd as [cq [Gq Sq]].
  assert (Hfin : forall id0 c0 o0, call_get id0 (p_calls st) = Some c0 -> k_stage c0 <> PQueued ->
            In (OSend id' (p_seq st) (k_fid c')) (snd (finish st id0 o0)) /\
            p_holder (fst (finish st id0 o0)) = Some id' /\ p_queue (fst (finish st id0 o0)) = q).
  { intros id0 c0 o0 G0 S0. apply (finish_hands_on st id0 o0 p n id' q c' (iv_nodup _ _ _ I) Hq G').
    intros E. subst id0. rewrite Gq in G0. inversion G0; subst c0. exact (S0 Sq). }
  destruct O as [|id0 c0 c1 _ _ _ _ _|id0 c0 vs0 G0 S0 _|id0 c0 k0 G0 S0].
  - destruct Hin.
  - destruct Hin.
  - exact (Hfin id0 c0 _ G0 S0).
  - exact (Hfin id0 c0 _ G0 S0).
Qed.

(* whenever a step ends the call that holds the slot -- by its response, an invalidCommand, the timeout, a
   failed send or a cancellation -- and somebody is queued, the head of the queue is sent in that same
   step, under the next sequence number, and becomes the holder *)
Theorem slot_handed_on : forall st e id o p n id' q c', reachable st ->
  p_holder st = Some id -> p_queue st = (p, n, id') :: q -> call_get id' (p_calls st) = Some c' ->
  In o (snd (proto_step st e)) -> ends id o ->
  In (OSend id' (p_seq st) (k_fid c')) (snd (proto_step st e)) /\
  p_holder (fst (proto_step st e)) = Some id' /\ p_queue (fst (proto_step st e)) = q.
Proof.
  intros st e id o p n id' q c' R Hh Hq G' Hin He. apply reachable_Inv in R.
  destruct e as [i prio fid|i ok|d|i|i].
  - (* ECall outputs at most a send *)
    exfalso. cbn [proto_step] in Hin. rewrite Hh in Hin. destruct Hin.
  - exact (outcome_hands_on _ _ _ _ id o p n id' q c' R (sdone_outcome st i ok) Hq G' Hin He).
  - destruct d as [|s f|s f|s f inv vs]; try destruct Hin.
    destruct (aw_get s (p_awaiting st)) as [[expected call]|] eqn:A.
    + exact (outcome_hands_on (pop_awaiting st s) _ _ _ id o p n id' q c' (Inv_pop st s R)
               (frame_outcome st s f inv vs expected call A) Hq G' Hin He).
    + exfalso. cbn [proto_step] in Hin. rewrite A in Hin. destruct Hin as [Hin|[]].
      destruct He as [[x E]|[x E]]; rewrite E in Hin; discriminate Hin.
  - exact (outcome_hands_on _ _ _ _ id o p n id' q c' R (timeout_outcome st i) Hq G' Hin He).
  - destruct (cancel_outcome st i) as [O|[c [G [S E]]]].
    + exact (outcome_hands_on _ _ _ _ id o p n id' q c' R O Hq G' Hin He).
    + (* a queued call that is cancelled is not the holder *)
      exfalso. rewrite E in Hin. destruct Hin as [Hin|[]].
      assert (Ei : i = id).
      { destruct He as [[x Ex]|[x Ex]]; rewrite Ex in Hin; inversion Hin. reflexivity. }
      subst i. destruct (iv_holder _ _ _ R id Hh) as [ch [Gh Sh]].
      rewrite G in Gh. inversion Gh; subst ch. exact (Sh S).
Qed.

(* the form asked for: the holder ends by its own response *)
Corollary slot_handed_on_response : forall st s f vs id c p n id' q c', reachable st ->
  aw_get s (p_awaiting st) = Some (f, id) -> call_get id (p_calls st) = Some c -> k_stage c = PWaiting ->
  p_queue st = (p, n, id') :: q -> call_get id' (p_calls st) = Some c' ->
  exists s', In (OSend id' s' (k_fid c')) (snd (proto_step st (EFrame (DOk s f false vs)))).
Proof.
  intros st s f vs id c p n id' q c' R A G S Hq G'. exists (p_seq st).
  assert (Hh : p_holder st = Some id).
  { apply (iv_hold _ _ _ (reachable_Inv st R) id c G). rewrite S. discriminate. }
  refine (proj1 (slot_handed_on st _ id (OReturn id vs) p n id' q c' R Hh Hq G' _ _)).
  - exact (proj1 (own_response_returns st s f vs id c R A G S)).
  - left. exists vs. reflexivity.
Qed.
