(* The receive-side methods of AshProtocol as emitted from their SOURCE TEXT (gen/GenAshRxFn.v,
   harness/pysrc.py) against the hand-written receiver (model/AshRx.v, rx_frame) and host
   (model/AshHost.v, apply_frame): same state changes, same writes and upward calls in the same order,
   same effects on the acknowledgement future. *)
From Coq Require Import PrimFloat ZArith NArith List Bool.
Import ListNotations.
Require Import BV.gen.GenAsh BV.gen.GenAshRxFn BV.model.AshCodec BV.model.AshRx BV.model.AshHost.
Open Scope N_scope.

(* what a call made by a method is, in the vocabulary of the receiver model *)
Definition eff_obs (e : py_eff) : list out :=
  match e with
  | PWrite (Ack _ _ n) => [WAck n]
  | PWrite (Nak _ _ n) => [WNak n]
  | PWriteCancel (Nak _ _ n) => [WCancelNak n]
  | PUp p => [Up p]
  | PResetUp c => [ResetUp c]
  | _ => []
  end.
Definition is_obs (o : out) : bool :=
  match o with WAck _ | WNak _ | WCancelNak _ | Up _ | ResetUp _ => true | _ => false end.

(* C04: the receiver model is what the source does *)
Lemma src_rx_frame : forall rx tx fl code f,
  let '(rx', _, _, _, eff) := py_frame_received (rx, tx, fl, code) f in
  rx' = fst (rx_frame rx f) /\ flat_map eff_obs eff = filter is_obs (snd (rx_frame rx f)).
Proof.
  intros rx tx fl code f. destruct f as [frm re ack p|r n ack|r n ack| |v c|v c];
    cbn [py_frame_received py_data_frame_received_k py_ack_frame_received_k py_nak_frame_received_k
         py_rst_frame_received_k py_rstack_frame_received_k py_error_frame_received_k
         py__enter_failed_state_k rx_frame fst snd app].
  - destruct (frm =? rx); [|destruct (negb (re =? 0))]; cbn; split; reflexivity.
  - cbn; split; reflexivity.
  - cbn; split; reflexivity.
  - cbn; split; reflexivity.
  - cbn; split; reflexivity.
  - cbn; split; reflexivity.
Qed.

(* what a call does to the sender half *)
Definition eff_hout (e : py_eff) : list hout :=
  match e with
  | PWrite (Ack _ _ n) => [HAck n]
  | PWrite (Nak _ _ n) => [HNak n]
  | PWriteCancel (Nak _ _ n) => [HCancelNak n]
  | PUp p => [HUp p]
  | PResetUp c => [HReset c]
  | _ => []
  end.
Definition eff_fut (st : hstate) (e : py_eff) : hstate :=
  match e with
  | PHandleAck a => handle_ack st a                 (* _handle_ack: TX_K = 1 *)
  | PCancelPending CNotAcked => resolve st FNaked
  | PCancelPending (CFailure c) => resolve st (FFailed c)
  | _ => st
  end.
Definition has_init (l : list py_eff) : bool :=
  existsb (fun e => match e with PAckTimeoutInit => true | _ => false end) l.

(* C05 / C01: the host model's synchronous frame handler is what the source does *)
Lemma src_apply_frame : forall st code f,
  let '(rx', tx', fl', _, eff) := py_frame_received (rx_seq st, tx_seq st, failed st, code) f in
  let st' := fst (apply_frame st f) in
  rx_seq st' = rx' /\ tx_seq st' = tx' /\ failed st' = fl'
  /\ snd (apply_frame st f) = flat_map eff_hout eff
  /\ cur st' = cur (fold_left eff_fut eff st)
  /\ t_ack st' = (if has_init eff then clamp T_RX_ACK_INIT_F else t_ack st)
  /\ now st' = now st /\ waiters st' = waiters st /\ cancelled st' = cancelled st.
Proof.
  intros st code f.
  assert (Hc : forall o : option cur_send, o = o) by reflexivity.
  destruct f as [frm re ack p|r n ack|r n ack| |v c|v c];
    cbn [py_frame_received py_data_frame_received_k py_ack_frame_received_k py_nak_frame_received_k
         py_rst_frame_received_k py_rstack_frame_received_k py_error_frame_received_k
         py__enter_failed_state_k app];
    unfold apply_frame; cbn [rx_frame];
    try (destruct (frm =? rx_seq st); [|destruct (negb (re =? 0))]);
    cbn [fst snd flat_map out_of_rx app fold_left eff_fut eff_hout has_init existsb orb];
    unfold handle_ack, resolve;
    destruct (cur st) as [c0|] eqn:Hcur; cbn [cur with_cur set_rx set_failed];
    try rewrite Hcur;
    try (destruct ((ack + 7) mod 8 =? cfrm c0) eqn:Hack); cbn [cur with_cur set_rx set_failed]; try rewrite Hcur;
    try (destruct (cfut c0) eqn:Hfut); cbn; try rewrite Hfut; cbn;
    repeat split; try reflexivity; try congruence;
    try (rewrite Hcur; cbn; rewrite ?Hfut; cbn; reflexivity).
Qed.
