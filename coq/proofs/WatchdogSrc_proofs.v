(* ControllerApplication._watchdog_feed as emitted from its SOURCE TEXT (gen/GenWatchdogFn.v) is the
   hand-written feed of model/Watchdog.v. *)
From Coq Require Import NArith List Bool.
Import ListNotations.
Require Import BV.model.Watchdog BV.gen.GenWatchdogFn.
Open Scope N_scope.

Lemma src_watchdog_feed : forall M P v st a1 a2,
  let '(f, n, r, c) := py_watchdog_feed M P v (failures st) (feeds st) a1 a2 in
  feed M P v st (a1, a2) = ({| failures := f; feeds := n |}, r, c).
Proof.
  intros M P v st a1 a2. unfold py_watchdog_feed, feed, feed_cmds, feed_failed.
  destruct (v =? 4); [|destruct (0 <? (feeds st + 1) mod P)];
    destruct a1; destruct a2; cbn [ans_raises ans_ok negb andb app];
    try destruct (M <? failures st + 1); reflexivity.
Qed.
