(* C12, positive halves -- over model/SendPacket.v: if the awaited thing arrives (the delivery
   confirmation, the send command's reply), the request completes accordingly.  All four theorems
   hold in every state; for reachable states [pending_keys_unique] (SendPacket_proofs.v) supplies
   their look-up hypotheses for every request in progress. *)
From Coq Require Import String.
From Coq Require Import ZArith NArith List Bool Lia ZifyBool ZifyN.
Import ListNotations.
Require Import BV.gen.GenApp BV.model.SendPacket BV.proofs.SendPacket_proofs.
Open Scope N_scope.

(* the completion is among the outputs of end_req, whether or not the request held the lock *)
Lemma end_req_done : forall st r res, In (XDone (q_id r) res) (snd (end_req st r res)).
Proof. intros st r res. exact (proj1 (proj2 (proj2 (proj2 (end_req_frame st r res))))). Qed.

(* ---- B1: the awaited confirmation reports delivery ------------------------------------------------ *)
Theorem confirmed_success_returns : forall st r,
  rfind_tag (q_dst r) (q_tag r) (s_reqs st) = Some r -> q_stage r = RConfirm -> q_confirmed r = None ->
  In (XDone (q_id r) ResOk) (snd (sstep st (SConfirm (q_dst r) (q_tag r) true))).
Proof.
  intros st r Hf Hs Hc. cbn [sstep]. rewrite Hf, Hc, Hs.
  match goal with |- In _ (snd (end_req ?s ?x ?res)) => exact (end_req_done s x res) end.
Qed.

(* ---- B2: a confirmation that comes before the request waits for it is remembered ------------------ *)
Theorem early_confirmation_remembered : forall st r ok,
  rfind_tag (q_dst r) (q_tag r) (s_reqs st) = Some r -> q_confirmed r = None -> q_stage r <> RConfirm ->
  snd (sstep st (SConfirm (q_dst r) (q_tag r) ok)) = []
  /\ exists r', rget (q_id r) (s_reqs (fst (sstep st (SConfirm (q_dst r) (q_tag r) ok)))) = Some r'
                /\ q_confirmed r' = Some ok /\ q_stage r' = q_stage r.
Proof.
  intros st r ok Hf Hc Hs. cbn [sstep]. rewrite Hf, Hc.
  set (r' := {| q_id := q_id r; q_kind := q_kind r; q_dst := q_dst r; q_tag := q_tag r;
                q_setup := q_setup r; q_attempt := q_attempt r; q_stage := q_stage r;
                q_confirmed := Some ok |}).
  assert (Hg : rget (q_id r) (rset r' (s_reqs st)) = Some r').
  { change (q_id r) with (q_id r'). apply rget_rset_same. }
  destruct (q_stage r) eqn:Hst; try (exfalso; apply Hs; reflexivity);
    cbn [fst snd set_reqs s_reqs]; (split; [reflexivity|]); exists r';
    (split; [exact Hg|]); split; try reflexivity; cbn [r' q_stage]; exact Hst.
Qed.

(* the remembered request is the old one with the confirmation filled in, nothing else changed *)
Theorem early_confirmation_remembered_exact : forall st r ok,
  rfind_tag (q_dst r) (q_tag r) (s_reqs st) = Some r -> q_confirmed r = None -> q_stage r <> RConfirm ->
  sstep st (SConfirm (q_dst r) (q_tag r) ok) =
  (set_reqs st (rset {| q_id := q_id r; q_kind := q_kind r; q_dst := q_dst r; q_tag := q_tag r;
                        q_setup := q_setup r; q_attempt := q_attempt r; q_stage := q_stage r;
                        q_confirmed := Some ok |} (s_reqs st)), []).
Proof.
  intros st r ok Hf Hc Hs. cbn [sstep]. rewrite Hf, Hc.
  destruct (q_stage r) eqn:Hst; try reflexivity. exfalso. apply Hs. reflexivity.
Qed.

(* ---- B3: the send command is accepted and the confirmation is already there ----------------------- *)
Theorem accepted_with_early_confirmation : forall st r ok,
  rget (q_id r) (s_reqs st) = Some r -> q_stage r = RSend -> q_kind r = Unicast -> q_confirmed r = Some ok ->
  In (XDone (q_id r) (if ok then ResOk else ResDeliveryError)) (snd (sstep st (SReply (q_id r) EnqOk))).
Proof.
  intros st r ok Hg Hs Hk Hc. cbn [sstep]. rewrite Hg, Hs, Hk, Hc. apply end_req_done.
Qed.

(* ---- B4: multicast and broadcast complete at the reply -------------------------------------------- *)
Theorem multicast_broadcast_need_no_confirmation : forall st r,
  rget (q_id r) (s_reqs st) = Some r -> q_stage r = RSend -> q_kind r <> Unicast ->
  In (XDone (q_id r) ResOk) (snd (sstep st (SReply (q_id r) EnqOk))).
Proof.
  intros st r Hg Hs Hk. cbn [sstep]. rewrite Hg, Hs.
  destruct (q_kind r); [exfalso; apply Hk; reflexivity| |]; apply end_req_done.
Qed.

(* ---- B1..B4 for every request in progress of a reachable state ------------------------------------ *)
Corollary confirmed_success_returns_run : forall es r, sends_unique es -> In r (s_reqs (sfinal es)) ->
  q_stage r = RConfirm ->
  In (XDone (q_id r) ResOk) (snd (sstep (sfinal es) (SConfirm (q_dst r) (q_tag r) true))).
Proof.
  intros es r Hu Hin Hs. destruct (pending_keys_unique es r Hu Hin) as [Hg Hf].
  apply confirmed_success_returns; [exact Hf|exact Hs|].
  assert (Hr : reachable (sfinal es)) by (exists es; split; [exact Hu|reflexivity]).
  exact (proj2 (confirm_stage_means_accepted _ _ Hr r Hg Hs)).
Qed.

(* ---- the confirmation overtakes the reply of the send command ------------------------------------- *)
Example confirmation_before_reply :
  snd (srun s_init [SSend 1 Unicast 7 0; SConfirm 7 1 true; SReply 1 EnqOk])
  = [[XSendCmd 1 Unicast 7 1]; []; [XDone 1 ResOk]]
  /\ s_reqs (fst (srun s_init [SSend 1 Unicast 7 0; SConfirm 7 1 true; SReply 1 EnqOk])) = [].
Proof. vm_compute. split; reflexivity. Qed.

Example failed_confirmation_before_reply :
  snd (srun s_init [SSend 1 Unicast 7 0; SConfirm 7 1 false; SReply 1 EnqOk])
  = [[XSendCmd 1 Unicast 7 1]; []; [XDone 1 ResDeliveryError]].
Proof. vm_compute. reflexivity. Qed.
