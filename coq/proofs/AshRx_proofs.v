From Coq Require Import ZArith NArith List Bool Lia ZifyBool ZifyN.
Import ListNotations.
Require Import BV.gen.GenAsh BV.model.AshCodec BV.model.AshRx.
Open Scope N_scope.
Ltac Zify.zify_post_hook ::= Z.to_euclidean_division_equations.

(* ---- vocabulary ------------------------------------------------------------------------------ *)
Definition ups (l : list out) : list (list N) :=
  flat_map (fun o => match o with Up p => [p] | _ => [] end) l.
Definition resets (l : list out) : list N :=
  flat_map (fun o => match o with ResetUp c => [c] | _ => [] end) l.
Definition writes (l : list out) : list out :=
  filter (fun o => match o with WAck _ | WNak _ | WCancelNak _ => true | _ => false end) l.

Definition is_rstack (f : frame) : bool := match f with Rstack _ _ => true | _ => false end.
Definition payload_of (f : frame) : list N := match f with Data _ _ _ p => p | _ => [] end.
Definition frmnum_of (f : frame) : N := match f with Data n _ _ _ => n | _ => 0 end.

(* the specification's receiver: the frames an in-sequence receiver accepts *)
Fixpoint accepted (rx : N) (fs : list frame) : list frame :=
  match fs with
  | [] => []
  | f :: fs' =>
      match f with
      | Data frm _ _ _ => if frm =? rx then f :: accepted ((rx + 1) mod 8) fs' else accepted rx fs'
      | Rstack _ _ => accepted 0 fs'
      | _ => accepted rx fs'
      end
  end.

Inductive sublist {A} : list A -> list A -> Prop :=
| sub_nil : sublist [] []
| sub_skip x l1 l2 : sublist l1 l2 -> sublist l1 (x :: l2)
| sub_take x l1 l2 : sublist l1 l2 -> sublist (x :: l1) (x :: l2).

(* ---- one frame -------------------------------------------------------------------------------- *)
Lemma accept_iff rx frm re ack p :
  In (Up p) (snd (rx_frame rx (Data frm re ack p))) <-> frm = rx.
Proof.
  cbn [rx_frame]. destruct (frm =? rx) eqn:E.
  - apply N.eqb_eq in E. split; [intros _; exact E|intros _]. cbn. right; right; left; reflexivity.
  - apply N.eqb_neq in E. split; [|intros H; contradiction].
    destruct (negb (re =? 0)); cbn; intros [H|[H|H]]; try discriminate; contradiction.
Qed.

Lemma data_one_reply rx frm re ack p :
  let '(rx', o) := rx_frame rx (Data frm re ack p) in
  writes o = [if (frm =? rx) || negb (re =? 0) then WAck rx' else WNak rx']
  /\ rx' = (if frm =? rx then (rx + 1) mod 8 else rx)
  /\ ups o = (if frm =? rx then [p] else []).
Proof.
  cbn [rx_frame]. destruct (frm =? rx) eqn:E.
  - apply N.eqb_eq in E. subst. cbn. repeat split.
  - destruct (negb (re =? 0)); cbn; repeat split.
Qed.

Lemma rstack_restarts rx v code :
  rx_frame rx (Rstack v code) = (0, [RstInfo; ResetUp code]).
Proof. reflexivity. Qed.

Lemma error_reports rx v code :
  fst (rx_frame rx (Error v code)) = rx /\ resets (snd (rx_frame rx (Error v code))) = [code]
  /\ ups (snd (rx_frame rx (Error v code))) = [] /\ writes (snd (rx_frame rx (Error v code))) = [].
Proof. cbn. repeat split. Qed.

Lemma quiet rx f :
  match f with Ack _ _ _ | Nak _ _ _ | Rst => True | _ => False end ->
  fst (rx_frame rx f) = rx /\ ups (snd (rx_frame rx f)) = [] /\ resets (snd (rx_frame rx f)) = []
  /\ writes (snd (rx_frame rx f)) = [].
Proof. destruct f; intros H; try contradiction; cbn; repeat split. Qed.

(* ---- sequences -------------------------------------------------------------------------------- *)
Lemma ups_app a b : ups (a ++ b) = ups a ++ ups b.
Proof. unfold ups. apply flat_map_app. Qed.

Lemma rx_frames_cons rx f fs :
  rx_frames rx (f :: fs) =
    (fst (rx_frames (fst (rx_frame rx f)) fs), snd (rx_frame rx f) ++ snd (rx_frames (fst (rx_frame rx f)) fs)).
Proof.
  cbn [rx_frames]. destruct (rx_frame rx f) as [rx' o]. cbn [fst snd].
  destruct (rx_frames rx' fs) as [rx'' o']. reflexivity.
Qed.

(* the payloads handed up are exactly those of the frames the in-sequence receiver accepts *)
Lemma ups_accepted fs : forall rx, ups (snd (rx_frames rx fs)) = map payload_of (accepted rx fs).
Proof.
  induction fs as [|f fs IH]; intros rx; [reflexivity|].
  rewrite rx_frames_cons. cbn [snd]. rewrite ups_app.
  destruct f as [frm re ack p|a b c|a b c| |v c|v c]; cbn [accepted].
  - pose proof (data_one_reply rx frm re ack p) as H.
    destruct (rx_frame rx (Data frm re ack p)) as [rx' o] eqn:E. destruct H as (_ & Hrx & Hup).
    cbn [fst snd]. rewrite Hup, Hrx. destruct (frm =? rx); cbn [map app payload_of]; rewrite IH; reflexivity.
  - cbn. apply IH.
  - cbn. apply IH.
  - cbn. apply IH.
  - cbn. apply IH.
  - cbn. apply IH.
Qed.

Lemma accepted_sublist fs : forall rx, sublist (accepted rx fs) fs.
Proof.
  induction fs as [|f fs IH]; intros rx; [constructor|].
  destruct f as [frm re ack p|a b c|a b c| |v c|v c]; cbn [accepted]; try (apply sub_skip; apply IH).
  destruct (frm =? rx); [apply sub_take|apply sub_skip]; apply IH.
Qed.

(* between RSTACKs the accepted frames carry consecutive numbers modulo 8, starting at rx *)
Lemma accepted_consecutive fs : forall rx, rx < 8 ->
  existsb is_rstack fs = false ->
  map frmnum_of (accepted rx fs) =
    map (fun k => (rx + N.of_nat k) mod 8) (seq 0 (length (accepted rx fs))).
Proof.
  induction fs as [|f fs IH]; intros rx Hrx Hno; [reflexivity|].
  cbn [existsb] in Hno. apply orb_false_iff in Hno. destruct Hno as [Hf Hno].
  destruct f as [frm re ack p|a b c|a b c| |v c|v c]; cbn [accepted]; try (apply IH; auto; fail);
    try discriminate.
  destruct (frm =? rx) eqn:E; [|apply IH; auto].
  apply N.eqb_eq in E. subst frm.
  cbn [map length frmnum_of seq]. f_equal.
  - cbn. rewrite N.add_0_r. symmetry. apply N.mod_small. exact Hrx.
  - rewrite IH; [|lia|exact Hno].
    rewrite <- seq_shift, map_map. apply map_ext. intros k.
    rewrite Nat2N.inj_succ. lia.
Qed.

Lemma rx_bound fs : forall rx, rx < 8 -> fst (rx_frames rx fs) < 8.
Proof.
  induction fs as [|f fs IH]; intros rx Hrx; [exact Hrx|].
  rewrite rx_frames_cons. cbn [fst]. apply IH.
  destruct f as [frm re ack p|a b c|a b c| |v c|v c]; cbn [rx_frame]; try exact Hrx.
  - destruct (frm =? rx); [cbn; lia|]. destruct (negb (re =? 0)); exact Hrx.
  - cbn. lia.
Qed.

(* exactly one ACK/NAK per DATA frame, none for other frames *)
Definition is_data (f : frame) : bool := match f with Data _ _ _ _ => true | _ => false end.
Lemma writes_app a b : writes (a ++ b) = writes a ++ writes b.
Proof. unfold writes. apply filter_app. Qed.

Lemma one_write_per_data fs : forall rx,
  length (writes (snd (rx_frames rx fs))) = length (filter is_data fs).
Proof.
  induction fs as [|f fs IH]; intros rx; [reflexivity|].
  rewrite rx_frames_cons. cbn [snd]. rewrite writes_app, app_length, IH.
  destruct f as [frm re ack p|a b c|a b c| |v c|v c]; cbn [filter is_data length]; try reflexivity.
  pose proof (data_one_reply rx frm re ack p) as H.
  destruct (rx_frame rx (Data frm re ack p)) as [rx' o]. destruct H as (Hw & _). cbn [snd].
  rewrite Hw. reflexivity.
Qed.
