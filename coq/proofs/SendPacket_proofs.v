(* C12 proofs: send_packet / _handle_frame_sent model (model/SendPacket.v).
   Part 1: list lemmas (rget / rset / rdel / rfind_tag).
   Part 2: the global invariant [Inv], preserved by [sstep] when SSend ids are fresh; [reachable_inv].
   Part 3: frame lemmas (what one step can output / change) valid in every state.
   Part 4: the C12 theorems. *)
From Coq Require Import String.
From Coq Require Import ZArith NArith List Bool Lia ZifyBool ZifyN.
Import ListNotations.
Require Import BV.gen.GenApp BV.gen.GenStatus BV.model.Status BV.model.SendPacket.
Open Scope N_scope.

(* ---- vocabulary ---------------------------------------------------------------------------------- *)
Definition sfinal (es : list sevent) : sstate := fst (srun s_init es).
Definition souts (es : list sevent) : list sout := concat (snd (srun s_init es)).
Definition send_ids (es : list sevent) : list N :=
  flat_map (fun e => match e with SSend id _ _ _ => [id] | _ => [] end) es.
Definition sends_unique (es : list sevent) : Prop := NoDup (send_ids es).
Definition reachable (st : sstate) : Prop := exists es, sends_unique es /\ st = sfinal es.
Definition maps_to_unified (legacy unified : string) : Prop :=
  match member legacy ember_members, member unified sl_members with
  | Some c, Some u => normalise FEmber c = u
  | _, _ => False
  end.

(* the (destination, message tag) key of the pending table *)
Definition dt (r : req) : N * N := (q_dst r, q_tag r).
(* stages in which the request holds the request lock *)
Definition holding (s : rstage) : bool := match s with RSetup _ | RSend => true | _ => false end.

(* ================================================================================================== *)
(* Part 1: list lemmas                                                                                *)
(* ================================================================================================== *)

Lemma rget_id : forall id l r, rget id l = Some r -> q_id r = id.
Proof.
  intros id l; induction l as [|a l IH]; intros r H; cbn in H; [discriminate|].
  destruct (N.eqb_spec (q_id a) id) as [E|E]; [injection H as <-; exact E | exact (IH r H)].
Qed.

Lemma rget_In : forall id l r, rget id l = Some r -> In r l.
Proof.
  intros id l; induction l as [|a l IH]; intros r H; cbn in H; [discriminate|].
  destruct (q_id a =? id); [inversion H; left; reflexivity | right; exact (IH r H)].
Qed.

Lemma rget_None_iff : forall id l, rget id l = None <-> ~ In id (map q_id l).
Proof.
  intros id l; induction l as [|a l IH]; cbn; [tauto|].
  destruct (N.eqb_spec (q_id a) id) as [E|E]; split; intros H.
  - discriminate.
  - exfalso; apply H; left; exact E.
  - intros [H1|H1]; [exact (E H1) | apply IH in H; exact (H H1)].
  - apply IH; intros H1; apply H; right; exact H1.
Qed.

Lemma rget_Some_in_ids : forall id l r, rget id l = Some r -> In id (map q_id l).
Proof.
  intros id l r H. pose proof (rget_id _ _ _ H) as E. apply rget_In in H.
  rewrite <- E. apply in_map. exact H.
Qed.

Lemma In_rget : forall l r, NoDup (map q_id l) -> In r l -> rget (q_id r) l = Some r.
Proof.
  induction l as [|a l IH]; intros r Hnd Hin; [destruct Hin|].
  cbn in Hnd; inversion Hnd as [|x xs Hnotin Hnd']; subst. cbn.
  destruct Hin as [Hin|Hin].
  - subst a. rewrite N.eqb_refl. reflexivity.
  - destruct (N.eqb_spec (q_id a) (q_id r)) as [E|E].
    + exfalso. apply Hnotin. rewrite E. apply in_map. exact Hin.
    + apply IH; assumption.
Qed.

Lemma rget_rset : forall x l id, rget id (rset x l) = if id =? q_id x then Some x else rget id l.
Proof.
  intros x l id; induction l as [|a l IH]; cbn.
  - rewrite (N.eqb_sym (q_id x) id). reflexivity.
  - destruct (N.eqb_spec (q_id a) (q_id x)) as [E|E]; cbn.
    + rewrite (N.eqb_sym (q_id x) id).
      destruct (N.eqb_spec id (q_id x)) as [E1|E1]; [reflexivity|].
      destruct (N.eqb_spec (q_id a) id) as [E2|E2]; [congruence | reflexivity].
    + destruct (N.eqb_spec (q_id a) id) as [E2|E2].
      * destruct (N.eqb_spec id (q_id x)) as [E1|E1]; [congruence | reflexivity].
      * exact IH.
Qed.

Lemma rget_rset_same : forall x l, rget (q_id x) (rset x l) = Some x.
Proof. intros x l. rewrite rget_rset, N.eqb_refl. reflexivity. Qed.

Lemma rget_rset_other : forall x l id, id <> q_id x -> rget id (rset x l) = rget id l.
Proof.
  intros x l id H. rewrite rget_rset. destruct (N.eqb_spec id (q_id x)); [contradiction | reflexivity].
Qed.

Lemma rget_rdel_other : forall id id' l, id <> id' -> rget id (rdel id' l) = rget id l.
Proof.
  intros id id' l Hne; induction l as [|a l IH]; cbn; [reflexivity|].
  destruct (N.eqb_spec (q_id a) id') as [E|E]; cbn.
  - destruct (N.eqb_spec (q_id a) id) as [E1|E1]; [congruence | reflexivity].
  - destruct (q_id a =? id); [reflexivity | exact IH].
Qed.

Lemma rget_rdel_same : forall id l, NoDup (map q_id l) -> rget id (rdel id l) = None.
Proof.
  intros id l; induction l as [|a l IH]; intros Hnd; cbn; [reflexivity|].
  cbn in Hnd; inversion Hnd as [|x xs Hnotin Hnd']; subst.
  destruct (N.eqb_spec (q_id a) id) as [E|E]; cbn.
  - apply rget_None_iff. rewrite <- E. exact Hnotin.
  - destruct (N.eqb_spec (q_id a) id) as [E1|E1]; [contradiction | exact (IH Hnd')].
Qed.

Lemma rget_rdel_Some : forall id id' l r, rget id (rdel id' l) = Some r -> NoDup (map q_id l) ->
  id <> id' /\ rget id l = Some r.
Proof.
  intros id id' l r H Hnd. destruct (N.eq_dec id id') as [E|E].
  - subst. rewrite rget_rdel_same in H by exact Hnd. discriminate.
  - split; [exact E|]. rewrite rget_rdel_other in H by exact E. exact H.
Qed.

Lemma In_rdel : forall id l (x : req), In x (rdel id l) -> In x l.
Proof.
  intros id l x; induction l as [|a l IH]; cbn; [tauto|].
  destruct (q_id a =? id); cbn; [tauto|]. intros [H|H]; [left; exact H | right; exact (IH H)].
Qed.

Lemma In_map_rdel : forall (A : Type) (f : req -> A) id l y, In y (map f (rdel id l)) -> In y (map f l).
Proof.
  intros A f id l y H. apply in_map_iff in H. destruct H as [x [E H]].
  apply in_map_iff. exists x. split; [exact E | exact (In_rdel _ _ _ H)].
Qed.

Lemma NoDup_map_rdel : forall (A : Type) (f : req -> A) id l, NoDup (map f l) -> NoDup (map f (rdel id l)).
Proof.
  intros A f id l; induction l as [|a l IH]; intros Hnd; cbn; [constructor|].
  cbn in Hnd; inversion Hnd as [|x xs Hnotin Hnd']; subst.
  destruct (q_id a =? id); [exact Hnd'|]. cbn. constructor; [|exact (IH Hnd')].
  intros H. apply Hnotin. exact (In_map_rdel _ _ _ _ _ H).
Qed.

Lemma map_rset_in : forall (A : Type) (f : req -> A) x l r,
  rget (q_id x) l = Some r -> f x = f r -> map f (rset x l) = map f l.
Proof.
  intros A f x l; induction l as [|a l IH]; intros r H Hf; cbn in *; [discriminate|].
  destruct (q_id a =? q_id x); cbn.
  - inversion H; subst. rewrite Hf. reflexivity.
  - rewrite (IH r H Hf). reflexivity.
Qed.

Lemma rset_notin : forall x l, rget (q_id x) l = None -> rset x l = l ++ [x].
Proof.
  intros x l; induction l as [|a l IH]; intros H; cbn in *; [reflexivity|].
  destruct (q_id a =? q_id x); [discriminate|]. rewrite (IH H). reflexivity.
Qed.

Lemma rdel_rset : forall x l, rdel (q_id x) (rset x l) = rdel (q_id x) l.
Proof.
  intros x l; induction l as [|a l IH]; cbn.
  - rewrite N.eqb_refl. reflexivity.
  - destruct (N.eqb_spec (q_id a) (q_id x)) as [E|E]; cbn.
    + rewrite N.eqb_refl. reflexivity.
    + destruct (N.eqb_spec (q_id a) (q_id x)); [contradiction|]. rewrite IH. reflexivity.
Qed.

Lemma rfind_tag_spec : forall d t l r, rfind_tag d t l = Some r -> In r l /\ q_dst r = d /\ q_tag r = t.
Proof.
  intros d t l; induction l as [|a l IH]; intros r H; cbn in H; [discriminate|].
  destruct (N.eqb_spec (q_dst a) d) as [E1|E1]; destruct (N.eqb_spec (q_tag a) t) as [E2|E2]; cbn in H;
    try (destruct (IH r H) as [Hin Hk]; split; [right; exact Hin | exact Hk]).
  inversion H; subst. split; [left; reflexivity | split; reflexivity].
Qed.

Lemma rfind_tag_None : forall d t l, rfind_tag d t l = None -> ~ In (d, t) (map dt l).
Proof.
  intros d t l; induction l as [|a l IH]; intros H; cbn in *; [tauto|].
  destruct (N.eqb_spec (q_dst a) d) as [E1|E1]; destruct (N.eqb_spec (q_tag a) t) as [E2|E2]; cbn in H;
    try discriminate; intros [Hc|Hc]; try (exact (IH H Hc)); unfold dt in Hc; inversion Hc; contradiction.
Qed.

Lemma rfind_tag_unique : forall l r, NoDup (map dt l) -> In r l -> rfind_tag (q_dst r) (q_tag r) l = Some r.
Proof.
  induction l as [|a l IH]; intros r Hnd Hin; [destruct Hin|].
  cbn in Hnd; inversion Hnd as [|x xs Hnotin Hnd']; subst. cbn.
  destruct Hin as [Hin|Hin].
  - subst a. rewrite !N.eqb_refl. reflexivity.
  - destruct (N.eqb_spec (q_dst a) (q_dst r)) as [E1|E1]; destruct (N.eqb_spec (q_tag a) (q_tag r)) as [E2|E2]; cbn;
      try (apply IH; assumption).
    exfalso. apply Hnotin. replace (dt a) with (dt r) by (unfold dt; rewrite E1, E2; reflexivity).
    apply in_map. exact Hin.
Qed.

Lemma filter_neq_notin : forall id (q : list N), ~ In id (filter (fun x => negb (x =? id)) q).
Proof.
  intros id q H. apply filter_In in H. destruct H as [_ H]. rewrite N.eqb_refl in H. discriminate.
Qed.

Lemma filter_neq_In : forall id x (q : list N), In x (filter (fun y => negb (y =? id)) q) -> In x q /\ x <> id.
Proof.
  intros id x q H. apply filter_In in H. destruct H as [H1 H2]. split; [exact H1|].
  intros E; subst. rewrite N.eqb_refl in H2. discriminate.
Qed.

Lemma with_stage_self : forall r, with_stage r (q_stage r) = r.
Proof. intros [i k d t s a g c]. reflexivity. Qed.

Lemma NoDup_snoc : forall (A : Type) (l : list A) a, NoDup l -> ~ In a l -> NoDup (l ++ [a]).
Proof.
  intros A l a; induction l as [|b l IH]; intros Hnd Hnotin; cbn.
  - constructor; [intros H; destruct H | constructor].
  - inversion Hnd as [|x xs Hb Hnd']; subst. constructor.
    + intros H. apply in_app_or in H. destruct H as [H|[H|[]]]; [exact (Hb H)|].
      apply Hnotin. left. symmetry. exact H.
    + apply IH; [exact Hnd'|]. intros H. apply Hnotin. right. exact H.
Qed.

Lemma map_rset_notin : forall (A : Type) (f : req -> A) x l,
  rget (q_id x) l = None -> map f (rset x l) = map f l ++ [f x].
Proof. intros A f x l H. rewrite (rset_notin x l H), map_app. reflexivity. Qed.

(* ================================================================================================== *)
(* Part 2: the invariant                                                                              *)
(* ================================================================================================== *)

(* the part that does not mention the lock: ids unique; (destination, tag) keys unique; the lock queue
   has no duplicates and only holds requests in stage RLock; a request waiting for its confirmation is
   a unicast whose confirmation has not arrived *)
Definition Core (l : list req) (q : list N) : Prop :=
  NoDup (map q_id l) /\ NoDup (map dt l) /\ NoDup q /\
  (forall id, In id q -> exists r, rget id l = Some r /\ q_stage r = RLock) /\
  (forall id r, rget id l = Some r -> q_stage r = RConfirm -> q_kind r = Unicast /\ q_confirmed r = None).

Definition nohold (l : list req) : Prop := forall id r, rget id l = Some r -> holding (q_stage r) = false.

(* the lock holder is a request in progress, in stage RSetup/RSend, and it is the only such request;
   nobody waits for a free lock *)
Definition Inv (st : sstate) : Prop :=
  Core (s_reqs st) (s_lockq st) /\
  (forall h, s_lock st = Some h -> exists r, rget h (s_reqs st) = Some r /\ holding (q_stage r) = true) /\
  (forall id r, rget id (s_reqs st) = Some r -> holding (q_stage r) = true -> s_lock st = Some id) /\
  (s_lock st = None -> s_lockq st = []).

Ltac split5 := split; [|split; [|split; [|split]]].
Ltac split4 := split; [|split; [|split]].

Lemma core_rset : forall l q x r, Core l q -> rget (q_id x) l = Some r -> dt x = dt r ->
  (In (q_id x) q -> q_stage x = RLock) ->
  (q_stage x = RConfirm -> q_kind x = Unicast /\ q_confirmed x = None) ->
  Core (rset x l) q.
Proof.
  intros l q x r (C1 & C2 & C3 & C4 & C5) Hg Hdt Hq Hc. unfold Core.
  assert (Hid : q_id x = q_id r) by (symmetry; exact (rget_id _ _ _ Hg)).
  rewrite (map_rset_in _ q_id x l r Hg Hid), (map_rset_in _ dt x l r Hg Hdt).
  split5; try assumption.
  - intros id Hin. rewrite rget_rset. destruct (N.eqb_spec id (q_id x)) as [E|E].
    + subst id. exists x. split; [reflexivity | exact (Hq Hin)].
    + exact (C4 id Hin).
  - intros id r0 H Hs. rewrite rget_rset in H. destruct (N.eqb_spec id (q_id x)) as [E|E].
    + injection H as <-. exact (Hc Hs).
    + exact (C5 id r0 H Hs).
Qed.

Lemma core_add : forall l q x, Core l q -> rget (q_id x) l = None -> ~ In (dt x) (map dt l) ->
  q_stage x <> RConfirm -> Core (rset x l) q.
Proof.
  intros l q x (C1 & C2 & C3 & C4 & C5) Hg Hdt Hs. unfold Core.
  rewrite (map_rset_notin _ q_id x l Hg), (map_rset_notin _ dt x l Hg).
  split5.
  - apply NoDup_snoc; [exact C1|]. apply rget_None_iff. exact Hg.
  - apply NoDup_snoc; [exact C2 | exact Hdt].
  - exact C3.
  - intros id Hin. destruct (C4 id Hin) as [r [Hr Hst]]. exists r. split; [|exact Hst].
    rewrite rget_rset_other; [exact Hr|]. intros E; subst id. rewrite Hg in Hr. discriminate.
  - intros id r0 H Hst. rewrite rget_rset in H. destruct (N.eqb_spec id (q_id x)) as [E|E].
    + injection H as <-. contradiction.
    + exact (C5 id r0 H Hst).
Qed.

Lemma core_rdel : forall l q id, Core l q -> Core (rdel id l) (filter (fun x => negb (x =? id)) q).
Proof.
  intros l q id (C1 & C2 & C3 & C4 & C5). unfold Core. split5.
  - apply NoDup_map_rdel. exact C1.
  - apply NoDup_map_rdel. exact C2.
  - apply NoDup_filter. exact C3.
  - intros id2 Hin. apply filter_neq_In in Hin. destruct Hin as [Hin Hne].
    rewrite rget_rdel_other by exact Hne. exact (C4 id2 Hin).
  - intros id2 r0 H Hst. apply rget_rdel_Some in H; [|exact C1]. destruct H as [_ H]. exact (C5 id2 r0 H Hst).
Qed.

Lemma core_pop : forall l q id, Core l (id :: q) ->
  Core l q /\ ~ In id q /\ exists r, rget id l = Some r /\ q_stage r = RLock.
Proof.
  intros l q id (C1 & C2 & C3 & C4 & C5). inversion C3 as [|x xs Hnotin C3']; subst.
  split; [|split; [exact Hnotin | apply C4; left; reflexivity]].
  unfold Core. split5; try assumption. intros id2 Hin. apply C4. right. exact Hin.
Qed.

Lemma core_push : forall l q id, Core l q -> (exists r, rget id l = Some r /\ q_stage r = RLock) ->
  ~ In id q -> Core l (q ++ [id]).
Proof.
  intros l q id (C1 & C2 & C3 & C4 & C5) Hr Hnotin. unfold Core. split5; try assumption.
  - apply NoDup_snoc; assumption.
  - intros id2 Hin. apply in_app_or in Hin. destruct Hin as [Hin|[Hin|[]]]; [exact (C4 id2 Hin)|].
    subst id2. exact Hr.
Qed.

Lemma grant_inv : forall sq l q r s, Core l q -> nohold l -> rget (q_id r) l = Some r ->
  holding s = true -> ~ In (q_id r) q ->
  Inv {| s_seq := sq; s_reqs := rset (with_stage r s) l; s_lock := Some (q_id r); s_lockq := q |}.
Proof.
  intros sq l q r s HC Hnh Hg Hs Hnotin. unfold Inv. cbn [s_seq s_reqs s_lock s_lockq]. split4.
  - apply core_rset with (r := r); cbn [q_id q_stage with_stage]; try assumption.
    + reflexivity.
    + intros Hin. contradiction.
    + intros E. rewrite E in Hs. discriminate.
  - intros h Hh. injection Hh as <-. exists (with_stage r s). split; [exact (rget_rset_same (with_stage r s) l)|].
    exact Hs.
  - intros id r0 H Hh. rewrite rget_rset in H. cbn [q_id with_stage] in H.
    destruct (N.eqb_spec id (q_id r)) as [E|E]; [subst; reflexivity|].
    rewrite (Hnh id r0 H) in Hh. discriminate.
  - discriminate.
Qed.

Lemma inv_nohold : forall st, Inv st -> s_lock st = None -> nohold (s_reqs st).
Proof.
  intros st (_ & _ & I3 & _) Hl id r Hg. destruct (holding (q_stage r)) eqn:E; [|reflexivity].
  rewrite (I3 id r Hg E) in Hl. discriminate.
Qed.

Lemma inv_lockq_stage : forall st id r, Inv st -> rget id (s_reqs st) = Some r -> In id (s_lockq st) ->
  q_stage r = RLock.
Proof.
  intros st id r ((_ & _ & _ & C4 & _) & _) Hg Hin. destruct (C4 id Hin) as [r0 [Hr0 Hs]].
  rewrite Hg in Hr0. injection Hr0 as <-. exact Hs.
Qed.

Lemma enqueue_inv : forall st r h, Inv st -> s_lock st = Some h -> rget (q_id r) (s_reqs st) = Some r ->
  holding (q_stage r) = false -> ~ In (q_id r) (s_lockq st) ->
  Inv {| s_seq := s_seq st; s_reqs := rset (with_stage r RLock) (s_reqs st); s_lock := s_lock st;
         s_lockq := s_lockq st ++ [q_id r] |}.
Proof.
  intros st r h (HC & I2 & I3 & I4) Hl Hg Hnh Hnotin. unfold Inv. cbn [s_seq s_reqs s_lock s_lockq]. split4.
  - apply core_push; [| |exact Hnotin].
    + apply core_rset with (r := r); cbn [q_id q_stage with_stage]; try assumption; try reflexivity.
      * intros _. reflexivity.
      * intros E. discriminate.
    + exists (with_stage r RLock). split; [exact (rget_rset_same (with_stage r RLock) _) | reflexivity].
  - intros h' Hh'. destruct (I2 h' Hh') as [rh [Hrh Hhold]]. exists rh. split; [|exact Hhold].
    rewrite rget_rset_other; [exact Hrh|]. cbn [q_id with_stage]. intros E; subst h'.
    rewrite Hg in Hrh. injection Hrh as <-. rewrite Hnh in Hhold. discriminate.
  - intros id r0 H Hh. rewrite rget_rset in H. cbn [q_id with_stage] in H.
    destruct (N.eqb_spec id (q_id r)) as [E|E].
    + injection H as <-. cbn in Hh. discriminate.
    + exact (I3 id r0 H Hh).
  - intros E. rewrite Hl in E. discriminate.
Qed.

Lemma want_lock_inv : forall st r, Inv st -> rget (q_id r) (s_reqs st) = Some r ->
  holding (q_stage r) = false -> ~ In (q_id r) (s_lockq st) -> Inv (fst (want_lock st r)).
Proof.
  intros st r HI Hg Hnh Hnotin. unfold want_lock. destruct (s_lock st) as [h|] eqn:Hl.
  - cbn [fst]. rewrite <- Hl. exact (enqueue_inv st r h HI Hl Hg Hnh Hnotin).
  - pose proof (inv_nohold st HI Hl) as Hno. destruct HI as (HC & _).
    unfold begin_attempt. destruct (0 <? q_setup r); cbn [fst]; apply grant_inv; try assumption; reflexivity.
Qed.

Lemma release_lock_inv : forall fuel sq l h q, Core l q -> nohold l -> (List.length q < fuel)%nat ->
  Inv (fst (release_lock fuel {| s_seq := sq; s_reqs := l; s_lock := h; s_lockq := q |})).
Proof.
  induction fuel as [|fuel IH]; intros sq l h q HC Hnh Hlen; [lia|].
  cbn [release_lock s_seq s_reqs s_lock s_lockq]. destruct q as [|id q].
  - cbn [fst]. unfold Inv. cbn [s_seq s_reqs s_lock s_lockq]. split4.
    + exact HC.
    + discriminate.
    + intros id r Hg Hh. rewrite (Hnh id r Hg) in Hh. discriminate.
    + reflexivity.
  - destruct (core_pop l q id HC) as (HC' & Hnotin & r & Hr & Hst). rewrite Hr.
    pose proof (rget_id _ _ _ Hr) as Hid. subst id.
    unfold want_lock. cbn [s_seq s_reqs s_lock s_lockq].
    unfold begin_attempt. destruct (0 <? q_setup r); cbn [fst]; apply grant_inv; try assumption; reflexivity.
Qed.

Lemma unlock_inv : forall st, Core (s_reqs st) (s_lockq st) -> nohold (s_reqs st) -> Inv (fst (unlock st)).
Proof.
  intros [sq l h q] HC Hnh. unfold unlock. cbn [s_seq s_reqs s_lock s_lockq] in *.
  apply release_lock_inv; [exact HC | exact Hnh | lia].
Qed.

Lemma inv_rdel_nonholder : forall st id, Inv st -> s_lock st <> Some id ->
  Inv {| s_seq := s_seq st; s_reqs := rdel id (s_reqs st); s_lock := s_lock st;
         s_lockq := filter (fun x => negb (x =? id)) (s_lockq st) |}.
Proof.
  intros st id (HC & I2 & I3 & I4) Hne. unfold Inv. cbn [s_seq s_reqs s_lock s_lockq]. split4.
  - apply core_rdel. exact HC.
  - intros h Hh. destruct (I2 h Hh) as [rh [Hrh Hhold]]. exists rh. split; [|exact Hhold].
    rewrite rget_rdel_other; [exact Hrh|]. intros E; subst h. exact (Hne Hh).
  - intros id2 r0 H Hh. apply rget_rdel_Some in H; [|exact (proj1 HC)]. destruct H as [_ H].
    exact (I3 id2 r0 H Hh).
  - intros E. rewrite (I4 E). reflexivity.
Qed.

Lemma end_req_inv : forall st r res, Inv st -> rget (q_id r) (s_reqs st) = Some r -> Inv (fst (end_req st r res)).
Proof.
  intros st r res HI Hg. unfold end_req, holds. destruct (s_lock st) as [h|] eqn:Hl.
  - destruct (N.eqb_spec h (q_id r)) as [E|E].
    + match goal with |- context [unlock ?s] => destruct (unlock s) as [st2 o] eqn:Hu;
        replace st2 with (fst (unlock s)) by (rewrite Hu; reflexivity) end.
      cbn [fst]. destruct HI as (HC & I2 & I3 & I4).
      apply unlock_inv; cbn [s_seq s_reqs s_lock s_lockq].
      * apply core_rdel. exact HC.
      * intros id r0 H. apply rget_rdel_Some in H; [|exact (proj1 HC)]. destruct H as [Hne H].
        destruct (holding (q_stage r0)) eqn:Hh; [|reflexivity].
        pose proof (I3 id r0 H Hh) as Hl'. rewrite Hl in Hl'. injection Hl' as Hl'. congruence.
    + cbn [fst]. rewrite <- Hl. apply inv_rdel_nonholder; [exact HI|]. rewrite Hl. congruence.
  - cbn [fst]. rewrite <- Hl. apply inv_rdel_nonholder; [exact HI|]. rewrite Hl. discriminate.
Qed.

Lemma inv_update : forall st x r, Inv st -> rget (q_id x) (s_reqs st) = Some r -> dt x = dt r ->
  holding (q_stage x) = holding (q_stage r) ->
  (q_stage r = RLock -> q_stage x = RLock) ->
  (q_stage x = RConfirm -> q_kind x = Unicast /\ q_confirmed x = None) ->
  Inv (set_reqs st (rset x (s_reqs st))).
Proof.
  intros st x r HI Hg Hdt Hh Hlk Hcf. pose proof HI as (HC & I2 & I3 & I4).
  unfold Inv, set_reqs. cbn [s_seq s_reqs s_lock s_lockq]. split4.
  - apply core_rset with (r := r); try assumption.
    intros Hin. apply Hlk. exact (inv_lockq_stage st (q_id x) r HI Hg Hin).
  - intros h Hl. destruct (I2 h Hl) as [rh [Hrh Hhold]]. rewrite rget_rset.
    destruct (N.eqb_spec h (q_id x)) as [E|E].
    + exists x. split; [reflexivity|]. subst h. rewrite Hg in Hrh. injection Hrh as <-. rewrite Hh. exact Hhold.
    + exists rh. split; assumption.
  - intros id r0 H Hhold. rewrite rget_rset in H. destruct (N.eqb_spec id (q_id x)) as [E|E].
    + injection H as <-. subst id. rewrite Hh in Hhold. exact (I3 (q_id x) r Hg Hhold).
    + exact (I3 id r0 H Hhold).
  - exact I4.
Qed.

(* the holder leaves the holding stages (accepted / busy): the lock moves on *)
Lemma unlock_after_restage_inv : forall st x r, Inv st -> rget (q_id x) (s_reqs st) = Some r -> dt x = dt r ->
  holding (q_stage r) = true -> holding (q_stage x) = false ->
  (q_stage x = RConfirm -> q_kind x = Unicast /\ q_confirmed x = None) ->
  Inv (fst (unlock (set_reqs st (rset x (s_reqs st))))).
Proof.
  intros st x r HI Hg Hdt Hhr Hhx Hcf. pose proof HI as (HC & I2 & I3 & I4).
  apply unlock_inv; unfold set_reqs; cbn [s_seq s_reqs s_lock s_lockq].
  - apply core_rset with (r := r); try assumption.
    intros Hin. pose proof (inv_lockq_stage st (q_id x) r HI Hg Hin) as E. rewrite E in Hhr. discriminate.
  - intros id r0 H. rewrite rget_rset in H. destruct (N.eqb_spec id (q_id x)) as [E|E].
    + injection H as <-. exact Hhx.
    + destruct (holding (q_stage r0)) eqn:Hh; [|reflexivity].
      pose proof (I3 id r0 H Hh) as L1. pose proof (I3 (q_id x) r Hg Hhr) as L2. congruence.
Qed.

Lemma end_req_rset : forall st x r res, q_id x = q_id r ->
  end_req (set_reqs st (rset x (s_reqs st))) x res = end_req st r res.
Proof.
  intros st x r res E. unfold end_req, holds, set_reqs. cbn [s_seq s_reqs s_lock s_lockq].
  rewrite rdel_rset, E. reflexivity.
Qed.

Lemma inv_add : forall st sq x, Inv st -> rget (q_id x) (s_reqs st) = None -> ~ In (dt x) (map dt (s_reqs st)) ->
  q_stage x = RLock ->
  Inv {| s_seq := sq; s_reqs := rset x (s_reqs st); s_lock := s_lock st; s_lockq := s_lockq st |}.
Proof.
  intros st sq x (HC & I2 & I3 & I4) Hg Hdt Hs. unfold Inv. cbn [s_seq s_reqs s_lock s_lockq]. split4.
  - apply core_add; try assumption. rewrite Hs. discriminate.
  - intros h Hl. destruct (I2 h Hl) as [rh [Hrh Hhold]]. exists rh. split; [|exact Hhold].
    rewrite rget_rset_other; [exact Hrh|]. intros E; subst h. rewrite Hg in Hrh. discriminate.
  - intros id r0 H Hhold. rewrite rget_rset in H. destruct (N.eqb_spec id (q_id x)) as [E|E].
    + injection H as <-. rewrite Hs in Hhold. discriminate.
    + exact (I3 id r0 H Hhold).
  - exact I4.
Qed.

Lemma inv_seq : forall sq l h q sq', Inv {| s_seq := sq; s_reqs := l; s_lock := h; s_lockq := q |} ->
  Inv {| s_seq := sq'; s_reqs := l; s_lock := h; s_lockq := q |}.
Proof. intros sq l h q sq' H. exact H. Qed.

Lemma sstep_inv : forall st e, Inv st ->
  (forall id k d n, e = SSend id k d n -> rget id (s_reqs st) = None) -> Inv (fst (sstep st e)).
Proof.
  intros st e HI Hfresh. destruct e as [id k dst nsetup | id res | dst tag ok | id | id]; cbn [sstep].
  - (* SSend *)
    pose proof (Hfresh id k dst nsetup eq_refl) as Hnone.
    destruct (rfind_tag dst ((s_seq st + 1) mod 256) (s_reqs st)) as [r0|] eqn:Hf.
    + cbn [fst]. destruct st as [sq l h q]. exact (inv_seq _ _ _ _ _ HI).
    + unfold set_reqs. cbn [s_seq s_reqs s_lock s_lockq].
      match goal with |- context [want_lock _ ?x] => set (r := x) end.
      assert (Hn : rget (q_id r) (s_reqs st) = None) by exact Hnone.
      rewrite <- (rset_notin r (s_reqs st) Hn).
      apply want_lock_inv; cbn [s_seq s_reqs s_lock s_lockq].
      * apply inv_add; [exact HI | exact Hn | | reflexivity].
        exact (rfind_tag_None _ _ _ Hf).
      * apply rget_rset_same.
      * reflexivity.
      * intros Hin. destruct HI as ((_ & _ & _ & C4 & _) & _). destruct (C4 _ Hin) as [r1 [Hr1 _]].
        rewrite Hn in Hr1. discriminate.
  - (* SReply *)
    destruct (rget id (s_reqs st)) as [r|] eqn:Hg; [|exact HI].
    pose proof (rget_id _ _ _ Hg) as Hid.
    assert (Hg' : rget (q_id r) (s_reqs st) = Some r) by (rewrite Hid; exact Hg).
    destruct (q_stage r) eqn:Hs; try exact HI.
    + (* RSetup *)
      destruct (1 <? nleft); cbn [fst];
        apply inv_update with (r := r); cbn [q_id q_stage q_kind q_confirmed with_stage]; try assumption;
        try reflexivity; try (rewrite Hs; reflexivity); try (intros E; rewrite Hs in E; discriminate);
        intros E; discriminate.
    + (* RSend *)
      assert (Hh : holding (q_stage r) = true) by (rewrite Hs; reflexivity).
      destruct res.
      * destruct (q_kind r) eqn:Hk; try (apply end_req_inv; assumption).
        destruct (q_confirmed r) eqn:Hc; [apply end_req_inv; assumption|].
        match goal with |- context [unlock ?s] => destruct (unlock s) as [st2 o] eqn:Hu;
          replace st2 with (fst (unlock s)) by (rewrite Hu; reflexivity) end.
        cbn [fst]. apply unlock_after_restage_inv with (r := r); cbn [q_id q_stage q_kind q_confirmed with_stage];
          try assumption; try reflexivity. intros _. split; assumption.
      * apply unlock_after_restage_inv with (r := r); cbn [q_id q_stage q_kind q_confirmed]; try assumption;
          try reflexivity. intros E; discriminate.
      * apply end_req_inv; assumption.
  - (* SConfirm *)
    destruct (rfind_tag dst tag (s_reqs st)) as [r|] eqn:Hf; [|exact HI].
    destruct (q_confirmed r) eqn:Hc; [exact HI|].
    destruct (rfind_tag_spec _ _ _ _ Hf) as (Hin & _ & _).
    assert (Hg : rget (q_id r) (s_reqs st) = Some r) by (apply In_rget; [exact (proj1 (proj1 HI)) | exact Hin]).
    destruct (q_stage r) eqn:Hs;
      try (cbn [fst]; apply inv_update with (r := r); cbn [q_id q_stage q_kind q_confirmed]; try assumption;
           try reflexivity; try (rewrite Hs; reflexivity); try (intros E; rewrite Hs in E; discriminate);
           intros E; discriminate).
    rewrite (end_req_rset st _ r) by reflexivity. apply end_req_inv; assumption.
  - (* STimer *)
    destruct (rget id (s_reqs st)) as [r|] eqn:Hg; [|exact HI].
    pose proof (rget_id _ _ _ Hg) as Hid.
    assert (Hg' : rget (q_id r) (s_reqs st) = Some r) by (rewrite Hid; exact Hg).
    destruct (q_stage r) eqn:Hs; try exact HI.
    + destruct (q_attempt r <? nretries); [|apply end_req_inv; assumption].
      apply want_lock_inv; try assumption.
      * rewrite Hs. reflexivity.
      * intros Hin. pose proof (inv_lockq_stage st (q_id r) r HI Hg' Hin) as E. rewrite E in Hs. discriminate.
    + apply end_req_inv; assumption.
  - (* SCancel *)
    destruct (rget id (s_reqs st)) as [r|] eqn:Hg; [|exact HI].
    pose proof (rget_id _ _ _ Hg) as Hid.
    apply end_req_inv; [exact HI | rewrite Hid; exact Hg].
Qed.
