(* C12 proofs: send_packet / _handle_frame_sent model (model/SendPacket.v).
   Part 1: list lemmas (rget / rset / rdel / rfind_tag).
   Part 2: the global invariant [Inv], preserved by [sstep] when SSend ids are fresh; [reachable_inv].
   Part 3: frame lemmas (what one step can output / change) valid in every state.
   Part 4: the C12 theorems. *)
From Coq Require Import String.
From Coq Require Import ZArith NArith List Bool Lia ZifyBool ZifyN.
Import ListNotations.
Require Import BV.gen.GenApp BV.gen.GenStatus BV.model.Status BV.model.SendPacket.
Open Scope N_scope.

(* ---- vocabulary ---------------------------------------------------------------------------------- *)
Definition sfinal (es : list sevent) : sstate := fst (srun s_init es).
Definition souts (es : list sevent) : list sout := concat (snd (srun s_init es)).
Definition send_ids (es : list sevent) : list N :=
  flat_map (fun e => match e with SSend id _ _ _ => [id] | _ => [] end) es.
Definition sends_unique (es : list sevent) : Prop := NoDup (send_ids es).
Definition reachable (st : sstate) : Prop := exists es, sends_unique es /\ st = sfinal es.
Definition maps_to_unified (legacy unified : string) : Prop :=
  match member legacy ember_members, member unified sl_members with
  | Some c, Some u => normalise FEmber c = u
  | _, _ => False
  end.

(* the (destination, message tag) key of the pending table *)
Definition dt (r : req) : N * N := (q_dst r, q_tag r).
(* stages in which the request holds the request lock *)
Definition holding (s : rstage) : bool := match s with RSetup _ | RSend => true | _ => false end.

(* ================================================================================================== *)
(* Part 1: list lemmas                                                                                *)
(* ================================================================================================== *)

Lemma rget_id : forall id l r, rget id l = Some r -> q_id r = id.
Proof.
  intros id l; induction l as [|a l IH]; intros r H; cbn in H; [discriminate|].
  destruct (N.eqb_spec (q_id a) id) as [E|E]; [injection H as <-; exact E | exact (IH r H)].
Qed.

Lemma rget_In : forall id l r, rget id l = Some r -> In r l.
Proof.
  intros id l; induction l as [|a l IH]; intros r H; cbn in H; [discriminate|].
  destruct (q_id a =? id); [inversion H; left; reflexivity | right; exact (IH r H)].
Qed.

Lemma rget_None_iff : forall id l, rget id l = None <-> ~ In id (map q_id l).
Proof.
  intros id l; induction l as [|a l IH]; cbn; [tauto|].
  destruct (N.eqb_spec (q_id a) id) as [E|E]; split; intros H.
  - discriminate.
  - exfalso; apply H; left; exact E.
  - intros [H1|H1]; [exact (E H1) | apply IH in H; exact (H H1)].
  - apply IH; intros H1; apply H; right; exact H1.
Qed.

Lemma rget_Some_in_ids : forall id l r, rget id l = Some r -> In id (map q_id l).
Proof.
  intros id l r H. pose proof (rget_id _ _ _ H) as E. apply rget_In in H.
  rewrite <- E. apply in_map. exact H.
Qed.

Lemma In_rget : forall l r, NoDup (map q_id l) -> In r l -> rget (q_id r) l = Some r.
Proof.
  induction l as [|a l IH]; intros r Hnd Hin; [destruct Hin|].
  cbn in Hnd; inversion Hnd as [|x xs Hnotin Hnd']; subst. cbn.
  destruct Hin as [Hin|Hin].
  - subst a. rewrite N.eqb_refl. reflexivity.
  - destruct (N.eqb_spec (q_id a) (q_id r)) as [E|E].
    + exfalso. apply Hnotin. rewrite E. apply in_map. exact Hin.
    + apply IH; assumption.
Qed.

Lemma rget_rset : forall x l id, rget id (rset x l) = if id =? q_id x then Some x else rget id l.
Proof.
  intros x l id; induction l as [|a l IH]; cbn.
  - rewrite (N.eqb_sym (q_id x) id). reflexivity.
  - destruct (N.eqb_spec (q_id a) (q_id x)) as [E|E]; cbn.
    + rewrite (N.eqb_sym (q_id x) id).
      destruct (N.eqb_spec id (q_id x)) as [E1|E1]; [reflexivity|].
      destruct (N.eqb_spec (q_id a) id) as [E2|E2]; [congruence | reflexivity].
    + destruct (N.eqb_spec (q_id a) id) as [E2|E2].
      * destruct (N.eqb_spec id (q_id x)) as [E1|E1]; [congruence | reflexivity].
      * exact IH.
Qed.

Lemma rget_rset_same : forall x l, rget (q_id x) (rset x l) = Some x.
Proof. intros x l. rewrite rget_rset, N.eqb_refl. reflexivity. Qed.

Lemma rget_rset_other : forall x l id, id <> q_id x -> rget id (rset x l) = rget id l.
Proof.
  intros x l id H. rewrite rget_rset. destruct (N.eqb_spec id (q_id x)); [contradiction | reflexivity].
Qed.

Lemma rget_rdel_other : forall id id' l, id <> id' -> rget id (rdel id' l) = rget id l.
Proof.
  intros id id' l Hne; induction l as [|a l IH]; cbn; [reflexivity|].
  destruct (N.eqb_spec (q_id a) id') as [E|E]; cbn.
  - destruct (N.eqb_spec (q_id a) id) as [E1|E1]; [congruence | reflexivity].
  - destruct (q_id a =? id); [reflexivity | exact IH].
Qed.

Lemma rget_rdel_same : forall id l, NoDup (map q_id l) -> rget id (rdel id l) = None.
Proof.
  intros id l; induction l as [|a l IH]; intros Hnd; cbn; [reflexivity|].
  cbn in Hnd; inversion Hnd as [|x xs Hnotin Hnd']; subst.
  destruct (N.eqb_spec (q_id a) id) as [E|E]; cbn.
  - apply rget_None_iff. rewrite <- E. exact Hnotin.
  - destruct (N.eqb_spec (q_id a) id) as [E1|E1]; [contradiction | exact (IH Hnd')].
Qed.

Lemma rget_rdel_Some : forall id id' l r, rget id (rdel id' l) = Some r -> NoDup (map q_id l) ->
  id <> id' /\ rget id l = Some r.
Proof.
  intros id id' l r H Hnd. destruct (N.eq_dec id id') as [E|E].
  - subst. rewrite rget_rdel_same in H by exact Hnd. discriminate.
  - split; [exact E|]. rewrite rget_rdel_other in H by exact E. exact H.
Qed.

Lemma In_rdel : forall id l (x : req), In x (rdel id l) -> In x l.
Proof.
  intros id l x; induction l as [|a l IH]; cbn; [tauto|].
  destruct (q_id a =? id); cbn; [tauto|]. intros [H|H]; [left; exact H | right; exact (IH H)].
Qed.

Lemma In_map_rdel : forall (A : Type) (f : req -> A) id l y, In y (map f (rdel id l)) -> In y (map f l).
Proof.
  intros A f id l y H. apply in_map_iff in H. destruct H as [x [E H]].
  apply in_map_iff. exists x. split; [exact E | exact (In_rdel _ _ _ H)].
Qed.

Lemma NoDup_map_rdel : forall (A : Type) (f : req -> A) id l, NoDup (map f l) -> NoDup (map f (rdel id l)).
Proof.
  intros A f id l; induction l as [|a l IH]; intros Hnd; cbn; [constructor|].
  cbn in Hnd; inversion Hnd as [|x xs Hnotin Hnd']; subst.
  destruct (q_id a =? id); [exact Hnd'|]. cbn. constructor; [|exact (IH Hnd')].
  intros H. apply Hnotin. exact (In_map_rdel _ _ _ _ _ H).
Qed.

Lemma map_rset_in : forall (A : Type) (f : req -> A) x l r,
  rget (q_id x) l = Some r -> f x = f r -> map f (rset x l) = map f l.
Proof.
  intros A f x l; induction l as [|a l IH]; intros r H Hf; cbn in *; [discriminate|].
  destruct (q_id a =? q_id x); cbn.
  - inversion H; subst. rewrite Hf. reflexivity.
  - rewrite (IH r H Hf). reflexivity.
Qed.

Lemma rset_notin : forall x l, rget (q_id x) l = None -> rset x l = l ++ [x].
Proof.
  intros x l; induction l as [|a l IH]; intros H; cbn in *; [reflexivity|].
  destruct (q_id a =? q_id x); [discriminate|]. rewrite (IH H). reflexivity.
Qed.

Lemma rdel_rset : forall x l, rdel (q_id x) (rset x l) = rdel (q_id x) l.
Proof.
  intros x l; induction l as [|a l IH]; cbn.
  - rewrite N.eqb_refl. reflexivity.
  - destruct (N.eqb_spec (q_id a) (q_id x)) as [E|E]; cbn.
    + rewrite N.eqb_refl. reflexivity.
    + destruct (N.eqb_spec (q_id a) (q_id x)); [contradiction|]. rewrite IH. reflexivity.
Qed.

Lemma rfind_tag_spec : forall d t l r, rfind_tag d t l = Some r -> In r l /\ q_dst r = d /\ q_tag r = t.
Proof.
  intros d t l; induction l as [|a l IH]; intros r H; cbn in H; [discriminate|].
  destruct (N.eqb_spec (q_dst a) d) as [E1|E1]; destruct (N.eqb_spec (q_tag a) t) as [E2|E2]; cbn in H;
    try (destruct (IH r H) as [Hin Hk]; split; [right; exact Hin | exact Hk]).
  inversion H; subst. split; [left; reflexivity | split; reflexivity].
Qed.

Lemma rfind_tag_None : forall d t l, rfind_tag d t l = None -> ~ In (d, t) (map dt l).
Proof.
  intros d t l; induction l as [|a l IH]; intros H; cbn in *; [tauto|].
  destruct (N.eqb_spec (q_dst a) d) as [E1|E1]; destruct (N.eqb_spec (q_tag a) t) as [E2|E2]; cbn in H;
    try discriminate; intros [Hc|Hc]; try (exact (IH H Hc)); unfold dt in Hc; inversion Hc; contradiction.
Qed.

Lemma rfind_tag_unique : forall l r, NoDup (map dt l) -> In r l -> rfind_tag (q_dst r) (q_tag r) l = Some r.
Proof.
  induction l as [|a l IH]; intros r Hnd Hin; [destruct Hin|].
  cbn in Hnd; inversion Hnd as [|x xs Hnotin Hnd']; subst. cbn.
  destruct Hin as [Hin|Hin].
  - subst a. rewrite !N.eqb_refl. reflexivity.
  - destruct (N.eqb_spec (q_dst a) (q_dst r)) as [E1|E1]; destruct (N.eqb_spec (q_tag a) (q_tag r)) as [E2|E2]; cbn;
      try (apply IH; assumption).
    exfalso. apply Hnotin. replace (dt a) with (dt r) by (unfold dt; rewrite E1, E2; reflexivity).
    apply in_map. exact Hin.
Qed.

Lemma filter_neq_notin : forall id (q : list N), ~ In id (filter (fun x => negb (x =? id)) q).
Proof.
  intros id q H. apply filter_In in H. destruct H as [_ H]. rewrite N.eqb_refl in H. discriminate.
Qed.

Lemma filter_neq_In : forall id x (q : list N), In x (filter (fun y => negb (y =? id)) q) -> In x q /\ x <> id.
Proof.
  intros id x q H. apply filter_In in H. destruct H as [H1 H2]. split; [exact H1|].
  intros E; subst. rewrite N.eqb_refl in H2. discriminate.
Qed.

Lemma with_stage_self : forall r, with_stage r (q_stage r) = r.
Proof. intros [i k d t s a g c]. reflexivity. Qed.

Lemma NoDup_snoc : forall (A : Type) (l : list A) a, NoDup l -> ~ In a l -> NoDup (l ++ [a]).
Proof.
  intros A l a; induction l as [|b l IH]; intros Hnd Hnotin; cbn.
  - constructor; [intros H; destruct H | constructor].
  - inversion Hnd as [|x xs Hb Hnd']; subst. constructor.
    + intros H. apply in_app_or in H. destruct H as [H|[H|[]]]; [exact (Hb H)|].
      apply Hnotin. left. symmetry. exact H.
    + apply IH; [exact Hnd'|]. intros H. apply Hnotin. right. exact H.
Qed.

Lemma map_rset_notin : forall (A : Type) (f : req -> A) x l,
  rget (q_id x) l = None -> map f (rset x l) = map f l ++ [f x].
Proof. intros A f x l H. rewrite (rset_notin x l H), map_app. reflexivity. Qed.

(* ================================================================================================== *)
(* Part 2: the invariant                                                                              *)
(* ================================================================================================== *)

(* the part that does not mention the lock: ids unique; (destination, tag) keys unique; the lock queue
   has no duplicates and only holds requests in stage RLock; a request waiting for its confirmation is
   a unicast whose confirmation has not arrived *)
Definition Core (l : list req) (q : list N) : Prop :=
  NoDup (map q_id l) /\ NoDup (map dt l) /\ NoDup q /\
  (forall id, In id q -> exists r, rget id l = Some r /\ q_stage r = RLock) /\
  (forall id r, rget id l = Some r -> q_stage r = RConfirm -> q_kind r = Unicast /\ q_confirmed r = None).

Definition nohold (l : list req) : Prop := forall id r, rget id l = Some r -> holding (q_stage r) = false.

(* the lock holder is a request in progress, in stage RSetup/RSend, and it is the only such request;
   nobody waits for a free lock *)
Definition Inv (st : sstate) : Prop :=
  Core (s_reqs st) (s_lockq st) /\
  (forall h, s_lock st = Some h -> exists r, rget h (s_reqs st) = Some r /\ holding (q_stage r) = true) /\
  (forall id r, rget id (s_reqs st) = Some r -> holding (q_stage r) = true -> s_lock st = Some id) /\
  (s_lock st = None -> s_lockq st = []).

Ltac split5 := split; [|split; [|split; [|split]]].
Ltac split4 := split; [|split; [|split]].

Lemma core_rset : forall l q x r, Core l q -> rget (q_id x) l = Some r -> dt x = dt r ->
  (In (q_id x) q -> q_stage x = RLock) ->
  (q_stage x = RConfirm -> q_kind x = Unicast /\ q_confirmed x = None) ->
  Core (rset x l) q.
Proof.
  intros l q x r (C1 & C2 & C3 & C4 & C5) Hg Hdt Hq Hc. unfold Core.
  assert (Hid : q_id x = q_id r) by (symmetry; exact (rget_id _ _ _ Hg)).
  rewrite (map_rset_in _ q_id x l r Hg Hid), (map_rset_in _ dt x l r Hg Hdt).
  split5; try assumption.
  - intros id Hin. rewrite rget_rset. destruct (N.eqb_spec id (q_id x)) as [E|E].
    + subst id. exists x. split; [reflexivity | exact (Hq Hin)].
    + exact (C4 id Hin).
  - intros id r0 H Hs. rewrite rget_rset in H. destruct (N.eqb_spec id (q_id x)) as [E|E].
    + injection H as <-. exact (Hc Hs).
    + exact (C5 id r0 H Hs).
Qed.

Lemma core_add : forall l q x, Core l q -> rget (q_id x) l = None -> ~ In (dt x) (map dt l) ->
  q_stage x <> RConfirm -> Core (rset x l) q.
Proof.
  intros l q x (C1 & C2 & C3 & C4 & C5) Hg Hdt Hs. unfold Core.
  rewrite (map_rset_notin _ q_id x l Hg), (map_rset_notin _ dt x l Hg).
  split5.
  - apply NoDup_snoc; [exact C1|]. apply rget_None_iff. exact Hg.
  - apply NoDup_snoc; [exact C2 | exact Hdt].
  - exact C3.
  - intros id Hin. destruct (C4 id Hin) as [r [Hr Hst]]. exists r. split; [|exact Hst].
    rewrite rget_rset_other; [exact Hr|]. intros E; subst id. rewrite Hg in Hr. discriminate.
  - intros id r0 H Hst. rewrite rget_rset in H. destruct (N.eqb_spec id (q_id x)) as [E|E].
    + injection H as <-. contradiction.
    + exact (C5 id r0 H Hst).
Qed.

Lemma core_rdel : forall l q id, Core l q -> Core (rdel id l) (filter (fun x => negb (x =? id)) q).
Proof.
  intros l q id (C1 & C2 & C3 & C4 & C5). unfold Core. split5.
  - apply NoDup_map_rdel. exact C1.
  - apply NoDup_map_rdel. exact C2.
  - apply NoDup_filter. exact C3.
  - intros id2 Hin. apply filter_neq_In in Hin. destruct Hin as [Hin Hne].
    rewrite rget_rdel_other by exact Hne. exact (C4 id2 Hin).
  - intros id2 r0 H Hst. apply rget_rdel_Some in H; [|exact C1]. destruct H as [_ H]. exact (C5 id2 r0 H Hst).
Qed.

Lemma core_pop : forall l q id, Core l (id :: q) ->
  Core l q /\ ~ In id q /\ exists r, rget id l = Some r /\ q_stage r = RLock.
Proof.
  intros l q id (C1 & C2 & C3 & C4 & C5). inversion C3 as [|x xs Hnotin C3']; subst.
  split; [|split; [exact Hnotin | apply C4; left; reflexivity]].
  unfold Core. split5; try assumption. intros id2 Hin. apply C4. right. exact Hin.
Qed.

Lemma core_push : forall l q id, Core l q -> (exists r, rget id l = Some r /\ q_stage r = RLock) ->
  ~ In id q -> Core l (q ++ [id]).
Proof.
  intros l q id (C1 & C2 & C3 & C4 & C5) Hr Hnotin. unfold Core. split5; try assumption.
  - apply NoDup_snoc; assumption.
  - intros id2 Hin. apply in_app_or in Hin. destruct Hin as [Hin|[Hin|[]]]; [exact (C4 id2 Hin)|].
    subst id2. exact Hr.
Qed.

Lemma grant_inv : forall sq l q r s, Core l q -> nohold l -> rget (q_id r) l = Some r ->
  holding s = true -> ~ In (q_id r) q ->
  Inv {| s_seq := sq; s_reqs := rset (with_stage r s) l; s_lock := Some (q_id r); s_lockq := q |}.
Proof.
  intros sq l q r s HC Hnh Hg Hs Hnotin. unfold Inv. cbn [s_seq s_reqs s_lock s_lockq]. split4.
  - apply core_rset with (r := r); cbn [q_id q_stage with_stage]; try assumption.
    + reflexivity.
    + intros Hin. contradiction.
    + intros E. rewrite E in Hs. discriminate.
  - intros h Hh. injection Hh as <-. exists (with_stage r s). split; [exact (rget_rset_same (with_stage r s) l)|].
    exact Hs.
  - intros id r0 H Hh. rewrite rget_rset in H. cbn [q_id with_stage] in H.
    destruct (N.eqb_spec id (q_id r)) as [E|E]; [subst; reflexivity|].
    rewrite (Hnh id r0 H) in Hh. discriminate.
  - discriminate.
Qed.

Lemma inv_nohold : forall st, Inv st -> s_lock st = None -> nohold (s_reqs st).
Proof.
  intros st (_ & _ & I3 & _) Hl id r Hg. destruct (holding (q_stage r)) eqn:E; [|reflexivity].
  rewrite (I3 id r Hg E) in Hl. discriminate.
Qed.

Lemma inv_lockq_stage : forall st id r, Inv st -> rget id (s_reqs st) = Some r -> In id (s_lockq st) ->
  q_stage r = RLock.
Proof.
  intros st id r ((_ & _ & _ & C4 & _) & _) Hg Hin. destruct (C4 id Hin) as [r0 [Hr0 Hs]].
  rewrite Hg in Hr0. injection Hr0 as <-. exact Hs.
Qed.

Lemma enqueue_inv : forall st r h, Inv st -> s_lock st = Some h -> rget (q_id r) (s_reqs st) = Some r ->
  holding (q_stage r) = false -> ~ In (q_id r) (s_lockq st) ->
  Inv {| s_seq := s_seq st; s_reqs := rset (with_stage r RLock) (s_reqs st); s_lock := s_lock st;
         s_lockq := s_lockq st ++ [q_id r] |}.
Proof.
  intros st r h (HC & I2 & I3 & I4) Hl Hg Hnh Hnotin. unfold Inv. cbn [s_seq s_reqs s_lock s_lockq]. split4.
  - apply core_push; [| |exact Hnotin].
    + apply core_rset with (r := r); cbn [q_id q_stage with_stage];
        [exact HC | exact Hg | reflexivity | intros _; reflexivity | intros E; discriminate].
    + exists (with_stage r RLock). split; [exact (rget_rset_same (with_stage r RLock) _) | reflexivity].
  - intros h' Hh'. destruct (I2 h' Hh') as [rh [Hrh Hhold]]. exists rh. split; [|exact Hhold].
    rewrite rget_rset_other; [exact Hrh|]. cbn [q_id with_stage]. intros E; subst h'.
    rewrite Hg in Hrh. injection Hrh as <-. rewrite Hnh in Hhold. discriminate.
  - intros id r0 H Hh. rewrite rget_rset in H. cbn [q_id with_stage] in H.
    destruct (N.eqb_spec id (q_id r)) as [E|E].
    + injection H as <-. cbn in Hh. discriminate.
    + exact (I3 id r0 H Hh).
  - intros E. rewrite Hl in E. discriminate.
Qed.

Lemma want_lock_inv : forall st r, Inv st -> rget (q_id r) (s_reqs st) = Some r ->
  holding (q_stage r) = false -> ~ In (q_id r) (s_lockq st) -> Inv (fst (want_lock st r)).
Proof.
  intros st r HI Hg Hnh Hnotin. unfold want_lock. destruct (s_lock st) as [h|] eqn:Hl.
  - cbn [fst]. rewrite <- Hl. exact (enqueue_inv st r h HI Hl Hg Hnh Hnotin).
  - pose proof (inv_nohold st HI Hl) as Hno. destruct HI as (HC & _).
    unfold begin_attempt. destruct (0 <? q_setup r); cbn [fst]; apply grant_inv; try assumption; reflexivity.
Qed.

Lemma release_lock_inv : forall fuel sq l h q, Core l q -> nohold l -> (List.length q < fuel)%nat ->
  Inv (fst (release_lock fuel {| s_seq := sq; s_reqs := l; s_lock := h; s_lockq := q |})).
Proof.
  induction fuel as [|fuel IH]; intros sq l h q HC Hnh Hlen; [lia|].
  cbn [release_lock s_seq s_reqs s_lock s_lockq]. destruct q as [|id q].
  - cbn [fst]. unfold Inv. cbn [s_seq s_reqs s_lock s_lockq]. split4.
    + exact HC.
    + discriminate.
    + intros id r Hg Hh. rewrite (Hnh id r Hg) in Hh. discriminate.
    + reflexivity.
  - destruct (core_pop l q id HC) as (HC' & Hnotin & r & Hr & Hst). rewrite Hr.
    pose proof (rget_id _ _ _ Hr) as Hid. subst id.
    unfold want_lock. cbn [s_seq s_reqs s_lock s_lockq].
    unfold begin_attempt. destruct (0 <? q_setup r); cbn [fst]; apply grant_inv; try assumption; reflexivity.
Qed.

Lemma unlock_inv : forall st, Core (s_reqs st) (s_lockq st) -> nohold (s_reqs st) -> Inv (fst (unlock st)).
Proof.
  intros [sq l h q] HC Hnh. unfold unlock. cbn [s_seq s_reqs s_lock s_lockq] in *.
  apply release_lock_inv; [exact HC | exact Hnh | lia].
Qed.

Lemma inv_rdel_nonholder : forall st id, Inv st -> s_lock st <> Some id ->
  Inv {| s_seq := s_seq st; s_reqs := rdel id (s_reqs st); s_lock := s_lock st;
         s_lockq := filter (fun x => negb (x =? id)) (s_lockq st) |}.
Proof.
  intros st id (HC & I2 & I3 & I4) Hne. unfold Inv. cbn [s_seq s_reqs s_lock s_lockq]. split4.
  - apply core_rdel. exact HC.
  - intros h Hh. destruct (I2 h Hh) as [rh [Hrh Hhold]]. exists rh. split; [|exact Hhold].
    rewrite rget_rdel_other; [exact Hrh|]. intros E; subst h. exact (Hne Hh).
  - intros id2 r0 H Hh. apply rget_rdel_Some in H; [|exact (proj1 HC)]. destruct H as [_ H].
    exact (I3 id2 r0 H Hh).
  - intros E. rewrite (I4 E). reflexivity.
Qed.

Lemma end_req_inv : forall st r res, Inv st -> rget (q_id r) (s_reqs st) = Some r -> Inv (fst (end_req st r res)).
Proof.
  intros st r res HI Hg. unfold end_req, holds. destruct (s_lock st) as [h|] eqn:Hl.
  - destruct (N.eqb_spec h (q_id r)) as [E|E].
    + match goal with |- context [unlock ?s] => destruct (unlock s) as [st2 o] eqn:Hu;
        replace st2 with (fst (unlock s)) by (rewrite Hu; reflexivity) end.
      cbn [fst]. destruct HI as (HC & I2 & I3 & I4).
      apply unlock_inv; cbn [s_seq s_reqs s_lock s_lockq].
      * apply core_rdel. exact HC.
      * intros id r0 H. apply rget_rdel_Some in H; [|exact (proj1 HC)]. destruct H as [Hne H].
        destruct (holding (q_stage r0)) eqn:Hh; [|reflexivity].
        pose proof (I3 id r0 H Hh) as Hl'. rewrite Hl in Hl'. injection Hl' as Hl'. congruence.
    + cbn [fst]. rewrite <- Hl. apply inv_rdel_nonholder; [exact HI|]. rewrite Hl. congruence.
  - cbn [fst]. rewrite <- Hl. apply inv_rdel_nonholder; [exact HI|]. rewrite Hl. discriminate.
Qed.

Lemma inv_update : forall st x r, Inv st -> rget (q_id x) (s_reqs st) = Some r -> dt x = dt r ->
  holding (q_stage x) = holding (q_stage r) ->
  (q_stage r = RLock -> q_stage x = RLock) ->
  (q_stage x = RConfirm -> q_kind x = Unicast /\ q_confirmed x = None) ->
  Inv (set_reqs st (rset x (s_reqs st))).
Proof.
  intros st x r HI Hg Hdt Hh Hlk Hcf. pose proof HI as (HC & I2 & I3 & I4).
  unfold Inv, set_reqs. cbn [s_seq s_reqs s_lock s_lockq]. split4.
  - apply core_rset with (r := r); try assumption.
    intros Hin. apply Hlk. exact (inv_lockq_stage st (q_id x) r HI Hg Hin).
  - intros h Hl. destruct (I2 h Hl) as [rh [Hrh Hhold]]. rewrite rget_rset.
    destruct (N.eqb_spec h (q_id x)) as [E|E].
    + exists x. split; [reflexivity|]. subst h. rewrite Hg in Hrh. injection Hrh as <-. rewrite Hh. exact Hhold.
    + exists rh. split; assumption.
  - intros id r0 H Hhold. rewrite rget_rset in H. destruct (N.eqb_spec id (q_id x)) as [E|E].
    + injection H as <-. subst id. rewrite Hh in Hhold. exact (I3 (q_id x) r Hg Hhold).
    + exact (I3 id r0 H Hhold).
  - exact I4.
Qed.

(* the holder leaves the holding stages (accepted / busy): the lock moves on *)
Lemma unlock_after_restage_inv : forall st x r, Inv st -> rget (q_id x) (s_reqs st) = Some r -> dt x = dt r ->
  holding (q_stage r) = true -> holding (q_stage x) = false ->
  (q_stage x = RConfirm -> q_kind x = Unicast /\ q_confirmed x = None) ->
  Inv (fst (unlock (set_reqs st (rset x (s_reqs st))))).
Proof.
  intros st x r HI Hg Hdt Hhr Hhx Hcf. pose proof HI as (HC & I2 & I3 & I4).
  apply unlock_inv; unfold set_reqs; cbn [s_seq s_reqs s_lock s_lockq].
  - apply core_rset with (r := r); try assumption.
    intros Hin. pose proof (inv_lockq_stage st (q_id x) r HI Hg Hin) as E. rewrite E in Hhr. discriminate.
  - intros id r0 H. rewrite rget_rset in H. destruct (N.eqb_spec id (q_id x)) as [E|E].
    + injection H as <-. exact Hhx.
    + destruct (holding (q_stage r0)) eqn:Hh; [|reflexivity].
      pose proof (I3 id r0 H Hh) as L1. pose proof (I3 (q_id x) r Hg Hhr) as L2. congruence.
Qed.

Lemma end_req_rset : forall st x r res, q_id x = q_id r ->
  end_req (set_reqs st (rset x (s_reqs st))) x res = end_req st r res.
Proof.
  intros st x r res E. unfold end_req, holds, set_reqs. cbn [s_seq s_reqs s_lock s_lockq].
  rewrite rdel_rset, E. reflexivity.
Qed.

Lemma inv_add : forall st sq x, Inv st -> rget (q_id x) (s_reqs st) = None -> ~ In (dt x) (map dt (s_reqs st)) ->
  q_stage x = RLock ->
  Inv {| s_seq := sq; s_reqs := rset x (s_reqs st); s_lock := s_lock st; s_lockq := s_lockq st |}.
Proof.
  intros st sq x (HC & I2 & I3 & I4) Hg Hdt Hs. unfold Inv. cbn [s_seq s_reqs s_lock s_lockq]. split4.
  - apply core_add; try assumption. rewrite Hs. discriminate.
  - intros h Hl. destruct (I2 h Hl) as [rh [Hrh Hhold]]. exists rh. split; [|exact Hhold].
    rewrite rget_rset_other; [exact Hrh|]. intros E; subst h. rewrite Hg in Hrh. discriminate.
  - intros id r0 H Hhold. rewrite rget_rset in H. destruct (N.eqb_spec id (q_id x)) as [E|E].
    + injection H as <-. rewrite Hs in Hhold. discriminate.
    + exact (I3 id r0 H Hhold).
  - exact I4.
Qed.

Lemma inv_seq : forall sq l h q sq', Inv {| s_seq := sq; s_reqs := l; s_lock := h; s_lockq := q |} ->
  Inv {| s_seq := sq'; s_reqs := l; s_lock := h; s_lockq := q |}.
Proof. intros sq l h q sq' H. exact H. Qed.

Lemma sstep_inv : forall st e, Inv st ->
  (forall id k d n, e = SSend id k d n -> rget id (s_reqs st) = None) -> Inv (fst (sstep st e)).
Proof.
  intros st e HI Hfresh. destruct e as [id k dst nsetup | id res | dst tag ok | id | id]; cbn [sstep].
  - (* SSend *)
    pose proof (Hfresh id k dst nsetup eq_refl) as Hnone.
    destruct (rfind_tag dst ((s_seq st + 1) mod 256) (s_reqs st)) as [r0|] eqn:Hf.
    + cbn [fst]. destruct st as [sq l h q]. exact (inv_seq _ _ _ _ _ HI).
    + unfold set_reqs. cbn [s_seq s_reqs s_lock s_lockq].
      match goal with |- context [want_lock _ ?x] => set (r := x) end.
      assert (Hn : rget (q_id r) (s_reqs st) = None) by exact Hnone.
      rewrite <- (rset_notin r (s_reqs st) Hn).
      apply want_lock_inv; cbn [s_seq s_reqs s_lock s_lockq].
      * apply inv_add; [exact HI | exact Hn | | reflexivity].
        exact (rfind_tag_None _ _ _ Hf).
      * apply rget_rset_same.
      * reflexivity.
      * intros Hin. destruct HI as ((_ & _ & _ & C4 & _) & _). destruct (C4 _ Hin) as [r1 [Hr1 _]].
        rewrite Hn in Hr1. discriminate.
  - (* SReply *)
    destruct (rget id (s_reqs st)) as [r|] eqn:Hg; [|exact HI].
    pose proof (rget_id _ _ _ Hg) as Hid.
    assert (Hg' : rget (q_id r) (s_reqs st) = Some r) by (rewrite Hid; exact Hg).
    destruct (q_stage r) eqn:Hs; try exact HI.
    + (* RSetup *)
      destruct (1 <? nleft); cbn [fst];
        apply inv_update with (r := r); cbn [q_id q_stage q_kind q_confirmed with_stage]; try assumption;
        try reflexivity; try (rewrite Hs; reflexivity); try (intros E; rewrite Hs in E; discriminate);
        intros E; discriminate.
    + (* RSend *)
      assert (Hh : holding (q_stage r) = true) by (rewrite Hs; reflexivity).
      destruct res.
      * destruct (q_kind r) eqn:Hk; try (apply end_req_inv; assumption).
        destruct (q_confirmed r) eqn:Hc; [apply end_req_inv; assumption|].
        match goal with |- context [unlock ?s] => destruct (unlock s) as [st2 o] eqn:Hu;
          replace st2 with (fst (unlock s)) by (rewrite Hu; reflexivity) end.
        cbn [fst]. apply unlock_after_restage_inv with (r := r); cbn [q_id q_stage q_kind q_confirmed with_stage];
          try assumption; try reflexivity. intros _. split; assumption.
      * apply unlock_after_restage_inv with (r := r); cbn [q_id q_stage q_kind q_confirmed]; try assumption;
          try reflexivity. intros E; discriminate.
      * apply end_req_inv; assumption.
  - (* SConfirm *)
    destruct (rfind_tag dst tag (s_reqs st)) as [r|] eqn:Hf; [|exact HI].
    destruct (q_confirmed r) eqn:Hc; [exact HI|].
    destruct (rfind_tag_spec _ _ _ _ Hf) as (Hin & _ & _).
    assert (Hg : rget (q_id r) (s_reqs st) = Some r) by (apply In_rget; [exact (proj1 (proj1 HI)) | exact Hin]).
    destruct (q_stage r) eqn:Hs;
      try (cbn [fst]; apply inv_update with (r := r); cbn [q_id q_stage q_kind q_confirmed]; try assumption;
           try reflexivity; try (rewrite Hs; reflexivity); try (intros E; rewrite Hs in E; discriminate);
           intros E; discriminate).
    rewrite (end_req_rset st _ r) by reflexivity. apply end_req_inv; assumption.
  - (* STimer *)
    destruct (rget id (s_reqs st)) as [r|] eqn:Hg; [|exact HI].
    pose proof (rget_id _ _ _ Hg) as Hid.
    assert (Hg' : rget (q_id r) (s_reqs st) = Some r) by (rewrite Hid; exact Hg).
    destruct (q_stage r) eqn:Hs; try exact HI.
    + destruct (q_attempt r <? nretries); [|apply end_req_inv; assumption].
      apply want_lock_inv; try assumption.
      * rewrite Hs. reflexivity.
      * intros Hin. pose proof (inv_lockq_stage st (q_id r) r HI Hg' Hin) as E. rewrite E in Hs. discriminate.
    + apply end_req_inv; assumption.
  - (* SCancel *)
    destruct (rget id (s_reqs st)) as [r|] eqn:Hg; [|exact HI].
    pose proof (rget_id _ _ _ Hg) as Hid.
    apply end_req_inv; [exact HI | rewrite Hid; exact Hg].
Qed.

(* ================================================================================================== *)
(* Part 3: frame lemmas (valid in every state)                                                        *)
(* ================================================================================================== *)

Definition is_cmd (id : N) (x : sout) : Prop := x = XSetup id \/ exists k d t, x = XSendCmd id k d t.

(* a lock operation only moves a request to another stage, and never to RConfirm *)
Definition chg (r r' : req) : Prop :=
  r' = with_stage r (q_stage r') /\
  (q_stage r' = q_stage r \/ holding (q_stage r') = true \/ q_stage r' = RLock).

Lemma chg_refl : forall r, chg r r.
Proof. intros r. split; [symmetry; apply with_stage_self | left; reflexivity]. Qed.

Lemma chg_with_stage : forall r s, holding s = true \/ s = RLock -> chg r (with_stage r s).
Proof. intros r s H. split; [reflexivity | right; exact H]. Qed.

Lemma let_pair_eta : forall (p : sstate * list sout), (let '(a, b) := p in (a, b)) = p.
Proof. intros [a b]. reflexivity. Qed.

Lemma begin_attempt_spec : forall r, exists s, fst (begin_attempt r) = with_stage r s /\ holding s = true /\
  forall x, In x (snd (begin_attempt r)) -> is_cmd (q_id r) x.
Proof.
  intros r. unfold begin_attempt. destruct (0 <? q_setup r); cbn [fst snd].
  - exists (RSetup (q_setup r)). split; [reflexivity|]. split; [reflexivity|].
    intros x [Hx|[]]. left. symmetry. exact Hx.
  - exists RSend. split; [reflexivity|]. split; [reflexivity|].
    intros x [Hx|[]]. right. exists (q_kind r), (q_dst r), (q_tag r). symmetry. exact Hx.
Qed.

Lemma want_lock_frame : forall st r,
  s_seq (fst (want_lock st r)) = s_seq st /\
  (exists s, s_reqs (fst (want_lock st r)) = rset (with_stage r s) (s_reqs st) /\ (holding s = true \/ s = RLock)) /\
  (forall x, In x (snd (want_lock st r)) -> s_lock (fst (want_lock st r)) = Some (q_id r) /\ is_cmd (q_id r) x) /\
  (s_lock st = None -> s_lockq (fst (want_lock st r)) = s_lockq st /\ s_lock (fst (want_lock st r)) = Some (q_id r)) /\
  incl (s_lockq (fst (want_lock st r))) (s_lockq st ++ [q_id r]).
Proof.
  intros st r. unfold want_lock. destruct (s_lock st) as [h|] eqn:Hl.
  - cbn [fst snd s_seq s_reqs s_lock s_lockq]. split; [reflexivity|]. split.
    + exists RLock. split; [reflexivity | right; reflexivity].
    + split; [intros x []|]. split; [discriminate | apply incl_refl].
  - destruct (begin_attempt_spec r) as (s & Hs & Hh & Ho). destruct (begin_attempt r) as [r1 o].
    cbn [fst snd] in *. subst r1. cbn [fst snd s_seq s_reqs s_lock s_lockq]. split; [reflexivity|]. split.
    + exists s. split; [reflexivity | left; exact Hh].
    + split; [intros x Hx; split; [reflexivity | exact (Ho x Hx)]|].
      split; [intros _; split; reflexivity | apply incl_appl, incl_refl].
Qed.

Lemma want_lock_rget : forall st r id r', rget id (s_reqs (fst (want_lock st r))) = Some r' ->
  (id = q_id r /\ chg r r') \/ (id <> q_id r /\ rget id (s_reqs st) = Some r').
Proof.
  intros st r id r' H. destruct (want_lock_frame st r) as (_ & (s & Hr & Hs) & _).
  rewrite Hr, rget_rset in H. cbn [q_id with_stage] in H. destruct (N.eqb_spec id (q_id r)) as [E|E].
  - left. split; [exact E|]. injection H as <-. apply chg_with_stage. exact Hs.
  - right. split; assumption.
Qed.

Lemma release_lock_frame : forall fuel st,
  s_seq (fst (release_lock fuel st)) = s_seq st /\
  incl (s_lockq (fst (release_lock fuel st))) (s_lockq st) /\
  (forall id r', rget id (s_reqs (fst (release_lock fuel st))) = Some r' ->
     exists r, rget id (s_reqs st) = Some r /\ chg r r') /\
  (forall x, In x (snd (release_lock fuel st)) ->
     exists h, s_lock (fst (release_lock fuel st)) = Some h /\ is_cmd h x).
Proof.
  induction fuel as [|fuel IH]; intros st.
  - cbn [release_lock fst snd]. split; [reflexivity|]. split; [apply incl_refl|]. split.
    + intros id r' H. exists r'. split; [exact H | apply chg_refl].
    + intros x [].
  - cbn [release_lock]. destruct (s_lockq st) as [|id q] eqn:Hq.
    + cbn [fst snd s_seq s_reqs s_lock s_lockq]. split; [reflexivity|]. split; [apply incl_refl|]. split.
      * intros id r' H. exists r'. split; [exact H | apply chg_refl].
      * intros x [].
    + destruct (rget id (s_reqs st)) as [r|] eqn:Hr.
      * match goal with |- context [want_lock ?s r] => set (st1 := s) end.
        destruct (want_lock_frame st1 r) as (W1 & _ & W3 & W4 & _).
        destruct (W4 eq_refl) as [W5 W6]. split; [exact W1|]. split.
        { rewrite W5. subst st1. cbn [s_lockq]. apply incl_tl, incl_refl. }
        split.
        { intros id2 r' H. apply want_lock_rget in H. destruct H as [[E Hc]|[E H]].
          - exists r. split; [|exact Hc]. subst id2. rewrite (rget_id _ _ _ Hr). exact Hr.
          - exists r'. split; [exact H | apply chg_refl]. }
        { intros x Hx. exists (q_id r). exact (W3 x Hx). }
      * match goal with |- context [release_lock fuel ?s] => destruct (IH s) as (R1 & R2 & R3 & R4) end.
        cbn [s_seq s_reqs s_lock s_lockq] in *. split; [exact R1|]. split; [apply incl_tl; exact R2|].
        split; [exact R3 | exact R4].
Qed.

Lemma end_req_frame : forall st r res,
  s_seq (fst (end_req st r res)) = s_seq st /\
  incl (s_lockq (fst (end_req st r res))) (filter (fun x => negb (x =? q_id r)) (s_lockq st)) /\
  (forall id r', rget id (s_reqs (fst (end_req st r res))) = Some r' ->
     exists r0, rget id (rdel (q_id r) (s_reqs st)) = Some r0 /\ chg r0 r') /\
  In (XDone (q_id r) res) (snd (end_req st r res)) /\
  (forall x, In x (snd (end_req st r res)) ->
     x = XDone (q_id r) res \/ exists h, s_lock (fst (end_req st r res)) = Some h /\ is_cmd h x).
Proof.
  intros st r res. unfold end_req. destruct (holds st (q_id r)).
  - unfold unlock. match goal with |- context [release_lock ?f ?s] =>
      destruct (release_lock_frame f s) as (R1 & R2 & R3 & R4); destruct (release_lock f s) as [st2 o] end.
    cbn [fst snd s_seq s_reqs s_lock s_lockq] in *. split; [exact R1|]. split; [exact R2|]. split; [exact R3|].
    split; [left; reflexivity|]. intros x [Hx|Hx]; [left; symmetry; exact Hx | right; exact (R4 x Hx)].
  - cbn [fst snd s_seq s_reqs s_lock s_lockq]. split; [reflexivity|]. split; [apply incl_refl|]. split.
    + intros id r' H. exists r'. split; [exact H | apply chg_refl].
    + split; [left; reflexivity|]. intros x [Hx|[]]. left. symmetry. exact Hx.
Qed.

Lemma unlock_frame : forall st,
  s_seq (fst (unlock st)) = s_seq st /\
  incl (s_lockq (fst (unlock st))) (s_lockq st) /\
  (forall id r', rget id (s_reqs (fst (unlock st))) = Some r' -> exists r, rget id (s_reqs st) = Some r /\ chg r r') /\
  (forall x, In x (snd (unlock st)) -> exists h, s_lock (fst (unlock st)) = Some h /\ is_cmd h x).
Proof. intros st. unfold unlock. apply release_lock_frame. Qed.

Lemma is_cmd_not_done : forall h id o, is_cmd h (XDone id o) -> False.
Proof. intros h id o [H|[k [d [t H]]]]; discriminate. Qed.

(* when a request ends nothing of it remains *)
Lemma end_req_clean : forall st r res, NoDup (map q_id (s_reqs st)) ->
  rget (q_id r) (s_reqs (fst (end_req st r res))) = None /\ ~ In (q_id r) (s_lockq (fst (end_req st r res))).
Proof.
  intros st r res Hnd. destruct (end_req_frame st r res) as (_ & F2 & F3 & _). split.
  - destruct (rget (q_id r) (s_reqs (fst (end_req st r res)))) as [r'|] eqn:H; [|reflexivity].
    destruct (F3 _ _ H) as [r0 [H0 _]]. rewrite rget_rdel_same in H0 by exact Hnd. discriminate.
  - intros Hin. apply F2 in Hin. exact (filter_neq_notin _ _ Hin).
Qed.

Lemma end_req_rget : forall st r res id r', NoDup (map q_id (s_reqs st)) ->
  rget id (s_reqs (fst (end_req st r res))) = Some r' ->
  id <> q_id r /\ exists r0, rget id (s_reqs st) = Some r0 /\ chg r0 r'.
Proof.
  intros st r res id r' Hnd H. destruct (end_req_frame st r res) as (_ & _ & F3 & _).
  destruct (F3 _ _ H) as [r0 [H0 Hc]]. apply rget_rdel_Some in H0; [|exact Hnd]. destruct H0 as [Hne H0].
  split; [exact Hne|]. exists r0. split; assumption.
Qed.

(* how one step may change a request: kind and (destination, tag) never change; the confirmation is
   only ever set by a confirmation for this (destination, tag); the stage RConfirm is only entered from
   RSend by an accepted enqueue *)
Definition evolves (e : sevent) (id : N) (r r' : req) : Prop :=
  q_kind r' = q_kind r /\ dt r' = dt r /\
  (q_confirmed r' = q_confirmed r \/
   (q_confirmed r = None /\ exists ok, q_confirmed r' = Some ok /\ e = SConfirm (q_dst r) (q_tag r) ok)) /\
  (q_stage r' = RConfirm -> q_stage r = RConfirm \/ (q_stage r = RSend /\ e = SReply id EnqOk)).

Lemma evolves_chg : forall e id r x r', evolves e id r x -> chg x r' -> evolves e id r r'.
Proof.
  intros e id r x r' (E1 & E2 & E3 & E4) [C1 C2]. rewrite C1. unfold evolves, dt in *.
  cbn [q_kind q_dst q_tag q_confirmed q_stage with_stage]. split; [exact E1|]. split; [exact E2|].
  split; [exact E3|]. intros Hs. apply E4. destruct C2 as [C2|[C2|C2]].
  - rewrite <- C2. exact Hs.
  - rewrite Hs in C2. discriminate.
  - rewrite Hs in C2. discriminate.
Qed.

Lemma evolves_refl : forall e id r, evolves e id r r.
Proof. intros e id r. split; [reflexivity|]. split; [reflexivity|]. split; [left; reflexivity | intros H; left; exact H]. Qed.

Lemma chg_evolves : forall e id r r', chg r r' -> evolves e id r r'.
Proof. intros e id r r' H. exact (evolves_chg e id r r r' (evolves_refl e id r) H). Qed.

Lemma sstep_frame : forall st e id r', NoDup (map q_id (s_reqs st)) ->
  (forall i k d n, e = SSend i k d n -> rget i (s_reqs st) = None) ->
  rget id (s_reqs (fst (sstep st e))) = Some r' ->
  (rget id (s_reqs st) = None /\ (exists n, e = SSend id (q_kind r') (q_dst r') n) /\ q_confirmed r' = None /\
   q_stage r' <> RConfirm)
  \/ exists r, rget id (s_reqs st) = Some r /\ evolves e id r r'.
Proof.
  intros st e id r' Hnd Hfresh H.
  assert (Hsame : forall r, rget id (s_reqs st) = Some r -> chg r r' ->
            exists r0, rget id (s_reqs st) = Some r0 /\ evolves e id r0 r').
  { intros r Hr Hc. exists r. split; [exact Hr | apply chg_evolves; exact Hc]. }
  destruct e as [i k dst nsetup | i res | dst tag ok | i | i]; cbn [sstep] in H.
  - (* SSend *)
    pose proof (Hfresh i k dst nsetup eq_refl) as Hnone.
    destruct (rfind_tag dst ((s_seq st + 1) mod 256) (s_reqs st)) as [r0|] eqn:Hf.
    + cbn [fst s_reqs] in H. right. exact (Hsame r' H (chg_refl r')).
    + apply want_lock_rget in H. unfold set_reqs in H. cbn [q_id s_seq s_reqs s_lock s_lockq] in H.
      destruct H as [[E Hc]|[E H]].
      * left. subst id. split; [exact Hnone|].
        destruct Hc as [C1 C2]. rewrite C1. cbn [q_kind q_dst q_confirmed q_stage with_stage].
        split; [exists nsetup; reflexivity|]. split; [reflexivity|].
        intros Hs. cbn [q_stage] in C2. rewrite Hs in C2. destruct C2 as [C2|[C2|C2]]; discriminate.
      * right. match type of H with rget id (_ ++ [?x]) = _ => rewrite <- (rset_notin x) in H by exact Hnone;
          rewrite rget_rset_other in H by exact E end.
        exact (Hsame r' H (chg_refl r')).
  - (* SReply *)
    right. destruct (rget i (s_reqs st)) as [r|] eqn:Hg; [|exact (Hsame r' H (chg_refl r'))].
    pose proof (rget_id _ _ _ Hg) as Hid.
    destruct (q_stage r) eqn:Hs; try exact (Hsame r' H (chg_refl r')).
    + (* RSetup *)
      destruct (1 <? nleft); cbn [fst set_reqs s_reqs] in H; rewrite rget_rset in H;
        cbn [q_id with_stage] in H; (destruct (N.eqb_spec id (q_id r)) as [E|E];
        [ injection H as <-; exists r; split; [rewrite E, Hid; exact Hg|]; apply chg_evolves; apply chg_with_stage;
          left; reflexivity
        | exact (Hsame r' H (chg_refl r')) ]).
    + (* RSend *)
      assert (Hend : forall res0, rget id (s_reqs (fst (end_req st r res0))) = Some r' ->
                exists r0, rget id (s_reqs st) = Some r0 /\ evolves (SReply i res) id r0 r').
      { intros res0 H0. apply end_req_rget in H0; [|exact Hnd]. destruct H0 as [_ [r0 [H0 Hc]]].
        exact (Hsame r0 H0 Hc). }
      destruct res.
      * destruct (q_kind r) eqn:Hk; try exact (Hend _ H).
        destruct (q_confirmed r) eqn:Hc; [exact (Hend _ H)|].
        rewrite let_pair_eta in H. destruct (unlock_frame (set_reqs st (rset (with_stage r RConfirm) (s_reqs st))))
          as (_ & _ & U3 & _). destruct (U3 _ _ H) as [x [Hx Hcx]]. cbn [set_reqs s_reqs] in Hx.
        rewrite rget_rset in Hx. cbn [q_id with_stage] in Hx. destruct (N.eqb_spec id (q_id r)) as [E|E].
        { injection Hx as <-. exists r. split; [rewrite E, Hid; exact Hg|].
          apply evolves_chg with (x := with_stage r RConfirm); [|exact Hcx].
          split; [reflexivity|]. split; [reflexivity|]. split; [left; reflexivity|].
          intros _. right. split; [exact Hs|]. rewrite E, Hid. reflexivity. }
        { exact (Hsame x Hx Hcx). }
      * match type of H with context [unlock ?s] => destruct (unlock_frame s) as (_ & _ & U3 & _) end.
        destruct (U3 _ _ H) as [x [Hx Hcx]]. cbn [set_reqs s_reqs] in Hx.
        rewrite rget_rset in Hx. cbn [q_id] in Hx. destruct (N.eqb_spec id (q_id r)) as [E|E].
        { injection Hx as <-. exists r. split; [rewrite E, Hid; exact Hg|].
          eapply evolves_chg; [|exact Hcx].
          split; [reflexivity|]. split; [reflexivity|]. split; [left; reflexivity|].
          cbn [q_stage]. intros Hx; discriminate. }
        { exact (Hsame x Hx Hcx). }
      * exact (Hend _ H).
  - (* SConfirm *)
    right. destruct (rfind_tag dst tag (s_reqs st)) as [r|] eqn:Hf; [|exact (Hsame r' H (chg_refl r'))].
    destruct (q_confirmed r) eqn:Hc; [exact (Hsame r' H (chg_refl r'))|].
    destruct (rfind_tag_spec _ _ _ _ Hf) as (Hin & Hd & Ht).
    assert (Hg : rget (q_id r) (s_reqs st) = Some r) by (apply In_rget; assumption).
    destruct (q_stage r) eqn:Hs;
      try (cbn [fst set_reqs s_reqs] in H; rewrite rget_rset in H; cbn [q_id] in H;
           destruct (N.eqb_spec id (q_id r)) as [E|E];
           [ injection H as <-; exists r; split; [rewrite E; exact Hg|];
             split; [reflexivity|]; split; [reflexivity|]; split;
             [right; split; [exact Hc|]; exists ok; split; [reflexivity | rewrite Hd, Ht; reflexivity]
             | cbn [q_stage]; intros Hx; discriminate]
           | exact (Hsame r' H (chg_refl r')) ]).
    rewrite (end_req_rset st _ r) in H by reflexivity.
    apply end_req_rget in H; [|exact Hnd]. destruct H as [_ [r0 [H0 Hc0]]]. exact (Hsame r0 H0 Hc0).
  - (* STimer *)
    right. destruct (rget i (s_reqs st)) as [r|] eqn:Hg; [|exact (Hsame r' H (chg_refl r'))].
    pose proof (rget_id _ _ _ Hg) as Hid.
    assert (Hend : forall res0, rget id (s_reqs (fst (end_req st r res0))) = Some r' ->
              exists r0, rget id (s_reqs st) = Some r0 /\ evolves (STimer i) id r0 r').
    { intros res0 H0. apply end_req_rget in H0; [|exact Hnd]. destruct H0 as [_ [r0 [H0 Hc]]].
      exact (Hsame r0 H0 Hc). }
    destruct (q_stage r) eqn:Hs; try exact (Hsame r' H (chg_refl r')); try exact (Hend _ H).
    destruct (q_attempt r <? nretries); [|exact (Hend _ H)].
    apply want_lock_rget in H. destruct H as [[E Hc]|[E H]].
    + apply (Hsame r); [rewrite E, Hid; exact Hg | exact Hc].
    + exact (Hsame r' H (chg_refl r')).
  - (* SCancel *)
    right. destruct (rget i (s_reqs st)) as [r|] eqn:Hg; [|exact (Hsame r' H (chg_refl r'))].
    apply end_req_rget in H; [|exact Hnd]. destruct H as [_ [r0 [H0 Hc]]]. exact (Hsame r0 H0 Hc).
Qed.

(* ================================================================================================== *)
(* Part 4: reachable states satisfy the invariant                                                     *)
(* ================================================================================================== *)

Lemma NoDup_app_l : forall (A : Type) (l l' : list A), NoDup (l ++ l') -> NoDup l.
Proof.
  intros A l l'; induction l as [|a l IH]; intros H; [constructor|].
  cbn in H. inversion H as [|x xs Hnotin Hnd]; subst. constructor; [|exact (IH Hnd)].
  intros Hin. apply Hnotin. apply in_or_app. left. exact Hin.
Qed.

Lemma srun_app_fst : forall es es' st, fst (srun st (es ++ es')) = fst (srun (fst (srun st es)) es').
Proof.
  induction es as [|a es IH]; intros es' st; cbn [app srun]; [reflexivity|].
  destruct (sstep st a) as [st1 o]. specialize (IH es' st1).
  destruct (srun st1 (es ++ es')) as [s2 os2]. destruct (srun st1 es) as [s3 os3]. cbn [fst] in *. exact IH.
Qed.

Lemma sfinal_snoc : forall es e, sfinal (es ++ [e]) = fst (sstep (sfinal es) e).
Proof.
  intros es e. unfold sfinal. rewrite srun_app_fst. cbn [srun].
  destruct (sstep (fst (srun s_init es)) e) as [st1 o]. reflexivity.
Qed.

Lemma send_ids_app : forall es es', send_ids (es ++ es') = send_ids es ++ send_ids es'.
Proof. intros es es'. unfold send_ids. apply flat_map_app. Qed.

Lemma sends_unique_prefix : forall es es', sends_unique (es ++ es') -> sends_unique es.
Proof. intros es es' H. unfold sends_unique in *. rewrite send_ids_app in H. exact (NoDup_app_l _ _ _ H). Qed.

Lemma inv_init : Inv s_init.
Proof.
  unfold Inv, s_init, Core. cbn [s_seq s_reqs s_lock s_lockq map rget]. split4.
  - split5; [constructor | constructor | constructor | |].
    + intros i [].
    + intros i r H. discriminate.
  - discriminate.
  - intros id r H. discriminate.
  - reflexivity.
Qed.

(* the invariant, and: the ids of the requests in progress are ids of past SSend events *)
Lemma sfinal_inv : forall es, sends_unique es ->
  Inv (sfinal es) /\ forall id, rget id (s_reqs (sfinal es)) <> None -> In id (send_ids es).
Proof.
  induction es as [|e es IH] using rev_ind; intros Hu.
  - split; [exact inv_init|]. intros id H. exfalso. apply H. reflexivity.
  - destruct (IH (sends_unique_prefix _ _ Hu)) as [HI Hids]. rewrite sfinal_snoc.
    assert (Hfresh : forall i k d n, e = SSend i k d n -> rget i (s_reqs (sfinal es)) = None).
    { intros i k d n ->. destruct (rget i (s_reqs (sfinal es))) as [r0|] eqn:E; [|reflexivity]. exfalso.
      unfold sends_unique in Hu. rewrite send_ids_app in Hu. cbn in Hu. apply NoDup_remove_2 in Hu.
      rewrite app_nil_r in Hu. apply Hu, Hids. rewrite E. discriminate. }
    split; [apply sstep_inv; assumption|].
    intros id H. rewrite send_ids_app. apply in_or_app.
    destruct (rget id (s_reqs (fst (sstep (sfinal es) e)))) as [r'|] eqn:E; [|exfalso; apply H; reflexivity].
    destruct (sstep_frame _ _ _ _ (proj1 (proj1 HI)) Hfresh E) as [(_ & (n & ->) & _)|[r0 [H0 _]]].
    + right. cbn. left. reflexivity.
    + left. apply Hids. rewrite H0. discriminate.
Qed.

Lemma reachable_inv : forall st, reachable st -> Inv st.
Proof. intros st [es [Hu ->]]. exact (proj1 (sfinal_inv es Hu)). Qed.

Lemma reachable_step : forall es e, sends_unique (es ++ [e]) ->
  Inv (sfinal es) /\ forall i k d n, e = SSend i k d n -> rget i (s_reqs (sfinal es)) = None.
Proof.
  intros es e Hu. destruct (sfinal_inv es (sends_unique_prefix _ _ Hu)) as [HI Hids]. split; [exact HI|].
  intros i k d n ->. destruct (rget i (s_reqs (sfinal es))) as [r0|] eqn:E; [|reflexivity]. exfalso.
  unfold sends_unique in Hu. rewrite send_ids_app in Hu. cbn in Hu. apply NoDup_remove_2 in Hu.
  rewrite app_nil_r in Hu. apply Hu, Hids. rewrite E. discriminate.
Qed.

(* ================================================================================================== *)
(* Part 5: the C12 theorems                                                                           *)
(* ================================================================================================== *)

Lemma done_in_end_req : forall st r res id o, In (XDone id o) (snd (end_req st r res)) -> id = q_id r /\ o = res.
Proof.
  intros st r res id o H. destruct (end_req_frame st r res) as (_ & _ & _ & _ & F5).
  destruct (F5 _ H) as [E|[h [_ Hc]]]; [injection E as -> ->; split; reflexivity|].
  exfalso. exact (is_cmd_not_done _ _ _ Hc).
Qed.

Lemma done_in_unlock : forall st id o, In (XDone id o) (snd (unlock st)) -> False.
Proof.
  intros st id o H. destruct (unlock_frame st) as (_ & _ & _ & U4). destruct (U4 _ H) as [h [_ Hc]].
  exact (is_cmd_not_done _ _ _ Hc).
Qed.

Lemma done_in_want_lock : forall st r id o, In (XDone id o) (snd (want_lock st r)) -> False.
Proof.
  intros st r id o H. destruct (want_lock_frame st r) as (_ & _ & W3 & _). destruct (W3 _ H) as [_ Hc].
  exact (is_cmd_not_done _ _ _ Hc).
Qed.

Lemma ok_needs_own_confirmation_st : forall st e id, NoDup (map q_id (s_reqs st)) ->
  In (XDone id ResOk) (snd (sstep st e)) ->
  forall r, rget id (s_reqs st) = Some r -> q_kind r = Unicast ->
  (e = SReply id EnqOk /\ q_confirmed r = Some true /\ q_stage r = RSend)
  \/ (e = SConfirm (q_dst r) (q_tag r) true /\ q_stage r = RConfirm).
Proof.
  intros st e id Hnd H r Hg Hk.
  destruct e as [i k dst nsetup | i res | dst tag ok | i | i]; cbn [sstep] in H.
  - exfalso. destruct (rfind_tag dst ((s_seq st + 1) mod 256) (s_reqs st)).
    + destruct H as [H|[]]. discriminate.
    + exact (done_in_want_lock _ _ _ _ H).
  - destruct (rget i (s_reqs st)) as [r1|] eqn:Hg1; [|destruct H].
    pose proof (rget_id _ _ _ Hg1) as Hid1.
    destruct (q_stage r1) eqn:Hs; try (destruct H; fail).
    + exfalso. destruct (1 <? nleft); destruct H as [H|[]]; discriminate.
    + destruct res.
      * destruct (q_kind r1) eqn:Hk1.
        { destruct (q_confirmed r1) as [b|] eqn:Hc.
          - apply done_in_end_req in H. destruct H as [E1 E2]. rewrite Hid1 in E1. subst i.
            rewrite Hg in Hg1. injection Hg1 as <-. left. split; [reflexivity|]. split; [|exact Hs].
            destruct b; [exact Hc | discriminate].
          - exfalso. rewrite let_pair_eta in H. exact (done_in_unlock _ _ _ H). }
        { exfalso. apply done_in_end_req in H. destruct H as [E1 _]. rewrite Hid1 in E1. subst i.
          rewrite Hg in Hg1. injection Hg1 as <-. rewrite Hk in Hk1. discriminate. }
        { exfalso. apply done_in_end_req in H. destruct H as [E1 _]. rewrite Hid1 in E1. subst i.
          rewrite Hg in Hg1. injection Hg1 as <-. rewrite Hk in Hk1. discriminate. }
      * exfalso. exact (done_in_unlock _ _ _ H).
      * exfalso. apply done_in_end_req in H. destruct H as [_ E2]. discriminate.
  - destruct (rfind_tag dst tag (s_reqs st)) as [r1|] eqn:Hf; [|destruct H as [H|[]]; discriminate].
    destruct (q_confirmed r1) eqn:Hc; [destruct H as [H|[]]; discriminate|].
    destruct (rfind_tag_spec _ _ _ _ Hf) as (Hin & Hd & Ht).
    destruct (q_stage r1) eqn:Hs; try (destruct H; fail).
    apply done_in_end_req in H. cbn [q_id] in H. destruct H as [E1 E2]. right.
    pose proof (In_rget _ _ Hnd Hin) as Hg1. rewrite <- E1, Hg in Hg1. injection Hg1 as <-.
    split; [|exact Hs]. rewrite Hd, Ht. destruct ok; [reflexivity | discriminate].
  - exfalso. destruct (rget i (s_reqs st)) as [r1|] eqn:Hg1; [|destruct H].
    destruct (q_stage r1) eqn:Hs; try (destruct H; fail).
    + destruct (q_attempt r1 <? nretries).
      * exact (done_in_want_lock _ _ _ _ H).
      * apply done_in_end_req in H. destruct H as [_ E2]. discriminate.
    + apply done_in_end_req in H. destruct H as [_ E2]. discriminate.
  - exfalso. destruct (rget i (s_reqs st)) as [r1|] eqn:Hg1; [|destruct H].
    apply done_in_end_req in H. destruct H as [_ E2]. discriminate.
Qed.

Theorem ok_needs_own_confirmation : forall es e id, sends_unique es ->
  In (XDone id ResOk) (snd (sstep (sfinal es) e)) ->
  forall r, rget id (s_reqs (sfinal es)) = Some r -> q_kind r = Unicast ->
  (e = SReply id EnqOk /\ q_confirmed r = Some true /\ q_stage r = RSend)
  \/ (e = SConfirm (q_dst r) (q_tag r) true /\ q_stage r = RConfirm).
Proof.
  intros es e id Hu. apply ok_needs_own_confirmation_st.
  exact (proj1 (proj1 (proj1 (sfinal_inv es Hu)))).
Qed.

Theorem confirm_stage_means_accepted : forall st id, reachable st ->
  forall r, rget id (s_reqs st) = Some r -> q_stage r = RConfirm -> q_kind r = Unicast /\ q_confirmed r = None.
Proof.
  intros st id Hr r Hg Hs. destruct (reachable_inv st Hr) as ((_ & _ & _ & _ & C5) & _). exact (C5 id r Hg Hs).
Qed.

Theorem refused_raises : forall st id r, rget id (s_reqs st) = Some r -> q_stage r = RSend ->
  In (XDone id ResDeliveryError) (snd (sstep st (SReply id EnqRefused))).
Proof.
  intros st id r Hg Hs. cbn [sstep]. rewrite Hg, Hs. rewrite <- (rget_id _ _ _ Hg).
  exact (proj1 (proj2 (proj2 (proj2 (end_req_frame st r ResDeliveryError))))).
Qed.

Theorem confirmed_failure_raises : forall st r, rfind_tag (q_dst r) (q_tag r) (s_reqs st) = Some r ->
  q_stage r = RConfirm -> q_confirmed r = None ->
  In (XDone (q_id r) ResDeliveryError) (snd (sstep st (SConfirm (q_dst r) (q_tag r) false))).
Proof.
  intros st r Hf Hs Hc. cbn [sstep]. rewrite Hf, Hc, Hs.
  match goal with |- In _ (snd (end_req ?s ?x ?res)) =>
    exact (proj1 (proj2 (proj2 (proj2 (end_req_frame s x res))))) end.
Qed.

Theorem no_confirmation_times_out : forall st id r, rget id (s_reqs st) = Some r -> q_stage r = RConfirm ->
  In (XDone id ResTimeout) (snd (sstep st (STimer id))).
Proof.
  intros st id r Hg Hs. cbn [sstep]. rewrite Hg, Hs. rewrite <- (rget_id _ _ _ Hg).
  exact (proj1 (proj2 (proj2 (proj2 (end_req_frame st r ResTimeout))))).
Qed.

Theorem busy_retries : forall st id r, rget id (s_reqs st) = Some r -> q_stage r = RBackoff ->
  (q_attempt r <? nretries = true -> ~ In (XDone id ResDeliveryError) (snd (sstep st (STimer id)))
                                     /\ exists r', rget id (s_reqs (fst (sstep st (STimer id)))) = Some r'
                                                   /\ q_attempt r' = q_attempt r) /\
  (q_attempt r <? nretries = false -> In (XDone id ResDeliveryError) (snd (sstep st (STimer id)))).
Proof.
  intros st id r Hg Hs. cbn [sstep]. rewrite Hg, Hs. pose proof (rget_id _ _ _ Hg) as Hid. split; intros Hlt; rewrite Hlt.
  - split; [intros H; exact (done_in_want_lock _ _ _ _ H)|].
    destruct (want_lock_frame st r) as (_ & (s & Hr & _) & _). exists (with_stage r s). rewrite Hr, <- Hid.
    split; [exact (rget_rset_same (with_stage r s) _) | reflexivity].
  - rewrite <- Hid. exact (proj1 (proj2 (proj2 (proj2 (end_req_frame st r ResDeliveryError))))).
Qed.

Theorem busy_statuses :
  maps_to_unified "MAX_MESSAGE_LIMIT_REACHED" "ZIGBEE_MAX_MESSAGE_LIMIT_REACHED" /\
  maps_to_unified "NETWORK_BUSY" "ZIGBEE_MAX_MESSAGE_LIMIT_REACHED" /\
  maps_to_unified "NO_BUFFERS" "ALLOCATION_FAILED".
Proof. vm_compute. repeat split. Qed.

Theorem foreign_confirm : forall st dst tag ok,
  rfind_tag dst tag (s_reqs st) = None -> sstep st (SConfirm dst tag ok) = (st, [XUnexpected]).
Proof. intros st dst tag ok H. cbn [sstep]. rewrite H. reflexivity. Qed.

Theorem confirm_touches_only_its_request : forall st dst tag ok id o,
  In (XDone id o) (snd (sstep st (SConfirm dst tag ok))) ->
  exists r, rfind_tag dst tag (s_reqs st) = Some r /\ q_id r = id.
Proof.
  intros st dst tag ok id o H. cbn [sstep] in H.
  destruct (rfind_tag dst tag (s_reqs st)) as [r|] eqn:Hf; [|destruct H as [H|[]]; discriminate].
  exists r. split; [reflexivity|].
  destruct (q_confirmed r) eqn:Hc; [destruct H as [H|[]]; discriminate|].
  destruct (q_stage r) eqn:Hs; try (destruct H; fail).
  apply done_in_end_req in H. destruct H as [E _]. symmetry. exact E.
Qed.

Theorem no_residue : forall st e id o, In (XDone id o) (snd (sstep st e)) -> o <> ResDuplicateTag ->
  NoDup (map q_id (s_reqs st)) ->
  rget id (s_reqs (fst (sstep st e))) = None /\ ~ In id (s_lockq (fst (sstep st e))).
Proof.
  intros st e id o H Ho Hnd.
  destruct e as [i k dst nsetup | i res | dst tag ok | i | i]; cbn [sstep] in H |- *.
  - exfalso. destruct (rfind_tag dst ((s_seq st + 1) mod 256) (s_reqs st)).
    + destruct H as [H|[]]. injection H as _ <-. apply Ho. reflexivity.
    + exact (done_in_want_lock _ _ _ _ H).
  - destruct (rget i (s_reqs st)) as [r1|] eqn:Hg1; [|destruct H].
    destruct (q_stage r1) eqn:Hs; try (destruct H; fail).
    + exfalso. destruct (1 <? nleft); destruct H as [H|[]]; discriminate.
    + destruct res.
      * destruct (q_kind r1) eqn:Hk1;
          try (apply done_in_end_req in H; destruct H as [-> _]; apply end_req_clean; exact Hnd).
        destruct (q_confirmed r1) as [b|] eqn:Hc.
        { apply done_in_end_req in H. destruct H as [-> _]. apply end_req_clean. exact Hnd. }
        { exfalso. rewrite let_pair_eta in H. exact (done_in_unlock _ _ _ H). }
      * exfalso. exact (done_in_unlock _ _ _ H).
      * apply done_in_end_req in H. destruct H as [-> _]. apply end_req_clean. exact Hnd.
  - destruct (rfind_tag dst tag (s_reqs st)) as [r1|] eqn:Hf; [|destruct H as [H|[]]; discriminate].
    destruct (q_confirmed r1) eqn:Hc; [destruct H as [H|[]]; discriminate|].
    destruct (q_stage r1) eqn:Hs; try (destruct H; fail).
    rewrite (end_req_rset st _ r1) in H |- * by reflexivity.
    apply done_in_end_req in H. destruct H as [-> _]. apply end_req_clean. exact Hnd.
  - destruct (rget i (s_reqs st)) as [r1|] eqn:Hg1; [|destruct H].
    destruct (q_stage r1) eqn:Hs; try (destruct H; fail).
    + destruct (q_attempt r1 <? nretries).
      * exfalso. exact (done_in_want_lock _ _ _ _ H).
      * apply done_in_end_req in H. destruct H as [-> _]. apply end_req_clean. exact Hnd.
    + apply done_in_end_req in H. destruct H as [-> _]. apply end_req_clean. exact Hnd.
  - destruct (rget i (s_reqs st)) as [r1|] eqn:Hg1; [|destruct H].
    apply done_in_end_req in H. destruct H as [-> _]. apply end_req_clean. exact Hnd.
Qed.

Theorem no_residue_reachable : forall es e id o, sends_unique es ->
  In (XDone id o) (snd (sstep (sfinal es) e)) -> o <> ResDuplicateTag ->
  rget id (s_reqs (fst (sstep (sfinal es) e))) = None /\ ~ In id (s_lockq (fst (sstep (sfinal es) e))).
Proof.
  intros es e id o Hu H Ho. apply (no_residue _ _ _ _ H Ho). exact (proj1 (proj1 (proj1 (sfinal_inv es Hu)))).
Qed.

Theorem all_done_all_clean : forall es, sends_unique es ->
  s_reqs (sfinal es) = [] -> s_lock (sfinal es) = None /\ s_lockq (sfinal es) = [].
Proof.
  intros es Hu Hnil. destruct (sfinal_inv es Hu) as [((_ & _ & _ & C4 & _) & I2 & _ & _) _].
  rewrite Hnil in *. split.
  - destruct (s_lock (sfinal es)) as [h|]; [|reflexivity]. destruct (I2 h eq_refl) as [r [Hr _]]. discriminate.
  - destruct (s_lockq (sfinal es)) as [|a q]; [reflexivity|]. destruct (C4 a (or_introl eq_refl)) as [r [Hr _]].
    discriminate.
Qed.

Lemma is_cmd_inj : forall h id x, is_cmd h x -> is_cmd id x -> h = id.
Proof.
  intros h id x [H1|[k1 [d1 [t1 H1]]]] [H2|[k2 [d2 [t2 H2]]]]; subst x; try discriminate.
  - injection H2 as ->. reflexivity.
  - injection H2 as -> _ _ _. reflexivity.
Qed.

Lemma cmd_in_end_req : forall st r res id x, In x (snd (end_req st r res)) -> is_cmd id x ->
  s_lock (fst (end_req st r res)) = Some id.
Proof.
  intros st r res id x H Hc. destruct (end_req_frame st r res) as (_ & _ & _ & _ & F5).
  destruct (F5 _ H) as [E|[h [Hl Hc']]].
  - subst x. exfalso. exact (is_cmd_not_done _ _ _ Hc).
  - rewrite Hl, (is_cmd_inj _ _ _ Hc' Hc). reflexivity.
Qed.

Lemma cmd_in_unlock : forall st id x, In x (snd (unlock st)) -> is_cmd id x -> s_lock (fst (unlock st)) = Some id.
Proof.
  intros st id x H Hc. destruct (unlock_frame st) as (_ & _ & _ & U4). destruct (U4 _ H) as [h [Hl Hc']].
  rewrite Hl, (is_cmd_inj _ _ _ Hc' Hc). reflexivity.
Qed.

Lemma cmd_in_want_lock : forall st r id x, In x (snd (want_lock st r)) -> is_cmd id x ->
  s_lock (fst (want_lock st r)) = Some id.
Proof.
  intros st r id x H Hc. destruct (want_lock_frame st r) as (_ & _ & W3 & _). destruct (W3 _ H) as [Hl Hc'].
  rewrite Hl, (is_cmd_inj _ _ _ Hc' Hc). reflexivity.
Qed.

(* commands are only ever issued by the request that holds the lock after the step *)
Lemma commands_by_holder_st : forall st e id x, Inv st -> In x (snd (sstep st e)) -> is_cmd id x ->
  s_lock (fst (sstep st e)) = Some id.
Proof.
  intros st e id x HI H Hc.
  destruct e as [i k dst nsetup | i res | dst tag ok | i | i]; cbn [sstep] in H |- *.
  - destruct (rfind_tag dst ((s_seq st + 1) mod 256) (s_reqs st)).
    + destruct H as [H|[]]. subst x. exfalso. exact (is_cmd_not_done _ _ _ Hc).
    + exact (cmd_in_want_lock _ _ _ _ H Hc).
  - destruct (rget i (s_reqs st)) as [r1|] eqn:Hg1; [|destruct H].
    destruct (q_stage r1) eqn:Hs; try (destruct H; fail).
    + assert (Hl : s_lock st = Some i).
      { destruct HI as (_ & _ & I3 & _). apply (I3 i r1 Hg1). rewrite Hs. reflexivity. }
      destruct (1 <? nleft); destruct H as [H|[]]; subst x; cbn [fst set_reqs s_lock]; rewrite Hl; f_equal;
        [apply (is_cmd_inj i id (XSetup i)) | apply (is_cmd_inj i id (XSendCmd i (q_kind r1) (q_dst r1) (q_tag r1)))];
        try exact Hc; [left; reflexivity | right; exists (q_kind r1), (q_dst r1), (q_tag r1); reflexivity].
    + destruct res.
      * destruct (q_kind r1) eqn:Hk1; try exact (cmd_in_end_req _ _ _ _ _ H Hc).
        destruct (q_confirmed r1) as [b|] eqn:Hcf; [exact (cmd_in_end_req _ _ _ _ _ H Hc)|].
        rewrite let_pair_eta in H |- *. exact (cmd_in_unlock _ _ _ H Hc).
      * exact (cmd_in_unlock _ _ _ H Hc).
      * exact (cmd_in_end_req _ _ _ _ _ H Hc).
  - destruct (rfind_tag dst tag (s_reqs st)) as [r1|] eqn:Hf;
      [|destruct H as [H|[]]; subst x; exfalso; destruct Hc as [Hc|[k [d [t Hc]]]]; discriminate].
    destruct (q_confirmed r1) eqn:Hcf;
      [destruct H as [H|[]]; subst x; exfalso; destruct Hc as [Hc|[k [d [t Hc]]]]; discriminate|].
    destruct (q_stage r1) eqn:Hs; try (destruct H; fail).
    exact (cmd_in_end_req _ _ _ _ _ H Hc).
  - destruct (rget i (s_reqs st)) as [r1|] eqn:Hg1; [|destruct H].
    destruct (q_stage r1) eqn:Hs; try (destruct H; fail).
    + destruct (q_attempt r1 <? nretries).
      * exact (cmd_in_want_lock _ _ _ _ H Hc).
      * exact (cmd_in_end_req _ _ _ _ _ H Hc).
    + exact (cmd_in_end_req _ _ _ _ _ H Hc).
  - destruct (rget i (s_reqs st)) as [r1|] eqn:Hg1; [|destruct H].
    exact (cmd_in_end_req _ _ _ _ _ H Hc).
Qed.

Theorem commands_by_holder : forall es e id, sends_unique es ->
  (In (XSetup id) (snd (sstep (sfinal es) e)) \/ exists k d t, In (XSendCmd id k d t) (snd (sstep (sfinal es) e))) ->
  s_lock (fst (sstep (sfinal es) e)) = Some id.
Proof.
  intros es e id Hu H. pose proof (proj1 (sfinal_inv es Hu)) as HI. destruct H as [H|[k [d [t H]]]].
  - apply (commands_by_holder_st _ _ _ _ HI H). left. reflexivity.
  - apply (commands_by_holder_st _ _ _ _ HI H). right. exists k, d, t. reflexivity.
Qed.

Theorem setup_atomic : forall es e id, sends_unique es ->
  (In (XSetup id) (snd (sstep (sfinal es) e)) \/ exists k d t, In (XSendCmd id k d t) (snd (sstep (sfinal es) e))) ->
  s_lock (fst (sstep (sfinal es) e)) = Some id
  \/ (exists o, In (XDone id o) (snd (sstep (sfinal es) e))).
Proof. intros es e id Hu H. left. exact (commands_by_holder es e id Hu H). Qed.

Lemma holding_cases : forall s, holding s = true <-> ((exists n, s = RSetup n) \/ s = RSend).
Proof.
  intros s. split.
  - destruct s; intros H; try discriminate; [left; exists nleft; reflexivity | right; reflexivity].
  - intros [[n ->]| ->]; reflexivity.
Qed.

Theorem lock_holder_in_progress : forall es h, sends_unique es -> s_lock (sfinal es) = Some h ->
  exists r, rget h (s_reqs (sfinal es)) = Some r /\ ((exists n, q_stage r = RSetup n) \/ q_stage r = RSend).
Proof.
  intros es h Hu Hl. destruct (sfinal_inv es Hu) as [(_ & I2 & _ & _) _]. destruct (I2 h Hl) as [r [Hr Hh]].
  exists r. split; [exact Hr | apply holding_cases; exact Hh].
Qed.

(* the holder is the only request in a holding stage; nobody waits for a free lock; waiters are distinct
   requests in stage RLock; pending-table keys are unique *)
Theorem holder_unique : forall es id r, sends_unique es -> rget id (s_reqs (sfinal es)) = Some r ->
  ((exists n, q_stage r = RSetup n) \/ q_stage r = RSend) -> s_lock (sfinal es) = Some id.
Proof.
  intros es id r Hu Hg Hs. destruct (sfinal_inv es Hu) as [(_ & _ & I3 & _) _]. apply (I3 id r Hg).
  apply holding_cases. exact Hs.
Qed.

Theorem free_lock_no_waiters : forall es, sends_unique es -> s_lock (sfinal es) = None -> s_lockq (sfinal es) = [].
Proof. intros es Hu. destruct (sfinal_inv es Hu) as [(_ & _ & _ & I4) _]. exact I4. Qed.

Theorem waiters_in_progress : forall es, sends_unique es ->
  NoDup (s_lockq (sfinal es)) /\
  forall id, In id (s_lockq (sfinal es)) -> exists r, rget id (s_reqs (sfinal es)) = Some r /\ q_stage r = RLock.
Proof. intros es Hu. destruct (sfinal_inv es Hu) as [((_ & _ & C3 & C4 & _) & _) _]. split; assumption. Qed.

Theorem pending_keys_unique : forall es r, sends_unique es -> In r (s_reqs (sfinal es)) ->
  rget (q_id r) (s_reqs (sfinal es)) = Some r /\ rfind_tag (q_dst r) (q_tag r) (s_reqs (sfinal es)) = Some r.
Proof.
  intros es r Hu Hin. destruct (sfinal_inv es Hu) as [((C1 & C2 & _) & _) _].
  split; [apply In_rget | apply rfind_tag_unique]; assumption.
Qed.

(* how a request in progress came to be what it is after one more event *)
Theorem request_evolution : forall es e id r', sends_unique (es ++ [e]) ->
  rget id (s_reqs (fst (sstep (sfinal es) e))) = Some r' ->
  (rget id (s_reqs (sfinal es)) = None /\ (exists n, e = SSend id (q_kind r') (q_dst r') n) /\ q_confirmed r' = None /\
   q_stage r' <> RConfirm)
  \/ exists r, rget id (s_reqs (sfinal es)) = Some r /\
       q_kind r' = q_kind r /\ (q_dst r', q_tag r') = (q_dst r, q_tag r) /\
       (q_confirmed r' = q_confirmed r \/
        (q_confirmed r = None /\ exists ok, q_confirmed r' = Some ok /\ e = SConfirm (q_dst r) (q_tag r) ok)) /\
       (q_stage r' = RConfirm -> q_stage r = RConfirm \/ (q_stage r = RSend /\ e = SReply id EnqOk)).
Proof.
  intros es e id r' Hu H. destruct (reachable_step es e Hu) as [HI Hfresh].
  exact (sstep_frame _ _ _ _ (proj1 (proj1 HI)) Hfresh H).
Qed.

(* the history of a request in progress: it was created by an SSend event with its id, kind and
   destination; a remembered confirmation was a confirmation event for its (destination, tag) after that
   SSend; if it waits for the confirmation its enqueue was accepted after that SSend *)
Definition hist (es : list sevent) (id : N) (r : req) : Prop :=
  exists es1 n es2, es = es1 ++ SSend id (q_kind r) (q_dst r) n :: es2 /\
    (forall ok, q_confirmed r = Some ok -> In (SConfirm (q_dst r) (q_tag r) ok) es2) /\
    (q_stage r = RConfirm -> In (SReply id EnqOk) es2).

Lemma hist_inv : forall es, sends_unique es ->
  forall id r, rget id (s_reqs (sfinal es)) = Some r -> hist es id r.
Proof.
  induction es as [|e es IH] using rev_ind; intros Hu id r' H.
  - discriminate.
  - rewrite sfinal_snoc in H. destruct (reachable_step es e Hu) as [HI Hfresh].
    destruct (sstep_frame _ _ _ _ (proj1 (proj1 HI)) Hfresh H)
      as [(_ & (n & ->) & Hc & Hs)|[r [Hr (E1 & E2 & E3 & E4)]]].
    + exists es, n, []. split; [reflexivity|]. split.
      * intros ok Hok. rewrite Hc in Hok. discriminate.
      * intros Hs'. contradiction.
    + destruct (IH (sends_unique_prefix _ _ Hu) id r Hr) as (es1 & n & es2 & Hes & Hcf & Hst).
      unfold dt in E2. injection E2 as Ed Et.
      exists es1, n, (es2 ++ [e]). rewrite E1, Ed, Et. split; [|split].
      * rewrite Hes, <- app_assoc. reflexivity.
      * intros ok Hok. apply in_or_app. destruct E3 as [E3|[E3 [ok' [E3' ->]]]].
        { left. apply Hcf. rewrite <- E3. exact Hok. }
        { right. left. rewrite E3' in Hok. injection Hok as ->. reflexivity. }
      * intros Hs'. apply in_or_app. destruct (E4 Hs') as [E|[_ ->]].
        { left. exact (Hst E). }
        { right. left. reflexivity. }
Qed.

Lemma In_rget_ex : forall l r, In r l -> exists r0, rget (q_id r) l = Some r0.
Proof.
  intros l r Hin. destruct (rget (q_id r) l) as [r0|] eqn:E; [exists r0; reflexivity|].
  exfalso. apply rget_None_iff in E. apply E. apply in_map. exact Hin.
Qed.

(* only requests in progress complete *)
Theorem done_only_in_progress : forall st e id o, In (XDone id o) (snd (sstep st e)) -> o <> ResDuplicateTag ->
  exists r, rget id (s_reqs st) = Some r.
Proof.
  intros st e id o H Ho.
  destruct e as [i k dst nsetup | i res | dst tag ok | i | i]; cbn [sstep] in H.
  - exfalso. destruct (rfind_tag dst ((s_seq st + 1) mod 256) (s_reqs st)).
    + destruct H as [H|[]]. injection H as _ <-. apply Ho. reflexivity.
    + exact (done_in_want_lock _ _ _ _ H).
  - destruct (rget i (s_reqs st)) as [r1|] eqn:Hg1; [|destruct H].
    pose proof (rget_id _ _ _ Hg1) as Hid.
    assert (Hend : forall res0, In (XDone id o) (snd (end_req st r1 res0)) -> exists r, rget id (s_reqs st) = Some r).
    { intros res0 H0. apply done_in_end_req in H0. destruct H0 as [-> _]. exists r1. rewrite Hid. exact Hg1. }
    destruct (q_stage r1) eqn:Hs; try (destruct H; fail).
    + exfalso. destruct (1 <? nleft); destruct H as [H|[]]; discriminate.
    + destruct res.
      * destruct (q_kind r1) eqn:Hk1; try exact (Hend _ H).
        destruct (q_confirmed r1) as [b|] eqn:Hc; [exact (Hend _ H)|].
        exfalso. rewrite let_pair_eta in H. exact (done_in_unlock _ _ _ H).
      * exfalso. exact (done_in_unlock _ _ _ H).
      * exact (Hend _ H).
  - destruct (rfind_tag dst tag (s_reqs st)) as [r1|] eqn:Hf; [|destruct H as [H|[]]; discriminate].
    destruct (q_confirmed r1) eqn:Hc; [destruct H as [H|[]]; discriminate|].
    destruct (q_stage r1) eqn:Hs; try (destruct H; fail).
    apply done_in_end_req in H. cbn [q_id] in H. destruct H as [-> _].
    apply In_rget_ex. exact (proj1 (rfind_tag_spec _ _ _ _ Hf)).
  - destruct (rget i (s_reqs st)) as [r1|] eqn:Hg1; [|destruct H].
    pose proof (rget_id _ _ _ Hg1) as Hid.
    assert (Hend : forall res0, In (XDone id o) (snd (end_req st r1 res0)) -> exists r, rget id (s_reqs st) = Some r).
    { intros res0 H0. apply done_in_end_req in H0. destruct H0 as [-> _]. exists r1. rewrite Hid. exact Hg1. }
    destruct (q_stage r1) eqn:Hs; try (destruct H; fail); try exact (Hend _ H).
    destruct (q_attempt r1 <? nretries); [|exact (Hend _ H)].
    exfalso. exact (done_in_want_lock _ _ _ _ H).
  - destruct (rget i (s_reqs st)) as [r1|] eqn:Hg1; [|destruct H].
    apply done_in_end_req in H. destruct H as [-> _]. exists r1. rewrite (rget_id _ _ _ Hg1). exact Hg1.
Qed.

(* the informal sentence of C12 over the whole history: when a unicast is reported delivered, then since
   its send_packet call the NCP accepted its enqueue and a confirmation for its own (destination, tag)
   reported success *)
Theorem ok_has_history : forall es e id, sends_unique (es ++ [e]) ->
  In (XDone id ResOk) (snd (sstep (sfinal es) e)) ->
  exists r, rget id (s_reqs (sfinal es)) = Some r /\
    (q_kind r = Unicast ->
     exists es1 n es2, es ++ [e] = es1 ++ SSend id Unicast (q_dst r) n :: es2 /\
       In (SReply id EnqOk) es2 /\ In (SConfirm (q_dst r) (q_tag r) true) es2).
Proof.
  intros es e id Hu H. pose proof (sends_unique_prefix _ _ Hu) as Hu'.
  destruct (done_only_in_progress _ _ _ _ H) as [r Hr]; [discriminate|].
  exists r. split; [exact Hr|]. intros Hk.
  destruct (hist_inv es Hu' id r Hr) as (es1 & n & es2 & Hes & Hcf & Hst). rewrite Hk in Hes.
  exists es1, n, (es2 ++ [e]). split; [rewrite Hes, <- app_assoc; reflexivity|].
  destruct (ok_needs_own_confirmation es e id Hu' H r Hr Hk) as [(-> & Hc & _)|(-> & Hs)].
  - split; apply in_or_app; [right; left; reflexivity | left; exact (Hcf true Hc)].
  - split; apply in_or_app; [left; exact (Hst Hs) | right; left; reflexivity].
Qed.

(* ---- busy: back off, then retry ------------------------------------------------------------------ *)
Lemma release_lock_other : forall fuel st id, ~ In id (s_lockq st) ->
  rget id (s_reqs (fst (release_lock fuel st))) = rget id (s_reqs st).
Proof.
  induction fuel as [|fuel IH]; intros st id Hn; cbn [release_lock]; [reflexivity|].
  destruct (s_lockq st) as [|a q] eqn:Hq; [reflexivity|].
  destruct (rget a (s_reqs st)) as [r|] eqn:Hr.
  - match goal with |- context [want_lock ?s r] => destruct (want_lock_frame s r) as (_ & (s0 & Hs0 & _) & _) end.
    rewrite Hs0. cbn [s_reqs]. apply rget_rset_other. cbn [q_id with_stage]. intros E. apply Hn. left.
    rewrite E. symmetry. exact (rget_id _ _ _ Hr).
  - rewrite IH; [reflexivity|]. cbn [s_lockq]. intros H. apply Hn. right. exact H.
Qed.

(* a busy reply ends nothing: the request sleeps (RBackoff) with one more attempt on its count, and a
   confirmation that already arrived stays remembered *)
Theorem busy_backs_off : forall es id r, sends_unique es ->
  rget id (s_reqs (sfinal es)) = Some r -> q_stage r = RSend ->
  (forall id' o, ~ In (XDone id' o) (snd (sstep (sfinal es) (SReply id EnqBusy)))) /\
  exists r', rget id (s_reqs (fst (sstep (sfinal es) (SReply id EnqBusy)))) = Some r' /\
             q_stage r' = RBackoff /\ q_attempt r' = q_attempt r + 1 /\ q_confirmed r' = q_confirmed r.
Proof.
  intros es id r Hu Hg Hs. pose proof (proj1 (sfinal_inv es Hu)) as HI. cbn [sstep]. rewrite Hg, Hs.
  split; [intros id' o H; exact (done_in_unlock _ _ _ H)|].
  unfold unlock. rewrite release_lock_other.
  - cbn [set_reqs s_reqs]. rewrite rget_rset. cbn [q_id]. rewrite (rget_id _ _ _ Hg), N.eqb_refl.
    eexists. split; [reflexivity|]. cbn [q_stage q_attempt q_confirmed]. repeat split.
  - cbn [set_reqs s_lockq]. intros Hin. pose proof (inv_lockq_stage _ _ _ HI Hg Hin) as E.
    rewrite E in Hs. discriminate.
Qed.

(* the retry really starts a new attempt: the request asks for the lock again *)
Theorem busy_retry_reenters : forall st id r, rget id (s_reqs st) = Some r -> q_stage r = RBackoff ->
  q_attempt r <? nretries = true ->
  exists r', rget id (s_reqs (fst (sstep st (STimer id)))) = Some r' /\
    (q_stage r' = RLock \/ (exists n, q_stage r' = RSetup n) \/ q_stage r' = RSend).
Proof.
  intros st id r Hg Hs Hlt. cbn [sstep]. rewrite Hg, Hs, Hlt. pose proof (rget_id _ _ _ Hg) as Hid.
  destruct (want_lock_frame st r) as (_ & (s & Hr & Hh) & _). exists (with_stage r s). rewrite Hr, <- Hid.
  split; [exact (rget_rset_same (with_stage r s) _)|]. cbn [q_stage with_stage].
  destruct Hh as [Hh| ->]; [right; apply holding_cases; exact Hh | left; reflexivity].
Qed.
