(* EZSP.startup_reset / reset / version / _switch_protocol_version / _command / start_ezsp / stop_ezsp / connect /
   __init__ as emitted from their SOURCE TEXT (gen/GenBringupFn.v, harness/pysrc.py) against the hand-written
   negotiation model (model/Bringup.v).  The emitted coroutines take the outcome of every await as an argument; here
   they are run against an NCP that reports ANY protocol version v (universally quantified, not a sample), and the commands they
   issue / the handler they end with are shown to be those of [do_version] / [do_reset] / [bring_up]. *)
From Coq Require Import ZArith NArith List Bool String Lia.
Import ListNotations.
Require Import BV.lib.EzspTypes BV.gen.GenConfig BV.gen.GenCmd BV.model.EzspCodec BV.model.EzspCases
               BV.model.Config BV.model.Bringup BV.proofs.Bringup_proofs BV.gen.GenBringupFn.
Open Scope N_scope.

(* ---- the live dict / constants the emitted functions consult are the tables the model consults ---------------- *)
Lemma memN_In x l : memN x l = true <-> In x l.
Proof.
  induction l as [|y l IH]; cbn [memN In]; [split; [discriminate|tauto]|].
  rewrite orb_true_iff, N.eqb_eq, IH. split; (intros [H|H]; [left; symmetry; exact H | right; exact H]).
Qed.

Lemma memN_ext l1 l2 :
  forallb (fun y => memN y l2) l1 = true -> forallb (fun y => memN y l1) l2 = true ->
  forall x, memN x l1 = memN x l2.
Proof.
  intros H1 H2 x. rewrite forallb_forall in H1, H2.
  destruct (memN x l1) eqn:E1; destruct (memN x l2) eqn:E2; try reflexivity.
  - apply memN_In in E1. apply H1 in E1. congruence.
  - apply memN_In in E2. apply H2 in E2. congruence.
Qed.

Lemma py_in_memN x l : py_in x l = memN x l.
Proof. unfold py_in. induction l as [|y l IH]; cbn [existsb memN]; [reflexivity | rewrite IH; reflexivity]. Qed.

(* membership in EZSP._BY_VERSION (whatever the order of the dict) is membership in SUPPORTED_VERSIONS *)
Lemma py_in_keys x : py_in x py_BY_VERSION_keys = memN x SUPPORTED_VERSIONS.
Proof. rewrite py_in_memN. apply memN_ext; vm_compute; reflexivity. Qed.

(* the class stored under a key has that VERSION *)
Lemma get_supported x : memN x SUPPORTED_VERSIONS = true -> py_get x py_BY_VERSION = Some x.
Proof.
  intros H. apply memN_In in H.
  assert (F : forallb (fun k => match py_get k py_BY_VERSION with Some c => c =? k | None => false end) SUPPORTED_VERSIONS = true)
    by (vm_compute; reflexivity).
  rewrite forallb_forall in F. specialize (F _ H).
  destruct (py_get x py_BY_VERSION) as [c|]; [apply N.eqb_eq in F; subst; reflexivity | discriminate].
Qed.

Lemma get_latest : py_get py_EZSP_LATEST py_BY_VERSION = Some EZSP_LATEST.
Proof. vm_compute. reflexivity. Qed.

Lemma latest_in_keys : py_in py_EZSP_LATEST py_BY_VERSION_keys = true.
Proof. vm_compute. reflexivity. Qed.

Lemma adopted_nonzero v : adopted v <> 0.
Proof.
  assert (F : forallb (fun h => negb (h =? 0)) (EZSP_LATEST :: SUPPORTED_VERSIONS) = true) by (vm_compute; reflexivity).
  rewrite forallb_forall in F. unfold adopted.
  destruct (memN v SUPPORTED_VERSIONS) eqn:E.
  - specialize (F v (or_intror (supported_cases v E))). intros ->. discriminate.
  - specialize (F EZSP_LATEST (or_introl eq_refl)). intros H. rewrite H in F. discriminate.
Qed.

Lemma adopted_4 : adopted 4 = 4.
Proof. vm_compute. reflexivity. Qed.

(* ---- the emitted methods, one by one ------------------------------------------------------------------------ *)

(* _switch_protocol_version never raises: the fallback key is in the dict *)
Lemma src_switch zv h run eff v :
  py_EZSP__switch_protocol_version_k (zv, h, run, eff) v
    = (v, adopted v, run, eff ++ [BNewHandler (adopted v)], ORet 0).
Proof.
  unfold py_EZSP__switch_protocol_version_k, adopted. rewrite py_in_keys.
  destruct (memN v SUPPORTED_VERSIONS) eqn:E; cbn [negb].
  - rewrite (get_supported v E). reflexivity.
  - rewrite get_latest. reflexivity.
Qed.

Lemma src_switch_model st v eff :
  py_EZSP__switch_protocol_version_k (b_version st, b_handler st, b_running st, eff) v
    = (b_version (switch st v), b_handler (switch st v), b_running (switch st v),
       eff ++ [BNewHandler (b_handler (switch st v))], ORet 0)
  /\ b_seq (switch st v) = py_handler_seq_init.
Proof. rewrite src_switch. split; reflexivity. Qed.

(* _command: issued by the handler object in use while EZSP is running; refused (nothing sent) while it is not *)
Lemma src_command zv h eff name arg a : h <> 0 ->
  py_EZSP__command_k (zv, h, true, eff) name arg (AVal a) = (zv, h, true, eff ++ [BCommand name arg h], ORet a).
Proof.
  intros Hh. unfold py_EZSP__command_k.
  destruct (h =? 0) eqn:E; [apply N.eqb_eq in E; contradiction | reflexivity].
Qed.

Lemma src_command_not_running zv h eff name arg a : h <> 0 ->
  py_EZSP__command_k (zv, h, false, eff) name arg a = (zv, h, false, eff, OExn XEzspError).
Proof.
  intros Hh. unfold py_EZSP__command_k.
  destruct (h =? 0) eqn:E; [apply N.eqb_eq in E; contradiction | reflexivity].
Qed.

(* the commands of one negotiation: the query by the handler in use asking for the current version; when the NCP
   reports another version, the handler adopted for it and the confirming query by that handler *)
Definition version_effs (zv h v : N) : list bu_eff :=
  BCommand "version" zv h ::
  (if v =? zv then [] else [BNewHandler (adopted v); BCommand "version" v (adopted v)]).

Lemma src_version zv h eff v x : h <> 0 ->
  py_EZSP_version_k (zv, h, true, eff) (AVal v) (AVal x)
    = (v, (if v =? zv then h else adopted v), true, eff ++ version_effs zv h v, ORet 0).
Proof.
  intros Hh. unfold py_EZSP_version_k, version_effs. rewrite (src_command _ _ _ _ _ _ Hh).
  destruct (v =? zv) eqn:E; cbn [negb].
  - apply N.eqb_eq in E. subst. reflexivity.
  - rewrite src_switch, (src_command _ _ _ _ _ _ (adopted_nonzero v)).
    rewrite <- !app_assoc. reflexivity.
Qed.

(* reset(): stop, handshake, back to v4, start -- in this order; from ANY state *)
Definition reset_effs : list bu_eff := [BRunning false; BReset; BNewHandler 4; BRunning true].

Lemma src_reset zv h run eff x :
  py_EZSP_reset_k (zv, h, run, eff) (AVal x) = (4, 4, true, eff ++ reset_effs, ORet 0).
Proof.
  unfold py_EZSP_reset_k, py_EZSP_stop_ezsp_k, py_EZSP_start_ezsp_k. rewrite src_switch.
  change py_v4_EZSPv4_VERSION with 4. rewrite adopted_4. unfold reset_effs.
  rewrite <- !app_assoc. reflexivity.
Qed.

(* the handshake fails (time-out or another exception): EZSP stays stopped, no handler change, nothing else sent *)
Lemma src_reset_failed zv h run eff r : r = ATimeoutError \/ r = AOtherError ->
  exists e, py_EZSP_reset_k (zv, h, run, eff) r = (zv, h, false, eff ++ [BRunning false; BReset], OExn e).
Proof.
  intros [-> | ->]; [exists XTimeout | exists XOther];
    unfold py_EZSP_reset_k, py_EZSP_stop_ezsp_k; rewrite <- !app_assoc; reflexivity.
Qed.

(* ---- from effects to frames: what the handler objects put on the wire --------------------------------------- *)
(* a command is framed by the handler object that issues it with that object's sequence number, which then advances
   (ProtocolHandler.command); a new handler object starts at py_handler_seq_init (ProtocolHandler.__init__) *)
Definition frame_of (name : string) (arg h seq : N) : option (list N) :=
  if String.eqb name "version" then
    match header_tx (kind_of h) seq py_version_cmd_id with
    | Some hd => Some (hd ++ [arg mod 256])
    | None => None
    end
  else None.

Fixpoint replay (seq : N) (effs : list bu_eff) : N * list (option (list N)) :=
  match effs with
  | [] => (seq, [])
  | BNewHandler _ :: r => replay py_handler_seq_init r
  | BCommand name arg h :: r =>
      let '(s', fs) := replay (py_handler_seq_next seq) r in (s', frame_of name arg h seq :: fs)
  | _ :: r => replay seq r
  end.

Lemma version_effs_model st v :
  do_version st v =
    ({| b_version := v; b_handler := (if v =? b_version st then b_handler st else adopted v);
        b_running := b_running st; b_seq := fst (replay (b_seq st) (version_effs (b_version st) (b_handler st) v)) |},
     snd (replay (b_seq st) (version_effs (b_version st) (b_handler st) v))).
Proof.
  unfold do_version, version_effs. destruct (v =? b_version st) eqn:E.
  - apply N.eqb_eq in E. subst. reflexivity.
  - reflexivity.
Qed.

(* EZSP.version() from any running state with a handler, against an NCP reporting any v *)
Lemma src_version_model st v x eff : b_handler st <> 0 -> b_running st = true ->
  py_EZSP_version_k (b_version st, b_handler st, true, eff) (AVal v) (AVal x)
    = (b_version (fst (do_version st v)), b_handler (fst (do_version st v)), true,
       eff ++ version_effs (b_version st) (b_handler st) v, ORet 0)
  /\ replay (b_seq st) (version_effs (b_version st) (b_handler st) v)
       = (b_seq (fst (do_version st v)), snd (do_version st v)).
Proof.
  intros Hh Hr. rewrite (src_version _ _ _ _ _ Hh), version_effs_model. cbn [fst snd b_version b_handler b_seq].
  split; [reflexivity|]. destruct (replay _ _); reflexivity.
Qed.

(* EZSP.reset() from any state *)
Lemma src_reset_model st x eff :
  py_EZSP_reset_k (b_version st, b_handler st, b_running st, eff) (AVal x)
    = (b_version (do_reset st), b_handler (do_reset st), b_running (do_reset st), eff ++ reset_effs, ORet 0)
  /\ replay (b_seq st) reset_effs = (b_seq (do_reset st), []).
Proof. rewrite src_reset. split; reflexivity. Qed.

(* reset() then version(): the negotiation is the first one again, whatever the state before the reset *)
Lemma src_reset_then_version st r v x eff :
  let '(zv, h, run, eff1, _) := py_EZSP_reset_k (b_version st, b_handler st, b_running st, eff) (AVal r) in
  py_EZSP_version_k (zv, h, run, eff1) (AVal v) (AVal x)
    = (b_version (fst (bring_up v)), b_handler (fst (bring_up v)), true,
       eff ++ reset_effs ++ version_effs 4 4 v, ORet 0)
  /\ replay (b_seq st) (reset_effs ++ version_effs 4 4 v) = (b_seq (fst (bring_up v)), snd (bring_up v)).
Proof.
  rewrite src_reset. rewrite src_version by discriminate. rewrite <- app_assoc.
  unfold bring_up. rewrite version_effs_model. cbn [fst snd b_version b_handler b_seq do_reset b_init].
  split.
  - destruct (v =? 4) eqn:E; [|reflexivity]. apply N.eqb_eq in E. subst. reflexivity.
  - change (replay (b_seq st) (reset_effs ++ version_effs 4 4 v)) with (replay 0 (version_effs 4 4 v)).
    destruct (replay 0 (version_effs 4 4 v)); reflexivity.
Qed.

(* ---- the whole bring-up: __init__, connect, startup_reset ---------------------------------------------------- *)
Definition py_connected : bu_state :=
  let '(zv, h, run, eff, _) := py_EZSP_connect_k py_EZSP_init in (zv, h, run, eff).

Definition reset_seen (tcp : bool) (w : await_ans) : bool :=
  tcp && match w with AVal _ => true | _ => false end.

Definition startup_effs (tcp : bool) (w : await_ans) (v : N) : list bu_eff :=
  (if tcp then [BWaitStartupReset (Some py_NETWORK_COORDINATOR_STARTUP_RESET_WAIT)] else [])
  ++ (if reset_seen tcp w then [BNewHandler 4; BRunning true] else reset_effs)
  ++ version_effs 4 4 v.

Definition bringup_effs (tcp : bool) (w : await_ans) (v : N) : list bu_eff :=
  [BNewHandler 4] ++ startup_effs tcp w v.

(* startup_reset() from ANY stopped state (whatever version had been negotiated before, whatever handler object is
   installed): the handler is the v4 one again before the first version query, whether the reset was requested by the
   host or the NCP's own start-up reset was seen *)
Lemma src_startup_reset_any zv h eff tcp w r v x : (tcp = true -> w <> AOtherError) ->
  py_EZSP_startup_reset_k (zv, h, false, eff) tcp w (AVal r) (AVal v) (AVal x)
    = (v, adopted v, true, eff ++ startup_effs tcp w v, ORet 0).
Proof.
  intros Hw.
  assert (Hv : forall e, py_EZSP_version_k (4, 4, true, e) (AVal v) (AVal x)
                         = (v, adopted v, true, e ++ version_effs 4 4 v, ORet 0)).
  { intros e. rewrite src_version by discriminate.
    destruct (v =? 4) eqn:E; [|reflexivity]. apply N.eqb_eq in E. subst. reflexivity. }
  unfold py_EZSP_startup_reset_k, startup_effs, reset_seen.
  change py_v4_EZSPv4_VERSION with 4.
  destruct tcp; [destruct w as [wv| |]; [| |exfalso; apply Hw; reflexivity]|];
    cbn [app negb andb]; try rewrite src_switch; try rewrite adopted_4;
    cbn [py_EZSP_start_ezsp_k negb]; try rewrite src_reset; rewrite Hv;
    rewrite <- ?app_assoc; reflexivity.
Qed.

Lemma src_bring_up tcp w r v x : (tcp = true -> w <> AOtherError) ->
  py_EZSP_startup_reset_k py_connected tcp w (AVal r) (AVal v) (AVal x)
    = (v, adopted v, true, bringup_effs tcp w v, ORet 0)
  /\ bring_up v = ({| b_version := v; b_handler := adopted v; b_running := true;
                      b_seq := fst (replay 0 (bringup_effs tcp w v)) |},
                   snd (replay 0 (bringup_effs tcp w v))).
Proof.
  intros Hw.
  assert (Hm : bring_up v = ({| b_version := v; b_handler := adopted v; b_running := true;
                                b_seq := fst (replay 0 (version_effs 4 4 v)) |},
                             snd (replay 0 (version_effs 4 4 v)))).
  { unfold bring_up. rewrite version_effs_model. cbn [fst snd b_version b_handler b_seq b_running do_reset b_init].
    destruct (v =? 4) eqn:E; [|reflexivity]. apply N.eqb_eq in E. subst. reflexivity. }
  split.
  - unfold py_connected, py_EZSP_connect_k, py_EZSP_init. change py_v4_EZSPv4_VERSION with 4.
    cbn [app]. rewrite (src_startup_reset_any _ _ _ _ _ _ _ _ Hw). reflexivity.
  - rewrite Hm. unfold bringup_effs, startup_effs, reset_seen, reset_effs.
    destruct tcp; [destruct w|]; reflexivity.
Qed.

(* the frames of a later start-up round: whatever was negotiated before, the first query is the legacy one *)
Lemma src_startup_reset_frames tcp w v seq :
  snd (replay seq (startup_effs tcp w v)) = snd (bring_up v).
Proof.
  assert (Hm : snd (bring_up v) = snd (replay 0 (version_effs 4 4 v))).
  { unfold bring_up. rewrite version_effs_model. reflexivity. }
  rewrite Hm. unfold startup_effs, reset_seen, reset_effs.
  destruct tcp; [destruct w|]; reflexivity.
Qed.

(* the reset handshake of the bring-up fails (serial path, or a socket on which no start-up reset was seen): the
   bring-up raises, EZSP is left stopped and no command has been issued *)
Lemma src_bring_up_reset_failed tcp w r a1 a2 : reset_seen tcp w = false -> (tcp = true -> w <> AOtherError) ->
  r = ATimeoutError \/ r = AOtherError ->
  exists e effs, py_EZSP_startup_reset_k py_connected tcp w r a1 a2 = (4, 4, false, effs, OExn e)
    /\ snd (replay 0 effs) = [].
Proof.
  intros Hs Hw [-> | ->]; [exists XTimeout | exists XOther];
    (destruct tcp; [destruct w as [wv| |]; [discriminate Hs | | exfalso; apply Hw; reflexivity]|]);
    eexists; (split; [reflexivity | reflexivity]).
Qed.
