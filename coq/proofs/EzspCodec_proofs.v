(* C07 proofs: the EZSP codec model (model/EzspCodec.v) round-trips on every decodable schema, the
   three header layouts invert, positional/keyword binding agree, and the generated command tables
   (gen/GenCmd.v) are consistent in every version.  Stdlib only. *)
From Coq Require Import ZArith NArith List Bool String Lia ZifyBool ZifyN ZifyNat Permutation.
Import ListNotations.
Require Import BV.lib.EzspTypes BV.gen.GenCmd BV.model.EzspCodec BV.model.EzspCases.
Open Scope N_scope.

Local Ltac Zify.zify_post_hook ::= Z.to_euclidean_division_equations.

(* ================================================================================================ *)
(* 1. little-endian integers                                                                        *)
(* ================================================================================================ *)

Lemma pow256_0 : pow256 0 = 1.
Proof. reflexivity. Qed.

Lemma pow256_S (n : nat) : pow256 (S n) = 256 * pow256 n.
Proof. unfold pow256. rewrite Nat2N.inj_succ, N.pow_succ_r'. reflexivity. Qed.

Local Arguments pow256 : simpl never.

Lemma pow256_pos (n : nat) : 0 < pow256 n.
Proof.
  induction n as [|n IH].
  - rewrite pow256_0. lia.
  - rewrite pow256_S. lia.
Qed.

Lemma pow256_even (n : nat) : (0 < n)%nat -> pow256 n = 2 * (pow256 n / 2).
Proof.
  intros Hn. destruct n as [|n]; [lia|].
  rewrite pow256_S. pose proof (pow256_pos n) as Hp.
  set (P := pow256 n) in *. lia.
Qed.

Lemma le_bytes_length (n : nat) : forall v, List.length (le_bytes n v) = n.
Proof.
  induction n as [|n IH]; intros v; cbn [le_bytes List.length].
  - reflexivity.
  - rewrite IH. reflexivity.
Qed.

Lemma le_value_le_bytes (n : nat) : forall v, v < pow256 n -> le_value (le_bytes n v) = v.
Proof.
  induction n as [|n IH]; intros v Hv; cbn [le_bytes le_value].
  - rewrite pow256_0 in Hv. lia.
  - rewrite pow256_S in Hv. rewrite IH.
    + lia.
    + set (P := pow256 n) in *. lia.
Qed.

Lemma le_bytes_byte (n : nat) : forall v b, In b (le_bytes n v) -> b < 256.
Proof.
  induction n as [|n IH]; intros v b Hb; cbn [le_bytes In] in Hb.
  - contradiction.
  - destruct Hb as [Hb|Hb].
    + subst b. lia.
    + exact (IH _ _ Hb).
Qed.

(* ================================================================================================ *)
(* 2. list helpers                                                                                  *)
(* ================================================================================================ *)

Lemma firstn_app_len (A : Type) (l r : list A) (n : nat) :
  List.length l = n -> firstn n (l ++ r) = l.
Proof.
  intros H. subst n. induction l as [|x l IH]; cbn [List.length firstn app].
  - reflexivity.
  - rewrite IH. reflexivity.
Qed.

Lemma skipn_app_len (A : Type) (l r : list A) (n : nat) :
  List.length l = n -> skipn n (l ++ r) = r.
Proof.
  intros H. subst n. induction l as [|x l IH]; cbn [List.length skipn app].
  - reflexivity.
  - exact IH.
Qed.

Lemma ltb_app_false (A : Type) (l r : list A) (n : nat) :
  List.length l = n -> (List.length (l ++ r) <? n)%nat = false.
Proof. intros H. apply Nat.ltb_ge. rewrite app_length. lia. Qed.

(* ================================================================================================ *)
(* 3. primitives                                                                                    *)
(* ================================================================================================ *)

Lemma dec_le_bytes_prefix (n : nat) (x : N) (rest : list N) :
  x < pow256 n ->
  (List.length (le_bytes n x ++ rest) <? n)%nat = false /\
  le_value (firstn n (le_bytes n x ++ rest)) = x /\
  skipn n (le_bytes n x ++ rest) = rest.
Proof.
  intros Hx. pose proof (le_bytes_length n x) as Hl. repeat split.
  - apply ltb_app_false. exact Hl.
  - rewrite (firstn_app_len _ _ _ _ Hl). apply le_value_le_bytes. exact Hx.
  - apply skipn_app_len. exact Hl.
Qed.

Lemma dec_enc_prim (p : prim) (v : pval) (bs rest : list N) :
  wf_prim p = true -> enc_prim p v = Some bs -> dec_prim p (bs ++ rest) = Some (v, rest).
Proof.
  intros Hwf Henc. destruct p as [n|n|n]; destruct v as [z|l]; cbn [enc_prim] in Henc;
    try discriminate Henc; cbn [wf_prim] in Hwf.
  - (* PU *)
    destruct ((0 <=? z)%Z && (z <? Z.of_N (pow256 n))%Z) eqn:Hr; [|discriminate Henc].
    injection Henc as Hbs. subst bs.
    assert (Hx : Z.to_N z < pow256 n) by lia.
    destruct (dec_le_bytes_prefix n _ rest Hx) as [H1 [H2 H3]].
    unfold dec_prim. rewrite H1, H2, H3. rewrite Z2N.id by lia. reflexivity.
  - (* PS *)
    cbv zeta in Henc.
    destruct ((- Z.of_N (pow256 n / 2) <=? z)%Z && (z <? Z.of_N (pow256 n / 2))%Z) eqn:Hr;
      [|discriminate Henc].
    injection Henc as Hbs. subst bs.
    assert (Hev : pow256 n = 2 * (pow256 n / 2)) by (apply pow256_even; lia).
    pose proof (pow256_pos n) as Hpos.
    set (M := pow256 n) in *. set (h := M / 2) in *.
    assert (Hlo : (- Z.of_N h <= z)%Z) by lia.
    assert (Hhi : (z < Z.of_N h)%Z) by lia.
    assert (HM : Z.of_N M = (2 * Z.of_N h)%Z) by lia.
    assert (Hmod : (z mod Z.of_N M)%Z = if (z <? 0)%Z then (z + Z.of_N M)%Z else z).
    { destruct (z <? 0)%Z eqn:Hz.
      - rewrite <- (Z_mod_plus_full z 1 (Z.of_N M)). rewrite Z.mul_1_l.
        apply Z.mod_small. lia.
      - apply Z.mod_small. lia. }
    assert (Hx : Z.to_N (z mod Z.of_N M) < M).
    { rewrite Hmod. destruct (z <? 0)%Z eqn:Hz; lia. }
    destruct (dec_le_bytes_prefix n _ rest Hx) as [H1 [H2 H3]].
    unfold dec_prim. fold M. fold h. rewrite H1, H2, H3. cbv zeta.
    f_equal. f_equal. f_equal. rewrite Hmod.
    destruct (z <? 0)%Z eqn:Hz.
    + destruct (Z.to_N (z + Z.of_N M) <? h) eqn:Hc; lia.
    + destruct (Z.to_N z <? h) eqn:Hc; lia.
  - (* PLV *)
    destruct ((N.of_nat (List.length l) <? pow256 n - 1) && forallb (fun b => b <? 256) l) eqn:Hr;
      [|discriminate Henc].
    injection Henc as Hbs. subst bs.
    apply andb_true_iff in Hr. destruct Hr as [Hlen _].
    assert (Hx : N.of_nat (List.length l) < pow256 n) by lia.
    rewrite <- app_assoc.
    destruct (dec_le_bytes_prefix n _ (l ++ rest) Hx) as [H1 [H2 H3]].
    unfold dec_prim. rewrite H1, H2, H3. cbv zeta.
    replace (N.of_nat (List.length (l ++ rest)) <? N.of_nat (List.length l)) with false
      by (symmetry; apply N.ltb_ge; rewrite app_length; lia).
    rewrite Nat2N.id.
    rewrite (firstn_app_len _ l rest _ eq_refl), (skipn_app_len _ l rest _ eq_refl).
    reflexivity.
Qed.

Lemma enc_prim_nonempty (p : prim) (v : pval) (bs : list N) :
  wf_prim p = true -> enc_prim p v = Some bs -> (0 < List.length bs)%nat.
Proof.
  intros Hwf Henc. destruct p as [n|n|n]; destruct v as [z|l]; cbn [enc_prim] in Henc;
    try discriminate Henc; cbn [wf_prim] in Hwf; cbv zeta in Henc.
  - destruct (_ && _); [|discriminate Henc]. injection Henc as Hbs. subst bs.
    rewrite le_bytes_length. lia.
  - destruct (_ && _); [|discriminate Henc]. injection Henc as Hbs. subst bs.
    rewrite le_bytes_length. lia.
  - destruct (_ && _); [|discriminate Henc]. injection Henc as Hbs. subst bs.
    rewrite app_length, le_bytes_length. lia.
Qed.

(* ================================================================================================ *)
(* 4. rows and lists of rows                                                                        *)
(* ================================================================================================ *)

Lemma wf_row_forallb (ps : list prim) : wf_row ps = true -> forallb wf_prim ps = true.
Proof. destruct ps as [|p ps]; cbn [wf_row]; [discriminate|tauto]. Qed.

Lemma dec_enc_row (ps : list prim) : forall (vs : list pval) (bs rest : list N),
  forallb wf_prim ps = true -> enc_row ps vs = Some bs -> dec_row ps (bs ++ rest) = Some (vs, rest).
Proof.
  induction ps as [|p ps IH]; intros vs bs rest Hwf Henc; destruct vs as [|v vs];
    cbn [enc_row] in Henc; try discriminate Henc.
  - injection Henc as Hbs. subst bs. reflexivity.
  - cbn [forallb] in Hwf. apply andb_true_iff in Hwf. destruct Hwf as [Hp Hps].
    destruct (enc_prim p v) as [a|] eqn:Ha; [|discriminate Henc].
    destruct (enc_row ps vs) as [b|] eqn:Hb; [|discriminate Henc].
    injection Henc as Hbs. subst bs.
    cbn [dec_row]. rewrite <- app_assoc.
    rewrite (dec_enc_prim p v a (b ++ rest) Hp Ha).
    rewrite (IH vs b rest Hps Hb). reflexivity.
Qed.

Lemma enc_row_nonempty (ps : list prim) (r : list pval) (bs : list N) :
  wf_row ps = true -> enc_row ps r = Some bs -> (0 < List.length bs)%nat.
Proof.
  intros Hwf Henc. destruct ps as [|p ps]; [discriminate Hwf|].
  cbn [wf_row forallb] in Hwf. apply andb_true_iff in Hwf. destruct Hwf as [Hp _].
  destruct r as [|v r]; cbn [enc_row] in Henc; [discriminate Henc|].
  destruct (enc_prim p v) as [a|] eqn:Ha; [|discriminate Henc].
  destruct (enc_row ps r) as [b|] eqn:Hb; [|discriminate Henc].
  injection Henc as Hbs. subst bs.
  pose proof (enc_prim_nonempty p v a Hp Ha) as Hlen.
  rewrite app_length. lia.
Qed.

Lemma dec_enc_rows_n (ps : list prim) : forall (rows : list (list pval)) (bs rest : list N),
  forallb wf_prim ps = true -> enc_rows ps rows = Some bs ->
  dec_rows_n (List.length rows) ps (bs ++ rest) = Some (rows, rest).
Proof.
  induction rows as [|r rows IH]; intros bs rest Hwf Henc; cbn [enc_rows] in Henc.
  - injection Henc as Hbs. subst bs. reflexivity.
  - destruct (enc_row ps r) as [a|] eqn:Ha; [|discriminate Henc].
    destruct (enc_rows ps rows) as [b|] eqn:Hb; [|discriminate Henc].
    injection Henc as Hbs. subst bs.
    cbn [List.length dec_rows_n]. rewrite <- app_assoc.
    rewrite (dec_enc_row ps r a (b ++ rest) Hwf Ha).
    rewrite (IH b rest Hwf eq_refl). reflexivity.
Qed.

Lemma dec_enc_rows_all (ps : list prim) : forall (rows : list (list pval)) (bs : list N) (fuel : nat),
  wf_row ps = true -> enc_rows ps rows = Some bs -> (List.length bs <= fuel)%nat ->
  dec_rows_all fuel ps bs = Some rows.
Proof.
  induction rows as [|r rows IH]; intros bs fuel Hwf Henc Hfuel; cbn [enc_rows] in Henc.
  - injection Henc as Hbs. subst bs. destruct fuel; reflexivity.
  - destruct (enc_row ps r) as [a|] eqn:Ha; [|discriminate Henc].
    destruct (enc_rows ps rows) as [b|] eqn:Hb; [|discriminate Henc].
    injection Henc as Hbs. subst bs.
    pose proof (enc_row_nonempty ps r a Hwf Ha) as Hne.
    rewrite app_length in Hfuel.
    destruct fuel as [|fuel]; [lia|].
    pose proof (dec_enc_row ps r a b (wf_row_forallb ps Hwf) Ha) as Hdec.
    destruct a as [|x a]; [cbn [List.length] in Hne; lia|].
    cbn [app] in Hdec |- *. cbn [dec_rows_all]. rewrite Hdec.
    rewrite (IH b fuel Hwf eq_refl).
    + reflexivity.
    + cbn [List.length] in Hfuel. lia.
Qed.

(* ================================================================================================ *)
(* 4b. fixed-size items (for the padding quirk IPad)                                                *)
(* ================================================================================================ *)

Lemma enc_prim_size (p : prim) (v : pval) (bs : list N) (k : nat) :
  prim_size p = Some k -> enc_prim p v = Some bs -> List.length bs = k.
Proof.
  intros Hk Henc. destruct p as [n|n|n]; cbn [prim_size] in Hk; try discriminate Hk;
    injection Hk as Hk; subst k; destruct v as [z|l]; cbn [enc_prim] in Henc;
    try discriminate Henc; cbv zeta in Henc.
  - destruct (_ && _); [|discriminate Henc]. injection Henc as Hbs. subst bs.
    apply le_bytes_length.
  - destruct (_ && _); [|discriminate Henc]. injection Henc as Hbs. subst bs.
    apply le_bytes_length.
Qed.

Lemma enc_row_size (ps : list prim) : forall (vs : list pval) (bs : list N) (k : nat),
  row_size ps = Some k -> enc_row ps vs = Some bs -> List.length bs = k.
Proof.
  induction ps as [|p ps IH]; intros vs bs k Hk Henc; destruct vs as [|v vs];
    cbn [enc_row] in Henc; try discriminate Henc; cbn [row_size] in Hk.
  - injection Henc as Hbs. injection Hk as Hk. subst bs k. reflexivity.
  - destruct (prim_size p) as [ka|] eqn:Hka; [|discriminate Hk].
    destruct (row_size ps) as [kb|] eqn:Hkb; [|discriminate Hk].
    injection Hk as Hk. subst k.
    destruct (enc_prim p v) as [a|] eqn:Ha; [|discriminate Henc].
    destruct (enc_row ps vs) as [b|] eqn:Hb; [|discriminate Henc].
    injection Henc as Hbs. subst bs.
    rewrite app_length, (enc_prim_size p v a ka Hka Ha), (IH vs b kb eq_refl Hb). reflexivity.
Qed.

Lemma enc_rows_size (ps : list prim) (k : nat) : forall (rows : list (list pval)) (bs : list N),
  row_size ps = Some k -> enc_rows ps rows = Some bs ->
  List.length bs = (List.length rows * k)%nat.
Proof.
  induction rows as [|r rows IH]; intros bs Hk Henc; cbn [enc_rows] in Henc.
  - injection Henc as Hbs. subst bs. reflexivity.
  - destruct (enc_row ps r) as [a|] eqn:Ha; [|discriminate Henc].
    destruct (enc_rows ps rows) as [b|] eqn:Hb; [|discriminate Henc].
    injection Henc as Hbs. subst bs.
    rewrite app_length, (enc_row_size ps r a k Hk Ha), (IH b Hk eq_refl).
    cbn [List.length Nat.mul]. reflexivity.
Qed.

(* an item of fixed size k is encoded on exactly k bytes *)
Lemma enc_item_fixed_size (t : bool) (it : item) (v : ival) (bs : list N) (k : nat) :
  fixed_size it = Some k -> enc_item t it v = Some bs -> List.length bs = k.
Proof.
  intros Hk Henc. destruct it as [p|pfx ps|m ps|ps|ps|ps|w a n]; cbn [fixed_size] in Hk;
    try discriminate Hk.
  - destruct v as [x|rows|]; cbn [enc_item] in Henc; try discriminate Henc.
    exact (enc_prim_size p x bs k Hk Henc).
  - destruct (row_size ps) as [kr|] eqn:Hkr; [|discriminate Hk]. injection Hk as Hk. subst k.
    destruct v as [x|rows|]; cbn [enc_item] in Henc; try discriminate Henc.
    destruct (List.length rows =? m)%nat eqn:Hlen; [|discriminate Henc].
    apply Nat.eqb_eq in Hlen. subst m.
    exact (enc_rows_size ps kr rows bs Hkr Henc).
Qed.

(* at least fixed_prefix s bytes are produced for a schema s *)
Lemma enc_items_fixed_prefix (t : bool) : forall (s : schema) (vs : list ival) (bs : list N),
  enc_items t s vs = Some bs -> (fixed_prefix s <= List.length bs)%nat.
Proof.
  induction s as [|it s IH]; intros vs bs Henc; cbn [fixed_prefix].
  - lia.
  - destruct vs as [|v vs]; cbn [enc_items] in Henc; [discriminate Henc|].
    destruct (enc_item t it v) as [a|] eqn:Ha; [|discriminate Henc].
    destruct (enc_items t s vs) as [b|] eqn:Hb; [|discriminate Henc].
    injection Henc as Hbs. subst bs.
    destruct (fixed_size it) as [k|] eqn:Hk; [|lia].
    rewrite app_length, (enc_item_fixed_size t it v a k Hk Ha).
    pose proof (IH vs b Hb). lia.
Qed.

(* ================================================================================================ *)
(* 5. items                                                                                         *)
(* ================================================================================================ *)

(* items that may be followed by further items: decodable in front of any remaining data, and
   independent of the IReq0 tag *)
Definition mid_ok (it : item) : bool :=
  match it with
  | IP p => wf_prim p
  | ILV pfx ps => (0 <? pfx)%nat && wf_row ps
  | IFixed _ ps => wf_row ps
  | _ => false
  end.

(* items that are only decodable in last position *)
Definition last_ok (it : item) : bool :=
  match it with
  | IRest ps | IOpt ps | IReq0 ps => wf_row ps
  | _ => false
  end.

Lemma dec_enc_item_mid (t t' : bool) (it : item) (v : ival) (bs rest : list N) :
  mid_ok it = true -> enc_item t it v = Some bs -> dec_item t' it (bs ++ rest) = Some (v, rest).
Proof.
  intros Hwf Henc. destruct it as [p|pfx ps|n ps|ps|ps|ps|pw pa pn]; cbn [mid_ok] in Hwf;
    try discriminate Hwf.
  - (* IP *)
    destruct v as [x|rows|]; cbn [enc_item] in Henc; try discriminate Henc.
    cbn [dec_item]. rewrite (dec_enc_prim p x bs rest Hwf Henc). reflexivity.
  - (* ILV *)
    apply andb_true_iff in Hwf. destruct Hwf as [_ Hps].
    destruct v as [x|rows|]; cbn [enc_item] in Henc; try discriminate Henc.
    destruct (N.of_nat (List.length rows) <? pow256 pfx) eqn:Hlen; [|discriminate Henc].
    destruct (enc_rows ps rows) as [b|] eqn:Hb; cbn [option_map] in Henc; [|discriminate Henc].
    injection Henc as Hbs. subst bs.
    assert (Hx : N.of_nat (List.length rows) < pow256 pfx) by lia.
    rewrite <- app_assoc.
    destruct (dec_le_bytes_prefix pfx _ (b ++ rest) Hx) as [H1 [H2 H3]].
    cbn [dec_item]. rewrite H1, H2, H3, Nat2N.id.
    rewrite (dec_enc_rows_n ps rows b rest (wf_row_forallb ps Hps) Hb). reflexivity.
  - (* IFixed *)
    destruct v as [x|rows|]; cbn [enc_item] in Henc; try discriminate Henc.
    destruct (List.length rows =? n)%nat eqn:Hlen; [|discriminate Henc].
    apply Nat.eqb_eq in Hlen. subst n.
    cbn [dec_item].
    rewrite (dec_enc_rows_n ps rows bs rest (wf_row_forallb ps Hwf) Henc). reflexivity.
Qed.

Lemma dec_enc_item_last (t : bool) (it : item) (v : ival) (bs : list N) :
  last_ok it = true -> enc_item t it v = Some bs -> dec_item t it bs = Some (v, []).
Proof.
  intros Hwf Henc. destruct it as [p|pfx ps|n ps|ps|ps|ps|pw pa pn]; cbn [last_ok] in Hwf;
    try discriminate Hwf.
  - (* IRest *)
    destruct v as [x|rows|]; cbn [enc_item] in Henc; try discriminate Henc.
    cbn [dec_item]. rewrite (dec_enc_rows_all ps rows bs _ Hwf Henc (le_n _)). reflexivity.
  - (* IOpt *)
    destruct v as [x|rows|]; cbn [enc_item] in Henc; try discriminate Henc.
    + destruct rows as [|r [|r' rows]]; try discriminate Henc.
      pose proof (enc_row_nonempty ps r bs Hwf Henc) as Hne.
      pose proof (dec_enc_row ps r bs [] (wf_row_forallb ps Hwf) Henc) as Hdec.
      rewrite app_nil_r in Hdec.
      destruct bs as [|x bs]; [cbn [List.length] in Hne; lia|].
      cbn [dec_item]. rewrite Hdec. reflexivity.
    + injection Henc as Hbs. subst bs. reflexivity.
  - (* IReq0 *)
    destruct v as [x|rows|]; cbn [enc_item] in Henc; try discriminate Henc.
    + destruct rows as [|r [|r' rows]]; try discriminate Henc.
      destruct t; [|discriminate Henc].
      pose proof (dec_enc_row ps r bs [] (wf_row_forallb ps Hwf) Henc) as Hdec.
      rewrite app_nil_r in Hdec.
      cbn [dec_item]. rewrite Hdec. reflexivity.
    + destruct t; [discriminate Henc|].
      injection Henc as Hbs. subst bs. reflexivity.
Qed.

(* independence of the tag for everything except IReq0 *)
Lemma dec_item_tag_irrelevant (t t' : bool) (it : item) (d : list N) :
  (forall ps, it <> IReq0 ps) -> dec_item t it d = dec_item t' it d.
Proof.
  intros Hne. destruct it as [p|pfx ps|n ps|ps|ps|ps|pw pa pn]; try reflexivity.
  exfalso. exact (Hne ps eq_refl).
Qed.

(* the padding quirk: it carries no value and produces no bytes; in a well-formed schema it is
   followed by more than w bytes, so that decoding it leaves the encoder's output untouched *)
Definition pad_ok (it : item) (s : schema) : Prop :=
  exists w a n, it = IPad w a n /\ (w < fixed_prefix s)%nat.

Lemma wf_items_cons (it : item) (s : schema) :
  wf_items (it :: s) = true ->
  (mid_ok it = true /\ wf_items s = true) \/ (last_ok it = true /\ s = [])
  \/ (pad_ok it s /\ wf_items s = true).
Proof.
  intros H. destruct it as [p|pfx ps|n ps|ps|ps|ps|pw pa pn]; cbn [wf_items mid_ok last_ok] in H |- *.
  - apply andb_true_iff in H. left. exact H.
  - apply andb_true_iff in H. left. exact H.
  - apply andb_true_iff in H. left. exact H.
  - destruct s as [|it' s]; [right; left; split; [exact H|reflexivity]|discriminate H].
  - destruct s as [|it' s]; [right; left; split; [exact H|reflexivity]|discriminate H].
  - destruct s as [|it' s]; [right; left; split; [exact H|reflexivity]|discriminate H].
  - apply andb_true_iff in H. destruct H as [Hw Hs]. apply Nat.ltb_lt in Hw.
    right. right. split; [|exact Hs]. exists pw, pa, pn. split; [reflexivity|exact Hw].
Qed.

Lemma enc_item_pad (t : bool) (w a n : nat) (v : ival) (bs : list N) :
  enc_item t (IPad w a n) v = Some bs -> v = XNone /\ bs = [].
Proof.
  intros Henc. destruct v as [x|rows|]; cbn [enc_item] in Henc; try discriminate Henc.
  injection Henc as Hbs. subst bs. split; reflexivity.
Qed.

(* the key fact about IPad: on the encoder's output (followed by anything) the quirk does not fire *)
Lemma dec_item_pad (t t' : bool) (w a n : nat) (s : schema) (vs : list ival) (bs rest : list N) :
  (w < fixed_prefix s)%nat -> enc_items t s vs = Some bs ->
  dec_item t' (IPad w a n) (bs ++ rest) = Some (XNone, bs ++ rest).
Proof.
  intros Hw Henc. pose proof (enc_items_fixed_prefix t s vs bs Henc) as Hlen.
  cbn [dec_item].
  replace (List.length (bs ++ rest) =? w)%nat with false
    by (symmetry; apply Nat.eqb_neq; rewrite app_length; lia).
  reflexivity.
Qed.

Lemma pad_length (w a n : nat) (s : schema) (t : bool) (vs : list ival) (bs rest : list N) :
  wf_items (IPad w a n :: s) = true -> enc_items t s vs = Some bs ->
  (w < List.length (bs ++ rest))%nat.
Proof.
  intros Hwf Henc. cbn [wf_items] in Hwf. apply andb_true_iff in Hwf. destruct Hwf as [Hw _].
  apply Nat.ltb_lt in Hw. pose proof (enc_items_fixed_prefix t s vs bs Henc) as Hlen.
  rewrite app_length. lia.
Qed.

Lemma dec_enc_item_pad (t t' : bool) (it : item) (s : schema) (v : ival) (vs : list ival)
      (a b : list N) :
  pad_ok it s -> enc_item t it v = Some a -> enc_items t s vs = Some b ->
  dec_item t' it (a ++ b) = Some (v, b).
Proof.
  intros [w [pa [n [Hit Hw]]]] Ha Hb. subst it.
  destruct (enc_item_pad t w pa n v a Ha) as [Hv Hbs]. subst v a.
  pose proof (dec_item_pad t t' w pa n s vs b [] Hw Hb) as Hdec.
  rewrite app_nil_r in Hdec. exact Hdec.
Qed.

(* ================================================================================================ *)
(* 6. schemas                                                                                       *)
(* ================================================================================================ *)

(* once past the first field the tag is threaded unchanged, and encoder and decoder share it *)
Lemma dec_enc_items (t : bool) : forall (s : schema) (vs : list ival) (bs : list N),
  wf_items s = true -> enc_items t s vs = Some bs -> dec_items false t s bs = Some (vs, []).
Proof.
  induction s as [|it s IH]; intros vs bs Hwf Henc; destruct vs as [|v vs];
    cbn [enc_items] in Henc; try discriminate Henc.
  - injection Henc as Hbs. subst bs. reflexivity.
  - destruct (enc_item t it v) as [a|] eqn:Ha; [|discriminate Henc].
    destruct (enc_items t s vs) as [b|] eqn:Hb; [|discriminate Henc].
    injection Henc as Hbs. subst bs.
    destruct (wf_items_cons it s Hwf) as [[Hmid Hs]|[[Hlast Hs]|[Hpad Hs]]].
    + cbn [dec_items]. rewrite (dec_enc_item_mid t t it v a b Hmid Ha).
      rewrite (IH vs b Hs Hb). reflexivity.
    + subst s. destruct vs as [|v' vs]; cbn [enc_items] in Hb; [|discriminate Hb].
      injection Hb as Hb. subst b. rewrite app_nil_r.
      cbn [dec_items]. rewrite (dec_enc_item_last t it v a Hlast Ha). reflexivity.
    + cbn [dec_items]. rewrite (dec_enc_item_pad t t it s v vs a b Hpad Ha Hb).
      rewrite (IH vs b Hs Hb). reflexivity.
Qed.

Lemma is_tag0_head (v : ival) (vs : list ival) : is_tag0 [v] = is_tag0 (v :: vs).
Proof. reflexivity. Qed.

Lemma roundtrip : forall s vs bs,
  wf_schema s = true -> encode_schema s vs = Some bs -> decode_schema s bs = Some (vs, []).
Proof.
  intros s vs bs Hwf Henc. unfold wf_schema in Hwf. apply andb_true_iff in Hwf.
  destruct Hwf as [Hitems Hreq]. unfold encode_schema in Henc. unfold decode_schema.
  destruct s as [|it s].
  - destruct vs as [|v vs]; cbn [enc_items] in Henc; [|discriminate Henc].
    injection Henc as Hbs. subst bs. reflexivity.
  - destruct vs as [|v vs]; cbn [enc_items] in Henc; [discriminate Henc|].
    destruct (enc_item (is_tag0 (v :: vs)) it v) as [a|] eqn:Ha; [|discriminate Henc].
    destruct (enc_items (is_tag0 (v :: vs)) s vs) as [b|] eqn:Hb; [|discriminate Henc].
    injection Henc as Hbs. subst bs.
    destruct (wf_items_cons it s Hitems) as [[Hmid Hs]|[[Hlast Hs]|[Hpad Hs]]].
    + cbn [dec_items].
      rewrite (dec_enc_item_mid (is_tag0 (v :: vs)) false it v a b Hmid Ha).
      rewrite (is_tag0_head v vs).
      rewrite (dec_enc_items (is_tag0 (v :: vs)) s vs b Hs Hb). reflexivity.
    + subst s. destruct vs as [|v' vs]; cbn [enc_items] in Hb; [|discriminate Hb].
      injection Hb as Hb. subst b. rewrite app_nil_r.
      cbn [dec_items].
      destruct it as [p|pfx ps|n ps|ps|ps|ps|pw pa pn]; cbn [last_ok] in Hlast; try discriminate Hlast.
      * rewrite (dec_item_tag_irrelevant false (is_tag0 [v]) (IRest ps) a) by (intros ps' E; discriminate E).
        rewrite (dec_enc_item_last (is_tag0 [v]) (IRest ps) v a Hlast Ha). reflexivity.
      * rewrite (dec_item_tag_irrelevant false (is_tag0 [v]) (IOpt ps) a) by (intros ps' E; discriminate E).
        rewrite (dec_enc_item_last (is_tag0 [v]) (IOpt ps) v a Hlast Ha). reflexivity.
      * (* a lone IReq0 is not a well-formed schema *)
        cbn in Hreq. discriminate Hreq.
    + (* a leading IPad: its value XNone is not the tag 0, and the encoder used the same tag *)
      cbn [dec_items].
      rewrite (dec_enc_item_pad (is_tag0 (v :: vs)) false it s v vs a b Hpad Ha Hb).
      rewrite (is_tag0_head v vs).
      rewrite (dec_enc_items (is_tag0 (v :: vs)) s vs b Hs Hb). reflexivity.
Qed.

(* non-vacuity of the IPad case: the generated EmberKeyStruct response schema is well formed, it is in
   the generated table, and the quirk does fire on a 24-byte remainder (the short form sent by old
   NCPs, which the encoder never produces): 12 zero bytes are spliced in at offset 7 *)
Definition key_struct_schema : schema :=
  [IP (PU 1); IPad 24 7 12; IP (PU 2); IP (PU 1); IFixed 16 [PU 1]; IP (PU 4); IP (PU 4); IP (PU 1);
   IFixed 8 [PU 1]].

Lemma key_struct_schema_wf : wf_schema key_struct_schema = true /\ In key_struct_schema SCHEMAS.
Proof. split; [vm_compute; reflexivity|]. vm_compute. tauto. Qed.

Lemma key_struct_quirk_fires :
  dec_item false (IPad 24 7 12) (repeat 1 24) = Some (XNone, repeat 1 7 ++ repeat 0 12 ++ repeat 1 17)
  /\ (exists vs, decode_schema key_struct_schema (0 :: repeat 1 24) = Some (vs, []))
  /\ decode_schema key_struct_schema (0 :: repeat 1 23) = None.
Proof.
  split; [vm_compute; reflexivity|]. split; [|vm_compute; reflexivity].
  eexists. vm_compute. reflexivity.
Qed.

(* ================================================================================================ *)
(* 7. headers                                                                                       *)
(* ================================================================================================ *)

Lemma land_byte (x : N) : x < 256 -> N.land x 0xFF = x.
Proof.
  intros H. change 0xFF with (N.ones 8). rewrite N.land_ones. apply N.mod_small. exact H.
Qed.

Lemma header_roundtrip : forall kind seq id h payload,
  seq < 256 -> header_tx kind seq id = Some h ->
  header_rx kind (h ++ payload) = Some (seq, id, payload).
Proof.
  intros kind seq id h payload Hseq Htx. unfold header_tx in Htx. unfold header_rx.
  destruct (kind =? 4).
  - destruct (id <? 256); [|discriminate Htx]. injection Htx as Hh. subst h.
    cbn [app]. rewrite (land_byte seq Hseq). reflexivity.
  - destruct (kind =? 5).
    + destruct ((id <? 256) && (seq <? 256)); [|discriminate Htx]. injection Htx as Hh. subst h.
      reflexivity.
    + destruct ((id <? 65536) && (seq <? 256)); [|discriminate Htx]. injection Htx as Hh. subst h.
      cbn [app]. f_equal. f_equal. f_equal. lia.
Qed.

Lemma header_layout : forall seq id, seq < 256 ->
  (id < 256 -> header_tx 4 seq id = Some [seq; 0x00; id]) /\
  (id < 256 -> header_tx 5 seq id = Some [seq; 0x00; 0xFF; 0x00; id]) /\
  (id < 65536 -> header_tx 8 seq id = Some [seq; 0x00; 0x01; id mod 256; id / 256]).
Proof.
  intros seq id Hseq. unfold header_tx.
  change (4 =? 4) with true. change (5 =? 4) with false. change (5 =? 5) with true.
  change (8 =? 4) with false. change (8 =? 5) with false. cbv iota.
  assert (Hs : (seq <? 256) = true) by lia.
  repeat split; intros Hid.
  - assert (Hi : (id <? 256) = true) by lia. rewrite Hi, (land_byte seq Hseq). reflexivity.
  - assert (Hi : (id <? 256) = true) by lia. rewrite Hi, Hs. reflexivity.
  - assert (Hi : (id <? 65536) = true) by lia. rewrite Hi, Hs. reflexivity.
Qed.

(* ================================================================================================ *)
(* 8. positional / keyword binding                                                                  *)
(* ================================================================================================ *)

Lemma kw_lookup_notin (A : Type) (key : string) (kw : list (string * A)) :
  ~ In key (map fst kw) -> kw_lookup A key kw = None.
Proof.
  induction kw as [|[k' v'] kw IH]; intros Hn; cbn [kw_lookup].
  - reflexivity.
  - cbn [map fst In] in Hn.
    destruct (String.eqb k' key) eqn:E.
    + apply String.eqb_eq in E. exfalso. apply Hn. left. exact E.
    + apply IH. intros Hin. apply Hn. right. exact Hin.
Qed.

Lemma kw_lookup_in (A : Type) (key : string) (v : A) (kw : list (string * A)) :
  NoDup (map fst kw) -> In (key, v) kw -> kw_lookup A key kw = Some v.
Proof.
  induction kw as [|[k' v'] kw IH]; intros Hnd Hin; cbn [kw_lookup].
  - contradiction.
  - cbn [map fst] in Hnd. inversion Hnd as [|x l Hnotin Hnd' Heq]. subst x l.
    destruct Hin as [Hin|Hin].
    + injection Hin as Hk Hv. subst k' v'. rewrite String.eqb_refl. reflexivity.
    + destruct (String.eqb k' key) eqn:E.
      * apply String.eqb_eq in E. subst k'. exfalso. apply Hnotin.
        apply in_map_iff. exists (key, v). split; [reflexivity|exact Hin].
      * exact (IH Hnd' Hin).
Qed.

Lemma bind_args_gen (A : Type) (kw : list (string * A)) :
  forall (keys : list string) (vs : list A) (k : nat),
  List.length vs = List.length keys ->
  (forall key v, In (key, v) (skipn k (combine keys vs)) -> kw_lookup A key kw = Some v) ->
  (forall key, In key (firstn k keys) -> kw_lookup A key kw = None) ->
  bind_args A keys (firstn k vs) kw = Some vs.
Proof.
  induction keys as [|key keys IH]; intros vs k Hlen Hkw Hpos; destruct vs as [|v vs];
    cbn [List.length] in Hlen; try discriminate Hlen.
  - destruct k; reflexivity.
  - injection Hlen as Hlen. destruct k as [|k].
    + cbn [firstn bind_args tl]. cbn [skipn combine] in Hkw.
      rewrite (Hkw key v (or_introl eq_refl)).
      change (@nil A) with (firstn 0 vs).
      rewrite (IH vs 0%nat Hlen).
      * reflexivity.
      * intros key' v' Hin. apply Hkw. right. exact Hin.
      * intros key' Hin. contradiction.
    + cbn [firstn bind_args tl]. cbn [skipn combine] in Hkw. cbn [firstn] in Hpos.
      rewrite (Hpos key (or_introl eq_refl)).
      rewrite (IH vs k Hlen).
      * reflexivity.
      * exact Hkw.
      * intros key' Hin. apply Hpos. right. exact Hin.
Qed.

Lemma In_skipn_aux (A : Type) : forall (k : nat) (l : list A) (x : A),
  In x (skipn k l) -> In x l.
Proof.
  induction k as [|k IH]; intros l x Hin; destruct l as [|y l]; cbn [skipn] in Hin;
    try exact Hin.
  right. exact (IH l x Hin).
Qed.

Lemma NoDup_firstn_skipn (A : Type) : forall (k : nat) (l : list A) (x : A),
  NoDup l -> In x (firstn k l) -> ~ In x (skipn k l).
Proof.
  induction k as [|k IH]; intros l x Hnd Hin; destruct l as [|y l]; cbn [firstn skipn] in *;
    try contradiction.
  inversion Hnd as [|y' l' Hnotin Hnd' Heq]. subst y' l'.
  destruct Hin as [Hin|Hin].
  - subst y. intros Hsk. apply Hnotin. apply (In_skipn_aux A k l x Hsk).
  - exact (IH l x Hnd' Hin).
Qed.

Lemma NoDup_skipn (A : Type) : forall (k : nat) (l : list A), NoDup l -> NoDup (skipn k l).
Proof.
  induction k as [|k IH]; intros l Hnd; destruct l as [|y l]; cbn [skipn]; try exact Hnd.
  inversion Hnd as [|y' l' Hnotin Hnd' Heq]. subst y' l'. exact (IH l Hnd').
Qed.

Lemma map_fst_combine (A B : Type) : forall (l : list A) (l' : list B),
  List.length l' = List.length l -> map fst (combine l l') = l.
Proof.
  induction l as [|x l IH]; intros l' Hlen; destruct l' as [|y l']; cbn [List.length] in Hlen;
    try discriminate Hlen; cbn [combine map fst].
  - reflexivity.
  - injection Hlen as Hlen. rewrite (IH l' Hlen). reflexivity.
Qed.

Lemma map_skipn (A B : Type) (f : A -> B) : forall (k : nat) (l : list A),
  map f (skipn k l) = skipn k (map f l).
Proof.
  induction k as [|k IH]; intros l; destruct l as [|y l]; cbn [skipn map]; try reflexivity.
  apply IH.
Qed.

Lemma positional_keyword : forall (A : Type) (keys : list string) (vs : list A) (k : nat) (kw : list (string * A)),
  NoDup keys -> List.length vs = List.length keys ->
  Permutation kw (skipn k (combine keys vs)) ->
  bind_args A keys (firstn k vs) kw = Some vs.
Proof.
  intros A keys vs k kw Hnd Hlen Hperm.
  assert (Hfst : Permutation (map fst kw) (skipn k keys)).
  { rewrite <- (map_fst_combine _ _ keys vs Hlen) at 1. rewrite <- map_skipn.
    apply Permutation_map. exact Hperm. }
  assert (Hndkw : NoDup (map fst kw)).
  { apply (Permutation_NoDup (Permutation_sym Hfst)). apply NoDup_skipn. exact Hnd. }
  apply bind_args_gen.
  - exact Hlen.
  - intros key v Hin. apply kw_lookup_in.
    + exact Hndkw.
    + apply (Permutation_in _ (Permutation_sym Hperm)). exact Hin.
  - intros key Hin. apply kw_lookup_notin. intros Hk.
    apply (NoDup_firstn_skipn _ k keys key Hnd Hin).
    apply (Permutation_in _ Hfst). exact Hk.
Qed.

(* ================================================================================================ *)
(* 9. the generated tables                                                                          *)
(* ================================================================================================ *)

Definition version_ok (v : N) : Prop := In v (map fst COMMANDS).

Definition table_ok (v : N) : Prop :=
  let cs := commands_of v in
  NoDup (map c_id cs) /\ NoDup (map c_name cs)
  /\ (forall c, In c cs -> c_id c < id_limit (kind_of v)
                           /\ wf_schema (schema_at SCHEMAS (c_rx c)) = true)
  /\ kind_of v = (if v =? 4 then 4 else if v <? 8 then 5 else 8).

Section NoDupB.
  Variable A : Type.
  Variable eqb : A -> A -> bool.
  Hypothesis eqb_eq : forall x y, eqb x y = true <-> x = y.

  Fixpoint memb (x : A) (l : list A) : bool :=
    match l with [] => false | y :: l' => eqb y x || memb x l' end.
  Fixpoint nodupb (l : list A) : bool :=
    match l with [] => true | x :: l' => negb (memb x l') && nodupb l' end.

  Lemma memb_false (x : A) (l : list A) : memb x l = false -> ~ In x l.
  Proof.
    induction l as [|y l IH]; intros Hm Hin; cbn [memb In] in *.
    - exact Hin.
    - apply orb_false_iff in Hm. destruct Hm as [Hy Hl]. destruct Hin as [Hin|Hin].
      + apply eqb_eq in Hin. rewrite Hin in Hy. discriminate Hy.
      + exact (IH Hl Hin).
  Qed.

  Lemma nodupb_sound (l : list A) : nodupb l = true -> NoDup l.
  Proof.
    induction l as [|x l IH]; intros H; cbn [nodupb] in H.
    - constructor.
    - apply andb_true_iff in H. destruct H as [Hx Hl]. apply negb_true_iff in Hx.
      constructor; [exact (memb_false x l Hx)|exact (IH Hl)].
  Qed.
End NoDupB.

Definition cmds_okb (schemas : list schema) (kind : N) (cs : list command) : bool :=
  nodupb N N.eqb (map c_id cs) && nodupb string String.eqb (map c_name cs)
  && forallb (fun c => (c_id c <? id_limit kind) && wf_schema (schema_at schemas (c_rx c))) cs.

Lemma cmds_okb_sound (schemas : list schema) (kind : N) (cs : list command) :
  cmds_okb schemas kind cs = true ->
  NoDup (map c_id cs) /\ NoDup (map c_name cs)
  /\ (forall c, In c cs -> c_id c < id_limit kind /\ wf_schema (schema_at schemas (c_rx c)) = true).
Proof.
  intros H. unfold cmds_okb in H. apply andb_true_iff in H. destruct H as [H H3].
  apply andb_true_iff in H. destruct H as [H1 H2]. repeat split.
  - exact (nodupb_sound N N.eqb N.eqb_eq _ H1).
  - exact (nodupb_sound string String.eqb String.eqb_eq _ H2).
  - rewrite forallb_forall in H3. specialize (H3 c H). apply andb_true_iff in H3.
    destruct H3 as [H3 _]. apply N.ltb_lt. exact H3.
  - rewrite forallb_forall in H3. specialize (H3 c H). apply andb_true_iff in H3.
    destruct H3 as [_ H3]. exact H3.
Qed.

Definition table_okb (v : N) : bool :=
  cmds_okb SCHEMAS (kind_of v) (commands_of v)
  && (kind_of v =? (if v =? 4 then 4 else if v <? 8 then 5 else 8)).

Lemma table_okb_sound (v : N) : table_okb v = true -> table_ok v.
Proof.
  intros H. unfold table_okb in H. apply andb_true_iff in H. destruct H as [H1 H2].
  apply N.eqb_eq in H2. apply cmds_okb_sound in H1. destruct H1 as [Ha [Hb Hc]].
  unfold table_ok. cbv zeta. repeat split.
  - exact Ha.
  - exact Hb.
  - exact (proj1 (Hc c H)).
  - exact (proj2 (Hc c H)).
  - exact H2.
Qed.

Lemma versions_list : map fst COMMANDS = [4; 5; 6; 7; 8; 9; 10; 11; 12; 13; 14].
Proof. vm_compute. reflexivity. Qed.

Lemma tables_ok : forall v, version_ok v -> table_ok v.
Proof.
  intros v Hv. unfold version_ok in Hv. rewrite versions_list in Hv.
  apply table_okb_sound. cbn [In] in Hv.
  destruct Hv as [Hv|[Hv|[Hv|[Hv|[Hv|[Hv|[Hv|[Hv|[Hv|[Hv|[Hv|Hv]]]]]]]]]]];
    [subst v; vm_compute; reflexivity ..|contradiction].
Qed.

(* ================================================================================================ *)
(* 10. whole frames                                                                                 *)
(* ================================================================================================ *)

Lemma find_by_id_in : forall (cs : list command) (c : command),
  NoDup (map c_id cs) -> In c cs -> find_by_id (c_id c) cs = Some c.
Proof.
  induction cs as [|c' cs IH]; intros c Hnd Hin; cbn [find_by_id].
  - contradiction.
  - cbn [map] in Hnd. inversion Hnd as [|x l Hnotin Hnd' Heq]. subst x l.
    destruct Hin as [Hin|Hin].
    + subst c'. rewrite N.eqb_refl. reflexivity.
    + destruct (c_id c' =? c_id c) eqn:E.
      * apply N.eqb_eq in E. exfalso. apply Hnotin. rewrite E. apply in_map. exact Hin.
      * exact (IH c Hnd' Hin).
Qed.

Lemma frame_roundtrip : forall v c seq vs frame,
  version_ok v -> In c (commands_of v) -> seq < 256 ->
  frame_rx_encode SCHEMAS (kind_of v) seq c vs = Some frame ->
  frame_rx_decode SCHEMAS (kind_of v) (commands_of v) frame = Some (seq, c, vs, []).
Proof.
  intros v c seq vs frame Hv Hin Hseq Henc.
  destruct (tables_ok v Hv) as [Hids [_ [Hall _]]].
  destruct (Hall c Hin) as [_ Hwf].
  unfold frame_rx_encode in Henc.
  destruct (header_tx (kind_of v) seq (c_id c)) as [h|] eqn:Hh; [|discriminate Henc].
  destruct (encode_schema (schema_at SCHEMAS (c_rx c)) vs) as [b|] eqn:Hb; [|discriminate Henc].
  injection Henc as Hframe. subst frame.
  unfold frame_rx_decode.
  rewrite (header_roundtrip (kind_of v) seq (c_id c) h b Hseq Hh).
  rewrite (find_by_id_in (commands_of v) c Hids Hin).
  rewrite (roundtrip (schema_at SCHEMAS (c_rx c)) vs b Hwf Hb).
  reflexivity.
Qed.

Lemma request_layout : forall v c seq vs frame,
  version_ok v -> In c (commands_of v) -> seq < 256 ->
  frame_tx SCHEMAS (kind_of v) seq c vs = Some frame ->
  exists h args, header_tx (kind_of v) seq (c_id c) = Some h /\
                 encode_schema (schema_at SCHEMAS (c_tx c)) vs = Some args /\ frame = h ++ args.
Proof.
  intros v c seq vs frame Hv Hin Hseq Htx. unfold frame_tx in Htx.
  destruct (header_tx (kind_of v) seq (c_id c)) as [h|] eqn:Hh; [|discriminate Htx].
  destruct (encode_schema (schema_at SCHEMAS (c_tx c)) vs) as [b|] eqn:Hb; [|discriminate Htx].
  injection Htx as Hframe. subst frame.
  exists h, b. repeat split.
Qed.
