(* C05, the racing schedule -- the results of proofs/AshHost_proofs.v extended to runs in which NCP
   frames and the acknowledgement timeout fall into the same event-loop iteration
   (model/AshRace.v: [race_step], [rstep], [rrun]).

   One lemma carries everything: [race_spec].  A race step either does nothing (no send awaits an
   acknowledgement) or it applies the frames at the deadline and then closes the attempt with cause
   [CTimeout] in the sense of [closed] (AshHost_proofs.v), whatever the frames resolved the future
   to.  Every per-step theorem is then the corresponding [closed_*] lemma; the run-level theorems
   redo the inductions over [rrun] with the invariants GInv / TInv / AInv of AshHost_proofs.v.
   No float axioms: PrimFloat operations are never unfolded. *)
From Coq Require Import PrimFloat NArith List Bool Lia ZifyBool ZifyN Arith.
Import ListNotations.
Require Import BV.gen.GenAsh BV.model.AshCodec BV.model.AshRx BV.model.AshHost BV.model.AshRace
               BV.proofs.AshHost_proofs.
Open Scope N_scope.

(* ---- vocabulary ---------------------------------------------------------------------------------- *)
Definition routs (es : list revent) : list hout := concat (snd (rrun h_init es)).
Definition rfinal (es : list revent) : hstate := fst (rrun h_init es).
Definition rsubmits (es : list revent) : list N :=
  flat_map (fun e => match e with REv (Submit id _) => [id] | _ => [] end) es.
Definition rsubmits_unique (es : list revent) : Prop := NoDup (rsubmits es).

(* ---- runs ---------------------------------------------------------------------------------------- *)
Lemma rrun_app : forall es1 es2 st,
  rrun st (es1 ++ es2) =
  (fst (rrun (fst (rrun st es1)) es2),
   snd (rrun st es1) ++ snd (rrun (fst (rrun st es1)) es2)).
Proof.
  induction es1 as [|e es1 IH]; intros es2 st; cbn [rrun app].
  - cbn [fst snd app]. destruct (rrun st es2); reflexivity.
  - destruct (rstep st e) as [sa oa]. rewrite IH.
    destruct (rrun sa es1) as [sb ob]. cbn [fst snd].
    destruct (rrun sb es2) as [sc oc]. reflexivity.
Qed.

Lemma rfinal_snoc : forall es e, rfinal (es ++ [e]) = fst (rstep (rfinal es) e).
Proof.
  intros es e. unfold rfinal. rewrite rrun_app. cbn [fst rrun].
  destruct (rstep (fst (rrun h_init es)) e); reflexivity.
Qed.

Lemma routs_snoc : forall es e, routs (es ++ [e]) = routs es ++ snd (rstep (rfinal es) e).
Proof.
  intros es e. unfold routs, rfinal. rewrite rrun_app. cbn [snd rrun].
  destruct (rstep (fst (rrun h_init es)) e) as [s o]. cbn [snd].
  rewrite concat_app. cbn [concat]. rewrite app_nil_r. reflexivity.
Qed.

Lemma rsubmits_snoc : forall es e,
  rsubmits (es ++ [e]) = rsubmits es ++ match e with REv (Submit id _) => [id] | _ => [] end.
Proof.
  intros es e. unfold rsubmits. rewrite flat_map_app. cbn [flat_map]. rewrite app_nil_r. reflexivity.
Qed.

Lemma rfinal_nil : rfinal [] = h_init. Proof. reflexivity. Qed.
Lemma routs_nil : routs [] = []. Proof. reflexivity. Qed.

(* ---- the race step ------------------------------------------------------------------------------- *)
(* the state in which the timeout fires: the clock at the deadline, the frames applied *)
Definition at_deadline (st : hstate) (c : cur_send) (fs : list frame) : hstate * list hout :=
  apply_frames (set_now st (cdeadline c)) fs.

Lemma at_deadline_misc : forall st c fs,
  now (fst (at_deadline st c fs)) = cdeadline c /\ waiters (fst (at_deadline st c fs)) = waiters st /\
  cancelled (fst (at_deadline st c fs)) = cancelled st.
Proof.
  intros st c fs. unfold at_deadline.
  destruct (afs_misc fs (set_now st (cdeadline c))) as (K1 & K2 & K3 & _).
  rewrite K1, K2, K3. repeat split; reflexivity.
Qed.

Lemma at_deadline_out : forall st c fs, nodata (snd (at_deadline st c fs)).
Proof. intros st c fs. apply rxonly_nodata. apply afs_out. Qed.

Lemma race_spec : forall st fs,
  (race_step st fs = (st, []) /\
   (cur st = None \/ exists c, cur st = Some c /\ cfut c <> FPending))
  \/ (exists c y ta r,
        cur st = Some c /\ cfut c = FPending /\ in_bounds ta /\
        fut_tr (fun P => exists f, In f fs /\ P f) c y /\
        cur (fst (at_deadline st c fs)) = Some (set_fut c y) /\
        closed (set_t (fst (at_deadline st c fs)) ta) (set_fut c y) CTimeout r /\
        race_step st fs = (fst r, snd (at_deadline st c fs) ++ snd r)).
Proof.
  intros st fs. unfold race_step. destruct (cur st) as [c|] eqn:Hc.
  2:{ left. split; [reflexivity|left; reflexivity]. }
  destruct (cfut c) eqn:Hfu.
  2,3,4: left; split; [reflexivity|]; right; exists c; split; [reflexivity|rewrite Hfu; discriminate].
  right.
  assert (Hc0 : cur (set_now st (cdeadline c)) = Some c) by exact Hc.
  destruct (afs_cur fs _ c Hc0) as (y & Htr & Hc1).
  fold (at_deadline st c fs) in Hc1.
  exists c, y, (on_timeout (t_ack (fst (at_deadline st c fs)))),
    (retry_or_fail (set_t (fst (at_deadline st c fs)) (on_timeout (t_ack (fst (at_deadline st c fs)))))
                   (set_fut c y) OTimeout).
  split; [reflexivity|]. split; [exact Hfu|]. split; [apply on_timeout_in_bounds|].
  split; [exact Htr|]. split; [exact Hc1|]. split.
  - apply retry_closed; [right; reflexivity|discriminate].
  - unfold at_deadline in *.
    destruct (apply_frames (set_now st (cdeadline c)) fs) as [s1 o1]. cbn [fst snd] in *.
    rewrite Hc1.
    destruct (retry_or_fail (set_t s1 (on_timeout (t_ack s1))) (set_fut c y) OTimeout) as [s3 o3].
    reflexivity.
Qed.

Lemma no_rst_frames : forall fs, (forall f, In f fs -> ~ is_rstack_or_rst f) ->
  ~ has_frame is_rstack_or_rst (Frames fs).
Proof. intros fs H (f & Hf & Hr). exact (H f Hf Hr). Qed.

(* ---- invariants of runs with race steps ---------------------------------------------------------- *)
Lemma race_ginv : forall st fs, GInv st -> GInv (fst (race_step st fs)).
Proof.
  intros st fs HG.
  destruct (race_spec st fs) as [[E _]|(c & y & ta & r & Hc & Hfu & Hta & Htr & Hc1 & Hcl & Heq)].
  - rewrite E. exact HG.
  - rewrite Heq. cbn [fst]. exact (closed_ginv _ _ _ _ Hcl).
Qed.

Lemma rstep_ginv : forall st e, GInv st -> GInv (fst (rstep st e)).
Proof. intros st [e|fs] HG; cbn [rstep]; [apply step_ginv|apply race_ginv]; exact HG. Qed.

Lemma rginv_reachable : forall es, GInv (rfinal es).
Proof.
  induction es as [|e es IH] using rev_ind.
  - unfold GInv, quiescent. rewrite rfinal_nil. cbn [h_init cur waiters failed].
    split; [intros c H; discriminate|]. split; [reflexivity|intro H; discriminate].
  - rewrite rfinal_snoc. apply rstep_ginv. exact IH.
Qed.

Lemma race_tinv : forall st fs, TInv st -> TInv (fst (race_step st fs)).
Proof.
  intros st fs HT.
  destruct (race_spec st fs) as [[E _]|(c & y & ta & r & Hc & Hfu & Hta & Htr & Hc1 & Hcl & Heq)].
  - rewrite E. exact HT.
  - rewrite Heq. cbn [fst]. exact (closed_tinv _ _ _ _ Hcl Hta).
Qed.

Lemma rstep_tinv : forall st e, TInv st -> TInv (fst (rstep st e)).
Proof. intros st [e|fs] HT; cbn [rstep]; [apply step_tinv|apply race_tinv]; exact HT. Qed.

Lemma rtinv_reachable : forall es, TInv (rfinal es).
Proof.
  induction es as [|e es IH] using rev_ind.
  - split; [exact init_in_bounds|]. intros c H. discriminate.
  - rewrite rfinal_snoc. apply rstep_tinv. exact IH.
Qed.

(* 2 *)
Theorem race_timeout_bounds : forall es, in_bounds (t_ack (rfinal es)).
Proof. intro es. apply rtinv_reachable. Qed.

(* 3 *)
Theorem race_deadline : forall es c, cur (rfinal es) = Some c ->
  exists t, in_bounds t /\ cdeadline c = PrimFloat.add (csent c) t.
Proof. intros es c Hc. destruct (rtinv_reachable es) as [_ H]. exact (H c Hc). Qed.

(* 4 *)
Theorem race_quiescent : forall es, quiescent (rfinal es).
Proof. intro es. apply rginv_reachable. Qed.

(* 9 *)
Theorem race_failed_nothing_waiting : forall es,
  failed (rfinal es) = true -> cur (rfinal es) = None /\ waiters (rfinal es) = [].
Proof.
  intros es Hf. destruct (rginv_reachable es) as (_ & Hw & Hc).
  split; [exact (Hc Hf)|exact (Hw (Hc Hf))].
Qed.

(* ---- an acknowledgement that races the timeout does not complete the send ------------------------ *)
(* 5 *)
Theorem race_never_ok : forall st fs id, quiescent st -> ~ In (HDone id OOk) (snd (race_step st fs)).
Proof.
  intros st fs id _ Hin.
  destruct (race_spec st fs) as [[E _]|(c & y & ta & r & Hc & Hfu & Hta & Htr & Hc1 & Hcl & Heq)].
  - rewrite E in Hin. destruct Hin.
  - rewrite Heq in Hin. cbn [snd] in Hin. apply in_app_or in Hin. destruct Hin as [Hin|Hin].
    + pose proof (afs_out fs _ _ Hin) as H. destruct H.
    + destruct (closed_ok _ _ _ _ _ Hcl Hin) as [Ek _]. discriminate.
Qed.

(* 6 *)
Theorem race_ok_needs_ack : forall es e id, rsubmits_unique es ->
  In (HDone id OOk) (snd (rstep (rfinal es) e)) ->
  exists c e0, e = REv e0 /\ cur (rfinal es) = Some c /\ cid c = id /\
               has_frame (acks ((cfrm c + 1) mod 8)) e0.
Proof.
  intros es e id _ Hin. destruct e as [e0|fs]; cbn [rstep] in Hin.
  - destruct (ok_needs_ack_gen _ _ _ (race_quiescent es) Hin) as (c & Hc & Hid & Hf).
    exists c, e0. split; [reflexivity|]. split; [exact Hc|]. split; [exact Hid|exact Hf].
  - exfalso. exact (race_never_ok _ _ _ (race_quiescent es) Hin).
Qed.

(* ---- a repeat written by a race step is the timeout's ------------------------------------------- *)
(* 7 *)
Theorem race_repeat_is_timeout : forall st fs id frm ack p t, quiescent st ->
  In (HData id frm 1 ack p t) (snd (race_step st fs)) ->
  exists c, cur st = Some c /\ cid c = id /\ cfrm c = frm /\ t = cdeadline c.
Proof.
  intros st fs id frm ack p t _ Hin.
  destruct (race_spec st fs) as [[E _]|(c & y & ta & r & Hc & Hfu & Hta & Htr & Hc1 & Hcl & Heq)].
  - rewrite E in Hin. destruct Hin.
  - rewrite Heq in Hin. cbn [snd] in Hin. apply in_app_or in Hin. destruct Hin as [Hin|Hin].
    { exfalso. revert Hin. apply nodata_notin. apply at_deadline_out. }
    destruct (at_deadline_misc st c fs) as (Kn & _ & _).
    exists c. split; [exact Hc|].
    destruct Hcl as [pre o oF fl Hpre Ho HoF Hfl Hw|o id' p' ws Ho Hk Hf Hw|Hk Hf Hlt]; cbn [fst snd] in *.
    + exfalso. revert Hin. apply nodata_notin. eapply closed_flush_nodata; eassumption.
    + apply in_done_data in Hin. discriminate.
    + unfold transmit in Hin. cbn [snd] in Hin. destruct Hin as [Hin|[]].
      injection Hin as E1 E2 E3 E4 E5 E6.
      cbn [set_fut cid cfrm set_t now] in E1, E2, E6.
      split; [exact E1|]. split; [exact E2|]. rewrite <- E6. exact Kn.
Qed.

(* ---- a failed link stays silent ------------------------------------------------------------------ *)
(* 8 *)
Theorem race_failed_silent : forall st fs, failed st = true ->
  (forall f, In f fs -> ~ is_rstack_or_rst f) ->
  failed (fst (race_step st fs)) = true /\
  (forall id frm re ack p t, ~ In (HData id frm re ack p t) (snd (race_step st fs))).
Proof.
  intros st fs Hf Hn. apply no_rst_frames in Hn.
  assert (H : failed (fst (race_step st fs)) = true /\ nodata (snd (race_step st fs))).
  { destruct (race_spec st fs) as [[E _]|(c & y & ta & r & Hc & Hfu & Hta & Htr & Hc1 & Hcl & Heq)].
    - rewrite E. split; [exact Hf|exact nodata_nil].
    - rewrite Heq. cbn [fst snd].
      assert (Hf1 : failed (set_t (fst (at_deadline st c fs)) ta) = true).
      { cbn [set_t failed]. unfold at_deadline. apply afs_failed_true; [exact Hn|exact Hf]. }
      destruct (closed_failed _ _ _ _ Hcl Hf1) as [H1 H2]. split; [exact H1|].
      apply nodata_app; [apply at_deadline_out|exact H2]. }
  destruct H as [H1 H2]. split; [exact H1|].
  intros id frm re ack p t. apply nodata_notin. exact H2.
Qed.

(* ---- ERROR frames are reported ------------------------------------------------------------------- *)
(* 10 *)
Theorem race_error_reported : forall st fs v code, In (Error v code) fs ->
  (exists c, cur st = Some c /\ cfut c = FPending) ->
  In (HReset code) (snd (race_step st fs)).
Proof.
  intros st fs v code Hin (c0 & Hc0 & Hp0).
  destruct (race_spec st fs) as [[_ [Hn|(c & Hc & Hnp)]]|(c & y & ta & r & Hc & Hfu & Hta & Htr & Hc1 & Hcl & Heq)].
  - congruence.
  - congruence.
  - rewrite Heq. cbn [snd]. apply in_or_app. left. unfold at_deadline. eapply afs_error. exact Hin.
Qed.

(* ---- the window of one --------------------------------------------------------------------------- *)
(* 11 *)
Theorem race_window : forall st fs id frm re ack p t,
  In (HData id frm re ack p t) (snd (race_step st fs)) ->
  (exists c, cur (fst (race_step st fs)) = Some c /\ cid c = id /\ cfrm c = frm /\ cpayload c = p /\
             cfut c = FPending)
  /\ length (filter (fun o => match o with HData _ _ _ _ _ _ => true | _ => false end)
                    (snd (race_step st fs))) = 1%nat.
Proof.
  intros st fs id frm re ack p t.
  change (fun o => match o with HData _ _ _ _ _ _ => true | _ => false end) with isD.
  intro Hin.
  destruct (race_spec st fs) as [[E _]|(c & y & ta & r & Hc & Hfu & Hta & Htr & Hc1 & Hcl & Heq)].
  - rewrite E in Hin. destruct Hin.
  - rewrite Heq in Hin |- *. cbn [fst snd] in Hin |- *.
    apply in_app_or in Hin. destruct Hin as [Hin|Hin].
    { exfalso. revert Hin. apply nodata_notin. apply at_deadline_out. }
    destruct (closed_window _ _ _ _ _ _ _ _ _ _ Hcl Hin) as (H1 & H2 & _).
    split; [exact H1|].
    rewrite filter_app, (filter_nodata _ (at_deadline_out st c fs)). exact H2.
Qed.

(* ---- first transmissions take consecutive frame numbers ----------------------------------------- *)
(* 12 *)
Theorem race_consecutive : forall st fs id frm ack p t,
  (forall f, In f fs -> ~ is_rstack_or_rst f) ->
  In (HData id frm 0 ack p t) (snd (race_step st fs)) ->
  frm = tx_seq st /\ tx_seq (fst (race_step st fs)) = (frm + 1) mod 8.
Proof.
  intros st fs id frm ack p t Hn Hin. apply no_rst_frames in Hn.
  destruct (race_spec st fs) as [[E _]|(c & y & ta & r & Hc & Hfu & Hta & Htr & Hc1 & Hcl & Heq)].
  - rewrite E in Hin. destruct Hin.
  - rewrite Heq in Hin |- *. cbn [fst snd] in Hin |- *.
    apply in_app_or in Hin. destruct Hin as [Hin|Hin].
    { exfalso. revert Hin. apply nodata_notin. apply at_deadline_out. }
    destruct (closed_consecutive _ _ _ _ _ _ _ _ _ Hcl Hin) as (H1 & H2).
    cbn [set_t tx_seq] in H1. unfold at_deadline in H1.
    rewrite (afs_tx fs _ Hn) in H1. cbn [set_now tx_seq] in H1. split; assumption.
Qed.

(* ---- upward reports: one per ERROR frame, one per RSTACK frame, at most one for the budget ------ *)
Definition isER (f : frame) : bool := match f with Error _ _ | Rstack _ _ => true | _ => false end.

Lemma af_resets : forall st f,
  length (filter isR (snd (apply_frame st f))) = if isER f then 1%nat else 0%nat.
Proof.
  intros st f. rewrite apply_frame_eq. cbn [snd].
  destruct f as [frm re a p|res nr a|res nr a| |v code|v code]; cbn [rx_frame isER].
  - destruct (frm =? rx_seq st); [reflexivity|]. destruct (negb (re =? 0)); reflexivity.
  - reflexivity.
  - reflexivity.
  - reflexivity.
  - reflexivity.
  - reflexivity.
Qed.

Lemma afs_resets : forall fs st,
  length (filter isR (snd (apply_frames st fs))) = length (filter isER fs).
Proof.
  induction fs as [|f fs IH]; intro st; [reflexivity|].
  rewrite apply_frames_cons. cbn [snd filter]. rewrite filter_app, app_length, af_resets, IH.
  destruct (isER f); reflexivity.
Qed.

Lemma closed_resets : forall s c r, closed s c CTimeout r -> (length (filter isR (snd r)) <= 1)%nat.
Proof.
  intros s c r Hcl.
  destruct Hcl as [pre o oF fl Hpre Ho HoF Hfl Hw|o id p ws Ho Hk Hf Hw|Hk Hf Hlt]; cbn [snd].
  - rewrite !filter_app, done_out_noreset, (alldone_noreset _ HoF).
    destruct Hpre as [E|[E _]]; subst pre; cbn; lia.
  - rewrite filter_app, done_out_noreset. cbn. lia.
  - cbn. lia.
Qed.

(* 13 *)
Theorem race_reports_bounded : forall st fs,
  (length (filter (fun o => match o with HReset _ => true | _ => false end) (snd (race_step st fs)))
   <= length (filter (fun f => match f with Error _ _ | Rstack _ _ => true | _ => false end) fs) + 1)%nat.
Proof.
  intros st fs.
  change (fun o => match o with HReset _ => true | _ => false end) with isR.
  change (fun f => match f with Error _ _ | Rstack _ _ => true | _ => false end) with isER.
  destruct (race_spec st fs) as [[E _]|(c & y & ta & r & Hc & Hfu & Hta & Htr & Hc1 & Hcl & Heq)].
  - rewrite E. cbn [snd filter length]. lia.
  - rewrite Heq. cbn [snd]. rewrite filter_app, app_length. unfold at_deadline. rewrite afs_resets.
    pose proof (closed_resets _ _ _ Hcl). lia.
Qed.

(* ---- the retry budget over runs with race steps -------------------------------------------------- *)
Definition rsub_of (e : revent) : list (N * list N) :=
  match e with REv e0 => sub_of e0 | RRace _ => [] end.

Lemma race_trans : forall st fs,
  trans (cur st) (waiters st)
        (cur (fst (race_step st fs))) (waiters (fst (race_step st fs))) (snd (race_step st fs)).
Proof.
  intros st fs.
  destruct (race_spec st fs) as [[E _]|(c & y & ta & r & Hc & Hfu & Hta & Htr & Hc1 & Hcl & Heq)].
  - rewrite E. cbn [fst snd]. apply T_keep; [exact nodata_nil|apply cur_same_refl].
  - rewrite Heq. cbn [fst snd]. rewrite Hc. apply trans_pre; [apply at_deadline_out|].
    destruct (at_deadline_misc st c fs) as (_ & Kw & _). rewrite <- Kw.
    apply (closed_trans _ _ _ _ c Hcl); reflexivity.
Qed.

Lemma rstep_trans : forall st e, (cur st = None -> waiters st = []) ->
  trans (cur st) (waiters st ++ rsub_of e)
        (cur (fst (rstep st e))) (waiters (fst (rstep st e))) (snd (rstep st e)).
Proof.
  intros st [e|fs] Hw; cbn [rstep rsub_of].
  - apply step_trans. exact Hw.
  - rewrite app_nil_r. apply race_trans.
Qed.

Lemma race_attempts_inv : forall es, rsubmits_unique es ->
  AInv (rsubmits es) (routs es) (cur (rfinal es)) (waiters (rfinal es)).
Proof.
  induction es as [|e es IH] using rev_ind; intro Hu.
  - rewrite rfinal_nil, routs_nil. cbn [h_init cur waiters rsubmits flat_map].
    constructor; cbn [curid map app].
    + constructor.
    + intros id [].
    + intros id _. reflexivity.
    + intros id [].
    + intros c H. discriminate.
    + intro id. exists 0, [], 0%nat. split; [lia|reflexivity].
  - unfold rsubmits_unique in Hu. rewrite rsubmits_snoc in Hu.
    assert (Hu0 : rsubmits_unique es) by (apply NoDup_app_l in Hu; exact Hu).
    specialize (IH Hu0).
    destruct (rginv_reachable es) as (_ & Hw & _).
    pose proof (rstep_trans (rfinal es) e Hw) as Htr.
    rewrite rfinal_snoc, routs_snoc, rsubmits_snoc.
    destruct e as [[id p|fs| |t|id]|fs]; cbn [rsub_of sub_of] in Htr; rewrite ?app_nil_r in Htr |- *;
      try (eapply ainv_trans; [exact IH|exact Htr]).
    eapply ainv_trans; [|exact Htr]. apply ainv_enqueue; [exact IH|].
    apply NoDup_remove_2 in Hu. rewrite app_nil_r in Hu. exact Hu.
Qed.

(* 1 *)
Theorem race_attempts : forall es id, rsubmits_unique es ->
  exists frm p n, (n <= N.to_nat ACK_TIMEOUTS)%nat /\
    datas id (routs es) = map (fun k => (frm, if Nat.eqb k 0 then 0 else 1, p)) (seq 0 n).
Proof. intros es id Hu. exact (a_shape _ _ _ _ (race_attempts_inv es Hu) id). Qed.

(* ---- non-vacuity: the covering ACK arrives in the iteration of the timeout; the frame is
        retransmitted all the same and nothing completes; the next ACK completes the send --------- *)
Example race_example :
  let es := [REv (Submit 7 [1; 2]); RRace [Ack 0 0 1]; REv (Frames [Ack 0 0 1])] in
  exists t,
    In (HData 7 0 1 0 [1; 2] t) (nth 1 (snd (rrun h_init es)) [])
    /\ (forall id o, ~ In (HDone id o) (nth 1 (snd (rrun h_init es)) []))
    /\ In (HDone 7 OOk) (nth 2 (snd (rrun h_init es)) []).
Proof.
  exists (PrimFloat.add 0%float T_RX_ACK_INIT_F). vm_compute.
  split; [left; reflexivity|]. split; [|left; reflexivity].
  intros id o [H|[]]. discriminate.
Qed.
