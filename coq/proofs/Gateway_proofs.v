(* Proofs for props/C10.v and props/C11.v: the Gateway reset handshake and the failure handling of
   the EZSP facade (model/Gateway.v).

   Method: [handle_up] is first put in closed form ([handle_up_spec]: every field of the new state
   and the outputs as explicit conditionals on the old fields), by exhaustion over the finite part
   of the state.  Everything about batches is then an induction on the list of upward calls using
   that closed form only; [settle] likewise gets a closed form ([settle_fields], [settle_snd]). *)
From Coq Require Import NArith List Bool.
Import ListNotations.
Require Import BV.gen.GenAsh BV.gen.GenProto BV.model.AshCodec BV.model.AshRx BV.model.AshHost
               BV.model.EzspProto BV.model.Gateway.
Open Scope N_scope.

(* ---- vocabulary of props/C10.v and props/C11.v ------------------------------------------------- *)
Definition gfinal (es : list gevent) : gstate := fst (grun g_init es).
Definition gouts (es : list gevent) : list gout := concat (snd (grun g_init es)).
Definition request_pending (st : gstate) : Prop :=
  r_waiting st = true /\ r_fut st = FPend /\ r_attr st = true.
Definition startup_pending (st : gstate) : Prop :=
  s_waiting st = true /\ s_fut st = FPend /\ s_attr st = true.
(* between two events no future is resolved-but-unconsumed, and for each of the two waits
   "attribute set", "future pending" and "a caller is suspended on it" coincide *)
Definition quiet (st : gstate) : Prop :=
  (r_fut st = FNone \/ r_fut st = FPend) /\ (s_fut st = FNone \/ s_fut st = FPend) /\
  (r_waiting st = true <-> r_fut st = FPend) /\ (s_waiting st = true <-> s_fut st = FPend) /\
  (r_attr st = true <-> r_fut st = FPend) /\ (s_attr st = true <-> s_fut st = FPend).
Definition is_failure (u : up) : Prop :=
  match u with UReset code => code <> RESET_SOFTWARE | ULost b => b = true | UEof => True end.
(* the facade releases the gateway only by closing it: no gateway, no open transport *)
Definition gw_owns_transport (st : gstate) : Prop := e_has_gw st = false -> t_open st = false.

(* ---- small helpers ------------------------------------------------------------------------------ *)
Definition failb (u : up) : bool :=
  match u with UReset c => negb (c =? RESET_SOFTWARE) | ULost b => b | UEof => true end.
Definition lossb (u : up) : bool := match u with UReset _ => false | _ => true end.
Definition softb (u : up) : bool := match u with UReset c => c =? RESET_SOFTWARE | _ => false end.
Definition is_res (f : fstate) : bool :=
  match f with FOk | FExn | FCancelled => true | _ => false end.
Definition rp (st : gstate) : bool := r_attr st && is_pend (r_fut st).
Definition sp (st : gstate) : bool := s_attr st && is_pend (s_fut st).

Ltac brk st := destruct st as [ra rf rw rj sa sf sw op er hg cb].

Lemma is_failure_failb : forall u, is_failure u <-> failb u = true.
Proof.
  intros u. destruct u as [code|b|]; cbn [is_failure failb].
  - rewrite negb_true_iff, N.eqb_neq. reflexivity.
  - reflexivity.
  - split; intros _; [reflexivity|exact I].
Qed.

Lemma softb_true : forall u, softb u = true -> u = UReset RESET_SOFTWARE.
Proof.
  intros u Hs. destruct u as [code|b|]; cbn [softb] in Hs; try discriminate Hs.
  apply N.eqb_eq in Hs. rewrite Hs. reflexivity.
Qed.

Lemma softb_not_in : forall u l, ~ In (UReset RESET_SOFTWARE) (u :: l) ->
  softb u = false /\ ~ In (UReset RESET_SOFTWARE) l.
Proof.
  intros u l Hn. split.
  - destruct (softb u) eqn:Es; [|reflexivity]. apply softb_true in Es. elim Hn. left. exact Es.
  - intros Hin. apply Hn. right. exact Hin.
Qed.

Lemma loss_lossb : forall u, (u = UEof \/ exists b, u = ULost b) -> lossb u = true.
Proof. intros u [Hu|[b Hu]]; rewrite Hu; reflexivity. Qed.

Lemma rp_true : forall st, rp st = true -> r_attr st = true /\ r_fut st = FPend.
Proof.
  intros st H. unfold rp in H. apply andb_true_iff in H. destruct H as [Ha Hp]. split; [exact Ha|].
  destruct (r_fut st); try discriminate Hp. reflexivity.
Qed.
Lemma sp_true : forall st, sp st = true -> s_attr st = true /\ s_fut st = FPend.
Proof.
  intros st H. unfold sp in H. apply andb_true_iff in H. destruct H as [Ha Hp]. split; [exact Ha|].
  destruct (s_fut st); try discriminate Hp. reflexivity.
Qed.
Lemma rp_intro : forall st, r_attr st = true -> r_fut st = FPend -> rp st = true.
Proof. intros st Ha Hf. unfold rp. rewrite Ha, Hf. reflexivity. Qed.
Lemma sp_intro : forall st, s_attr st = true -> s_fut st = FPend -> sp st = true.
Proof. intros st Ha Hf. unfold sp. rewrite Ha, Hf. reflexivity. Qed.
Lemma rp_false : forall st, r_fut st <> FPend -> rp st = false.
Proof.
  intros st H. unfold rp. destruct (r_fut st); try (apply andb_false_r). elim H. reflexivity.
Qed.
Lemma sp_false : forall st, s_fut st <> FPend -> sp st = false.
Proof.
  intros st H. unfold sp. destruct (s_fut st); try (apply andb_false_r). elim H. reflexivity.
Qed.
Lemma is_res_not_pend : forall f, is_res f = true -> f <> FPend.
Proof. intros f H E. rewrite E in H. discriminate H. Qed.

(* ---- handle_up in closed form --------------------------------------------------------------------- *)
Lemma handle_up_spec : forall st u,
  let st' := fst (handle_up st u) in
  let fails := e_app_cb st && failb u in
  r_attr st' = (if lossb u then false else r_attr st) /\
  r_fut st' = (if rp st then (if softb u then FOk else if lossb u then FExn else FPend) else r_fut st) /\
  r_waiting st' = r_waiting st /\ r_joined st' = r_joined st /\
  s_attr st' = s_attr st /\
  s_fut st' = (if sp st then (if softb u && negb (rp st) then FOk else if lossb u then FExn else FPend)
               else s_fut st) /\
  s_waiting st' = s_waiting st /\
  t_open st' = (if fails && e_has_gw st then false else t_open st) /\
  e_running st' = (if fails then false else e_running st) /\
  e_has_gw st' = (if fails then false else e_has_gw st) /\
  e_app_cb st' = e_app_cb st /\
  snd (handle_up st u) =
    (if failb u then
       if e_app_cb st then GAppFailed :: (if e_has_gw st then [GTransportClose] else []) ++ [GResetRequest]
       else [GAppFailed]
     else []).
Proof.
  intros st u. brk st. cbv zeta. unfold rp, sp.
  destruct u as [code|b|]; unfold handle_up, softb, failb, lossb;
    [destruct (N.eqb_spec code RESET_SOFTWARE) as [Ecode|Ecode] | destruct b | ];
    destruct ra, rf, sa, sf, hg, cb; cbn; repeat split; reflexivity.
Qed.

Ltac spec st u :=
  let H := fresh "Hspec" in
  pose proof (handle_up_spec st u) as H; cbv zeta in H;
  destruct H as (Hra & Hrf & Hrw & Hrj & Hsa & Hsf & Hsw & Hop & Her & Hhg & Hcb & Hout).

Lemma handle_ups_fst_cons : forall st u l,
  fst (handle_ups st (u :: l)) = fst (handle_ups (fst (handle_up st u)) l).
Proof.
  intros st u l. cbn [handle_ups]. destruct (handle_up st u) as [st1 o1]. cbn [fst].
  destruct (handle_ups st1 l) as [st2 o2]. reflexivity.
Qed.
Lemma handle_ups_snd_cons : forall st u l,
  snd (handle_ups st (u :: l)) = snd (handle_up st u) ++ snd (handle_ups (fst (handle_up st u)) l).
Proof.
  intros st u l. cbn [handle_ups]. destruct (handle_up st u) as [st1 o1]. cbn [fst snd].
  destruct (handle_ups st1 l) as [st2 o2]. reflexivity.
Qed.

(* ---- settle in closed form ------------------------------------------------------------------------ *)
Definition r_done (st : gstate) : list gout :=
  if is_res (r_fut st) then
    (if r_waiting st then [GResetDone (res_of (r_fut st))] else [])
    ++ (match r_fut st with
        | FCancelled => []
        | _ => repeat (GResetDone (res_of (r_fut st))) (N.to_nat (r_joined st))
        end)
  else [].
Definition s_done (st : gstate) : list gout :=
  if is_res (s_fut st) then
    if s_waiting st then [GStartupDone (match s_fut st with FOk => true | _ => false end)] else []
  else [].

Lemma settle_snd : forall st, snd (settle st) = r_done st ++ s_done st.
Proof.
  intros st. brk st. unfold r_done, s_done. destruct rf, sf; cbn; rewrite ?app_nil_r; reflexivity.
Qed.

Lemma settle_fields : forall st,
  let st' := fst (settle st) in
  r_attr st' = (if is_res (r_fut st) then false else r_attr st) /\
  r_fut st' = (if is_res (r_fut st) then FNone else r_fut st) /\
  r_waiting st' = (if is_res (r_fut st) then false else r_waiting st) /\
  s_attr st' = (if is_res (s_fut st) then false else s_attr st) /\
  s_fut st' = (if is_res (s_fut st) then FNone else s_fut st) /\
  s_waiting st' = (if is_res (s_fut st) then false else s_waiting st) /\
  t_open st' = t_open st /\ e_running st' = e_running st /\ e_has_gw st' = e_has_gw st /\
  e_app_cb st' = e_app_cb st.
Proof.
  intros st. brk st. cbv zeta. destruct rf, sf, ra; cbn; repeat split; reflexivity.
Qed.

Ltac sfields st :=
  let H := fresh "Hsett" in
  pose proof (settle_fields st) as H; cbv zeta in H;
  destruct H as (Gra & Grf & Grw & Gsa & Gsf & Gsw & Gop & Ger & Ghg & Gcb).

Lemma in_r_done : forall st o, In o (r_done st) ->
  o = GResetDone (res_of (r_fut st)) /\ is_res (r_fut st) = true.
Proof.
  intros st o H. unfold r_done in H. destruct (is_res (r_fut st)) eqn:Er; [|destruct H].
  split; [|reflexivity]. apply in_app_or in H. destruct H as [H|H].
  - destruct (r_waiting st); [|destruct H]. destruct H as [H|[]]. symmetry. exact H.
  - destruct (r_fut st); try (apply repeat_spec in H; exact H). destruct H.
Qed.

Lemma in_s_done : forall st o, In o (s_done st) -> exists b, o = GStartupDone b.
Proof.
  intros st o H. unfold s_done in H. destruct (is_res (s_fut st)); [|destruct H].
  destruct (s_waiting st); [|destruct H]. destruct H as [H|[]]. eexists. symmetry. exact H.
Qed.

Lemma r_done_waiting : forall st, is_res (r_fut st) = true -> r_waiting st = true ->
  In (GResetDone (res_of (r_fut st))) (r_done st).
Proof.
  intros st Hr Hw. unfold r_done. rewrite Hr, Hw. apply in_or_app. left. left. reflexivity.
Qed.

Lemma s_done_exn : forall st, s_fut st = FExn -> s_waiting st = true ->
  In (GStartupDone false) (s_done st).
Proof. intros st Hf Hw. unfold s_done. rewrite Hf, Hw. left. reflexivity. Qed.

Lemma gstep_batch_fst : forall st l,
  fst (gstep st (GBatch l)) = fst (settle (fst (handle_ups st l))).
Proof.
  intros st l. cbn [gstep]. destruct (handle_ups st l) as [st1 o1]. cbn [fst].
  destruct (settle st1) as [st2 o2]. reflexivity.
Qed.
Lemma gstep_batch_snd : forall st l,
  snd (gstep st (GBatch l)) =
  snd (handle_ups st l) ++ r_done (fst (handle_ups st l)) ++ s_done (fst (handle_ups st l)).
Proof.
  intros st l. rewrite <- settle_snd. cbn [gstep]. destruct (handle_ups st l) as [st1 o1]. cbn [fst snd].
  destruct (settle st1) as [st2 o2]. reflexivity.
Qed.

(* ---- batches: what is preserved -------------------------------------------------------------------- *)
Lemma batch_keep : forall l st,
  let st' := fst (handle_ups st l) in
  e_app_cb st' = e_app_cb st /\ r_waiting st' = r_waiting st /\ r_joined st' = r_joined st /\
  s_attr st' = s_attr st /\ s_waiting st' = s_waiting st.
Proof.
  induction l as [|u l IH]; intros st; cbv zeta.
  - repeat split; reflexivity.
  - rewrite handle_ups_fst_cons. specialize (IH (fst (handle_up st u))). cbv zeta in IH.
    destruct IH as (I1 & I2 & I3 & I4 & I5). spec st u.
    rewrite I1, I2, I3, I4, I5. repeat split; assumption.
Qed.

Lemma hu_mono : forall st u,
  (e_running (fst (handle_up st u)) = true -> e_running st = true) /\
  (e_has_gw (fst (handle_up st u)) = true -> e_has_gw st = true) /\
  (t_open (fst (handle_up st u)) = true -> t_open st = true) /\
  (r_attr (fst (handle_up st u)) = true -> r_attr st = true) /\
  (gw_owns_transport st -> gw_owns_transport (fst (handle_up st u))).
Proof.
  intros st u. spec st u. unfold gw_owns_transport. rewrite Her, Hhg, Hop, Hra.
  destruct (e_app_cb st && failb u), (e_has_gw st), (lossb u); cbn;
    repeat split; intros; try assumption; try discriminate; auto.
Qed.

Lemma batch_mono : forall l st,
  (e_running (fst (handle_ups st l)) = true -> e_running st = true) /\
  (e_has_gw (fst (handle_ups st l)) = true -> e_has_gw st = true) /\
  (t_open (fst (handle_ups st l)) = true -> t_open st = true) /\
  (r_attr (fst (handle_ups st l)) = true -> r_attr st = true) /\
  (gw_owns_transport st -> gw_owns_transport (fst (handle_ups st l))).
Proof.
  induction l as [|u l IH]; intros st.
  - cbn. repeat split; intros H; exact H.
  - rewrite handle_ups_fst_cons. destruct (IH (fst (handle_up st u))) as (I1 & I2 & I3 & I4 & I5).
    destruct (hu_mono st u) as (M1 & M2 & M3 & M4 & M5).
    repeat split; intros H; auto.
Qed.

Lemma false_of_mono : forall a b : bool, (a = true -> b = true) -> b = false -> a = false.
Proof. intros a b H Hb. destruct a; [|reflexivity]. rewrite (H eq_refl) in Hb. discriminate Hb. Qed.

(* a resolved (or absent) future is not touched by upward calls *)
Lemma batch_stable_r : forall l st, r_fut st <> FPend -> r_fut (fst (handle_ups st l)) = r_fut st.
Proof.
  induction l as [|u l IH]; intros st Hn; [reflexivity|].
  rewrite handle_ups_fst_cons. spec st u. rewrite (rp_false st Hn) in Hrf.
  rewrite IH; [exact Hrf|]. rewrite Hrf. exact Hn.
Qed.
Lemma batch_stable_s : forall l st, s_fut st <> FPend -> s_fut (fst (handle_ups st l)) = s_fut st.
Proof.
  induction l as [|u l IH]; intros st Hn; [reflexivity|].
  rewrite handle_ups_fst_cons. spec st u. rewrite (sp_false st Hn) in Hsf.
  rewrite IH; [exact Hsf|]. rewrite Hsf. exact Hn.
Qed.

Lemma batch_outs_kind : forall l st o, In o (snd (handle_ups st l)) ->
  o = GAppFailed \/ o = GTransportClose \/ o = GResetRequest.
Proof.
  induction l as [|u l IH]; intros st o H; [destruct H|].
  rewrite handle_ups_snd_cons in H. apply in_app_or in H. destruct H as [H|H].
  - spec st u. rewrite Hout in H. destruct (failb u); [|destruct H].
    destruct (e_app_cb st).
    + destruct H as [H|H]; [left; symmetry; exact H|]. apply in_app_or in H. destruct H as [H|H].
      * destruct (e_has_gw st); [|destruct H]. destruct H as [H|[]]. right; left; symmetry; exact H.
      * destruct H as [H|[]]. right; right; symmetry; exact H.
    + destruct H as [H|[]]. left; symmetry; exact H.
  - exact (IH _ _ H).
Qed.

(* ---- batches: failures (C10) --------------------------------------------------------------------------- *)
Lemma batch_fail_req : forall l st u, e_app_cb st = true -> In u l -> failb u = true ->
  In GResetRequest (snd (handle_ups st l)).
Proof.
  induction l as [|u0 l IH]; intros st u Hc Hin Hf; [destruct Hin|].
  rewrite handle_ups_snd_cons. apply in_or_app. spec st u0. destruct Hin as [Hin|Hin].
  - left. subst u0. rewrite Hout, Hf, Hc. right. apply in_or_app. right. left. reflexivity.
  - right. apply (IH _ u); [rewrite Hcb; exact Hc|exact Hin|exact Hf].
Qed.

Lemma batch_fail_stop : forall l st u, e_app_cb st = true -> gw_owns_transport st -> In u l ->
  failb u = true ->
  e_running (fst (handle_ups st l)) = false /\ e_has_gw (fst (handle_ups st l)) = false /\
  t_open (fst (handle_ups st l)) = false.
Proof.
  induction l as [|u0 l IH]; intros st u Hc Hg Hin Hf; [destruct Hin|].
  rewrite handle_ups_fst_cons. spec st u0. destruct Hin as [Hin|Hin].
  - subst u0. rewrite Hc, Hf in Her, Hhg, Hop. cbn in Her, Hhg, Hop.
    destruct (batch_mono l (fst (handle_up st u))) as (M1 & M2 & M3 & _ & _).
    split; [|split].
    + exact (false_of_mono _ _ M1 Her).
    + exact (false_of_mono _ _ M2 Hhg).
    + apply (false_of_mono _ _ M3). rewrite Hop. destruct (e_has_gw st) eqn:Eg; [reflexivity|].
      exact (Hg Eg).
  - apply (IH _ u); [rewrite Hcb; exact Hc| |exact Hin|exact Hf].
    destruct (hu_mono st u0) as (_ & _ & _ & _ & M5). exact (M5 Hg).
Qed.

(* ---- batches: the futures (C11) ------------------------------------------------------------------------- *)
Lemma batch_ok_origin : forall l st, r_fut (fst (handle_ups st l)) = FOk ->
  r_fut st = FOk \/ (In (UReset RESET_SOFTWARE) l /\ r_fut st = FPend /\ r_attr st = true).
Proof.
  induction l as [|u l IH]; intros st H; [left; exact H|].
  rewrite handle_ups_fst_cons in H. spec st u. destruct (IH _ H) as [Ha|(Hin & Hp & Hat)].
  - destruct (rp st) eqn:Erp.
    + destruct (rp_true _ Erp) as [E1 E2]. right. split; [|split; assumption].
      destruct (softb u) eqn:Es.
      * left. exact (softb_true _ Es).
      * rewrite Ha in Hrf. destruct (lossb u); discriminate Hrf.
    + left. rewrite <- Hrf. exact Ha.
  - right. split; [right; exact Hin|]. destruct (rp st) eqn:Erp.
    + destruct (rp_true _ Erp) as [E1 E2]. split; assumption.
    + split; [rewrite <- Hrf; exact Hp|]. rewrite Hat in Hra. destruct (lossb u); [discriminate Hra|].
      symmetry. exact Hra.
Qed.

Lemma batch_loss_attr : forall l st u, In u l -> lossb u = true -> r_attr (fst (handle_ups st l)) = false.
Proof.
  induction l as [|u0 l IH]; intros st u Hin Hl; [destruct Hin|].
  rewrite handle_ups_fst_cons. destruct Hin as [Hin|Hin].
  - subst u0. spec st u. rewrite Hl in Hra.
    destruct (batch_mono l (fst (handle_up st u))) as (_ & _ & _ & M4 & _).
    exact (false_of_mono _ _ M4 Hra).
  - exact (IH _ u Hin Hl).
Qed.

Lemma batch_loss_r : forall l st u, In u l -> lossb u = true -> rp st = true ->
  is_res (r_fut (fst (handle_ups st l))) = true /\
  (~ In (UReset RESET_SOFTWARE) l -> r_fut (fst (handle_ups st l)) = FExn).
Proof.
  induction l as [|u0 l IH]; intros st u Hin Hl Hp; [destruct Hin|].
  rewrite handle_ups_fst_cons. spec st u0. rewrite Hp in Hrf. destruct (rp_true _ Hp) as [E1 E2].
  destruct (softb u0) eqn:Es.
  - rewrite batch_stable_r; rewrite Hrf; [|discriminate]. split; [reflexivity|].
    intros Hn. destruct (softb_not_in _ _ Hn) as [Hs _]. rewrite Hs in Es. discriminate Es.
  - destruct (lossb u0) eqn:El.
    + rewrite batch_stable_r; rewrite Hrf; [|discriminate]. split; [reflexivity|]. intros _. reflexivity.
    + destruct Hin as [Hin|Hin]; [subst u0; rewrite Hl in El; discriminate El|].
      assert (Hp' : rp (fst (handle_up st u0)) = true).
      { apply rp_intro; [rewrite Hra; exact E1|exact Hrf]. }
      destruct (IH _ u Hin Hl Hp') as [I1 I2]. split; [exact I1|].
      intros Hn. apply I2. exact (proj2 (softb_not_in _ _ Hn)).
Qed.

Lemma batch_loss_s : forall l st u, In u l -> lossb u = true -> sp st = true ->
  is_res (s_fut (fst (handle_ups st l))) = true /\
  (~ In (UReset RESET_SOFTWARE) l -> s_fut (fst (handle_ups st l)) = FExn).
Proof.
  induction l as [|u0 l IH]; intros st u Hin Hl Hp; [destruct Hin|].
  rewrite handle_ups_fst_cons. spec st u0. rewrite Hp in Hsf. destruct (sp_true _ Hp) as [E1 E2].
  destruct (softb u0 && negb (rp st)) eqn:Es.
  - rewrite batch_stable_s; rewrite Hsf; [|discriminate]. split; [reflexivity|].
    intros Hn. destruct (softb_not_in _ _ Hn) as [Hs _]. rewrite Hs in Es. discriminate Es.
  - destruct (lossb u0) eqn:El.
    + rewrite batch_stable_s; rewrite Hsf; [|discriminate]. split; [reflexivity|]. intros _. reflexivity.
    + destruct Hin as [Hin|Hin]; [subst u0; rewrite Hl in El; discriminate El|].
      assert (Hp' : sp (fst (handle_up st u0)) = true).
      { apply sp_intro; [rewrite Hsa; exact E1|exact Hsf]. }
      destruct (IH _ u Hin Hl Hp') as [I1 I2]. split; [exact I1|].
      intros Hn. apply I2. exact (proj2 (softb_not_in _ _ Hn)).
Qed.

(* ---- the invariant [quiet] ------------------------------------------------------------------------------ *)
(* what holds in the middle of a batch: a pending future has its attribute and its waiter, an
   absent one has neither; a resolved one is about to be consumed by [settle] *)
Definition wf_r (st : gstate) : Prop :=
  (r_fut st = FPend -> r_attr st = true /\ r_waiting st = true) /\
  (r_fut st = FNone -> r_attr st = false /\ r_waiting st = false).
Definition wf_s (st : gstate) : Prop :=
  (s_fut st = FPend -> s_attr st = true /\ s_waiting st = true) /\
  (s_fut st = FNone -> s_attr st = false /\ s_waiting st = false).

Ltac fin := cbn in *; intuition (try discriminate; try congruence).

Lemma quiet_wf : forall st, quiet st -> wf_r st /\ wf_s st.
Proof.
  intros st (Q1 & Q2 & Q3 & Q4 & Q5 & Q6). unfold wf_r, wf_s.
  destruct (r_attr st), (r_waiting st), (s_attr st), (s_waiting st); fin.
Qed.

Lemma hu_wf_r : forall st u, wf_r st -> wf_r (fst (handle_up st u)).
Proof.
  intros st u. spec st u. unfold wf_r, rp in *. rewrite Hrf, Hra, Hrw.
  destruct (r_attr st), (r_fut st), (r_waiting st), (softb u), (lossb u); fin.
Qed.
Lemma hu_wf_s : forall st u, wf_s st -> wf_s (fst (handle_up st u)).
Proof.
  intros st u. spec st u. unfold wf_s, sp in *. rewrite Hsf, Hsa, Hsw.
  destruct (s_attr st), (s_fut st), (s_waiting st), (softb u && negb (rp st)), (lossb u); fin.
Qed.
Lemma batch_wf : forall l st, wf_r st /\ wf_s st -> wf_r (fst (handle_ups st l)) /\ wf_s (fst (handle_ups st l)).
Proof.
  induction l as [|u l IH]; intros st [Hr Hs]; [split; assumption|].
  rewrite handle_ups_fst_cons. apply IH. split; [apply hu_wf_r|apply hu_wf_s]; assumption.
Qed.

Lemma settle_quiet : forall st, wf_r st /\ wf_s st -> quiet (fst (settle st)).
Proof.
  intros st [Hr Hs]. sfields st. unfold quiet, wf_r, wf_s in *.
  rewrite Gra, Grf, Grw, Gsa, Gsf, Gsw.
  assert (HR : ((if is_res (r_fut st) then FNone else r_fut st) = FNone \/
                (if is_res (r_fut st) then FNone else r_fut st) = FPend) /\
               ((if is_res (r_fut st) then false else r_waiting st) = true <->
                (if is_res (r_fut st) then FNone else r_fut st) = FPend) /\
               ((if is_res (r_fut st) then false else r_attr st) = true <->
                (if is_res (r_fut st) then FNone else r_fut st) = FPend)).
  { destruct (r_fut st), (r_attr st), (r_waiting st); fin. }
  assert (HS : ((if is_res (s_fut st) then FNone else s_fut st) = FNone \/
                (if is_res (s_fut st) then FNone else s_fut st) = FPend) /\
               ((if is_res (s_fut st) then false else s_waiting st) = true <->
                (if is_res (s_fut st) then FNone else s_fut st) = FPend) /\
               ((if is_res (s_fut st) then false else s_attr st) = true <->
                (if is_res (s_fut st) then FNone else s_fut st) = FPend)).
  { destruct (s_fut st), (s_attr st), (s_waiting st); fin. }
  tauto.
Qed.

Lemma quiet_init : quiet g_init.
Proof. unfold quiet. fin. Qed.

Lemma quiet_step : forall st e, quiet st -> quiet (fst (gstep st e)).
Proof.
  intros st e Hq. destruct e as [| |l| | | | |].
  - (* GReq *) brk st. unfold quiet in *. destruct ra, op; fin.
  - (* GStartup *) brk st. unfold quiet in *. destruct sa; fin.
  - (* GBatch *) rewrite gstep_batch_fst. apply settle_quiet. apply batch_wf. apply quiet_wf. exact Hq.
  - (* GTimer *) cbn [gstep]. destruct (r_waiting st && is_pend (r_fut st)); [|exact Hq].
    apply settle_quiet. apply quiet_wf in Hq. destruct Hq as [Hr Hs]. brk st.
    unfold wf_r, wf_s in *. fin.
  - (* GCommand *) cbn [gstep]. destruct (e_running st); exact Hq.
  - (* GClose *) brk st. unfold quiet in *. destruct hg; cbn in *; exact Hq.
  - (* GAddCallback *) brk st. unfold quiet in *. cbn in *. exact Hq.
  - (* GStartEzsp *) brk st. unfold quiet in *. cbn in *. exact Hq.
Qed.

Lemma grun_fst_cons : forall st e es, fst (grun st (e :: es)) = fst (grun (fst (gstep st e)) es).
Proof.
  intros st e es. cbn [grun]. destruct (gstep st e) as [st1 o]. cbn [fst].
  destruct (grun st1 es) as [st2 os]. reflexivity.
Qed.

Lemma quiet_run : forall es st, quiet st -> quiet (fst (grun st es)).
Proof.
  induction es as [|e es IH]; intros st Hq; [exact Hq|].
  rewrite grun_fst_cons. apply IH. apply quiet_step. exact Hq.
Qed.

Theorem quiet_reachable : forall es, quiet (gfinal es).
Proof. intros es. unfold gfinal. apply quiet_run. exact quiet_init. Qed.

(* the facade never holds an open transport without its gateway *)
Lemma gw_step : forall st e, gw_owns_transport st -> gw_owns_transport (fst (gstep st e)).
Proof.
  intros st e Hg. destruct e as [| |l| | | | |].
  - brk st. unfold gw_owns_transport in *. destruct ra, op; cbn in *; auto.
  - brk st. unfold gw_owns_transport in *. destruct sa; cbn in *; auto.
  - rewrite gstep_batch_fst. sfields (fst (handle_ups st l)). unfold gw_owns_transport. rewrite Gop, Ghg.
    destruct (batch_mono l st) as (_ & _ & _ & _ & M5). exact (M5 Hg).
  - cbn [gstep]. destruct (r_waiting st && is_pend (r_fut st)); [|exact Hg].
    sfields (upd_r st (r_attr st) FCancelled true (r_joined st)). unfold gw_owns_transport. rewrite Gop, Ghg.
    exact Hg.
  - cbn [gstep]. destruct (e_running st); exact Hg.
  - brk st. unfold gw_owns_transport in *. destruct hg; cbn in *; auto.
  - brk st. unfold gw_owns_transport in *. cbn in *. exact Hg.
  - brk st. unfold gw_owns_transport in *. cbn in *. exact Hg.
Qed.

Lemma gw_run : forall es st, gw_owns_transport st -> gw_owns_transport (fst (grun st es)).
Proof.
  induction es as [|e es IH]; intros st Hg; [exact Hg|].
  rewrite grun_fst_cons. apply IH. apply gw_step. exact Hg.
Qed.

Theorem gw_owns_transport_reachable : forall es, gw_owns_transport (gfinal es).
Proof. intros es. unfold gfinal. apply gw_run. intros H. discriminate H. Qed.

(* ---- C11 ---------------------------------------------------------------------------------------------- *)
Theorem request_writes_rst : forall st, r_attr st = false -> t_open st = true ->
  snd (gstep st GReq) = [GWriteRst] /\ request_pending (fst (gstep st GReq)).
Proof.
  intros st Ha Ho. cbn [gstep]. rewrite Ha, Ho. cbn. unfold request_pending. cbn. repeat split; reflexivity.
Qed.

Lemma completes_only_gen : forall st e, quiet st -> In (GResetDone ROk) (snd (gstep st e)) ->
  exists l, e = GBatch l /\ In (UReset RESET_SOFTWARE) l /\ r_fut st = FPend /\ r_attr st = true.
Proof.
  intros st e Hq Hin. destruct e as [| |l| | | | |].
  - cbn [gstep] in Hin. destruct (r_attr st); [destruct Hin|].
    destruct (t_open st); destruct Hin as [Hin|[]]; discriminate Hin.
  - cbn [gstep] in Hin. destruct (s_attr st); [|destruct Hin]. destruct Hin as [Hin|[]]; discriminate Hin.
  - exists l. split; [reflexivity|]. rewrite gstep_batch_snd in Hin.
    apply in_app_or in Hin. destruct Hin as [Hin|Hin].
    + apply batch_outs_kind in Hin. destruct Hin as [Hin|[Hin|Hin]]; discriminate Hin.
    + apply in_app_or in Hin. destruct Hin as [Hin|Hin].
      * apply in_r_done in Hin. destruct Hin as [Ho _].
        assert (Hf : r_fut (fst (handle_ups st l)) = FOk).
        { destruct (r_fut (fst (handle_ups st l))); cbn in Ho; try discriminate Ho. reflexivity. }
        destruct (batch_ok_origin _ _ Hf) as [Hbad|Hgood]; [|exact Hgood].
        destruct Hq as ([Q1|Q1] & _); rewrite Q1 in Hbad; discriminate Hbad.
      * apply in_s_done in Hin. destruct Hin as [b Hb]. discriminate Hb.
  - cbn [gstep] in Hin. destruct (r_waiting st && is_pend (r_fut st)); [|destruct Hin].
    rewrite settle_snd in Hin. apply in_app_or in Hin. destruct Hin as [Hin|Hin].
    + apply in_r_done in Hin. destruct Hin as [Ho _]. cbn in Ho. discriminate Ho.
    + apply in_s_done in Hin. destruct Hin as [b Hb]. discriminate Hb.
  - cbn [gstep] in Hin. destruct (e_running st); destruct Hin as [Hin|[]]; discriminate Hin.
  - cbn [gstep] in Hin. unfold ezsp_close in Hin. destruct (e_has_gw st); [|destruct Hin].
    destruct Hin as [Hin|[]]; discriminate Hin.
  - destruct Hin.
  - destruct Hin.
Qed.

Theorem completes_only_on_software_rstack : forall es e, quiet (gfinal es) ->
  In (GResetDone ROk) (snd (gstep (gfinal es) e)) ->
  exists l, e = GBatch l /\ In (UReset RESET_SOFTWARE) l /\ r_fut (gfinal es) = FPend /\ r_attr (gfinal es) = true.
Proof. intros es e. apply completes_only_gen. Qed.

Lemma handle_ups_one : forall st u, handle_ups st [u] = (fst (handle_up st u), snd (handle_up st u)).
Proof. intros st u. cbn [handle_ups]. destruct (handle_up st u) as [st1 o1]. cbn. rewrite app_nil_r. reflexivity. Qed.

Theorem completes_on_software_rstack : forall st, request_pending st ->
  In (GResetDone ROk) (snd (gstep st (GBatch [UReset RESET_SOFTWARE]))) /\
  r_attr (fst (gstep st (GBatch [UReset RESET_SOFTWARE]))) = false.
Proof.
  intros st (Hw & Hf & Ha). rewrite gstep_batch_snd, gstep_batch_fst, handle_ups_one. cbn [fst].
  spec st (UReset RESET_SOFTWARE). rewrite (rp_intro _ Ha Hf) in Hrf.
  assert (Es : softb (UReset RESET_SOFTWARE) = true) by (cbn [softb]; apply N.eqb_refl).
  rewrite Es in Hrf. split.
  - apply in_or_app. right. apply in_or_app. left.
    pose proof (r_done_waiting (fst (handle_up st (UReset RESET_SOFTWARE)))) as Hd.
    rewrite Hrf, Hrw, Hw in Hd. apply Hd; reflexivity.
  - sfields (fst (handle_up st (UReset RESET_SOFTWARE))). rewrite Gra, Hrf. reflexivity.
Qed.

Theorem reset_timeout : forall st, request_pending st ->
  In (GResetDone RTimeout) (snd (gstep st GTimer)) /\ r_attr (fst (gstep st GTimer)) = false
  /\ r_waiting (fst (gstep st GTimer)) = false.
Proof.
  intros st (Hw & Hf & Ha). cbn [gstep]. rewrite Hw, Hf. cbn [andb is_pend].
  sfields (upd_r st (r_attr st) FCancelled true (r_joined st)). rewrite settle_snd. split; [|split].
  - apply in_or_app. left. unfold r_done. cbn. left. reflexivity.
  - rewrite Gra. reflexivity.
  - rewrite Grw. reflexivity.
Qed.

Theorem other_code_is_failure : forall st code, code <> RESET_SOFTWARE ->
  In GAppFailed (snd (handle_up st (UReset code))) /\
  r_fut (fst (handle_up st (UReset code))) = r_fut st /\ s_fut (fst (handle_up st (UReset code))) = s_fut st.
Proof.
  intros st code Hc. spec st (UReset code). apply N.eqb_neq in Hc.
  cbn [softb lossb failb] in *. rewrite Hc in *. cbn [negb andb] in *. split; [|split].
  - rewrite Hout. destruct (e_app_cb st); left; reflexivity.
  - rewrite Hrf. destruct (rp st) eqn:Erp; [|reflexivity]. destruct (rp_true _ Erp) as [_ E]. symmetry. exact E.
  - rewrite Hsf. destruct (sp st) eqn:Esp; [|reflexivity]. destruct (sp_true _ Esp) as [_ E]. symmetry. exact E.
Qed.

Theorem unsolicited_ignored : forall st,
  ~ (r_attr st = true /\ r_fut st = FPend) -> ~ (s_attr st = true /\ s_fut st = FPend) ->
  handle_up st (UReset RESET_SOFTWARE) = (st, []).
Proof.
  intros st Hr Hs. unfold handle_up. rewrite N.eqb_refl.
  assert (Er : r_attr st && is_pend (r_fut st) = false).
  { destruct (rp st) eqn:E; [|exact E]. elim Hr. exact (rp_true _ E). }
  assert (Es : s_attr st && is_pend (s_fut st) = false).
  { destruct (sp st) eqn:E; [|exact E]. elim Hs. exact (sp_true _ E). }
  rewrite Er, Es. reflexivity.
Qed.

Theorem loss_releases : forall st l u, (u = UEof \/ exists b, u = ULost b) -> In u l ->
  ~ In (UReset RESET_SOFTWARE) l ->
  (request_pending st -> In (GResetDone RExn) (snd (gstep st (GBatch l)))) /\
  (startup_pending st -> In (GStartupDone false) (snd (gstep st (GBatch l)))) /\
  r_attr (fst (gstep st (GBatch l))) = false /\
  ((s_attr st = true -> s_fut st <> FNone) -> s_attr (fst (gstep st (GBatch l))) = false).
Proof.
  intros st l u Hu Hin Hn. apply loss_lossb in Hu.
  rewrite gstep_batch_snd, gstep_batch_fst.
  pose proof (batch_keep l st) as Hk. cbv zeta in Hk. destruct Hk as (_ & Kw & _ & Ksa & Ksw).
  sfields (fst (handle_ups st l)).
  split; [|split; [|split]].
  - intros (Hw & Hf & Ha). destruct (batch_loss_r l st u Hin Hu (rp_intro _ Ha Hf)) as [_ Hx].
    specialize (Hx Hn). apply in_or_app. right. apply in_or_app. left.
    pose proof (r_done_waiting (fst (handle_ups st l))) as Hd. rewrite Hx, Kw, Hw in Hd.
    apply Hd; reflexivity.
  - intros (Hw & Hf & Ha). destruct (batch_loss_s l st u Hin Hu (sp_intro _ Ha Hf)) as [_ Hx].
    specialize (Hx Hn). apply in_or_app. right. apply in_or_app. right.
    apply s_done_exn; [exact Hx|rewrite Ksw; exact Hw].
  - rewrite Gra, (batch_loss_attr l st u Hin Hu). destruct (is_res (r_fut (fst (handle_ups st l)))); reflexivity.
  - intros Hs. rewrite Gsa, Ksa. destruct (s_attr st) eqn:Ea;
      [|destruct (is_res (s_fut (fst (handle_ups st l)))); reflexivity].
    specialize (Hs eq_refl).
    assert (Hres : is_res (s_fut (fst (handle_ups st l))) = true).
    { destruct (s_fut st) eqn:Ef.
      - elim Hs. reflexivity.
      - exact (proj1 (batch_loss_s l st u Hin Hu (sp_intro _ Ea Ef))).
      - rewrite batch_stable_s; rewrite Ef; [reflexivity|discriminate].
      - rewrite batch_stable_s; rewrite Ef; [reflexivity|discriminate].
      - rewrite batch_stable_s; rewrite Ef; [reflexivity|discriminate]. }
    rewrite Hres. reflexivity.
Qed.

Theorem loss_leaves_nothing_pending : forall st l u, (u = UEof \/ exists b, u = ULost b) -> In u l ->
  quiet st -> let st' := fst (gstep st (GBatch l)) in
  r_waiting st' = false /\ s_waiting st' = false /\ r_fut st' = FNone /\ s_fut st' = FNone.
Proof.
  intros st l u Hu Hin Hq. cbv zeta. apply loss_lossb in Hu. rewrite gstep_batch_fst.
  pose proof (batch_keep l st) as Hk. cbv zeta in Hk. destruct Hk as (_ & Kw & _ & Ksa & Ksw).
  sfields (fst (handle_ups st l)). rewrite Grw, Gsw, Grf, Gsf, Kw, Ksw.
  destruct Hq as (Q1 & Q2 & Q3 & Q4 & Q5 & Q6).
  assert (HR : (if is_res (r_fut (fst (handle_ups st l))) then false else r_waiting st) = false /\
               (if is_res (r_fut (fst (handle_ups st l))) then FNone else r_fut (fst (handle_ups st l))) = FNone).
  { destruct Q1 as [Q1|Q1].
    - rewrite batch_stable_r; rewrite Q1; [|discriminate]. cbn. split; [|reflexivity].
      destruct (r_waiting st); [|reflexivity]. rewrite Q1 in Q3. destruct Q3 as [Q3 _].
      discriminate (Q3 eq_refl).
    - destruct (batch_loss_r l st u Hin Hu (rp_intro _ (proj2 Q5 Q1) Q1)) as [Hx _]. rewrite Hx.
      split; reflexivity. }
  assert (HS : (if is_res (s_fut (fst (handle_ups st l))) then false else s_waiting st) = false /\
               (if is_res (s_fut (fst (handle_ups st l))) then FNone else s_fut (fst (handle_ups st l))) = FNone).
  { destruct Q2 as [Q2|Q2].
    - rewrite batch_stable_s; rewrite Q2; [|discriminate]. cbn. split; [|reflexivity].
      destruct (s_waiting st); [|reflexivity]. rewrite Q2 in Q4. destruct Q4 as [Q4 _].
      discriminate (Q4 eq_refl).
    - destruct (batch_loss_s l st u Hin Hu (sp_intro _ (proj2 Q6 Q2) Q2)) as [Hx _]. rewrite Hx.
      split; reflexivity. }
  tauto.
Qed.

Theorem numbers_zero : forall st v code,
  tx_seq (fst (apply_frame st (Rstack v code))) = 0 /\ rx_seq (fst (apply_frame st (Rstack v code))) = 0.
Proof. intros st v code. unfold apply_frame, rx_frame, set_rx. cbn [fst tx_seq rx_seq]. split; reflexivity. Qed.

(* ---- C10 ---------------------------------------------------------------------------------------------- *)
Theorem failure_reported : forall st l u, e_app_cb st = true -> In u l -> is_failure u ->
  In GResetRequest (snd (gstep st (GBatch l))).
Proof.
  intros st l u Hc Hin Hf. apply is_failure_failb in Hf. rewrite gstep_batch_snd.
  apply in_or_app. left. exact (batch_fail_req l st u Hc Hin Hf).
Qed.

Theorem failure_stops : forall st l u, e_app_cb st = true -> gw_owns_transport st -> In u l -> is_failure u ->
  let st' := fst (gstep st (GBatch l)) in
  e_running st' = false /\ e_has_gw st' = false /\ t_open st' = false /\ snd (gstep st' GCommand) = [GCmdRaise].
Proof.
  intros st l u Hc Hg Hin Hf. cbv zeta. apply is_failure_failb in Hf. rewrite gstep_batch_fst.
  sfields (fst (handle_ups st l)). destruct (batch_fail_stop l st u Hc Hg Hin Hf) as (B1 & B2 & B3).
  cbn [gstep]. rewrite Ger, Ghg, Gop, B1, B2, B3. repeat split; reflexivity.
Qed.

Lemma gstep_running : forall st e, e <> GStartEzsp -> e_running st = false -> e_running (fst (gstep st e)) = false.
Proof.
  intros st e Hne Hr. destruct e as [| |l| | | | |].
  - cbn [gstep]. destruct (r_attr st); [exact Hr|]. destruct (t_open st); exact Hr.
  - cbn [gstep]. destruct (s_attr st); exact Hr.
  - rewrite gstep_batch_fst. sfields (fst (handle_ups st l)). rewrite Ger.
    destruct (batch_mono l st) as (M1 & _). exact (false_of_mono _ _ M1 Hr).
  - cbn [gstep]. destruct (r_waiting st && is_pend (r_fut st)); [|exact Hr].
    sfields (upd_r st (r_attr st) FCancelled true (r_joined st)). rewrite Ger. exact Hr.
  - cbn [gstep]. rewrite Hr. exact Hr.
  - cbn [gstep]. unfold ezsp_close. destruct (e_has_gw st); reflexivity.
  - exact Hr.
  - elim Hne. reflexivity.
Qed.

Theorem stays_stopped : forall st es, e_running st = false ->
  ~ In GStartEzsp es -> e_running (fst (grun st es)) = false.
Proof.
  intros st es. revert st. induction es as [|e es IH]; intros st Hr Hn; [exact Hr|].
  rewrite grun_fst_cons. apply IH.
  - apply gstep_running; [|exact Hr]. intros E. apply Hn. left. exact E.
  - intros Hin. apply Hn. right. exact Hin.
Qed.

Lemma settle_no_request : forall st, ~ In GResetRequest (snd (settle st)).
Proof.
  intros st Hin. rewrite settle_snd in Hin. apply in_app_or in Hin. destruct Hin as [Hin|Hin].
  - apply in_r_done in Hin. destruct Hin as [Ho _]. discriminate Ho.
  - apply in_s_done in Hin. destruct Hin as [b Hb]. discriminate Hb.
Qed.

Theorem close_silent : forall st,
  ~ In GResetRequest (snd (gstep st GClose)) /\
  ~ In GResetRequest (snd (gstep (fst (gstep st GClose)) (GBatch [ULost false]))).
Proof.
  intros st. split.
  - cbn [gstep]. unfold ezsp_close. destruct (e_has_gw st); intros Hin; [|destruct Hin].
    destruct Hin as [Hin|[]]. discriminate Hin.
  - intros Hin. rewrite gstep_batch_snd, handle_ups_one in Hin. cbn [fst snd] in Hin.
    apply in_app_or in Hin. destruct Hin as [Hin|Hin].
    + spec (fst (gstep st GClose)) (ULost false). rewrite Hout in Hin. destruct Hin.
    + rewrite <- settle_snd in Hin. exact (settle_no_request _ Hin).
Qed.

Theorem no_callback_no_teardown : forall st u, e_app_cb st = false ->
  e_running (fst (handle_up st u)) = e_running st /\ e_has_gw (fst (handle_up st u)) = e_has_gw st.
Proof.
  intros st u Hc. spec st u. rewrite Hc in Her, Hhg. split; [exact Her|exact Hhg].
Qed.

Theorem waiting_command_ends : forall st id c, call_get id (p_calls st) = Some c ->
  k_stage c = PWaiting -> k_reply c = RNone ->
  In (ORaise id KTimeout) (snd (proto_step st (ETimeout id))).
Proof.
  intros st id c Hget Hst Hr. unfold proto_step. rewrite Hget, Hst, Hr. unfold finish.
  destruct (release (with_calls st (call_del id (p_calls st)))) as [st1 outs]. left. reflexivity.
Qed.
