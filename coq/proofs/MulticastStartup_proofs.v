(* C15 proofs, start-up as an operation: Multicast.startup(coordinator) ([Startup] of model/Multicast.v) is a table
   scan followed by subscribe calls, so the invariants of proofs/Multicast_proofs.v carry over to operation sequences
   of any length in which start-ups and further table scans occur anywhere. *)
From Coq Require Import PeanoNat NArith List Bool Lia Permutation.
Import ListNotations.
Require Import BV.gen.GenStatus BV.model.Status BV.model.Multicast BV.proofs.Multicast_proofs.
Open Scope N_scope.

Local Opaque status_ok.

(* ---- vocabulary used by props/C15.v --------------------------------------------------------------------------- *)
(* the NCP answered the table-size read and every entry read with success *)
Definition readable (ss : N) (rs : list N) : Prop :=
  status_ok ss = true /\ Forall (fun r => status_ok r = true) rs.

(* the answer to a table write: a response (accepting or refusing) / a response that refuses or no response at all *)
Definition replied (a : answer) : Prop := match a with Ans _ => True | _ => False end.
Definition write_fails (a : answer) : Prop := match a with Ans s => status_ok s = false | _ => True end.

(* the table scan an operation starts with, if any *)
Definition scan_of (c : xop) : option (N * list N) :=
  match c with
  | Plain (Init ss rs) => Some (ss, rs)
  | Startup ss rs _ _ => Some (ss, rs)
  | Plain _ => None
  end.

(* accept / reject sequences: every read is answered with success, every write is answered *)
Definition xanswered (c : xop) : Prop :=
  match c with
  | Plain (Init ss rs) => readable ss rs
  | Plain o => answered o
  | Startup ss rs _ a => readable ss rs /\ replied a
  end.

(* a scan finds a table it can read and in which each group is programmed at most once *)
Definition scan_admissible (st : mstate) (c : xop) : Prop :=
  match scan_of c with
  | Some (ss, rs) => distinct_groups (ncp st) /\ readable ss rs
  | None => True
  end.

Fixpoint scans_admissible (st : mstate) (cs : list xop) : Prop :=
  match cs with
  | [] => True
  | c :: cs' => scan_admissible st c /\ scans_admissible (xst_of (xstep st c)) cs'
  end.

Definition wgroup (w : N * N * N) : N := snd (fst w).

(* ---- small facts ---------------------------------------------------------------------------------------------- *)
Lemma xst_of_plain st o : xst_of (xstep st (Plain o)) = st_of (step st o).
Proof. unfold xst_of, st_of. cbn [xstep]. destruct (step st o) as [[st' r] w]. reflexivity. Qed.

Lemma xrun_plain : forall ops st, xrun st (map Plain ops) = run st ops.
Proof.
  induction ops as [|o ops IH]; intros st; cbn [map xrun run]; [reflexivity|].
  rewrite xst_of_plain. apply IH.
Qed.

Lemma enc_writes_one w : enc_writes (writes_of w) = enc_write w.
Proof. destruct w as [[[i g] ep]|]; reflexivity. Qed.

Lemma xtrace_plain : forall ops st, xtrace st (map Plain ops) = trace st ops.
Proof.
  induction ops as [|o ops IH]; intros st; cbn [map xtrace trace]; [reflexivity|].
  cbn [xstep]. destruct (step st o) as [[st' r] w]. rewrite enc_writes_one, IH. reflexivity.
Qed.

Lemma NoDup_fst_unique (l : list (N * N)) g i j :
  NoDup (map fst l) -> In (g, i) l -> In (g, j) l -> i = j.
Proof.
  induction l as [|[h k] l IH]; cbn [map fst]; intros Hn H1 H2; [destruct H1|].
  apply NoDup_cons_iff in Hn. destruct Hn as [Hh Hn].
  destruct H1 as [E1 | H1]; destruct H2 as [E2 | H2].
  - congruence.
  - injection E1 as -> ->. exfalso. apply Hh.
    apply in_map_iff. exists (g, j). split; [reflexivity | exact H2].
  - injection E2 as -> ->. exfalso. apply Hh.
    apply in_map_iff. exists (g, i). split; [reflexivity | exact H1].
  - apply IH; assumption.
Qed.

(* ---- a mirrored table holds each group at most once ------------------------------------------------------------ *)
Lemma distinct_by_position : forall t : list (N * N),
  (forall i j g ep ep', nth_error t i = Some (g, ep) -> ep <> 0 ->
                        nth_error t j = Some (g, ep') -> ep' <> 0 -> i = j) ->
  distinct_groups t.
Proof.
  unfold distinct_groups. induction t as [|[g ep] t IH]; intros H; [constructor|].
  assert (IHt : NoDup (map fst (filter (fun e => negb (snd e =? 0)) t))).
  { apply IH. intros i j g' e1 e2 H1 Hn1 H2 Hn2.
    assert (E : S i = S j) by (apply (H (S i) (S j) g' e1 e2); assumption).
    injection E as E. exact E. }
  cbn [filter snd]. destruct (ep =? 0) eqn:E; cbn [negb]; [exact IHt|].
  apply N.eqb_neq in E. cbn [map fst]. constructor; [|exact IHt].
  intros Hin. apply in_map_iff in Hin. destruct Hin as [[g' ep'] [Hg Hin]]. cbn [fst] in Hg. subst g'.
  apply filter_In in Hin. destruct Hin as [Hin Hnz]. cbn [snd] in Hnz.
  apply negb_true_iff in Hnz. apply N.eqb_neq in Hnz.
  apply In_nth_error in Hin. destruct Hin as [j Hj].
  assert (E0 : 0%nat = S j) by (apply (H 0%nat (S j) g ep ep'); [reflexivity | exact E | exact Hj | exact Hnz]).
  discriminate E0.
Qed.

Lemma mirror_distinct : forall st, wf st -> mirror st -> distinct_groups (ncp st).
Proof.
  intros st [Hf _] Hm. apply distinct_by_position. intros i j g e1 e2 H1 Hn1 H2 Hn2.
  assert (Hi : In (g, N.of_nat i) (subs st)).
  { apply Hm. exists e1. rewrite Nat2N.id. split; assumption. }
  assert (Hj : In (g, N.of_nat j) (subs st)).
  { apply Hm. exists e2. rewrite Nat2N.id. split; assumption. }
  apply Nat2N.inj. exact (NoDup_fst_unique _ _ _ _ Hf Hi Hj).
Qed.

(* ---- the subscriptions of a start-up are subscribe calls ------------------------------------------------------- *)
Lemma startup_subs_run : forall calls st a,
  exists ops, Forall is_call ops /\ (replied a -> Forall answered ops) /\
    xst_of (startup_subs st calls a) = run st ops.
Proof.
  induction calls as [|[g c] calls IH]; intros st a.
  - exists []. split; [constructor | split; [intros _; constructor | reflexivity]].
  - cbn [startup_subs]. destruct (step st (Subscribe g c a)) as [[st1 r] w] eqn:E.
    assert (Hans : replied a -> answered (Subscribe g c a)).
    { intros Hr. destruct a as [s | |]; [exact I | destruct Hr | destruct Hr]. }
    destruct r as [s|].
    + destruct (IH st1 a) as (ops & Hc & Ha & Hr).
      destruct (startup_subs st1 calls a) as [[st2 r2] ws].
      exists (Subscribe g c a :: ops). split; [constructor; [exact I | exact Hc]|]. split.
      * intros Hrep. constructor; [apply Hans; exact Hrep | apply Ha; exact Hrep].
      * cbn [run]. unfold st_of. rewrite E. cbn [fst]. exact Hr.
    + exists [Subscribe g c a]. split; [constructor; [exact I | constructor]|]. split.
      * intros Hrep. constructor; [apply Hans; exact Hrep | constructor].
      * cbn [run]. unfold st_of. rewrite E. reflexivity.
Qed.

Lemma startup_subs_partition : forall calls st a, wf st -> full_partition st ->
  wf (xst_of (startup_subs st calls a)) /\ full_partition (xst_of (startup_subs st calls a)).
Proof.
  intros calls st a Hwf Hfull. destruct (startup_subs_run calls st a) as (ops & Hc & _ & Hr).
  rewrite Hr. destruct (run_calls ops st Hc Hwf Hfull) as (H1 & H2 & _). split; assumption.
Qed.

Lemma startup_subs_mirror : forall calls st a, replied a -> wf st -> full_partition st -> mirror st ->
  mirror (xst_of (startup_subs st calls a)).
Proof.
  intros calls st a Hrep Hwf Hfull Hm. destruct (startup_subs_run calls st a) as (ops & Hc & Ha & Hr).
  rewrite Hr. destruct (run_calls ops st Hc Hwf Hfull) as (_ & _ & H3). apply H3; [exact Hm | apply Ha; exact Hrep].
Qed.

(* start-up is a run of the single-write operations: the scan, then subscribe calls *)
Lemma startup_is_plain_run : forall st ss rs calls a,
  exists ops, Forall is_call ops /\ (replied a -> Forall answered ops) /\ (length ops <= length calls)%nat /\
    xst_of (xstep st (Startup ss rs calls a)) = run st (Init ss rs :: ops).
Proof.
  intros st ss rs calls a. cbn [xstep run].
  generalize (st_of (step st (Init ss rs))). clear st. intros st. revert st.
  induction calls as [|[g c] calls IH]; intros st.
  - exists []. split; [constructor | split; [intros _; constructor | split; [cbn [length]; lia | reflexivity]]].
  - cbn [startup_subs]. destruct (step st (Subscribe g c a)) as [[st1 r] w] eqn:E.
    assert (Hans : replied a -> answered (Subscribe g c a)).
    { intros Hr. destruct a as [s | |]; [exact I | destruct Hr | destruct Hr]. }
    destruct r as [s|].
    + destruct (IH st1) as (ops & Hc & Ha & Hl & Hr).
      destruct (startup_subs st1 calls a) as [[st2 r2] ws].
      exists (Subscribe g c a :: ops). split; [constructor; [exact I | exact Hc]|]. split; [|split].
      * intros Hrep. constructor; [apply Hans; exact Hrep | apply Ha; exact Hrep].
      * cbn [length]. lia.
      * cbn [run]. unfold st_of at 1. rewrite E. cbn [fst]. exact Hr.
    + exists [Subscribe g c a]. split; [constructor; [exact I | constructor]|]. split; [|split].
      * intros Hrep. constructor; [apply Hans; exact Hrep | constructor].
      * cbn [length]. lia.
      * cbn [run]. unfold st_of at 1. rewrite E. reflexivity.
Qed.

(* ---- one operation --------------------------------------------------------------------------------------------- *)
(* index accounting, whatever the writes are answered: a scan of an admissible table establishes it from any host
   state, every other operation keeps it *)
Lemma xstep_partition : forall st c, scan_admissible st c ->
  (scan_of c = None -> wf st /\ full_partition st) ->
  wf (xst_of (xstep st c)) /\ full_partition (xst_of (xstep st c)).
Proof.
  intros st c Hadm Hinv. destruct c as [o | ss rs calls a].
  - rewrite xst_of_plain. destruct o as [ss rs | g ch a | g a].
    + destruct Hadm as [Hd [Hss Hrs]]. destruct st as [s0 a0 t]. cbn [ncp] in Hd.
      destruct (startup_establishes s0 a0 t ss rs Hd Hss Hrs) as (H1 & H2 & _). split; assumption.
    + destruct (Hinv eq_refl) as [Hwf Hfull]. apply partition_step; [exact I | exact Hwf | exact Hfull].
    + destruct (Hinv eq_refl) as [Hwf Hfull]. apply partition_step; [exact I | exact Hwf | exact Hfull].
  - destruct Hadm as [Hd [Hss Hrs]]. destruct st as [s0 a0 t]. cbn [ncp] in Hd. cbn [xstep].
    destruct (startup_establishes s0 a0 t ss rs Hd Hss Hrs) as (H1 & H2 & _).
    apply startup_subs_partition; assumption.
Qed.

Definition good (st : mstate) : Prop := wf st /\ full_partition st /\ mirror st.

(* accept / reject operations: a scan of an admissible table establishes the three invariants from any host state *)
Lemma xstep_good_scan : forall st c, scan_of c <> None -> distinct_groups (ncp st) -> xanswered c ->
  good (xst_of (xstep st c)).
Proof.
  intros st c Hscan Hd Ha. destruct st as [s0 a0 t]. cbn [ncp] in Hd. destruct c as [o | ss rs calls a].
  - rewrite xst_of_plain. destruct o as [ss rs | g ch a | g a]; [| exfalso; apply Hscan; reflexivity ..].
    destruct Ha as [Hss Hrs]. exact (startup_establishes s0 a0 t ss rs Hd Hss Hrs).
  - destruct Ha as [[Hss Hrs] Hrep]. cbn [xstep].
    destruct (startup_establishes s0 a0 t ss rs Hd Hss Hrs) as (H1 & H2 & H3).
    destruct (startup_subs_partition calls _ a H1 H2) as [H4 H5].
    split; [exact H4 | split; [exact H5|]]. apply startup_subs_mirror; assumption.
Qed.

Lemma xstep_good : forall st c, good st -> xanswered c -> good (xst_of (xstep st c)).
Proof.
  intros st c (Hwf & Hfull & Hm) Ha.
  destruct (scan_of c) as [p|] eqn:Es.
  - apply xstep_good_scan; [rewrite Es; discriminate | apply mirror_distinct; assumption | exact Ha].
  - destruct c as [o | ss rs calls a]; [|discriminate Es]. rewrite xst_of_plain.
    destruct o as [ss rs | g ch a | g a]; [discriminate Es | |].
    + destruct (partition_step st (Subscribe g ch a) I Hwf Hfull) as [H1 H2].
      split; [exact H1 | split; [exact H2|]]. apply mirror_step; [exact I | exact Ha | exact Hwf | exact Hm].
    + destruct (partition_step st (Unsubscribe g a) I Hwf Hfull) as [H1 H2].
      split; [exact H1 | split; [exact H2|]]. apply mirror_step; [exact I | exact Ha | exact Hwf | exact Hm].
Qed.

(* ---- operation sequences of any length -------------------------------------------------------------------------- *)
Lemma xrun_partition : forall cs st, wf st -> full_partition st -> scans_admissible st cs ->
  wf (xrun st cs) /\ full_partition (xrun st cs).
Proof.
  induction cs as [|c cs IH]; intros st Hwf Hfull Hadm; cbn [xrun]; [split; assumption|].
  destruct Hadm as [Hc Hcs].
  destruct (xstep_partition st c Hc (fun _ => conj Hwf Hfull)) as [H1 H2].
  apply IH; assumption.
Qed.

Lemma xrun_answered : forall cs st, wf st -> full_partition st -> mirror st -> Forall xanswered cs ->
  wf (xrun st cs) /\ full_partition (xrun st cs) /\ mirror (xrun st cs).
Proof.
  induction cs as [|c cs IH]; intros st Hwf Hfull Hm Ha; cbn [xrun]; [split; [|split]; assumption|].
  inversion Ha as [|c' cs' Hc Hcs]; subst c' cs'.
  destruct (xstep_good st c (conj Hwf (conj Hfull Hm)) Hc) as (H1 & H2 & H3).
  apply IH; assumption.
Qed.

(* all reachable states: the first operation scans an admissible table (host state before: anything) *)
Lemma xreachable : forall s0 a0 t c cs, scan_of c <> None ->
  scans_admissible {| subs := s0; avail := a0; ncp := t |} (c :: cs) ->
  let st := xrun {| subs := s0; avail := a0; ncp := t |} (c :: cs) in
  wf st /\ full_partition st.
Proof.
  intros s0 a0 t c cs Hscan [Hc Hcs] st. unfold st. cbn [xrun].
  destruct (xstep_partition _ c Hc) as [H1 H2].
  { intros E. exfalso. apply Hscan. exact E. }
  apply xrun_partition; assumption.
Qed.

Lemma xreachable_answered : forall s0 a0 t c cs, distinct_groups t -> scan_of c <> None ->
  Forall xanswered (c :: cs) ->
  let st := xrun {| subs := s0; avail := a0; ncp := t |} (c :: cs) in
  wf st /\ full_partition st /\ mirror st.
Proof.
  intros s0 a0 t c cs Hd Hscan Ha st. unfold st. cbn [xrun].
  inversion Ha as [|c' cs' Hc Hcs]; subst c' cs'.
  destruct (xstep_good_scan {| subs := s0; avail := a0; ncp := t |} c Hscan Hd Hc) as (H1 & H2 & H3).
  apply xrun_answered; assumption.
Qed.

(* in an accept / reject sequence every scan meets an admissible table *)
Lemma answered_scans_admissible : forall cs st, good st -> Forall xanswered cs -> scans_admissible st cs.
Proof.
  induction cs as [|c cs IH]; intros st Hg Ha; cbn [scans_admissible]; [exact I|].
  inversion Ha as [|c' cs' Hc Hcs]; subst c' cs'. split.
  - unfold scan_admissible. destruct (scan_of c) as [[ss rs]|] eqn:Es; [|exact I].
    destruct Hg as (Hwf & _ & Hm). split; [apply mirror_distinct; assumption|].
    destruct c as [o | ss' rs' calls a].
    + destruct o as [ss' rs' | g ch a | g a]; try discriminate Es. injection Es as -> ->. exact Hc.
    + injection Es as -> ->. apply Hc.
  - apply IH; [apply xstep_good; assumption | exact Hcs].
Qed.

(* ---- what one start-up does with its writes -------------------------------------------------------------------- *)
(* a group that is subscribed is passed over: no write, start-up goes on *)
Lemma startup_skips_subscribed : forall st g c calls a i,
  lookup g (subs st) = Some i -> startup_subs st ((g, c) :: calls) a = startup_subs st calls a.
Proof.
  intros st g c calls a i Hl. cbn [startup_subs]. rewrite (subscribe_idempotent st g c a i Hl).
  destruct (startup_subs st calls a) as [[st2 r2] ws]. reflexivity.
Qed.

(* a write that fails -- refusal, or a command timeout whether or not the NCP applied the write -- leaves the host's
   view as it was *)
Lemma subscribe_fail_host : forall st g c a, write_fails a ->
  subs (st_of (step st (Subscribe g c a))) = subs st /\ avail (st_of (step st (Subscribe g c a))) = avail st.
Proof.
  intros st g c a Hf. unfold st_of, step.
  destruct (lookup g (subs st)) as [i0|]; [split; reflexivity|].
  destruct (pick c (avail st)) as [i|]; [|split; reflexivity].
  destruct a as [s | |]; cbn [write_fails] in Hf; [rewrite Hf|..]; cbn [fst subs avail]; split; reflexivity.
Qed.

Lemma startup_subs_fail : forall calls st a, write_fails a ->
  subs (xst_of (startup_subs st calls a)) = subs st /\ avail (xst_of (startup_subs st calls a)) = avail st.
Proof.
  induction calls as [|[g c] calls IH]; intros st a Hf; [split; reflexivity|].
  cbn [startup_subs]. destruct (subscribe_fail_host st g c a Hf) as [Hs Ha]. unfold st_of in Hs, Ha.
  destruct (step st (Subscribe g c a)) as [[st1 r] w]. cbn [fst] in Hs, Ha. destruct r as [s|].
  - destruct (IH st1 a Hf) as [Hs2 Ha2]. destruct (startup_subs st1 calls a) as [[st2 r2] ws].
    unfold xst_of in *. cbn [fst] in *. split; congruence.
  - unfold xst_of. cbn [fst]. split; assumption.
Qed.

Lemma startup_fail_keeps_free : forall st ss rs calls a, write_fails a ->
  let st0 := st_of (step st (Init ss rs)) in
  let st' := xst_of (xstep st (Startup ss rs calls a)) in
  subs st' = subs st0 /\ avail st' = avail st0 /\ length (avail st') = length (avail st0).
Proof.
  intros st ss rs calls a Hf st0 st'. unfold st', st0. cbn [xstep].
  destruct (startup_subs_fail calls (st_of (step st (Init ss rs))) a Hf) as [Hs Ha].
  split; [exact Hs | split; [exact Ha | rewrite Ha; reflexivity]].
Qed.

(* accepted writes: start-up returns; the dict grows by exactly the written groups, in order; every write takes one
   free index *)
Lemma remove_idx_length i l : In i l -> S (length (remove_idx i l)) = length l.
Proof. intros H. apply remove_idx_perm in H. apply Permutation_length in H. cbn [length] in H. lia. Qed.

Lemma startup_subs_accepted : forall calls st s, status_ok s = true ->
  let '(st', r, ws) := startup_subs st calls (Ans s) in
  r = RStatus 0 /\ map fst (subs st') = map fst (subs st) ++ map wgroup ws /\
  (length (avail st') + length ws = length (avail st))%nat.
Proof.
  induction calls as [|[g c] calls IH]; intros st s Hs.
  - cbn [startup_subs map length]. rewrite app_nil_r. split; [reflexivity | split; [reflexivity | lia]].
  - cbn [startup_subs]. cbn [step].
    destruct (lookup g (subs st)) as [i0|] eqn:El.
    + specialize (IH st s Hs). destruct (startup_subs st calls (Ans s)) as [[st2 r2] ws]. exact IH.
    + destruct (pick c (avail st)) as [i|] eqn:Ep.
      * rewrite Hs. specialize (IH {| subs := dict_set g i (subs st); avail := remove_idx i (avail st);
                                     ncp := ncp_write i g 1 (ncp st) |} s Hs).
        destruct (startup_subs _ calls (Ans s)) as [[st2 r2] ws]. cbn [subs avail] in IH.
        destruct IH as (Hr & Hm & Hl). split; [exact Hr | split].
        -- rewrite Hm, (dict_set_absent g i (subs st) El), map_app, <- app_assoc. reflexivity.
        -- cbn [writes_of app length]. pose proof (remove_idx_length i (avail st) (pick_in _ _ _ Ep)). lia.
      * specialize (IH st s Hs). destruct (startup_subs st calls (Ans s)) as [[st2 r2] ws]. exact IH.
Qed.

(* hence no group is written twice by one accepted start-up, however many endpoints list it, and no group the scan
   found programmed is written again *)
Lemma startup_writes_once : forall st ss rs calls s,
  distinct_groups (ncp st) -> readable ss rs -> status_ok s = true ->
  let st0 := st_of (step st (Init ss rs)) in
  let '(st', r, ws) := xstep st (Startup ss rs calls (Ans s)) in
  r = RStatus 0 /\ NoDup (map wgroup ws) /\
  (forall w, In w ws -> lookup (wgroup w) (subs st0) = None) /\
  (length (avail st') + length ws = length (avail st0))%nat.
Proof.
  intros st ss rs calls s Hd [Hss Hrs] Hs st0. cbn [xstep]. fold st0.
  assert (H0 : wf st0 /\ full_partition st0).
  { unfold st0. destruct st as [s0 a0 t]. cbn [ncp] in Hd.
    destruct (startup_establishes s0 a0 t ss rs Hd Hss Hrs) as (H1 & H2 & _). split; assumption. }
  destruct H0 as [Hwf Hfull].
  pose proof (startup_subs_partition calls st0 (Ans s) Hwf Hfull) as [[Hnd _] _].
  pose proof (startup_subs_accepted calls st0 s Hs) as Hacc.
  destruct (startup_subs st0 calls (Ans s)) as [[st' r] ws]. unfold xst_of in Hnd. cbn [fst] in Hnd.
  destruct Hacc as (Hr & Hm & Hl). rewrite Hm in Hnd.
  split; [exact Hr | split; [exact (NoDup_app_r _ _ Hnd) | split; [|exact Hl]]].
  intros w Hw. apply notin_lookup_none. intros Hin.
  apply (NoDup_app_disj _ _ (wgroup w) Hnd Hin). apply in_map. exact Hw.
Qed.
