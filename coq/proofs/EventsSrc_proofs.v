(* The EZSP callback registry, the stack-status listeners and the operations completed by an event, as emitted
   from their SOURCE TEXT (gen/GenEventsFn.v), against the listener / callback bookkeeping of model/Events.v:
   - add_callback hands out an id that is not in use and appends the callback; remove_callback of that id takes exactly
     it out again; handle_callback calls every registered callback, in registration order, whatever the others raise;
   - entering wait_for_stack_status registers one pending listener for the status -- the update [estep] makes on
     [EStart] -- and leaving it, normally or by an exception / cancellation, removes it -- what [finish] does;
   - stack_status_callback is the model's [notify];  the callback of _list_command is [handle_cb] on result and
     completion frames;
   - in formNetwork / leaveNetwork / _ensure_network_running / _list_command the operation's command and the wait for
     the event lie inside the scope: on every way through the function the registration precedes the command and is
     undone before the function is left. *)
From Coq Require Import ZArith NArith List Bool String Lia.
Import ListNotations.
Require Import BV.model.Events BV.gen.GenEventsFn.
Open Scope N_scope.

(* ---- the dict of callbacks ------------------------------------------------------------------------------ *)
Section Registry.
Context {C : Type}.

Definition above (k : Z) (d : zdict C) : nat := List.length (filter (fun x => (k <=? fst x)%Z) d).

Lemma above_le_length : forall k d, (above k d <= List.length d)%nat.
Proof.
  intros k d. unfold above. induction d as [|x d IH]; cbn [filter List.length]; [lia|].
  destruct (k <=? fst x)%Z; cbn [List.length]; lia.
Qed.

Lemma above_succ_le : forall k d, (above (k + 1) d <= above k d)%nat.
Proof.
  intros k d. unfold above. induction d as [|[k' v] d IH]; cbn [filter fst]; [lia|].
  destruct (k + 1 <=? k')%Z eqn:E1; destruct (k <=? k')%Z eqn:E2; cbn [List.length]; try lia;
    try (apply Z.leb_le in E1; apply Z.leb_gt in E2; lia).
Qed.

Lemma above_succ_lt : forall k d, zd_mem k d = true -> (above (k + 1) d < above k d)%nat.
Proof.
  intros k d. induction d as [|[k' v] d IH]; cbn [zd_mem]; [discriminate|].
  intro H. unfold above. cbn [filter fst]. apply orb_true_iff in H. destruct H as [H|H].
  - apply Z.eqb_eq in H. subst k'.
    replace (k + 1 <=? k)%Z with false by (symmetry; apply Z.leb_gt; lia).
    replace (k <=? k)%Z with true by (symmetry; apply Z.leb_le; lia).
    cbn [List.length]. pose proof (above_succ_le k d) as L. unfold above in L. lia.
  - specialize (IH H). unfold above in IH.
    destruct (k + 1 <=? k')%Z eqn:E1; destruct (k <=? k')%Z eqn:E2; cbn [List.length]; try lia;
      try (apply Z.leb_le in E1; apply Z.leb_gt in E2; lia).
Qed.

(* the while loop of add_callback ends by itself within the fuel given: what it returns is not a key *)
Lemma probe_fresh_gen : forall fuel d k, (above k d < fuel)%nat -> zd_mem (py_probe fuel d k) d = false.
Proof.
  induction fuel as [|f IH]; intros d k H; [lia|]. cbn [py_probe].
  destruct (zd_mem k d) eqn:E; [|exact E].
  apply IH. pose proof (above_succ_lt k d E). lia.
Qed.

Lemma probe_fresh : forall (d : zdict C) k, zd_mem (py_probe (S (List.length d)) d k) d = false.
Proof. intros d k. apply probe_fresh_gen. pose proof (above_le_length k d). lia. Qed.

Lemma zd_set_fresh : forall k (v : C) d, zd_mem k d = false -> zd_set k v d = d ++ [(k, v)].
Proof.
  intros k v d. induction d as [|[k' v'] d IH]; cbn [zd_mem zd_set app]; [reflexivity|].
  intro H. apply orb_false_iff in H. destruct H as [H1 H2]. rewrite H1, (IH H2). reflexivity.
Qed.

Lemma zd_pop_middle : forall k (v : C) d1 d2, zd_mem k d1 = false ->
  zd_pop k (d1 ++ (k, v) :: d2) = Some (v, d1 ++ d2).
Proof.
  intros k v d1 d2. induction d1 as [|[k' v'] d1 IH]; cbn [zd_mem zd_pop app].
  - intros _. rewrite Z.eqb_refl. reflexivity.
  - intro H. apply orb_false_iff in H. destruct H as [H1 H2]. rewrite H1, (IH H2). reflexivity.
Qed.

(* add_callback: the id returned was not in use; the registry is the old one with (id, cb) appended *)
Lemma src_add_callback : forall h (cbs : zdict C) cb,
  zd_mem (snd (py_add_callback h cbs cb)) cbs = false /\
  fst (py_add_callback h cbs cb) = cbs ++ [(snd (py_add_callback h cbs cb), cb)].
Proof.
  intros h cbs cb. unfold py_add_callback. cbn [fst snd].
  pose proof (probe_fresh cbs h) as F. split; [exact F|]. apply zd_set_fresh. exact F.
Qed.

(* remove_callback of that id -- whatever others registered afterwards -- takes exactly this entry out *)
Lemma src_remove_callback : forall h (cbs later : zdict C) cb,
  let '(cbs1, id_) := py_add_callback h cbs cb in
  py_remove_callback (cbs1 ++ later) id_ = Some (cb, cbs ++ later).
Proof.
  intros h cbs later cb. destruct (src_add_callback h cbs cb) as [F E].
  destruct (py_add_callback h cbs cb) as [cbs1 id_]. cbn [fst snd] in *. subst cbs1.
  unfold py_remove_callback. rewrite <- app_assoc. cbn [app]. apply zd_pop_middle. exact F.
Qed.

(* handle_callback: every registered callback is called, in registration order, each on the state the previous one
   left -- also after one of them raised *)
Lemma src_handle_callback : forall {S} (call : C -> S -> S * bool) (cbs : zdict C) (s : S),
  py_handle_callback call cbs s = fold_left (fun s c => fst (call c s)) (map snd cbs) s.
Proof.
  intros S call cbs. unfold py_handle_callback. induction cbs as [|[k c] cbs IH]; intro s; cbn [fold_left map snd]; [reflexivity|].
  destruct (call c s) as [s1 r]. cbn [fst]. apply IH.
Qed.
End Registry.

(* ---- the stack-status listeners ---------------------------------------------------------------------------- *)
Definition ids (l : list fut) : list N := map fst l.

(* the model keeps one flat list of (status, pending); the source one list of futures per status: they agree when,
   status by status, the pending flags agree in order *)
Definition lrefines (d : ldict) (ml : list (N * bool)) : Prop :=
  forall s, map snd (dd_get s d) = map snd (filter (fun x => fst x =? s) ml).

Lemma dd_get_set_same : forall s l d, dd_get s (dd_set s l d) = l.
Proof.
  intros s l d. induction d as [|[s' l'] d IH]; cbn [dd_set dd_get].
  - rewrite N.eqb_refl. reflexivity.
  - destruct (s' =? s) eqn:E; cbn [dd_get]; [rewrite N.eqb_refl; reflexivity|rewrite E; exact IH].
Qed.

Lemma dd_get_set_other : forall s s' l d, s' <> s -> dd_get s' (dd_set s l d) = dd_get s' d.
Proof.
  intros s s' l d Hne. induction d as [|[s0 l0] d IH]; cbn [dd_set dd_get].
  - replace (s =? s') with false by (symmetry; apply N.eqb_neq; congruence). reflexivity.
  - destruct (s0 =? s) eqn:E; cbn [dd_get].
    + apply N.eqb_eq in E. subst s0.
      replace (s =? s') with false by (symmetry; apply N.eqb_neq; congruence). reflexivity.
    + destruct (s0 =? s'); [reflexivity|exact IH].
Qed.

Lemma lrefines_empty : lrefines [] [].
Proof. intro s. reflexivity. Qed.

(* entering the context manager = the registration [estep] performs on [EStart k] for form / leave / bring-up *)
Lemma src_register : forall s f d ml, lrefines d ml -> lrefines (py_wait_enter s f d) (ml ++ [(s, true)]).
Proof.
  intros s f d ml H s'. unfold py_wait_enter. rewrite filter_app, map_app. cbn [filter fst].
  destruct (N.eq_dec s' s) as [->|Hne].
  - rewrite dd_get_set_same, N.eqb_refl, map_app. cbn [map snd]. f_equal. apply H.
  - rewrite (dd_get_set_other s s' _ d Hne).
    replace (s =? s') with false by (symmetry; apply N.eqb_neq; congruence).
    cbn [map]. rewrite app_nil_r. apply H.
Qed.

Lemma l_remove_some : forall f l l', l_remove f l = Some l' -> NoDup (ids l) ->
  ~ In f (ids l') /\ filter (fun x => negb (fst x =? f)) l' = filter (fun x => negb (fst x =? f)) l.
Proof.
  intros f l. induction l as [|[i p] l IH]; intros l' H ND; cbn [l_remove] in H; [discriminate|].
  cbn [ids map fst] in ND. inversion ND as [|? ? Hnin ND']. subst.
  destruct (i =? f) eqn:E.
  - apply N.eqb_eq in E. subst i. injection H as <-. split; [exact Hnin|].
    cbn [filter fst]. rewrite N.eqb_refl. reflexivity.
  - destruct (l_remove f l) as [r|] eqn:Er; [|discriminate]. injection H as <-.
    destruct (IH r eq_refl ND') as [A B]. split.
    + cbn [ids map fst]. intros [X|X]; [apply N.eqb_neq in E; exact (E X)|exact (A X)].
    + cbn [filter fst]. rewrite E. cbn [negb]. rewrite B. reflexivity.
Qed.

Lemma l_remove_none : forall f l, l_remove f l = None -> ~ In f (ids l).
Proof.
  intros f l. induction l as [|[i p] l IH]; intro H; cbn [l_remove] in H; [intros []|].
  destruct (i =? f) eqn:E; [discriminate|]. destruct (l_remove f l) eqn:Er; [discriminate|].
  cbn [ids map fst]. intros [X|X]; [apply N.eqb_neq in E; exact (E X)|exact (IH eq_refl X)].
Qed.

Lemma l_remove_last : forall f p l, ~ In f (ids l) -> l_remove f (l ++ [(f, p)]) = Some l.
Proof.
  intros f p l. induction l as [|[i q] l IH]; intro H; cbn [app l_remove].
  - rewrite N.eqb_refl. reflexivity.
  - cbn [ids map fst] in H. replace (i =? f) with false by (symmetry; apply N.eqb_neq; intro X; apply H; left; exact X).
    rewrite IH; [reflexivity|]. intro X. apply H. right. exact X.
Qed.

(* what the finally clause (and the done-callback) does to the listeners *)
Definition unregister (s f : N) (d : ldict) : ldict :=
  dd_set s (match l_remove f (dd_get s d) with Some l => l | None => dd_get s d end) d.

Lemma unregister_spec : forall s f d, NoDup (ids (dd_get s d)) ->
  ~ In f (ids (dd_get s (unregister s f d))) /\
  filter (fun x => negb (fst x =? f)) (dd_get s (unregister s f d)) = filter (fun x => negb (fst x =? f)) (dd_get s d) /\
  (forall s', s' <> s -> dd_get s' (unregister s f d) = dd_get s' d).
Proof.
  intros s f d ND. unfold unregister. rewrite dd_get_set_same. repeat split.
  - destruct (l_remove f (dd_get s d)) as [l|] eqn:E.
    + exact (proj1 (l_remove_some f _ l E ND)).
    + exact (l_remove_none f _ E).
  - destruct (l_remove f (dd_get s d)) as [l|] eqn:E; [|reflexivity].
    exact (proj2 (l_remove_some f _ l E ND)).
  - intros s' Hne. apply dd_get_set_other. exact Hne.
Qed.

(* leaving the with block -- normally, or by an exception / cancellation -- removes the listener and nothing else *)
Lemma src_unregister : forall s f d, NoDup (ids (dd_get s d)) ->
  (py_wait_exit_normal s f d = unregister s f d /\ py_wait_exit_exception s f d = unregister s f d /\
   py_wait_done_callback s f d = unregister s f d) /\
  ~ In f (ids (dd_get s (unregister s f d))) /\
  filter (fun x => negb (fst x =? f)) (dd_get s (unregister s f d)) = filter (fun x => negb (fst x =? f)) (dd_get s d) /\
  (forall s', s' <> s -> dd_get s' (unregister s f d) = dd_get s' d).
Proof. intros s f d ND. split; [repeat split; reflexivity|]. exact (unregister_spec s f d ND). Qed.

(* enter then exit with nothing in between: the listeners every status reads are those from before the operation
   -- the model's [finish] on a state that was idle when the operation started *)
Lemma src_enter_exit : forall s f d, ~ In f (ids (dd_get s d)) ->
  forall s', dd_get s' (py_wait_exit_exception s f (py_wait_enter s f d)) = dd_get s' d /\
             dd_get s' (py_wait_exit_normal s f (py_wait_enter s f d)) = dd_get s' d.
Proof.
  intros s f d Hf s'.
  assert (G : dd_get s' (unregister s f (py_wait_enter s f d)) = dd_get s' d).
  { unfold unregister, py_wait_enter. rewrite dd_get_set_same, (l_remove_last f true _ Hf).
    destruct (N.eq_dec s' s) as [->|Hne]; [apply dd_get_set_same|].
    rewrite (dd_get_set_other s s' _ _ Hne). apply dd_get_set_other. exact Hne. }
  split; exact G.
Qed.

(* ---- stack_status_callback is the model's notify -------------------------------------------------------------- *)
Fixpoint set_flags (l : list bool) : list bool :=
  match l with [] => [] | p :: r => if p then false :: set_flags r else p :: r end.

Lemma set_results_flags : forall l, map snd (fst (py_set_results l)) = set_flags (map snd l).
Proof.
  induction l as [|[i p] l IH]; cbn [py_set_results map snd set_flags]; [reflexivity|].
  destruct p; [|reflexivity]. destruct (py_set_results l) as [r raised]. cbn [fst map snd] in *. rewrite IH. reflexivity.
Qed.

Lemma notify_other : forall s s' ml, s' <> s ->
  filter (fun x => fst x =? s') (fst (notify s ml)) = filter (fun x => fst x =? s') ml.
Proof.
  intros s s' ml Hne. induction ml as [|[s0 p] ml IH]; cbn [notify]; [reflexivity|].
  destruct (s0 =? s) eqn:E.
  - destruct p; [|reflexivity]. destruct (notify s ml) as [r hit]. cbn [fst filter] in *.
    apply N.eqb_eq in E. subst s0.
    replace (s =? s') with false by (symmetry; apply N.eqb_neq; congruence). exact IH.
  - destruct (notify s ml) as [r hit]. cbn [fst filter] in *. rewrite IH. reflexivity.
Qed.

Lemma notify_same : forall s ml,
  map snd (filter (fun x => fst x =? s) (fst (notify s ml))) = set_flags (map snd (filter (fun x => fst x =? s) ml)).
Proof.
  intros s ml. induction ml as [|[s0 p] ml IH]; cbn [notify]; [reflexivity|].
  destruct (s0 =? s) eqn:E.
  - destruct p.
    + destruct (notify s ml) as [r hit]. cbn [fst filter] in *. rewrite E. cbn [map snd set_flags]. rewrite IH. reflexivity.
    + cbn [fst filter]. rewrite E. cbn [map snd set_flags]. reflexivity.
  - destruct (notify s ml) as [r hit]. cbn [fst filter] in *. rewrite E. exact IH.
Qed.

Lemma src_notify : forall s d ml, lrefines d ml ->
  lrefines (fst (py_stack_status_callback true s d)) (fst (notify s ml)) /\
  (forall other, py_stack_status_callback false other d = (d, false)).
Proof.
  intros s d ml H. split; [|reflexivity]. unfold py_stack_status_callback. cbn [negb].
  destruct (py_set_results (dd_get s d)) as [l raised] eqn:E. cbn [fst]. intro s'.
  destruct (N.eq_dec s' s) as [->|Hne].
  - rewrite dd_get_set_same, notify_same, <- (H s), <- set_results_flags, E. reflexivity.
  - rewrite (dd_get_set_other s s' _ _ Hne), (notify_other s s' ml Hne). apply H.
Qed.

(* ---- the callback _list_command registers is [handle_cb] on result / completion frames -------------------------- *)
Definition fut_of (st : estate) : option bool := if event_seen st then Some (completion_ok st) else None.

Section ScanCallback.
Context {R : Type} (to_item : R -> Z) (to_ok : R -> bool).   (* what the model keeps of a response frame *)

Definition scan_rel (results : list R) (fut : option R) (st : estate) : Prop :=
  map to_item results = items st /\ option_map to_ok fut = fut_of st.

Lemma src_scan_item : forall st results fut resp, (0 <? scan_cbs st) = true -> scan_rel results fut st ->
  let '(results1, fut1, raised) := py_list_command_cb true false resp results fut in
  scan_rel results1 fut1 (handle_cb st (CItem (to_item resp))) /\ raised = false.
Proof.
  intros st results fut resp H [A B]. cbn [py_list_command_cb handle_cb]. rewrite H. unfold scan_rel, fut_of in *.
  cbn [items event_seen completion_ok]. rewrite map_app, A. cbn [map]. repeat split. exact B.
Qed.

Lemma src_scan_complete : forall st results fut resp, (0 <? scan_cbs st) = true -> scan_rel results fut st ->
  let '(results1, fut1, raised) := py_list_command_cb false true resp results fut in
  scan_rel results1 fut1 (handle_cb st (CComplete (to_ok resp))) /\ raised = event_seen st.
Proof.
  intros st results fut resp H [A B]. cbn [py_list_command_cb handle_cb]. rewrite H. unfold scan_rel, fut_of in *.
  destruct (event_seen st) eqn:Es; cbn [andb negb].
  - destruct fut as [v|]; [|discriminate B]. rewrite Es. repeat split; assumption.
  - destruct fut as [v|]; [discriminate B|]. cbn [items event_seen completion_ok option_map]. repeat split. exact A.
Qed.

(* a frame that is neither a result nor the completion frame changes nothing *)
Lemma src_scan_other : forall results (fut : option R) resp,
  py_list_command_cb false false resp results fut = (results, fut, false).
Proof. reflexivity. Qed.
End ScanCallback.

(* ---- the operations: registration precedes the command, removal on every way out -------------------------------- *)
Inductive tev := TCmd (c : string) | TWaitEvent | TEnter (sc : py_scope) | TExit (sc : py_scope).

Definition ev_of (s : py_simple) : list tev :=
  match s with PAwait c => [TCmd c] | PGuard => [] | PAwaitEvent => [TWaitEvent] end.
Definition evs (l : list py_simple) : list tev := flat_map ev_of l.

(* the ways through a block: all of it, or its first n+1 statements when statement n leaves the function (an await that
   raises or is cancelled has been issued; a guard that raises or returns has been evaluated) *)
Definition runs (l : list py_simple) : list (list py_simple * bool) :=
  (l, true) :: map (fun n => (firstn (S n) l, false)) (seq 0 (List.length l)).

(* Python's `with` / `try .. finally`: once the scope is entered its exit runs, however the body is left *)
Definition executions (op : py_op) : list (list tev) :=
  let sc := op_scope op in
  flat_map (fun p : list py_simple * bool =>
    if snd p then
      flat_map (fun b : list py_simple * bool =>
        if snd b then map (fun q : list py_simple * bool => evs (fst p) ++ [TEnter sc] ++ evs (fst b) ++ [TExit sc] ++ evs (fst q)) (runs (op_post op))
        else [evs (fst p) ++ [TEnter sc] ++ evs (fst b) ++ [TExit sc]])
        (runs (op_body op))
    else [evs (fst p)]) (runs (op_pre op)).

(* the operation's command is issued, and the event awaited, only while registered; nothing stays registered *)
Fixpoint scoped_b (cmd : string) (inside : bool) (t : list tev) : bool :=
  match t with
  | [] => negb inside
  | TEnter _ :: t' => negb inside && scoped_b cmd true t'
  | TExit _ :: t' => inside && scoped_b cmd false t'
  | TCmd c :: t' => (negb (String.eqb c cmd) || inside) && scoped_b cmd inside t'
  | TWaitEvent :: t' => inside && scoped_b cmd inside t'
  end.

Definition op_ok (op : py_op) (sc : py_scope) (cmd : string) : Prop :=
  op_scope op = sc /\
  (* the way through on which nothing leaves early: register, command, wait, unregister *)
  hd [] (executions op) = evs (op_pre op) ++ [TEnter sc; TCmd cmd; TWaitEvent; TExit sc] /\
  forallb (scoped_b cmd false) (executions op) = true.

Lemma src_listener_scope :
  op_ok py_formNetwork (ScopeWith (wanted OForm)) "formNetwork" /\
  op_ok py_leaveNetwork (ScopeWith (wanted OLeave)) "leaveNetwork" /\
  op_ok py_ensure_network_running (ScopeWith (wanted OBringup)) "initialize_network" /\
  op_ok py_list_command ScopeCallback "<name>".
Proof. repeat split; vm_compute; reflexivity. Qed.

(* ---- the statements of props/C17.v that combine several of the lemmas above ------------------------------------- *)
Lemma src_callback_registry : forall (C : Type) h (cbs later : zdict C) cb,
  (zd_mem (snd (py_add_callback h cbs cb)) cbs = false /\
   fst (py_add_callback h cbs cb) = cbs ++ [(snd (py_add_callback h cbs cb), cb)]) /\
  (let '(cbs1, id_) := py_add_callback h cbs cb in py_remove_callback (cbs1 ++ later) id_ = Some (cb, cbs ++ later)) /\
  (forall (S : Type) (call : C -> S -> S * bool) (s : S),
     py_handle_callback call cbs s = fold_left (fun s c => fst (call c s)) (map snd cbs) s).
Proof.
  intros C h cbs later cb. split; [exact (src_add_callback h cbs cb)|]. split; [exact (src_remove_callback h cbs later cb)|].
  intros S call s. apply src_handle_callback.
Qed.

Lemma src_scan_callback : forall (R : Type) (to_item : R -> Z) (to_ok : R -> bool) st results fut resp,
  (0 <? scan_cbs st) = true -> scan_rel to_item to_ok results fut st ->
  (let '(results1, fut1, raised) := py_list_command_cb true false resp results fut in
   scan_rel to_item to_ok results1 fut1 (handle_cb st (CItem (to_item resp))) /\ raised = false) /\
  (let '(results1, fut1, raised) := py_list_command_cb false true resp results fut in
   scan_rel to_item to_ok results1 fut1 (handle_cb st (CComplete (to_ok resp))) /\ raised = event_seen st).
Proof.
  intros R to_item to_ok st results fut resp H Hr. split.
  - exact (src_scan_item to_item to_ok st results fut resp H Hr).
  - exact (src_scan_complete to_item to_ok st results fut resp H Hr).
Qed.
