(* ProtocolHandler.__call__ / _get_command_priority / _ezsp_frame / command and EZSP.frame_received as emitted from
   their SOURCE TEXT (gen/GenProtoFn.v, harness/pysrc.py) against the hand-written protocol machine
   (model/EzspProto.v: proto_step, start_call, frame_received / classify) and the priority table of C06.

   Vocabulary.
     aw_abs aw           the model's view of the source's _awaiting dict: (cmd_id, rx_schema, future) -> (cmd_id, future);
                         a future is named by the id of the call that awaits it
     fut_done st f       future f is done in model state st: its call has ended, or a reply is already recorded for it
     run_effs cs st effs what the effects of the receive path do to the model: set_result / set_exception on a
                         future is [deliver] to its call, a callback is an OCallback with the frame id of that name
     ids_known cs aw     every pending entry carries the id of a command of the table (command() takes it from there) *)
From Coq Require Import String ZArith NArith List Bool Lia.
Import ListNotations.
Require Import BV.lib.EzspTypes BV.gen.GenCmd BV.gen.GenProto BV.model.EzspCodec BV.model.EzspProto BV.model.EzspCases.
Require Import BV.gen.GenEzspFn BV.gen.GenProtoFn.
Require Import BV.proofs.EzspCodec_proofs BV.proofs.EzspProto_proofs BV.proofs.EzspBytes_proofs BV.proofs.EzspSrc_proofs.
Open Scope N_scope.

(* ================================================================================================ *)
(* 1. dictionaries                                                                                  *)
(* ================================================================================================ *)
Definition aw_abs (aw : ph_awaiting) : list (N * (N * N)) :=
  map (fun x => (fst x, (fst (fst (snd x)), snd (snd x)))) aw.

Lemma aw_abs_get : forall s aw,
  aw_get s (aw_abs aw) = option_map (fun e : N * nat * N => (fst (fst e), snd e)) (dict_get s aw).
Proof.
  intros s aw. induction aw as [|[k [[id sch] fut]] aw IH]; cbn [aw_abs map aw_get dict_get fst snd option_map].
  - reflexivity.
  - destruct (k =? s); [reflexivity|exact IH].
Qed.

Lemma aw_abs_del : forall s aw, aw_del s (aw_abs aw) = aw_abs (dict_del s aw).
Proof.
  intros s aw. induction aw as [|[k [[id sch] fut]] aw IH]; cbn [aw_abs map aw_del dict_del fst snd].
  - reflexivity.
  - destruct (k =? s); [reflexivity|]. cbn [map fst snd]. f_equal. exact IH.
Qed.

Lemma aw_abs_set : forall s id sch fut aw,
  aw_set s (id, fut) (aw_abs aw) = aw_abs (dict_set s (id, sch, fut) aw).
Proof.
  intros s id sch fut aw. induction aw as [|[k [[id' sch'] fut']] aw IH]; cbn [aw_abs map aw_set dict_set fst snd].
  - reflexivity.
  - destruct (k =? s); cbn [map fst snd]; [reflexivity|]. f_equal. exact IH.
Qed.

Lemma dict_get_set (V : Type) : forall (k k' : N) (v : V) d,
  dict_get k (dict_set k' v d) = if k' =? k then Some v else dict_get k d.
Proof.
  intros k k' v d. induction d as [|[k0 v0] d IH]; cbn [dict_set dict_get].
  - reflexivity.
  - destruct (k0 =? k') eqn:E0; cbn [dict_get].
    + apply N.eqb_eq in E0. subst k0. destruct (k' =? k); reflexivity.
    + rewrite IH. destruct (k0 =? k) eqn:E1; [|reflexivity].
      apply N.eqb_eq in E1. subst k0. rewrite (N.eqb_sym k' k), E0. reflexivity.
Qed.

Lemma dict_get_In (V : Type) : forall (k : N) (v : V) d, dict_get k d = Some v -> In (k, v) d.
Proof.
  intros k v d. induction d as [|[k0 v0] d IH]; cbn [dict_get]; [discriminate|].
  destruct (k0 =? k) eqn:E.
  - apply N.eqb_eq in E. subst k0. intros H. injection H as <-. left. reflexivity.
  - intros H. right. exact (IH H).
Qed.

Lemma dict_del_In (V : Type) : forall (k : N) (x : N * V) d, In x (dict_del k d) -> In x d.
Proof.
  intros k x d. induction d as [|[k0 v0] d IH]; cbn [dict_del]; [intros []|].
  destruct (k0 =? k).
  - intros H. right. exact H.
  - intros [H|H]; [left; exact H|right; exact (IH H)].
Qed.

Lemma dict_set_In (V : Type) : forall (k : N) (v : V) (x : N * V) d, In x (dict_set k v d) -> x = (k, v) \/ In x d.
Proof.
  intros k v x d. induction d as [|[k0 v0] d IH]; cbn [dict_set].
  - intros [H|[]]. left. symmetry. exact H.
  - destruct (k0 =? k).
    + intros [H|H]; [left; symmetry; exact H|right; right; exact H].
    + intros [H|H]; [right; left; exact H|]. destruct (IH H) as [H1|H1]; [left; exact H1|right; right; exact H1].
Qed.

(* ================================================================================================ *)
(* 2. command tables: COMMANDS[name], COMMANDS_BY_ID[id]                                            *)
(* ================================================================================================ *)
Lemma find_by_id_some : forall k cs c, find_by_id k cs = Some c -> In c cs /\ c_id c = k.
Proof.
  intros k cs c. induction cs as [|c' cs IH]; cbn [find_by_id]; [discriminate|].
  destruct (c_id c' =? k) eqn:E.
  - intros H. injection H as <-. split; [left; reflexivity|apply N.eqb_eq; exact E].
  - intros H. destruct (IH H) as [H1 H2]. split; [right; exact H1|exact H2].
Qed.

Lemma find_by_name_some : forall n cs c, find_by_name n cs = Some c -> In c cs /\ c_name c = n.
Proof.
  intros n cs c. induction cs as [|c' cs IH]; cbn [find_by_name]; [discriminate|].
  destruct (String.eqb (c_name c') n) eqn:E.
  - intros H. injection H as <-. split; [left; reflexivity|apply String.eqb_eq; exact E].
  - intros H. destruct (IH H) as [H1 H2]. split; [right; exact H1|exact H2].
Qed.

Lemma find_by_name_in : forall (cs : list command) (c : command),
  NoDup (map c_name cs) -> In c cs -> find_by_name (c_name c) cs = Some c.
Proof.
  induction cs as [|c' cs IH]; intros c Hnd Hin; cbn [find_by_name].
  - contradiction.
  - cbn [map] in Hnd. inversion Hnd as [|x l Hnotin Hnd' Heq]. subst x l.
    destruct Hin as [Hin|Hin].
    + subst c'. rewrite String.eqb_refl. reflexivity.
    + destruct (String.eqb (c_name c') (c_name c)) eqn:E.
      * apply String.eqb_eq in E. exfalso. apply Hnotin. rewrite E. apply in_map. exact Hin.
      * exact (IH c Hnd' Hin).
Qed.

(* a dict comprehension keeps the LAST entry of a key *)
Fixpoint find_last_by_id (id : N) (cs : list command) : option command :=
  match cs with
  | [] => None
  | c :: cs' =>
      match find_last_by_id id cs' with
      | Some x => Some x
      | None => if c_id c =? id then Some c else None
      end
  end.

Definition by_id_entry (c : command) : string * nat * nat := (c_name c, c_tx c, c_rx c).

Lemma by_id_fold : forall cs d k,
  dict_get k (fold_left (fun d (c : command) => dict_set (c_id c) (by_id_entry c) d) cs d) =
  match find_last_by_id k cs with Some c => Some (by_id_entry c) | None => dict_get k d end.
Proof.
  induction cs as [|c cs IH]; intros d k; cbn [fold_left find_last_by_id].
  - reflexivity.
  - rewrite IH. destruct (find_last_by_id k cs); [reflexivity|].
    rewrite dict_get_set. destruct (c_id c =? k); reflexivity.
Qed.

Lemma fold_left_ext (A B : Type) (f g : A -> B -> A) :
  (forall a b, f a b = g a b) -> forall l a, fold_left f l a = fold_left g l a.
Proof.
  intros H l. induction l as [|b l IH]; intros a; cbn [fold_left]; [reflexivity|]. rewrite H. apply IH.
Qed.

Lemma find_last_first : forall cs k, NoDup (map c_id cs) -> find_last_by_id k cs = find_by_id k cs.
Proof.
  induction cs as [|c cs IH]; intros k Hnd; cbn [find_last_by_id find_by_id]; [reflexivity|].
  cbn [map] in Hnd. inversion Hnd as [|x l Hnotin Hnd' Heq]. subst x l.
  rewrite (IH k Hnd'). destruct (c_id c =? k) eqn:E.
  - destruct (find_by_id k cs) as [c'|] eqn:F; [|reflexivity].
    exfalso. apply Hnotin. destruct (find_by_id_some _ _ _ F) as [Hin Hid].
    apply N.eqb_eq in E. rewrite E, <- Hid. apply in_map. exact Hin.
  - destruct (find_by_id k cs); reflexivity.
Qed.

(* COMMANDS_BY_ID[id], as built by the comprehension, is the model's lookup when frame ids are unique *)
Lemma src_commands_by_id : forall cs k, NoDup (map c_id cs) ->
  dict_get k (py_COMMANDS_BY_ID cs) = option_map by_id_entry (find_by_id k cs).
Proof.
  intros cs k Hnd. unfold py_COMMANDS_BY_ID.
  rewrite (fold_left_ext _ _ _ (fun d (c : command) => dict_set (c_id c) (by_id_entry c) d)).
  - rewrite by_id_fold, (find_last_first cs k Hnd). destruct (find_by_id k cs); reflexivity.
  - intros d [[[n i] t] r]. reflexivity.
Qed.

(* frame_name == "invalidCommand"  <->  frame_id is invalidCommand's *)
Lemma invalid_flag : forall cs ic fid c,
  NoDup (map c_id cs) -> NoDup (map c_name cs) ->
  find_by_name "invalidCommand"%string cs = Some ic -> find_by_id fid cs = Some c ->
  String.eqb (c_name c) "invalidCommand"%string = (fid =? c_id ic).
Proof.
  intros cs ic fid c Hid Hnm Hic Hc.
  destruct (find_by_id_some _ _ _ Hc) as [Hin Hfid].
  destruct (find_by_name_some _ _ _ Hic) as [Hin' Hname].
  destruct (String.eqb (c_name c) "invalidCommand"%string) eqn:E.
  - apply String.eqb_eq in E. pose proof (find_by_name_in cs c Hnm Hin) as H. rewrite E, Hic in H.
    injection H as H. subst ic. rewrite Hfid. symmetry. apply N.eqb_refl.
  - symmetry. apply N.eqb_neq. intros Heq.
    pose proof (find_by_id_in cs ic Hid Hin') as H. rewrite <- Heq, Hc in H. injection H as H. subst ic.
    rewrite Hname in E. rewrite String.eqb_refl in E. discriminate E.
Qed.

(* ================================================================================================ *)
(* 3. the receive path                                                                              *)
(* ================================================================================================ *)
Definition fut_done (st : pstate) (f : N) : bool :=
  match call_get f (p_calls st) with
  | None => true
  | Some c => match k_reply c with RNone => false | _ => true end
  end.

Definition with_awaiting (st : pstate) (aw : list (N * (N * N))) : pstate :=
  {| p_seq := p_seq st; p_awaiting := aw; p_holder := p_holder st; p_queue := p_queue st;
     p_counter := p_counter st; p_calls := p_calls st |}.

Definition id_of_name (cs : list command) (name : string) : N :=
  match find_by_name name cs with Some c => c_id c | None => 0 end.

Definition run_eff (cs : list command) (st : pstate) (e : ph_eff) : pstate * list pout :=
  match e with
  | PSetResult f vs => deliver st f (RValues vs)
  | PSetException f _ => deliver st f RInvalidCommand
  | PCallback name vs => (st, [OCallback (id_of_name cs name) vs])
  | _ => (st, [])
  end.

Fixpoint run_effs (cs : list command) (st : pstate) (es : list ph_eff) : pstate * list pout :=
  match es with
  | [] => (st, [])
  | e :: es' =>
      let '(st1, o1) := run_eff cs st e in
      let '(st2, o2) := run_effs cs st1 es' in (st2, o1 ++ o2)
  end.

Definition ids_known (cs : list command) (aw : ph_awaiting) : Prop :=
  forall s e sch fut, In (s, (e, sch, fut)) aw -> exists c, find_by_id e cs = Some c.

Lemma with_awaiting_id : forall st, with_awaiting st (p_awaiting st) = st.
Proof. intros [a b c d e f]. reflexivity. Qed.

Lemma pop_is_with_awaiting : forall st aw s, aw_abs aw = p_awaiting st ->
  pop_awaiting st s = with_awaiting st (aw_abs (dict_del s aw)).
Proof. intros st aw s H. unfold pop_awaiting, with_awaiting. rewrite <- aw_abs_del, H. reflexivity. Qed.

Lemma call_set_same : forall l c, call_get (k_id c) l = Some c -> call_set c l = l.
Proof.
  induction l as [|c' l IH]; intros c; cbn [call_get call_set]; [discriminate|].
  destruct (k_id c' =? k_id c) eqn:E.
  - intros H. injection H as ->. reflexivity.
  - intros H. f_equal. exact (IH c H).
Qed.

(* set_result / set_exception on a future that is done: nothing happens (asyncio.InvalidStateError, swallowed) *)
Lemma deliver_done : forall st f r, waiting_has_no_reply st -> fut_done st f = true -> r <> RNone ->
  deliver st f r = (st, []).
Proof.
  intros st f r Hinv Hdone Hr. unfold fut_done in Hdone. unfold deliver.
  destruct (call_get f (p_calls st)) as [c|] eqn:Hget; [|reflexivity].
  assert (Hrep : k_reply c <> RNone) by (destruct (k_reply c); [discriminate Hdone|discriminate|discriminate]).
  assert (Hsame : set_reply c r = c).
  { destruct c as [i p fi s sg rp]. unfold set_reply. cbn [k_id k_prio k_fid k_seq k_stage k_reply] in *.
    destruct rp; [exfalso; apply Hrep; reflexivity|reflexivity|reflexivity]. }
  rewrite Hsame.
  pose proof (call_get_id _ _ _ Hget) as Hid. subst f.
  rewrite (call_set_same _ _ Hget).
  assert (Hst : k_stage c <> PWaiting).
  { intros Hw. apply Hrep. apply (Hinv c (call_get_In _ _ _ Hget) Hw). }
  assert (Hwc : with_calls st (p_calls st) = st) by (destruct st; reflexivity).
  rewrite Hwc. destruct (k_stage c); [reflexivity|reflexivity|exfalso; apply Hst; reflexivity].
Qed.

Lemma inv_with_awaiting : forall st aw, waiting_has_no_reply st -> waiting_has_no_reply (with_awaiting st aw).
Proof. intros st aw H c Hin. exact (H c Hin). Qed.

Arguments deliver : simpl never.
Arguments header_rx : simpl never.
Arguments decode_schema : simpl never.
Arguments py_COMMANDS_BY_ID : simpl never.

Section Receive.
  Variables (schemas : list schema) (kind : N) (cs : list command) (ic : command).
  Variable frx : list N -> option (N * N * list N).
  Hypothesis Hfrx : forall d, frx d = header_rx kind d.
  Hypothesis Hids : NoDup (map c_id cs).
  Hypothesis Hnames : NoDup (map c_name cs).
  Hypothesis Hic : find_by_name "invalidCommand"%string cs = Some ic.

  (* ProtocolHandler.__call__ on a non-empty frame *)
  Lemma src_call : forall st aw data,
    waiting_has_no_reply st -> aw_abs aw = p_awaiting st -> ids_known cs aw -> data <> [] ->
    let '(aw', effs, r) := py_call schemas frx cs (fut_done st) aw data in
    frame_received schemas kind cs (c_id ic) st data = run_effs cs (with_awaiting st (aw_abs aw')) effs
    /\ (forall e, r = PyRaise e -> is_Exception e = true)
    /\ (aw' = aw \/ exists s, aw' = dict_del s aw).
  Proof.
    intros st aw data Hinv Haw Hknown Hne.
    assert (Hst : with_awaiting st (aw_abs aw) = st) by (rewrite Haw; apply with_awaiting_id).
    unfold py_call, frame_received, classify. destruct data as [|b data]; [exfalso; apply Hne; reflexivity|].
    rewrite Hfrx. destruct (header_rx kind (b :: data)) as [[[s fid] payload]|].
    2:{ cbn. rewrite Hst. split; [reflexivity|]. split; [intros e H; injection H as <-; reflexivity|left; reflexivity]. }
    rewrite (src_commands_by_id cs fid Hids).
    destruct (find_by_id fid cs) as [c|] eqn:Hc; cbn [option_map by_id_entry].
    2:{ cbn. rewrite Hst. split; [reflexivity|]. split; [intros e H; discriminate H|left; reflexivity]. }
    unfold py_deserialize. destruct (decode_schema (schema_at schemas (c_rx c)) payload) as [[vs rest]|].
    2:{ cbn. rewrite Hst. split; [reflexivity|]. split; [intros e H; injection H as <-; reflexivity|left; reflexivity]. }
    cbn [proto_step]. rewrite <- Haw, aw_abs_get.
    rewrite (invalid_flag cs ic fid c Hids Hnames Hic Hc).
    destruct (dict_get s aw) as [[[e sch] fut]|] eqn:Hget; cbn [option_map fst snd].
    - (* a pending entry under this sequence number: popped *)
      rewrite (pop_is_with_awaiting st aw s Haw).
      set (st1 := with_awaiting st (aw_abs (dict_del s aw))).
      assert (Hinv1 : waiting_has_no_reply st1) by (apply inv_with_awaiting; exact Hinv).
      assert (Hdone1 : fut_done st1 fut = fut_done st fut) by reflexivity.
      destruct (fid =? c_id ic).
      + (* invalidCommand *)
        destruct (Hknown s e sch fut (dict_get_In _ _ _ _ Hget)) as [c' Hc'].
        rewrite (src_commands_by_id cs e Hids), Hc'. cbn [option_map by_id_entry].
        destruct (fut_done st fut) eqn:Hd.
        * cbn. rewrite (deliver_done st1 fut RInvalidCommand Hinv1); [|exact Hdone1|discriminate].
          split; [reflexivity|]. split; [intros x H; discriminate H|right; exists s; reflexivity].
        * cbn. fold st1. destruct (deliver st1 fut RInvalidCommand) as [st2 o2]. rewrite app_nil_r.
          split; [reflexivity|]. split; [intros x H; discriminate H|right; exists s; reflexivity].
      + destruct (e =? fid).
        * destruct (fut_done st fut) eqn:Hd.
          -- cbn. rewrite (deliver_done st1 fut (RValues vs) Hinv1); [|exact Hdone1|discriminate].
             split; [reflexivity|]. split; [intros x H; discriminate H|right; exists s; reflexivity].
          -- cbn. fold st1. destruct (deliver st1 fut (RValues vs)) as [st2 o2]. rewrite app_nil_r.
             split; [reflexivity|]. split; [intros x H; discriminate H|right; exists s; reflexivity].
        * (* assert expected_id == frame_id fails: AssertionError, the entry is gone *)
          cbn. fold st1. split; [reflexivity|].
          split; [intros x H; injection H as <-; reflexivity|right; exists s; reflexivity].
    - (* nobody waits under this sequence number: a callback *)
      cbn. rewrite Hst. unfold id_of_name.
      destruct (find_by_id_some _ _ _ Hc) as [Hin Hfid].
      rewrite (find_by_name_in cs c Hnames Hin), Hfid.
      split; [reflexivity|]. split; [intros x H; discriminate H|left; reflexivity].
  Qed.

  (* EZSP.frame_received, any bytes: same outputs and state as the model, and nothing escapes *)
  Lemma src_frame_received : forall st aw data,
    waiting_has_no_reply st -> aw_abs aw = p_awaiting st -> ids_known cs aw ->
    let '(aw', effs, r) := py_EZSP_frame_received schemas frx cs (fut_done st) true aw data in
    r = PyNone
    /\ frame_received schemas kind cs (c_id ic) st data = run_effs cs (with_awaiting st (aw_abs aw')) effs
    /\ ids_known cs aw'.
  Proof.
    intros st aw data Hinv Haw Hknown. unfold py_EZSP_frame_received. cbn [negb].
    destruct data as [|b data].
    - cbn. rewrite Haw, with_awaiting_id. split; [reflexivity|]. split; [reflexivity|exact Hknown].
    - cbn [is_empty].
      assert (Hne : b :: data <> []) by discriminate.
      pose proof (src_call st aw (b :: data) Hinv Haw Hknown Hne) as H.
      destruct (py_call schemas frx cs (fut_done st) aw (b :: data)) as [[aw' effs] r].
      destruct H as [Hrun [Hexc Haw']].
      assert (Hk : ids_known cs aw').
      { destruct Haw' as [->|[s ->]]; [exact Hknown|].
        intros s' e sch fut Hin. exact (Hknown s' e sch fut (dict_del_In _ _ _ _ Hin)). }
      cbn [app]. destruct r as [|vs|e].
      + split; [reflexivity|]. split; [exact Hrun|exact Hk].
      + split; [reflexivity|]. split; [exact Hrun|exact Hk].
      + rewrite (Hexc e eq_refl). split; [reflexivity|]. split; [exact Hrun|exact Hk].
  Qed.
End Receive.

(* the header readers emitted from the source of EZSPv4 / v5 / v8 (gen/GenEzspFn.v) *)
Definition py_header_rx (kind : N) (d : list N) : option (N * N * list N) :=
  if kind =? 4 then py_v4_header_rx d else if kind =? 5 then py_v5_header_rx d else py_v8_header_rx d.

Lemma py_header_rx_eq : forall kind d, py_header_rx kind d = header_rx kind d.
Proof.
  intros kind d. unfold py_header_rx.
  destruct (kind =? 4) eqn:E4; [apply N.eqb_eq in E4; subst kind; symmetry; apply src_header_rx4|].
  destruct (kind =? 5) eqn:E5; [apply N.eqb_eq in E5; subst kind; symmetry; apply src_header_rx5|].
  rewrite <- src_header_rx8. unfold header_rx. rewrite E4, E5. reflexivity.
Qed.

Lemma src_receive : forall schemas kind cs ic st aw data,
  NoDup (map c_id cs) -> NoDup (map c_name cs) -> find_by_name "invalidCommand"%string cs = Some ic ->
  waiting_has_no_reply st -> aw_abs aw = p_awaiting st -> ids_known cs aw ->
  let '(aw', effs, r) := py_EZSP_frame_received schemas (py_header_rx kind) cs (fut_done st) true aw data in
  r = PyNone
  /\ frame_received schemas kind cs (c_id ic) st data = run_effs cs (with_awaiting st (aw_abs aw')) effs
  /\ ids_known cs aw'.
Proof.
  intros schemas kind cs ic st aw data H1 H2 H3.
  exact (src_frame_received schemas kind cs ic (py_header_rx kind) (py_header_rx_eq kind) H1 H2 H3 st aw data).
Qed.

(* no protocol handler configured yet: the frame is dropped *)
Lemma src_receive_unconfigured : forall schemas frx cs done aw data,
  py_EZSP_frame_received schemas frx cs done false aw data = (aw, [], PyNone).
Proof. reflexivity. Qed.

(* the generated tables satisfy the hypotheses, with the invalidCommand id the C08 correspondence uses *)
Lemma invalid_command_okb :
  forallb (fun vc => match find_by_name "invalidCommand"%string (snd vc) with Some _ => true | None => false end) COMMANDS = true.
Proof. vm_compute. reflexivity. Qed.

Lemma assocN_In (A : Type) : forall (k : N) (l : list (N * A)) (x : A), In (k, x) l -> exists y, assocN k l = Some y /\ In (k, y) l.
Proof.
  intros k l x. induction l as [|[k' v] l IH]; cbn [assocN]; [intros []|].
  intros Hin. destruct (k' =? k) eqn:E.
  - apply N.eqb_eq in E. subst k'. exists v. split; [reflexivity|left; reflexivity].
  - destruct Hin as [Hin|Hin]; [injection Hin as -> _; rewrite N.eqb_refl in E; discriminate E|].
    destruct (IH Hin) as [y [Hy Hy']]. exists y. split; [exact Hy|right; exact Hy'].
Qed.

Lemma src_tables : forall v, version_ok v ->
  NoDup (map c_id (commands_of v)) /\ NoDup (map c_name (commands_of v)) /\
  exists ic, find_by_name "invalidCommand"%string (commands_of v) = Some ic /\ invalid_fid_of v = c_id ic.
Proof.
  intros v Hv. destruct (tables_ok v Hv) as [Ha [Hb _]]. split; [exact Ha|]. split; [exact Hb|].
  unfold version_ok in Hv. apply in_map_iff in Hv. destruct Hv as [[v' l] [Hv' Hin]]. cbn [fst] in Hv'. subst v'.
  destruct (assocN_In _ v COMMANDS l Hin) as [l' [Hl' Hin']].
  pose proof (proj1 (forallb_forall _ _) invalid_command_okb _ Hin') as H. cbn [snd] in H.
  unfold invalid_fid_of, commands_of. rewrite Hl'.
  destruct (find_by_name "invalidCommand"%string l') as [ic|]; [|discriminate H].
  exists ic. split; reflexivity.
Qed.

(* ================================================================================================ *)
(* 4. the priority of a command                                                                     *)
(* ================================================================================================ *)
(* for EVERY string, not only the command names *)
Lemma src_priority_spec : forall name, py_get_command_priority name = spec_priority name.
Proof.
  intros name. unfold py_get_command_priority, spec_priority, py_priority_dict. cbn [str_get existsb].
  repeat match goal with
  | |- context [String.eqb ?a ?b] =>
      destruct (String.eqb_spec a b); [subst; try congruence; try (vm_compute; reflexivity)|]
  end; reflexivity.
Qed.

Fixpoint assoc_str (k : string) (l : list (string * Z)) : option Z :=
  match l with [] => None | (k', v) :: l' => if String.eqb k' k then Some v else assoc_str k l' end.

Lemma priorities_src_check :
  forallb (fun x => Z.eqb (py_get_command_priority (fst x)) (snd x)) PRIORITIES = true.
Proof. vm_compute. reflexivity. Qed.

(* every command name of every version is in the table of C06 with the priority the source gives it *)
Lemma priorities_cover_check :
  forallb (fun vc => forallb (fun c : command =>
             match assoc_str (c_name c) PRIORITIES with
             | Some p => Z.eqb (py_get_command_priority (c_name c)) p
             | None => false
             end) (snd vc)) COMMANDS = true.
Proof. vm_compute. reflexivity. Qed.

Lemma assoc_str_In : forall k l p, assoc_str k l = Some p -> In (k, p) l.
Proof.
  intros k l p. induction l as [|[k' v] l IH]; cbn [assoc_str]; [discriminate|].
  destruct (String.eqb k' k) eqn:E.
  - apply String.eqb_eq in E. subst k'. intros H. injection H as <-. left. reflexivity.
  - intros H. right. exact (IH H).
Qed.

Lemma src_priority :
  (forall name p, In (name, p) PRIORITIES -> py_get_command_priority name = p)
  /\ (forall v cs c, In (v, cs) COMMANDS -> In c cs ->
        In (c_name c, py_get_command_priority (c_name c)) PRIORITIES)
  /\ (forall name, py_get_command_priority name = spec_priority name).
Proof.
  split; [|split].
  - intros name p H. pose proof (proj1 (forallb_forall _ _) priorities_src_check _ H) as E.
    cbn [fst snd] in E. apply Z.eqb_eq in E. exact E.
  - intros v cs c Hv Hc.
    pose proof (proj1 (forallb_forall _ _) priorities_cover_check _ Hv) as E. cbn [snd] in E.
    pose proof (proj1 (forallb_forall _ _) E _ Hc) as E'. cbv beta in E'.
    destruct (assoc_str (c_name c) PRIORITIES) as [p|] eqn:Ha; [|discriminate E'].
    apply Z.eqb_eq in E'. rewrite E'. exact (assoc_str_In _ _ _ Ha).
  - exact src_priority_spec.
Qed.

(* ================================================================================================ *)
(* 5. the send path                                                                                 *)
(* ================================================================================================ *)
(* the header writers emitted from the source of EZSPv4 / v5 / v8; _ezsp_frame_tx(name) looks the id up itself *)
Definition py_header_tx (kind : N) (cs : list command) (seq : N) (name : string) : option (list N) :=
  match find_by_name name cs with
  | None => None
  | Some c => Some (if kind =? 4 then py_v4_header_tx seq (c_id c)
                    else if kind =? 5 then py_v5_header_tx seq (c_id c) else py_v8_header_tx seq (c_id c))
  end.

Lemma py_header_tx_eq : forall kind cs seq name cmd h,
  find_by_name name cs = Some cmd -> header_tx kind seq (c_id cmd) = Some h -> py_header_tx kind cs seq name = Some h.
Proof.
  intros kind cs seq name cmd h Hf Hh. unfold py_header_tx. rewrite Hf. f_equal.
  destruct (kind =? 4) eqn:E4; [apply N.eqb_eq in E4; subst kind; symmetry; apply src_header_tx4; exact Hh|].
  destruct (kind =? 5) eqn:E5; [apply N.eqb_eq in E5; subst kind; symmetry; apply src_header_tx5; exact Hh|].
  symmetry. apply src_header_tx8. unfold header_tx in *. rewrite E4, E5 in Hh. exact Hh.
Qed.

(* how the coroutine ends, in the model's vocabulary *)
Definition end_of (id : N) (sent : ph_sent) (waited : ph_waited) : pout :=
  match sent with
  | SentRaised => ORaise id KSendFailed
  | SentCancelled => ORaise id KCancelled
  | SentOk =>
      match waited with
      | WResult vs => OReturn id vs
      | WException _ => ORaise id KInvalidCommand
      | WTimeout => ORaise id KTimeout
      | WCancelled => ORaise id KCancelled
      end
  end.
Definition out_of (id : N) (r : ph_return) : option pout :=
  match r with
  | PyValue vs => Some (OReturn id vs)
  | PyRaise XTimeout => Some (ORaise id KTimeout)
  | PyRaise XSend => Some (ORaise id KSendFailed)
  | PyRaise XInvalidCommand => Some (ORaise id KInvalidCommand)
  | PyRaise XCancelled => Some (ORaise id KCancelled)
  | _ => None
  end.
Definition waited_ok (w : ph_waited) : Prop :=
  match w with WException e => e = XInvalidCommand | _ => True end.

Section Command.
  Variables (schemas : list schema) (kind : N) (cs : list command).
  Variable ftx : N -> string -> option (list N).
  Hypothesis Hftx : forall seq name cmd h,
    find_by_name name cs = Some cmd -> header_tx kind seq (c_id cmd) = Some h -> ftx seq name = Some h.

  (* a call that gets the send slot: command() from the grant of the semaphore on, against [start_call] *)
  Lemma src_command : forall st aw c name cmd args data sent waited,
    find_by_name name cs = Some cmd -> k_fid c = c_id cmd -> aw_abs aw = p_awaiting st ->
    frame_tx schemas kind (p_seq st) cmd args = Some data -> waited_ok waited ->
    let '(seq', aw', effs, r) := py_command schemas ftx cs (p_seq st) aw name args (k_id c) AcqOk sent waited in
    let '(st', outs) := start_call st c in
    (* the state at the call of send_data is the model's *)
    seq' = p_seq st' /\ aw_abs aw' = p_awaiting st' /\
    (* the sequence number advances by one modulo 256; the entry sits under the OLD number with the command's id *)
    seq' = (p_seq st + 1) mod 256 /\ dict_get (p_seq st) aw' = Some (c_id cmd, c_rx cmd, k_id c) /\
    (* the request handed to the gateway is the model's frame: header with the old sequence number, then the arguments *)
    outs = [OSend (k_id c) (p_seq st) (c_id cmd)] /\
    (exists tl, effs = PAcquire (py_get_command_priority name) :: PSendData data :: tl
                /\ (tl = [PRelease] \/ tl = [PAwaitFuture (k_id c) EZSP_CMD_TIMEOUT; PRelease])) /\
    (* the slot is released exactly once, last, and the call ends as the model's event for that resumption says *)
    out_of (k_id c) r = Some (end_of (k_id c) sent waited).
  Proof.
    intros st aw c name cmd args data sent waited Hname Hfid Haw Hframe Hw.
    unfold frame_tx in Hframe.
    destruct (header_tx kind (p_seq st) (c_id cmd)) as [h|] eqn:Hh; [|discriminate Hframe].
    destruct (encode_schema (schema_at schemas (c_tx cmd)) args) as [b|] eqn:Hb; [|discriminate Hframe].
    injection Hframe as Hdata.
    unfold py_command, py_ezsp_frame, py_serialize, start_call. rewrite Hname.
    destruct cmd as [[[nm cid] tx] rx]. cbn [c_id c_tx c_rx c_name fst snd] in *.
    rewrite (Hftx (p_seq st) name (nm, cid, tx, rx) h Hname Hh), Hb, Hdata.
    cbn [p_seq p_awaiting].
    assert (Hset : aw_abs (dict_set (p_seq st) (cid, rx, k_id c) aw) = aw_set (p_seq st) (k_fid c, k_id c) (p_awaiting st)).
    { rewrite Hfid, <- Haw. symmetry. apply aw_abs_set. }
    assert (Hget : dict_get (p_seq st) (dict_set (p_seq st) (cid, rx, k_id c) aw) = Some (cid, rx, k_id c)).
    { rewrite dict_get_set, N.eqb_refl. reflexivity. }
    destruct sent; [destruct waited as [vs|e| |]| |]; cbn [app]; cbn in Hw; try subst e;
      (split; [reflexivity|]); (split; [exact Hset|]); (split; [reflexivity|]); (split; [exact Hget|]);
      (split; [rewrite Hfid; reflexivity|]);
      (split; [eexists; split; [reflexivity|]; auto|reflexivity]).
  Qed.

  (* cancelled while still queued for the slot: nothing was touched, nothing is released *)
  Lemma src_command_cancelled_in_queue : forall seq aw name args fut sent waited,
    py_command schemas ftx cs seq aw name args fut AcqCancelled sent waited =
      (seq, aw, [PAcquire (py_get_command_priority name)], PyRaise XCancelled).
  Proof. reflexivity. Qed.

  (* the request cannot be built (unknown name, header or argument serialisation raises): nothing is registered, the
     sequence number stays, the slot is released, the exception reaches the caller.  (The model has no event for
     this: an ECall always sends.) *)
  Lemma src_command_build_fails : forall seq aw name args fut sent waited e,
    py_ezsp_frame schemas ftx cs seq name args = Exn e ->
    py_command schemas ftx cs seq aw name args fut AcqOk sent waited =
      (seq, aw, [PAcquire (py_get_command_priority name); PRelease], PyRaise e).
  Proof. intros seq aw name args fut sent waited e H. unfold py_command. rewrite H. reflexivity. Qed.

  (* the entry command() registers keeps [ids_known] (the hypothesis of the receive lemma) *)
  Lemma src_command_ids_known : forall seq aw name args fut acq sent waited,
    NoDup (map c_id cs) -> ids_known cs aw ->
    let '(_, aw', _, _) := py_command schemas ftx cs seq aw name args fut acq sent waited in ids_known cs aw'.
  Proof.
    intros seq aw name args fut acq sent waited Hnd Hk. unfold py_command.
    destruct acq; [|exact Hk].
    destruct (py_ezsp_frame schemas ftx cs seq name args) as [data|e]; [|exact Hk].
    destruct (find_by_name name cs) as [[[[nm cid] tx] rx]|] eqn:Hname; [|exact Hk].
    assert (Hk' : ids_known cs (dict_set seq (cid, rx, fut) aw)).
    { intros s e sch f Hin. apply dict_set_In in Hin. destruct Hin as [Hin|Hin]; [|exact (Hk s e sch f Hin)].
      injection Hin as -> -> -> ->. destruct (find_by_name_some _ _ _ Hname) as [Hin _].
      exists (nm, cid, tx, rx). exact (find_by_id_in cs (nm, cid, tx, rx) Hnd Hin). }
    destruct sent; [destruct waited| |]; exact Hk'.
  Qed.
End Command.

(* the model's events that end a call that holds the slot all go through [finish] (OReturn / ORaise first, then the
   release of the slot), with the output [end_of] names *)
Lemma model_end_of : forall st id c, call_get id (p_calls st) = Some c ->
  (k_stage c = PSending -> proto_step st (ESendDone id false) = finish st id (end_of id SentRaised WTimeout)) /\
  (k_stage c <> PQueued -> proto_step st (ECancel id) = finish st id (end_of id SentCancelled WTimeout)) /\
  (k_stage c = PWaiting -> k_reply c = RNone -> proto_step st (ETimeout id) = finish st id (end_of id SentOk WTimeout)) /\
  (forall vs, k_reply c = RValues vs -> complete_with_reply st c = finish st id (end_of id SentOk (WResult vs))) /\
  (k_reply c = RInvalidCommand -> complete_with_reply st c = finish st id (end_of id SentOk (WException XInvalidCommand))).
Proof.
  intros st id c Hget. pose proof (call_get_id _ _ _ Hget) as Hid.
  repeat split.
  - intros Hs. cbn [proto_step]. rewrite Hget, Hs. reflexivity.
  - intros Hs. cbn [proto_step]. rewrite Hget. destruct (k_stage c); [exfalso; apply Hs; reflexivity|reflexivity|reflexivity].
  - intros Hs Hr. cbn [proto_step]. rewrite Hget, Hs, Hr. reflexivity.
  - intros vs Hr. unfold complete_with_reply. rewrite Hr, Hid. reflexivity.
  - intros Hr. unfold complete_with_reply. rewrite Hr, Hid. reflexivity.
Qed.

Lemma src_command_send : forall schemas kind cs st aw c name cmd args data sent waited,
  find_by_name name cs = Some cmd -> k_fid c = c_id cmd -> aw_abs aw = p_awaiting st ->
  frame_tx schemas kind (p_seq st) cmd args = Some data -> waited_ok waited ->
  let '(seq', aw', effs, r) :=
    py_command schemas (py_header_tx kind cs) cs (p_seq st) aw name args (k_id c) AcqOk sent waited in
  let '(st', outs) := start_call st c in
  seq' = p_seq st' /\ aw_abs aw' = p_awaiting st' /\
  seq' = (p_seq st + 1) mod 256 /\ dict_get (p_seq st) aw' = Some (c_id cmd, c_rx cmd, k_id c) /\
  outs = [OSend (k_id c) (p_seq st) (c_id cmd)] /\
  (exists tl, effs = PAcquire (py_get_command_priority name) :: PSendData data :: tl
              /\ (tl = [PRelease] \/ tl = [PAwaitFuture (k_id c) EZSP_CMD_TIMEOUT; PRelease])) /\
  out_of (k_id c) r = Some (end_of (k_id c) sent waited).
Proof.
  intros schemas kind cs.
  exact (src_command schemas kind cs (py_header_tx kind cs) (py_header_tx_eq kind cs)).
Qed.

(* a fresh handler: self._seq = 0, self._awaiting = {} is the model's initial state *)
Lemma src_init : fst py_init = p_seq p_init /\ aw_abs (snd py_init) = p_awaiting p_init /\ (forall cs, ids_known cs (snd py_init)).
Proof. split; [reflexivity|]. split; [reflexivity|]. intros cs s e sch fut []. Qed.
