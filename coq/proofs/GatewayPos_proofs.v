(* Positive halves for C10 / C11 (model/Gateway.v): when the awaited thing arrives the waiter completes
   accordingly.  Reuses the closed forms of proofs/Gateway_proofs.v ([handle_up_spec], [settle_fields],
   [gstep_batch_snd]).

   Already present, not repeated here:
     - RSTACK(software) completes a pending reset request:        completes_on_software_rstack (c11_completes)
     - a loss fails BOTH a pending reset and a pending start-up wait: loss_releases (c11_loss_releases) with
       l := [ULost b], u := ULost b gives exactly
         request_pending st -> In (GResetDone RExn) ..  and  startup_pending st -> In (GStartupDone false) ..  *)
From Coq Require Import NArith List Bool.
Import ListNotations.
Require Import BV.gen.GenAsh BV.model.Gateway BV.proofs.Gateway_proofs.
Open Scope N_scope.

(* ---- C1: the start-up wait completes on RSTACK(software) ------------------------------------------------
   The software-reset acknowledgement goes to a pending reset REQUEST first (reset_received tests
   _reset_future before _startup_reset_future), hence the side condition: no request is pending. *)
Theorem startup_wait_completes : forall st,
  s_attr st = true -> s_fut st = FPend -> s_waiting st = true ->
  (r_attr st = false \/ r_fut st <> FPend) ->
  In (GStartupDone true) (snd (gstep st (GBatch [UReset RESET_SOFTWARE]))) /\
  s_attr (fst (gstep st (GBatch [UReset RESET_SOFTWARE]))) = false /\
  s_waiting (fst (gstep st (GBatch [UReset RESET_SOFTWARE]))) = false /\
  s_fut (fst (gstep st (GBatch [UReset RESET_SOFTWARE]))) = FNone.
Proof.
  intros st Ha Hf Hw Hr. rewrite gstep_batch_snd, gstep_batch_fst, handle_ups_one. cbn [fst].
  spec st (UReset RESET_SOFTWARE).
  assert (Erp : rp st = false).
  { destruct Hr as [Hr|Hr]; [unfold rp; rewrite Hr; reflexivity|exact (rp_false st Hr)]. }
  assert (Es : softb (UReset RESET_SOFTWARE) = true) by (cbn [softb]; apply N.eqb_refl).
  rewrite (sp_intro _ Ha Hf), Es, Erp in Hsf. cbn [negb andb] in Hsf.
  sfields (fst (handle_up st (UReset RESET_SOFTWARE))).
  split; [|split; [|split]].
  - apply in_or_app. right. apply in_or_app. right.
    unfold s_done. rewrite Hsf, Hsw, Hw. left. reflexivity.
  - rewrite Gsa, Hsf. reflexivity.
  - rewrite Gsw, Hsf. reflexivity.
  - rewrite Gsf, Hsf. reflexivity.
Qed.

(* the side condition is needed: with a reset request pending too, the acknowledgement completes the
   request and the start-up wait goes on *)
Example startup_wait_needs_no_request :
  let st := upd_s (upd_r g_init true FPend true 0) true FPend true in
  snd (gstep st (GBatch [UReset RESET_SOFTWARE])) = [GResetDone ROk] /\
  s_fut (fst (gstep st (GBatch [UReset RESET_SOFTWARE]))) = FPend.
Proof. split; reflexivity. Qed.

(* ---- C3: after a reported failure a new command is refused at once ---------------------------------------
   This is the last conjunct of failure_stops (c10_stopped) WITHOUT its hypothesis gw_owns_transport st:
   that hypothesis is only needed for t_open = false. *)
Lemma batch_fail_not_running : forall l st u, e_app_cb st = true -> In u l -> failb u = true ->
  e_running (fst (handle_ups st l)) = false.
Proof.
  induction l as [|u0 l IH]; intros st u Hc Hin Hf; [destruct Hin|].
  rewrite handle_ups_fst_cons. spec st u0. destruct Hin as [Hin|Hin].
  - subst u0. rewrite Hc, Hf in Her. cbn in Her.
    destruct (batch_mono l (fst (handle_up st u))) as (M1 & _).
    exact (false_of_mono _ _ M1 Her).
  - apply (IH _ u); [rewrite Hcb; exact Hc|exact Hin|exact Hf].
Qed.

Theorem command_after_failure_refused : forall st l u, e_app_cb st = true -> In u l -> is_failure u ->
  gstep (fst (gstep st (GBatch l))) GCommand = (fst (gstep st (GBatch l)), [GCmdRaise]).
Proof.
  intros st l u Hc Hin Hf. apply is_failure_failb in Hf.
  assert (E : e_running (fst (gstep st (GBatch l))) = false).
  { rewrite gstep_batch_fst. sfields (fst (handle_ups st l)). rewrite Ger.
    exact (batch_fail_not_running l st u Hc Hin Hf). }
  revert E. generalize (fst (gstep st (GBatch l))). intros st' E.
  cbn [gstep]. rewrite E. reflexivity.
Qed.

(* the form asked for: one failure alone in the batch *)
Corollary command_after_failure_refused_1 : forall st u, e_app_cb st = true -> is_failure u ->
  In GCmdRaise (snd (gstep (fst (gstep st (GBatch [u]))) GCommand)).
Proof.
  intros st u Hc Hf.
  rewrite (command_after_failure_refused st [u] u Hc (or_introl eq_refl) Hf). left. reflexivity.
Qed.
