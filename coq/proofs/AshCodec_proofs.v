(* C03 proofs, codec part: parse/encode round trip, classification by the control byte, field
   positions, byte stuffing, randomisation.  The CRC-strength results are in Crc_proofs.v.
   [crc16] is never unfolded here: the round trip only needs that the receiver recomputes the
   same function of the same body.  Bit-level facts about control bytes are decided by finite
   sweeps (lib/Sweep.v). *)
From Coq Require Import ZArith NArith List Bool Lia PeanoNat.
Import ListNotations.
Require Import BV.gen.GenAsh BV.lib.Sweep BV.model.AshCodec.
Open Scope N_scope.

(* ---- specification-side classification (used by props/C03.v) -------------------------------- *)
Definition spec_class (c : N) : option N :=
  if c <? 0x80 then Some 0 else if c <? 0xA0 then Some 1 else if c <? 0xC0 then Some 2
  else if c =? 0xC0 then Some 3 else if c =? 0xC1 then Some 4 else if c =? 0xC2 then Some 5 else None.
Definition class_of (f : frame) : N :=
  match f with Data _ _ _ _ => 0 | Ack _ _ _ => 1 | Nak _ _ _ => 2 | Rst => 3 | Rstack _ _ => 4 | Error _ _ => 5 end.

(* ---- lists ------------------------------------------------------------------------------------ *)
Lemma firstn_length_app (A : Type) (l m : list A) : firstn (length l) (l ++ m) = l.
Proof.
  induction l as [|a l IH]; cbn [length app firstn].
  - reflexivity.
  - rewrite IH. reflexivity.
Qed.

Lemma skipn_length_app (A : Type) (l m : list A) : skipn (length l) (l ++ m) = m.
Proof.
  induction l as [|a l IH]; cbn [length app skipn].
  - reflexivity.
  - exact IH.
Qed.

(* ---- randomisation ---------------------------------------------------------------------------- *)
Lemma lxor_twice (x y : N) : N.lxor (N.lxor x y) y = x.
Proof. rewrite N.lxor_assoc, N.lxor_nilpotent, N.lxor_0_r. reflexivity. Qed.

Lemma xor_zip_length (p s : list N) :
  (length p <= length s)%nat -> length (xor_zip p s) = length p.
Proof.
  revert s. induction p as [|x p IH]; intros s Hlen.
  - reflexivity.
  - destruct s as [|y s]; cbn [length] in Hlen.
    + lia.
    + cbn [xor_zip length]. rewrite IH by lia. reflexivity.
Qed.

Lemma xor_zip_invol (p s : list N) :
  (length p <= length s)%nat -> xor_zip (xor_zip p s) s = p.
Proof.
  revert s. induction p as [|x p IH]; intros s Hlen.
  - reflexivity.
  - destruct s as [|y s]; cbn [length] in Hlen.
    + lia.
    + cbn [xor_zip]. rewrite lxor_twice, IH by lia. reflexivity.
Qed.

Lemma sequence_length : length PSEUDO_RANDOM_DATA_SEQUENCE = 256%nat.
Proof. vm_compute. reflexivity. Qed.

Lemma randomize_involutive_gen (p q : list N) :
  randomize p = Some q -> randomize q = Some p.
Proof.
  intros H. unfold randomize in *.
  set (s := PSEUDO_RANDOM_DATA_SEQUENCE) in *.
  destruct (length p <=? length s)%nat eqn:E; [|discriminate H].
  injection H as H. subst q.
  apply Nat.leb_le in E.
  rewrite (xor_zip_length p s E), (xor_zip_invol p s E).
  apply Nat.leb_le in E. rewrite E. reflexivity.
Qed.

(* the byte bound of the statement is not needed *)
Lemma randomize_involutive : forall p q,
  Forall (fun b => b < 256) p -> randomize p = Some q -> randomize q = Some p.
Proof. intros p q _ H. exact (randomize_involutive_gen p q H). Qed.

Lemma randomize_ok (p : list N) :
  (length p <= 256)%nat -> randomize p = Some (xor_zip p PSEUDO_RANDOM_DATA_SEQUENCE).
Proof.
  intros H. unfold randomize. rewrite sequence_length.
  apply Nat.leb_le in H. rewrite H. reflexivity.
Qed.

(* ---- unwrap of a body followed by its own CRC ------------------------------------------------ *)
Lemma unwrap_append_crc (c : N) (rest : list N) :
  unwrap (append_crc (c :: rest)) = Some (c, rest).
Proof.
  unfold unwrap, append_crc. cbv zeta.
  set (body := c :: rest).
  set (hi := crc_hi (crc16 body)). set (lo := crc_lo (crc16 body)).
  assert (Hlen : length (body ++ [hi; lo]) = (length body + 2)%nat)
    by (rewrite app_length; reflexivity).
  rewrite Hlen.
  replace (length body + 2 - 2)%nat with (length body) by lia.
  rewrite firstn_length_app, skipn_length_app.
  assert (Hlt : (length body + 2 <? 3)%nat = false).
  { apply Nat.ltb_ge. unfold body. cbn [length]. lia. }
  rewrite Hlt. unfold body at 1.
  rewrite !N.eqb_refl. reflexivity.
Qed.

(* the head of whatever unwrap returns is the head of its input *)
Lemma unwrap_head (c : N) (rest : list N) (c' : N) (r : list N) :
  unwrap (c :: rest) = Some (c', r) -> c' = c.
Proof.
  intros H. unfold unwrap in H. cbv zeta in H.
  destruct (length (c :: rest) <? 3)%nat eqn:E; [discriminate H|].
  apply Nat.ltb_ge in E.
  destruct rest as [|a [|b rest']]; cbn [length] in E; try lia.
  cbn [length Nat.sub firstn] in H.
  destruct (skipn (S (length rest')) (c :: a :: b :: rest')) as [|hi [|lo [|x t]]];
    try discriminate H.
  destruct ((hi =? crc_hi (crc16 (c :: firstn (length rest') (a :: b :: rest')))) &&
            (lo =? crc_lo (crc16 (c :: firstn (length rest') (a :: b :: rest')))));
    [|discriminate H].
  injection H as H1 H2. symmetry. exact H1.
Qed.

(* ---- parse, with the unwrap result abstracted -------------------------------------------------- *)
Definition parse_body (c0 : N) (u : option (N * list N)) : option frame :=
  if N.land c0 0x80 =? 0x00 then
    match u with
    | Some (c, rest) =>
        match randomize rest with
        | Some p => Some (Data (N.shiftr (N.land c 0x70) 4) (N.shiftr (N.land c 0x08) 3) (N.land c 0x07) p)
        | None => None
        end
    | None => None
    end
  else if N.land c0 0xE0 =? 0x80 then
    match u with
    | Some (c, _) => Some (Ack (N.shiftr (N.land c 0x10) 4) (N.shiftr (N.land c 0x08) 3) (N.land c 0x07))
    | None => None
    end
  else if N.land c0 0xE0 =? 0xA0 then
    match u with
    | Some (c, _) => Some (Nak (N.shiftr (N.land c 0x10) 4) (N.shiftr (N.land c 0x08) 3) (N.land c 0x07))
    | None => None
    end
  else if N.land c0 0xFF =? 0xC0 then
    match u with
    | Some (_, []) => Some Rst
    | _ => None
    end
  else if N.land c0 0xFF =? 0xC1 then
    match u with
    | Some (_, [v; code]) => if v =? 2 then Some (Rstack v code) else None
    | _ => None
    end
  else if N.land c0 0xFF =? 0xC2 then
    match u with
    | Some (_, [v; code]) => if v =? 2 then Some (Error v code) else None
    | _ => None
    end
  else None.

Lemma parse_cons (c : N) (l : list N) : parse (c :: l) = parse_body c (unwrap (c :: l)).
Proof. reflexivity. Qed.

Lemma parse_append_crc (c : N) (rest : list N) :
  parse (append_crc (c :: rest)) = parse_body c (Some (c, rest)).
Proof.
  rewrite <- (unwrap_append_crc c rest).
  unfold append_crc. cbn [app]. apply parse_cons.
Qed.

(* ---- control byte packing: finite sweeps ------------------------------------------------------ *)
Definition sweep3 (a b c : nat) (p : N -> N -> N -> bool) : bool :=
  forallb (fun x => forallb (fun y => forallb (fun z => p x y z) (Nbelow c)) (Nbelow b)) (Nbelow a).

Lemma sweep3_sound (a b c : nat) (p : N -> N -> N -> bool) :
  sweep3 a b c p = true ->
  forall x y z, x < N.of_nat a -> y < N.of_nat b -> z < N.of_nat c -> p x y z = true.
Proof.
  intros H x y z Hx Hy Hz. unfold sweep3 in H.
  pose proof (forallb_Nbelow a _ H x Hx) as H1. cbv beta in H1.
  pose proof (forallb_Nbelow b _ H1 y Hy) as H2. cbv beta in H2.
  exact (forallb_Nbelow c _ H2 z Hz).
Qed.

Definition ctrl_byte (base hi mid lo : N) : N :=
  N.lor (N.lor (N.lor base (N.shiftl hi 4)) (N.shiftl mid 3)) lo.

Definition data_chk (frm re ack : N) : bool :=
  let c := ctrl_byte 0x00 frm re ack in
  (N.land c 0x80 =? 0x00) && (N.shiftr (N.land c 0x70) 4 =? frm)
  && (N.shiftr (N.land c 0x08) 3 =? re) && (N.land c 0x07 =? ack).

Definition ack_chk (res nrdy ack : N) : bool :=
  let c := ctrl_byte 0x80 res nrdy ack in
  negb (N.land c 0x80 =? 0x00) && (N.land c 0xE0 =? 0x80)
  && (N.shiftr (N.land c 0x10) 4 =? res)
  && (N.shiftr (N.land c 0x08) 3 =? nrdy) && (N.land c 0x07 =? ack).

Definition nak_chk (res nrdy ack : N) : bool :=
  let c := ctrl_byte 0xA0 res nrdy ack in
  negb (N.land c 0x80 =? 0x00) && negb (N.land c 0xE0 =? 0x80) && (N.land c 0xE0 =? 0xA0)
  && (N.shiftr (N.land c 0x10) 4 =? res)
  && (N.shiftr (N.land c 0x08) 3 =? nrdy) && (N.land c 0x07 =? ack).

Lemma data_chk_all : sweep3 8 2 8 data_chk = true.
Proof. vm_compute. reflexivity. Qed.
Lemma ack_chk_all : sweep3 2 2 8 ack_chk = true.
Proof. vm_compute. reflexivity. Qed.
Lemma nak_chk_all : sweep3 2 2 8 nak_chk = true.
Proof. vm_compute. reflexivity. Qed.

Lemma data_ctrl_ok (frm re ack : N) : frm < 8 -> re < 2 -> ack < 8 ->
  let c := ctrl_byte 0x00 frm re ack in
  (N.land c 0x80 =? 0x00) = true /\ N.shiftr (N.land c 0x70) 4 = frm
  /\ N.shiftr (N.land c 0x08) 3 = re /\ N.land c 0x07 = ack.
Proof.
  intros Hf Hr Ha c.
  pose proof (sweep3_sound 8 2 8 data_chk data_chk_all frm re ack Hf Hr Ha) as H.
  unfold data_chk in H. cbv zeta in H. fold c in H.
  rewrite !andb_true_iff, !N.eqb_eq in H. rewrite N.eqb_eq. tauto.
Qed.

Lemma ack_ctrl_ok (res nrdy ack : N) : res < 2 -> nrdy < 2 -> ack < 8 ->
  let c := ctrl_byte 0x80 res nrdy ack in
  (N.land c 0x80 =? 0x00) = false /\ (N.land c 0xE0 =? 0x80) = true
  /\ N.shiftr (N.land c 0x10) 4 = res
  /\ N.shiftr (N.land c 0x08) 3 = nrdy /\ N.land c 0x07 = ack.
Proof.
  intros Hf Hr Ha c.
  pose proof (sweep3_sound 2 2 8 ack_chk ack_chk_all res nrdy ack Hf Hr Ha) as H.
  unfold ack_chk in H. cbv zeta in H. fold c in H.
  rewrite !andb_true_iff, negb_true_iff in H.
  destruct H as [[[[H1 H2] H3] H4] H5].
  apply N.eqb_eq in H3, H4, H5. tauto.
Qed.

Lemma nak_ctrl_ok (res nrdy ack : N) : res < 2 -> nrdy < 2 -> ack < 8 ->
  let c := ctrl_byte 0xA0 res nrdy ack in
  (N.land c 0x80 =? 0x00) = false /\ (N.land c 0xE0 =? 0x80) = false
  /\ (N.land c 0xE0 =? 0xA0) = true
  /\ N.shiftr (N.land c 0x10) 4 = res
  /\ N.shiftr (N.land c 0x08) 3 = nrdy /\ N.land c 0x07 = ack.
Proof.
  intros Hf Hr Ha c.
  pose proof (sweep3_sound 2 2 8 nak_chk nak_chk_all res nrdy ack Hf Hr Ha) as H.
  unfold nak_chk in H. cbv zeta in H. fold c in H.
  rewrite !andb_true_iff, !negb_true_iff in H.
  destruct H as [[[[[H1 H2] H3] H4] H5] H6].
  apply N.eqb_eq in H4, H5, H6. tauto.
Qed.

(* ---- parse (encode f) = Some f ---------------------------------------------------------------- *)
Lemma encode_data (frm re ack : N) (p : list N) :
  encode (Data frm re ack p) =
  append_crc (ctrl_byte 0x00 frm re ack :: match randomize p with Some r => r | None => [] end).
Proof. reflexivity. Qed.
Lemma encode_ack (res nrdy ack : N) :
  encode (Ack res nrdy ack) = append_crc [ctrl_byte 0x80 res nrdy ack].
Proof. reflexivity. Qed.
Lemma encode_nak (res nrdy ack : N) :
  encode (Nak res nrdy ack) = append_crc [ctrl_byte 0xA0 res nrdy ack].
Proof. reflexivity. Qed.

Lemma parse_encode : forall f, wf_frame f = true -> parse (encode f) = Some f.
Proof.
  intros f Hwf.
  destruct f as [frm re ack p | res nrdy ack | res nrdy ack | | v c | v c];
    cbn [wf_frame] in Hwf.
  - (* Data *)
    rewrite !andb_true_iff in Hwf. destruct Hwf as [[[[Hf Hr] Ha] Hl] _].
    apply N.ltb_lt in Hf, Hr, Ha. apply Nat.leb_le in Hl.
    rewrite encode_data, (randomize_ok p Hl), parse_append_crc.
    destruct (data_ctrl_ok frm re ack Hf Hr Ha) as [H1 [H2 [H3 H4]]].
    unfold parse_body. rewrite H1, H2, H3, H4.
    rewrite (randomize_involutive_gen p _ (randomize_ok p Hl)). reflexivity.
  - (* Ack *)
    rewrite !andb_true_iff in Hwf. destruct Hwf as [[Hf Hr] Ha].
    apply N.ltb_lt in Hf, Hr, Ha.
    rewrite encode_ack, parse_append_crc.
    destruct (ack_ctrl_ok res nrdy ack Hf Hr Ha) as [H1 [H2 [H3 [H4 H5]]]].
    unfold parse_body. rewrite H1, H2, H3, H4, H5. reflexivity.
  - (* Nak *)
    rewrite !andb_true_iff in Hwf. destruct Hwf as [[Hf Hr] Ha].
    apply N.ltb_lt in Hf, Hr, Ha.
    rewrite encode_nak, parse_append_crc.
    destruct (nak_ctrl_ok res nrdy ack Hf Hr Ha) as [H1 [H2 [H3 [H4 [H5 H6]]]]].
    unfold parse_body. rewrite H1, H2, H3, H4, H5, H6. reflexivity.
  - (* Rst *)
    unfold encode. rewrite parse_append_crc. reflexivity.
  - (* Rstack *)
    rewrite andb_true_iff in Hwf. destruct Hwf as [Hv _]. apply N.eqb_eq in Hv. subst v.
    unfold encode. rewrite parse_append_crc. reflexivity.
  - (* Error *)
    rewrite andb_true_iff in Hwf. destruct Hwf as [Hv _]. apply N.eqb_eq in Hv. subst v.
    unfold encode. rewrite parse_append_crc. reflexivity.
Qed.

Lemma encode_injective : forall f g,
  wf_frame f = true -> wf_frame g = true -> encode f = encode g -> f = g.
Proof.
  intros f g Hf Hg He.
  pose proof (parse_encode f Hf) as Pf. pose proof (parse_encode g Hg) as Pg.
  rewrite He, Pg in Pf. injection Pf as Pf. symmetry. exact Pf.
Qed.

(* ---- classification and fields: sweep over the 256 control bytes ------------------------------ *)
Definition branch (c : N) : option N :=
  if N.land c 0x80 =? 0x00 then Some 0
  else if N.land c 0xE0 =? 0x80 then Some 1
  else if N.land c 0xE0 =? 0xA0 then Some 2
  else if N.land c 0xFF =? 0xC0 then Some 3
  else if N.land c 0xFF =? 0xC1 then Some 4
  else if N.land c 0xFF =? 0xC2 then Some 5
  else None.

Definition oN_eqb (a b : option N) : bool :=
  match a, b with
  | Some x, Some y => x =? y
  | None, None => true
  | _, _ => false
  end.

Lemma oN_eqb_eq (a b : option N) : oN_eqb a b = true -> a = b.
Proof.
  destruct a as [x|], b as [y|]; cbn [oN_eqb]; intros H; try discriminate H.
  - apply N.eqb_eq in H. subst y. reflexivity.
  - reflexivity.
Qed.

Definition byte_chk (c : N) : bool :=
  oN_eqb (branch c) (spec_class c)
  && (N.shiftr (N.land c 0x70) 4 =? (c / 16) mod 8)
  && (N.shiftr (N.land c 0x10) 4 =? (c / 16) mod 2)
  && (N.shiftr (N.land c 0x08) 3 =? (c / 8) mod 2)
  && (N.land c 0x07 =? c mod 8).

Lemma byte_chk_all : forallb byte_chk (Nbelow 256) = true.
Proof. vm_compute. reflexivity. Qed.

Lemma byte_ok (c : N) : c < 256 ->
  branch c = spec_class c
  /\ N.shiftr (N.land c 0x70) 4 = (c / 16) mod 8
  /\ N.shiftr (N.land c 0x10) 4 = (c / 16) mod 2
  /\ N.shiftr (N.land c 0x08) 3 = (c / 8) mod 2
  /\ N.land c 0x07 = c mod 8.
Proof.
  intros Hc. pose proof (forallb_byte byte_chk byte_chk_all c Hc) as H.
  unfold byte_chk in H. rewrite !andb_true_iff in H.
  destruct H as [[[[H1 H2] H3] H4] H5].
  apply oN_eqb_eq in H1. apply N.eqb_eq in H2, H3, H4, H5. tauto.
Qed.

Lemma parse_body_class (c : N) (u : option (N * list N)) (f : frame) :
  parse_body c u = Some f -> branch c = Some (class_of f).
Proof.
  unfold parse_body, branch. intros H.
  destruct (N.land c 0x80 =? 0x00).
  { destruct u as [[c' r]|]; [|discriminate H].
    destruct (randomize r); [|discriminate H]. injection H as H. subst f. reflexivity. }
  destruct (N.land c 0xE0 =? 0x80).
  { destruct u as [[c' r]|]; [|discriminate H]. injection H as H. subst f. reflexivity. }
  destruct (N.land c 0xE0 =? 0xA0).
  { destruct u as [[c' r]|]; [|discriminate H]. injection H as H. subst f. reflexivity. }
  destruct (N.land c 0xFF =? 0xC0).
  { destruct u as [[c' [|x r]]|]; try discriminate H. injection H as H. subst f. reflexivity. }
  destruct (N.land c 0xFF =? 0xC1).
  { destruct u as [[c' [|v [|code [|x r]]]]|]; try discriminate H.
    destruct (v =? 2); [|discriminate H]. injection H as H. subst f. reflexivity. }
  destruct (N.land c 0xFF =? 0xC2).
  { destruct u as [[c' [|v [|code [|x r]]]]|]; try discriminate H.
    destruct (v =? 2); [|discriminate H]. injection H as H. subst f. reflexivity. }
  discriminate H.
Qed.

Lemma parse_body_fields (c : N) (u : option (N * list N)) (f : frame) :
  (forall c' r, u = Some (c', r) -> c' = c) ->
  parse_body c u = Some f ->
  match f with
  | Data frm re ack _ =>
      frm = N.shiftr (N.land c 0x70) 4 /\ re = N.shiftr (N.land c 0x08) 3 /\ ack = N.land c 0x07
  | Ack res nrdy ack | Nak res nrdy ack =>
      res = N.shiftr (N.land c 0x10) 4 /\ nrdy = N.shiftr (N.land c 0x08) 3 /\ ack = N.land c 0x07
  | _ => True
  end.
Proof.
  unfold parse_body. intros Hu H.
  destruct (N.land c 0x80 =? 0x00).
  { destruct u as [[c' r]|]; [|discriminate H].
    pose proof (Hu c' r eq_refl) as Hc. subst c'.
    destruct (randomize r); [|discriminate H]. injection H as H. subst f. repeat split. }
  destruct (N.land c 0xE0 =? 0x80).
  { destruct u as [[c' r]|]; [|discriminate H].
    pose proof (Hu c' r eq_refl) as Hc. subst c'.
    injection H as H. subst f. repeat split. }
  destruct (N.land c 0xE0 =? 0xA0).
  { destruct u as [[c' r]|]; [|discriminate H].
    pose proof (Hu c' r eq_refl) as Hc. subst c'.
    injection H as H. subst f. repeat split. }
  destruct (N.land c 0xFF =? 0xC0).
  { destruct u as [[c' [|x r]]|]; try discriminate H. injection H as H. subst f. exact I. }
  destruct (N.land c 0xFF =? 0xC1).
  { destruct u as [[c' [|v [|code [|x r]]]]|]; try discriminate H.
    destruct (v =? 2); [|discriminate H]. injection H as H. subst f. exact I. }
  destruct (N.land c 0xFF =? 0xC2).
  { destruct u as [[c' [|v [|code [|x r]]]]|]; try discriminate H.
    destruct (v =? 2); [|discriminate H]. injection H as H. subst f. exact I. }
  discriminate H.
Qed.

Lemma classify : forall c rest f, c < 256 ->
  parse (c :: rest) = Some f -> spec_class c = Some (class_of f).
Proof.
  intros c rest f Hc H. rewrite parse_cons in H.
  destruct (byte_ok c Hc) as [Hb _]. rewrite <- Hb.
  exact (parse_body_class c _ f H).
Qed.

Lemma fields : forall c rest f, c < 256 -> parse (c :: rest) = Some f ->
  match f with
  | Data frm re ack _ => frm = (c / 16) mod 8 /\ re = (c / 8) mod 2 /\ ack = c mod 8
  | Ack res nrdy ack | Nak res nrdy ack => res = (c / 16) mod 2 /\ nrdy = (c / 8) mod 2 /\ ack = c mod 8
  | _ => True
  end.
Proof.
  intros c rest f Hc H. rewrite parse_cons in H.
  destruct (byte_ok c Hc) as [_ [H1 [H2 [H3 H4]]]].
  pose proof (parse_body_fields c (unwrap (c :: rest)) f
                (fun c' r Hu => unwrap_head c rest c' r Hu) H) as Hf.
  destruct f as [frm re ack p | res nrdy ack | res nrdy ack | | v code | v code];
    try exact I; rewrite <- ?H1, <- ?H2, <- ?H3, <- ?H4; exact Hf.
Qed.

(* ---- byte stuffing ---------------------------------------------------------------------------- *)
Lemma reserved_cases (c : N) : reserved c = true ->
  c = 0x7D \/ c = 0x7E \/ c = 0x11 \/ c = 0x13 \/ c = 0x18 \/ c = 0x1A.
Proof.
  unfold reserved, reserved_no_esc, ESC, FLAG, XON, XOFF, SUB, CANCEL.
  rewrite !orb_true_iff, !N.eqb_eq. tauto.
Qed.

Lemma reserved_xor (c : N) : reserved c = true -> reserved (N.lxor c 0x20) = false.
Proof.
  intros H. destruct (reserved_cases c H) as [E|[E|[E|[E|[E|E]]]]]; subst c; reflexivity.
Qed.

Lemma not_reserved_not_esc (c : N) : reserved c = false -> (c =? ESC) = false.
Proof.
  unfold reserved. intros H. apply orb_false_iff in H. destruct H as [H _]. exact H.
Qed.

Lemma stuff_clean : forall d b, In b (stuff d) -> reserved b = true -> b = ESC.
Proof.
  intros d b. induction d as [|a d IH]; cbn [stuff]; intros Hin Hres.
  - destruct Hin.
  - destruct (reserved a) eqn:Ea.
    + destruct Hin as [Hin|[Hin|Hin]].
      * symmetry. exact Hin.
      * subst b. rewrite (reserved_xor a Ea) in Hres. discriminate Hres.
      * exact (IH Hin Hres).
    + destruct Hin as [Hin|Hin].
      * subst b. rewrite Ea in Hres. discriminate Hres.
      * exact (IH Hin Hres).
Qed.

Lemma unstuff_stuff : forall d, unstuff (stuff d) = Some d.
Proof.
  unfold unstuff. intros d. induction d as [|a d IH]; cbn [stuff].
  - reflexivity.
  - destruct (reserved a) eqn:Ea.
    + cbn [unstuff_aux]. rewrite N.eqb_refl. rewrite lxor_twice, Ea, IH. reflexivity.
    + cbn [unstuff_aux]. rewrite (not_reserved_not_esc a Ea), IH. reflexivity.
Qed.

Lemma written_frame_clean : forall f b,
  In b (removelast (write_frame [] f)) -> reserved b = true -> b = ESC.
Proof.
  intros f b Hin Hres. unfold write_frame in Hin. cbn [app] in Hin.
  rewrite removelast_last in Hin. exact (stuff_clean (encode f) b Hin Hres).
Qed.
