(* ThreadsafeProxy.__getattr__, the wrapper it returns and the closure the wrapper queues, as emitted from
   their SOURCE TEXT (gen/GenThreadFn.v), against the hand-written decision function of model/Proxy.v.
   The emitted wrapper is a decision tree over the run-time predicates whose leaves list the asyncio calls
   made in the caller's step and what is returned; [action_of] reads such a leaf as one of the model's
   actions (or as none of them), and the decision emitted from the source is the model's [dispatch] for
   all 16 combinations of inputs. *)
From Coq Require Import NArith List Bool.
Import ListNotations.
Require Import BV.model.Proxy BV.gen.GenThreadFn.
Open Scope N_scope.

(* what a leaf of the emitted wrapper means in the vocabulary of the model:
     RunDirect  the partial is invoked here and its result handed back, nothing else
     Drop       nothing is invoked, nothing is scheduled, None is returned
     Submit     the partial of a COROUTINE function is invoked here (this creates the coroutine object and runs
                none of its body), the object goes to run_coroutine_threadsafe on the owner's loop and the caller
                gets the future wrapped for its own loop; for a plain function the same calls would run the body in
                the caller's step, which is no action of the model
     Queue      nothing is invoked here; the checking closure (not the bare partial) goes to call_soon_threadsafe on
                the owner's loop and None is returned *)
Definition action_of (coroutine : bool) (o : list py_eff * py_ret) : option action :=
  match o with
  | ([PInvoke], RetCallResult) => Some RunDirect
  | ([], RetNone) => Some Drop
  | ([PInvoke; PRunCoroutineThreadsafe], RetWrapFuture) => if coroutine then Some Submit else None
  | ([PCallSoonThreadsafe CbClosure], RetNone) => Some Queue
  | _ => None
  end.

(* proxy.<name>(...) : the attribute look-up, then the call of what it returned *)
Definition py_decision (callable coroutine same_loop closed : bool) : option action :=
  match py_getattr callable with
  | AttrTypeError => Some Refuse
  | AttrWrapper => action_of coroutine (py_func_wrapper coroutine same_loop closed)
  end.

Lemma src_decision : forall callable coroutine same_loop closed,
  py_decision callable coroutine same_loop closed = Some (dispatch callable coroutine same_loop closed).
Proof. intros [] [] [] []; reflexivity. Qed.

(* read directly off the emitted wrapper, without [action_of]: a call from another loop never hands the
   invocation's result back to the caller, and never invokes a plain method in the caller's step *)
Lemma src_never_on_caller : forall coroutine closed,
  snd (py_func_wrapper coroutine false closed) <> RetCallResult /\
  (coroutine = false -> ~ In PInvoke (fst (py_func_wrapper coroutine false closed))).
Proof.
  intros [] []; (split; [intro H; discriminate H|]); intros Hc; try discriminate Hc;
    cbn; intro H; repeat (destruct H as [H|H]; [discriminate H|]); exact H.
Qed.

(* the closure queued for a plain method, when the owner's loop runs it: it invokes the method; the
   method's own exception escapes; a value other than None is a TypeError in the owner; None is fine *)
Definition owner_outcome (b : body) : py_owner_outcome :=
  match b with
  | BRaises e => ORaised e
  | BReturns None => OReturned
  | BReturns (Some _) => OTypeError
  end.

Lemma src_closure : forall b, py_closure b = owner_outcome b.
Proof. intros [[v|]|e]; reflexivity. Qed.

(* ... which is the owner's step of the model for a queued (not awaited) call *)
Lemma src_plain_check : forall st id b q, queue st = (id, false, b) :: q ->
  py_closure b <> ONotCalled /\
  executed (pstep st POwnerRuns) = executed st ++ [(id, Owner)] /\
  results (pstep st POwnerRuns) = results st /\
  owner_errors (pstep st POwnerRuns) =
    match py_closure b with OTypeError => owner_errors st ++ [id] | _ => owner_errors st end.
Proof.
  intros st id b q Hq. rewrite src_closure. cbn [pstep]. rewrite Hq.
  destruct b as [[v|]|e]; cbn; (split; [intro H; discriminate H|]); repeat split; reflexivity.
Qed.
