From Coq Require Import String ZArith NArith List Bool Lia.
Import ListNotations.
Require Import BV.lib.EzspTypes BV.gen.GenCallbacks BV.model.Translate.
Open Scope N_scope.

(* the semantic role of a field, by the names the command tables use across versions *)
Definition role_names (role : string) : list string :=
  if String.eqb role "type" then ["type"; "message_type"]%string
  else if String.eqb role "aps" then ["apsFrame"; "aps_frame"]%string
  else if String.eqb role "lqi" then ["lastHopLqi"; "lqi"]%string
  else if String.eqb role "rssi" then ["lastHopRssi"; "rssi"]%string
  else if String.eqb role "sender" then ["sender"; "nwk"]%string
  else if String.eqb role "message" then ["messageContents"; "message"]%string
  else [].

Definition has_role (role : string) (p : nat) (fs : list (string * nat * nat)) : bool :=
  match field_at p fs with
  | Some (n, off) => existsb (String.eqb n) (role_names role) && (off =? 0)%nat
  | None => false
  end.

Definition incoming_ok (v : N) : bool :=
  let fs := fields_of v "incomingMessageHandler" in
  let '(pt, pa, pl, pr, ps, pm) := incoming_positions v in
  has_role "type" pt fs && has_role "aps" pa fs && has_role "lqi" pl fs && has_role "rssi" pr fs
  && has_role "sender" ps fs && has_role "message" pm fs
  && match field_at (pa + 6) fs with Some (n, off) => existsb (String.eqb n) (role_names "aps") && (off =? 6)%nat | None => false end.

Definition join_ok (v : N) : bool :=
  match map (fun x => fst (fst x)) (fields_of v "trustCenterJoinHandler") with
  | [a; b; c; d; e] =>
      String.eqb a "newNodeId" && String.eqb b "newNodeEui64" && String.eqb c "status"
      && String.eqb d "policyDecision" && String.eqb e "parentOfNewNodeId"
  | _ => false
  end
  && forallb (fun x => (snd x =? 1)%nat) (fields_of v "trustCenterJoinHandler").

Lemma all_versions_ok : forallb (fun v => incoming_ok v && join_ok v) (map fst CB_FIELDS) = true.
Proof. vm_compute. reflexivity. Qed.

Lemma version_positions v : In v (map fst CB_FIELDS) -> incoming_ok v = true /\ join_ok v = true.
Proof.
  intros H. pose proof all_versions_ok as A. rewrite forallb_forall in A. specialize (A v H).
  apply andb_true_iff in A. exact A.
Qed.

Lemma aps_layout :
  APS_FRAME_FIELDS = ["profileId"; "clusterId"; "sourceEndpoint"; "destinationEndpoint"; "options"; "groupId"; "sequence"]%string.
Proof. reflexivity. Qed.

(* ---- incoming messages -------------------------------------------------------------------------- *)
Definition is_packet_type (ty : Z) : bool :=
  (ty =? Z.of_N INCOMING_UNICAST)%Z || (ty =? Z.of_N INCOMING_MULTICAST)%Z || (ty =? Z.of_N INCOMING_BROADCAST)%Z.

Definition dest_for (ty own grp : Z) : dest :=
  if (ty =? Z.of_N INCOMING_BROADCAST)%Z then DBroadcast (Z.of_N BROADCAST_ALL_ROUTERS_AND_COORDINATOR)
  else if (ty =? Z.of_N INCOMING_MULTICAST)%Z then DGroup grp
  else DNwk own.

Lemma incoming_translation v own vs evs : translate_incoming v own vs = Some evs ->
  let '(pt, pa, pl, pr, ps, pm) := incoming_positions v in
  exists ty profile cluster sep dep grp tsn lqi rssi sender msg,
    geti pt vs = Some ty /\ geti pa vs = Some profile /\ geti (pa + 1) vs = Some cluster /\
    geti (pa + 2) vs = Some sep /\ geti (pa + 3) vs = Some dep /\ geti (pa + 5) vs = Some grp /\
    geti (pa + 6) vs = Some tsn /\ geti pl vs = Some lqi /\ geti pr vs = Some rssi /\
    geti ps vs = Some sender /\ getb pm vs = Some msg /\
    evs = if is_packet_type ty
          then [EvPacket {| k_src := sender; k_src_ep := sep; k_dst := dest_for ty own grp; k_dst_ep := dep;
                            k_tsn := tsn; k_profile := profile; k_cluster := cluster; k_data := msg;
                            k_lqi := lqi; k_rssi := rssi |}]
          else [].
Proof.
  unfold translate_incoming. destruct (incoming_positions v) as [[[[[pt pa] pl] pr] ps] pm].
  destruct (geti pt vs) as [ty|]; [|discriminate].
  destruct (geti pa vs) as [profile|]; [|discriminate].
  destruct (geti (pa + 1) vs) as [cluster|]; [|discriminate].
  destruct (geti (pa + 2) vs) as [sep|]; [|discriminate].
  destruct (geti (pa + 3) vs) as [dep|]; [|discriminate].
  destruct (geti (pa + 5) vs) as [grp|]; [|discriminate].
  destruct (geti (pa + 6) vs) as [tsn|]; [|discriminate].
  destruct (geti pl vs) as [lqi|]; [|discriminate].
  destruct (geti pr vs) as [rssi|]; [|discriminate].
  destruct (geti ps vs) as [sender|]; [|discriminate].
  destruct (getb pm vs) as [msg|]; [|discriminate].
  intros H. exists ty, profile, cluster, sep, dep, grp, tsn, lqi, rssi, sender, msg.
  repeat (split; [reflexivity|]).
  unfold is_packet_type, dest_for.
  destruct (ty =? Z.of_N INCOMING_BROADCAST)%Z eqn:EB.
  - rewrite orb_true_r. injection H as <-. reflexivity.
  - destruct (ty =? Z.of_N INCOMING_MULTICAST)%Z eqn:EM.
    + rewrite orb_true_r. cbn [orb]. injection H as <-. reflexivity.
    + destruct (ty =? Z.of_N INCOMING_UNICAST)%Z eqn:EU; cbn [orb]; injection H as <-; reflexivity.
Qed.

Lemma join_translation vs evs : translate_join vs = Some evs ->
  exists nwk ieee status decision parent,
    geti 0 vs = Some nwk /\ getl 1 vs = Some ieee /\ geti 2 vs = Some status /\ geti 3 vs = Some decision /\
    geti 4 vs = Some parent /\
    evs = if (status =? Z.of_N DEVICE_LEFT)%Z then [EvLeave nwk ieee]
          else if (decision =? Z.of_N DENY_JOIN)%Z then [] else [EvJoin nwk ieee parent].
Proof.
  unfold translate_join.
  destruct (geti 0 vs) as [nwk|]; [|discriminate].
  destruct (getl 1 vs) as [ieee|]; [|discriminate].
  destruct (geti 2 vs) as [status|]; [|discriminate].
  destruct (geti 3 vs) as [decision|]; [|discriminate].
  destruct (geti 4 vs) as [parent|]; [|discriminate].
  intros H. exists nwk, ieee, status, decision, parent. repeat (split; [reflexivity|]).
  destruct (status =? Z.of_N DEVICE_LEFT)%Z; [injection H as <-; reflexivity|].
  destruct (decision =? Z.of_N DENY_JOIN)%Z; injection H as <-; reflexivity.
Qed.

Lemma other_callbacks_yield_nothing v own name vs :
  name <> "incomingMessageHandler"%string -> name <> "trustCenterJoinHandler"%string ->
  translate v own name vs = Some [].
Proof.
  intros H1 H2. unfold translate.
  destruct (String.eqb_spec name "incomingMessageHandler"); [contradiction|].
  destruct (String.eqb_spec name "trustCenterJoinHandler"); [contradiction|]. reflexivity.
Qed.
